------------------------------ MODULE CobsDec ------------------------------
(***************************************************************************)
(* Resumable in-place frame decoders of mptcore/convert (property C03).    *)
(*                                                                         *)
(* Tier 1 (meaning): the byte stream handed to the decoder (stream), how   *)
(*   much of it has been fed (fedn), how much of it belongs to frames      *)
(*   already answered (fs), and whether an error has been reported (lost:  *)
(*   from then on only the safety clauses are demanded).  CallOK is the    *)
(*   relation between a call's answer and the stream: an answer is         *)
(*     "more"   legal while the current frame's delimiter has not been fed *)
(*     "nobuf"  always legal (the caller grants room at curr and retries)  *)
(*     "msg" m  legal iff the current frame is complete and the reference  *)
(*              decoder of Cobs.tla reads it as m ("ok", or "amb")         *)
(*     "err"    legal iff the current frame is complete and the reference  *)
(*              decoder does not read it as "ok"                           *)
(*   and every call only changes region bytes below its final read         *)
(*   position curr (the already consumed part).                            *)
(* Tier 2 (design): reg is the caller's region (bytes fed so far plus      *)
(*   granted room), curr/pos/dlen/dmsg/code/cpos mirror decode_state       *)
(*   {curr, data.pos, data.len, data.msg, _ctx = cpos*256+code}.  Call     *)
(*   mirrors _decode/_decode_r of decode_cobs.c (write index = pos+dlen,   *)
(*   read index = write index + slack "proc"), CallS mirrors               *)
(*   decode_command.c, Peek the sourcelen = 0 mode, Grant the caller's     *)
(*   answer to MissingBuffer (insert room at curr).                        *)
(* Offsets are 0-based as in the C code; reg[o + 1] is the byte at o.      *)
(***************************************************************************)
EXTENDS Cobs, Integers, TLC

CONSTANTS Kinds,     \* framings explored
          Alpha,     \* byte alphabet of the stream
          MaxLen,    \* longest stream
          Slacks,    \* room granted in front of the stream before the first call
          Grants     \* sizes of a grant after "nobuf"

VARIABLES K, stream, fedn, fs, lost,                \* Tier 1
          reg, curr, pos, dlen, dmsg, code, cpos,   \* Tier 2
          last,                                     \* class of the last call's answer
          obs
vars == <<K, stream, fedn, fs, lost, reg, curr, pos, dlen, dmsg, code, cpos, last, obs>>

Fill == 238      \* 0xEE: content of granted room

---------------------------------------------------------------------------
(* Tier 1 *)

\* what the reference says about the frame that starts at stream offset f,
\* given that n bytes of the stream have been fed:
\*   "open"  delimiter not fed yet; otherwise the RefBody verdict
Verdict(KK, s, f, n) ==
  LET cur == SubSeq(s, f + 1, n) IN
  IF ~HasZero(cur) THEN [st |-> "open", msg |-> <<>>, len |-> 0]
  ELSE LET fr == FirstFrame(cur)
           r  == RefBody(KK, BodyOf(fr))
       IN [st |-> r.st, msg |-> r.msg, len |-> Len(fr)]

\* answer (ret, m) of a full call is one the property allows
CallOK(KK, s, f, n, isLost, ret, m) ==
  \/ isLost
  \/ ret = "nobuf"
  \/ LET v == Verdict(KK, s, f, n) IN
     \/ ret = "more" /\ v.st = "open"
     \/ ret = "msg"  /\ v.st \in {"ok", "amb"} /\ m = v.msg
     \/ ret = "err"  /\ v.st \in {"bad", "amb"}

\* Tier-1 successor of (fs, lost)
NextFs(KK, s, f, n, ret)   == IF ret = "msg" THEN f + Verdict(KK, s, f, n).len ELSE f
NextLost(isLost, ret)      == isLost \/ ret = "err"

\* "need buffer" is an answer about room: it is legal only when the decoder has no
\* consumed byte left to write into (free = curr - pos - len after the call; the
\* command decoder needs two bytes for its header).  How the region is cut into
\* vector parts, zero-length parts included, is no reason to ask for room.
NobufOK(KK, free) == IF KK.cmd THEN free < 2 ELSE free = 0

\* writes stay in the consumed part: highest changed offset below final curr
WriteOK(chgHi, newCurr) == chgHi < newCurr

---------------------------------------------------------------------------
(* Tier 2: COBS family.  s = [reg, done, mlen, proc, code, cpos, ret, safe] *)
(* read offset = done + mlen + proc, write offset = done + mlen.           *)
Rd(s) == s.done + s.mlen + s.proc
Wr(s) == s.done + s.mlen

RECURSIVE CopyData(_, _)
CopyData(s, n) ==
  IF s.cpos >= n THEN s
  ELSE IF Rd(s) >= Len(s.reg) THEN [s EXCEPT !.ret = "more"]
  ELSE LET val == s.reg[Rd(s) + 1] IN
       IF val = 0 THEN [s EXCEPT !.ret = "zero"]
       ELSE IF s.proc = 0 THEN [s EXCEPT !.ret = "nobuf"]
       ELSE CopyData([s EXCEPT !.reg = [s.reg EXCEPT ![Wr(s) + 1] = val],
                               !.safe = s.safe /\ Wr(s) < Rd(s),
                               !.mlen = s.mlen + 1, !.cpos = s.cpos + 1], n)

RECURSIVE FillZero(_, _)
FillZero(s, tot) ==       \* the next code byte (at Rd(s)) has been looked at
  IF s.cpos >= tot THEN s
  ELSE IF s.proc = 0 THEN [s EXCEPT !.ret = "nobuf"]
  ELSE FillZero([s EXCEPT !.reg = [s.reg EXCEPT ![Wr(s) + 1] = 0],
                          !.safe = s.safe /\ Wr(s) < Rd(s),
                          !.mlen = s.mlen + 1, !.proc = s.proc - 1, !.cpos = s.cpos + 1], tot)

RECURSIVE Blocks2(_, _, _)
Blocks2(KK, s, peek) ==
  IF s.code = 0 THEN [s EXCEPT !.ret = "msg"]
  ELSE LET n == DataLen(KK, s.code)
           a == CopyData(s, n)
       IN IF a.ret # "" THEN a
          ELSE IF peek THEN [a EXCEPT !.ret = "more"]
          ELSE IF Rd(a) >= Len(a.reg) THEN [a EXCEPT !.ret = "more"]
          ELSE LET next == a.reg[Rd(a) + 1]
                   z == IF IsPair(KK, a.code) THEN 2
                        ELSE IF a.code < KK.max /\ next # 0 THEN 1 ELSE 0
                   b == FillZero(a, n + z)
               IN IF b.ret # "" THEN b
                  ELSE Blocks2(KK, [b EXCEPT !.proc = b.proc + 1, !.code = next, !.cpos = 0], peek)

\* result record of a call: new decoder state, region, answer
Res(r, cu, po, dl, dm, co, cp, ret, safe) ==
  [reg |-> r, curr |-> cu, pos |-> po, dlen |-> dl, dmsg |-> dm, code |-> co, cpos |-> cp,
   ret |-> ret, safe |-> safe]
Same(ret) == Res(reg, curr, pos, dlen, dmsg, code, cpos, ret, TRUE)

\* mis = 1: the message start address is odd (the decoder then skips one
\* byte of slack when it has one); peek = the sourcelen = 0 mode
DecodeC(mis, peek) ==
  LET d == pos + dlen IN
  IF d > curr \/ d > Len(reg) THEN Same("err")
  ELSE
  LET proc0  == curr - d
      cons   == dmsg >= 0                         \* previous message is consumed now
      done1  == IF cons THEN pos + dmsg ELSE pos
      mlen1  == IF cons THEN dlen - dmsg ELSE dlen
  IN IF cons /\ peek THEN Same("err")
  ELSE IF mlen1 = 0 /\ peek THEN Res(reg, curr, pos, mlen1, -1, code, cpos, "err", TRUE)
  ELSE
  LET post  == IF mlen1 = 0 /\ mis = 1 /\ proc0 >= 1 /\ d < Len(reg) THEN 1 ELSE 0
      done2 == IF mlen1 = 0 THEN d + post ELSE done1
      proc2 == IF mlen1 = 0 THEN proc0 - post ELSE proc0
      rd0   == done2 + mlen1 + proc2
  IN IF rd0 > Len(reg) THEN Res(reg, curr, done2, mlen1, -1, code, cpos, "err", TRUE)
  ELSE IF code = 0 /\ rd0 >= Len(reg)
       THEN Res(reg, curr, done2, mlen1, -1, code, cpos, "more", TRUE)
  ELSE
  LET code1 == IF code = 0 THEN reg[rd0 + 1] ELSE code
      proc3 == IF code = 0 THEN proc2 + 1 ELSE proc2
  IN IF code1 = 0       \* leading / double delimiter
     \* (the code stores the slack count proc, not the absolute read offset, in curr here;
     \*  mirrored as it is: after an error the property demands nothing of curr)
     THEN Res(reg, proc3, done2, mlen1, -1, 0, 0, "err", TRUE)
  ELSE
  LET s0 == [reg |-> reg, done |-> done2, mlen |-> mlen1, proc |-> proc3,
             code |-> code1, cpos |-> IF code = 0 THEN 0 ELSE cpos, ret |-> "", safe |-> TRUE]
      s  == Blocks2(K, s0, peek)
  IN IF s.ret = "msg"
     THEN Res(s.reg, Rd(s), s.done, s.mlen, s.mlen, 0, 0, "msg", s.safe)
     ELSE IF s.ret = "zero" /\ K.inl /\ ~peek
     THEN \* tail inline: the code byte is the last data byte, the delimiter is consumed
          Res([s.reg EXCEPT ![Wr(s) + 1] = s.code], Rd(s) + 1, s.done, s.mlen + 1, s.mlen + 1, 0, 0,
              "msg", s.safe /\ Wr(s) <= Rd(s))
     ELSE Res(s.reg, Rd(s), s.done, s.mlen, -1, s.code, s.cpos,
              IF s.ret = "zero" THEN (IF K.inl THEN "nobuf" ELSE "err") ELSE s.ret, s.safe)

---------------------------------------------------------------------------
(* Tier 2: command text (decode_command.c) *)
FindZero(r, from) ==      \* offset of the first zero at or behind offset from, or Len(r)
  IF \E o \in from..(Len(r) - 1) : r[o + 1] = 0
  THEN CHOOSE o \in from..(Len(r) - 1) : r[o + 1] = 0 /\ \A q \in from..(o - 1) : r[q + 1] # 0
  ELSE Len(r)

DecodeS(peek) ==
  LET len0 == IF dmsg >= 0 THEN dlen - dmsg ELSE dlen IN
  IF dmsg >= 0 /\ peek THEN Same("err")
  ELSE IF len0 = 0 THEN
       IF peek THEN Same("err")
       ELSE IF curr < 2 THEN Same("nobuf")
       ELSE IF curr > Len(reg) THEN Same("err")
       ELSE LET off == curr - 2
                r2  == [reg EXCEPT ![off + 1] = CmdHeader[1], ![off + 2] = CmdHeader[2]]
                z   == FindZero(r2, curr)
            IN IF z < Len(r2)
               THEN Res(r2, z + 1, off, z - off, z - off, 0, 0, "msg", TRUE)
               ELSE Res(r2, Len(r2), off, Len(r2) - off, -1, 0, 0, "more", TRUE)
  ELSE IF curr # pos + len0 \/ curr > Len(reg) THEN Same("err")
  ELSE LET z == FindZero(reg, curr) IN
       IF z < Len(reg)
       THEN IF peek THEN Res(reg, z, pos, z - pos, dmsg, 0, 0, "more", TRUE)
            ELSE Res(reg, z + 1, pos, z - pos, z - pos, 0, 0, "msg", TRUE)
       ELSE Res(reg, Len(reg), pos, Len(reg) - pos, dmsg, 0, 0, "more", TRUE)

Decode(mis, peek) == IF K.cmd THEN DecodeS(peek) ELSE DecodeC(mis, peek)

ChgHi(old, new) ==        \* highest changed offset, -1 if none
  IF \E o \in 0..(Len(old) - 1) : old[o + 1] # new[o + 1]
  THEN CHOOSE o \in 0..(Len(old) - 1) : old[o + 1] # new[o + 1] /\ \A q \in (o + 1)..(Len(old) - 1) : old[q + 1] = new[q + 1]
  ELSE -1

---------------------------------------------------------------------------
Answer(a, arg, exp) == obs' = [a |-> a, arg |-> arg, exp |-> exp]

Init ==
  /\ K \in Kinds
  /\ stream \in SeqsUpTo(Alpha, MaxLen)
  /\ fedn = 0 /\ fs = 0 /\ lost = FALSE
  /\ \E sl \in Slacks :
       /\ reg = [i \in 1..sl |-> Fill] /\ curr = sl
       /\ obs = [a |-> "dinit", arg |-> [kind |-> K.name, m |-> K.max, slack |-> sl], exp |-> [ret |-> "ok"]]
  /\ pos = 0 /\ dlen = 0 /\ dmsg = -1 /\ code = 0 /\ cpos = 0
  /\ last = "none"

Feed(k) ==
  /\ k \in 1..(Len(stream) - fedn)
  /\ reg' = reg \o SubSeq(stream, fedn + 1, fedn + k)
  /\ fedn' = fedn + k
  /\ last' = "feed"
  /\ UNCHANGED <<K, stream, fs, lost, curr, pos, dlen, dmsg, code, cpos>>
  /\ Answer("feed", [data |-> SubSeq(stream, fedn + 1, fedn + k)], [ret |-> "ok"])

Apply(r, a, arg, full) ==
  /\ reg' = r.reg /\ curr' = r.curr /\ pos' = r.pos /\ dlen' = r.dlen /\ dmsg' = r.dmsg
  /\ code' = r.code /\ cpos' = r.cpos
  /\ last' = IF full THEN r.ret ELSE "peek"
  /\ fs' = IF full THEN NextFs(K, stream, fs, fedn, r.ret) ELSE fs
  /\ lost' = IF full THEN NextLost(lost, r.ret) ELSE lost
  /\ UNCHANGED <<K, stream, fedn>>
  /\ Answer(a, arg,
            [ret |-> r.ret,
             msg |-> IF r.ret = "msg" THEN SubSeq(r.reg, r.pos + 1, r.pos + r.dmsg) ELSE <<>>,
             safe |-> r.safe, chg_hi |-> ChgHi(reg, r.reg), curr |-> r.curr,
             slack |-> r.curr - r.pos - r.dlen])

\* an odd start address only matters at a message start with slack in front
MisMatters == ~K.cmd /\ (dlen = 0 \/ dmsg = dlen) /\ curr > pos + dlen
Call(mis) == /\ (mis = 1 => MisMatters)
             /\ Apply(Decode(mis, FALSE), "call", [seg |-> 0, mis |-> mis], TRUE)
Peek      == Apply(Decode(0, TRUE), "peek", [x |-> 0], FALSE)

Grant(k) ==
  /\ last = "nobuf" /\ curr <= Len(reg)
  /\ reg' = SubSeq(reg, 1, curr) \o [i \in 1..k |-> Fill] \o SubSeq(reg, curr + 1, Len(reg))
  /\ curr' = curr + k
  /\ last' = "grant"
  /\ UNCHANGED <<K, stream, fedn, fs, lost, pos, dlen, dmsg, code, cpos>>
  /\ Answer("grant", [k |-> k], [ret |-> "ok"])

Next ==
  \/ \E k \in 1..MaxLen : Feed(k)
  \/ \E mis \in {0, 1} : Call(mis)
  \/ Peek
  \/ \E k \in Grants : Grant(k)
Spec == Init /\ [][Next]_vars

---------------------------------------------------------------------------
(* Invariants *)
TypeOK ==
  /\ fedn \in 0..Len(stream) /\ fs \in 0..fedn
  /\ (~lost => (pos + dlen <= curr /\ curr <= Len(reg)))
  /\ dmsg \in (-1)..dlen

\* the design's answer is one the property allows, it wrote only below the
\* read position at every single write (safe) and only below the final curr
AnswerAllowed ==
  obs.a \in {"call", "peek"} =>
    /\ obs.exp.safe
    /\ WriteOK(obs.exp.chg_hi, obs.exp.curr)
    /\ (obs.a = "call" /\ obs.exp.ret = "nobuf" /\ ~lost) => NobufOK(K, obs.exp.slack)
AnswerHonest ==     \* evaluated as an action property: answer against the state before
  [][ (obs'.a = "call" /\ obs' # obs) =>
        CallOK(K, stream, fs, fedn, lost, obs'.exp.ret, obs'.exp.msg) ]_vars
\* a peek never delivers and never changes what later calls answer: bytes
\* at or beyond the read position stay as they are
PeekKeepsInput ==
  [][ (obs'.a = "peek" /\ obs' # obs) =>
        SubSeq(reg', curr' + 1, Len(reg')) = SubSeq(reg, curr' + 1, Len(reg)) ]_vars
\* unread input is never modified by any call
UnreadKept ==
  [][ (obs'.a \in {"call", "peek"} /\ obs' # obs /\ ~lost') =>
        SubSeq(reg', curr' + 1, Len(reg')) = SubSeq(reg, curr' + 1, Len(reg)) ]_vars
=============================================================================
