SPECIFICATION GenSpec
CONSTANTS
  Configs <- CfgsMix
  Heads <- HeadsPlainQ
  Levels = {}
  Calls = {}
  TextBytes = {0, 10, 97, 195}
  MaxText = 3
  Ops = {}
  LogMax = 256
  AsFound = {}
  Chain = FALSE
  GenMax = 12
VIEW GenView
CONSTRAINT GenBound
CHECK_DEADLOCK FALSE
ACTION_CONSTRAINT Emit
