SPECIFICATION ScanSpec
CONSTANTS Configs = {} OptNames = {} SecNames = {} Values = {} Decos = {} MaxNodes = 0 MaxDepth = 0 ScanLen = 4
ACTION_CONSTRAINT EmitScan
CHECK_DEADLOCK FALSE
