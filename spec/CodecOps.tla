------------------------------ MODULE CodecOps ------------------------------
(***************************************************************************)
(* Extension X01 of C01 / C03: the calls of the frame codecs the base      *)
(* modules CobsEnc / CobsDec leave out.                                    *)
(*                                                                         *)
(* Encoder side (mode = "enc": bare encoder with a room schedule;          *)
(*               mode = "arr": the array path mpt_array_push/encode_array  *)
(*               whose room is managed by the library while a reader       *)
(*               consumes finished bytes):                                 *)
(*   - sessions of several messages in one output (NextMsg),               *)
(*   - Delete(k): source base = 0, iov_len = k: remove the last k          *)
(*     messages, the message in progress counting as one,                  *)
(*   - text framings with a delimiter of 1..3 bytes (encode_string.c):     *)
(*     "ctx" = one byte kept in the encoder context (no extra room),       *)
(*     "buf" = delimiter kept in the scratch area behind the data,         *)
(*   - the raw path of mpt_array_push (no encoder),                        *)
(*   - Shift(n) / ShiftFront / Prepare(n) of encode_array.                 *)
(* Tier 1 stays the one of C01: what the finished part of the output holds *)
(* is exactly the frames of the surviving messages, each of which the      *)
(* independent reference decoder maps back to its message (SurvivorsOnly), *)
(* the part in progress denotes the accepted bytes (PartialDenotes of      *)
(* CobsEnc, PartialTextX), every admitted message can be finished          *)
(* (FinDenotesX) and a message the framing does not admit never is         *)
(* (RefusedX).  Where C01 is silent (may a deletion be refused? which      *)
(* return value?) Tier 1 allows every answer that leaves the output as it  *)
(* was (DeleteOK).                                                         *)
(*                                                                         *)
(* Decoder side (mode = "dec", and "size" for longer frames on a single    *)
(* schedule; the decoder design of CobsDec is instantiated as D):          *)
(*   - SizeQuery(n): source = 0, sourcelen = n: must return at least the   *)
(*     length decoding the next n unread bytes gives the message of the    *)
(*     current frame: the whole message the reference decoder reads when   *)
(*     the frame ends within them, else the part they settle (SizeOK),     *)
(*     and change nothing,                                                 *)
(*   - Reset: source = 0, sourcelen = 0: changes no data, clears the codec *)
(*     context, is idempotent; honesty of later answers is demanded only   *)
(*     when no frame was in progress (the caller threw nothing away).      *)
(***************************************************************************)
EXTENDS CobsEnc, Integers

CONSTANTS Modes,      \* parts explored: subset of {"enc", "arr", "dec", "size"} (one per behaviour, see Init)
          KindsE, KindsA, KindsD,   \* framings of the encoder sessions / the array path / the decoder
          MaxMsgs,    \* messages started per session ("enc")
          MaxMsgsA,   \* the same for the array path
          DelKs,      \* arguments of Delete
          Shifts,     \* arguments of Shift (arr)
          NextSet,    \* messages a session goes on with
          NextSetA,   \* the same for the array path
          DMaxLen, DSlacks, DGrants,   \* decoder: longest stream, initial slack, grant sizes
          DStreams,   \* byte streams handed to the decoder
          DFeeds,     \* feed sizes
          DQs,        \* size query arguments
          DMis,       \* message start address parities explored
          DOps,       \* subset of {"peek", "reset", "size"}: calls explored besides feed / call / grant
          SStreams,   \* part "size": longer frames of short blocks, fed byte by byte on one schedule,
          SQs         \*   with size queries (arguments SQs) at every point

VARIABLES mode,       \* the part this behaviour belongs to
          sess,       \* finished messages in front of the current one (survivors)
          marks,      \* end offset of each of their frames in out
          cons,       \* bytes of out the reader has taken (arr)
          left,       \* message starts left
          \* decoder (names of CobsDec, code -> dcode)
          stream, fedn, fs, lost, reg, curr, pos, dlen, dmsg, dcode, cpos, last

D == INSTANCE CobsDec WITH code <- dcode, MaxLen <- DMaxLen, Slacks <- DSlacks, Grants <- DGrants

xvars == <<sess, marks, cons, left>>
evars == <<msg, acc, out, run, code, cap, pre, st, sess, marks, cons, left>>
dvars == <<stream, fedn, fs, lost, reg, curr, pos, dlen, dmsg, dcode, cpos, last>>
allvars == <<mode, K, obs, evars, dvars>>

---------------------------------------------------------------------------
(* Text framings with an arbitrary delimiter and the raw path.             *)
TText(d, h) == [name |-> "text", cmd |-> TRUE, max |-> 0, inl |-> FALSE, zpe |-> FALSE, zlim |-> 0,
                dl |-> d, how |-> h]
KRaw == [name |-> "raw", cmd |-> FALSE, max |-> 0, inl |-> FALSE, zpe |-> FALSE, zlim |-> 0, raw |-> TRUE]
IsText(KK) == "dl" \in DOMAIN KK
IsRaw(KK)  == "raw" \in DOMAIN KK
Sep(KK)    == IF IsText(KK) /\ KK.how = "buf" THEN Len(KK.dl) ELSE 0     \* room taken by the delimiter copy
DelimOf(KK) == IF IsText(KK) THEN KK.dl ELSE IF IsRaw(KK) THEN <<>> ELSE <<0>>

OccursAt(dl, s, i) == i + Len(dl) - 1 <= Len(s) /\ SubSeq(s, i, i + Len(dl) - 1) = dl
Occurs(dl, s)      == \E i \in 1..Len(s) : OccursAt(dl, s, i)
FirstOcc(dl, s)    == CHOOSE i \in 1..Len(s) : OccursAt(dl, s, i) /\ \A j \in 1..(i - 1) : ~OccursAt(dl, s, j)
LastN(s, n)        == SubSeq(s, Len(s) - n + 1, Len(s))

\* reference text decoder: the first frame of s ends with the first occurrence of the delimiter
\* a text framing admits m iff its frame m \o dl is read back as m
AdmitsT(dl, m) == \A i \in 1..Len(m) : ~OccursAt(dl, m \o dl, i)

XAdmits(KK, m) == IF IsText(KK) THEN AdmitsT(KK.dl, m) ELSE IF IsRaw(KK) THEN TRUE ELSE Admits(KK, m)
\* frame f denotes m
XDenotes(KK, f, m) ==
  IF IsText(KK) THEN f = m \o KK.dl /\ AdmitsT(KK.dl, m)
  ELSE IF IsRaw(KK) THEN f = m
  ELSE WellFormed(f) /\ Denotes(KK, f, m)

\* the reference stream decoder: messages of all frames of s, then what is left over
RECURSIVE XDecAll(_, _)
XDecAll(KK, s) ==
  IF IsText(KK)
  THEN IF ~Occurs(KK.dl, s) THEN [msgs |-> <<>>, rest |-> s]
       ELSE LET i == FirstOcc(KK.dl, s)
                r == XDecAll(KK, DropN(s, i + Len(KK.dl) - 1))
            IN [msgs |-> <<TakeN(s, i - 1)>> \o r.msgs, rest |-> r.rest]
  ELSE IF ~HasZero(s) THEN [msgs |-> <<>>, rest |-> s]
       ELSE LET f == FirstFrame(s)
                d == RefDec(KK, f)
                r == XDecAll(KK, AfterFrame(s))
            IN [msgs |-> <<IF d.st = "ok" THEN Payload(KK, d.msg) ELSE <<-1>> >> \o r.msgs, rest |-> r.rest]

RECURSIVE Concat(_)
Concat(ss) == IF Len(ss) = 0 THEN <<>> ELSE ss[1] \o Concat(DropN(ss, 1))

---------------------------------------------------------------------------
(* Tier 1 for the new calls.                                               *)

\* offer d of message m after a accepted bytes, answered (ret, n)
PushOKX(KK, m, a, d, ret, n) ==
  IF IsText(KK)
  THEN \/ ret = "ok" /\ n \in 1..Len(d) /\ ~Occurs(KK.dl, TakeN(m, a + n))
       \/ ret \in {"nobuf", "ok"} /\ n = 0
       \/ ret = "err" /\ n = 0 /\ Occurs(KK.dl, TakeN(m, a + Len(d)))
  ELSE IF IsRaw(KK) THEN ret = "ok" /\ n = Len(d)
  ELSE PushOK(KK, d, ret, n)

\* termination answered ret with finished bytes frame; decs = the library decoder's reading ("any": none exists)
TermOKX(KK, m, ret, frame, decs) ==
  IF IsText(KK)
  THEN \/ ret = "nobuf"
       \/ ret = "err" /\ ~AdmitsT(KK.dl, m)
       \/ ret = "ok" /\ XDenotes(KK, frame, m)
  ELSE IF IsRaw(KK) THEN ret = "ok" /\ frame = m
  ELSE TermOK(KK, m, ret, frame, decs)

\* deletion of k messages: fin = finished messages, ends = the ends of their frames in o,
\* prog = a message is in progress (its bytes start at offset p); o2 = finished output afterwards
DeleteOK(fin, ends, prog, o, k, ret, same, o2) ==
  LET nf == IF prog THEN k - 1 ELSE k IN
  \/ ret = "err" /\ same = 1                    \* refused: nothing changed
  \/ /\ ret = "ok" /\ nf <= Len(fin)
     /\ o2 = TakeN(o, IF nf = Len(fin) THEN 0 ELSE ends[Len(fin) - nf])

---------------------------------------------------------------------------
(* Tier 2, encoder side.                                                   *)
Fin      == IF st = "done" THEN Append(sess, msg) ELSE sess
FinMarks == IF st = "done" THEN Append(marks, Len(out)) ELSE marks
FinEnd   == IF st = "done" THEN Len(out) ELSE pre
InProg   == st \in {"run", "dead"} /\ (code > 0 \/ Len(out) > pre)      \* encoder context says: message in progress
Data     == SubSeq(out, cons + 1, Len(out))                             \* what the reader still finds (arr)
Path     == IF mode = "arr" THEN "array" ELSE "direct"

XAnswer(a, arg, exp) == obs' = [a |-> a, arg |-> arg, exp |-> exp]
Same == UNCHANGED <<K, msg, acc, out, run, code, cap, pre, st>>

PushT(k) ==
  LET d    == SubSeq(msg, acc + 1, acc + k)
      n    == Min(k, cap - Len(out) - Sep(K))
      back == Min(acc, Len(K.dl) - 1)
      win  == LastN(TakeN(msg, acc), back) \o TakeN(d, n)
  IN IF n <= 0
     THEN Same /\ XAnswer("push", [k |-> k], [ret |-> "nobuf", n |-> 0])
     ELSE IF Occurs(K.dl, win)
     THEN /\ st' = "dead" /\ UNCHANGED <<K, msg, acc, out, run, code, cap, pre>>
          /\ XAnswer("push", [k |-> k], [ret |-> "err", n |-> 0])
     ELSE /\ out' = out \o TakeN(d, n) /\ acc' = acc + n
          /\ UNCHANGED <<K, msg, run, code, cap, pre, st>>
          /\ XAnswer("push", [k |-> k], [ret |-> "ok", n |-> n])

\* raw path: data waits in the scratch part until the segment is marked done
PushR(k) ==
  /\ run' = run \o SubSeq(msg, acc + 1, acc + k) /\ acc' = acc + k
  /\ UNCHANGED <<K, msg, out, code, cap, pre, st>>
  /\ XAnswer("push", [k |-> k], [ret |-> "ok", n |-> k])

XPush(k) ==
  /\ st = "run" /\ k \in 1..(Len(msg) - acc)
  /\ IF IsText(K) THEN PushT(k) ELSE IF IsRaw(K) THEN PushR(k) ELSE IF K.cmd THEN PushS(k) ELSE PushC(k)
  /\ UNCHANGED xvars

TermT ==
  LET sep   == Sep(K)
      room  == cap - Len(out) - sep
      back  == Min(acc, Len(K.dl) - 1)
      win   == LastN(TakeN(msg, acc), back) \o K.dl
      early == \E i \in 1..back : OccursAt(K.dl, win, i)
  IN IF room < (IF sep = 0 THEN 1 ELSE sep)
     THEN Same /\ XAnswer("term", [x |-> 0], [ret |-> "nobuf"])
     ELSE IF sep > 0 /\ early
     THEN /\ st' = "dead" /\ UNCHANGED <<K, msg, acc, out, run, code, cap, pre>>
          /\ XAnswer("term", [x |-> 0], [ret |-> "err"])
     ELSE /\ out' = out \o K.dl /\ st' = "done"
          /\ UNCHANGED <<K, msg, acc, run, code, cap, pre>>
          /\ XAnswer("term", [x |-> 0], [ret |-> "ok", frame |-> DropN(out \o K.dl, pre), decs |-> "any"])

TermR ==
  /\ out' = out \o run /\ run' = <<>> /\ st' = "done"
  /\ UNCHANGED <<K, msg, acc, code, cap, pre>>
  /\ XAnswer("term", [x |-> 0], [ret |-> "ok", frame |-> DropN(out \o run, pre), decs |-> "any"])

XTerm ==
  /\ st = "run" /\ acc = Len(msg)
  /\ IF IsText(K) THEN TermT ELSE IF IsRaw(K) THEN TermR ELSE Term
  /\ UNCHANGED xvars

XGrow(g) == mode = "enc" /\ Grow(g) /\ UNCHANGED xvars

\* the caller starts the next message behind a finished (or deleted) one
NextMsg(m) ==
  /\ st \in {"done", "idle"} /\ left > 0
  /\ sess' = Fin /\ marks' = FinMarks /\ left' = left - 1
  /\ msg' = m /\ acc' = 0 /\ pre' = Len(out) /\ st' = "run" /\ run' = <<>> /\ code' = 0
  /\ UNCHANGED <<K, out, cap, cons>>
  /\ XAnswer("next", [msg |-> m], [ret |-> "ok"])

\* source base = 0, iov_len = k
Delete(k) ==
  /\ st \in {"run", "dead", "done", "idle"}
  /\ LET nf    == IF InProg THEN k - 1 ELSE k
         fin   == Fin
         ends  == FinMarks
         keep  == Len(fin) - nf
         to    == IF keep <= 0 THEN 0 ELSE ends[keep]
         gone  == InProg /\ pre < cons      \* the reader has taken bytes of the message in progress
         \* refusals of the code: more messages asked for than there are; a delimiter kept in the
         \* buffer only allows to drop the message in progress; the raw path has no deletion;
         \* the COBS encoders know that the start of their message in progress is gone
         refuse == \/ nf > Len(fin)
                   \/ Sep(K) > 0 /\ (nf > 0 \/ ~InProg)
                   \/ IsRaw(K)
                   \/ (gone /\ ~K.cmd)
     IN \* removing a message the reader has partly taken is the caller's mistake: not specified
        /\ (IF refuse THEN TRUE ELSE (to >= cons /\ ~gone))
        /\ IF refuse
           THEN /\ UNCHANGED <<K, evars>>
                /\ XAnswer("delete", [k |-> k], [ret |-> "err", same |-> 1])
           ELSE /\ out' = TakeN(out, to) /\ run' = <<>> /\ code' = 0
                /\ sess' = TakeN(fin, keep) /\ marks' = TakeN(ends, keep)
                /\ pre' = to /\ st' = "idle" /\ msg' = <<>> /\ acc' = 0
                /\ UNCHANGED <<K, cap, cons, left>>
                /\ XAnswer("delete", [k |-> k], [ret |-> "ok", out |-> TakeN(out, to)])

\* encode_array::shift(n): the reader takes n finished bytes
Shift(n) ==
  /\ mode = "arr" /\ n \in 1..(Len(out) - cons)
  /\ cons' = cons + n
  /\ UNCHANGED <<K, msg, acc, out, run, code, cap, pre, st, sess, marks, left>>
  /\ XAnswer("shift", [n |-> n], [ret |-> "ok", data |-> SubSeq(out, cons + n + 1, Len(out))])
\* shift(0) moves the live part to the buffer front, prepare(n) reserves room: nothing a reader sees changes
ShiftFront ==
  /\ mode = "arr" /\ cons > 0
  /\ UNCHANGED <<K, evars>>
  /\ XAnswer("front", [x |-> 0], [ret |-> "any", data |-> Data])
Prepare(n) ==
  /\ mode = "arr" /\ (IsRaw(K) \/ n = 1)
  /\ UNCHANGED <<K, evars>>
  /\ XAnswer("prepare", [n |-> n], [ret |-> "any", data |-> Data])

EncInit ==
  /\ K \in (IF mode = "arr" THEN KindsA ELSE KindsE)
  /\ msg \in SeqsUpTo(Alpha, MaxMsg)
  /\ pre = 0 /\ out = <<>> /\ run = <<>> /\ code = 0 /\ acc = 0 /\ st = "run"
  /\ cap \in (IF mode = "arr" THEN {Big} ELSE {Sep(K) + c : c \in Caps})      \* array path: room is the library's matter
  /\ sess = <<>> /\ marks = <<>> /\ cons = 0 /\ left = (IF mode = "arr" THEN MaxMsgsA ELSE MaxMsgs) - 1
  /\ obs = [a |-> "xinit",
            arg |-> [kind |-> K.name, m |-> K.max, path |-> Path, cap |-> cap,
                     dl |-> DelimOf(K), how |-> IF IsText(K) THEN K.how ELSE "-", msg |-> msg],
            exp |-> [ret |-> "ok"]]
  /\ stream = <<>> /\ fedn = 0 /\ fs = 0 /\ lost = FALSE /\ reg = <<>> /\ curr = 0 /\ pos = 0
  /\ dlen = 0 /\ dmsg = -1 /\ dcode = 0 /\ cpos = 0 /\ last = "none"

EncNext ==
  /\ \/ \E k \in 1..MaxMsg : XPush(k)
     \/ \E g \in Grows : XGrow(g)
     \/ XTerm
     \/ \E m \in (IF mode = "arr" THEN NextSetA ELSE NextSet) : NextMsg(m)
     \/ \E k \in DelKs : Delete(k)
     \/ \E n \in Shifts : Shift(n)
     \/ ShiftFront
     \/ \E n \in Shifts : Prepare(n)
  /\ UNCHANGED dvars

---------------------------------------------------------------------------
(* Tier 2, decoder side: the design of CobsDec plus the two calls without  *)
(* source.                                                                 *)

\* stream offset of the decoder's read position
ReadPos == fedn - (Len(reg) - curr)

\* the bound the decoders compute for n remaining encoded bytes
MaxDec(KK, n) == IF KK.cmd THEN n + Len(CmdHeader) ELSE IF KK.zpe THEN 2 * n ELSE n

\* message bytes that are settled once the zero-free start b of a frame has been read: the data bytes seen, and the
\* zeros of every block whose successor's code byte has been seen (what decoding exactly these bytes produces)
RECURSIVE PartFrom(_, _, _)
PartFrom(KK, b, i) ==      \* i: position of a code byte, i <= Len(b)
  LET c    == b[i]
      n    == DataLen(KK, c)
      rest == Len(b) - i
  IN IF rest <= n THEN rest
     ELSE n + (IF IsPair(KK, c) THEN 2 ELSE IF c < KK.max THEN 1 ELSE 0) + PartFrom(KK, b, i + n + 1)
PartLen(KK, b) == IF KK.cmd THEN Len(CmdHeader) + Len(b) ELSE IF Len(b) = 0 THEN 0 ELSE PartFrom(KK, b, 1)

\* Tier 1: the bound covers what decoding the next n unread bytes makes of the current frame: its whole message
\* when the frame ends within them, else the part of it those bytes settle (asked at any point inside a frame)
SizeOK(KK, s, f, rp, n, isLost, bound) ==
  \/ isLost
  \/ LET v == D!Verdict(KK, s, f, rp + n) IN
     IF v.st = "open" THEN bound >= PartLen(KK, SubSeq(s, f + 1, rp + n))
     ELSE v.st \in {"ok", "amb"} => bound >= Len(v.msg)

SizeQuery(n) ==
  /\ ~lost /\ curr <= Len(reg) /\ n \in 1..(Len(stream) - ReadPos)
  /\ UNCHANGED <<K, dvars>>
  /\ XAnswer("size", [n |-> n], [ret |-> "ok", bound |-> MaxDec(K, n) + dlen, chg_hi |-> -1])

\* no frame in progress: a reset throws nothing away
AtBoundary == ~K.cmd /\ dcode = 0 /\ (dlen = 0 \/ dmsg >= 0)

Reset ==
  /\ IF K.cmd
     THEN curr' = 0 /\ pos' = 0 /\ dlen' = 0 /\ dmsg' = -1 /\ dcode' = 0 /\ cpos' = 0
     ELSE dcode' = 0 /\ cpos' = 0 /\ UNCHANGED <<curr, pos, dlen, dmsg>>
  /\ lost' = (lost \/ ~AtBoundary)
  /\ last' = "reset"
  /\ UNCHANGED <<K, stream, fedn, fs, reg>>
  /\ XAnswer("reset", [x |-> 0], [ret |-> "ok", ctx |-> 0, chg_hi |-> -1])

DecInit ==
  /\ K \in KindsD
  /\ stream \in (IF mode = "size" THEN SStreams ELSE DStreams)
  /\ fedn = 0 /\ fs = 0 /\ lost = FALSE
  /\ \E sl \in DSlacks :
       /\ reg = [i \in 1..sl |-> D!Fill] /\ curr = sl
       /\ obs = [a |-> "dinit", arg |-> [kind |-> K.name, m |-> K.max, slack |-> sl], exp |-> [ret |-> "ok"]]
  /\ pos = 0 /\ dlen = 0 /\ dmsg = -1 /\ dcode = 0 /\ cpos = 0
  /\ last = "none"
  /\ msg = <<>> /\ acc = 0 /\ out = <<>> /\ run = <<>> /\ code = 0 /\ cap = 0 /\ pre = 0 /\ st = "idle"
  /\ sess = <<>> /\ marks = <<>> /\ cons = 0 /\ left = 0

DecNext ==
  /\ \/ \E k \in (IF mode = "size" THEN {1} ELSE DFeeds) : D!Feed(k)
     \/ \E mis \in (IF mode = "size" THEN {0} ELSE DMis) : D!Call(mis)
     \/ mode = "dec" /\ "peek" \in DOps /\ D!Peek
     \/ \E k \in DGrants : D!Grant(k)
     \/ mode = "dec" /\ "size" \in DOps /\ \E n \in DQs : SizeQuery(n)
     \/ mode = "size" /\ \E n \in SQs : SizeQuery(n)
     \/ mode = "dec" /\ "reset" \in DOps /\ Reset
  /\ UNCHANGED evars

---------------------------------------------------------------------------
IsDec == mode \in {"dec", "size"}
XInit == mode \in Modes /\ IF IsDec THEN DecInit ELSE EncInit
XNext == (IF IsDec THEN DecNext ELSE EncNext) /\ UNCHANGED mode
XSpec == XInit /\ [][XNext]_allvars

---------------------------------------------------------------------------
(* Invariants, encoder side *)
XTypeOK ==
  /\ acc \in 0..Len(msg)
  /\ Len(out) + code + Sep(K) <= cap
  /\ (~IsRaw(K) => Len(run) = (IF code = 0 THEN 0 ELSE code - 1))
  /\ st \in {"run", "done", "dead", "idle"}
  /\ Len(marks) = Len(sess) /\ pre <= Len(out) /\ cons <= Len(out)
  /\ (Len(marks) > 0 => marks[Len(marks)] = pre)

\* the finished part holds exactly the frames of the surviving messages:
\* frame by frame (marks) and as the reference stream decoder reads it
SurvivorsOnly ==
  LET fin  == Fin
      ends == FinMarks
      o    == TakeN(out, FinEnd)
  IN /\ \A i \in 1..Len(fin) :
          XDenotes(K, SubSeq(o, (IF i = 1 THEN 0 ELSE ends[i - 1]) + 1, ends[i]), fin[i])
     /\ (Len(fin) = 0 => FinEnd = 0)
     /\ (Len(fin) > 0 => ends[Len(fin)] = FinEnd)
     /\ (~IsRaw(K) => XDecAll(K, o) = [msgs |-> fin, rest |-> <<>>])
     /\ (IsRaw(K) => o = Concat(fin))

\* text in progress: the accepted bytes, free of the delimiter
PartialTextX ==
  (st = "run" /\ IsText(K)) => (DropN(out, pre) = TakeN(msg, acc) /\ ~Occurs(K.dl, TakeN(msg, acc)))
PartialRaw ==
  (st = "run" /\ IsRaw(K)) => (Len(out) = pre /\ run = TakeN(msg, acc))
\* COBS kinds and the command text: PartialDenotes / PartialText of CobsEnc (guarded: they read K.cmd)
PartialCobs == (~IsText(K) /\ ~IsRaw(K)) => (PartialDenotes /\ PartialText)

\* frame reached when the rest is offered at once with unlimited room and the message terminated
XFinOut ==
  IF IsText(K) THEN out \o Rest \o K.dl
  ELSE IF IsRaw(K) THEN out \o run \o Rest
  ELSE FinOut(K, out, run, code, Rest)
FinDenotesX ==
  (st = "run" /\ XAdmits(K, msg)) => XDenotes(K, DropN(XFinOut, pre), msg)
\* a message the framing does not admit is never finished
RefusedX == \A i \in 1..Len(Fin) : XAdmits(K, Fin[i])
\* the design answers only what Tier 1 lets it answer (action property: the VIEW of the model
\* configurations hides obs, invariants would skip answers that leave the state as it was)
AnswerAllowedX ==
  [][ /\ (obs'.a = "push" /\ obs' # obs) =>
            PushOKX(K, msg, acc, SubSeq(msg, acc + 1, acc + obs'.arg.k), obs'.exp.ret, obs'.exp.n)
      /\ (obs'.a = "term" /\ obs' # obs /\ obs'.exp.ret = "ok") =>
            TermOKX(K, msg, "ok", obs'.exp.frame, IF IsText(K) \/ IsRaw(K) THEN "any" ELSE obs'.exp.decs)
      /\ (obs'.a = "term" /\ obs' # obs /\ obs'.exp.ret = "err") => TermOKX(K, msg, "err", <<>>, "any")
    ]_allvars

\* Delete against the state before (action property)
DeleteAllowed ==
  [][ (obs'.a = "delete" /\ obs' # obs) =>
        DeleteOK(Fin, FinMarks, st \in {"run", "dead"} /\ acc > 0, TakeN(out, FinEnd), obs'.arg.k, obs'.exp.ret,
                 IF obs'.exp.ret = "err" THEN obs'.exp.same ELSE 0,
                 IF obs'.exp.ret = "ok" THEN obs'.exp.out ELSE <<>>) ]_allvars
\* after a deletion that was not refused encoding continues from a clean state
DeleteClean ==
  [][ (obs'.a = "delete" /\ obs' # obs /\ obs'.exp.ret = "ok") =>
        (st' = "idle" /\ code' = 0 /\ run' = <<>> /\ Len(out') = pre' /\ out' = obs'.exp.out) ]_allvars
\* the reader's view only ever grows at its end, except by an explicit deletion
ReaderView ==
  [][ (obs'.a \in {"push", "term", "next", "front", "prepare", "grow"}) =>
        (TakeN(out', Len(out)) = out /\ cons' = cons) ]_allvars

---------------------------------------------------------------------------
(* Invariants, decoder side *)
DTypeOK == D!TypeOK
DAnswerAllowed ==
  [][ (obs'.a \in {"call", "peek"} /\ obs' # obs) =>
        (obs'.exp.safe /\ D!WriteOK(obs'.exp.chg_hi, obs'.exp.curr)) ]_allvars
\* the bound of the design covers the message of the frame
SizeSound ==
  [][ (obs'.a = "size" /\ obs' # obs) =>
        SizeOK(K, stream, fs, ReadPos, obs'.arg.n, lost, obs'.exp.bound) ]_allvars
\* both calls without source change no data and nothing of the decoder state but the codec context
NoSourceKeeps ==
  [][ (obs'.a \in {"size", "reset"} /\ obs' # obs) => (reg' = reg /\ stream' = stream /\ fedn' = fedn /\ fs' = fs) ]_allvars
SizeKeepsState ==
  [][ (obs'.a = "size" /\ obs' # obs) => UNCHANGED dvars ]_allvars
\* a second reset changes nothing: the state a reset leaves is a fixed point of Reset
ResetIdempotent ==
  [][ (obs'.a = "reset" /\ obs' # obs) =>
        /\ dcode' = 0 /\ cpos' = 0
        /\ (K.cmd => (curr' = 0 /\ pos' = 0 /\ dlen' = 0 /\ dmsg' = -1))
        /\ (lost' \/ (~K.cmd /\ (dlen' = 0 \/ dmsg' >= 0))) ]_allvars
\* after a reset no block is in progress
ResetClears == [][ (obs'.a = "reset" /\ obs' # obs) => (dcode' = 0 /\ cpos' = 0) ]_allvars
\* honesty of CobsDec for the calls that follow (lost is raised by a reset inside a frame)
DAnswerHonest ==
  [][ (obs'.a = "call" /\ obs' # obs) =>
        D!CallOK(K, stream, fs, fedn, lost, obs'.exp.ret, obs'.exp.msg) ]_allvars
DUnreadKept ==
  [][ (obs'.a \in {"call", "peek"} /\ obs' # obs /\ ~lost') =>
        SubSeq(reg', curr' + 1, Len(reg')) = SubSeq(reg, curr' + 1, Len(reg)) ]_allvars
=============================================================================
