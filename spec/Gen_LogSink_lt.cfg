SPECIFICATION GenSpec
CONSTANTS
  Configs <- CfgsMix
  Heads <- HeadsOps
  Levels <- LevelsB
  Calls <- CallsB
  TextBytes = {2, 97}
  MaxText = 1
  Ops = {"set", "log"}
  LogMax = 256
  AsFound = {}
  Chain = FALSE
  GenMax = 9
VIEW GenView
CONSTRAINT GenBound
CHECK_DEADLOCK FALSE
ACTION_CONSTRAINT Emit
