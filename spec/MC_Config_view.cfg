SPECIFICATION SpecC
CONSTANTS Names <- NamesAE Depth = 2 Vals <- ValsQ Sep = 46 Design = "list" Base <- BaseA MaxSlots = 3
  Ends <- Ends0 Strs <- NoStrs Seps <- NoStrs Asgs <- NoStrs Elems <- NoStrs
CONSTRAINT Bound
VIEW ViewC
INVARIANTS Refines PrefixClosed
PROPERTIES MapProp
CHECK_DEADLOCK FALSE
