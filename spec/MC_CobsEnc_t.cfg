SPECIFICATION Spec
CONSTANTS
  Kinds <- KindsT
  Alpha <- AlphaQ
  MaxMsg = 5
  Caps <- CapsQ
  Grows <- GrowsQ
  Pres <- PresQ
  CapMax = 10
CONSTRAINT Bound
VIEW View
INVARIANTS TypeOK AnswerAllowed PartialDenotes PartialText Final Refused FinDenotes RefRoundTrip
CHECK_DEADLOCK FALSE
