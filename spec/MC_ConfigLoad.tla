--------------------------- MODULE MC_ConfigLoad ---------------------------
(* Exhaustive configurations of ConfigLoad: constants only.  One cfg per   *)
(* group of arrival routes (the other groups are switched off by Routes).  *)
EXTENDS ConfigLoad
A == <<97>>
B == <<98>>
E == <<>>
M == Mpt
NamesM  == <<M, A, E>>
NamesMB == <<M, A, B, E>>
NamesAB == <<A, B>>
X == <<120>>
Y == <<121, 32, 122>>                 \* "y z"
ValsX  == {X}
ValsXE == {X, <<>>}
ValsXL == {X, [i \in 1..250 |-> 118]}       \* a value of 250 bytes (buffer backed in the library)
NoBase == <<>>
BaseA  == <<A>>
BaseM  == <<M>>
None == {}
Ends0 == {0}

\* documents
DefaultOnly == {[fmt |-> CT!Null, acc |-> CT!Null]}
FmtLayout == <<91, 42, 93, 32, 61, 32>>          \* "[*] = "
FmtConfig == <<91, 32, 93, 32, 61, 32, 35>>      \* "[ ] = #"  (separated style)
AccAll    == <<69, 78, 83, 87, 101, 110, 115, 119>>
NodeConfigs == {[fmt |-> CT!Null, acc |-> CT!Null], [fmt |-> FmtLayout, acc |-> AccAll], [fmt |-> FmtConfig, acc |-> AccAll]}
NodeConfigsQ == {[fmt |-> CT!Null, acc |-> CT!Null], [fmt |-> FmtConfig, acc |-> AccAll]}
nA == CT!B(<<97>>)  nB == CT!B(<<98>>)  nE == <<>>
vX == CT!B(<<120>>) vE == <<>> vYZ == CT!B(<<121, 32, 122>>) vQ == CT!B(<<97, 34, 98>>)
D(g, g2, b1, b2, b3, term) == [g |-> g, g2 |-> g2, b1 |-> b1, b2 |-> b2, b3 |-> b3, term |-> term]
DTight  == D("none", "none", "none", "none", "none", "nl")
DSpaced == D("sp", "nl", "sp", "sp", "sp", "nl")
DCom    == D("com", "spcom", "tab", "none", "sp", "com")
DBlank  == D("blank", "blank", "mix", "sp2", "mix", "eof")
Decos1 == {DTight}
Decos2 == {DTight, DCom}
Decos4 == {DTight, DSpaced, DCom, DBlank}
OptA  == {nA}
OptAB == {nA, nB}
SecAE == {nA, nE}
SecA  == {nA}
ValsDocQ == {vX, vE}
ValsDocX == {vX}
ValsDocT == {vX, vE, vYZ, vQ}

RLoad   == {"single", "load"}
RNode   == {"single", "nodeparse", "parsenode"}
RCalls  == {"single", "environ", "args", "clear", "msgset", "msgget"}
RAll    == RouteNames
RT1 == {"single"}
RT2 == {"single", "environ"}
RT3 == {"single", "args", "clear"}
RT4 == {"single", "msgset", "msgget"}
RT5 == {"single", "load"}
RT6 == {"single", "nodeparse", "parsenode"}
RDocs   == {"single", "load", "nodeparse", "parsenode"}
CfgTN   == {"top", "null"}
CfgTNV  == {"top", "null", "view"}
CfgT    == {"top"}
CfgTV   == {"top", "view"}
PreQ    == {<<M, A>>, <<M>>, <<A>>}
PreN    == {<<A>>, <<A, A>>, <<A, B>>, <<B>>}
PreD    == {<<M, A>>, <<A, A>>}
PreG    == {<<M, A>>, <<A, A>>}
PreDT   == {<<M, A>>, <<A>>, <<A, A>>, <<A, B>>, <<M>>}
PreC    == {<<M, A>>, <<A>>, <<A, B>>}

\* environments ("NAME=value")
S(str) == str
eMA   == <<77, 80, 84, 95, 65, 61, 120>>                  \* MPT_A=x
ema   == <<109, 112, 116, 95, 97, 61, 121, 32, 122>>      \* mpt_a=y z
eMAB  == <<77, 112, 116, 95, 65, 95, 98, 61, 61>>         \* Mpt_A_b==      (value "=")
eM_A  == <<77, 80, 84, 95, 95, 65, 61>>                   \* MPT__A=        (empty element, empty value)
eOth  == <<65, 61, 120>>                                  \* A=x            (does not match mpt_*)
eNoEq == <<109, 112, 116, 95, 98>>                        \* mpt_b          (no '=': array only)
EC(how, pat, sep, vs) == [how |-> how, pat |-> pat, sep |-> sep, vs |-> vs]
pA    == <<97, 42>>                  \* "a*"
pAll  == <<42>>                      \* "*"
pQ    == <<109, 63, 116, 95, 97>>    \* "m?t_a"
EnvQ == { EC("array", Null0, 0, <<eMA, ema>>), EC("environ", Null0, 0, <<eMA, eOth>>),
          EC("array", pA, 46, <<eOth, eMAB>>), EC("array", Null0, 0, <<eM_A, eNoEq, eMA>>), EC("environ", pA, 0, <<>>) }
EnvT == EnvQ \cup { EC("array", Null0, 95, <<ema, eMA>>), EC("environ", pAll, 0, <<eMAB, eM_A, eOth>>),
                    EC("array", pQ, 97, <<eMA, ema, eMAB>>), EC("array", pAll, 46, <<eOth, eMA>>) }

\* argument strings
aAB  == <<97, 46, 98, 61, 120>>          \* a.b=x
aA   == <<97, 61, 121, 32, 122>>         \* a=y z
aAeq == <<97, 61, 61, 120>>              \* a==x      (value "=x")
aNo  == <<97, 46, 98>>                   \* a.b       (no '=')
aE   == <<61, 120>>                      \* =x        (the path of one empty element)
aMA  == <<109, 112, 116, 46, 97, 61>>    \* mpt.a=    (empty value)
AC(lg, items) == [log |-> lg, items |-> items]
ArgsQ == { AC(0, <<aA, aAB>>), AC(1, <<aAB, aNo, aAeq>>), AC(0, <<aMA, aE>>) }
ArgsT == ArgsQ \cup { AC(1, <<aA, aAeq>>), AC(0, <<aNo>>), AC(0, <<aE, aA, aMA, aAB>>), AC(1, <<aMA>>) }
cA   == <<97>>
cAB  == <<97, 46, 98>>
cMA  == <<109, 112, 116, 46, 97>>
cEmp == <<>>
ClearQ == { <<cA>>, <<cAB, cMA>>, <<cEmp, cAB>> }
ClearT == ClearQ \cup { <<cMA, cA, cAB>>, <<cAB, cA>> }
MS(hdr, split, els, val) == [hdr |-> hdr, split |-> split, els |-> els, val |-> val]
L250 == [i \in 1..250 |-> 118]
XT == <<120, 0>>                      \* "x" sent with its terminator
MSetQ == { MS(0, 1000, <<A>>, X), MS(1, 3, <<A, B>>, X), MS(1, 1000, <<M, E, A>>, <<>>), MS(0, 1, <<>>, X), MS(1, 100, <<A>>, L250),
           MS(0, 1000, <<A>>, XT) }
MSetT == MSetQ \cup { MS(1, 5, <<A, B>>, <<121, 0, 122>>), MS(1, 0, <<A>>, Y), MS(0, 4, <<A, B>>, <<>>), MS(1, 2, <<>>, Y), MS(0, 2, <<E>>, X) }
MG(sep, split, ps) == [sep |-> sep, split |-> split, ps |-> ps]
MGetQ == { MG(0, 1000, << <<A>> >>), MG(32, 2, << <<A>>, <<A, B>> >>), MG(0, 3, << <<M, A>>, <<A>> >>),
           MG(0, 1000, << <<A>>, <<A>>, <<A>> >>) }
MGetT == MGetQ \cup { MG(32, 1000, << <<M, E, A>> >>), MG(0, 1, << <<A, B>>, <<A>>, <<A, B>> >>), MG(32, 0, << <<A, B>> >>) }
LK(how, where) == [how |-> how, where |-> where]
LoadQ == { LK("root", "file"), LK("root", "dir"), LK("prefix", "file") }
LoadTwo == { LK("root", "both"), LK("prefix", "both") }
RLoadOnly == {"load"}
LoadB == { LK("root", "file"), LK("root", "dir"), LK("root", "both"), LK("prefix", "file"), LK("prefix", "both") }
BasesQ == { <<A>>, <<M, A>> }
BasesT == { <<A>>, <<M, A>>, <<E>> }

\* path object
Alpha == {97, 46, 61}
StrsQ == UNION {[1..n -> Alpha] : n \in 0..3}
StrsT == UNION {[1..n -> Alpha] : n \in 0..4}
SepsQ == {46}
AsgsQ == {0, 61}
ElemsQ == {<<>>, <<97>>, <<98, 97>>}
FputQ == {Null0, <<58, 58>>}
FputT == {Null0, <<58, 58>>, <<46>>, <<>>}

SKBoth == {"assign", "remove"}
SKAssign == {"assign"}
DecosC == {DCom}
AllQuotes == 0..255
BareOnly == {0}
\* merge of a parsed text onto an existing tree: three names on one level, every order of the old elements,
\* every text of up to three options over the same names, then single removals
C == <<99>>
NamesABC == <<A, B, C>>
nC == CT!B(<<99>>)  vY == CT!B(<<121>>)
OptABC == {nA, nB, nC}
ValsDocY == {vY}
RMerge == {"single", "parsenode", "nodeparse"}
PreM  == {<<A, A>>, <<A, B>>, <<A, C>>}
PreMT == {<<A, A>>, <<A, B>>, <<A, C>>, <<A, A, B>>, <<A, B, A>>}
BasesA == {<<A>>}
Bound   == Count(st) <= MaxSlots /\ nops <= MaxOps
BoundP  == Len(pel) <= 3 /\ Len(po.buf) <= 6
BoundPT == Len(pel) <= 4 /\ Len(po.buf) <= 8
ViewX == <<tree, st, draft, doc2, nops, narr>>
\* the store sees a document through its forest and events only: texts of one forest are one state
ViewF == <<tree, st, dcfg, dstack, dnn, doc.exp, doc2.exp, nops, narr>>
ViewP == <<pel, po, pst>>
=============================================================================
