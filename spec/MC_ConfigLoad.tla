--------------------------- MODULE MC_ConfigLoad ---------------------------
(* Exhaustive configurations of ConfigLoad: constants only.  One cfg per   *)
(* group of arrival routes (the other groups are switched off by Routes).  *)
EXTENDS ConfigLoad
A == <<97>>
B == <<98>>
E == <<>>
M == Mpt
NamesM  == <<M, A, E>>
NamesMB == <<M, A, B, E>>
NamesAB == <<A, B>>
X == <<120>>
Y == <<121, 32, 122>>                 \* "y z"
ValsX  == {X}
ValsXE == {X, <<>>}
NoBase == <<>>
BaseA  == <<A>>
BaseM  == <<M>>
None == {}
Ends0 == {0}

\* documents
DefaultOnly == {[fmt |-> CT!Null, acc |-> CT!Null]}
FmtLayout == <<91, 42, 93, 32, 61, 32>>          \* "[*] = "
FmtConfig == <<91, 32, 93, 32, 61, 32, 35>>      \* "[ ] = #"  (separated style)
AccAll    == <<69, 78, 83, 87, 101, 110, 115, 119>>
NodeConfigs == {[fmt |-> CT!Null, acc |-> CT!Null], [fmt |-> FmtLayout, acc |-> AccAll], [fmt |-> FmtConfig, acc |-> AccAll]}
nA == CT!B(<<97>>)  nB == CT!B(<<98>>)  nE == <<>>
vX == CT!B(<<120>>) vE == <<>> vYZ == CT!B(<<121, 32, 122>>) vQ == CT!B(<<97, 34, 98>>)
D(g, g2, b1, b2, b3, term) == [g |-> g, g2 |-> g2, b1 |-> b1, b2 |-> b2, b3 |-> b3, term |-> term]
DTight  == D("none", "none", "none", "none", "none", "nl")
DSpaced == D("sp", "nl", "sp", "sp", "sp", "nl")
DCom    == D("com", "spcom", "tab", "none", "sp", "com")
DBlank  == D("blank", "blank", "mix", "sp2", "mix", "eof")
Decos1 == {DTight}
Decos2 == {DTight, DCom}
Decos4 == {DTight, DSpaced, DCom, DBlank}
OptA  == {nA}
OptAB == {nA, nB}
SecAE == {nA, nE}
SecA  == {nA}
ValsDocQ == {vX, vE}
ValsDocT == {vX, vE, vYZ, vQ}

RLoad   == {"single", "load"}
RNode   == {"single", "nodeparse", "parsenode"}
RCalls  == {"single", "environ", "args", "clear", "msgset", "msgget"}
RAll    == RouteNames
CfgTN   == {"top", "null"}
CfgTNV  == {"top", "null", "view"}
CfgT    == {"top"}
PreQ    == {<<M, A>>, <<M>>, <<A>>}
PreN    == {<<A>>, <<A, A>>, <<A, B>>, <<B>>}
PreC    == {<<M, A>>, <<A>>, <<A, B>>}

\* environments ("NAME=value")
S(str) == str
eMA   == <<77, 80, 84, 95, 65, 61, 120>>                  \* MPT_A=x
ema   == <<109, 112, 116, 95, 97, 61, 121, 32, 122>>      \* mpt_a=y z
eMAB  == <<77, 112, 116, 95, 65, 95, 98, 61, 61>>         \* Mpt_A_b==      (value "=")
eM_A  == <<77, 80, 84, 95, 95, 65, 61>>                   \* MPT__A=        (empty element, empty value)
eOth  == <<65, 61, 120>>                                  \* A=x            (does not match mpt_*)
eNoEq == <<109, 112, 116, 95, 98>>                        \* mpt_b          (no '=': array only)
EnvQ == { <<eMA>>, <<eMA, ema>>, <<eOth, eMAB>>, <<eM_A, eNoEq, eMA>> }
EnvT == EnvQ \cup { <<ema, eMA>>, <<eMAB, eM_A, eOth>>, <<>> }
pA    == <<97, 42>>                  \* "a*"
pAll  == <<42>>                      \* "*"
pQ    == <<109, 63, 116, 95, 97>>    \* "m?t_a"
PatQ == {Null0, pA}
PatT == {Null0, pA, pAll, pQ}
SepsE == {0, 46}
SepsET == {0, 46, 95, 97}

\* argument strings
aAB  == <<97, 46, 98, 61, 120>>          \* a.b=x
aA   == <<97, 61, 121, 32, 122>>         \* a=y z
aAeq == <<97, 61, 61, 120>>              \* a==x      (value "=x")
aNo  == <<97, 46, 98>>                   \* a.b       (no '=')
aE   == <<61, 120>>                      \* =x        (the path of one empty element)
aMA  == <<109, 112, 116, 46, 97, 61>>    \* mpt.a=    (empty value)
ArgsQ == { <<aAB>>, <<aA, aAB>>, <<aAB, aNo, aAeq>>, <<aMA, aE>> }
ArgsT == ArgsQ \cup { <<aA, aAeq>>, <<aNo>>, <<aE, aA, aMA, aAB>> }
cA   == <<97>>
cAB  == <<97, 46, 98>>
cMA  == <<109, 112, 116, 46, 97>>
cEmp == <<>>
ClearQ == { <<cA>>, <<cAB, cMA>>, <<cEmp, cAB>> }
ClearT == ClearQ \cup { <<cMA, cA, cAB>>, <<cAB, cA>> }
ElsQ == { <<A>>, <<A, B>>, <<M, E, A>>, <<>> }
MValsQ == { X, <<>> }
MValsT == { X, <<>>, Y }
SplitsQ == {1000, 3}
SplitsT == {1000, 0, 1, 3, 4}
GetQ == { << <<A>> >>, << <<A, B>> >>, << <<A>>, <<A, B>> >>, << <<M, A>>, <<A>> >> }
GetT == GetQ \cup { << <<M, E, A>> >>, << <<A, B>>, <<A>>, <<A, B>> >> }
GSeps == {0, 32}
BasesQ == { <<A>>, <<M, A>> }
BasesT == { <<A>>, <<M, A>>, <<E>> }

\* path object
Alpha == {97, 46, 61}
StrsQ == UNION {[1..n -> Alpha] : n \in 0..3}
StrsT == UNION {[1..n -> Alpha] : n \in 0..4}
SepsQ == {46}
AsgsQ == {0, 61}
ElemsQ == {<<>>, <<97>>, <<98, 97>>}
FputQ == {Null0, <<58, 58>>}
FputT == {Null0, <<58, 58>>, <<46>>, <<>>}

Bound   == Count(st) <= MaxSlots /\ nops <= MaxOps
BoundP  == Len(pel) <= 3 /\ Len(po.buf) <= 6
BoundPT == Len(pel) <= 4 /\ Len(po.buf) <= 8
ViewX == <<tree, st, draft, doc2, nops>>
ViewP == <<pel, po, pst>>
=============================================================================
