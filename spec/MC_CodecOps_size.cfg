SPECIFICATION XSpec
CONSTANTS
  Mode = "dec"
  Kinds <- KindsDQ
  Alpha <- AlphaS
  MaxMsg = 0
  MaxMsgs = 0
  Caps <- None
  Grows <- None
  Pres <- None
  DelKs <- None
  NextSet <- None
  Shifts <- None
  DMaxLen = 8
  DSlacks <- Sl02
  DGrants <- Gr2
  DStreams <- StreamsQ
  DFeeds <- Fd1
  DQs <- Q1236
  DOps <- OpsSize
  DMis <- Mis0
  CapMax = 0
CONSTRAINT BoundD
VIEW View
INVARIANTS DTypeOK
PROPERTIES DAnswerAllowed SizeSound ResetClears NoSourceKeeps SizeKeepsState DAnswerHonest
CHECK_DEADLOCK FALSE
