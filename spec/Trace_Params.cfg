SPECIFICATION TraceSpec
CONSTANTS Mts = {0, 1, 2} UserIds = {16} MaxTok = 100000
CONSTANTS Paths = {} Vals = {}
INVARIANTS TypeOK RefsMatch OnceOnly GoneNotified StockPlaces
POSTCONDITION TraceAccepted
CHECK_DEADLOCK FALSE
