SPECIFICATION GenSpec
CONSTANTS NA = 2 NB = 2 NV = 2 MaxLen = 4 MaxArg = 4 Prune = TRUE MaxDepth = 10
CONSTRAINT Bound
VIEW Skel
INVARIANTS TypeOK Refines
ACTION_CONSTRAINT Emit
CHECK_DEADLOCK FALSE
