SPECIFICATION Spec
CONSTANTS LBits = 4
  Vals = {0,1,2,3,7,8,9,10,14,15,16,17,31,32,33,35,36,99,100,127,128,129,255,256,257,999,1000,4095,4096,4097,9999,10000,32767,32768,65535,65536,65537,99999,1048575,1048576}
  Smalls = {0,1,2,3,4,5,7,8,9,10,12,15,16,17,36,100,10000}
  Radices = {2,8,10,16,36}
INVARIANTS RoundTrip CmpOK AddOK SubOK MulOK ShiftOK BitsOK DigitsOK Pow10OK MulBigOK
CHECK_DEADLOCK FALSE
