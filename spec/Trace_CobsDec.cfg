SPECIFICATION TraceSpec
CONSTANTS
  Kinds = {}
  Alpha = {}
  MaxLen = 0
  Slacks = {}
  Grants = {}
POSTCONDITION TraceAccepted
CHECK_DEADLOCK FALSE
