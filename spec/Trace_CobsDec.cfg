SPECIFICATION TraceSpec
CONSTANTS
  Kinds = {}
  Alpha = {}
  MaxLen = 0
  Slacks = {}
  Grants = {}
INVARIANT AtEnd
POSTCONDITION TraceAccepted
CHECK_DEADLOCK FALSE
