---------------------------- MODULE Gen_Dispatch ----------------------------
(* Behaviour export: one JSON line per generated transition of the control *)
(* skeleton (buffer kind, which slot is live with which id, largest id any  *)
(* slot carries, default id, kind of fallback); tokens are symmetric.      *)
EXTENDS Dispatch, Json
CONSTANT MaxTok, MaxSlots
VARIABLE hist
GenInit == Init /\ hist = <<obs>>
GenNext == Next /\ hist' = Append(hist, obs')
GenSpec == GenInit /\ [][GenNext]_<<vars, hist>>
Bound == ntok <= MaxTok /\ Len(slots) <= MaxSlots
\* the sweep over all handler results does not go on from tables with a snapshot handle (emit does not touch it)
BoundF == Bound /\ snap.st = "none"
\* thorough export: histories with a snapshot handle go one registration attempt less deep
BoundT == Bound /\ (snap.st = "none" \/ ntok < MaxTok - 1)
Skel  == <<kind, [i \in DOMAIN slots |-> IF slots[i].tok # 0 THEN slots[i].id ELSE Zero],
           MaxOfIds({slots[i].id : i \in DOMAIN slots}), def, IF err > 0 THEN 1 ELSE err,
           snap.st, snap.kind, [i \in DOMAIN snap.slots |-> IF snap.slots[i].tok # 0 THEN snap.slots[i].id ELSE Zero]>>
Emit  == PrintT(<<"BEHAV", ToJson(hist')>>)
\* command words: "go"; one with an embedded NUL and a byte >= 128 ("g\0\310"); a longer one
\* of that kind whose hash needs 64 bits ("s\0\310op")
CTexts == {<<103, 111>>, <<115, 0, 200, 111, 112>>}
CTextsT == {<<115, 0, 200, 111, 112>>}
CHRs   == {<<1, 0>>}                                  \* table shapes: one handler result
CTexts1 == {<<103, 0, 200>>}
CTextsF == {<<103, 111>>}
CHRsAll == {<<0, 0>>, <<0, 1>>, <<1, 0>>, <<1, 1>>, <<2, 0>>, <<3, 0>>, <<3, 1>>, <<4, 0>>, <<5, 1>>, <<6, 0>>, <<-1, 0>>, <<-1, 1>>}
=============================================================================
