SPECIFICATION GenSpec
CONSTANTS
  Alphabet <- Alpha5
  Ranges <- Rng1
  MaxLen = 4
  Limit = 65535
  Chunked = FALSE
  NoRangeLen = 0
  CodeDen <- Den1
  Dims = 2
CONSTRAINT Bound2
VIEW View
ACTION_CONSTRAINT Emit
CHECK_DEADLOCK FALSE
