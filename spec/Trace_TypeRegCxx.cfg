SPECIFICATION CTraceSpec
CONSTANTS
  IfBase <- SIfBase  IfAdd <- SIfAdd  IfCap <- SIfCap
  BuiltinIf <- FBuiltinIf
  DynBase <- SDynBase  DynCap <- SDynCap
  MetaBase <- SMetaBase  MetaCap <- SMetaCap
  GenBase <- SGenBase  GenCap <- SGenCap
  Chunk = 30
  PtrSize <- SPtr
  FixedSize <- SFixedSize
  FixedManaged <- SFixedManaged
  Optional = {}
  Names = {}
  Sizes = {}
  Probe = {}
  CxxTypes <- XTypes
  CxxCat <- XCat
  CxxSize <- XSize
  CxxFixedId <- XFixedId
  CxxName <- XName
  CxxClassK <- XClassK
  CxxClassT <- XClassT
  Vias = {}
  MetaAsk = {}
  TraitsRegs = {}
  GenericPtr = "generic_ptr"
  BasicPtr = "basic_ptr"
  PayTypes <- XPayTypes
  WrapTypes <- XPayTypes
  Slots <- TSlots
  Vals = {}
  PropBuf <- XPropBuf
INVARIANTS InRange CxxInRange
PROPERTIES Stable RefuseKeeps CxxStable
POSTCONDITION TraceAccepted
CHECK_DEADLOCK FALSE
