---------------------------- MODULE Trace_Convert ----------------------------
(***************************************************************************)
(* Trace validation at the real widths: every recorded conversion event    *)
(* (source as limbs, result with and without destination, target bytes as  *)
(* limbs, consumed length for text) must be accepted by the Tier 1         *)
(* judgement of Convert (ConvOK / TextOK).  Events are independent; the    *)
(* trace index is the only state.  A rejected event is printed            *)
(* (<<"REJECT", index>>) and the validation continues, so that one run     *)
(* reports every event the specification does not admit.                   *)
(***************************************************************************)
EXTENDS MC_Convert, Json, IOUtils
VARIABLE l
(* the log is read once (initial predicate) and kept in a TLC register;   *)
(* a plain definition is re-evaluated, i.e. the file re-read, per state   *)
TraceLog == TLCGet(7)

Step(ev) == obs' = [a |-> ev.a, arg |-> [b |-> ev.b], exp |-> [x |-> 0]]

LiftObs(o) == [o EXCEPT !.w = Lift(@)]
Matches(ev) ==
  CASE ev.a = "conv" -> ConvOK(ev.arg.dst, Lift(ev.obs.v), LiftObs(ev.obs))
    [] ev.a = "text" -> TextOK(ev.arg.dst, ev.arg.chars, ev.arg.base, LiftObs(ev.obs))
    [] OTHER         -> FALSE          \* Crash / Hang / Missing: "never faults"

TraceInit == TLCSet(7, ndJsonDeserialize(IOEnv.TRACE)) /\ l = 1 /\ Init
TraceNext ==
  /\ l <= Len(TraceLog)
  /\ l' = l + 1
  /\ LET ev == TraceLog[l] IN
       /\ Step(ev)
       /\ IF Matches(ev) THEN TRUE ELSE PrintT(<<"REJECT", l>>)   \* reported, validation goes on
TraceSpec == TraceInit /\ [][TraceNext]_<<vars, l>>

TraceAccepted ==
  LET n == TLCGet("stats").diameter - 1 IN
  /\ PrintT(<<"MATCHED", n>>)
  /\ n = Len(TraceLog)
=============================================================================
