SPECIFICATION TraceSpec
CONSTANTS NI = 4 Texts = {}
INVARIANTS TypeOK Refines
POSTCONDITION TraceAccepted
CHECK_DEADLOCK FALSE
