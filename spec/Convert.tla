------------------------------ MODULE Convert ------------------------------
(***************************************************************************)
(* Scalar conversion of mptcore/convert (property C07):                    *)
(*   "a conversion is exact or refused; asking gives the same verdict".    *)
(*                                                                         *)
(* Numbers are records [k, neg, m, e, d]:  k = "fin" | "inf" | "nan",      *)
(*   value = (-1)^neg * m * 2^e * 10^d,  m a BigNat (limb sequence).       *)
(* Integers have e >= 0 (or low bits zero) and d = 0; floating values are  *)
(* dyadic (d = 0); d # 0 only for decimal numerals with fraction/exponent. *)
(*                                                                         *)
(* Tier 1 (meaning):  Same(dst, v, w)  -- w denotes the same number as v   *)
(*   in the target type (integers: equal; floating targets: w is one of    *)
(*   the two neighbours of v in the format, a finite v never becomes       *)
(*   inf/NaN);  IntDenote / FloatDenote -- the number a numeral denotes    *)
(*   under the C grammar (blank*, sign, 0x/0 prefix, digits);              *)
(*   ConvOK / TextOK judge one observation (result of the call with a      *)
(*   destination, result without one, target bytes).                       *)
(* Tier 2 (design):  the per-source switch of data_convert_int.c as a      *)
(*   table of range tests followed by a C store (value modulo 2^bits),     *)
(*   the C cast to a floating type (round to nearest even), and the        *)
(*   strtoimax/strtoumax scan followed by the width check.  The design     *)
(*   produces an observation; TLC checks that Tier 1 accepts it for every  *)
(*   input of the model domain.                                            *)
(* The type table is a constant so that the same definitions are checked   *)
(* exhaustively on scaled types (3..6 bit integers, 4..6 bit mantissas)    *)
(* and used at the real widths for generation and trace validation.        *)
(***************************************************************************)
EXTENDS BigNat, FiniteSets

CONSTANTS TypeTab,    \* type letter -> [kind |-> "int", sg, bits] | [kind |-> "flt", p, emax]
          GraphLo, GraphHi,   \* character codes accepted for a 'c' target (isgraph, "C" locale)
          MaxBits     \* width of intmax_t / uintmax_t

VARIABLE obs
vars == <<obs>>

Min2(x, y) == IF x < y THEN x ELSE y
Max2(x, y) == IF x > y THEN x ELSE y

---------------------------------------------------------------------------
(* numbers *)
Fin(neg, m, e) == [k |-> "fin", neg |-> IF IsZero(m) THEN 0 ELSE neg, m |-> m, e |-> IF IsZero(m) THEN 0 ELSE e, d |-> 0]
Inf(neg)       == [k |-> "inf", neg |-> neg, m |-> << >>, e |-> 0, d |-> 0]
NaN            == [k |-> "nan", neg |-> 0, m |-> << >>, e |-> 0, d |-> 0]
None           == [k |-> "none", neg |-> 0, m |-> << >>, e |-> 0, d |-> 0]
Lift(n)        == [k |-> n.k, neg |-> n.neg, m |-> n.m, e |-> n.e, d |-> 0]   \* a number logged by the driver
IntNum(neg, m) == Fin(neg, m, 0)
NatNum(n)      == IntNum(0, FromInt(n))
Abs(v)         == [v EXCEPT !.neg = 0]
Neg(v)         == IF IsZero(v.m) THEN v ELSE [v EXCEPT !.neg = 1 - v.neg]

SgnOf(v)  == IF IsZero(v.m) THEN 0 ELSE IF v.neg = 1 THEN -1 ELSE 1
TopBit(v) == BitLen(v.m) + v.e          \* d = 0, m # 0:  2^(TopBit-1) <= |v| < 2^TopBit

(* 2^Log2Lo(v) <= |v| < 2^Log2Hi(v) for v # 0  (3.321 < log2(10) < 3.322) *)
Log2Lo(v) == BitLen(v.m) - 1 + v.e
             + (IF v.d >= 0 THEN (v.d * 3321) \div 1000 ELSE 0 - (((0 - v.d) * 3322 + 999) \div 1000))
Log2Hi(v) == BitLen(v.m) + v.e
             + (IF v.d >= 0 THEN (v.d * 3322 + 999) \div 1000 ELSE 0 - (((0 - v.d) * 3321) \div 1000))

(* magnitude comparison of finite numbers: -1, 0, 1 *)
MagCmp(a, b) ==
  IF IsZero(a.m) \/ IsZero(b.m)
  THEN (IF IsZero(a.m) /\ IsZero(b.m) THEN 0 ELSE IF IsZero(a.m) THEN -1 ELSE 1)
  ELSE IF Log2Hi(a) <= Log2Lo(b) THEN -1        \* decided by the binary magnitudes alone
  ELSE IF Log2Hi(b) <= Log2Lo(a) THEN 1
  ELSE LET e2  == Min2(a.e, b.e)
           d10 == Min2(a.d, b.d)
           A   == MulPow10(Shl(a.m, a.e - e2), a.d - d10)
           B   == MulPow10(Shl(b.m, b.e - e2), b.d - d10)
       IN Cmp(A, B)
NumCmp(a, b) ==
  IF SgnOf(a) # SgnOf(b) THEN (IF SgnOf(a) < SgnOf(b) THEN -1 ELSE 1)
  ELSE IF SgnOf(a) >= 0 THEN MagCmp(a, b) ELSE MagCmp(b, a)

IsInteger(v) == v.k = "fin" /\ v.d = 0 /\ (IsZero(v.m) \/ v.e >= 0 \/ MultPow2(v.m, -v.e))

(* canonical form used in exported expectations: m odd (or zero) *)
Canon(v) ==
  IF v.k # "fin" THEN v
  ELSE IF IsZero(v.m) THEN Fin(0, Zero, 0)
  ELSE LET tz == TrailZeros(v.m) IN Fin(v.neg, Shr(v.m, tz), v.e + tz)

---------------------------------------------------------------------------
(* integer types *)
IsIntType(t)  == TypeTab[t].kind = "int"
IntHi(T)      == IntNum(0, Sub(Pow2(T.bits - T.sg), One))
IntLo(T)      == IF T.sg = 1 THEN IntNum(1, Pow2(T.bits - 1)) ELSE IntNum(0, Zero)
InIntRange(T, v) == /\ IsInteger(v)
                    /\ NumCmp(IntLo(T), v) <= 0
                    /\ NumCmp(v, IntHi(T)) <= 0

(* floating formats: precision p, largest exponent emax, subnormals *)
QMin(T)         == 2 - T.emax - T.p                  \* exponent of the smallest subnormal
Quantum(T, v)   == Max2(TopBit(v) - T.p, QMin(T))     \* grid spacing exponent at |v| (v # 0, d = 0)
OnGrid(w, q)    == w.e >= q \/ MultPow2(w.m, q - w.e)
MaxFin(T)       == Fin(0, Sub(Pow2(T.p), One), T.emax - T.p + 1)
TooBig(T, w)    == TopBit(w) - 1 > T.emax
InFormat(T, w)  == /\ w.k = "fin" /\ w.d = 0
                   /\ (IsZero(w.m) \/ (~TooBig(T, w) /\ OnGrid(w, Quantum(T, w))))

(* |w| + 2^q  /  |w| - 2^q  (w # 0) *)
StepMag(w, q, up) ==
  LET ee == Min2(w.e, q)
      M  == Shl(w.m, w.e - ee)
      Q  == Shl(One, q - ee)
  IN Fin(0, IF up THEN Add(M, Q) ELSE Sub(M, Q), ee)
MagUp(T, w)   == IF IsZero(w.m) THEN Fin(0, One, QMin(T)) ELSE StepMag(w, Quantum(T, w), TRUE)
MagDown(T, w) == LET q    == Quantum(T, w)
                     pow2 == TrailZeros(w.m) = BitLen(w.m) - 1
                 IN StepMag(w, IF pow2 /\ q > QMin(T) THEN q - 1 ELSE q, FALSE)

(* w (in the format) is v or one of the two format values around v.        *)
(* C(x) compares |x| with |v| for a dyadic x (-1, 0, 1); vs = sign of v.    *)
NeighbourBy(T, vs, w, C(_)) ==
  IF vs = 0 THEN IsZero(w.m)                               \* zero is representable
  ELSE IF IsZero(w.m) THEN C(MagUp(T, w)) > 0              \* |v| below the smallest subnormal
  ELSE IF vs # SgnOf(w) THEN FALSE                         \* zero lies between
  ELSE LET c == C(w) IN
       IF c = 0 THEN TRUE
       ELSE IF c < 0 THEN (LET u == MagUp(T, w) IN TooBig(T, u) \/ C(u) > 0)
       ELSE C(MagDown(T, w)) < 0

(* decided by the binary magnitudes alone (1 / -1), or 0 = look closer *)
FarCmp(x, v) == IF Log2Hi(x) <= Log2Lo(v) THEN -1 ELSE IF Log2Hi(v) <= Log2Lo(x) THEN 1 ELSE 0

(* a decimal numeral m * 2^e * 10^d is made dyadic once (d > 0), or the    *)
(* format values are scaled by 5^-d once (d < 0); the power is shared by    *)
(* the comparisons                                                          *)
Neighbour(T, v, w) ==
  IF v.d = 0 THEN NeighbourBy(T, SgnOf(v), w, LAMBDA x : MagCmp(x, v))
  ELSE IF v.d > 0
  THEN LET vv == Fin(v.neg, MulPow5(v.m, v.d), v.e + v.d) IN
       NeighbourBy(T, SgnOf(v), w,
                   LAMBDA x : IF IsZero(x.m) THEN -1 ELSE IF FarCmp(x, v) # 0 THEN FarCmp(x, v) ELSE MagCmp(x, vv))
  ELSE LET p5 == MulPow5(One, 0 - v.d)
           vs == Fin(0, v.m, v.e)
       IN NeighbourBy(T, SgnOf(v), w,
                      LAMBDA x : IF IsZero(x.m) THEN -1 ELSE IF FarCmp(x, v) # 0 THEN FarCmp(x, v)
                                 ELSE MagCmp(Fin(0, Mul(p5, x.m), x.e - v.d), vs))

(***************************************************************************)
(* Tier 1: the target value w denotes the same number as the source v.    *)
(***************************************************************************)
Same(dst, v, w) ==
  LET T == TypeTab[dst] IN
  IF T.kind = "int"
  THEN v.k = "fin" /\ w.k = "fin" /\ InIntRange(T, w) /\ NumCmp(v, w) = 0
  ELSE CASE v.k = "nan" -> w.k = "nan"
         [] v.k = "inf" -> w.k = "inf" /\ w.neg = v.neg
         [] v.k = "fin" -> InFormat(T, w) /\ Neighbour(T, v, w)
         [] OTHER       -> FALSE

---------------------------------------------------------------------------
(* constructive counterpart (dyadic v only): the admissible results *)
FloorMag(T, v) == LET q == Quantum(T, v) IN
                  IF OnGrid(v, q) THEN Abs(v) ELSE Fin(0, Shr(v.m, q - v.e), q)
CeilMag(T, v)  == LET q == Quantum(T, v) IN
                  IF OnGrid(v, q) THEN Abs(v) ELSE Fin(0, Add(Shr(v.m, q - v.e), One), q)
WithSign(v, w) == IF v.neg = 1 THEN Neg(w) ELSE w

Allowed(dst, v) ==
  LET T == TypeTab[dst] IN
  IF T.kind = "int"
  THEN (IF v.k = "fin" /\ InIntRange(T, v) THEN <<Canon(v)>> ELSE << >>)
  ELSE CASE v.k = "nan" -> <<NaN>>
         [] v.k = "inf" -> <<Inf(v.neg)>>
         [] OTHER ->
              IF IsZero(v.m) THEN <<Fin(0, Zero, 0)>>
              ELSE IF MagCmp(v, MaxFin(T)) > 0 THEN <<Canon(WithSign(v, MaxFin(T)))>>
              ELSE LET lo == FloorMag(T, v)
                       hi == CeilMag(T, v)
                   IN IF MagCmp(lo, hi) = 0 THEN <<Canon(WithSign(v, lo))>>
                      ELSE <<Canon(WithSign(v, lo)), Canon(WithSign(v, hi))>>

(***************************************************************************)
(* Tier 2: design of the value converters                                  *)
(***************************************************************************)
(* C cast to a floating type: round to nearest, ties to even; "inf" when   *)
(* the rounded value leaves the format                                     *)
RoundNE(T, v) ==
  IF IsZero(v.m) THEN Fin(0, Zero, 0)
  ELSE LET q == Quantum(T, v) IN
       IF OnGrid(v, q) THEN (IF TooBig(T, v) THEN Inf(v.neg) ELSE v)
       ELSE LET s    == q - v.e
                dn   == Shr(v.m, s)
                rem  == LowBits(v.m, s)
                half == Pow2(s - 1)
                c    == Cmp(rem, half)
                up   == c > 0 \/ (c = 0 /\ ~MultPow2(dn, 1))
                r    == Fin(v.neg, IF up THEN Add(dn, One) ELSE dn, q)
            IN IF ~IsZero(r.m) /\ TooBig(T, r) THEN Inf(v.neg) ELSE r

(* C store of an integer into an integer object: value modulo 2^bits *)
Wrap(T, v) ==
  LET lowm == LowBits(Shl(v.m, v.e), T.bits)
      pos  == IF v.neg = 1 /\ ~IsZero(lowm) THEN Sub(Pow2(T.bits), lowm) ELSE lowm   \* v mod 2^bits
  IN IF T.sg = 1 /\ Cmp(pos, Pow2(T.bits - 1)) >= 0
     THEN IntNum(1, Sub(Pow2(T.bits), pos))
     ELSE IntNum(0, pos)

(* range tests applied per converter and target before the store           *)
(* (mptcore/convert/data_convert_int.c, data_convert_float.c):             *)
(*   "lo" refuse below the target minimum, "hi" refuse above its maximum,  *)
(*   "graph" printable character test, "flt" cast to a floating type.      *)
(* A missing target is an unsupported conversion (BadType).                *)
F3 == [f |-> {"flt"}, d |-> {"flt"}, e |-> {"flt"}]
Tests ==
  [ int8   |-> [c |-> {"graph"}, b |-> {}, y |-> {"lo"}, n |-> {}, q |-> {"lo"}, i |-> {}, u |-> {"lo"},
                x |-> {}, t |-> {"lo"}] @@ F3,
    uint8  |-> [c |-> {"graph"}, b |-> {"hi"}, y |-> {}, n |-> {}, q |-> {}, i |-> {}, u |-> {},
                x |-> {}, t |-> {}] @@ F3,
    int16  |-> [c |-> {"graph"}, b |-> {"lo", "hi"}, y |-> {"lo", "hi"}, n |-> {}, q |-> {"lo"}, i |-> {}, u |-> {"lo"},
                x |-> {}, t |-> {"lo"}] @@ F3,
    uint16 |-> [c |-> {"graph"}, b |-> {"hi"}, y |-> {"hi"}, q |-> {}, i |-> {}, u |-> {},
                x |-> {}, t |-> {}] @@ F3,
    int32  |-> [c |-> {"graph"}, b |-> {"lo", "hi"}, y |-> {"lo", "hi"}, n |-> {"lo", "hi"}, q |-> {"lo", "hi"},
                i |-> {}, u |-> {"lo"}, x |-> {}, t |-> {"lo"}] @@ F3,
    uint32 |-> [c |-> {"graph"}, b |-> {"hi"}, y |-> {"hi"}, n |-> {"hi"}, q |-> {"hi"}, i |-> {"hi"}, u |-> {},
                x |-> {}, t |-> {}] @@ F3,
    int64  |-> [c |-> {"graph"}, b |-> {"lo", "hi"}, y |-> {"lo", "hi"}, n |-> {"lo", "hi"}, q |-> {"lo", "hi"},
                i |-> {"lo", "hi"}, u |-> {"lo", "hi"}, x |-> {}, t |-> {"lo"}] @@ F3,
    uint64 |-> [c |-> {"graph"}, b |-> {"hi"}, y |-> {"hi"}, n |-> {"hi"}, q |-> {"hi"}, i |-> {"hi"}, u |-> {"hi"},
                x |-> {"hi"}, t |-> {}] @@ F3,
    float32 |-> F3, float64 |-> F3, exflt |-> F3 ]

(* mpt_data_converter: converter chosen by the source type *)
ConverterOf(api, src) ==
  CASE src \in {"c", "b"} -> "int8"   [] src = "y" -> "uint8"
    [] src = "n" -> "int16"           [] src = "q" -> "uint16"
    [] src = "i" -> "int32"           [] src = "u" -> "uint32"
    [] src = "x" -> "int64"           [] src = "t" -> "uint64"
    [] src = "l" -> (IF api = "data" THEN "int64" ELSE "none")
    [] src = "f" -> "float32"         [] src = "d" -> "float64"   [] src = "e" -> "exflt"

ObsRefused == [r |-> "refused", q |-> "refused", st |-> 0, sb |-> 0, ov |-> 0, w |-> None]
ObsOk(w)   == [r |-> "ok", q |-> "ok", st |-> 1, sb |-> 1, ov |-> 0, w |-> w]

DesignData(cv, dst, v) ==
  LET d2 == IF dst = "l" /\ cv \notin {"float32", "float64", "exflt"} THEN "x" ELSE dst IN
  IF cv = "none" \/ d2 \notin DOMAIN Tests[cv] THEN ObsRefused
  ELSE LET ts == Tests[cv][d2]
           T  == TypeTab[d2]
       IN IF "flt" \in ts
          THEN (IF v.k # "fin" THEN ObsOk(v)
                ELSE LET r == RoundNE(T, v) IN IF r.k = "inf" THEN ObsRefused ELSE ObsOk(r))
          ELSE IF "graph" \in ts /\ (NumCmp(v, NatNum(GraphLo)) < 0 \/ NumCmp(v, NatNum(GraphHi)) > 0) THEN ObsRefused
          ELSE IF "lo" \in ts /\ NumCmp(v, IntLo(T)) < 0 THEN ObsRefused
          ELSE IF "hi" \in ts /\ NumCmp(v, IntHi(T)) > 0 THEN ObsRefused
          ELSE ObsOk(Wrap(T, v))

(* mpt_value_convert / mpt_iterator_consume: converter first, then raw copy for identical types *)
Design(api, src, dst, v) ==
  LET r == DesignData(ConverterOf(api, src), dst, v) IN
  IF r.r = "ok" \/ api = "data" THEN r
  ELSE IF src = dst /\ src # "l" THEN ObsOk(v) ELSE ObsRefused     \* 'l' has no type traits: BadArgument

(***************************************************************************)
(* Tier 1: judgement of one observed conversion                            *)
(*   o = [r, q, st, sb, ov, w]: result with / without destination, target  *)
(*   written, written identically over different previous contents, bytes  *)
(*   behind the target changed, target value                               *)
(***************************************************************************)
ConvOK(dst, v, o) ==
  /\ o.q = o.r                       \* asking gives the same verdict
  /\ o.ov = 0
  /\ (o.r = "ok" => (o.st = 1 /\ o.sb = 1 /\ Same(dst, v, o.w)))

---------------------------------------------------------------------------
(* numerals: characters are byte codes *)
IsBlank(ch)   == ch \in {32, 9, 10, 11, 12, 13}
AllBlank(s)   == \A i \in 1..Len(s) : IsBlank(s[i])
Lower(ch)     == IF ch \in 65..90 THEN ch + 32 ELSE ch
LowerSeq(s)   == [i \in 1..Len(s) |-> Lower(s[i])]
DigitVal(ch)  == IF ch \in 48..57 THEN ch - 48
                 ELSE IF ch \in 97..122 THEN ch - 87
                 ELSE IF ch \in 65..90 THEN ch - 55 ELSE 99
DigitVals(s)  == [i \in 1..Len(s) |-> DigitVal(s[i])]
AllDigits(s, radix) == \A i \in 1..Len(s) : DigitVal(s[i]) < radix
LeadBlanks(s) == CHOOSE i \in 0..Len(s) :
                   (\A j \in 1..i : IsBlank(s[j])) /\ (i = Len(s) \/ ~IsBlank(s[i + 1]))
From(s, i)    == SubSeq(s, i, Len(s))
FirstIn(s, S) == IF \E i \in 1..Len(s) : s[i] \in S
                 THEN CHOOSE i \in 1..Len(s) : s[i] \in S /\ \A j \in 1..(i - 1) : s[j] \notin S
                 ELSE 0
HasSign(s)    == Len(s) > 0 /\ s[1] \in {43, 45}
SignNeg(s)    == IF Len(s) > 0 /\ s[1] = 45 THEN 1 ELSE 0
Unsigned(s)   == IF HasSign(s) THEN From(s, 2) ELSE s

(* Tier 1: the integer denoted by the complete string s (blank*, sign,     *)
(* 0x / 0 prefix, digits) for the base argument of strtol                  *)
IntDenote(s, base) ==
  LET rest  == From(s, LeadBlanks(s) + 1)
      body  == Unsigned(rest)
      hex   == base \in {0, 16} /\ Len(body) >= 3 /\ body[1] = 48 /\ body[2] \in {88, 120}
      radix == IF hex THEN 16
               ELSE IF base = 0 THEN (IF Len(body) > 0 /\ body[1] = 48 THEN 8 ELSE 10)
               ELSE base
      digs  == IF hex THEN From(body, 3) ELSE body
  IN IF Len(digs) > 0 /\ AllDigits(digs, radix)
     THEN IntNum(SignNeg(rest), FromDigits(DigitVals(digs), radix))
     ELSE None

(* Tier 1: the number denoted by s under the strtod grammar *)
RECURSIVE DecNat(_, _)
DecNat(s, i) == IF i = 0 THEN 0 ELSE 10 * DecNat(s, i - 1) + (s[i] - 48)
INF3 == <<105, 110, 102>>
INF8 == <<105, 110, 102, 105, 110, 105, 116, 121>>
NAN3 == <<110, 97, 110>>
FloatDenote(s) ==
  LET rest == From(s, LeadBlanks(s) + 1)
      neg  == SignNeg(rest)
      lb   == LowerSeq(Unsigned(rest))
  IN IF lb = INF3 \/ lb = INF8 THEN Inf(neg)
     ELSE IF Len(lb) >= 3 /\ SubSeq(lb, 1, 3) = NAN3
     THEN (IF Len(lb) = 3 \/ (Len(lb) >= 5 /\ lb[4] = 40 /\ lb[Len(lb)] = 41
                              /\ \A i \in 5..(Len(lb) - 1) : DigitVal(lb[i]) < 36 \/ lb[i] = 95)
           THEN NaN ELSE None)
     ELSE LET hex   == Len(lb) >= 2 /\ lb[1] = 48 /\ lb[2] = 120
              num   == IF hex THEN From(lb, 3) ELSE lb
              radix == IF hex THEN 16 ELSE 10
              ei    == FirstIn(num, {IF hex THEN 112 ELSE 101})
              mant  == IF ei = 0 THEN num ELSE SubSeq(num, 1, ei - 1)
              expo  == IF ei = 0 THEN << >> ELSE From(num, ei + 1)
              ebody == Unsigned(expo)
              di    == FirstIn(mant, {46})
              ip    == IF di = 0 THEN mant ELSE SubSeq(mant, 1, di - 1)
              fp    == IF di = 0 THEN << >> ELSE From(mant, di + 1)
              digs  == ip \o fp
              okm   == Len(digs) >= 1 /\ AllDigits(digs, radix)
              oke   == ei = 0 \/ (Len(ebody) \in 1..5 /\ AllDigits(ebody, 10))
              ex    == IF ei = 0 THEN 0
                       ELSE IF SignNeg(expo) = 1 THEN 0 - DecNat(ebody, Len(ebody)) ELSE DecNat(ebody, Len(ebody))
              m     == FromDigits(DigitVals(digs), radix)
          IN IF ~(okm /\ oke) THEN None
             ELSE IF IsZero(m) THEN Fin(0, Zero, 0)
             ELSE IF hex THEN [k |-> "fin", neg |-> neg, m |-> m, e |-> ex - 4 * Len(fp), d |-> 0]
             ELSE [k |-> "fin", neg |-> neg, m |-> m, e |-> 0, d |-> ex - Len(fp)]

Denote(dst, s, base) == IF IsIntType(dst) THEN IntDenote(s, base) ELSE FloatDenote(s)

(***************************************************************************)
(* Tier 1: judgement of one observed text conversion; o additionally has   *)
(* used = number of characters reported as consumed.  Consumed blanks      *)
(* (or nothing) denote no number: nothing may be stored then.              *)
(***************************************************************************)
TextOK(dst, chars, base, o) ==
  /\ o.q = o.r
  /\ o.ov = 0
  /\ (o.r = "ok" =>
        /\ o.used <= Len(chars)
        /\ LET pre == SubSeq(chars, 1, o.used) IN
           IF AllBlank(pre) THEN o.st = 0
           ELSE LET dn == Denote(dst, pre, base) IN
                o.st = 1 /\ o.sb = 1 /\ dn.k # "none" /\ Same(dst, dn, o.w))

(***************************************************************************)
(* Tier 2: design of the integer text routines (convert_int.c):            *)
(* strtoimax / strtoumax scan, range error, sign, width check              *)
(***************************************************************************)
RECURSIVE DigitsEnd(_, _, _)
DigitsEnd(s, i, radix) == IF i <= Len(s) /\ DigitVal(s[i]) < radix THEN DigitsEnd(s, i + 1, radix) ELSE i

Scan(s, base) ==
  LET n     == Len(s)
      p0    == LeadBlanks(s) + 1
      sgn   == p0 <= n /\ s[p0] \in {43, 45}
      neg   == IF sgn /\ s[p0] = 45 THEN 1 ELSE 0
      p1    == IF sgn THEN p0 + 1 ELSE p0
      hex   == base \in {0, 16} /\ p1 + 2 <= n /\ s[p1] = 48 /\ s[p1 + 1] \in {88, 120} /\ DigitVal(s[p1 + 2]) < 16
      radix == IF hex THEN 16
               ELSE IF base = 0 THEN (IF p1 <= n /\ s[p1] = 48 THEN 8 ELSE 10)
               ELSE base
      p2    == IF hex THEN p1 + 2 ELSE p1
      p3    == DigitsEnd(s, p2, radix)
  IN IF p3 = p2 THEN [used |-> 0, neg |-> 0, mag |-> Zero]
     ELSE [used |-> p3 - 1, neg |-> neg, mag |-> FromDigits(DigitVals(SubSeq(s, p2, p3 - 1)), radix)]

TObsRefused     == ObsRefused @@ [used |-> 0]
TObsEmpty(n)    == [r |-> "ok", q |-> "ok", st |-> 0, sb |-> 0, ov |-> 0, w |-> None, used |-> n]
TObsOk(n, w)    == ObsOk(w) @@ [used |-> n]

DesignCInt(dst, base, chars) ==
  LET T     == TypeTab[dst]
      sc    == Scan(chars, base)
      exact == IntNum(sc.neg, sc.mag)
      IMax  == [kind |-> "int", sg |-> 1, bits |-> MaxBits]
      UMax  == [kind |-> "int", sg |-> 0, bits |-> MaxBits]
  IN IF sc.used = 0 THEN (IF AllBlank(chars) THEN TObsEmpty(0) ELSE TObsRefused)
     ELSE IF T.sg = 1
     THEN LET erange == ~InIntRange(IMax, exact)
              tmp    == IF erange THEN (IF sc.neg = 1 THEN IntLo(IMax) ELSE IntHi(IMax)) ELSE exact  \* strtoimax saturates
          IN IF erange THEN TObsRefused                         \* errno == ERANGE
             ELSE IF ~InIntRange(T, tmp) THEN TObsRefused       \* width check
             ELSE TObsOk(sc.used, Wrap(T, tmp))
     ELSE LET erange == Cmp(sc.mag, IntHi(UMax).m) > 0
              tmp    == IF erange THEN IntHi(UMax) ELSE Wrap(UMax, exact)   \* strtoumax saturates / negates modulo 2^MaxBits
          IN IF erange THEN TObsRefused                         \* errno == ERANGE
             ELSE IF sc.neg = 1 /\ ~IsZero(sc.mag) THEN TObsRefused        \* negative input
             ELSE IF ~InIntRange(T, tmp) THEN TObsRefused       \* width check
             ELSE TObsOk(sc.used, Wrap(T, tmp))

(* mpt_convert_number (base 0) and mpt_convert_string (leading blanks skipped first) *)
DesignText(api, dst, base, chars) ==
  IF api = "string"
  THEN LET k  == LeadBlanks(chars)
           inner == DesignCInt(dst, 0, From(chars, k + 1))
       IN IF Len(chars) = 0 THEN TObsEmpty(0)
          ELSE IF inner.r = "refused" THEN inner
          ELSE [inner EXCEPT !.used = inner.used + k]
  ELSE DesignCInt(dst, IF api = "number" THEN 0 ELSE base, chars)

---------------------------------------------------------------------------
(* actions: one per public call family; obs.exp is what binding A compares *)
Init == obs = [a |-> "init", arg |-> [x |-> 0], exp |-> [x |-> 0]]

CanonObs(o) == [o EXCEPT !.w = Canon(@)]

(* mpt_value_convert / mpt_data_convert_* / mpt_iterator_consume *)
Conv(api, src, dst, v) ==
  obs' = [a |-> "conv", arg |-> [api |-> api, src |-> src, dst |-> dst, v |-> Canon(v)],
          exp |-> [allowed |-> Allowed(dst, v), design |-> CanonObs(Design(api, src, dst, v))]]

(* expectation for every possible number of consumed characters *)
PrefixExp(dst, chars, base, n) ==
  LET pre == SubSeq(chars, 1, n) IN
  IF AllBlank(pre) THEN [cls |-> "blank", allowed |-> << >>]
  ELSE LET dn == Denote(dst, pre, base) IN
       IF dn.k = "none" THEN [cls |-> "bad", allowed |-> << >>]
       ELSE IF dn.d < 0 THEN [cls |-> "skip", allowed |-> << >>]    \* not dyadic: judged by Same on recorded traces only
       ELSE [cls |-> "num", allowed |-> Allowed(dst, IF dn.d > 0 THEN Fin(dn.neg, MulPow10(dn.m, dn.d), 0) ELSE dn)]

(* mpt_c[u]int*, mpt_convert_number, mpt_convert_string, mpt_c[l]double/cfloat *)
Text(api, dst, base, chars) ==
  obs' = [a |-> "text", arg |-> [api |-> api, dst |-> dst, base |-> base, chars |-> chars],
          exp |-> [byused |-> [n \in 1..(Len(chars) + 1) |-> PrefixExp(dst, chars, base, n - 1)],
                   design |-> IF IsIntType(dst) THEN CanonObs(DesignText(api, dst, base, chars)) ELSE TObsRefused]]

(* invariants: Tier 2 implies Tier 1 *)
DesignSound ==
  /\ (obs.a = "conv" => ConvOK(obs.arg.dst, obs.arg.v, obs.exp.design))
  /\ (obs.a = "text" => TextOK(obs.arg.dst, obs.arg.chars, obs.arg.base, obs.exp.design))
(* the constructive results are exactly those Tier 1 accepts *)
AllowedSound ==
  /\ (obs.a = "conv" => \A i \in 1..Len(obs.exp.allowed) : Same(obs.arg.dst, obs.arg.v, obs.exp.allowed[i]))
  /\ (obs.a = "text" => \A n \in 1..Len(obs.exp.byused) : \A i \in 1..Len(obs.exp.byused[n].allowed) :
        Same(obs.arg.dst, Denote(obs.arg.dst, SubSeq(obs.arg.chars, 1, n - 1), obs.arg.base), obs.exp.byused[n].allowed[i]))
=============================================================================
