SPECIFICATION GenSpecC
CONSTANTS Names <- NamesAE Depth = 2 Vals <- ValsQ Sep = 46 Design = "items" Base <- NoBase MaxSlots = 3
  Ends <- Ends0 Strs <- NoStrs Seps <- NoStrs Asgs <- NoStrs Elems <- NoStrs
CONSTRAINT Bound
VIEW ViewC
ACTION_CONSTRAINT Emit
CHECK_DEADLOCK FALSE
