------------------------------ MODULE ValueFill ------------------------------
(***************************************************************************)
(* X19, extension of C19 (spec/Iter.tla): the remaining value sources and  *)
(* the consumers that walk them.                                           *)
(*                                                                         *)
(* Meaning (Tier 1) is Iter's: a source denotes a finite sequence of exact *)
(* rationals (ElemsX: Iter!Elems plus the file-backed iterator and the C++ *)
(* source<T> template); an instance is a position in the sequence.         *)
(*  - a consumer that walks a source (documented loop, consume loop, C++   *)
(*    get loop, mpt_range_set, prepare + fill) visits exactly the next     *)
(*    elements in order and stops when no further element is reported;     *)
(*  - a filled column equals those elements (its prefix when the target is *)
(*    shorter), cells not addressed keep their content, a gap is zero;     *)
(*  - raw data store: columns (stage, dimension) are independent, what the *)
(*    query interface reports (stage count, dimension counts, column       *)
(*    content) is what was assigned, advancing the cycle keeps the data of *)
(*    earlier cycles and makes the returned index the current one.         *)
(* Design (Tier 2): the answers of the two bindings ("c": mptplot C code,  *)
(* "cxx": mpt++), chosen by src.drv, where the meaning leaves a choice     *)
(* (placeholder stage on advance, dimension created by a query, typed      *)
(* columns refusing another type, reserve never shrinking).                *)
(***************************************************************************)
EXTENDS Iter

VARIABLES store,   \* raw data store [st, cur, lim, dims, base] / value stores [vs]
          arr,     \* prepared column [has, v]
          nops     \* explored operations so far (bound of the exhaustive families)
xvars == <<src, inst, todo, obs, store, arr, nops>>

CONSTANTS MaxOps,    \* largest bound on explored operations (src.maxops) of the store / prepare families
          ModSet,    \* explored modify parameters <<dim, cycle, off, max, type, scalar>>
          QuerySet   \* explored queries <<"val", dim, cycle>> / <<"dim", cycle>> / <<"count">>

ZeroR == <<0, 1>>
Max2(a, b) == IF a > b THEN a ELSE b
With(s, f) == [x \in DOMAIN s \cup DOMAIN f |-> IF x \in DOMAIN f THEN f[x] ELSE s[x]]
WithAll(S, f) == {With(s, f) : s \in S}

---------------------------------------------------------------------------
(* new sources *)
File(via, vals, sep) == [kind |-> "file", via |-> via, vals |-> vals, sep |-> sep]
   \* via: "file" (profile description "file:<path>"), "filename", "fd", "pipe"; sep: how the text is laid out
Cxx(type, vals, step) == [kind |-> "cxx", via |-> "cxx", type |-> type, vals |-> vals, step |-> step]
   \* mpt::source<T>(vals, len, step): every step-th value, from the end for a negative step

StepSeq(v, step) ==
  LET n == Len(v)
      w == IF step < 0 THEN -step ELSE step
      cnt == (n + w - 1) \div w
  IN [i \in 1..cnt |-> IF step > 0 THEN v[1 + (i - 1) * w] ELSE v[n - (i - 1) * w]]

ElemsX(s) ==
  CASE s.kind = "file" -> s.vals
    [] s.kind = "cxx"  -> StepSeq(s.vals, s.step)
    [] OTHER -> Elems(s)

(* the text of a file source *)
FileText(s) ==
  CASE s.sep = 0 -> Join(s.vals, " ")                                   \* no newline at the end
    [] s.sep = 1 -> Join(s.vals, "\n") \o "\n"                          \* one value per line
    [] s.sep = 2 -> "  " \o Join(s.vals, " \t") \o " \n\n"               \* leading blanks, tabs, blank lines at the end
    [] s.sep = 3 -> Join(s.vals, "\n\n ") \o "\n"
FilePre(s) == IF s.sep \in {0, 1} THEN "file:" ELSE " File : "

RECURSIVE Flat(_)
Flat(v) == IF v = <<>> THEN <<>> ELSE <<v[1][1], v[1][2]>> \o Flat(Rest(v))

CreateArgX(s) ==
  CASE s.kind = "file" -> IF s.via = "file" THEN [via |-> "file", desc |-> FileText(s), pre |-> FilePre(s)]
                          ELSE [via |-> s.via, desc |-> FileText(s)]
    [] s.kind = "cxx"  -> [via |-> "cxx", type |-> s.type, vals |-> Flat(s.vals), step |-> s.step]
    [] OTHER -> CreateArg(s)

IsFile(s) == s.kind = "file"
IsCxx(s)  == s.kind = "cxx"

---------------------------------------------------------------------------
(* protocol of the new sources (Tier 2); the other kinds answer as in Iter *)
AdvanceX(i) ==
  LET I == inst[i] n == Len(I.seq) IN
  IF IsFile(src) \/ IsCxx(src)
  THEN Advance(i, IF I.pos + 1 < n THEN "more" ELSE IF I.pos + 1 = n THEN "last"
                  ELSE IF IsFile(src) /\ n = 0 /\ I.over = 0 THEN "last" ELSE "end")
  ELSE AdvanceT2(i)

ResetFail(i) ==
  /\ i \in 1..Len(inst)
  /\ inst' = inst
  /\ Answer("reset", i, [ret |-> "error"])
  /\ UNCHANGED src
Seekable(s) == ~(IsFile(s) /\ s.via = "pipe")
ResetX(i) == IF Seekable(src) THEN ResetT2(i) ELSE ResetFail(i)

CloneX(i) ==
  IF IsFile(src) \/ IsCxx(src)
  THEN /\ Len(inst) < MaxInst
       /\ IF IsFile(src) /\ src.via = "filename"
          THEN Clone(i, "ok", [Fresh(inst[i].seq) EXCEPT !.pos = inst[i].pos, !.over = inst[i].over])
          ELSE Clone(i, "none", inst[i])
  ELSE CloneT2Act(i)

(* iterator::get<T>() (C++): the current element converted to T *)
FitsFloat(x) == Abs(x[1]) < 16777216
DExpT(type, x) == IF type = "f" /\ ~FitsFloat(x) THEN <<>> ELSE DExp(src, x)
ValueTyped(i, type) ==
  LET I == inst[i] IN
  /\ i \in 1..Len(inst)
  /\ inst' = [inst EXCEPT ![i].seen = TRUE]
  /\ obs' = [a |-> "value", arg |-> [i |-> i, type |-> type],
             exp |-> IF I.pos < Len(I.seq) THEN [ret |-> "value", d |-> DExpT(type, I.seq[I.pos + 1])] ELSE [ret |-> "end", d |-> <<>>]]
  /\ UNCHANGED src

---------------------------------------------------------------------------
(* consumers *)
Rem(I) == Len(I.seq) - I.pos
Take(I, max) == IF max = 0 \/ max > Rem(I) THEN Rem(I) ELSE max
NextEl(I, k) == SubSeq(I.seq, I.pos + 1, I.pos + k)            \* the next k elements
Moved(I, k) == IF k = 0 THEN I ELSE [I EXCEPT !.pos = I.pos + k, !.seen = FALSE, !.over = 0]
Predicted(xs, type) == ExactSrc(src) /\ \A j \in 1..Len(xs) : DExpT(type, xs[j]) # <<>>
DList(xs, type) == IF Predicted(xs, type) THEN [j \in 1..Len(xs) |-> DExpT(type, xs[j])] ELSE <<>>   \* <<>> with n > 0: not predicted

(* how a walk ends: "last" advance reported no further element, "noval" no value could be read, *)
(* "end" consume failed, "full" the requested number was reached                                 *)
HowOf(style, I, max) ==
  CASE style = "loop"    -> IF Rem(I) = 0 THEN "noval" ELSE IF Take(I, max) = Rem(I) THEN "last" ELSE "full"
    [] style = "consume" -> IF max = 0 \/ max > Rem(I) THEN "end" ELSE "full"
    [] style = "get"     -> IF max = 0 \/ max > Rem(I) THEN "noval" ELSE "full"

WalkAct(i, style, max, type) ==
  LET I == inst[i] k == Take(I, max) IN
  /\ i \in 1..Len(inst)
  /\ inst' = [inst EXCEPT ![i] = Moved(I, k)]
  /\ obs' = [a |-> "walk", arg |-> [i |-> i, max |-> max, style |-> style, type |-> type],
             exp |-> [ret |-> "ok", n |-> k, vals |-> DList(NextEl(I, k), type), how |-> HowOf(style, I, max)]]
  /\ UNCHANGED src

(* Tier 1: what a walk may report *)
T1Walk(s, I, style, max, n, vals, how, tolf) ==
  /\ n = Take(I, max)
  /\ Len(vals) = n
  /\ \A j \in 1..n : Near(vals[j], I.seq[I.pos + j], TolExp(s, I.seq[I.pos + j]) + tolf)
  /\ how = HowOf(style, I, max)

(* mpt_iterator_consume(it, type, dest): type 0 skips the element, dest 0 only checks the conversion; *)
(* type codes: 100 'd', 102 'f', 115 's' (no number type)                                              *)
TypeName(code) == CASE code = 100 -> "d" [] code = 102 -> "f" [] OTHER -> "?"
AdvClass(I) ==      \* class of advance() from this position (Tier 2)
  LET n == Len(I.seq) IN
  IF I.pos + 1 < n THEN "more" ELSE IF I.pos + 1 = n THEN "last"
  ELSE IF (TextLike(src) \/ (IsFile(src) /\ n = 0)) /\ I.over = 0 THEN "last" ELSE "end"
Advanced(I) == [I EXCEPT !.pos = Min2(I.pos + 1, Len(I.seq)),
                         !.over = IF I.pos >= Len(I.seq) THEN Min2(I.over + 1, 2) ELSE 0, !.seen = FALSE]
ConsumeXAct(i, type, dest) ==
  LET I == inst[i] has == I.pos < Len(I.seq)
      ans(ret, d) == obs' = [a |-> "consumex", arg |-> [i |-> i, type |-> type, dest |-> dest], exp |-> [ret |-> ret, d |-> d, kept |-> 1]]
  IN
  /\ i \in 1..Len(inst)
  /\ UNCHANGED src
  /\ CASE type = 0 -> /\ inst' = [inst EXCEPT ![i] = Advanced(I)]
                      /\ ans(IF AdvClass(I) = "end" THEN "end" ELSE "value", <<>>)
       [] type \in {100, 102} /\ has ->
                      /\ inst' = [inst EXCEPT ![i] = Moved(I, 1)]
                      /\ ans("value", IF dest = 1 THEN DExpT(TypeName(type), I.seq[I.pos + 1]) ELSE <<>>)
       [] OTHER ->    /\ inst' = inst
                      /\ ans("end", <<>>)

(* mpt_range_set with the iterator as value: the next two elements *)
RangeSetAct(i) ==
  LET I == inst[i] IN
  /\ i \in 1..Len(inst)
  /\ UNCHANGED src
  /\ inst' = [inst EXCEPT ![i] = Moved(I, Take(I, 2))]
  /\ obs' = [a |-> "rangeset", arg |-> [i |-> i],
             exp |-> IF Rem(I) >= 2 THEN [ret |-> "ok", min |-> DExp(src, I.seq[I.pos + 1]), max |-> DExp(src, I.seq[I.pos + 2])]
                     ELSE [ret |-> "refused"]]

---------------------------------------------------------------------------
(* mpt_values_prepare: n >= 0 appends n zeros, n < 0 repeats the last -n elements; *)
(* with a source the new part is filled by the documented loop (stride ld)         *)
ZerosR(n) == [k \in 1..n |-> ZeroR]
ArrD(v) == [k \in 1..Len(v) |-> DOf(v[k])]
ArrP(v) == IF \A k \in 1..Len(v) : DExp(src, v[k]) # <<>> THEN [k \in 1..Len(v) |-> DExp(src, v[k])] ELSE <<>>   \* <<>>: not predicted
(* share: a second array takes over the column (mpt_array_clone: same storage until one of them is changed); *)
(* whatever is appended to the column afterwards, the sibling keeps reporting what it took over               *)
PShare ==
  /\ arr.has
  /\ arr' = [arr EXCEPT !.sib = arr.v]
  /\ obs' = [a |-> "pshare", arg |-> [x |-> 0], exp |-> [ret |-> "ok", arr |-> ArrP(arr.v), sib |-> ArrP(arr.v)]]
  /\ UNCHANGED <<src, inst>>
PrepareAct(n) ==
  LET L == Len(arr.v)
      ok == n >= 0 \/ (arr.has /\ L >= -n)
      new == IF n >= 0 THEN ZerosR(n) ELSE SubSeq(arr.v, L + n + 1, L)
  IN
  /\ arr' = IF ok THEN [arr EXCEPT !.has = TRUE, !.v = arr.v \o new] ELSE arr
  /\ obs' = [a |-> "prepare", arg |-> [len |-> n],
             exp |-> [ret |-> IF ok THEN "ok" ELSE "refused", arr |-> ArrP(arr'.v), sib |-> ArrP(arr.sib), at |-> IF ok THEN L ELSE -1]]
  /\ UNCHANGED <<src, inst>>
PrepareFill(i, len, ld) ==
  LET I == inst[i] k == Take(I, len) L == Len(arr.v)
      new == [j \in 1..(len * ld) |-> IF (j - 1) % ld = 0 /\ (j - 1) \div ld < k THEN I.seq[I.pos + ((j - 1) \div ld) + 1] ELSE ZeroR]
  IN
  /\ i \in 1..Len(inst) /\ len > 0
  /\ arr' = [arr EXCEPT !.has = TRUE, !.v = arr.v \o new]
  /\ inst' = [inst EXCEPT ![i] = Moved(I, k)]
  /\ obs' = [a |-> "prepare", arg |-> [len |-> len, i |-> i, ld |-> ld],
             exp |-> [ret |-> "ok", arr |-> ArrP(arr'.v), sib |-> ArrP(arr.sib), at |-> L, n |-> k, how |-> HowOf("loop", I, len)]]
  /\ UNCHANGED src

---------------------------------------------------------------------------
(* mpt_values_file: rows x cols numbers read from lines of text.  A row takes the next cols numbers *)
(* (going on to following lines when a line is short); what remains of the line in which the row     *)
(* was completed is ignored.                                                                          *)
RECURSIVE Toks(_, _)
Toks(lines, ln) == IF lines = <<>> THEN <<>> ELSE [j \in 1..Len(lines[1]) |-> <<lines[1][j], ln>>] \o Toks(Rest(lines), ln + 1)
RECURSIVE SkipLine(_, _, _)
SkipLine(T, s, ln) == IF s <= Len(T) /\ T[s][2] = ln THEN SkipLine(T, s + 1, ln) ELSE s
RECURSIVE ReadRows(_, _, _, _)
ReadRows(T, s, rows, cols) ==      \* values in reading order
  IF rows = 0 THEN <<>>
  ELSE IF s + cols - 1 > Len(T) THEN [j \in 1..(Len(T) - s + 1) |-> T[s + j - 1][1]]
  ELSE [j \in 1..cols |-> T[s + j - 1][1]] \o ReadRows(T, SkipLine(T, s + cols, T[s + cols - 1][2]), rows - 1, cols)
Sentinel == <<-12345, 1>>
CellOf(m, rows, cols, order) == IF order = "row" THEN m ELSE ((m - 1) \div cols) + rows * ((m - 1) % cols) + 1
RECURSIVE AfterRows(_, _, _, _)
AfterRows(T, s, rows, cols) ==     \* where the stream stands after a call: behind the line in which its last row was completed
  IF rows = 0 THEN s
  ELSE IF s + cols - 1 > Len(T) THEN Len(T) + 1
  ELSE AfterRows(T, SkipLine(T, s + cols, T[s + cols - 1][2]), rows - 1, cols)
BlockCells(R, rows, cols, order, data) ==
  [c \in 1..(rows * cols) |->
     LET M == {m \in 1..Len(R) : CellOf(m, rows, cols, order) = c} IN
     IF data = 1 /\ M # {} THEN R[CHOOSE m \in M : TRUE] ELSE Sentinel]
(* consecutive calls on one stream (p.rows: rows asked for by each call): the table rows are consumed in order; every *)
(* call fills its own block of the target                                                                              *)
RECURSIVE VFileRun(_, _, _, _, _, _)
VFileRun(T, s, chunks, cols, order, data) ==
  IF chunks = <<>> THEN [rets |-> <<>>, cells |-> <<>>]
  ELSE LET r == chunks[1]
           R == ReadRows(T, s, r, cols)
           rest == VFileRun(T, AfterRows(T, s, r, cols), Rest(chunks), cols, order, data)
       IN [rets |-> <<IF Len(R) = r * cols THEN "ok" ELSE "short">> \o rest.rets,
           cells |-> BlockCells(R, r, cols, order, data) \o rest.cells]
RECURSIVE LinesText(_, _)
LinesText(lines, nl) ==
  IF lines = <<>> THEN ""
  ELSE Join(lines[1], " ") \o (IF Len(lines) > 1 \/ nl = 1 THEN "\n" ELSE "") \o LinesText(Rest(lines), nl)
VFileAct(p) ==      \* p = [lines, rows (one entry per call), cols, order, data, nl]
  /\ LET run == VFileRun(Toks(p.lines, 1), 1, p.rows, p.cols, p.order, p.data) IN
     obs' = [a |-> "vfile", arg |-> [rows |-> p.rows, cols |-> p.cols, order |-> p.order, data |-> p.data, desc |-> LinesText(p.lines, p.nl)],
             lines |-> p.lines,
             exp |-> [ret |-> run.rets, vals |-> ArrP(run.cells)]]
  /\ UNCHANGED <<src, inst>>

---------------------------------------------------------------------------
(* strided copy helpers (mpt_copy64/32/_df/_fd, C++ copy<S,D>): dest[k*ldd] = src[k*lds] for k = 0..pts-1 in *)
(* this order; cells not addressed keep their content                                                          *)
MaxOf(K) == CHOOSE k \in K : \A j \in K : j <= k
CopyLen(pts, ldd) == (IF pts > 0 THEN (pts - 1) * ldd + 1 ELSE 0) + 2
CopyCells(vals, pts, lds, ldd) ==
  [c \in 1..CopyLen(pts, ldd) |-> LET K == {k \in 0..(pts - 1) : k * ldd = c - 1} IN
                                   IF K = {} THEN Sentinel ELSE vals[MaxOf(K) * lds + 1]]
CopyAct(p) ==      \* p = [fn, pts, lds, ldd, vals]
  /\ obs' = [a |-> "copy", arg |-> [fn |-> p.fn, pts |-> p.pts, lds |-> p.lds, ldd |-> p.ldd, vals |-> Flat(p.vals)],
             exp |-> [dest |-> ArrD(CopyCells(p.vals, p.pts, p.lds, p.ldd))]]
  /\ UNCHANGED <<src, inst>>

---------------------------------------------------------------------------
(* raw data store: stages (cycles) of columns (dimensions) *)
EmptyCol == [t |-> "", v |-> <<>>]
PadTo(seq, n, fill) == IF n > Len(seq) THEN seq \o [k \in 1..(n - Len(seq)) |-> fill] ELSE seq
Overwrite(v, off, data) ==
  [k \in 1..Max2(Len(v), off + Len(data)) |-> IF k > off /\ k <= off + Len(data) THEN data[k - off]
                                              ELSE IF k <= Len(v) THEN v[k] ELSE ZeroR]
ColAt(st, s, d) == IF s < Len(st) /\ d < Len(st[s + 1]) THEN st[s + 1][d + 1] ELSE EmptyCol
SetCol(st, s, d, col) ==
  LET st1 == PadTo(st, s + 1, <<>>)
      dims1 == PadTo(st1[s + 1], d + 1, EmptyCol)
  IN [st1 EXCEPT ![s + 1] = [dims1 EXCEPT ![d + 1] = col]]
SnapOf(st) == [s \in 1..Len(st) |-> [d \in 1..Len(st[s]) |-> ArrD(st[s][d].v)]]
HasClone == "cl" \in DOMAIN store                      \* a clone of the store exists (store.cl: the other of the two)
AltOf == IF HasClone THEN SnapOf(store.cl.st) ELSE <<>>
Snap(st, e) == With(e, [ns |-> Len(st), st |-> SnapOf(st), alt |-> AltOf])    \* alt: what the other store reports

NewStore(drv, lim, dims) ==
  [st |-> IF drv = "cxx" THEN PadTo(<<>>, lim, <<>>) ELSE <<>>,       \* a limited cycle has its stages from the start
   cur |-> 0, lim |-> lim, dims |-> dims, base |-> IF drv = "cxx" THEN 1 ELSE 0]
RdNew ==
  /\ store' = NewStore(src.drv, src.lim, src.dims)
  /\ obs' = [a |-> "rdnew", arg |-> [max |-> src.lim, dims |-> src.dims], exp |-> Snap(store'.st, [ret |-> "ok"])]
  /\ UNCHANGED <<src, inst, arr>>

(* the stage addressed by a destination: cycle 0 = the current one, else cycle - base *)
StageOf(cyc) == IF cyc = 0 THEN store.cur ELSE cyc - store.base
(* Tier 1: when modify may be refused *)
MayRefuse(dim, cyc, type) ==
  LET s == StageOf(cyc) IN
  \/ cyc # 0 /\ s >= Len(store.st)                       \* a cycle that does not exist yet
  \/ store.lim > 0 /\ s >= store.lim                     \* beyond the cycle limit
  \/ store.dims > 0 /\ dim >= store.dims                 \* beyond the dimension limit
  \/ ColAt(store.st, s, dim).t \notin {"", type}         \* a typed column holding another type
(* Tier 2: when the bindings refuse *)
Refuses(dim, cyc, type) ==
  LET s == StageOf(cyc) IN
  IF src.drv = "c"
  THEN \/ store.lim > 0 /\ s >= store.lim
       \/ store.lim = 0 /\ s > Len(store.st)
       \/ ColAt(store.st, s, dim).t \notin {"", type}
  ELSE \/ store.dims > 0 /\ dim >= store.dims
       \/ store.lim > 0 /\ s >= Len(store.st)
ColType(type) == IF src.drv = "cxx" THEN "d" ELSE type     \* the C++ cycle keeps doubles

Modify(i, dim, cyc, off, max, type, scalar, refused) ==
  LET I == inst[i] k == Take(I, max)
      s == StageOf(cyc)
      col == ColAt(store.st, s, dim)
      new == [t |-> ColType(type), v |-> Overwrite(col.v, off, NextEl(I, k))]
  IN
  /\ i \in 1..Len(inst) /\ k >= 1 /\ s >= 0
  /\ inst' = [inst EXCEPT ![i] = Moved(I, k)]
  /\ store' = IF refused THEN store ELSE [store EXCEPT !.st = SetCol(store.st, s, dim, new)]
  /\ obs' = [a |-> "rdmod", arg |-> [dim |-> dim, cycle |-> cyc, off |-> off, i |-> i, max |-> max, type |-> type, scalar |-> scalar],
             exp |-> Snap(store'.st, [ret |-> IF refused THEN "refused" ELSE "ok", n |-> k])]
  /\ UNCHANGED <<src, arr>>
ModifyT2(p) == Modify(1, p[1], p[2], p[3], p[4], p[5], p[6], Refuses(p[1], p[2], p[5]))

(* advance: the next cycle (the first one again at the limit) becomes current; ph: a placeholder stage is reported *)
CanAdvance == store.cur < Len(store.st) /\ Len(store.st[store.cur + 1]) >= 1    \* the current cycle holds data
AdvTarget == IF store.lim > 0 /\ store.cur + 1 >= store.lim THEN 0 ELSE store.cur + 1
RdAdvance(ph) ==
  /\ CanAdvance
  /\ store' = [store EXCEPT !.cur = AdvTarget, !.st = IF ph THEN PadTo(store.st, AdvTarget + 1, <<>>) ELSE store.st]
  /\ obs' = [a |-> "rdadv", arg |-> [x |-> 0], exp |-> Snap(store'.st, [ret |-> "ok", idx |-> AdvTarget])]
  /\ UNCHANGED <<src, inst, arr>>
RdAdvanceT2 == RdAdvance(src.drv = "c")

(* values(dim, cycle): the column; create: a dimension not assigned so far is reported from now on *)
RdValues(dim, nc, create) ==
  LET s == IF nc < 0 THEN store.cur ELSE nc
      exists == s < Len(store.st) /\ ~(store.dims > 0 /\ dim >= store.dims)
      assigned == exists /\ dim < Len(store.st[s + 1])
  IN
  /\ store' = IF exists /\ ~assigned /\ create THEN [store EXCEPT !.st = SetCol(store.st, s, dim, EmptyCol)] ELSE store
  /\ obs' = [a |-> "rdval", arg |-> [dim |-> dim, cycle |-> nc],
             exp |-> Snap(store'.st, IF assigned THEN [ret |-> "ok", col |-> <<ArrD(store.st[s + 1][dim + 1].v)>>]
                                     ELSE IF exists /\ create THEN [ret |-> "ok", col |-> << <<>> >>]
                                     ELSE [ret |-> "none", col |-> <<>>])]
  /\ UNCHANGED <<src, inst, arr>>
RdDim(nc) ==
  LET s == IF nc < 0 THEN store.cur ELSE nc IN
  /\ obs' = [a |-> "rddim", arg |-> [cycle |-> nc],
             exp |-> Snap(store.st, IF s < Len(store.st) THEN [ret |-> "ok", n |-> Len(store.st[s + 1])] ELSE [ret |-> "refused", n |-> -1])]
  /\ UNCHANGED <<src, inst, arr, store>>
RdCount ==
  /\ obs' = [a |-> "rdcount", arg |-> [x |-> 0], exp |-> Snap(store.st, [ret |-> "ok", n |-> Len(store.st)])]
  /\ UNCHANGED <<src, inst, arr, store>>
(* clone of the store (C++ cycle::clone; the C object has none): an independent store with the same content; *)
(* swap: the following calls address the other one of the two                                                  *)
Plain(st) == [x \in DOMAIN st \ {"cl"} |-> st[x]]
RdClone ==
  /\ ~HasClone
  /\ store' = IF src.drv = "cxx" THEN With(store, [cl |-> store]) ELSE store
  /\ obs' = [a |-> "rdclone", arg |-> [x |-> 0],
             exp |-> [ret |-> IF src.drv = "cxx" THEN "ok" ELSE "none", ns |-> Len(store.st), st |-> SnapOf(store.st),
                      alt |-> IF src.drv = "cxx" THEN SnapOf(store.st) ELSE <<>>]]
  /\ UNCHANGED <<src, inst, arr>>
RdSwap ==
  /\ HasClone
  /\ store' = With(store.cl, [cl |-> Plain(store)])
  /\ obs' = [a |-> "rdswap", arg |-> [x |-> 0],
             exp |-> [ret |-> "ok", ns |-> Len(store.cl.st), st |-> SnapOf(store.cl.st), alt |-> SnapOf(store.st)]]
  /\ UNCHANGED <<src, inst, arr>>
Query(q) ==
  CASE q[1] = "val" -> RdValues(q[2], q[3], src.drv = "c")      \* the C store creates the dimension asked for
    [] q[1] = "dim" -> RdDim(q[2])
    [] q[1] = "count" -> RdCount

---------------------------------------------------------------------------
(* typed value stores (C++ value_store): set<T>(data, pos), reserve<T>(count), maxsize() *)
StoresOf(vs, e) == With(e, [stores |-> [c \in 1..Len(vs) |-> ArrD(vs[c].v)]])
VsNew ==
  /\ store' = [vs |-> [c \in 1..src.nvs |-> EmptyCol]]
  /\ obs' = [a |-> "vsnew", arg |-> [n |-> src.nvs], exp |-> StoresOf(store'.vs, [ret |-> "ok"])]
  /\ UNCHANGED <<src, inst, arr>>
VsSet(c, type, pos, max) ==
  LET I == inst[1] k == Take(I, max) col == store.vs[c]
      refused == col.t \notin {"", type}
  IN
  /\ k >= 1
  /\ inst' = [inst EXCEPT ![1] = Moved(I, k)]
  /\ store' = IF refused THEN store ELSE [store EXCEPT !.vs[c] = [t |-> type, v |-> Overwrite(col.v, pos, NextEl(I, k))]]
  /\ obs' = [a |-> "vsset", arg |-> [col |-> c, type |-> type, pos |-> pos, i |-> 1, max |-> max],
             exp |-> StoresOf(store'.vs, [ret |-> IF refused THEN "refused" ELSE "ok", n |-> k])]
  /\ UNCHANGED <<src, arr>>
VsReserve(c, type, count, shrink) ==      \* shrink: a smaller count cuts the column (the bindings keep it)
  LET col == store.vs[c]
      same == col.t \in {"", type}
      v2 == IF count < 0 THEN col.v
            ELSE IF ~same THEN ZerosR(count)
            ELSE IF count >= Len(col.v) THEN PadTo(col.v, count, ZeroR)
            ELSE IF shrink THEN SubSeq(col.v, 1, count) ELSE col.v
  IN
  /\ count >= 0 \/ same
  /\ store' = [store EXCEPT !.vs[c] = [t |-> type, v |-> v2]]
  /\ obs' = [a |-> "vsres", arg |-> [col |-> c, type |-> type, count |-> count], exp |-> StoresOf(store'.vs, [ret |-> "ok"])]
  /\ UNCHANGED <<src, inst, arr>>
VsMax(type) ==      \* type "": any
  LET C == {c \in 1..Len(store.vs) : store.vs[c].t # "" /\ (type = "" \/ store.vs[c].t = type)}
      n == IF C = {} THEN -1 ELSE Len(store.vs[CHOOSE c \in C : \A e \in C : Len(store.vs[e].v) <= Len(store.vs[c].v)].v)
  IN
  /\ obs' = [a |-> "vsmax", arg |-> IF type = "" THEN [x |-> 0] ELSE [type |-> type], exp |-> StoresOf(store.vs, [ret |-> "ok", n |-> n])]
  /\ UNCHANGED <<src, inst, arr, store>>

---------------------------------------------------------------------------
(* scripted calls: Iter's plus the consumers *)
DoX(c) ==
  CASE c[1] = "V"  -> ValueT2(c[2])
    [] c[1] = "A"  -> AdvanceX(c[2])
    [] c[1] = "R"  -> ResetX(c[2])
    [] c[1] = "X"  -> ConsumeT2(c[2])
    [] c[1] = "C"  -> CloneX(c[2])
    [] c[1] = "W"  -> WalkAct(c[2], c[3], c[4], c[5])
    [] c[1] = "CX" -> ConsumeXAct(c[2], c[3], c[4])
    [] c[1] = "RS" -> RangeSetAct(c[2])
    [] c[1] = "P"  -> PrepareAct(c[2])
    [] c[1] = "PF" -> PrepareFill(c[2], c[3], c[4])
    [] c[1] = "PS" -> PShare
    [] c[1] = "N"  -> RdNew
    [] c[1] = "VN" -> VsNew
    [] c[1] = "M"  -> ModifyT2(c[2])
    [] c[1] = "ADV" -> RdAdvanceT2
    [] c[1] = "Q"  -> Query(c[2])
    [] c[1] = "CL" -> RdClone
    [] c[1] = "VF" -> VFileAct(c[2])
    [] c[1] = "CP" -> CopyAct(c[2])
Untouched(c) ==     \* the variables a scripted call does not mention
  CASE c[1] \in {"V", "A", "R", "X", "C", "W", "CX", "RS"} -> UNCHANGED <<store, arr>>
    [] c[1] \in {"P", "PF", "PS"} -> UNCHANGED store
    [] c[1] \in {"VF", "CP"} -> UNCHANGED <<store, arr>>
    [] OTHER -> TRUE

(* consumer script of the walk family: whole walk, past the end, reset, half + rest, clone, consume loop, range *)
ScriptC(s) ==
  LET n == Len(ElemsX(s)) h == (n + 1) \div 2
      loop == IF s.drv = "cxx" THEN "get" ELSE "loop"
      W(i, st, m) == <<"W", i, st, m, "d">>
  IN <<W(1, loop, 0), W(1, loop, 0), <<"A", 1>>, <<"R", 1>>, W(1, "loop", h), W(1, loop, 0)>>
     \o (IF Seekable(s) THEN <<<<"R", 1>>>> ELSE <<>>)
     \o (IF s.drv = "cxx" /\ Seekable(s) THEN <<<<"RS", 1>>, <<"RS", 1>>, <<"R", 1>>>> ELSE <<>>)
     \o (IF s.drv = "c" /\ Consumable(s)
         THEN <<W(1, "consume", h), <<"V", 1>>, <<"CX", 1, 0, 1>>, W(1, "consume", 0), <<"R", 1>>, <<"RS", 1>>, <<"RS", 1>>, <<"R", 1>>, <<"PF", 1, n + 1, 1>>, <<"PS">>, <<"PF", 1, 2, 1>>, <<"P", -1>>>>
         ELSE <<>>)

---------------------------------------------------------------------------
NoStore == [st |-> <<>>, cur |-> 0, lim |-> 0, dims |-> 0, base |-> 0]
NoArr   == [has |-> FALSE, v |-> <<>>, sib |-> <<>>]

InitX ==
  /\ src \in Sources
  /\ inst = IF src.fam \in {"vfile", "copy"} THEN <<>> ELSE <<Fresh(ElemsX(src))>>
  /\ todo = CASE src.fam = "store"  -> <<<<"N">>>>
              [] src.fam = "vstore" -> <<<<"VN">>>>
              [] src.fam = "vfile"  -> [k \in 1..Len(src.cases) |-> <<"VF", src.cases[k]>>]
              [] src.fam = "copy"   -> [k \in 1..Len(src.cases) |-> <<"CP", src.cases[k]>>]
              [] src.fam = "walk"   -> ScriptC(src)
              [] OTHER -> <<>>
  /\ store = NoStore /\ arr = NoArr /\ nops = 0
  /\ obs = IF src.fam \in {"vfile", "copy"} THEN [a |-> "nop", arg |-> [x |-> 0], src |-> src, exp |-> [ret |-> "ok"]]
           ELSE [a |-> "create", arg |-> CreateArgX(src), src |-> src, exp |-> [ret |-> "ok"]]

WalkMax == {0, 1, 2}
NextX ==
  \/ /\ todo # <<>>
     /\ DoX(todo[1]) /\ Untouched(todo[1])
     /\ todo' = Rest(todo) /\ UNCHANGED nops
  \/ /\ todo = <<>> /\ src.fam = "proto"           \* every interleaving of the iterator calls on the new sources
     /\ UNCHANGED <<todo, store, arr, nops>>
     /\ \E i \in 1..Len(inst) :
          \/ ValueT2(i)
          \/ \E t \in src.gets : ValueTyped(i, t)
          \/ AdvanceX(i)
          \/ ResetX(i)
          \/ ConsumeT2(i)
          \/ CloneX(i)
  \/ /\ todo = <<>> /\ src.fam = "consume"         \* every interleaving of the consumers on one instance
     /\ UNCHANGED <<todo, store, arr, nops>>
     /\ \/ \E st \in src.styles, m \in WalkMax : WalkAct(1, st, m, "d")
        \/ \E t \in src.gets, m \in {0, 2} : WalkAct(1, "get", m, t)
        \/ src.drv = "c" /\ Consumable(src) /\ \E ty \in {0, 100, 102, 115}, de \in {0, 1} :
               (ty = 0 /\ TextLike(src) => inst[1].seen \/ inst[1].pos >= Len(inst[1].seq)) /\ ConsumeXAct(1, ty, de)
        \/ Consumable(src) /\ RangeSetAct(1)
        \/ ValueT2(1)
        \/ (TextLike(src) => inst[1].seen \/ inst[1].pos >= Len(inst[1].seq)) /\ AdvanceX(1)
        \/ ResetX(1)
  \/ /\ todo = <<>> /\ src.fam = "prep" /\ nops < src.maxops
     /\ nops' = nops + 1 /\ UNCHANGED <<todo, store>>
     /\ \/ \E n \in -2..2 : PrepareAct(n)
        \/ \E len \in 1..2, ld \in 1..2 : PrepareFill(1, len, ld)
        \/ PShare
  \/ /\ todo = <<>> /\ src.fam = "store" /\ nops < src.maxops
     /\ nops' = nops + 1 /\ UNCHANGED todo
     /\ \/ \E p \in (IF src.mods = {} THEN ModSet ELSE src.mods) : ModifyT2(p)
        \/ RdAdvanceT2
        \/ \E q \in (IF src.mods = {} THEN QuerySet ELSE {}) : Query(q)      \* deep scenarios (own mods): no queries
        \/ src.clone /\ (RdClone \/ RdSwap)
  \/ /\ todo = <<>> /\ src.fam = "vstore" /\ nops < src.maxops
     /\ nops' = nops + 1 /\ UNCHANGED todo
     /\ \/ \E c \in 1..src.nvs, t \in src.types, p \in {0, 1}, m \in {1, 2} : VsSet(c, t, p, m)
        \/ \E c \in 1..src.nvs, t \in src.types, n \in {-1, 0, 1, 3} : VsReserve(c, t, n, FALSE)
        \/ \E t \in src.types \cup {""} : VsMax(t)

SpecX == InitX /\ [][NextX]_xvars

---------------------------------------------------------------------------
(* what TLC checks on the model *)
TypeOKX ==
  /\ Len(inst) \in 0..MaxInst
  /\ \A i \in 1..Len(inst) : inst[i].pos \in 0..Len(inst[i].seq) /\ inst[i].over \in 0..2
  /\ nops \in 0..MaxOps

(* Tier 2 => Tier 1 for the consumers: what a walk / consume / range / fill reports are the next elements *)
ExactList(ds, xs) == Len(ds) = Len(xs) /\ \A j \in 1..Len(xs) : Exactly(ds[j], xs[j])
ConsumersVisit ==
  [][ LET a == obs'.a e == obs'.exp IN
      CASE a = "walk" ->
             LET I == inst[obs'.arg.i] IN
             /\ e.n = Take(I, obs'.arg.max) /\ e.how = HowOf(obs'.arg.style, I, obs'.arg.max)
             /\ (e.vals # <<>> \/ e.n = 0) => ExactList(e.vals, NextEl(I, e.n))
             /\ inst'[obs'.arg.i].pos = I.pos + e.n
        [] a = "consumex" ->
             LET I == inst[obs'.arg.i] has == I.pos < Len(I.seq) IN
             /\ (obs'.arg.type \in {100, 102} => ((e.ret = "value") = has))
             /\ (obs'.arg.type = 115 => (e.ret = "end" /\ inst' = inst))
             /\ (obs'.arg.type = 0 /\ has => (e.ret = "value" /\ inst'[obs'.arg.i].pos = I.pos + 1))
             /\ (e.d # <<>> => Exactly(e.d, I.seq[I.pos + 1]))
        [] a = "rangeset" ->
             LET I == inst[obs'.arg.i] IN
             /\ (e.ret = "ok") = (Rem(I) >= 2)
             /\ e.ret = "ok" /\ e.min # <<>> => Exactly(e.min, I.seq[I.pos + 1]) /\ Exactly(e.max, I.seq[I.pos + 2])
        [] a = "value" /\ "type" \in DOMAIN obs'.arg ->
             LET I == inst[obs'.arg.i] IN
             /\ (e.ret = "value") = (I.pos < Len(I.seq))
             /\ e.d # <<>> => Exactly(e.d, I.seq[I.pos + 1])
        [] OTHER -> TRUE ]_xvars

(* a filled column equals the elements; cells not addressed keep their content; other columns never change *)
FillsColumn ==
  [][ LET a == obs'.a IN
      CASE a = "rdmod" /\ obs'.exp.ret = "ok" ->
             LET g == obs'.arg I == inst[g.i] s == StageOf(g.cycle)
                 old == ColAt(store.st, s, g.dim).v new == ColAt(store'.st, s, g.dim).v
             IN /\ SubSeq(new, g.off + 1, g.off + obs'.exp.n) = NextEl(I, obs'.exp.n)
                /\ \A k \in 1..Len(new) : (k <= g.off \/ k > g.off + obs'.exp.n) => new[k] = IF k <= Len(old) THEN old[k] ELSE ZeroR
                /\ Len(new) = Max2(Len(old), g.off + obs'.exp.n)
                /\ \A s2 \in 0..(Len(store'.st) - 1) : \A d2 \in 0..(Len(store'.st[s2 + 1]) - 1) :
                      (s2 # s \/ d2 # g.dim) => ColAt(store'.st, s2, d2).v = ColAt(store.st, s2, d2).v
                /\ \A s2 \in 0..(Len(store.st) - 1) : Len(store'.st[s2 + 1]) >= Len(store.st[s2 + 1])
        [] a = "rdmod" /\ obs'.exp.ret = "refused" ->
             store'.st = store.st /\ MayRefuse(obs'.arg.dim, obs'.arg.cycle, obs'.arg.type)
        [] a = "rdadv" ->
             /\ \A s2 \in 0..(Len(store.st) - 1) : s2 < Len(store'.st) /\ store'.st[s2 + 1] = store.st[s2 + 1]      \* earlier cycles keep their data
             /\ \A s2 \in Len(store.st)..(Len(store'.st) - 1) : store'.st[s2 + 1] = <<>>
             /\ store'.cur = obs'.exp.idx /\ (store.lim # 1 => store'.cur # store.cur)
        [] a = "rdclone" -> store'.st = store.st /\ (HasClone' => store'.cl.st = store.st)
        [] a = "rdswap" -> store'.st = store.cl.st /\ store'.cl.st = store.st
        [] a \in {"rdval", "rddim", "rdcount"} ->
             \A s2 \in 0..(Len(store.st) - 1) : \A d2 \in 0..(Len(store.st[s2 + 1]) - 1) :
                 ColAt(store'.st, s2, d2) = ColAt(store.st, s2, d2)
        [] a = "vsset" ->
             LET g == obs'.arg I == inst[1] old == store.vs[g.col].v new == store'.vs[g.col].v IN
             /\ \A c \in 1..Len(store.vs) : c # g.col => store'.vs[c] = store.vs[c]
             /\ obs'.exp.ret = "refused" => new = old /\ store.vs[g.col].t \notin {"", g.type}
             /\ obs'.exp.ret = "ok" => /\ SubSeq(new, g.pos + 1, g.pos + obs'.exp.n) = NextEl(I, obs'.exp.n)
                                       /\ Len(new) = Max2(Len(old), g.pos + obs'.exp.n)
                                       /\ \A k \in 1..Len(new) : (k <= g.pos \/ k > g.pos + obs'.exp.n) => new[k] = IF k <= Len(old) THEN old[k] ELSE ZeroR
        [] a = "vsres" ->
             LET g == obs'.arg old == store.vs[g.col] new == store'.vs[g.col].v IN
             /\ \A c \in 1..Len(store.vs) : c # g.col => store'.vs[c] = store.vs[c]
             /\ g.count >= 0 => Len(new) \in {g.count, Max2(g.count, Len(old.v))}
             /\ old.t \in {"", g.type} => \A k \in 1..Len(new) : new[k] = IF k <= Len(old.v) THEN old.v[k] ELSE ZeroR
        [] a = "pshare" -> arr'.v = arr.v /\ arr'.sib = arr.v
        [] a = "prepare" /\ obs'.exp.ret = "ok" ->
             LET g == obs'.arg L == Len(arr.v) IN
             /\ SubSeq(arr'.v, 1, L) = arr.v /\ obs'.exp.at = L
             /\ arr'.sib = arr.sib                                   \* a column sharing the storage keeps its content
             /\ "i" \notin DOMAIN g /\ g.len >= 0 => arr'.v = arr.v \o ZerosR(g.len)
             /\ "i" \notin DOMAIN g /\ g.len < 0 => -g.len <= L /\ arr'.v = arr.v \o SubSeq(arr.v, L + g.len + 1, L)
             /\ "i" \in DOMAIN g => /\ Len(arr'.v) = L + g.len * g.ld
                                    /\ \A j \in 1..obs'.exp.n : arr'.v[L + (j - 1) * g.ld + 1] = inst[g.i].seq[inst[g.i].pos + j]
                                    /\ obs'.exp.n = Take(inst[g.i], g.len)
        [] a = "prepare" -> arr' = arr /\ obs'.arg.len < 0 /\ (~arr.has \/ -obs'.arg.len > Len(arr.v))
        [] OTHER -> TRUE ]_xvars

(* a store and its clone are independent: a call on one never changes what the other holds *)
CloneIndependent ==
  [][ obs'.a \in {"rdmod", "rdadv", "rdval", "rddim", "rdcount"} /\ HasClone => HasClone' /\ store'.cl = store.cl ]_xvars

(* the protocol of the new sources answers within Iter's meaning *)
AcceptsX ==
  [][ LET a == obs'.a IN
      CASE a = "value" /\ "type" \notin DOMAIN obs'.arg ->
             LET i == obs'.arg.i IN
             IF obs'.exp.d = <<>> THEN obs'.exp.ret = (IF inst[i].pos < Len(inst[i].seq) THEN "value" ELSE "end")
             ELSE T1Value(src, inst[i], obs'.exp.ret, obs'.exp.d) /\ Exactly(obs'.exp.d, inst[i].seq[inst[i].pos + 1])
        [] a = "consume" -> LET i == obs'.arg.i IN
             IF obs'.exp.d = <<>> THEN obs'.exp.ret = (IF inst[i].pos < Len(inst[i].seq) THEN "value" ELSE "end")
             ELSE T1Consume(src, inst[i], obs'.exp.ret, obs'.exp.d)
        [] a = "advance" -> T1Advance(inst[obs'.arg.i], obs'.exp.ret)
        [] a = "reset"   -> IF obs'.exp.ret = "error" THEN ~Seekable(src) /\ inst' = inst ELSE T1Reset(obs'.exp.ret)
        [] a = "clone"   -> LET i == obs'.arg.i IN
             T1Clone(obs'.exp.ret) /\ (obs'.exp.ret = "ok" =>
                 /\ Remaining(inst'[Len(inst')]) = Remaining(inst[i])
                 /\ inst'[Len(inst')].seq \in {CloneT1(inst[i]).seq, CloneT1(inst[i]).alt})
        [] OTHER -> TRUE ]_xvars
=============================================================================
