--------------------------- MODULE MC_Containers ---------------------------
(* Exhaustive configuration of Containers: full state, small constants.   *)
(* Handle 1 explores up to MaxLen elements (nested ones counted), the     *)
(* other handles MaxLen2.                                                 *)
EXTENDS Containers
CONSTANT MaxLen2
RECURSIVE Total(_)
Total(s) == IF s = <<>> THEN 0 ELSE 1 + Len(s[1].sub) + Total(SubSeq(s, 2, Len(s)))
Bound == \A h \in H : /\ Total(val[h]) <= (IF h = 1 THEN MaxLen ELSE MaxLen2)
                      /\ \A i \in 1..Len(val[h]) : Len(val[h][i].sub) <= MaxSub
View  == <<kind, val, cnt, rec, share>>
=============================================================================
