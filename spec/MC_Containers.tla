--------------------------- MODULE MC_Containers ---------------------------
(* Exhaustive configuration of Containers: full state, small constants.   *)
EXTENDS Containers
Bound == \A h \in H : /\ Len(val[h]) <= MaxLen
                      /\ \A i \in 1..Len(val[h]) : Len(val[h][i].sub) <= MaxSub
View  == <<kind, val, cnt, rec, share>>
=============================================================================
