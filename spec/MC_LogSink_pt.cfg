SPECIFICATION Spec
CONSTANTS
  Configs <- CfgsMix
  Heads <- HeadsPlain
  Levels = {}
  Calls = {}
  TextBytes = {0, 10, 97, 195}
  MaxText = 4
  Ops = {}
  LogMax = 256
  AsFound = {}
VIEW MCView
CHECK_DEADLOCK FALSE
INVARIANTS TypeOK IdleClean Engaged
PROPERTIES DesignAgrees
