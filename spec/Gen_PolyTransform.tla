-------------------------- MODULE Gen_PolyTransform --------------------------
(* Behaviour export: one JSON line per generated transition (the init        *)
(* observation with data, range and transform kinds + the call).             *)
EXTENDS PolyTransform, Json
VARIABLE hist
GenInit == InitT /\ hist = <<obs>>
GenNext == NextT /\ hist' = Append(hist, obs')
GenSpec == GenInit /\ [][GenNext]_<<varsT, hist>>
View == <<data, data2, lo, hi, ranged, kind, lim2, pos, parts>>
Emit == PrintT(<<"BEHAV", ToJson(hist')>>)
Rng13 == {<<1, 3>>}
Rng3 == {<<1, 3>>, <<2, 2>>, <<3, 1>>}
Alpha5 == {0, 1, 2, 3, 4}
Alpha3 == {0, 2, 4}
AlphaN == {-3, -2, -1, 0, 1}      \* around the range of negative decades
RngN == {<<-2, 0>>}
KindsLog == {"log"}
KindsAll == {"lin+", "lin-", "log"}
KindsML == {"lin-", "log"}
=============================================================================
