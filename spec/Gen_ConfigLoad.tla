--------------------------- MODULE Gen_ConfigLoad ---------------------------
(* Behaviour export for ConfigLoad: one JSON line per generated call        *)
(* transition (the calls leading to the source state, then the call with    *)
(* its expected observation).  Steps that only write the draft document are *)
(* not calls: they are explored but neither recorded nor printed.  Of the   *)
(* path object only the calls this extension adds (printing, data behind    *)
(* the path) are printed; the others are replayed by the base check.        *)
EXTENDS MC_ConfigLoad, Json
VARIABLE hist
Call(o) == [a |-> o.a, arg |-> o.arg]
Final(o) == [a |-> o.a, arg |-> o.arg, exp |-> o.exp]
GenInit == InitX /\ hist = <<Call(obs)>>
GenSpecX == GenInit /\ [][NextStore /\ hist' = IF nops' # nops THEN Append(hist, Call(obs')) ELSE hist]_<<xvars, hist>>
GenSpecP == GenInit /\ [][NextPathX /\ hist' = Append(hist, Call(obs'))]_<<xvars, hist>>
\* The implementation may keep more than the text of a value (the terminator a message sent along with it): two
\* histories that leave the same map are kept apart when they differ in such calls, so that both are continued
RawSent == {<<hist[i].arg.cfg, hist[i].arg.els, hist[i].arg.val>> :
              i \in {j \in DOMAIN hist : hist[j].a = "msgset" /\ HasCh(hist[j].arg.val, 0)}}
ViewG == <<tree, st, draft, doc2, nops, narr, RawSent>>
\* (single calls made before any document is used are the same calls whatever has been drafted: printed from the
\* states with an empty draft only)
EmitX == \/ nops' = nops
         \/ narr' = 0 /\ (dnn > 0 \/ doc2 # EmptyDoc)
         \/ PrintT(<<"BEHAV", ToJson(Append(hist, Final(obs')))>>)
EmitP == obs'.a \notin {"pfputs", "pdata"} \/ PrintT(<<"BEHAV", ToJson(Append(hist, Final(obs')))>>)
=============================================================================
