SPECIFICATION TraceSpec
CONSTANTS MaxNodes = 24 Kinds <- NoKinds Pos <- NoPos Keys <- NoKeys
INVARIANTS TypeOK WellFormed OnceInForest Refines
PROPERTIES CloneIso ReleaseOnce
POSTCONDITION TraceAccepted
CHECK_DEADLOCK FALSE
