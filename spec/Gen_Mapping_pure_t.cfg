SPECIFICATION GenSpec
CONSTANTS DimSeq <- Dims2 MaskSeq <- Masks13 CliSeq <- Clis1 DestSeq <- Dest4 PathSeq <- NoSeq Toks <- None
  Impl = "c" WithAll = TRUE Acts <- ActsPure MaxTab = 1
  ItemSet <- None MaxItems = 0 GapSet <- None EdgeGaps <- None
  Letters <- LettersT MaxLetters = 3 LetterGaps <- LGapsT NodeSet <- NodesT MaxNodes = 4
CONSTRAINT Bound
VIEW Skel
ACTION_CONSTRAINT Emit
CHECK_DEADLOCK FALSE
