SPECIFICATION GenSpec
CONSTANTS MaxOps = 6 RawOps = 6 TouchMem = 1
  Shapes <- RawShapesQ
  Datas <- DatasRawQ
  Ks <- KsQ
  OpenArgs = {}
  SeekArgs = {}
  Parts = {1}
  Early = {0}
  Ahead = {0}
VIEW Skel
ACTION_CONSTRAINT Emit
CHECK_DEADLOCK FALSE
