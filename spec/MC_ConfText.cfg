SPECIFICATION ItemSpec
CONSTANTS Configs <- MCConfigsQ OptNames <- MCOptNames SecNames <- MCSecNames Values <- MCValues
          Decos <- MCDecos MaxNodes = 2 MaxDepth = 2
VIEW View
INVARIANTS TypeOK
CHECK_DEADLOCK FALSE
