SPECIFICATION GenSpec
CONSTANTS
  Alphabet = {32, 97, 128, 255}
  MaxLen = 4
  MaxFrag = 3
  MaxDst = 0
  MaxDstFrag = 1
  MaxQ = 0
  Ops = {"read", "length", "argv", "arrmsg", "memchr", "memfcn", "memstr", "memtok", "wide"}
  EmptyBases = {"slice", "null", "guard", "foreign"}
  ForeignBytes = {128, 255}
  ArrKinds = {"exact", "shared", "roomy"}
  MaxFail = 4
VIEW View
ACTION_CONSTRAINT Emit
CHECK_DEADLOCK FALSE
