------------------------------ MODULE MC_Layout ------------------------------
(* Exhaustive configuration of Layout: full state of both tiers; obs is an *)
(* observation, not state.                                                  *)
EXTENDS Layout
View == <<kind, t2, t1, nid, ops>>
=============================================================================
