------------------------------ MODULE MC_Layout ------------------------------
(* Exhaustive configuration of Layout: full state of both tiers; obs is an *)
(* observation, not state.                                                  *)
(* MC_Layout.cfg:   all sequences of two operations (every property x      *)
(*                  value class x spelling).                                *)
(* MC_Layout_t.cfg: additionally every third operation from the reduced     *)
(*                  alphabet LiteOp (two accepted + one refused value per   *)
(*                  property of the target, its resets, copies in both      *)
(*                  directions and onto itself, scribble/fini of the        *)
(*                  sibling) after every such pair.                         *)
EXTENDS Layout
View == <<kind, t2, t1, nid, ops>>

LiteOp ==
  \/ \E nc \in CanonNames(kind) : \E v \in FewVals(PropOfName(kind, nc).pt) : Set(1, nc, v)
  \/ \E nc \in CanonNames(kind) : Reset(1, nc, "null")
  \/ Copy(1, 2, "null") \/ Copy(2, 1, "empty") \/ Copy(1, 1, "null")
  \/ Scribble(2) \/ Fini(2)
Next3 == /\ ops < MaxOps /\ ops' = ops + 1
         /\ IF ops < 2 THEN (AnyOp \/ NoMemOp) ELSE LiteOp
Spec3 == Init /\ [][Next3]_vars
=============================================================================
