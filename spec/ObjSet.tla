------------------------------- MODULE ObjSet -------------------------------
(***************************************************************************)
(* X21 (extension of C20): the generic object "front doors" through which  *)
(* properties of the layout objects are assigned and listed                *)
(*   mpt_object_set / mpt_object_vset   format + variadic arguments        *)
(*   mpt_object_set_iterator            a source of several typed values   *)
(*   mpt_object_args                    "name=value" / "name" arguments    *)
(*   mpt_object_set_nodes               configuration nodes + match flags  *)
(*   mpt_object_foreach / mpt_properties_foreach / mpt_properties_print    *)
(*   mpt_object_typename / mpt_convertable_info                            *)
(* beside the direct route (mpt_object_set_string / mpt_object_set_value)  *)
(* that Layout.tla specifies.  State, tables and value meanings are the    *)
(* ones of Layout.tla (two objects of one kind).                           *)
(*                                                                         *)
(* Tier 1 (C20's own words applied to a door): every property of the       *)
(*   target is afterwards what it was, or what one of the handed-in values *)
(*   for it denotes on the direct route (Perm); when every processed entry *)
(*   is accepted and they name different properties, all of them are       *)
(*   assigned; nothing is assigned from a refused value; the other object  *)
(*   never changes; a listing names exactly the listed properties (those   *)
(*   of the asked class), once, in order, with the current value; printed  *)
(*   text set again gives equal properties.  Order of application and      *)
(*   returned counts are not demanded ("any").                             *)
(* Tier 2 (design): what the code does with the list -- mpt_object_args    *)
(*   stops at the first refused entry, mpt_object_set_nodes filters by the *)
(*   match flags, skips refused entries and goes on, only the first node   *)
(*   may be an unnamed assignment; a source that is nothing but an         *)
(*   iterator is taken by point properties only; text handed over as a     *)
(*   typed character pointer is not parsed as a number (policy P2).        *)
(* TLC checks Tier 2 => Tier 1 (DoorSound) for all small entry lists.      *)
(***************************************************************************)
EXTENDS Layout

CONSTANTS Lvl,      \* size of the entry alphabet of the exhaustive / export runs (1 quick, 2 thorough)
          Doors     \* "c" the C doors, "cxx" the property access of the C++ object interface, "all" both

---------------------------------------------------------------------------
(* entries: [name, v, x]   v = value argument of Layout.tla or NoVal;       *)
(* x = "" | "U" (no name) | "N" (node with children) | "B" (name in        *)
(* another character set)                                                   *)
NoVal == V("none", <<>>, <<>>, "")
Ent(name, v, x) == [name |-> name, v |-> v, x |-> x]
TypedS(c)  == V("s", <<>>, c, "")       \* typed character pointer to the text c
TypedSR(c) == V("sr", <<>>, c, "")      \* ... text given as run-length list
NumTyped(f) == IntTyped(f) \/ f \in {"x", "t", "l", "f", "d"}
AnyVal == <<-99>>                          \* "the statement does not say" in a set of permitted values

(* Tier 1 meaning of the forms Layout.tla leaves open *)
AsEither(r) == IF r.ret = "ok" THEN Either(r.den) ELSE r
DenS(pt, v) ==
  IF pt.t = "str" THEN Ok(IF v.f = "s" THEN RLE(v.c) ELSE v.c)
  ELSE IF v.f = "sr" THEN Silent
  ELSE AsEither(DenN(pt, Txt(v.c)))       \* means what the text means, or is refused (conversion policy)
DenX(pt, v) ==
  IF v.f \in {"s", "sr"} THEN DenS(pt, v)
  ELSE IF v.f \in {"x", "t", "l"} THEN AsEither(Den(pt, TypN("i", v.n)))
  ELSE Den(pt, v)
(* a source that offers several typed values *)
DenIt(pt, vals) ==
  IF Len(vals) = 0 THEN Silent
  ELSE IF pt.t = "pt" THEN
       IF Len(vals) > 2 \/ \E i \in 1..Len(vals) : ~NumTyped(vals[i].f) THEN Silent
       ELSE LET a == vals[1].n  b == vals[Len(vals)].n
                r == DenPt(pt, V("fpt", a \o b, <<>>, "")) IN
            IF r.ret = "ok" /\ \E i \in 1..Len(vals) : vals[i].f # "f" THEN Either(r.den) ELSE r
  ELSE IF Len(vals) = 1 THEN AsEither(DenX(pt, vals[1]))
  ELSE Silent

(* Tier 2 policy of the code for the same forms (determinate) *)
IterTakes(pt) == pt.t = "pt"
DenS2(pt, v) ==
  IF pt.t = "str" THEN DenS(pt, v)
  ELSE IF pt.t \in {"int", "real", "pt", "align", "clip"} THEN Refused
  ELSE IF pt.t = "col" /\ v.f = "s" THEN DenN(pt, Txt(v.c))
  ELSE DenS(pt, v)
Den2(pt, v) ==
  IF v.f \in {"s", "sr"} THEN DenS2(pt, v)
  ELSE IF v.f \in {"x", "t", "l"} THEN Den(pt, TypN("i", v.n))
  ELSE Den(pt, v)
DenIt2(pt, vals) ==
  IF ~IterTakes(pt) \/ Len(vals) = 0 THEN Refused
  ELSE IF \E i \in 1..(IF Len(vals) > 2 THEN 2 ELSE Len(vals)) : ~NumTyped(vals[i].f) THEN Refused
  ELSE LET a == vals[1].n  b == IF Len(vals) = 1 THEN a ELSE vals[2].n IN DenPt(pt, V("fpt", a \o b, <<>>, ""))
\* the policy stays inside what the statement permits
Inside(r2, r1) ==
  \/ r1.ret = "silent" \/ r2 = r1
  \/ r1.ret = "refused" /\ r2.ret = "refused"
  \/ r1.ret = "either" /\ (r2.ret = "refused" \/ (r2.ret = "ok" /\ r2.den = r1.den))
Settled(r) == r.ret \in {"ok", "refused"}

---------------------------------------------------------------------------
(* one entry on the direct route: [ret, tgt, den]                          *)
Res(ret, tgt, den) == [ret |-> ret, tgt |-> tgt, den |-> den]
Named(e) == e.x # "U"
AutoRes(e, t2tier) ==       \* no name: the kind picks the member (Layout.tla Auto)
  IF e.v.f = "none" THEN Res(IF t2tier THEN "refused" ELSE "silent", "", <<>>)
  ELSE IF (e.v.f \in {"rle", "txt"} /\ e.v.c # <<>>) \/ e.v.f = "col"
  THEN LET nm == AutoTarget(e.v) IN
       IF nm = "" THEN Res("refused", "", <<>>)
       ELSE LET r == Den(PropByName(kind, nm).pt, e.v) IN
            IF r.ret = "ok" THEN Res("ok", nm, r.den) ELSE Res("silent", "", <<>>)
  ELSE Res("silent", "", <<>>)
EntRes(e, t2tier) ==
  IF ~Named(e) THEN AutoRes(e, t2tier)
  ELSE LET i == SetResolve(kind, e.name) IN
       IF i = 0 THEN Res("refused", "", <<>>)
       ELSE LET p == Props(kind)[i] IN
            IF e.v.f = "none" THEN Res("ok", p.name, p.pt.def)
            ELSE LET r == IF t2tier THEN Den2(p.pt, e.v) ELSE DenX(p.pt, e.v) IN Res(r.ret, p.name, r.den)
(* a name alone in an argument list: the value is a character pointer to nothing *)
(* a name alone in an argument list asks for the documented default.  The code hands the property a character    *)
(* pointer to nothing: string properties become empty (their default), a colour takes what an empty colour text  *)
(* is on the direct route (opaque black) or its default, everything else is reset or refused -- never a value    *)
(* nobody handed in for that property                                                                             *)
ArgRes(e, t2tier) ==
  IF e.v.f # "none" THEN EntRes(e, t2tier)
  ELSE LET i == SetResolve(kind, e.name) IN
       IF i = 0 THEN Res("refused", "", <<>>)
       ELSE LET p == Props(kind)[i] IN
            IF t2tier THEN LET r == Den2(p.pt, TypedS(<<>>)) IN Res(r.ret, p.name, r.den)
            ELSE IF p.pt.t = "str" THEN Res("ok", p.name, <<>>)
            ELSE Res("either", p.name, p.pt.def)
ArgRes1(e) ==        \* statement tier, as a list (a colour has two permitted outcomes)
  LET r == ArgRes(e, FALSE) IN
  IF e.v.f = "none" /\ r.tgt # "" /\ PropByName(kind, r.tgt).pt.t = "col" THEN <<r, Res("either", r.tgt, BLACK)>> ELSE <<r>>
RECURSIVE ArgRsFrom(_, _)
ArgRsFrom(es, i) == IF i > Len(es) THEN <<>> ELSE ArgRes1(es[i]) \o ArgRsFrom(es, i + 1)
ArgRs(es) == ArgRsFrom(es, 1)

(* object state as a value *)
St(o) == [a |-> t1[o], r |-> t2[o], id |-> nid]
PutS(s, tgt, d) == [a |-> Put1(kind, s.a, tgt, d), r |-> Put2(kind, s.r, tgt, d, s.id), id |-> s.id + 1]

---------------------------------------------------------------------------
(* match flags of mpt_object_set_nodes *)
Bit(m, b) == (m \div b) % 2 = 1
F_Leafs == 1  F_NonLeafs == 2  F_Change == 16  F_Default == 32  F_Empty == 64  F_Unknown == 128
\* the node is handed to mpt_object_set_property and that passes it on
\* an identifier without bytes is "no name"
NodeEnt(e0) ==        \* ... and a node value that has a text form is parsed as text
  LET e == IF e0.v.f = "s" THEN [e0 EXCEPT !.v = Txt(e0.v.c)] ELSE IF e0.v.f = "sr" THEN [e0 EXCEPT !.v = Rle(e0.v.c)] ELSE e0 IN
  IF e.x # "U" /\ e.name = <<>> THEN [e EXCEPT !.x = "U"] ELSE e
Processed(e0, m, i) ==
  LET e == NodeEnt(e0) IN
  /\ IF e.x = "N" THEN Bit(m, F_NonLeafs) ELSE Bit(m, F_Leafs)
  /\ e.x # "B"
  /\ Named(e) \/ (Bit(m, F_Empty) /\ i = 1)
  /\ IF e.v.f = "none" THEN Bit(m, F_Default) ELSE Bit(m, F_Change)

(* Tier 2 runs: final state and the entries applied *)
RECURSIVE ArgsRun(_, _, _)
ArgsRun(s, ents, i) ==
  IF i > Len(ents) THEN [s |-> s, n |-> i - 1]
  ELSE LET r == ArgRes(ents[i], TRUE) IN
       IF r.ret = "ok" THEN ArgsRun(PutS(s, r.tgt, r.den), ents, i + 1) ELSE [s |-> s, n |-> i - 1]
RECURSIVE NodesRun(_, _, _, _, _)
NodesRun(s, ents, m, i, n) ==
  IF i > Len(ents) THEN [s |-> s, n |-> n]
  ELSE LET e == ents[i] IN
       IF ~Processed(e, m, i) THEN NodesRun(s, ents, m, i + 1, n)
       ELSE LET r == EntRes(NodeEnt(e), TRUE) IN
            IF r.ret = "ok" THEN NodesRun(PutS(s, r.tgt, r.den), ents, m, i + 1, n + 1)
            ELSE NodesRun(s, ents, m, i + 1, n)
RECURSIVE DirectRun(_, _, _, _)
DirectRun(s, ents, i, oks) ==
  IF i > Len(ents) THEN [s |-> s, oks |-> oks]
  ELSE LET r == EntRes(ents[i], TRUE) IN
       IF r.ret = "ok" THEN DirectRun(PutS(s, r.tgt, r.den), ents, i + 1, Append(oks, 1))
       ELSE DirectRun(s, ents, i + 1, Append(oks, 0))

(* Tier 1: permitted values per property after a door was given the        *)
(* results rs (sequence of [ret, tgt, den], statement tier) on the state a  *)
SlotsOf(tgt) == IF kind = "text" /\ tgt = "pos" THEN {"x", "y"} ELSE {tgt}
SlotDen(r, s) == IF kind = "text" /\ r.tgt = "pos" THEN (IF s = "x" THEN SubSeq(r.den, 1, 3) ELSE SubSeq(r.den, 4, 6)) ELSE r.den
AllOkDistinct(rs) ==
  /\ \A i \in 1..Len(rs) : rs[i].ret = "ok"
  /\ \A i, j \in 1..Len(rs) : i # j => SlotsOf(rs[i].tgt) \cap SlotsOf(rs[j].tgt) = {}
PermSlot(a, rs, s) ==
  IF AllOkDistinct(rs) /\ \E i \in 1..Len(rs) : s \in SlotsOf(rs[i].tgt)
  THEN {SlotDen(rs[CHOOSE i \in 1..Len(rs) : s \in SlotsOf(rs[i].tgt)], s)}
  ELSE {a[s]}
       \cup {SlotDen(rs[i], s) : i \in {j \in 1..Len(rs) : rs[j].ret \in {"ok", "either"} /\ s \in SlotsOf(rs[j].tgt)}}
       \cup (IF \E i \in 1..Len(rs) : rs[i].ret = "silent" /\ (rs[i].tgt = "" \/ s \in SlotsOf(rs[i].tgt)) THEN {AnyVal} ELSE {})
Perm(a, rs) ==
  [nm \in ReadNames(kind) |->
     IF kind = "text" /\ nm = "pos"
     THEN LET px == PermSlot(a, rs, "x")  py == PermSlot(a, rs, "y") IN
          IF AnyVal \in px \/ AnyVal \in py THEN {AnyVal} ELSE {x \o y : x \in px, y \in py}
     ELSE PermSlot(a, rs, nm)]
InPerm(v, PS) == v \in PS \/ AnyVal \in PS

---------------------------------------------------------------------------
(* observation of a door step: design outcome + permitted values           *)
NoExtra == [x \in {} |-> 0]
DoorAnswer(a, arg, o, ret, perm, extra) ==
  obs' = [a |-> a, arg |-> arg, tgt |-> "", den |-> <<>>, door |-> o, perm |-> perm,
          exp |-> [ret |-> ret, p0 |-> AllView1(kind, t1'[1]), p1 |-> AllView1(kind, t1'[2]), shared |-> SharedCount',
                   alt |-> [nm \in {x \in DOMAIN perm : perm[x] # {View1(kind, t1'[o], x)}} |-> perm[nm]]] @@ extra]
Commit(o, s) ==
  /\ t1' = [t1 EXCEPT ![o] = s.a]
  /\ t2' = [t2 EXCEPT ![o] = s.r]
  /\ nid' = s.id
  /\ UNCHANGED kind
EntArg(e) == [name |-> e.name, f |-> e.v.f, n |-> e.v.n, c |-> e.v.c, sty |-> e.v.sty, x |-> e.x]
EntArgs(ents) == [i \in 1..Len(ents) |-> EntArg(ents[i])]
ValEnts(vals) == [i \in 1..Len(vals) |-> Ent(<<>>, vals[i], "U")]
Results(ents, F(_)) == [i \in 1..Len(ents) |-> F(ents[i])]

(* direct route, entry by entry (mpt_object_set_string / _set_value / reset) *)
DSet(o, ents) ==
  LET run == DirectRun(St(o), ents, 1, <<>>)
      rs  == Results(ents, LAMBDA e : EntRes(e, FALSE)) IN
  /\ \A i \in 1..Len(ents) : Settled(EntRes(ents[i], TRUE))
  /\ Commit(o, run.s)
  /\ DoorAnswer("dset", [o |-> o - 1, ents |-> EntArgs(ents)], o, "any", Perm(t1[o], rs), [oks |-> run.oks])

(* mpt_object_set(obj, name, fmt, ...) / mpt_object_vset: fmt = NullFmt (no   *)
(* format: reset), <<>> (empty format: the default source), or type codes;    *)
(* vals = the arguments for the leading codes that name a variadic type.      *)
NullFmt == <<0>>                        \* no format at all (a null pointer)
VaCodes == {98, 121, 110, 113, 105, 117, 120, 116, 108, 102, 100, 115}    \* b y n q i u x t l f d s
RECURSIVE GoodPrefix(_, _)
GoodPrefix(fmt, i) == IF i <= Len(fmt) /\ fmt[i] \in VaCodes THEN GoodPrefix(fmt, i + 1) ELSE i - 1
WellFormed(fmt) == GoodPrefix(fmt, 1) = Len(fmt)
NameRes(name, unnamed, F(_)) ==       \* result of one assignment to the named property, F: property type -> [ret, den]
  IF unnamed THEN Res("silent", "", <<>>)
  ELSE LET i == SetResolve(kind, name) IN
       IF i = 0 THEN Res("refused", "", <<>>)
       ELSE LET p == Props(kind)[i]  r == F(p.pt) IN Res(r.ret, p.name, r.den)
VSetRes(name, unnamed, fmt, vals, t2tier) ==
  IF fmt = NullFmt THEN (IF unnamed THEN Res("refused", "", <<>>)
                        ELSE NameRes(name, FALSE, LAMBDA pt : Ok(pt.def)))
  ELSE IF fmt = <<>> THEN (IF t2tier THEN Res("refused", "", <<>>)
                           ELSE NameRes(name, unnamed, LAMBDA pt : Either(pt.def)))
  ELSE IF GoodPrefix(fmt, 1) = 0 THEN Res("refused", "", <<>>)
  ELSE IF t2tier /\ (unnamed \/ ~WellFormed(fmt)) THEN Res("refused", "", <<>>)    \* a foreign type code: nothing is assigned
  ELSE LET r == NameRes(name, unnamed, LAMBDA pt : IF t2tier THEN DenIt2(pt, vals) ELSE DenIt(pt, vals)) IN
       IF WellFormed(fmt) \/ r.ret # "ok" THEN r ELSE Res("either", r.tgt, r.den)    \* foreign code: the list as far as it goes, or refused
VSetX(a, o, name, unnamed, fmt, vals, r2) ==
  LET r1 == VSetRes(name, unnamed, fmt, vals, FALSE)
      arg == [o |-> o - 1, name |-> IF unnamed THEN "null" ELSE name, fmt |-> fmt, ents |-> EntArgs(ValEnts(vals))] IN
  /\ Len(vals) = (IF fmt = NullFmt THEN 0 ELSE GoodPrefix(fmt, 1))
  /\ IF r2.ret = "ok" THEN Commit(o, PutS(St(o), r2.tgt, r2.den)) ELSE Same
  /\ DoorAnswer(a, arg, o, IF r1.ret \in {"ok", "refused"} THEN r2.ret ELSE "any", Perm(t1[o], <<r1>>), NoExtra)
VSet(a, o, name, unnamed, fmt, vals) ==
  LET r2 == VSetRes(name, unnamed, fmt, vals, TRUE) IN Settled(r2) /\ VSetX(a, o, name, unnamed, fmt, vals, r2)

(* mpt_object_set_iterator with a source of typed values *)
ISetRes(name, unnamed, vals, t2tier) ==
  IF t2tier /\ unnamed THEN Res("refused", "", <<>>)
  ELSE NameRes(name, unnamed, LAMBDA pt : IF t2tier THEN DenIt2(pt, vals) ELSE DenIt(pt, vals))
ISet(o, name, unnamed, vals) ==
  LET r2 == ISetRes(name, unnamed, vals, TRUE)  r1 == ISetRes(name, unnamed, vals, FALSE)
      arg == [o |-> o - 1, name |-> IF unnamed THEN "null" ELSE name, ents |-> EntArgs(ValEnts(vals))] IN
  /\ Settled(r2)
  /\ IF r2.ret = "ok" THEN Commit(o, PutS(St(o), r2.tgt, r2.den)) ELSE Same
  /\ DoorAnswer("iset", arg, o, IF r1.ret \in {"ok", "refused"} THEN r2.ret ELSE "any", Perm(t1[o], <<r1>>), NoExtra)

(* mpt_object_args: src = "str" texts from an iterator, "va" texts as       *)
(* variadic character pointers, "conv" named typed values                    *)
ArgEnt(src, e) == IF e.v.f \notin {"txt", "rle"} THEN e        \* (a convertable without a named value hands over its text as well)
                  ELSE [e EXCEPT !.v = IF e.v.f = "rle" THEN TypedSR(e.v.c) ELSE TypedS(e.v.c)]
ArgsOffer(src, e) == e.x = "" /\ (src = "conv" => e.v.f \notin {"num", "num2", "txt", "rle", "none"})
                             /\ (src # "conv" => e.v.f \in {"txt", "rle", "none"})
Args(o, src, ents) ==
  LET es  == [i \in 1..Len(ents) |-> ArgEnt(src, ents[i])]
      run == ArgsRun(St(o), es, 1)
      rs  == ArgRs(es) IN
  /\ \A i \in 1..Len(ents) : ArgsOffer(src, ents[i]) /\ Settled(ArgRes(es[i], TRUE))
  /\ Commit(o, run.s)
  /\ DoorAnswer("args", [o |-> o - 1, src |-> src, ents |-> EntArgs(ents)], o, "any", Perm(t1[o], rs), [napplied |-> run.n])

(* mpt_object_set_nodes: values are texts (parsed like mpt_object_set_string) *)
(* or typed values held by the node                                            *)
NodesOffer(e) == e.v.f \notin {"s", "sr"} /\ (e.v.f \in {"txt", "rle"} => e.v.c # <<>>)
Nodes(o, m, lg, ents) ==
  LET run == NodesRun(St(o), ents, m, 1, 0)
      idx == {i \in 1..Len(ents) : Processed(ents[i], m, i)}
      rs  == [i \in 1..Len(ents) |-> IF i \in idx THEN EntRes(NodeEnt(ents[i]), FALSE)
                                      ELSE LET r == EntRes(NodeEnt(ents[i]), FALSE) IN
                                           IF r.ret = "ok" THEN Res("either", r.tgt, r.den) ELSE r] IN
  /\ \A i \in 1..Len(ents) : NodesOffer(ents[i]) /\ (i \in idx => Settled(EntRes(NodeEnt(ents[i]), TRUE)))
  /\ Commit(o, run.s)
  /\ DoorAnswer("nodes", [o |-> o - 1, match |-> m, log |-> lg, ents |-> EntArgs(ents)], o, "any",
                Perm(t1[o], rs),
                [nproc |-> run.n])

(* listing: every listed property of the asked class, once, in order *)
IsDefault(o, i) == View1(kind, t1[o], Props(kind)[i].name) = Props(kind)[i].pt.def
Listed(o, m) == SelectSeq([i \in 1..NListed(kind) |-> i],
                          LAMBDA i : IF IsDefault(o, i) THEN Bit(m % 256, F_Default) ELSE Bit(m % 256, F_Change))
List(o, m, mode) ==
  LET ix == Listed(o, m) IN
  /\ Same
  /\ obs' = [a |-> "list", arg |-> [o |-> o - 1, match |-> m, mode |-> mode], tgt |-> "", den |-> <<>>, door |-> 0, perm |-> <<>>,
             exp |-> [ret |-> "ok", names |-> [j \in 1..Len(ix) |-> Props(kind)[ix[j]].name],
                      vals |-> IF mode = "print" THEN "any"
                               ELSE [j \in 1..Len(ix) |-> View1(kind, t1[o], Props(kind)[ix[j]].name)],
                      p0 |-> AllView1(kind, t1[1]), p1 |-> AllView1(kind, t1[2]), shared |-> SharedCount]]

(* every property printed (mpt_properties_print) and the printed text --    *)
(* the typed value where the door hands it on unprinted -- set in the other *)
(* object: equal properties, own strings.  A text position outside [0,1]    *)
(* (reachable through x / y only) cannot be written back through "pos":     *)
(* listed open finding of C20.                                              *)
Unit(r) == r[1] = 0 /\ r[2] = 0 /\ r[3] \in 0..2
PosTransferable(from) == kind = "text" => (Unit(t1[from].x) /\ Unit(t1[from].y))
\* numbers are printed with six significant digits: a real value with more does not come back (number format, not C20)
Printable(r) == IF r[1] # 0 THEN r = TLEN03 ELSE (r[3] % 2 = 0 /\ r[2] \in -29..29) \/ r[2] \in -2..2
RealNames == {Props(kind)[i].name : i \in {j \in 1..NProps(kind) : Props(kind)[j].pt.t = "real"}}
AllPrintable(from) == \A nm \in RealNames : Printable(t1[from][nm])
PrintSet(o, from) ==
  /\ o # from /\ PosTransferable(from) /\ AllPrintable(from)
  /\ t1' = [t1 EXCEPT ![o] = t1[from]]
  /\ t2' = [t2 EXCEPT ![o] = Dup2(kind, t2[from], nid)]
  /\ nid' = nid + 2 /\ UNCHANGED kind
  /\ obs' = [a |-> "printset", arg |-> [o |-> o - 1, from |-> from - 1], tgt |-> "", den |-> <<>>, door |-> 0, perm |-> <<>>,
             exp |-> Exp("ok")]

(* mpt_object_typename, mpt_convertable_info of a convertable that is an object *)
TName(o) ==
  /\ Same
  /\ obs' = [a |-> "tname", arg |-> [o |-> o - 1], tgt |-> "", den |-> <<>>, door |-> 0, perm |-> <<>>,
             exp |-> Exp("ok") @@ [tname |-> kind, iname |-> "object", idesc |-> kind, icode |-> 1]]

(* C++ object interface (mpt++/object.cpp)                                  *)
(* obj[name] = text | value: the name is looked up like a read (unique      *)
(* prefixes), the assignment goes to the listed name                        *)
ASetRes(name, v, t2tier) ==
  LET i == Resolve1(kind, name) IN
  IF i < 0 THEN Res("silent", "", <<>>)
  ELSE IF i = 0 THEN Res("refused", "", <<>>)
  ELSE EntRes(Ent(Props(kind)[i].nc, v, ""), t2tier)
ASet(o, name, v) ==
  LET r2 == ASetRes(name, v, TRUE)  r1 == ASetRes(name, v, FALSE) IN
  /\ v.f # "none" /\ Settled(r2)
  /\ IF r2.ret = "ok" THEN Commit(o, PutS(St(o), r2.tgt, r2.den)) ELSE Same
  /\ DoorAnswer("aset", [o |-> o - 1, ents |-> <<EntArg(Ent(name, v, ""))>>], o,
                IF r1.ret \in {"ok", "refused"} THEN r2.ret ELSE "any", Perm(t1[o], <<r1>>), NoExtra)
(* for (it = obj.begin(); it != obj.end(); ++it): every listed property once, in order, with its value *)
AList(o, cst) ==
  /\ Same
  /\ obs' = [a |-> "alist", arg |-> [o |-> o - 1, const |-> cst], tgt |-> "", den |-> <<>>, door |-> 0, perm |-> <<>>,
             exp |-> [ret |-> "ok", names |-> [j \in 1..NListed(kind) |-> Props(kind)[j].name],
                      vals |-> [j \in 1..NListed(kind) |-> View1(kind, t1[o], Props(kind)[j].name)],
                      p0 |-> AllView1(kind, t1[1]), p1 |-> AllView1(kind, t1[2]), shared |-> "any"]]
(* object::set(const node *, handler, data): assigns node after node and stops at the first one it does not assign *)
NSetStops(e) == ~Named(NodeEnt(e)) \/ e.v.f = "none"
RECURSIVE NSetRun(_, _, _)
NSetRun(s, ents, i) ==
  IF i > Len(ents) THEN [s |-> s, n |-> i - 1]
  ELSE IF NSetStops(ents[i]) THEN [s |-> s, n |-> i - 1]
  ELSE LET r == EntRes(NodeEnt(ents[i]), TRUE) IN
       IF r.ret = "ok" THEN NSetRun(PutS(s, r.tgt, r.den), ents, i + 1) ELSE [s |-> s, n |-> i - 1]
NSetRs(ents) == [i \in 1..Len(ents) |-> LET r == EntRes(NodeEnt(ents[i]), FALSE) IN
                                         IF NSetStops(ents[i]) /\ r.ret = "ok" THEN Res("either", r.tgt, r.den) ELSE r]
NSet(o, ents) ==
  LET run == NSetRun(St(o), ents, 1) IN
  /\ \A i \in 1..Len(ents) : ents[i].x \in {"", "U"} /\ ents[i].v.f \in {"num", "num2", "txt", "rle", "none"}
                              /\ (ents[i].v.f \in {"txt", "rle"} => ents[i].v.c # <<>>)
                              /\ (NSetStops(ents[i]) \/ Settled(EntRes(NodeEnt(ents[i]), TRUE)))
  /\ Commit(o, run.s)
  /\ DoorAnswer("nset", [o |-> o - 1, proc |-> 1, ents |-> EntArgs(ents)], o, "any", Perm(t1[o], NSetRs(ents)), [napplied |-> run.n])

---------------------------------------------------------------------------
(* entry alphabet of the exhaustive / export runs                          *)
Accepted(pt) ==      \* a value the property takes on the direct route, by form
  CASE pt.t = "int"   -> <<NumN(pt.hi), TypN("i", pt.lo)>>
    [] pt.t = "real"  -> <<Num(3, "dec"), Typ("i", -6)>>
    [] pt.t = "chr"   -> <<Txt(W_A), Txt(W_r)>>
    [] pt.t = "str"   -> <<Rle(<<104, 1, 105, 1>>), Rle(<<121, 300>>)>>
    [] pt.t = "col"   -> <<Txt(W_blue), Col(<<128, 1, 2, 3>>)>>
    [] pt.t = "pt"    -> <<Num(1, "dec"), Pt(2, 1)>>
    [] pt.t = "intv"  -> <<Num(14, "dec"), Txt(W_log)>>
    [] pt.t = "align" -> <<Num(14, "dec"), Txt(W_bez)>>
    [] pt.t = "clip"  -> <<Num(6, "dec"), Txt(W_zx)>>
RefusedVal(pt) == IF pt.t \in {"str", "chr"} THEN Col(<<255, 1, 2, 3>>)
                  ELSE IF pt.t = "pt" THEN Num(-1, "dec")
                  ELSE IF pt.t \in {"align", "clip"} THEN Num(600, "dec") ELSE Txt(W_abc)
PropEnts(i) ==       \* entries for the i-th property of the kind
  LET p == Props(kind)[i] IN
  {Ent(p.nc, Accepted(p.pt)[1], ""), Ent(p.nc, NoVal, "")}
  \cup (IF Lvl >= 2 THEN {Ent(p.nc, Accepted(p.pt)[2], ""), Ent(p.nc, RefusedVal(p.pt), "")} ELSE {})
Focus == IF Lvl >= 2 THEN 1..NProps(kind) ELSE {1, 2, NProps(kind) - 1, NProps(kind)}
PoolCore == UNION {PropEnts(i) : i \in Focus}
PoolOdd == {Ent(N_bogus, Txt(W_abc), ""), Ent(Props(kind)[1].nc, RefusedVal(Props(kind)[1].pt), "")}
\* entries that only mean something to one door
PoolNodes == {Ent(Props(kind)[1].nc, Accepted(Props(kind)[1].pt)[1], "N"), Ent(Props(kind)[2].nc, Accepted(Props(kind)[2].pt)[1], "B"),
              Ent(<<>>, Rle(<<113, 2>>), "U"), Ent(<<>>, Col(<<64, 3, 2, 1>>), "U"), Ent(<<>>, NoVal, "U")}
TextEnts == {Ent(Props(kind)[i].nc, v, "") : i \in Focus,
                  v \in {Txt(W_five), Txt(W_abc), Rle(<<104, 1, 105, 1>>), NoVal}
                        \cup (IF Lvl >= 2 THEN {Txt(W_red), Txt(W_A), Rle(<<121, 300>>)} ELSE {})}
            \cup {Ent(N_bogus, Txt(W_abc), "")}
ConvEnts == {Ent(Props(kind)[i].nc, v, "") : i \in Focus, v \in {Typ("i", 4), Typ("d", 3), TypedS(W_A), Col(<<128, 1, 2, 3>>), Pt(2, 1), Typ("x", 10)}}
             \cup {Ent(N_bogus, Typ("i", 4), "")}
Lists(S, n) == {<<e>> : e \in S} \cup (IF n >= 2 THEN {<<e, f>> : e \in S, f \in S} ELSE {})
Short(S) == {<<>>} \cup Lists(S, 1)
\* a few three-entry lists: accepted, refused, accepted (what happens after a refusal)
Triples(S, OkP(_)) ==
  LET ok == {e \in S : OkP(e) /\ e.v.f # "none"} IN
  IF \A e \in ok, f \in ok : e.name = f.name THEN {}
  ELSE LET e1 == CHOOSE e \in ok : \E f \in ok : f.name # e.name
           e2 == CHOOSE e \in ok : e.name # e1.name IN
       {<<e1, Ent(N_bogus, Txt(W_abc), ""), e2>>, <<e1, Ent(e2.name, NoVal, ""), e2>>,
        <<e2, Ent(e1.name, RefusedVal(PropOfName(kind, e1.name).pt), ""), e1>>}
(* every property followed by another one: a setter that answers a positive code (a point takes one or two       *)
(* coordinates) must not end the list; and the whole table in one list, forwards and backwards                   *)
TextAcc(pt) == <<Accepted(pt)[1]>> \o (IF pt.t = "pt" THEN <<Num2(2, 1)>> ELSE <<>>)
AccEnt(i) == Ent(Props(kind)[i].nc, Accepted(Props(kind)[i].pt)[1], "")
NextOf(i) == (i % NProps(kind)) + 1
Chains == UNION {{<<Ent(Props(kind)[i].nc, TextAcc(Props(kind)[i].pt)[k], ""), AccEnt(NextOf(i))>> :
                     k \in 1..Len(TextAcc(Props(kind)[i].pt))} : i \in 1..NProps(kind)}
          \cup {<<Ent(Props(kind)[i].nc, TextAcc(Props(kind)[i].pt)[Len(TextAcc(Props(kind)[i].pt))], ""), AccEnt(NextOf(i)), AccEnt(NextOf(NextOf(i)))>> :
                  i \in {j \in 1..NProps(kind) : Props(kind)[j].pt.t = "pt"}}
          \cup {[i \in 1..NProps(kind) |-> AccEnt(i)], [i \in 1..NProps(kind) |-> AccEnt(NProps(kind) + 1 - i)]}
(* argument lists that mix assignments and bare names in every order, on the same and on different properties *)
ArgFocus == Focus \cup {i \in 1..NProps(kind) : Props(kind)[i].pt.t = "str"}
ArgAssign == {Ent(Props(kind)[i].nc, v, "") : i \in ArgFocus, v \in {Rle(<<104, 1, 105, 1>>), Txt(W_abc)}}
ArgBare == {Ent(Props(kind)[i].nc, NoVal, "") : i \in ArgFocus}
ArgRle == {x \in ArgAssign : x.v.f = "rle"}
ArgMixed == {<<a, b>> : a \in ArgAssign, b \in ArgBare} \cup {<<b, a>> : a \in ArgAssign, b \in ArgBare}
            \cup {<<b, c>> : b \in ArgBare, c \in ArgBare}
            \cup {<<a, b, Ent(a.name, NoVal, "")>> : a \in ArgRle, b \in ArgBare}
            \cup {<<b, a, b>> : a \in ArgRle, b \in ArgBare}
            \cup {<<a, Ent(b.name, Txt(W_abc), ""), b>> : a \in ArgRle, b \in ArgBare}
ArgTriples == Triples(TextEnts, LAMBDA e : ArgRes(ArgEnt("str", e), TRUE).ret = "ok")
NodeTriples == Triples(PoolCore \cup PoolOdd, LAMBDA e : EntRes(e, TRUE).ret = "ok")
Presets ==           \* second object prepared through the direct route
  LET ok == [i \in 1..NProps(kind) |-> Ent(Props(kind)[i].nc, Accepted(Props(kind)[i].pt)[1], "")] IN
  {<<>>, <<ok[1], ok[NProps(kind)]>>, [i \in 1..NProps(kind) |-> ok[i]],
   [i \in 1..NProps(kind) |-> Ent(Props(kind)[i].nc, Accepted(Props(kind)[i].pt)[2], "")]}
ValLists ==          \* what a format / iterator delivers
  {<<Typ("f", 1)>>, <<Typ("f", 1), Typ("f", 2)>>, <<Typ("d", 2), Typ("f", 0)>>, <<Typ("i", 2)>>, <<Typ("f", 3), Typ("f", 1)>>,
   <<Typ("f", 1), Typ("f", 2), Typ("f", 0)>>, <<TypedS(W_red)>>, <<Typ("f", 1), TypedS(W_abc)>>, <<Typ("y", 4)>>, <<Typ("x", 2), Typ("n", 0)>>}
FmtOf(vals) == [i \in 1..Len(vals) |-> CASE vals[i].f = "s" -> 115 [] vals[i].f = "f" -> 102 [] vals[i].f = "d" -> 100
                                           [] vals[i].f = "i" -> 105 [] vals[i].f = "y" -> 121 [] vals[i].f = "x" -> 120
                                           [] vals[i].f = "n" -> 110 [] OTHER -> 105]
DoorNames == {Props(kind)[i].nc : i \in {j \in 1..NProps(kind) : Lvl >= 2 \/ j \in Focus \/ Props(kind)[j].pt.t = "pt"}} \cup {N_bogus}
Masks == {49, 17, 51, 113} \cup (IF Lvl >= 2 THEN {33, 50, 241, 1, 16, 35, 115, 0} ELSE {})

DoorOp ==
  \/ \E l \in Lists(TextEnts, IF Lvl >= 2 THEN 2 ELSE 1) \cup ArgTriples \cup {<<>>} :
        Args(1, "str", l) \/ (Lvl >= 2 /\ Args(1, "va", l))
  \/ \E l \in Short(TextEnts) \cup ArgTriples : Args(1, "va", l)
  \/ \E l \in ArgMixed : Args(1, "str", l) \/ (Len(l) = 2 /\ (Lvl >= 2 \/ l[1] \in ArgRle \/ l[2] \in ArgRle) /\ Args(1, "va", l))
  \/ \E l \in Chains : Nodes(1, 49, 1, l) \/ Nodes(1, 51, 0, l)
  \/ \E l \in Lists(ConvEnts, 1) \cup {<<e, f>> : e \in {x \in ConvEnts : Lvl >= 2 \/ x.v.f \in {"i", "s"}}, f \in {x \in ConvEnts : x.v.f = "d"}} : Args(1, "conv", l)
  \/ \E m \in Masks : \E l \in Lists(PoolCore \cup PoolOdd, 1) \cup Lists(PoolNodes, IF Lvl >= 2 THEN 2 ELSE 1) \cup NodeTriples
                             \cup {<<e, f>> : e \in PoolNodes, f \in {x \in PoolCore : x.name = Props(kind)[1].nc}} :
        Nodes(1, m, IF m % 2 = 1 THEN 1 ELSE 0, l)
  \/ \E nc \in DoorNames : \E vals \in ValLists :
        \/ VSet("vset", 1, nc, FALSE, FmtOf(vals), vals)
        \/ (Len(vals) = 1 /\ VSet("vvset", 1, nc, FALSE, FmtOf(vals) \o <<63>>, vals))
        \/ ISet(1, nc, FALSE, vals)
  \/ \E nc \in DoorNames : VSet("vset", 1, nc, FALSE, NullFmt, <<>>) \/ VSet("vvset", 1, nc, FALSE, <<>>, <<>>)
                           \/ VSet("vvset", 1, nc, FALSE, NullFmt, <<>>) \/ VSet("vset", 1, nc, FALSE, <<63, 102>>, <<>>)
  \/ \E vals \in {<<Typ("f", 1)>>, <<TypedS(W_red)>>} : VSet("vset", 1, <<>>, TRUE, FmtOf(vals), vals) \/ ISet(1, <<>>, TRUE, vals)
  \/ VSet("vset", 1, <<>>, TRUE, NullFmt, <<>>)
  \/ \E m \in {-1, 16, 32, 48, 0} : \E mode \in {"foreach", "props", "print"} : List(1, m, mode) \/ (m = -1 /\ List(2, m, mode))
  \/ PrintSet(1, 2) \/ PrintSet(2, 1)
  \/ TName(1)

ASetVals(pt) == {Accepted(pt)[1], RefusedVal(pt)} \cup (IF Lvl >= 2 THEN {Accepted(pt)[2]} ELSE {})
NSetPool == {e \in PoolCore \cup PoolOdd : e.v.f \in {"num", "txt", "rle", "none"}} \cup {Ent(<<>>, Rle(<<113, 2>>), "U")}
CxxOp ==
  \/ \E nm \in GetNames(kind) : Resolve1(kind, nm) >= 0 /\
        \E v \in ASetVals(Props(kind)[IF Resolve1(kind, nm) = 0 THEN 1 ELSE Resolve1(kind, nm)].pt) : ASet(1, nm, v)
  \/ AList(1, 0) \/ AList(1, 1) \/ AList(2, 0)
  \/ \E l \in Lists(NSetPool, IF Lvl >= 2 THEN 2 ELSE 1) \cup NodeTriples \cup {<<>>}
              \cup {<<e, f>> : e \in {x \in NSetPool : x.name = Props(kind)[1].nc \/ x.x = "U"}, f \in {x \in NSetPool : x.name = Props(kind)[2].nc}}
              \cup Chains : NSet(1, l)

Next21 ==
  /\ ops < MaxOps /\ ops' = ops + 1
  /\ IF ops = 0 THEN \E l \in Presets : \E o \in {1, 2} : DSet(o, l)
     ELSE \/ Doors \in {"c", "all"} /\ DoorOp
          \/ Doors \in {"cxx", "all"} /\ CxxOp
          \/ (ops = 1 /\ \E l \in Presets : l # <<>> /\ DSet(1, l))
Init21 == /\ kind \in KindSet
          /\ t2 = <<Def2(kind), Def2(kind)>> /\ t1 = <<Def1(kind), Def1(kind)>>
          /\ nid = 1 /\ ops = 0
          /\ obs = [a |-> "init", arg |-> [kind |-> kind], tgt |-> "", den |-> <<>>, door |-> 0, perm |-> <<>>,
                        exp |-> [ret |-> "ok", p0 |-> AllView1(kind, Def1(kind)), p1 |-> AllView1(kind, Def1(kind)), shared |-> 0]]
Spec21 == Init21 /\ [][Next21]_vars

---------------------------------------------------------------------------
(* Tier 2 => Tier 1 *)
IsDoor(ob) == ob.door # 0
\* every property of the target is what it was or what a handed-in value denotes; the other object is untouched
DoorSound == [][IsDoor(obs') =>
                 /\ \A nm \in ReadNames(kind) : InPerm(View2(kind, t2'[obs'.door], nm), obs'.perm[nm])
                 /\ t2'[3 - obs'.door] = t2[3 - obs'.door] /\ t1'[3 - obs'.door] = t1[3 - obs'.door]]_vars
\* listing / naming reads only
Reads == [][obs'.a \in {"list", "tname", "alist"} => (t2' = t2 /\ t1' = t1)]_vars
\* printed and set again: equal properties, own strings (OwnStrings invariant), source untouched
PrintEqual == [][obs'.a = "printset" =>
                  /\ AllView2(kind, t2'[obs'.arg.o + 1]) = AllView2(kind, t2[obs'.arg.from + 1])
                  /\ t2'[obs'.arg.from + 1] = t2[obs'.arg.from + 1]]_vars
\* the policy of the code for the open forms lies inside the statement
ASSUME PolicyInside ==
  \A k \in {"axis", "line", "text", "graph", "world"} : \A i \in 1..NProps(k) :
     LET pt == Props(k)[i].pt IN
     /\ \A v \in {TypedS(W_A), TypedS(W_red), TypedS(W_abc), TypedS(W_five), TypedSR(<<104, 1, 105, 1>>), Typ("x", 10), Typ("t", 4)} :
           Inside(Den2(pt, v), DenX(pt, v))
     /\ \A vals \in {<<Typ("f", 1)>>, <<Typ("f", 1), Typ("f", 2)>>, <<Typ("d", 2), Typ("f", 0)>>, <<Typ("i", 2)>>, <<Typ("f", 3), Typ("f", 1)>>,
                     <<Typ("f", 1), Typ("f", 2), Typ("f", 0)>>, <<TypedS(W_red)>>, <<Typ("f", 1), TypedS(W_abc)>>, <<Typ("y", 4)>>} :
           Inside(DenIt2(pt, vals), DenIt(pt, vals))
=============================================================================
