SPECIFICATION GenSpec
CONSTANTS
  Configs <- CfgsMix
  Heads <- HeadsOps
  Levels = {}
  Calls = {}
  TextBytes = {2, 97}
  MaxText = 1
  Ops = {"abort"}
  LogMax = 256
  AsFound = {}
  Chain = TRUE
  GenMax = 12
VIEW GenView
CONSTRAINT GenBound
CHECK_DEADLOCK FALSE
ACTION_CONSTRAINT Emit
