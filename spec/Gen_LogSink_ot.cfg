SPECIFICATION GenSpec
CONSTANTS
  Configs <- CfgsMix
  Heads <- HeadsOps
  Levels = {}
  Calls = {}
  TextBytes = {2, 97}
  MaxText = 2
  Ops = {"abort"}
  LogMax = 256
  AsFound = {}
  Chain = TRUE
  GenMax = 13
VIEW GenView
CONSTRAINT GenBound
CHECK_DEADLOCK FALSE
ACTION_CONSTRAINT Emit
