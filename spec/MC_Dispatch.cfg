SPECIFICATION Spec
CONSTANTS SmallIds = {1, 2} Widths = {1} MaxTok = 3
  Texts <- CTexts HRs <- CHRsQ
CONSTRAINT Bound
VIEW View
INVARIANTS TypeOK Refines OnceOnly GoneNotified HeldApart
PROPERTIES DeliveredRight OneHandler FiniAll SnapshotSilent ReserveUnique DefaultFollows
CHECK_DEADLOCK FALSE
