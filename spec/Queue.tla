------------------------------- MODULE Queue -------------------------------
(***************************************************************************)
(* Ring-buffer queue of mptcore/queue (property C13).                      *)
(*                                                                         *)
(* Tier 1 (meaning):  deq  -- the byte list a plain double-ended list      *)
(*                    would hold.                                          *)
(* Tier 2 (design):   store/max/off/len mirror struct queue                *)
(*                    {base,len,max,off}; every action is one public call. *)
(* obs is what the last call was given (arg) and what it must answer       *)
(* (exp); conformance verdicts look at obs.exp only.                       *)
(***************************************************************************)
EXTENDS Naturals, Sequences, FiniteSets, TLC

CONSTANTS MaxCap,   \* largest capacity explored
          MaxLen,   \* largest element length offered
          Word      \* allocation rounding of mpt_queue_prepare (sizeof(void *))

VARIABLES store, max, off, len,  \* Tier 2
          deq,                   \* Tier 1
          ctr,                   \* fresh-byte counter (distinguishable bytes)
          obs
vars == <<store, max, off, len, deq, ctr, obs>>

---------------------------------------------------------------------------
(* helpers *)
Min(a, b) == IF a < b THEN a ELSE b
Zeros(n)  == [i \in 1..n |-> 0]
Fresh(n)  == [i \in 1..n |-> ((ctr + i - 1) % 250) + 1]
LastN(s, n) == SubSeq(s, Len(s) - n + 1, Len(s))       \* last n elements
FirstN(s, n) == SubSeq(s, 1, n)                        \* first n elements
Drop(s, n) == SubSeq(s, n + 1, Len(s))
AlignTo(x) == IF x = 0 THEN 0 ELSE ((x + Word - 1) \div Word) * Word

\* refinement mapping Tier 2 -> Tier 1
Content == [i \in 1..len |-> store[(off + i - 1) % max]]

\* storage of capacity m holding seq s from offset o, unused cells zeroed
Layout(m, o, s) ==
  [j \in 0..(m - 1) |->
     LET k == (j + m - o) % m IN IF k < Len(s) THEN s[k + 1] ELSE 0]

\* write d at logical position pos (0-based) of a ring (m, o)
Put(st, m, o, pos, d) ==
  [j \in DOMAIN st |->
     LET k == (j + 2 * m - o - pos) % m IN IF k < Len(d) THEN d[k + 1] ELSE st[j]]

\* zero the cells outside the used range (normalises garbage)
Clean(st, m, o, l) ==
  [j \in DOMAIN st |-> IF (j + m - o) % m < l THEN st[j] ELSE 0]

Wrapped    == max > 0 /\ off + len > max
LowPart    == IF max = 0 THEN 0 ELSE Min(len, max - off)  \* bytes before the border
HighPart   == len - LowPart

---------------------------------------------------------------------------
Answer(a, arg, ret, out) ==
  obs' = [a |-> a, arg |-> arg, exp |-> [ret |-> ret, out |-> out, content |-> deq']]

Refuse(a, arg) ==
  /\ UNCHANGED <<store, max, off, len, deq, ctr>>
  /\ Answer(a, arg, "refused", <<>>)

(* A zero-length request asks for nothing: both answers are acceptable      *)
(* ("any"), the byte list must stay as it is.                              *)
(* mpt_qpush: append d at the right end *)
QPush(d) ==
  LET n == Len(d) arg == [data |-> d] IN
  IF n > max - len THEN Refuse("qpush", arg)
  ELSE /\ store' = IF max = 0 THEN store ELSE Put(store, max, off, len, d)
       /\ len' = len + n /\ deq' = deq \o d /\ ctr' = ctr + n
       /\ UNCHANGED <<max, off>>
       /\ Answer("qpush", arg, IF n = 0 THEN "any" ELSE "ok", <<>>)

(* mpt_qunshift: prepend d at the left end *)
QUnshift(d) ==
  LET n == Len(d) arg == [data |-> d] IN
  IF n > max - len THEN Refuse("qunshift", arg)
  ELSE LET o == IF max = 0 THEN 0 ELSE (off + max - n) % max IN
       /\ off' = o
       /\ store' = IF max = 0 THEN store ELSE Put(store, max, o, 0, d)
       /\ len' = len + n /\ deq' = d \o deq /\ ctr' = ctr + n
       /\ UNCHANGED max
       /\ Answer("qunshift", arg, IF n = 0 THEN "any" ELSE "ok", <<>>)

(* mpt_qpop: remove n bytes at the right end; without a caller buffer the  *)
(* call may be refused when the bytes are not contiguous in the storage.   *)
PopSplit(n)   == HighPart > 0 /\ n > HighPart     \* design: bytes not contiguous
ShiftSplit(n) == n > LowPart
QPop(n, buf, split) ==
  LET arg == [n |-> n, buf |-> buf] IN
  IF n > len THEN Refuse("qpop", arg)
  ELSE IF buf = 0 /\ split THEN Refuse("qpop", arg)
  ELSE /\ len' = len - n /\ deq' = FirstN(deq, len - n)
       /\ store' = Clean(store, max, off, len - n)
       /\ UNCHANGED <<max, off, ctr>>
       /\ Answer("qpop", arg, IF n = 0 THEN "any" ELSE "ok", LastN(deq, n))

(* mpt_qshift: remove n bytes at the left end *)
ShiftOff(n) == IF max = 0 THEN 0
               ELSE IF n >= LowPart THEN n - LowPart ELSE off + n
QShift(n, buf, split) ==
  LET arg == [n |-> n, buf |-> buf] IN
  IF n > len THEN Refuse("qshift", arg)
  ELSE IF buf = 0 /\ split THEN Refuse("qshift", arg)
  ELSE /\ len' = len - n /\ deq' = Drop(deq, n)
       /\ off' = ShiftOff(n)
       /\ store' = Clean(store, max, ShiftOff(n), len - n)
       /\ UNCHANGED <<max, ctr>>
       /\ Answer("qshift", arg, IF n = 0 THEN "any" ELSE "ok", FirstN(deq, n))

(* mpt_queue_crop: remove n bytes at logical position pos *)
Crop(pos, n) ==
  LET arg == [pos |-> pos, n |-> n] IN
  IF pos + n > len THEN Refuse("crop", arg)
  ELSE IF pos = 0
  THEN /\ len' = len - n /\ deq' = Drop(deq, n)
       /\ off' = ShiftOff(n)
       /\ store' = Clean(store, max, ShiftOff(n), len - n)
       /\ UNCHANGED <<max, ctr>>
       /\ Answer("crop", arg, "ok", <<>>)
  ELSE /\ len' = len - n
       /\ deq' = FirstN(deq, pos) \o Drop(deq, pos + n)
       /\ store' = IF max = 0 THEN store
                   ELSE Clean(Put(store, max, off, pos, Drop(deq, pos + n)), max, off, len - n)
       /\ UNCHANGED <<max, off, ctr>>
       /\ Answer("crop", arg, "ok", <<>>)

(* mpt_queue_set: overwrite Len(d) bytes at pos (zero = 1: no data, zero fill) *)
Set(pos, d, zero) ==
  LET n == Len(d) arg == [pos |-> pos, data |-> d, zero |-> zero] IN
  IF n = 0
  THEN /\ UNCHANGED <<store, max, off, len, deq, ctr>>
       /\ Answer("set", arg, IF pos <= len THEN "ok" ELSE "any", <<>>)
  ELSE IF pos + n > len THEN Refuse("set", arg)
  ELSE /\ store' = Put(store, max, off, pos, d)
       /\ deq' = [i \in 1..len |-> IF i > pos /\ i <= pos + n THEN d[i - pos] ELSE deq[i]]
       /\ ctr' = ctr + n
       /\ UNCHANGED <<max, off, len>>
       /\ Answer("set", arg, "ok", <<>>)

(* mpt_queue_get: read n bytes at pos *)
Get(pos, n) ==
  LET arg == [pos |-> pos, n |-> n] IN
  IF n = 0
  THEN /\ UNCHANGED <<store, max, off, len, deq, ctr>>
       /\ Answer("get", arg, IF pos <= len THEN "ok" ELSE "any", <<>>)
  ELSE IF pos + n > len THEN Refuse("get", arg)
  ELSE /\ UNCHANGED <<store, max, off, len, deq, ctr>>
       /\ Answer("get", arg, "ok", SubSeq(deq, pos + 1, pos + n))

(* mpt_queue_align: move the content so that it starts at storage offset   *)
(* pos; the byte list is unchanged.  pos > max is ignored.                 *)
Align(pos) ==
  LET arg == [pos |-> pos]
      o == IF pos > max THEN off ELSE IF len = 0 \/ max = 0 THEN 0 ELSE pos % max IN
  /\ off' = o
  /\ store' = IF max = 0 THEN store ELSE Layout(max, o, deq)
  /\ UNCHANGED <<max, len, deq, ctr>>
  /\ Answer("align", arg, "ok", <<>>)

(* mpt_queue_resize: n = 0 releases everything; shrinking below the fill   *)
(* drops bytes from the queue start (documented in queue_resize.c);        *)
(* growing keeps the content.                                              *)
Resize(n) ==
  LET arg == [n |-> n] IN
  IF n = 0
  THEN /\ max' = 0 /\ off' = 0 /\ len' = 0 /\ store' = << >> /\ deq' = <<>>
       /\ UNCHANGED ctr
       /\ Answer("resize", arg, "any", <<>>)
  ELSE IF n < max
  THEN LET keep == Min(len, n) IN
       /\ deq' = LastN(deq, keep) /\ len' = keep /\ off' = 0 /\ max' = n
       /\ store' = Layout(n, 0, LastN(deq, keep))
       /\ UNCHANGED ctr
       /\ Answer("resize", arg, "ok", <<>>)
  ELSE IF n > max
  THEN LET o == IF Wrapped \/ max = 0 THEN 0 ELSE off IN
       /\ max' = n /\ off' = o /\ store' = Layout(n, o, deq)
       /\ UNCHANGED <<len, deq, ctr>>
       /\ Answer("resize", arg, "ok", <<>>)
  ELSE /\ UNCHANGED <<store, max, off, len, deq, ctr>>
       /\ Answer("resize", arg, IF max = 0 THEN "any" ELSE "ok", <<>>)

(* mpt_queue_prepare: make sure n more bytes fit; content unchanged.  The   *)
(* new capacity m is the implementation's choice (>= what is needed).      *)
PrepareCap(n) == AlignTo(n - (max - len) + max)
Prepare(n, m) ==
  LET arg == [n |-> n] IN
  IF n <= max - len
  THEN /\ UNCHANGED <<store, max, off, len, deq, ctr>>
       /\ Answer("prepare", arg, "ok", <<>>)
  ELSE LET o == IF Wrapped \/ max = 0 THEN 0 ELSE off IN
       /\ m >= len + n
       /\ max' = m /\ off' = o /\ store' = Layout(m, o, deq)
       /\ UNCHANGED <<len, deq, ctr>>
       /\ Answer("prepare", arg, "ok", <<>>)

(* mpt_queue_string: zero-terminated view of the content; refused when     *)
(* there is no room for the terminator.                                    *)
String ==
  LET arg == [x |-> 0] IN
  IF len = max THEN Refuse("string", arg)
  ELSE LET o == IF max - len <= off THEN 0 ELSE off IN
       /\ off' = o /\ store' = Layout(max, o, deq)
       /\ UNCHANGED <<max, len, deq, ctr>>
       /\ Answer("string", arg, "ok", deq \o <<0>>)

(* mpt_queue_find: first element (size esz) whose first byte equals b.     *)
(* Answer: index of that element, "none", or -- only when the content      *)
(* wraps and an element straddles the storage border -- "unsupported".     *)
NElem(esz) == len \div esz
FirstHit(esz, b, lim) ==
  LET hits == {k \in 0..(lim - 1) : deq[k * esz + 1] = b} IN
  IF hits = {} THEN lim ELSE CHOOSE k \in hits : \A h \in hits : k <= h
FindUnsup(esz, b) ==      \* design: an element straddles the border before any hit
  /\ len >= esz /\ Wrapped /\ (max - off) % esz # 0
  /\ FirstHit(esz, b, NElem(esz)) >= (max - off) \div esz
Find(esz, b, unsup) ==
  LET arg == [esz |-> esz, b |-> b]
      ne  == NElem(esz)
      hit == FirstHit(esz, b, ne)
  IN
  /\ UNCHANGED <<store, max, off, len, deq, ctr>>
  /\ IF unsup THEN Answer("find", arg, "unsupported", <<>>)
     ELSE IF hit < ne THEN Answer("find", arg, "ok", <<hit * esz>>)
     ELSE Answer("find", arg, "none", <<>>)

(* mpt_memrev(data, pre, len): exchange the first pre bytes with the rest   *)
(* (rotation used by queue_align); pre > len is refused.  The queue itself *)
(* is not involved.                                                        *)
MemRev(d, pre) ==
  LET arg == [data |-> d, pre |-> pre] IN
  /\ UNCHANGED <<store, max, off, len, deq, ctr>>
  /\ IF pre > Len(d) THEN Answer("memrev", arg, "refused", <<>>)
     ELSE Answer("memrev", arg, IF Len(d) = 0 THEN "any" ELSE "ok", SubSeq(d, pre + 1, Len(d)) \o SubSeq(d, 1, pre))

---------------------------------------------------------------------------
Init ==
  /\ max \in 0..MaxCap
  /\ off \in IF max = 0 THEN {0} ELSE 0..(max - 1)
  /\ len = 0 /\ deq = <<>> /\ ctr = 0
  /\ store = [i \in 0..(max - 1) |-> 0]
  /\ obs = [a |-> "init", arg |-> [max |-> max, off |-> off],
            exp |-> [ret |-> "ok", out |-> <<>>, content |-> <<>>]]

Next ==
  \/ \E n \in 0..MaxLen : QPush(Fresh(n)) \/ QUnshift(Fresh(n))
  \/ \E n \in 0..MaxLen, buf \in {0, 1} : QPop(n, buf, PopSplit(n)) \/ QShift(n, buf, ShiftSplit(n))
  \/ \E pos \in 0..MaxLen, n \in 0..MaxLen : Crop(pos, n) \/ Get(pos, n)
  \/ \E pos \in 0..MaxLen, n \in 0..MaxLen : Set(pos, Fresh(n), 0) \/ Set(pos, Zeros(n), 1)
  \/ \E pos \in 0..(MaxCap + 1) : Align(pos)
  \/ \E n \in 0..(MaxCap + 1) : Resize(n) \/ Prepare(n, PrepareCap(n))
  \/ String
  \/ \E n \in 0..3, pre \in 0..4 : MemRev([i \in 1..n |-> 10 + i], pre)
  \/ \E esz \in 1..3, k \in 0..MaxLen : LET b == IF k = 0 THEN 0 ELSE IF k <= len THEN deq[k] ELSE 251 IN Find(esz, b, FindUnsup(esz, b))

Spec == Init /\ [][Next]_vars

---------------------------------------------------------------------------
(* invariants *)
TypeOK ==
  /\ max \in Nat /\ len \in 0..max
  /\ off \in IF max = 0 THEN {0} ELSE 0..(max - 1)
  /\ DOMAIN store = 0..(max - 1)

Refines == Content = deq          \* Tier 2 implements Tier 1

\* whatever is answered as refused leaves the byte list as it was
RefusedUnchanged == obs.exp.ret = "refused" => obs.exp.content = deq

\* every storage index used by the content lies inside 0..max-1
InStorage == \A i \in 1..len : (off + i - 1) % max \in 0..(max - 1)

\* action property: a refusal changes nothing (checked as PROPERTY)
RefuseFrame == [][obs'.exp.ret = "refused" => deq' = deq /\ len' = len]_vars
=============================================================================
