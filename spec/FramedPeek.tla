----------------------------- MODULE FramedPeek -----------------------------
(***************************************************************************)
(* X02 (extension of C02): the framed stream of module Stream with         *)
(* mpt_queue_peek on the decoding input queue.                             *)
(*                                                                         *)
(* A peek reports a decoded prefix of the message at the front of the     *)
(* input queue -- the message handed out by the last receive while it is   *)
(* still there (held), otherwise the next message of the stream -- and     *)
(* changes nothing: every later receive answers as if the peek had not     *)
(* happened.  How long the reported prefix is, is the implementation's     *)
(* business (it depends on how far the decoder has come): the expected     *)
(* observation is the SET of permitted (length, bytes) answers.            *)
(***************************************************************************)
EXTENDS Stream, Integers

CONSTANT PeekArgs   \* set of <<max, dst>>: target size and whether a target is given (1) or only the length is asked (0)

VARIABLE held       \* the last receive handed out a message (it stays at the queue front until the next receive)
pvars == <<vars, held>>

MinOf(a, b) == IF a < b THEN a ELSE b

Front == IF held THEN rcvd[Len(rcvd)]
         ELSE IF Len(rcvd) < Len(sent) THEN sent[Len(rcvd) + 1]
         ELSE IF cur.on THEN cur.msg
         ELSE <<>>

(* permitted answers: nothing to report (-1), or any prefix length k; with *)
(* a target the length is capped by the target size and the bytes are the *)
(* first bytes of the front message                                       *)
PeekAnswers(max, dst) ==
  {<<-1, <<>>>>} \cup
  { IF dst = 1 THEN <<MinOf(k, max), FirstN(Front, MinOf(k, max))>> ELSE <<k, <<>>>> : k \in 0..Len(Front) }

Peek(max, dst) ==
  /\ UNCHANGED <<shape, cur, sent, wdone, wire, rpend, rcvd, held>>
  /\ Answer("peek", [max |-> max, dst |-> dst], [peek_in |-> PeekAnswers(max, dst)])

PInit == Init /\ held = FALSE

PNext ==
  \/ /\ Next
     /\ held' = IF obs'.a = "recv" THEN obs'.exp.ret = "msg" ELSE held
  \/ \E p \in PeekArgs : Peek(p[1], p[2])

PSpec == PInit /\ [][PNext]_pvars

\* a held message is the last one received
HeldOK == held => Len(rcvd) >= 1
=============================================================================
