---------------------------- MODULE MC_ParseMon ----------------------------
(* Exhaustive configuration of the monitor: small alphabet. *)
EXTENDS ParseMon
MCNames == {<<1>>, <<2>>}
MCForests == {<<>>, <<[n |-> <<1>>]>>}
Bound == mon.reads <= MaxLen + MaxPolls + 1
View == mon
=============================================================================
