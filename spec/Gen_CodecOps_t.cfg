SPECIFICATION GenSpec
CONSTANTS
  Modes <- AllModes
  KindsE <- KindsET
  KindsA <- KindsAT
  KindsD <- KindsDT
  Alpha <- AlphaE
  MaxMsg = 2
  MaxMsgs = 3
  MaxMsgsA = 2
  Caps <- CapsZ
  Grows <- Grows2
  DelKs <- Del12
  NextSet <- NextFew
  NextSetA <- NextAll
  Shifts <- Sh12
  DMaxLen = 8
  DSlacks <- Sl02
  DGrants <- Gr2
  DStreams <- StreamsG
  DFeeds <- Fd13
  DQs <- Q13
  DOps <- OpsAll
  DMis <- Mis0
  SStreams <- StreamsP
  SQs <- Q1to8
  CapMax = 8
  HistD = 9
  Kinds <- None
  Pres <- None
CONSTRAINT BoundG
VIEW Skel
ACTION_CONSTRAINT Emit
CHECK_DEADLOCK FALSE
