SPECIFICATION SpecP
CONSTANTS Names <- NamesQ Depth = 1 Vals <- ValsQ Sep = 46 Design = "list" Base <- NoBase MaxSlots = 3
  Ends <- Ends0 Strs <- StrsT Seps <- SepsT Asgs <- AsgsQ Elems <- ElemsQ
CONSTRAINT BoundPT
VIEW ViewP
INVARIANTS PathRefines
PROPERTIES PathProp
CHECK_DEADLOCK FALSE
