----------------------------- MODULE Connection -----------------------------
(***************************************************************************)
(* Extension X12 of property C12: the REQUESTER side of the request/reply  *)
(* protocol and the datagram path.                                         *)
(*                                                                         *)
(*   A (requester)  --- net.AB --->  B (responder)                         *)
(*                  <--- net.BA ---                                        *)
(*                                                                         *)
(* B is the reply context of module Reply in mode "stream"/via "conn"      *)
(* (mpt_connection_dispatch): its actions StreamRequest / StreamDefer /    *)
(* StreamDeferred / StreamLate are reused unchanged (EXTENDS); what they   *)
(* put into obs'.exp.frames is what B sends.                               *)
(*                                                                         *)
(* A is a connection that reserves an id for every request awaiting a      *)
(* reply (mpt_connection_await -> mpt_command_reserve), writes it into a   *)
(* header of the connection's width (mpt_connection_push), and matches     *)
(* incoming replies to its waiting callers (mpt_connection_dispatch, sync).*)
(*   Tier 1:  out  -- every request ever reserved: id, state, how often    *)
(*                    its caller was handed a reply (got)                  *)
(*   Tier 2:  wait -- the command array (slots <<id, w>>, w = 0 free with  *)
(*                    a stale id), cid -- id of the message being composed *)
(* The transport keeps order ("stream") or may reorder / drop ("dgram").   *)
(* xobs = what the last step was given (arg) and must show (exp).          *)
(***************************************************************************)
EXTENDS Reply

CONSTANTS Transports,  \* subset of {"stream", "dgram"}
          ConnWidths,  \* id header widths (>= 1) of the connection
          IdCand,      \* ids the requester may pick besides the one the code's algorithm picks
          IdLimit,     \* 0: largest id given by the width; > 0: scaled down limit (wrap-around in reach of TLC)
          MaxReq,      \* requests awaiting a reply per behaviour
          MaxPlain,    \* messages sent without await
          MaxStray,    \* forged / duplicated replies injected by the environment
          BActs,       \* what B's handler does with a request: subset of {"none", "reply", "reply2"}
          BHrets,      \* ... and returns
          SyncMax,     \* messages handed to one sync call (0: no sync)
          MaxBReq,     \* requests B sends to A
          MaxBPlain,   \* messages without id B sends to A
          CRets,       \* what a waiting caller returns when it is handed a reply
          MaxChain     \* follow-up requests issued by callers from inside their callback (on top of MaxReq)

VARIABLES tr, cid, wait, out, net, held, arr, hg, cnt, forged, bq, xobs
xstate == <<tr, cid, wait, out, net, held, arr, hg, cnt, forged, bq>>
xvars  == <<vars, xstate, xobs>>

---------------------------------------------------------------------------
(* ids of a connection are at most 32 bit (connection.cid, connection_await) *)
ToLimbs(n)   == <<n % 65536, n \div 65536, 0, 0>>
FromLimbs(l) == IF l[3] = 0 /\ l[4] = 0 /\ l[2] < 32768 THEN l[1] + 65536 * l[2] ELSE -1
Hdr(n)  == RefId2Buf(ToLimbs(n), max)
IdW     == IF max > 4 THEN 4 ELSE max
WidthMax == CASE IdW = 1 -> 127 [] IdW = 2 -> 32767 [] IdW = 3 -> 8388607 [] OTHER -> 2147483647
MaxId   == IF IdLimit > 0 THEN IdLimit ELSE WidthMax
IsReply(b) == Len(b) > 0 /\ b[1] >= 128
\* the numeric id a reply header names (-1: none a caller could wait for)
ReplyId(b) == LET d == RefBuf2Id(Unmark(b)) IN IF d.ok THEN FromLimbs(d.id) ELSE -1
MaxOfSet(S) == CHOOSE x \in S : \A y \in S : x >= y
RemoveAt(s, k) == [i \in 1..(Len(s) - 1) |-> IF i < k THEN s[i] ELSE s[i + 1]]
Range(s) == {s[i] : i \in DOMAIN s}

(* Tier 2: the command array *)
LiveSlots == {i \in DOMAIN wait : wait[i].w # 0}
LiveIds   == {wait[i].id : i \in LiveSlots}
SlotOf(n) == MinOf({i \in LiveSlots : wait[i].id = n})       \* mpt_command_find: first match
Compact   == SelectSeq(wait, LAMBDA e : e.w # 0)
FreeSlot(i) == [wait EXCEPT ![i].w = 0]
\* mpt_command_reserve: one above the highest id in the array (stale ids of freed slots count),
\* beyond the limit the smallest id no live command has
OpReserve ==
  LET mid  == IF wait = <<>> THEN 0 ELSE MaxOfSet({wait[i].id : i \in DOMAIN wait})
      low  == MinOf({n \in 1..(Cardinality(LiveIds) + 1) : n \notin LiveIds})
  IN IF mid + 1 <= MaxId THEN [ok |-> TRUE, id |-> mid + 1]
     ELSE IF low <= MaxId THEN [ok |-> TRUE, id |-> low] ELSE [ok |-> FALSE, id |-> 0]
\* Tier 1: any id that fits the header below the marker bit and that no waiting caller holds
Fresh(n) == n >= 1 /\ n <= MaxId /\ Fits(ToLimbs(n), max) /\ n \notin LiveIds
NoneFree == Cardinality(LiveIds) >= MaxId

Waiting(r) == r \in DOMAIN out /\ out[r].st \in {"reserved", "sent"}
Cur == Len(out)                        \* the request cid belongs to (await is refused while cid # 0)

X(a, arg, exp, g) == xobs' = [a |-> a, arg |-> arg, exp |-> exp, g |-> g]
NoCalls == [calls |-> <<>>, wire |-> <<>>]
BSame == UNCHANGED vars                 \* nothing happens at B

---------------------------------------------------------------------------
(* requester: reserve an id for the next message *)
AwaitOk(n, tok) ==      \* tok: the caller's own name for itself (callback argument)
  /\ cid = 0 /\ Fresh(n) /\ Len(out) < MaxReq + cnt.chain
  /\ \A r \in DOMAIN out : out[r].tok # tok
  /\ cid' = n
  /\ wait' = Append(Compact, [id |-> n, w |-> Cur + 1])
  /\ out' = Append(out, [id |-> n, st |-> "reserved", got |-> 0, tok |-> tok])
  /\ UNCHANGED <<tr, net, held, arr, hg, cnt, forged, bq>> /\ BSame
  /\ X("await", [w |-> tok], [ret |-> "ok"] @@ NoCalls, <<>>)
\* refused: a message is being composed, or every id of the width is taken
AwaitRefused(tok) ==
  /\ cid # 0 \/ NoneFree
  /\ Len(out) < MaxReq + cnt.chain
  /\ UNCHANGED xstate /\ BSame
  /\ X("await", [w |-> tok], [ret |-> "refused"] @@ NoCalls, <<>>)

(* requester: push data and complete the message.  The header carries cid  *)
(* (zero: no answer wanted).  A datagram end that holds unprocessed input  *)
(* refuses to compose; the reserved request is then cancelled.             *)
Send(data) ==
  LET blocked == tr = "dgram" /\ held # <<>>
      r   == IF cid # 0 THEN Cur ELSE 0
      pkt == [id |-> Hdr(cid), data |-> data, g |-> r]
  IN
  /\ IF blocked
     THEN /\ cid' = 0
          /\ wait' = IF r # 0 /\ cid \in LiveIds /\ wait[SlotOf(cid)].w = r THEN FreeSlot(SlotOf(cid)) ELSE wait
          /\ out' = IF r # 0 /\ Waiting(r) THEN [out EXCEPT ![r].st = "cancelled"] ELSE out
          /\ UNCHANGED <<net, cnt>>
          /\ X("send", [data |-> data], [ret |-> "refused"] @@ NoCalls, <<>>)
     ELSE /\ cid' = 0
          /\ out' = IF r # 0 /\ out[r].st = "reserved" THEN [out EXCEPT ![r].st = "sent"] ELSE out
          /\ net' = [net EXCEPT !.AB = Append(@, pkt)]
          /\ cnt' = IF r = 0 THEN [cnt EXCEPT !.plain = @ + 1] ELSE cnt
          /\ UNCHANGED wait
          /\ X("send", [data |-> data],
               [ret |-> "ok", calls |-> <<>>, wire |-> <<[dir |-> "AB", id |-> pkt.id, data |-> data]>>], <<>>)
  /\ UNCHANGED <<tr, held, arr, hg, forged, bq>> /\ BSame

(* requester: incoming messages.  A reply goes to the caller waiting for    *)
(* exactly that id -- once; then the id is free again.  A reply nobody     *)
(* waits for (second, late, unknown) is dropped and disturbs nobody.  The  *)
(* caller is scripted (cb): it returns cb.ret and, with cb.chain = 1,      *)
(* issues a follow-up request (await + push) on the same connection from   *)
(* inside the callback.  A message that is no reply (B asks A) goes to A's *)
(* handler once; it never answers itself, so a request with an id gets the *)
(* generic answer <<Answer, code>> under its own id marked as reply.       *)
LiveIn(w)      == {i \in DOMAIN w : w[i].w # 0}
ReserveOn(w)   ==      \* mpt_command_reserve on array w
  LET ids  == {w[i].id : i \in LiveIn(w)}
      mid  == IF w = <<>> THEN 0 ELSE MaxOfSet({w[i].id : i \in DOMAIN w})
      low  == MinOf({n \in 1..(Cardinality(ids) + 1) : n \notin ids})
  IN IF mid + 1 <= MaxId THEN [ok |-> TRUE, id |-> mid + 1]
     ELSE IF low <= MaxId THEN [ok |-> TRUE, id |-> low] ELSE [ok |-> FALSE, id |-> 0]
FreshOn(w, n)  == n >= 1 /\ n <= MaxId /\ Fits(ToLimbs(n), max) /\ n \notin {w[i].id : i \in LiveIn(w)}
S0 == [wait |-> wait, out |-> out, cid |-> cid, ab |-> <<>>, calls |-> <<>>, chain |-> <<>>, seen |-> <<>>,
       g |-> <<>>, bad |-> FALSE]
\* ids: the ids the code gave to the follow-up requests, one per attempt (<<>>: the code's algorithm)
RECURSIVE Proc(_, _, _, _)
Proc(ps, S, cb, ids) ==
  IF ps = <<>> THEN S
  ELSE
  LET p == ps[1]  rest == SubSeq(ps, 2, Len(ps)) IN
  IF ~IsReply(p.id)
  THEN LET code == IF cb.hret < 0 THEN ByteOf(cb.hret) ELSE 0
           S1 == [S EXCEPT !.seen = Append(@, [id |-> Zero, reply |-> IF AllZero(p.id) THEN 0 ELSE 1, payload |-> p.data]),
                           !.ab = IF AllZero(p.id) THEN @
                                  ELSE Append(@, [id |-> Mark(p.id), data |-> <<AnswerCmd, code>>, g |-> 0])]
       IN Proc(rest, S1, cb, ids)
  ELSE
  LET n == ReplyId(p.id)
      live == {i \in LiveIn(S.wait) : S.wait[i].id = n}
      Sg == [S EXCEPT !.g = Append(@, p.g)]
  IN
  IF live = {} THEN Proc(rest, Sg, cb, ids)
  ELSE
  LET i == MinOf(live)  r == S.wait[i].w
      S1 == [Sg EXCEPT !.wait = [@ EXCEPT ![i].w = 0],
                       !.out = [@ EXCEPT ![r].st = "answered", ![r].got = @ + 1],
                       !.calls = Append(@, [w |-> S.out[r].tok, data |-> p.data])]
  IN
  IF cb.chain = 0 THEN Proc(rest, S1, cb, ids)
  ELSE
  LET j   == Len(S1.chain) + 1
      t   == cb.cw + j - 1
      can == S1.cid = 0 /\ ReserveOn(S1.wait).ok
      nn  == IF ids = <<>> THEN ReserveOn(S1.wait).id ELSE IF j \in DOMAIN ids THEN ids[j] ELSE 0
      r2  == Len(S1.out) + 1
      S2  == IF can
             THEN [S1 EXCEPT !.wait = Append(SelectSeq(@, LAMBDA e : e.w # 0), [id |-> nn, w |-> r2]),
                             !.out = Append(@, [id |-> nn, st |-> "sent", got |-> 0, tok |-> t]),
                             !.ab = Append(@, [id |-> Hdr(nn), data |-> <<t % 256, 7>>, g |-> r2]),
                             !.chain = Append(@, [w |-> t, ret |-> "ok"]),
                             !.bad = @ \/ ~FreshOn(S1.wait, nn) \/ \E q \in DOMAIN S1.out : S1.out[q].tok = t]
             ELSE [S1 EXCEPT !.chain = Append(@, [w |-> t, ret |-> "refused"])]
  IN Proc(rest, S2, cb, ids)

NoCb == [ret |-> 0, chain |-> 0, cw |-> 0, hret |-> 0]
AArg(cb) == [cret |-> cb.ret, chain |-> cb.chain, cw |-> cb.cw, hret |-> cb.hret]
WireAB(ab) == [i \in DOMAIN ab |-> [dir |-> "AB", id |-> ab[i].id, data |-> ab[i].data]]
AExp(S) == [calls |-> S.calls, chain |-> S.chain, seen |-> S.seen, wire |-> WireAB(S.ab)]
OrderOK(dir, k) == k \in DOMAIN net[dir] /\ (tr = "stream" => k = 1)
Adopt(S) == wait' = S.wait /\ out' = S.out /\ cid' = S.cid /\ ~S.bad
Chained(S) == cnt' = [cnt EXCEPT !.chain = @ + Cardinality({j \in DOMAIN S.chain : S.chain[j].ret = "ok"})]

DeliverA(k, cb, ids) ==
  LET S == Proc(<<net.BA[k]>>, S0, cb, ids) IN
  /\ OrderOK("BA", k) /\ held = <<>> /\ arr = <<>>
  /\ Adopt(S)
  /\ net' = [AB |-> net.AB \o S.ab, BA |-> RemoveAt(net.BA, k)]
  /\ Chained(S)
  /\ UNCHANGED <<tr, held, arr, hg, forged, bq>> /\ BSame
  /\ X("deliver", [dir |-> "BA", k |-> k] @@ AArg(cb), AExp(S), S.g)
\* a message that reached A's socket earlier (left over by sync)
DeliverArr(cb, ids) ==
  LET S == Proc(<<arr[1]>>, S0, cb, ids) IN
  /\ arr # <<>> /\ held = <<>>
  /\ Adopt(S) /\ arr' = SubSeq(arr, 2, Len(arr))
  /\ net' = [net EXCEPT !.AB = @ \o S.ab]
  /\ Chained(S)
  /\ UNCHANGED <<tr, held, hg, forged, bq>> /\ BSame
  /\ X("deliver", [dir |-> "BA", k |-> 0] @@ AArg(cb), AExp(S), S.g)
\* nothing was left over (recorded executions only: the caller drains after sync)
DeliverArrNone(cb) ==
  /\ arr = <<>> /\ held = <<>>
  /\ UNCHANGED xstate /\ BSame
  /\ X("deliver", [dir |-> "BA", k |-> 0] @@ AArg(cb), AExp(S0), <<>>)
\* datagram end: receive now, dispatch later
Hold(k) ==
  /\ tr = "dgram" /\ OrderOK("BA", k) /\ held = <<>> /\ arr = <<>>
  /\ held' = <<net.BA[k]>>
  /\ net' = [net EXCEPT !.BA = RemoveAt(@, k)]
  /\ UNCHANGED <<tr, cid, wait, out, arr, hg, cnt, forged, bq>> /\ BSame
  /\ X("hold", [k |-> k], AExp(S0), <<>>)
DispatchHeld(cb, ids) ==
  LET S == Proc(held, S0, cb, ids) IN
  /\ held # <<>>
  /\ Adopt(S) /\ held' = <<>>
  /\ net' = [net EXCEPT !.AB = @ \o S.ab]
  /\ Chained(S)
  /\ UNCHANGED <<tr, arr, hg, forged, bq>> /\ BSame
  /\ X("dispatch", AArg(cb), AExp(S), S.g)

(* requester: messages ks of net.BA reach the socket, then sync handles a  *)
(* prefix of the replies among them (how many is the implementation's      *)
(* business); it never goes past a message that is no reply: that one and  *)
(* what follows stay for dispatch.                                         *)
LeadReplies(ps) == IF \E i \in DOMAIN ps : ~IsReply(ps[i].id)
                   THEN MinOf({i \in DOMAIN ps : ~IsReply(ps[i].id)}) - 1 ELSE Len(ps)
Sync(ks, n, cb, ids) ==
  LET moved == arr \o [i \in DOMAIN ks |-> net.BA[ks[i]]]
      S     == Proc(SubSeq(moved, 1, n), S0, cb, ids)
      rest  == {i \in DOMAIN net.BA : i \notin Range(ks)}
  IN
  /\ held = <<>> /\ n \in 0..LeadReplies(moved)
  /\ \A i \in DOMAIN ks : ks[i] \in DOMAIN net.BA
  /\ \A i, j \in DOMAIN ks : i # j => ks[i] # ks[j]
  /\ tr = "stream" => \A i \in DOMAIN ks : ks[i] = i
  /\ Adopt(S)
  /\ arr' = SubSeq(moved, n + 1, Len(moved))
  /\ net' = [AB |-> net.AB \o S.ab,
             BA |-> [i \in 1..Cardinality(rest) |->
                       net.BA[CHOOSE j \in rest : Cardinality({x \in rest : x < j}) = i - 1]]]
  /\ Chained(S)
  /\ UNCHANGED <<tr, held, hg, forged, bq>> /\ BSame
  /\ X("sync", [ks |-> ks] @@ AArg(cb),
       [ret |-> "any", calls |-> S.calls, chain |-> S.chain, wire |-> WireAB(S.ab)], S.g)

(* requester: the connection is closed; everybody still waiting is told to give up (no reply is made up) *)
CloseA ==
  /\ cid' = 0 /\ wait' = <<>> /\ held' = <<>> /\ arr' = <<>>
  /\ out' = [r \in DOMAIN out |-> IF Waiting(r) THEN [out[r] EXCEPT !.st = "cancelled"] ELSE out[r]]
  /\ UNCHANGED <<tr, net, hg, cnt, forged, bq>> /\ BSame
  /\ X("close", [x |-> 0], [ret |-> "ok", calls |-> <<>>], <<>>)

(* environment: a reply nobody at B sent (duplicate, forgery) is in flight to A *)
StrayBytes(b, data) ==
  /\ IsReply(b) /\ Len(b) = max /\ cnt.stray < MaxStray
  /\ net' = [net EXCEPT !.BA = Append(@, [id |-> b, data |-> data, g |-> 0])]
  /\ cnt' = [cnt EXCEPT !.stray = @ + 1] /\ forged' = TRUE
  /\ UNCHANGED <<tr, cid, wait, out, held, arr, hg, bq>> /\ BSame
Stray(of, data) ==
  /\ of \in 0..Len(out)
  /\ of # 0 => out[of].st # "reserved"
  /\ of = 0 => WidthMax \notin LiveIds /\ IdLimit = 0
  /\ StrayBytes(Mark(Hdr(IF of = 0 THEN WidthMax ELSE out[of].id)), data)
  /\ X("stray", [of |-> of, data |-> data], [ret |-> "ok"], <<>>)
(* environment: a datagram is lost *)
Drop(dir, k) ==
  /\ tr = "dgram" /\ k \in DOMAIN net[dir]
  /\ net' = [net EXCEPT ![dir] = RemoveAt(@, k)]
  /\ UNCHANGED <<tr, cid, wait, out, held, arr, hg, cnt, forged, bq>> /\ BSame
  /\ X("drop", [dir |-> dir, k |-> k], [ret |-> "ok"], <<>>)

---------------------------------------------------------------------------
(* responder: module Reply, reply context of a connection *)
Wire(frames, g) == [i \in DOMAIN frames |-> [id |-> frames[i].id, data |-> frames[i].data, g |-> g]]
WireExp(frames) == [i \in DOMAIN frames |-> [dir |-> "BA", id |-> frames[i].id, data |-> frames[i].data]]
\* B as requester: the ids of its own outstanding requests (bq); a reply from A goes to the caller holding its id
BReplied(k) ==
  LET p == net.AB[k]
      n == ReplyId(p.id)
      hit == {i \in DOMAIN bq : bq[i].id = n}
  IN
  /\ OrderOK("AB", k) /\ IsReply(p.id)
  /\ bq' = IF hit = {} THEN bq ELSE RemoveAt(bq, MinOf(hit))
  /\ net' = [net EXCEPT !.AB = RemoveAt(@, k)]
  /\ UNCHANGED <<tr, cid, wait, out, held, arr, hg, cnt, forged>> /\ BSame
  /\ X("deliver", [dir |-> "AB", k |-> k, act |-> "none", data |-> <<>>, hret |-> 0, h |-> 0],
       [calls |-> IF hit = {} THEN <<>> ELSE <<[w |-> bq[MinOf(hit)].tok, data |-> p.data]>>,
        seen |-> <<>>, wire |-> <<>>, r2 |-> "none"], <<>>)
\* B asks A: await + send in one step; n = the id B's connection handed out
RequestB(tok, n, data) ==
  /\ cnt.breq < MaxBReq
  /\ n >= 1 /\ n <= WidthMax /\ Fits(ToLimbs(n), max) /\ \A i \in DOMAIN bq : bq[i].id # n /\ bq[i].tok # tok
  /\ bq' = Append(bq, [id |-> n, tok |-> tok])
  /\ net' = [net EXCEPT !.BA = Append(@, [id |-> Hdr(n), data |-> data, g |-> 0])]
  /\ cnt' = [cnt EXCEPT !.breq = @ + 1]
  /\ UNCHANGED <<tr, cid, wait, out, held, arr, hg, forged>> /\ BSame
  /\ X("request", [end |-> "B", w |-> tok, data |-> data],
       [ret |-> "ok", calls |-> <<>>, wire |-> <<[dir |-> "BA", id |-> Hdr(n), data |-> data]>>], <<>>)
PlainB(data) ==
  /\ cnt.bplain < MaxBPlain
  /\ net' = [net EXCEPT !.BA = Append(@, [id |-> Zeros(max), data |-> data, g |-> 0])]
  /\ cnt' = [cnt EXCEPT !.bplain = @ + 1]
  /\ UNCHANGED <<tr, cid, wait, out, held, arr, hg, forged, bq>> /\ BSame
  /\ X("send", [end |-> "B", data |-> data],
       [ret |-> "ok", calls |-> <<>>, wire |-> <<[dir |-> "BA", id |-> Zeros(max), data |-> data]>>], <<>>)

DeliverB(k, act, data, hret, h) ==
  LET p == net.AB[k] IN
  /\ OrderOK("AB", k) /\ ~IsReply(p.id)
  /\ IF act = "defer" /\ ~AllZero(p.id) THEN StreamDefer(p.id, p.data, h)
     ELSE StreamRequest(p.id, p.data, IF act = "defer" THEN "none" ELSE act, data, hret)   \* (nothing to defer)
  /\ net' = [AB |-> RemoveAt(net.AB, k), BA |-> net.BA \o Wire(obs'.exp.frames, p.g)]
  /\ hg' = IF act = "defer" /\ ~AllZero(p.id) THEN [hg EXCEPT ![h] = p.g] ELSE hg
  /\ UNCHANGED <<tr, cid, wait, out, held, arr, cnt, forged, bq>>
  /\ X("deliver", [dir |-> "AB", k |-> k, act |-> act, data |-> data, hret |-> hret, h |-> h],
       [calls |-> <<>>, seen |-> obs'.exp.seen, wire |-> WireExp(obs'.exp.frames), r2 |-> obs'.exp.r2], <<>>)
DReplyB(h, data) ==
  /\ StreamDeferred(h, data)
  /\ net' = [net EXCEPT !.BA = @ \o Wire(obs'.exp.frames, hg[h])]
  /\ hg' = [hg EXCEPT ![h] = 0]
  /\ UNCHANGED <<tr, cid, wait, out, held, arr, cnt, forged, bq>>
  /\ X("dreply", [h |-> h, data |-> data],
       [ret |-> obs'.exp.ret, calls |-> <<>>, wire |-> WireExp(obs'.exp.frames)], <<>>)
LateB(data) ==
  /\ StreamLate(data)
  /\ UNCHANGED xstate
  /\ X("late", [data |-> data], [ret |-> "refused"] @@ NoCalls, <<>>)

---------------------------------------------------------------------------
XInitWith(t, m) ==
  /\ InitStream(m, "conn")
  /\ tr = t /\ cid = 0 /\ wait = <<>> /\ out = <<>>
  /\ net = [AB |-> <<>>, BA |-> <<>>] /\ held = <<>> /\ arr = <<>>
  /\ hg = [h \in 1..MaxH |-> 0] /\ cnt = [plain |-> 0, stray |-> 0, breq |-> 0, bplain |-> 0, chain |-> 0] /\ forged = FALSE /\ bq = <<>>
  /\ xobs = [a |-> "init", arg |-> [tr |-> t, max |-> m], exp |-> [ret |-> "ok"], g |-> <<>>]
XInit == \E t \in Transports, m \in ConnWidths : XInitWith(t, m)

\* caller scripts offered to the model checker / behaviour export: a follow-up request only while the bound allows one
Cbs == {[ret |-> c, chain |-> 0, cw |-> 0, hret |-> -3] : c \in CRets}
       \cup (IF cnt.chain < MaxChain THEN {[ret |-> 0, chain |-> 1, cw |-> Cur + 1, hret |-> -3]} ELSE {})
Tag(p)  == IF p.data = <<>> THEN <<9>> ELSE <<p.data[1], 9>>      \* the answer names the request it is for
XNext ==
  \/ \E n \in IdCand \cup {OpReserve.id} : AwaitOk(n, Cur + 1)
  \/ AwaitRefused(Cur + 1)
  \/ Send(IF cid # 0 THEN <<Cur, 7>> ELSE <<0, 7>>) /\ (cid = 0 => cnt.plain < MaxPlain)
  \/ \E k \in DOMAIN net.BA : Hold(k) \/ Drop("BA", k)
  \/ \E cb \in Cbs : (\E k \in DOMAIN net.BA : DeliverA(k, cb, <<>>)) \/ DeliverArr(cb, <<>>) \/ DispatchHeld(cb, <<>>)
  \/ RequestB(1001 + cnt.breq, cnt.breq + 1, <<5, 5>>)
  \/ PlainB(<<6, 6>>)
  \/ \E k \in DOMAIN net.AB : BReplied(k)
  \/ \E k \in DOMAIN net.AB : Drop("AB", k)
  \/ \E k \in DOMAIN net.AB, act \in BActs, hret \in BHrets :
        DeliverB(k, act, Tag(net.AB[k]), hret, 0)
  \/ \E k \in DOMAIN net.AB, h \in 1..MaxH :
        handles[h] = <<>> /\ (\A j \in 1..(h - 1) : handles[j] # <<>>) /\ DeliverB(k, "defer", <<>>, 0, h)
  \/ \E h \in 1..MaxH : DReplyB(h, <<hg[h], 8>>)
  \/ LateB(<<5>>)
  \/ \E of \in 0..Len(out) : Stray(of, <<99>>)
XNextSync == \E cb \in Cbs :
  \/ SyncMax >= 1 /\ \E k1 \in DOMAIN net.BA : \E n \in 0..(Len(arr) + 1) : Sync(<<k1>>, n, cb, <<>>)
  \/ SyncMax >= 2 /\ \E k1, k2 \in DOMAIN net.BA : \E n \in 0..(Len(arr) + 2) : Sync(<<k1, k2>>, n, cb, <<>>)
  \/ SyncMax >= 1 /\ \E n \in 0..Len(arr) : arr # <<>> /\ Sync(<<>>, n, cb, <<>>)
XSpec == XInit /\ [][XNext \/ XNextSync]_xvars

---------------------------------------------------------------------------
(* invariants *)
XTypeOK ==
  /\ tr \in {"stream", "dgram"} /\ cid \in Nat /\ Len(held) <= 1
  /\ \A i \in DOMAIN wait : wait[i].id \in Nat /\ wait[i].w \in 0..Len(out)
  /\ \A r \in DOMAIN out : out[r].st \in {"reserved", "sent", "answered", "cancelled"}
\* the ids of the requests awaiting a reply are pairwise distinct
Distinct == \A i, j \in LiveSlots : i # j => wait[i].id # wait[j].id
\* Tier 2 implements Tier 1: the live commands are exactly the waiting requests, with their ids
XRefines ==
  /\ \A i \in LiveSlots : Waiting(wait[i].w) /\ out[wait[i].w].id = wait[i].id
  /\ \A r \in DOMAIN out : Waiting(r) => \E i \in LiveSlots : wait[i].w = r
  /\ \A i, j \in LiveSlots : i # j => wait[i].w # wait[j].w
  /\ cid # 0 => (out # <<>> /\ out[Cur].id = cid)
\* no caller is handed more than one reply
AtMostOnce == \A r \in DOMAIN out : out[r].got <= 1 /\ (out[r].got = 1 <=> out[r].st = "answered")
\* every id handed out fits the header below the marker bit; the header of a request in flight is the
\* positional encoding of its id, produced by the byte loop of id2buf, and reads back to the id
IdsFit == \A r \in DOMAIN out : out[r].id >= 1 /\ Fits(ToLimbs(out[r].id), max)
HeaderOK == \A i \in DOMAIN net.AB :
  LET p == net.AB[i] IN
  IF p.g = 0 THEN (AllZero(p.id) \/ IsReply(p.id)) /\ Len(p.id) = max
  ELSE LET id == ToLimbs(out[p.g].id)  o == OpId2Buf(id, max) IN
       /\ o.ok /\ o.buf = p.id /\ Len(p.id) = max /\ p.id[1] < 128
       /\ RefBuf2Id(p.id) = [ok |-> TRUE, id |-> id]
       /\ OpBuf2Id(Unmark(Mark(p.id))) = [ok |-> TRUE, id |-> id]

(* action properties *)
AStep == /\ xobs'.a \in {"deliver", "dispatch", "sync", "hold"} /\ "calls" \in DOMAIN xobs'.exp
         /\ ~(xobs'.a = "deliver" /\ xobs'.arg.dir = "AB")
ReqOf(tok) == CHOOSE r \in DOMAIN out' : out'[r].tok = tok
Called == {ReqOf(xobs'.exp.calls[i].w) : i \in DOMAIN xobs'.exp.calls}
\* a reply is handed to a caller that was waiting for it, once, and that ends the wait;
\* everybody else is left alone
RightWaiter == [][AStep =>
  /\ \A i, j \in DOMAIN xobs'.exp.calls : i # j => xobs'.exp.calls[i].w # xobs'.exp.calls[j].w
  /\ \A r \in Called : /\ out'[r].st = "answered" /\ out'[r].got = 1
                       /\ r \in DOMAIN out => (Waiting(r) /\ out[r].got = 0)      \* (else: asked and answered within the step)
  /\ \A r \in DOMAIN out : r \notin Called => out'[r] = out[r]
  /\ \A i \in LiveSlots : wait[i].w \notin Called => \E j \in DOMAIN wait' : wait'[j] = wait[i]
  ]_xvars
\* without forged replies the answer B gave to request r reaches the caller of request r
EndToEnd == [][(AStep /\ ~forged') =>
  /\ Len(xobs'.exp.calls) = Len(xobs'.g)
  /\ \A i \in DOMAIN xobs'.g : xobs'.g[i] \in DOMAIN out /\ xobs'.exp.calls[i].w = out[xobs'.g[i]].tok
  ]_xvars
\* a message that is no reply reaches the handler of the end it is for exactly once, wherever it arrives
\* (dispatch, or left over by sync): what is taken from the socket and not handled stays in arr / held
NothingLost == [][(xobs'.a \in {"sync", "hold"}) =>
     Len(arr') + Len(held') + Len(net'.BA) + Len(xobs'.g) >= Len(arr) + Len(held) + Len(net.BA)
  ]_xvars
\* an id is handed out only while no waiting caller holds it; the code's choice is such an id
ReserveTiers == [][(xobs'.a = "await") =>
  /\ (xobs'.exp.ret = "ok") => (cid' \notin LiveIds /\ cid' >= 1 /\ cid' <= MaxId)
  /\ (cid = 0 /\ ~NoneFree) => (OpReserve.ok /\ Fresh(OpReserve.id))
  /\ (cid = 0 /\ NoneFree) => ~OpReserve.ok
  ]_xvars
\* ids come free only by a reply or a cancellation
Recycle == [][\A r \in DOMAIN out : (Waiting(r) /\ ~Waiting(r)') =>
                 (xobs'.a \in {"deliver", "dispatch", "sync", "send", "close", "init"})]_xvars
=============================================================================
