SPECIFICATION Spec
CONSTANTS NId = 2 Maxes = {3, 6} Lens = {0, 1, 2, 3, 4, 5, 6, 7} TraitsMax = 6 ValSz = 4 PtrSz = 8 Limit = 7 CodeOrder = FALSE
VIEW View
INVARIANTS TypeOK NoBadFree NoLeak Refines CmpAgrees
PROPERTIES SetReadsBack CopyFaithful RefuseFrame ReadOnly
CHECK_DEADLOCK FALSE
