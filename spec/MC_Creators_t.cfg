SPECIFICATION CSpec
CONSTANTS Kinds = {"c", "cxx"}
  TextLens = {0}
  NH = 2 NObj = 4 Max = 4 MaxExtra = 1 MaxTries = 1 AsFound = FALSE
  Paths <- APaths
  NodeNames <- QNames
VIEW CView
INVARIANTS CTypeOK CShape CAliveIffHeld CCountExact CNoDangling CObsAgrees
PROPERTIES CRefusedUnchanged CDestroyedOnce CGoneOnce CNoResurrection CReplacedOnce CAssignOnce CStaticInert CPrintInert CTeardownClears
CHECK_DEADLOCK FALSE
