------------------------------ MODULE Containers ------------------------------
(***************************************************************************)
(* Containers of managed elements (extension of C05 with C04 as second     *)
(* ingredient): the token-liveness meaning of TypedBuf specialised to the  *)
(* library's own element kinds and container classes.                      *)
(*                                                                         *)
(* An element (slot) is a token  [n, o, sub]:                              *)
(*    n   name / id (0 = none),                                            *)
(*    o   the counted object the element holds ONE reference on (0 = none),*)
(*    sub nested elements (config items only; leaves [n, o]).              *)
(* Counted objects 1..NO are harness objects whose reference counter is    *)
(* visible: count = 1 (the harness) + number of element slots that hold    *)
(* the object in the distinct live buffers.  For commands the "object" is  *)
(* a registration token: it is alive in at most one slot and receives its  *)
(* end-of-life call exactly when that slot is destroyed or overwritten.    *)
(*                                                                         *)
(* Tier 1:  val[h]  what handle h reads (independent vectors of elements), *)
(*          cnt[o]  ghost: references held by elements; every action       *)
(*                  states which elements it constructs (cre) and which it *)
(*                  destroys (fin), cnt follows from that statement.       *)
(* Tier 2:  rec[h] = [data, nc, typ] buffer record, share[h] = handles on  *)
(*          the same buffer (reference count = cardinality).               *)
(* Balance: cnt[o] = number of slots holding o in the distinct live        *)
(*          buffers (no leak, nothing destroyed twice, a shared buffer is  *)
(*          copied element by element); AllGone: no buffer => cnt = 0.     *)
(*                                                                         *)
(* kind (chosen at Init, constant along a behaviour):                      *)
(*   "ref"   C++ reference_array<T>          elements [0, o]               *)
(*   "item"  C++ item_array<T> / item<T>     elements [n, o]               *)
(*   "group" C++ item_group (+ add_items)    elements [n, o], o metatype   *)
(*   "cfg"   C   config items (reserve/query, mpt_config_item_traits)      *)
(*   "cmd"   C   commands (mpt_command_set/clear, mpt_command_traits)      *)
(*   "stage" C   rawdata_stage / value_store (mpt_stage_data,              *)
(*               mpt_value_store_traits): arrays of typed arrays           *)
(*                                                                         *)
(* Sharing rule demanded (C04): a call through one handle never changes    *)
(* what another handle reads.  Buffers flagged no-copy (all C++ unique     *)
(* arrays, config item and command tables) cannot be copied, so a          *)
(* modifying call through a handle that shares a non-empty buffer is       *)
(* refused (no change); a copyable shared buffer is copied element by      *)
(* element first.                                                          *)
(***************************************************************************)
EXTENDS Naturals, Integers, Sequences, FiniteSets, TLC

CONSTANTS NH,      \* handles
          NO,      \* counted objects / tokens 1..NO
          NN,      \* names / ids 1..NN
          MaxLen,  \* largest element count explored
          MaxSub,  \* largest nested element count explored
          MaxArg,  \* largest position argument offered
          Kinds,   \* container kinds explored
          Solo,    \* objects that refuse further references (addref answers 0): one owner at a time
          Fails,   \* injected allocation failures offered: f = k makes the k-th allocation of the call fail (0: none)
          FailOut, \* TRUE: the failed outcome of such a call is a transition of its own (model checking, traces);
                   \* FALSE: only the regular outcome, the failed one is carried as exp.alt (behaviour export)
          Prune    \* TRUE: handle 1 is the actor (behaviour export)

VARIABLES kind, val, cnt,   \* Tier 1
          rec, share,       \* Tier 2
          obs
vars == <<kind, val, cnt, rec, share, obs>>

H == 1..NH
O == 1..NO

---------------------------------------------------------------------------
Min(a, b) == IF a < b THEN a ELSE b
Max(a, b) == IF a > b THEN a ELSE b
Slot(n, o, sub) == [n |-> n, o |-> o, sub |-> sub]
Leaf(n, o) == Slot(n, o, <<>>)
Nil == Leaf(0, 0)
AnyOut == -99      \* exp.out: not compared
LongName == 99     \* a name that cannot be stored (65535 characters or more)
HeapName(n) == n \in {2, 5}   \* names the harness spells too long for an item's inline storage
Nils(k) == [i \in 1..k |-> Nil]
FirstN(s, n) == SubSeq(s, 1, Min(n, Len(s)))
Drop(s, n)   == SubSeq(s, n + 1, Len(s))
Pad(s, n)    == IF Len(s) >= n THEN s ELSE s \o Nils(n - Len(s))
Ins(s, pos, d) == FirstN(Pad(s, pos), pos) \o d \o Drop(s, pos)
Over(s, pos, d) ==
  LET p == Pad(s, pos) IN
  [i \in 1..Max(Len(p), pos + Len(d)) |-> IF i > pos /\ i <= pos + Len(d) THEN d[i - pos] ELSE p[i]]
Put(s, i, x) == [s EXCEPT ![i] = x]
CutSeq(s, off, n) == FirstN(s, off) \o Drop(s, off + n)
Part(s, a, b) == SubSeq(s, a + 1, Min(b, Len(s)))
HasRef(x) == x.o # 0
Live(s) == SelectSeq(s, HasRef)

\* number of references on object o held by the elements of s (nested ones included)
Holds(s, o) ==
  Cardinality({i \in 1..Len(s) : s[i].o = o})
  + Cardinality(UNION {{<<i, j>> : j \in {k \in 1..Len(s[i].sub) : s[i].sub[k].o = o}} : i \in 1..Len(s)})

\* objects held by the elements of s in ascending order (with repetitions): end-of-life log of a call
RECURSIVE SortedFrom(_, _)
SortedFrom(s, o) == IF o > NO THEN <<>> ELSE [i \in 1..Holds(s, o) |-> o] \o SortedFrom(s, o + 1)
Tokens(s) == SortedFrom(s, 1)

Unique == kind \in {"ref", "item", "group"}
\* A non-shareable object (the library's small text metatypes, string iterators; the harness scripts it) has one
\* owner: the harness hands its only reference over (possible while nobody holds the object) and a copy of an element
\* that holds it cannot share it -- the copy holds none.  Its counter reads the references held by elements (0 or 1).
SoloIn(k, o) == o \in Solo /\ k \in {"ref", "item", "group", "cfg"}
IsSolo(o) == SoloIn(kind, o)
Free(o) == IF o = 0 THEN TRUE ELSE IF IsSolo(o) THEN cnt[o] = 0 ELSE TRUE
CopyObj(o) == IF IsSolo(o) THEN 0 ELSE o
Null == [data |-> <<>>, nc |-> FALSE, typ |-> "none"]
NewRec(d, nc) == [data |-> d, nc |-> nc, typ |-> "elem"]
IsNull(h) == rec[h].typ = "none"
Used(h)   == Len(rec[h].data)
Shared(h) == Cardinality(share[h]) > 1

\* copy construction of an element (traits init with a source)
CopyOf(s) == CASE kind = "cfg"   -> Leaf(s.n, CopyObj(s.o))   \* name and (shareable) value; nested elements are not copied
               [] kind = "cmd"   -> Nil                  \* a command cannot be copied: default element instead
               [] OTHER          -> Leaf(s.n, CopyObj(s.o))
Copies(d) == [i \in 1..Len(d) |-> CopyOf(d[i])]

Account(cre, fin) == cnt' = [o \in O |-> cnt[o] + Holds(cre, o) - Holds(fin, o)]

\* exclusive ownership of the content (buffer detach): [ok, fresh, data, cre]
Det(h) ==
  LET r == rec[h] IN
  IF IsNull(h) THEN [ok |-> TRUE, fresh |-> TRUE, data |-> <<>>, cre |-> <<>>]
  ELSE IF ~Shared(h) THEN [ok |-> TRUE, fresh |-> FALSE, data |-> r.data, cre |-> <<>>]
  ELSE IF r.nc /\ Len(r.data) > 0 THEN [ok |-> FALSE, fresh |-> FALSE, data |-> r.data, cre |-> <<>>]
  ELSE [ok |-> TRUE, fresh |-> TRUE, data |-> Copies(r.data), cre |-> Copies(r.data)]

\* h leaves its buffer; when it was the last holder every element is destroyed
Released(h) == IF IsNull(h) \/ Shared(h) THEN <<>> ELSE rec[h].data

Private(h, r) ==
  /\ rec' = [rec EXCEPT ![h] = r]
  /\ share' = [g \in H |-> IF g = h THEN {h} ELSE share[g] \ {h}]
InPlace(h, d) ==
  /\ rec' = [g \in H |-> IF g \in share[h] THEN [rec[g] EXCEPT !.data = d] ELSE rec[g]]
  /\ UNCHANGED share
\* store the new content after Det(h); ncNew = flag of a buffer made for a handle that had none
Store(h, d, data, ncNew) ==
  IF d.fresh THEN Private(h, NewRec(data, IF IsNull(h) THEN ncNew ELSE rec[h].nc))
  ELSE InPlace(h, data)
SetV(h, d) == val' = [val EXCEPT ![h] = d]

---------------------------------------------------------------------------
\* what is read back: [n, o, [[n, o], ...]] per element.  Groups are read through each(): items without
\* instance are skipped (whether clear() compacts them away is the implementation's choice); an emptied
\* command slot reads as [0, 0] (the id left behind is of no concern).
EncSub(s) == [j \in 1..Len(s) |-> <<s[j].n, s[j].o>>]
EncSeq(s) == [i \in 1..Len(s) |-> <<s[i].n, s[i].o, EncSub(s[i].sub)>>]
Dead(s)   == [i \in 1..Len(s) |-> IF s[i].o = 0 THEN Nil ELSE s[i]]
Enc(k, s) == CASE k = "group" -> EncSeq(Live(s))
               [] k = "cmd"   -> EncSeq(Dead(s))
               [] OTHER       -> EncSeq(s)

Answer(a, arg, ret, out, fin) ==
  obs' = [a |-> a, arg |-> arg,
          exp |-> [ret |-> ret, out |-> out,
                   vals |-> [g \in H |-> Enc(kind', val'[g])],
                   refs |-> [o \in O |-> IF SoloIn(kind', o) THEN cnt'[o] ELSE 1 + cnt'[o]],
                   fin |-> IF kind' = "cmd" THEN Tokens(fin) ELSE <<>>,
                   under |-> 0,
                   leak |-> IF a = "final" THEN 0 ELSE -1,
                   \* a call with an injected allocation failure may also fail: then everything reads as before
                   alt |-> IF "f" \in DOMAIN arg /\ arg.f > 0
                           THEN [vals |-> [g \in H |-> Enc(kind, val[g])], refs |-> [o \in O |-> IF IsSolo(o) THEN cnt[o] ELSE 1 + cnt[o]]]
                           ELSE <<>>],
          mdl |-> [refs |-> [g \in H |-> Cardinality(share'[g])],
                   null |-> [g \in H |-> rec'[g].typ = "none"],
                   nc |-> [g \in H |-> rec'[g].nc]]]

\* the call leaves everything as it was
Frame == UNCHANGED <<kind, val, cnt, rec, share>>
Refuse(a, arg) == Frame /\ Answer(a, arg, "refused", AnyOut, <<>>)
NoChange(a, arg, ret, out) == Frame /\ Answer(a, arg, ret, out, <<>>)

\* the call replaces the content of h by nd after Det(h) = d; elements cre are constructed, fin destroyed
Commit(a, arg, h, d, nd, ncNew, cre, fin, ret, out) ==
  /\ UNCHANGED kind
  /\ Store(h, d, nd, ncNew) /\ SetV(h, nd)
  /\ Account(d.cre \o cre, fin)
  /\ Answer(a, arg, ret, out, fin)

Rel(pos0, used) == IF pos0 < 0 THEN pos0 + used ELSE pos0

\* outcome of a call whose injected allocation failure struck: refused, every handle reads what it read, no
\* reference taken or released (the caller keeps the one it offered); the handle may have got storage of its own
Failed(a, arg, h) ==
  /\ FailOut /\ arg.f > 0
  /\ \/ Refuse(a, arg)
     \/ Det(h).ok /\ Det(h).cre = <<>> /\ Commit(a, arg, h, Det(h), Det(h).data, TRUE, <<>>, <<>>, "refused", AnyOut)

---------------------------------------------------------------------------
(* C++ unique arrays: unique_array<T>::insert/set/resize/reserve and the   *)
(* members of reference_array<T>, item_array<T>                            *)

\* insert(pos) of one element s (positions behind the end are filled with default elements)
UInsert(a, arg, h, pos0, s, out) ==
  LET pos == Rel(pos0, Used(h)) d == Det(h) IN
  \/ IF pos < 0 \/ ~d.ok THEN Refuse(a, arg)
     ELSE IF s.n = LongName THEN Commit(a, arg, h, d, d.data, TRUE, <<>>, <<>>, "refused", AnyOut)   \* name refused: rolled back
     ELSE Commit(a, arg, h, d, Ins(d.data, pos, <<s>>), TRUE, <<s>>, <<>>, "ok", out)
  \/ Failed(a, arg, h)

\* reference_array::insert(pos, ref): the reference handed in is taken over
RInsert(h, pos, o, f) ==
  /\ kind = "ref" /\ Free(o)
  /\ UInsert("rinsert", [h |-> h, pos |-> pos, o |-> o, f |-> f], h, pos, Leaf(0, o), AnyOut)

\* reference_array::set(pos, ref): the old reference is released
RSet(h, pos0, o) ==
  LET arg == [h |-> h, pos |-> pos0, o |-> o] pos == Rel(pos0, Used(h)) IN
  /\ kind = "ref" /\ Free(o)
  /\ IF pos < 0 \/ pos >= Used(h) \/ Shared(h) THEN Refuse("rset", arg)
     ELSE LET d == Det(h) old == d.data[pos + 1] IN
          Commit("rset", arg, h, d, Put(d.data, pos + 1, Leaf(old.n, o)), TRUE, <<Leaf(0, o)>>, <<Leaf(0, old.o)>>, "ok", AnyOut)

\* reference_array::clear(ref | 0): matching (all) references released, slots stay; returns the number
RClear(h, o) ==
  LET arg == [h |-> h, o |-> o]
      Hit(s) == s.o # 0 /\ (o = 0 \/ s.o = o)
      gone == SelectSeq(rec[h].data, Hit)
      nd == [i \in 1..Used(h) |-> IF Hit(rec[h].data[i]) THEN Leaf(rec[h].data[i].n, 0) ELSE rec[h].data[i]]
  IN
  /\ kind = "ref"
  /\ IF Shared(h) /\ Used(h) > 0 THEN NoChange("rclear", arg, "any", AnyOut)
     ELSE IF Len(gone) = 0 THEN NoChange("rclear", arg, "ok", 0)
     ELSE Commit("rclear", arg, h, Det(h), nd, TRUE, <<>>, gone, "ok", Len(gone))

\* reference_array::compact(): references move to the front, the length stays
RCompact(h) ==
  LET arg == [h |-> h] nd == Live(rec[h].data) \o Nils(Used(h) - Len(Live(rec[h].data))) IN
  /\ kind = "ref"
  /\ IF (Shared(h) /\ Used(h) > 0) \/ nd = rec[h].data THEN NoChange("rcompact", arg, "any", AnyOut)
     ELSE Commit("rcompact", arg, h, Det(h), nd, TRUE, <<>>, <<>>, "any", AnyOut)

\* reference_array::count() / item_array::count()
XCount(h) ==
  /\ kind \in {"ref", "item"}
  /\ NoChange("count", [h |-> h], "ok", Len(Live(rec[h].data)))

\* item_array::append(obj, name): the reference handed in is taken over
IAppend(h, o, n, f) ==
  /\ kind = "item" /\ Free(o)
  /\ UInsert("iappend", [h |-> h, o |-> o, n |-> n, f |-> f], h, Used(h), Leaf(n, o), AnyOut)

\* unique_array<item<T>>::insert(pos): default element
IInsert(h, pos, f) ==
  /\ kind = "item"
  /\ UInsert("iinsert", [h |-> h, pos |-> pos, f |-> f], h, pos, Nil, AnyOut)

\* unique_array<item<T>>::set(pos, item): assignment of a copy (the source keeps its own reference)
\* (the assignment operators have no way to report a name that could not be copied: with an injected failure only
\* names that need no storage are offered)
ISet(h, pos0, o, n, f) ==
  LET arg == [h |-> h, pos |-> pos0, o |-> o, n |-> n, f |-> f] pos == Rel(pos0, Used(h)) d == Det(h) IN
  /\ kind = "item" /\ (f > 0 => ~HeapName(n)) /\ Free(o)
  /\ \/ IF pos < 0 \/ pos >= Used(h) \/ ~d.ok THEN Refuse("iset", arg)
        ELSE Commit("iset", arg, h, d, Put(d.data, pos + 1, Leaf(n, CopyObj(o))), TRUE, <<Leaf(n, CopyObj(o))>>, <<d.data[pos + 1]>>,
                    "ok", AnyOut)
     \/ Failed("iset", arg, h)

\* the caller changes the instance of an element it owns exclusively (as item_group::clear does)
IElem(h, pos, o) ==
  LET arg == [h |-> h, pos |-> pos, o |-> o] IN
  /\ kind = "item" /\ ~Shared(h) /\ pos < Used(h) /\ Free(o)
  /\ LET old == rec[h].data[pos + 1] IN
     Commit("ielem", arg, h, Det(h), Put(rec[h].data, pos + 1, Leaf(old.n, o)), TRUE, <<Leaf(0, o)>>, <<Leaf(0, old.o)>>, "ok", AnyOut)

\* item_array::compact(): elements without instance are removed; answers whether there was one
ICompact(h) ==
  LET arg == [h |-> h] nd == Live(rec[h].data) IN
  /\ kind = "item"
  /\ IF Shared(h) /\ Used(h) > 0 THEN NoChange("icompact", arg, "any", AnyOut)
     ELSE IF nd = rec[h].data THEN NoChange("icompact", arg, "ok", 0)
     ELSE Commit("icompact", arg, h, Det(h), nd, TRUE, <<>>, <<>>, "ok", 1)

\* reference_array<T>(len) / item_array<T>(len): an empty array with room for len elements (len < 0: no storage)
UCtor(h, len) ==
  LET arg == [h |-> h, len |-> len] IN
  /\ kind \in {"ref", "item"} /\ IsNull(h)
  /\ IF len < 0 THEN NoChange("ctor", arg, "ok", AnyOut)
     ELSE Commit("ctor", arg, h, Det(h), <<>>, TRUE, <<>>, <<>>, "ok", AnyOut)

\* unique_array::resize(len): the tail is destroyed / default elements are added
UResize(h, len, f) ==
  LET arg == [h |-> h, len |-> len, f |-> f] d == Det(h) IN
  /\ kind \in {"ref", "item"}
  /\ \/ IF ~d.ok THEN Refuse("resize", arg)
        ELSE Commit("resize", arg, h, d, IF len <= Len(d.data) THEN FirstN(d.data, len) ELSE Pad(d.data, len), TRUE,
                    <<>>, Drop(d.data, len), "ok", AnyOut)
     \/ Failed("resize", arg, h)

\* unique_array::reserve(len) (negative: relative to the length): capacity only
UReserve(h, len0) ==
  LET arg == [h |-> h, len |-> len0] len == Rel(len0, Used(h)) d == Det(h) IN
  /\ kind \in {"ref", "item"}
  /\ IF len < 0 \/ ~d.ok THEN Refuse("reserve", arg)
     ELSE Commit("reserve", arg, h, d, d.data, TRUE, <<>>, <<>>, "ok", AnyOut)

---------------------------------------------------------------------------
(* item_group: append / clear / clone / add_items                          *)
CountLive(s) == Len(Live(s))

GAppend(a, h, o, n, f) ==
  LET arg == [h |-> h, o |-> o, n |-> n, f |-> f] d == Det(h) IN
  /\ kind = "group" /\ o # 0 /\ (f > 0 => ~HeapName(n)) /\ Free(o)
  /\ \/ IF ~d.ok \/ (a = "gadd" /\ IsSolo(o))      \* add_items cannot take a share of the node's object: nothing is added
        THEN Frame /\ Answer(a, arg, IF a = "gadd" THEN "any" ELSE "refused", AnyOut, <<>>)
        ELSE Commit(a, arg, h, d, d.data \o <<Leaf(n, o)>>, TRUE, <<Leaf(n, o)>>, <<>>,
                    IF a = "gadd" THEN "any" ELSE "ok", IF a = "gadd" THEN AnyOut ELSE CountLive(d.data) + 1)
     \/ /\ FailOut /\ f > 0     \* add_items goes on after a failed append and answers true
        /\ \/ Frame /\ Answer(a, arg, IF a = "gadd" THEN "any" ELSE "refused", AnyOut, <<>>)
           \/ d.ok /\ d.cre = <<>> /\ Commit(a, arg, h, d, d.data, TRUE, <<>>, <<>>, IF a = "gadd" THEN "any" ELSE "refused", AnyOut)

\* item_group::clear(ref): items holding ref lose it; more than half without instance: compacted
GClear(h, o) ==
  LET arg == [h |-> h, o |-> o] data == rec[h].data
      Hit(s) == s.o = o
      gone == SelectSeq(data, Hit)
      nulled == [i \in 1..Len(data) |-> IF Hit(data[i]) THEN Leaf(data[i].n, 0) ELSE data[i]]
      nd == IF 2 * (Len(data) - CountLive(nulled)) > Len(data) THEN Live(nulled) ELSE nulled
  IN
  /\ kind = "group" /\ o # 0
  /\ IF Shared(h) /\ Used(h) > 0 THEN NoChange("gclear", arg, "any", AnyOut)
     ELSE IF Len(gone) = 0 /\ nd = data THEN NoChange("gclear", arg, "ok", 0)
     ELSE Commit("gclear", arg, h, Det(h), nd, TRUE, <<>>, gone, "ok", Len(gone))

---------------------------------------------------------------------------
(* config items: mpt_config_item_reserve / _query on unique arrays of      *)
(* MPT_STRUCT(config_item) (name, value reference, nested elements)        *)

\* index of the element named n (0 = none); unused elements (no name) are skipped
Find(s, n) == IF \E i \in 1..Len(s) : s[i].n = n THEN CHOOSE i \in 1..Len(s) : s[i].n = n /\ \A j \in 1..(i - 1) : s[j].n # n
              ELSE 0
Unused(s) == IF \E i \in 1..Len(s) : s[i].n = 0 THEN CHOOSE i \in 1..Len(s) : s[i].n = 0 /\ \A j \in 1..(i - 1) : s[j].n # 0
             ELSE 0
\* reserve the element named n in s: [data, idx, fin] -- found, else the first unused element is taken over
\* (its old value and nested elements are destroyed), else appended
Res(s, n) ==
  IF Find(s, n) # 0 THEN [data |-> s, idx |-> Find(s, n), fin |-> <<>>]
  ELSE IF Unused(s) # 0 THEN [data |-> Put(s, Unused(s), Leaf(n, 0)), idx |-> Unused(s), fin |-> <<s[Unused(s)]>>]
  ELSE [data |-> s \o <<Leaf(n, 0)>>, idx |-> Len(s) + 1, fin |-> <<>>]

\* reserve path <<p>> or <<p, q>> and let the caller assign value object o (0: none assigned)
CfgSet(h, p, q, o) ==
  LET arg == [h |-> h, p |-> p, q |-> q, o |-> o] d == Det(h)
      top == Res(d.data, p)
      par == top.data[top.idx]
      sub == Res(par.sub, q)
      tgt == IF q = 0 THEN par ELSE sub.data[sub.idx]
      new == IF o = 0 THEN tgt ELSE Slot(tgt.n, o, tgt.sub)
      npar == IF q = 0 THEN new ELSE Slot(par.n, par.o, Put(sub.data, sub.idx, new))
      nd == Put(top.data, top.idx, npar)
      lookup == o = 0 /\ ~d.fresh /\ nd = d.data
  IN
  /\ kind = "cfg" /\ Free(o)
  /\ IF ~d.ok THEN LET i == Find(rec[h].data, p)
                        there == i # 0 /\ (q = 0 \/ Find(rec[h].data[i].sub, q) # 0) IN
                    \* a pure lookup through a shared table may be answered or refused
                    Frame /\ Answer("cfgset", arg, IF there /\ o = 0 THEN "any" ELSE "refused", AnyOut, <<>>)
     ELSE IF lookup THEN NoChange("cfgset", arg, "ok", AnyOut)
     ELSE Commit("cfgset", arg, h, d, nd, TRUE,
                 IF o = 0 THEN <<>> ELSE <<Leaf(0, o)>>,
                 top.fin \o (IF q = 0 THEN <<>> ELSE sub.fin) \o (IF o = 0 THEN <<>> ELSE <<Leaf(0, tgt.o)>>),
                 "ok", AnyOut)

\* mpt_config_item_query: the value object of the element (-1: no such element)
CfgQuery(h, p, q) ==
  LET arg == [h |-> h, p |-> p, q |-> q] s == rec[h].data i == Find(s, p)
      j == IF i = 0 \/ q = 0 THEN 0 ELSE Find(s[i].sub, q)
  IN
  /\ kind = "cfg"
  /\ NoChange("cfgq", arg, "ok", IF i = 0 THEN -1 ELSE IF q = 0 THEN s[i].o ELSE IF j = 0 THEN -1 ELSE s[i].sub[j].o)

\* the owner removes an element (what config::root::remove does): mode 0 = children, name and value
\* released; mode 1 = only marked unused (name cleared; the value and children are released when the element
\* is taken over by a later reserve); mode 2 = value released only (assign without value)
CfgDel(h, p, q, mode) ==
  LET arg == [h |-> h, p |-> p, q |-> q, mode |-> mode] s == rec[h].data i == Find(s, p)
      j == IF i = 0 \/ q = 0 THEN 0 ELSE Find(s[i].sub, q)
      Gone(x) == CASE mode = 0 -> Nil [] mode = 1 -> Slot(0, x.o, x.sub) [] OTHER -> Slot(x.n, 0, x.sub)
      Fin(x)  == CASE mode = 0 -> <<x>> [] mode = 1 -> <<>> [] OTHER -> <<Leaf(0, x.o)>>
  IN
  /\ kind = "cfg" /\ ~Shared(h)
  /\ IF i = 0 \/ (q # 0 /\ j = 0) THEN NoChange("cfgdel", arg, "ok", 0)
     ELSE IF q = 0
     THEN Commit("cfgdel", arg, h, Det(h), Put(s, i, Gone(s[i])), TRUE, <<>>, Fin(s[i]), "ok", 1)
     ELSE Commit("cfgdel", arg, h, Det(h), Put(s, i, Slot(s[i].n, s[i].o, Put(s[i].sub, j, Gone(s[i].sub[j])))), TRUE,
                 <<>>, Fin(s[i].sub[j]), "ok", 1)

---------------------------------------------------------------------------
(* commands: mpt_command_set / mpt_command_clear on an exclusively owned   *)
(* table; elements [id, token]                                             *)
LiveId(s, id) == IF \E i \in 1..Len(s) : s[i].n = id /\ s[i].o # 0
                 THEN CHOOSE i \in 1..Len(s) : s[i].n = id /\ s[i].o # 0 /\ \A j \in 1..(i - 1) : ~(s[j].n = id /\ s[j].o # 0)
                 ELSE 0
EmptyAt(s) == IF \E i \in 1..Len(s) : s[i].o = 0 THEN CHOOSE i \in 1..Len(s) : s[i].o = 0 /\ \A j \in 1..(i - 1) : s[j].o # 0
              ELSE 0

CmdSet(h, id, tok) ==
  LET arg == [h |-> h, id |-> id, tok |-> tok] s == rec[h].data i == LiveId(s, id) e == EmptyAt(s) d == Det(h) IN
  /\ kind = "cmd" /\ ~Shared(h)
  /\ tok # 0 => cnt[tok] = 0
  /\ IF i # 0 THEN Commit("cmdset", arg, h, d, Put(s, i, Leaf(id, tok)), TRUE, <<Leaf(0, tok)>>, <<Leaf(0, s[i].o)>>, "ok",
                          IF tok = 0 THEN 2 ELSE 0)
     ELSE IF e # 0 THEN Commit("cmdset", arg, h, d, Put(s, e, Leaf(id, tok)), TRUE, <<Leaf(0, tok)>>, <<>>, "ok", 0)
     ELSE Commit("cmdset", arg, h, d, s \o <<Leaf(id, tok)>>, TRUE, <<Leaf(0, tok)>>, <<>>, "ok", 1)

CmdClear(h) ==
  /\ kind = "cmd" /\ ~Shared(h) /\ ~IsNull(h)
  /\ Commit("cmdclear", [h |-> h], h, Det(h), <<>>, TRUE, <<>>, rec[h].data, "ok", AnyOut)

---------------------------------------------------------------------------
(* rawdata stages: mpt_stage_data(stage, dim) hands out the value store of *)
(* a dimension (created with the ones before it), the caller assigns a     *)
(* typed array o to it                                                     *)
Stage(h, dim, o) ==
  LET arg == [h |-> h, dim |-> dim, o |-> o] d == Det(h)
      base == IF dim < Len(d.data) THEN d.data ELSE Pad(d.data, dim + 1)
      old == base[dim + 1]
      nd == IF o = 0 THEN base ELSE Put(base, dim + 1, Leaf(0, o))
  IN
  /\ kind = "stage"
  /\ IF ~d.ok THEN Refuse("stage", arg)
     ELSE Commit("stage", arg, h, d, nd, FALSE, IF o = 0 THEN <<>> ELSE <<Leaf(0, o)>>,
                 IF o = 0 THEN <<>> ELSE <<Leaf(0, old.o)>>, "ok", AnyOut)

---------------------------------------------------------------------------
(* C kinds: the generic typed buffer calls with the library's own traits   *)

\* mpt_array_set(h, traits, <all elements of g>, off): copies of g's elements over h's from off on
TCopy(h, g, off) ==
  LET arg == [h |-> h, from |-> g, off |-> off] d == Det(h) c == Copies(rec[g].data) IN
  /\ kind \in {"cfg", "cmd", "stage"} /\ g # h /\ ~IsNull(g) /\ off <= Used(h)
  /\ IF ~d.ok THEN Refuse("tcopy", arg)
     ELSE Commit("tcopy", arg, h, d, Over(d.data, off, c), FALSE, c, Part(d.data, off, off + Len(c)), "ok", AnyOut)

\* mpt_buffer_cut(buf, off, n) on an exclusively owned buffer (n = 0: everything from off on)
Cut(h, off, n) ==
  LET arg == [h |-> h, off |-> off, n |-> n] s == rec[h].data used == Len(s) IN
  /\ kind \in {"cfg", "cmd", "stage"} /\ ~IsNull(h) /\ ~Shared(h)
  /\ IF n > used \/ off > used \/ (n > 0 /\ used - n < off) THEN Refuse("cut", arg)
     ELSE LET gone == IF n = 0 THEN Drop(s, off) ELSE Part(s, off, off + n)
              keep == IF n = 0 THEN FirstN(s, off) ELSE CutSeq(s, off, n)
          IN Commit("cut", arg, h, Det(h), keep, FALSE, <<>>, gone, "ok", AnyOut)

---------------------------------------------------------------------------
(* all kinds: handle copy (shares the buffer), release, final release      *)
Copy(h, g) ==
  LET arg == [h |-> h, from |-> g] IN
  /\ g # h
  /\ IF g \in share[h] \/ (IsNull(h) /\ IsNull(g)) THEN NoChange("copy", arg, "ok", AnyOut)
     ELSE /\ UNCHANGED kind
          /\ Account(<<>>, Released(h))
          /\ rec' = [rec EXCEPT ![h] = rec[g]]
          /\ share' = IF IsNull(g) THEN [x \in H |-> IF x = h THEN {h} ELSE share[x] \ {h}]
                      ELSE [x \in H |-> IF x \in share[g] \/ x = h THEN share[g] \cup {h} ELSE share[x] \ {h}]
          /\ SetV(h, val[g])
          /\ Answer("copy", arg, "ok", AnyOut, Released(h))

Release(h) ==
  /\ UNCHANGED kind
  /\ Account(<<>>, Released(h))
  /\ Private(h, Null) /\ SetV(h, <<>>)
  /\ Answer("release", [h |-> h], "ok", AnyOut, Released(h))

\* every handle is released: nothing may stay alive, no storage may stay behind
Reps == {h \in H : ~IsNull(h) /\ \A g \in share[h] : h <= g}
RECURSIVE AllData(_)
AllData(S) == IF S = {} THEN <<>> ELSE LET h == CHOOSE x \in S : TRUE IN rec[h].data \o AllData(S \ {h})
Final ==
  /\ UNCHANGED kind
  /\ Account(<<>>, AllData(Reps))
  /\ rec' = [h \in H |-> Null] /\ share' = [h \in H |-> {h}]
  /\ val' = [h \in H |-> <<>>]
  /\ Answer("final", [n |-> NH], "ok", AnyOut, AllData(Reps))

---------------------------------------------------------------------------
Init ==
  /\ kind \in Kinds
  /\ val = [h \in H |-> <<>>] /\ cnt = [o \in O |-> 0]
  /\ rec = [h \in H |-> Null] /\ share = [h \in H |-> {h}]
  /\ obs = [a |-> "init", arg |-> [kind |-> kind, n |-> NH, no |-> NO, solo |-> Solo],
            exp |-> [ret |-> "ok", out |-> AnyOut, vals |-> [h \in H |-> <<>>], refs |-> [o \in O |-> IF IsSolo(o) THEN 0 ELSE 1], fin |-> <<>>,
                     under |-> 0, leak |-> -1],
            mdl |-> [refs |-> [h \in H |-> 1], null |-> [h \in H |-> TRUE], nc |-> [h \in H |-> FALSE]]]

Pos == (-2)..MaxArg
Next ==
  \/ \E h \in H : LET A == (Prune => h = 1) IN
       \/ \E g \in H : Copy(h, g)
       \/ A /\ ~IsNull(h) /\ Release(h)
       \* reference_array
       \/ \E pos \in Pos, o \in 0..NO, f \in Fails :
            /\ ((Prune /\ h # 1) => (pos = 0 /\ o = 1 /\ f = 0)) /\ (Prune /\ f > 0 => o # 0)
            /\ (FailOut /\ f > 0) => (pos = 0 /\ o = 1)     \* the failed outcome does not depend on the arguments
            /\ RInsert(h, pos, o, f)
       \/ \E pos \in Pos, o \in 0..NO : A /\ RSet(h, pos, o)
       \/ \E o \in 0..NO : A /\ RClear(h, o)
       \/ A /\ RCompact(h)
       \/ A /\ XCount(h)
       \* item_array
       \/ \E o \in 0..NO, n \in (0..NN) \cup {LongName}, f \in Fails :
            /\ (Prune /\ h # 1) => (o = 1 /\ n = 1 /\ f = 0)
            /\ (Prune /\ (f > 0 \/ n = LongName)) => o # 0
            /\ (FailOut /\ f > 0) => (o = 1 /\ n = 1)
            /\ IAppend(h, o, n, f)
       \/ \E pos \in Pos, f \in Fails : A /\ (Prune /\ f > 0 => pos \in {0, MaxArg}) /\ ((FailOut /\ f > 0) => pos = 0) /\ IInsert(h, pos, f)
       \/ \E pos \in Pos, o \in 0..NO, n \in 0..NN, f \in Fails :
            A /\ (Prune => (n = (IF o = 0 THEN 0 ELSE NN) /\ f = 0)) /\ ((FailOut /\ f > 0) => (pos = 0 /\ o = 1 /\ n = 1)) /\ ISet(h, pos, o, n, f)
       \/ \E pos \in 0..MaxArg, o \in 0..NO : A /\ IElem(h, pos, o)
       \/ A /\ ICompact(h)
       \/ \E len \in (-1)..MaxArg : (Prune /\ h # 1 => len = 1) /\ UCtor(h, len)
       \/ \E len \in 0..MaxArg, f \in Fails : A /\ (Prune /\ f > 1 => len = MaxArg) /\ ((FailOut /\ f > 0) => len = MaxArg) /\ UResize(h, len, f)
       \/ \E len \in (-2)..MaxArg : A /\ UReserve(h, len)
       \* item_group
       \/ \E o \in O, n \in 0..NN, a \in {"gappend", "gadd"}, f \in Fails :
            /\ (Prune /\ h # 1) => (o = 1 /\ n = 1 /\ a = "gappend" /\ f = 0)
            /\ (FailOut /\ f > 0) => (o = 1 /\ n = 1)
            /\ GAppend(a, h, o, n, f)
       \/ \E o \in O : A /\ GClear(h, o)
       \* config items
       \/ \E p \in 1..NN, q \in 0..NN, o \in 0..NO :
            /\ (Prune /\ h # 1) => (p = 1 /\ q = 0 /\ o \in {1, NO})
            /\ CfgSet(h, p, q, o)
       \/ \E p \in 1..NN, q \in 0..NN : A /\ CfgQuery(h, p, q)
       \/ \E p \in 1..NN, q \in 0..NN, m \in 0..2 : A /\ CfgDel(h, p, q, m)
       \* commands
       \/ \E id \in 1..NN, tok \in 0..NO : ((Prune /\ h # 1) => id = 1) /\ CmdSet(h, id, tok)
       \/ A /\ CmdClear(h)
       \* stages
       \/ \E dim \in 0..MaxArg, o \in 0..NO : ((Prune /\ h # 1) => (dim = 0 /\ o = 1)) /\ Stage(h, dim, o)
       \* typed buffer calls with the library's traits
       \/ \E g \in H, off \in 0..MaxArg : A /\ TCopy(h, g, off)
       \/ \E off \in 0..MaxArg, n \in 0..MaxArg : A /\ Cut(h, off, n)
  \/ Final

Spec == Init /\ [][Next]_vars

---------------------------------------------------------------------------
SlotOK(s, nested) == /\ s.n \in 0..NN /\ s.o \in 0..NO
                     /\ nested \/ s.sub = <<>>
TypeOK ==
  /\ kind \in Kinds
  /\ \A h \in H : /\ h \in share[h]
                  /\ \A i \in 1..Len(rec[h].data) :
                        /\ SlotOK(rec[h].data[i], kind = "cfg")
                        /\ \A j \in 1..Len(rec[h].data[i].sub) : SlotOK(rec[h].data[i].sub[j], FALSE)
  /\ \A o \in O : cnt[o] >= 0

AliasOK ==
  \A h \in H : /\ \A g \in share[h] : rec[g] = rec[h] /\ share[g] = share[h]
               /\ IsNull(h) => share[h] = {h}

Refines == \A h \in H : rec[h].data = val[h]

\* every reference taken and not released sits in exactly one slot of one live buffer
RECURSIVE HeldBy(_, _)
HeldBy(S, o) == IF S = {} THEN 0
                ELSE LET h == CHOOSE x \in S : TRUE IN Holds(rec[h].data, o) + HeldBy(S \ {h}, o)
Balance == \A o \in O : cnt[o] = HeldBy(Reps, o)

\* when no handle holds a buffer nothing is alive
AllGone == (\A h \in H : IsNull(h)) => (\A o \in O : cnt[o] = 0)

\* a registration token is alive in at most one command slot
OneSlot == \A o \in O : (kind = "cmd" \/ IsSolo(o)) => cnt[o] <= 1

Independent == [][\A h \in H : (obs'.a # "final" /\ h # obs'.arg.h) => val'[h] = val[h]]_vars
RefuseFrame == [][obs'.exp.ret = "refused" => (val' = val /\ cnt' = cnt)]_vars
KindFixed   == [][kind' = kind]_vars
=============================================================================
