SPECIFICATION Spec
CONSTANTS KindSet = {"ref", "hist"} MaxOps = 2 Lvl = 2
VIEW ViewV
INVARIANTS TypeOK
PROPERTIES WalkSync DrainAll DoorSound Reads
CHECK_DEADLOCK FALSE
