----------------------------- MODULE Trace_IoBuf -----------------------------
(* Trace validation of recorded io::buffer executions against IoBuf.       *)
EXTENDS IoBuf, Json, IOUtils
VARIABLE l
TraceLog == ndJsonDeserialize(IOEnv.TRACE)

Reset(ev) ==
  /\ arr' = [h \in A |-> <<>>] /\ buf' = [k \in B |-> Off] /\ rep' = [k \in B |-> OffRep]
  /\ Answer("init", ev.arg, "ok", AnyOut, <<>>)

\* calls the harness does not make: no such buffer / the slot is taken
Skipped(ev) ==
  /\ CASE ev.a = "bnew"   -> buf[ev.arg.k].on
       [] ev.a = "bclone" -> buf[ev.arg.k].on \/ ~buf[ev.arg.from].on \/ ev.arg.from = ev.arg.k
       [] ev.a \in {"aset", "aappend"} -> FALSE
       [] OTHER -> ~buf[ev.arg.k].on
  /\ Frame /\ Answer(ev.a, ev.arg, "skipped", AnyOut, <<>>)

Step(ev) ==
  IF "obs" \notin DOMAIN ev THEN FALSE ELSE
  IF ev.a = "init" THEN Reset(ev) ELSE
  IF ev.obs.ret = "skipped" THEN Skipped(ev) ELSE
  LET g == ev.arg IN
  CASE ev.a = "aset"     -> ASet(g.h, g.data)
    [] ev.a = "aappend"  -> AAppend(g.h, g.data)
    [] ev.a = "bnew"     -> BNew(g.k, g.h)
    [] ev.a = "bclone"   -> BClone(g.k, g.from)
    [] ev.a = "brelease" -> BRelease(g.k)
    [] ev.a = "bpush"    -> BPush(g.k, g.data)
    [] ev.a = "bwrite"   -> BWrite(g.k, g.data, g.esz)
    [] ev.a = "bread"    -> BRead(g.k, g.n, g.esz)
    [] ev.a = "bshift"   -> BShift(g.k, g.n)
    [] ev.a = "breset"   -> BReset(g.k)
    [] ev.a = "bvalue"   -> BValue(g.k)
    [] ev.a = "badvance" -> BAdvance(g.k)
    [] OTHER             -> FALSE

Matches(ev) ==
  LET e == obs'.exp o == ev.obs IN
  /\ e.arrs = o.arrs /\ e.q = o.q /\ e.pos = o.pos /\ e.on = o.on /\ e.data = o.data
  /\ e.ret = "any" \/ e.ret = o.ret
  /\ e.out = AnyOut \/ e.out = o.out

TraceInit ==
  /\ l = 1
  /\ arr = [h \in A |-> <<>>] /\ buf = [k \in B |-> Off] /\ rep = [k \in B |-> OffRep]
  /\ obs = [a |-> "none", arg |-> [k |-> 0],
            exp |-> [ret |-> "ok", out |-> AnyOut, data |-> <<>>, arrs |-> [h \in A |-> <<>>], q |-> [k \in B |-> <<>>],
                     pos |-> [k \in B |-> 0], on |-> [k \in B |-> FALSE]],
            mdl |-> [done |-> [k \in B |-> 0], scratch |-> [k \in B |-> 0], len |-> [k \in B |-> 0]]]

TraceNext ==
  /\ l <= Len(TraceLog)
  /\ l' = l + 1
  /\ LET ev == TraceLog[l] IN Step(ev) /\ Matches(ev)

TraceSpec == TraceInit /\ [][TraceNext]_<<vars, l>>

TraceAccepted ==
  LET n == TLCGet("stats").diameter - 1 IN
  /\ PrintT(<<"MATCHED", n>>)
  /\ n = Len(TraceLog)
=============================================================================
