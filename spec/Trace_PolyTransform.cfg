SPECIFICATION TraceSpec
CONSTANTS
  Alphabet = {}
  Ranges = {}
  MaxLen = 0
  Limit = 65535
  Chunked = TRUE
  NoRangeLen = 0
  CodeDen = {}
  Dims = 1
  Kinds = {}
  Alphabet2 = {}
  HalfLimits = FALSE
  Uneven = "any"
INVARIANTS PartitionT
POSTCONDITION TraceAccepted
CHECK_DEADLOCK FALSE
