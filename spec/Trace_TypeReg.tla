---------------------------- MODULE Trace_TypeReg ----------------------------
(* Trace validation at production constants: recorded histories of the real *)
(* registry (one fresh process each, starting with "boot") must be          *)
(* behaviours of TypeReg.  The range constants and the built-in size table  *)
(* come from the driver's "sizes" record (enum values of types.h and sizeof *)
(* of the C types), written as module TypeRegSizes by checks/c06.py.  A registration is accepted with the  *)
(* identifier the real code chose as long as Tier 1 calls it legal.         *)
EXTENDS TypeReg, TypeRegSizes, Json, IOUtils
VARIABLE l
TraceLog == ndJsonDeserialize(IOEnv.TRACE)
FBuiltinIf == <<"convertable", "logger", "reply", "output", "object", "config", "iterator", "collection", "solver">>

Boot ==
  /\ reg' = BuiltinReg
  /\ ifs' = <<>> /\ dyn' = <<>> /\ metaC' = << <<"metatype">> >> /\ genC' = << <<>> >>
  /\ obs' = [a |-> "boot", arg |-> [x |-> 0], legal |-> TRUE, exp |-> [x |-> 0]]
  /\ des' = [x |-> 0]

Ok(ev) == ev.obs.ret = "ok"
IdIn(ev) == IF Ok(ev) /\ Len(ev.obs.val) = 1 THEN ev.obs.val[1] ELSE 0

\* the call was denied memory (the driver reports that the armed failure was consumed) and refused
Starved(ev) == "fail" \in DOMAIN ev.arg /\ ev.arg.fail > 0 /\ ev.obs.oom = 1 /\ ~Ok(ev)
Fail(ev) == IF "fail" \in DOMAIN ev.arg THEN ev.arg.fail ELSE 0

TraceStep(ev) ==
  CASE ev.a = "boot"       -> Boot
    [] ev.a = "addbasic"   -> IF Starved(ev) THEN OomBasic(ev.arg.size, ev.arg.fail)
                              ELSE AddBasic(ev.arg.size, Ok(ev), IdIn(ev))
    [] ev.a = "addgeneric" -> IF Starved(ev) THEN OomGeneric(ev.arg.size, ev.arg.managed, ev.arg.fail, genC)
                              ELSE AddGeneric(ev.arg.size, ev.arg.managed, Ok(ev), IdIn(ev))
    [] ev.a = "addiface"   -> IF Starved(ev) THEN OomIface(ev.arg.name, ev.arg.fail)
                              ELSE AddIface(ev.arg.name, Ok(ev), IdIn(ev))
    [] ev.a = "addmeta"    -> IF Starved(ev) THEN OomMeta(ev.arg.name, ev.arg.fail, metaC)
                              ELSE AddMeta(ev.arg.name, Ok(ev), IdIn(ev))
    [] ev.a = "fmtsweep"   -> FmtSweep(ev.arg.types, ev.arg.nat)
    [] ev.a = "byid"       -> ById(ev.arg.id)
    [] ev.a = "scan"       -> Scan(ev.arg.lo, ev.arg.hi)
    [] ev.a = "byname"     -> ByName(ev.arg.text, ev.arg.len)
    [] ev.a = "alias"      -> AliasId(ev.arg.name, ev.arg.pad, ev.arg.sep, ev.arg.sym)
    [] OTHER               -> FALSE

Closed(list) == SelectSeq(list, LAMBDA e : ~Open(e.id))

Matches(ev) ==
  /\ obs'.legal
  /\ CASE ev.a = "boot" -> TRUE
       [] ev.a \in {"addbasic", "addgeneric", "addiface", "addmeta"} ->
            /\ obs'.exp.ret = ev.obs.ret /\ obs'.exp.val = ev.obs.val
            /\ obs'.exp.name = ev.obs.name /\ obs'.exp.size = ev.obs.size
       [] ev.a = "byid" ->
            \/ "open" \in DOMAIN obs'.exp
            \/ /\ obs'.exp.present = ev.obs.present /\ obs'.exp.size = ev.obs.size
               /\ obs'.exp.managed = ev.obs.managed /\ obs'.exp.name = ev.obs.name
               /\ obs'.exp.ntype = ev.obs.ntype
       [] ev.a = "scan" -> obs'.exp.list = Closed(ev.obs.list)
       [] ev.a \in {"byname", "alias"} -> obs'.exp.val = ev.obs.val
       [] ev.a = "fmtsweep" ->
            /\ obs'.exp.nat = ev.obs.nat /\ obs'.exp.ids = ev.obs.ids
            /\ Len(ev.obs.codes) = Len(ev.arg.types) /\ Len(ev.obs.sizes) = Len(ev.arg.types)
            /\ \A k \in 1..Len(ev.arg.types) : ev.arg.types[k] \in FmtScalars =>
                 /\ obs'.exp.codes[k] = ev.obs.codes[k] /\ obs'.exp.sizes[k] = ev.obs.sizes[k]

TraceInit == l = 1 /\ Init

TraceNext ==
  /\ l <= Len(TraceLog)
  /\ l' = l + 1
  /\ LET ev == TraceLog[l] IN TraceStep(ev) /\ Matches(ev)

TraceSpec == TraceInit /\ [][TraceNext]_<<vars, l>>

TraceAccepted ==
  LET n == TLCGet("stats").diameter - 1 IN
  /\ PrintT(<<"MATCHED", n>>)
  /\ n = Len(TraceLog)
=============================================================================
