---------------------------- MODULE Trace_Layout ----------------------------
(* Trace validation: a recorded execution of the real layout objects (one  *)
(* event per call: arguments + observation of ALL properties of both       *)
(* objects) must be a behaviour of Layout.  Executions are concatenated;   *)
(* each starts with an "init" event.  Where the statement leaves the       *)
(* outcome of a set open (conversion policy, text without a defined        *)
(* meaning) the recorded answer selects the branch; the frame condition    *)
(* (nothing but the target changes) is demanded in every case.             *)
EXTENDS Layout, Json, IOUtils
VARIABLE l
TraceLog == ndJsonDeserialize(IOEnv.TRACE)

ResetTo(k) ==
  /\ kind' = k
  /\ t2' = <<Def2(k), Def2(k)>> /\ t1' = <<Def1(k), Def1(k)>> /\ nid' = 1
  /\ obs' = [a |-> "init", arg |-> [kind |-> k], tgt |-> "", den |-> <<>>,
             exp |-> [ret |-> "ok", p0 |-> AllView1(k, Def1(k)), p1 |-> AllView1(k, Def1(k)), shared |-> 0]]

ArgV(ev) == V(ev.arg.f, ev.arg.n, ev.arg.c, ev.arg.sty)
\* what the target read back after the call (used only where the outcome is open)
Seen(ev, name) ==
  LET i == SetResolve(kind, name)
      p == IF ev.arg.o = 0 THEN ev.obs.p0 ELSE ev.obs.p1 IN
  IF i = 0 \/ Props(kind)[i].name \notin DOMAIN p THEN <<>> ELSE p[Props(kind)[i].name]

Step(ev) ==
  CASE ev.a = "init"     -> ResetTo(ev.arg.kind)
    [] ev.a = "set"      -> SetX(ev.arg.o + 1, ev.arg.name, ArgV(ev), ev.obs.ret, Seen(ev, ev.arg.name))
    [] ev.a = "reset"    -> Reset(ev.arg.o + 1, ev.arg.name, ev.arg.f)
    [] ev.a = "auto"     -> Auto(ev.arg.o + 1, ArgV(ev))
    [] ev.a = "get"      -> GetX(ev.arg.o + 1, ev.arg.name, ev.obs.ret, ev.obs.cname)
    [] ev.a = "copy"     -> Copy(ev.arg.o + 1, ev.arg.from + 1, ev.arg.mode)
    [] ev.a = "scribble" -> Scribble(ev.arg.o + 1)
    [] ev.a = "fini"     -> Fini(ev.arg.o + 1)
    [] ev.a = "cparse"   -> CParseX(ev.arg.c, ev.obs.ret, ev.obs.col)
    [] ev.a = "cprint"   -> CPrint(ev.arg.c)
    [] ev.a = "cset"     -> CSet(ev.arg.r, ev.arg.g, ev.arg.b)
    [] ev.a = "calpha"   -> CAlpha(ev.arg.v)
    [] ev.a = "lset"     -> LSet(ev.arg.w, ev.arg.st, ev.arg.sy, ev.arg.sz)
    [] ev.a = "sset"     -> SSet(ev.arg.o + 1, ev.arg.m, ev.arg.c, ev.arg.n)
    [] OTHER             -> FALSE

(* a call during which the injected allocation failure was met (arg.fail = k, obs.fired = 1) and that was refused:   *)
(* refusal for lack of memory, nothing changes, nothing lost                                                          *)
Failed(ev) == /\ "fail" \in DOMAIN ev.arg /\ ev.arg.fail > 0
              /\ "fired" \in DOMAIN ev.obs /\ ev.obs.fired = 1 /\ ev.obs.ret = "refused"
              /\ ev.a \in {"set", "reset", "auto", "copy", "sset"}
StepN(ev) == Same /\ obs' = [a |-> ev.a, arg |-> ev.arg, tgt |-> "", den |-> <<>>,
                             exp |-> Exp("refused") @@ [leak |-> 0, badfree |-> 0]]

(* how the specification classifies the recorded set calls (vacuity figures) *)
ClassNo(ev) ==
  IF ev.a # "set" THEN 6
  ELSE LET i == SetResolve(kind, ev.arg.name) IN
       IF i = 0 THEN 5
       ELSE LET c == Den(Props(kind)[i].pt, ArgV(ev)).ret IN
            CASE c = "ok" -> 1 [] c = "refused" -> 2 [] c = "either" -> 3 [] OTHER -> 4
Bump(ev) == LET k == ClassNo(ev) IN TLCSet(k, TLCGet(k) + 1)

Matches(ev) == \A k \in DOMAIN obs'.exp :
                  k \in DOMAIN ev.obs /\ ((k = "ret" /\ obs'.exp[k] = "any") \/ obs'.exp[k] = ev.obs[k])

TraceInit ==
  /\ \A k \in 1..6 : TLCSet(k, 0)
  /\ l = 1 /\ kind = "axis" /\ ops = 0 /\ nid = 1
  /\ t2 = <<Def2("axis"), Def2("axis")>> /\ t1 = <<Def1("axis"), Def1("axis")>>
  /\ obs = [a |-> "none", arg |-> [x |-> 0], tgt |-> "", den |-> <<>>, exp |-> [ret |-> "ok"]]

TraceNext ==
  /\ l <= Len(TraceLog)
  /\ l' = l + 1
  /\ UNCHANGED ops
  /\ LET ev == TraceLog[l] IN
       (IF Failed(ev) THEN StepN(ev) ELSE Step(ev)) /\ Matches(ev) /\ Bump(ev)

TraceSpec == TraceInit /\ [][TraceNext]_<<vars, l>>

TraceAccepted ==
  LET n == TLCGet("stats").diameter - 1 IN
  /\ PrintT(<<"CLASSES", TLCGet(1), TLCGet(2), TLCGet(3), TLCGet(4), TLCGet(5), TLCGet(6)>>)
  /\ PrintT(<<"MATCHED", n>>)
  /\ n = Len(TraceLog)
=============================================================================
