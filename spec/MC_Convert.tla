----------------------------- MODULE MC_Convert -----------------------------
(***************************************************************************)
(* Exhaustive model-level check of Convert on scaled types: every value of *)
(* every (scaled) source type x every target x every call family, every    *)
(* string over a small alphabet up to a length bound x bases x targets.    *)
(* TLC decides  Tier 2 => Tier 1  (DesignSound), that the constructive     *)
(* result sets are accepted by Tier 1 (AllowedSound) and, for the targets  *)
(* in ConverseDsts, that Tier 1 accepts nothing else (NeighbourExact).     *)
(* The state graph is a fan: one initial state per partition, one          *)
(* successor per case.                                                     *)
(***************************************************************************)
EXTENDS Convert

CONSTANTS Apis,          \* call families for values
          TextApis, TextDsts, Bases, Alphabet, TextLen,
          ConverseDsts, ConverseSrcs

S(b) == [kind |-> "int", sg |-> 1, bits |-> b]
U(b) == [kind |-> "int", sg |-> 0, bits |-> b]
FT(p, emax) == [kind |-> "flt", p |-> p, emax |-> emax]

(* scaled: 8/16/32/64 bit -> 3/4/5/6 bit; float/double/extended keep their    *)
(* relation to the integer widths (float holds 4-bit integers exactly, double *)
(* 5-bit ones, extended all; every integer is below the largest float)        *)
ScaledTypes == [c |-> S(3), b |-> S(3), y |-> U(3), n |-> S(4), q |-> U(4), i |-> S(5), u |-> U(5),
                x |-> S(6), t |-> U(6), l |-> S(6), f |-> FT(4, 8), d |-> FT(5, 16), e |-> FT(6, 32)]
ScaledQuick == [ScaledTypes EXCEPT !.f = FT(4, 6), !.d = FT(5, 9), !.e = FT(6, 12)]
RealTypes   == [c |-> S(8), b |-> S(8), y |-> U(8), n |-> S(16), q |-> U(16), i |-> S(32), u |-> U(32),
                x |-> S(64), t |-> U(64), l |-> S(64), f |-> FT(24, 127), d |-> FT(53, 1023), e |-> FT(64, 16383)]

IntVals(T) == {IntNum(0, FromInt(k)) : k \in 0..(2^(T.bits - T.sg) - 1)}
              \cup (IF T.sg = 1 THEN {IntNum(1, FromInt(k)) : k \in 1..(2^(T.bits - 1))} ELSE {})
FinVals(T) == {Fin(s, FromInt(m), q) : s \in {0, 1}, m \in (2^(T.p - 1))..(2^T.p - 1), q \in QMin(T)..(T.emax - T.p + 1)}
              \cup {Fin(s, FromInt(m), QMin(T)) : s \in {0, 1}, m \in 0..(2^(T.p - 1) - 1)}
FltVals(T) == FinVals(T) \cup {Inf(0), Inf(1), NaN}
Vals(t)    == IF TypeTab[t].kind = "int" THEN IntVals(TypeTab[t]) ELSE FltVals(TypeTab[t])

Strings(first) == IF first = 0 THEN {<< >>}
                  ELSE UNION {{<<first>> \o s : s \in [1..n -> Alphabet]} : n \in 0..(TextLen - 1)}

MCInit ==
  \/ \E api \in Apis, src \in DOMAIN TypeTab, dst \in DOMAIN TypeTab :
       /\ (TypeTab[src].kind = "flt" /\ TypeTab[dst].kind = "int") => dst = "i"    \* unsupported alike
       /\ obs = [a |-> "init", arg |-> [kind |-> "conv", api |-> api, src |-> src, dst |-> dst], exp |-> [x |-> 0]]
  \/ \E api \in TextApis, dst \in TextDsts, base \in Bases, first \in Alphabet \cup {0} :
       /\ api # "cint" => base = 0
       /\ obs = [a |-> "init", arg |-> [kind |-> "text", api |-> api, dst |-> dst, base |-> base, first |-> first],
                 exp |-> [x |-> 0]]
MCNext ==
  /\ obs.a = "init"
  /\ IF obs.arg.kind = "conv"
     THEN \E v \in Vals(obs.arg.src) : Conv(obs.arg.api, obs.arg.src, obs.arg.dst, v)
     ELSE \E s \in Strings(obs.arg.first) : Text(obs.arg.api, obs.arg.dst, obs.arg.base, s)
MCSpec == MCInit /\ [][MCNext]_vars

(* Tier 1 accepts exactly the constructive results (floating targets) *)
NeighbourExact ==
  (obs.a = "conv" /\ obs.arg.api = "data" /\ obs.arg.dst \in ConverseDsts /\ obs.arg.src \in ConverseSrcs
     /\ obs.arg.v.k = "fin") =>
     \A w \in FinVals(TypeTab[obs.arg.dst]) :
        Same(obs.arg.dst, obs.arg.v, w) <=> (\E i \in 1..Len(obs.exp.allowed) : obs.exp.allowed[i] = Canon(w))

(* the design refuses only what cannot be represented (keeps the model honest: *)
(* a design refusing everything would satisfy DesignSound vacuously)           *)
DesignUseful ==
  (obs.a = "conv" /\ obs.arg.api = "data" /\ obs.arg.src # "l" /\ obs.exp.design.r = "refused"
     /\ (IF obs.arg.dst = "l" THEN "x" ELSE obs.arg.dst) \in DOMAIN Tests[ConverterOf("data", obs.arg.src)]
     /\ obs.arg.dst # "c") =>
        (Len(obs.exp.allowed) = 0 \/ (TypeTab[obs.arg.dst].kind = "flt" /\ obs.arg.v.k = "fin"))
TypeOK == obs.a \in {"init", "conv", "text"}

(* hand cases (independent of the type table) *)
ASSUME
  /\ IntDenote(<<32, 32, 45, 48, 120, 49, 70>>, 0) = IntNum(1, FromInt(31))   \* "  -0x1F"
  /\ IntDenote(<<48, 49, 55>>, 0) = NatNum(15)   \* "017"
  /\ IntDenote(<<49, 55>>, 8) = NatNum(15)   \* "17"
  /\ IntDenote(<<48, 57>>, 0) = None   \* "09"
  /\ IntDenote(<<48, 120>>, 0) = None   \* "0x"
  /\ IntDenote(<<48, 120>>, 16) = None   \* "0x"
  /\ IntDenote(<<48, 88, 49, 102>>, 16) = NatNum(31)   \* "0X1f"
  /\ IntDenote(<<122>>, 36) = NatNum(35)   \* "z"
  /\ IntDenote(<<43>>, 10) = None   \* "+"
  /\ IntDenote(<<>>, 10) = None   \* ""
  /\ IntDenote(<<32, 9, 43, 55>>, 0) = NatNum(7)   \* " \t+7"
  /\ IntDenote(<<49, 32>>, 10) = None   \* "1 "
  /\ IntDenote(<<45, 32, 49>>, 10) = None   \* "- 1"
  /\ IntDenote(<<48>>, 0) = NatNum(0)   \* "0"
  /\ IntDenote(<<45, 48>>, 0) = NatNum(0)   \* "-0"
  /\ IntDenote(<<49, 48, 49>>, 2) = NatNum(5)   \* "101"
  /\ IntDenote(<<48, 120, 49, 48>>, 0) = NatNum(16)   \* "0x10"
  /\ IntDenote(<<48, 120, 49, 48>>, 10) = None   \* "0x10"
  /\ IntDenote(<<52, 50, 57, 52, 57, 54, 55, 50, 57, 54>>, 10) = IntNum(0, Pow2(32))   \* "4294967296"
  /\ IntDenote(<<45, 49, 56, 52, 52, 54, 55, 52, 52, 48, 55, 51, 55, 48, 57, 53, 53, 49, 54, 49, 54>>, 10) = IntNum(1, Pow2(64))   \* "-18446744073709551616"
  /\ FloatDenote(<<49, 46, 53, 101, 49>>).k = "fin" /\ NumCmp(FloatDenote(<<49, 46, 53, 101, 49>>), Fin(0, FromInt(15), 0)) = 0   \* "1.5e1"
  /\ FloatDenote(<<46, 53>>).k = "fin" /\ NumCmp(FloatDenote(<<46, 53>>), Fin(0, One, -1)) = 0   \* ".5"
  /\ FloatDenote(<<50, 53, 101, 45, 50>>).k = "fin" /\ NumCmp(FloatDenote(<<50, 53, 101, 45, 50>>), Fin(0, One, -2)) = 0   \* "25e-2"
  /\ FloatDenote(<<48, 120, 49, 46, 56, 112, 49>>).k = "fin" /\ NumCmp(FloatDenote(<<48, 120, 49, 46, 56, 112, 49>>), Fin(0, FromInt(3), 0)) = 0   \* "0x1.8p1"
  /\ FloatDenote(<<48, 88, 46, 56>>).k = "fin" /\ NumCmp(FloatDenote(<<48, 88, 46, 56>>), Fin(0, One, -1)) = 0   \* "0X.8"
  /\ FloatDenote(<<45, 49, 101, 50>>).k = "fin" /\ NumCmp(FloatDenote(<<45, 49, 101, 50>>), Fin(1, FromInt(100), 0)) = 0   \* "-1e2"
  /\ FloatDenote(<<49, 46>>).k = "fin" /\ NumCmp(FloatDenote(<<49, 46>>), Fin(0, One, 0)) = 0   \* "1."
  /\ FloatDenote(<<32, 32, 43, 49, 50, 46, 53, 48>>).k = "fin" /\ NumCmp(FloatDenote(<<32, 32, 43, 49, 50, 46, 53, 48>>), Fin(0, FromInt(25), -1)) = 0   \* "  +12.50"
  /\ FloatDenote(<<48, 120, 49, 48, 112, 45, 52>>).k = "fin" /\ NumCmp(FloatDenote(<<48, 120, 49, 48, 112, 45, 52>>), Fin(0, One, 0)) = 0   \* "0x10p-4"
  /\ FloatDenote(<<49, 101, 43, 48, 51>>).k = "fin" /\ NumCmp(FloatDenote(<<49, 101, 43, 48, 51>>), Fin(0, FromInt(1000), 0)) = 0   \* "1e+03"
  /\ FloatDenote(<<48, 46, 48, 48, 48>>).k = "fin" /\ NumCmp(FloatDenote(<<48, 46, 48, 48, 48>>), Fin(0, Zero, 0)) = 0   \* "0.000"
  /\ FloatDenote(<<105, 110, 102>>) = Inf(0)   \* "inf"
  /\ FloatDenote(<<45, 73, 78, 70, 73, 78, 73, 84, 89>>) = Inf(1)   \* "-INFINITY"
  /\ FloatDenote(<<110, 97, 110>>) = NaN   \* "nan"
  /\ FloatDenote(<<78, 97, 78, 40, 97, 98, 95, 49, 41>>) = NaN   \* "NaN(ab_1)"
  /\ FloatDenote(<<46>>) = None   \* "."
  /\ FloatDenote(<<101, 49>>) = None   \* "e1"
  /\ FloatDenote(<<49, 101>>) = None   \* "1e"
  /\ FloatDenote(<<48, 120>>) = None   \* "0x"
  /\ FloatDenote(<<49, 46, 50, 46, 51>>) = None   \* "1.2.3"
  /\ FloatDenote(<<105, 110, 102, 120>>) = None   \* "infx"
  /\ FloatDenote(<<49, 101, 49, 50, 51, 52, 53, 54>>) = None   \* "1e123456"
  /\ FloatDenote(<<45, 45, 49>>) = None   \* "--1"
  /\ FloatDenote(<<>>) = None   \* ""

(* hand cases at the real formats (independent of TypeTab and LBits) *)
ASSUME
  /\ IntHi(RealTypes["x"]).m = FromDigits(<<9, 2, 2, 3, 3, 7, 2, 0, 3, 6, 8, 5, 4, 7, 7, 5, 8, 0, 7>>, 10) /\ IntLo(RealTypes["x"]).m = FromDigits(<<9, 2, 2, 3, 3, 7, 2, 0, 3, 6, 8, 5, 4, 7, 7, 5, 8, 0, 8>>, 10)   \* INT64_MAX / INT64_MIN
  /\ IntHi(RealTypes["t"]).m = FromDigits(<<1, 8, 4, 4, 6, 7, 4, 4, 0, 7, 3, 7, 0, 9, 5, 5, 1, 6, 1, 5>>, 10) /\ IsZero(IntLo(RealTypes["t"]).m)   \* UINT64_MAX
  /\ IntHi(RealTypes["i"]).m = FromDigits(<<2, 1, 4, 7, 4, 8, 3, 6, 4, 7>>, 10) /\ IntHi(RealTypes["u"]).m = FromDigits(<<4, 2, 9, 4, 9, 6, 7, 2, 9, 5>>, 10)
  /\ IntHi(RealTypes["n"]).m = FromInt(32767) /\ IntLo(RealTypes["n"]).m = FromInt(32768) /\ IntHi(RealTypes["q"]).m = FromDigits(<<6, 5, 5, 3, 5>>, 10)
  /\ IntHi(RealTypes["b"]).m = FromInt(127) /\ IntLo(RealTypes["c"]).m = FromInt(128) /\ IntHi(RealTypes["y"]).m = FromInt(255)
  /\ NumCmp(MaxFin(RealTypes["f"]), IntNum(0, FromDigits(<<3, 4, 0, 2, 8, 2, 3, 4, 6, 6, 3, 8, 5, 2, 8, 8, 5, 9, 8, 1, 1, 7, 0, 4, 1, 8, 3, 4, 8, 4, 5, 1, 6, 9, 2, 5, 4, 4, 0>>, 10))) = 0   \* FLT_MAX
  /\ NumCmp(MaxFin(RealTypes["d"]), Fin(0, FromDigits(<<9, 0, 0, 7, 1, 9, 9, 2, 5, 4, 7, 4, 0, 9, 9, 1>>, 10), 971)) = 0 /\ QMin(RealTypes["d"]) = -1074 /\ QMin(RealTypes["f"]) = -149 /\ QMin(RealTypes["e"]) = -16445   \* DBL_MAX, smallest subnormals
  /\ (InFormat(RealTypes["f"], Fin(0, FromDigits(<<1, 3, 4, 2, 1, 7, 7, 3>>, 10), -27)) /\ Neighbour(RealTypes["f"], FloatDenote(<<48, 46, 49>>), Fin(0, FromDigits(<<1, 3, 4, 2, 1, 7, 7, 3>>, 10), -27))) = TRUE   \* "0.1" ~ 13421773*2^-27
  /\ (InFormat(RealTypes["f"], Fin(0, FromDigits(<<1, 3, 4, 2, 1, 7, 7, 2>>, 10), -27)) /\ Neighbour(RealTypes["f"], FloatDenote(<<48, 46, 49>>), Fin(0, FromDigits(<<1, 3, 4, 2, 1, 7, 7, 2>>, 10), -27))) = TRUE   \* "0.1" ~ 13421772*2^-27
  /\ (InFormat(RealTypes["f"], Fin(0, FromDigits(<<1, 3, 4, 2, 1, 7, 7, 4>>, 10), -27)) /\ Neighbour(RealTypes["f"], FloatDenote(<<48, 46, 49>>), Fin(0, FromDigits(<<1, 3, 4, 2, 1, 7, 7, 4>>, 10), -27))) = FALSE   \* "0.1" ~ 13421774*2^-27
  /\ (InFormat(RealTypes["f"], Fin(0, FromDigits(<<1, 3, 4, 2, 1, 7, 7, 1>>, 10), -27)) /\ Neighbour(RealTypes["f"], FloatDenote(<<48, 46, 49>>), Fin(0, FromDigits(<<1, 3, 4, 2, 1, 7, 7, 1>>, 10), -27))) = FALSE   \* "0.1" ~ 13421771*2^-27
  /\ (InFormat(RealTypes["f"], Fin(0, FromDigits(<<1, 6, 7, 7, 7, 2, 1, 5>>, 10), 104)) /\ Neighbour(RealTypes["f"], FloatDenote(<<49, 101, 51, 57>>), Fin(0, FromDigits(<<1, 6, 7, 7, 7, 2, 1, 5>>, 10), 104))) = TRUE   \* "1e39" ~ 16777215*2^104
  /\ (InFormat(RealTypes["f"], Fin(0, FromDigits(<<1>>, 10), 127)) /\ Neighbour(RealTypes["f"], FloatDenote(<<49, 101, 51, 57>>), Fin(0, FromDigits(<<1>>, 10), 127))) = FALSE   \* "1e39" ~ 1*2^127
  /\ (InFormat(RealTypes["f"], Fin(0, FromDigits(<<1>>, 10), -149)) /\ Neighbour(RealTypes["f"], FloatDenote(<<49, 101, 45, 52, 54>>), Fin(0, FromDigits(<<1>>, 10), -149))) = TRUE   \* "1e-46" ~ 1*2^-149
  /\ (InFormat(RealTypes["f"], Fin(0, FromDigits(<<1>>, 10), -148)) /\ Neighbour(RealTypes["f"], FloatDenote(<<49, 101, 45, 52, 54>>), Fin(0, FromDigits(<<1>>, 10), -148))) = FALSE   \* "1e-46" ~ 1*2^-148
  /\ Neighbour(RealTypes["f"], FloatDenote(<<49, 101, 45, 52, 54>>), Fin(0, Zero, 0))   \* "1e-46" ~ 0
  /\ ~Neighbour(RealTypes["f"], FloatDenote(<<49, 101, 45, 52, 52>>), Fin(0, Zero, 0))   \* "1e-44" is above the smallest subnormal
  /\ (InFormat(RealTypes["f"], Fin(0, FromDigits(<<1>>, 10), 24)) /\ Neighbour(RealTypes["f"], FloatDenote(<<49, 54, 55, 55, 55, 50, 49, 55>>), Fin(0, FromDigits(<<1>>, 10), 24))) = TRUE   \* "16777217" ~ 1*2^24
  /\ (InFormat(RealTypes["f"], Fin(0, FromDigits(<<8, 3, 8, 8, 6, 0, 9>>, 10), 1)) /\ Neighbour(RealTypes["f"], FloatDenote(<<49, 54, 55, 55, 55, 50, 49, 55>>), Fin(0, FromDigits(<<8, 3, 8, 8, 6, 0, 9>>, 10), 1))) = TRUE   \* "16777217" ~ 8388609*2^1
  /\ (InFormat(RealTypes["f"], Fin(0, FromDigits(<<4, 1, 9, 4, 3, 0, 5>>, 10), 2)) /\ Neighbour(RealTypes["f"], FloatDenote(<<49, 54, 55, 55, 55, 50, 49, 55>>), Fin(0, FromDigits(<<4, 1, 9, 4, 3, 0, 5>>, 10), 2))) = FALSE   \* "16777217" ~ 4194305*2^2
  /\ (InFormat(RealTypes["d"], Fin(0, FromDigits(<<5, 9, 6, 0, 4, 6, 4, 4, 7, 7, 5, 3, 9, 0, 6, 2>>, 10), 24)) /\ Neighbour(RealTypes["d"], FloatDenote(<<49, 101, 50, 51>>), Fin(0, FromDigits(<<5, 9, 6, 0, 4, 6, 4, 4, 7, 7, 5, 3, 9, 0, 6, 2>>, 10), 24))) = TRUE   \* "1e23" ~ 5960464477539062*2^24
  /\ (InFormat(RealTypes["d"], Fin(0, FromDigits(<<5, 9, 6, 0, 4, 6, 4, 4, 7, 7, 5, 3, 9, 0, 6, 3>>, 10), 24)) /\ Neighbour(RealTypes["d"], FloatDenote(<<49, 101, 50, 51>>), Fin(0, FromDigits(<<5, 9, 6, 0, 4, 6, 4, 4, 7, 7, 5, 3, 9, 0, 6, 3>>, 10), 24))) = TRUE   \* "1e23" ~ 5960464477539063*2^24
  /\ (InFormat(RealTypes["d"], Fin(0, FromDigits(<<5, 9, 6, 0, 4, 6, 4, 4, 7, 7, 5, 3, 9, 0, 6, 4>>, 10), 24)) /\ Neighbour(RealTypes["d"], FloatDenote(<<49, 101, 50, 51>>), Fin(0, FromDigits(<<5, 9, 6, 0, 4, 6, 4, 4, 7, 7, 5, 3, 9, 0, 6, 4>>, 10), 24))) = FALSE   \* "1e23" ~ 5960464477539064*2^24
  /\ (InFormat(RealTypes["d"], Fin(0, FromDigits(<<9, 0, 0, 7, 1, 9, 9, 2, 5, 4, 7, 4, 0, 9, 9, 1>>, 10), 971)) /\ Neighbour(RealTypes["d"], FloatDenote(<<49, 46, 55, 57, 55, 54, 57, 51, 49, 51, 52, 56, 54, 50, 51, 49, 53, 55, 101, 51, 48, 56>>), Fin(0, FromDigits(<<9, 0, 0, 7, 1, 9, 9, 2, 5, 4, 7, 4, 0, 9, 9, 1>>, 10), 971))) = TRUE   \* "1.7976931348623157e308" ~ 9007199254740991*2^971
  /\ (InFormat(RealTypes["d"], Fin(0, FromDigits(<<9, 0, 0, 7, 1, 9, 9, 2, 5, 4, 7, 4, 0, 9, 9, 1>>, 10), 971)) /\ Neighbour(RealTypes["d"], FloatDenote(<<49, 46, 56, 101, 51, 48, 56>>), Fin(0, FromDigits(<<9, 0, 0, 7, 1, 9, 9, 2, 5, 4, 7, 4, 0, 9, 9, 1>>, 10), 971))) = TRUE   \* "1.8e308" ~ 9007199254740991*2^971
  /\ (InFormat(RealTypes["d"], Fin(0, FromDigits(<<9, 0, 0, 7, 1, 9, 9, 2, 5, 4, 7, 4, 0, 9, 9, 0>>, 10), 971)) /\ Neighbour(RealTypes["d"], FloatDenote(<<49, 46, 56, 101, 51, 48, 56>>), Fin(0, FromDigits(<<9, 0, 0, 7, 1, 9, 9, 2, 5, 4, 7, 4, 0, 9, 9, 0>>, 10), 971))) = FALSE   \* "1.8e308" ~ 9007199254740990*2^971
  /\ (InFormat(RealTypes["d"], Fin(0, FromDigits(<<1>>, 10), -1074)) /\ Neighbour(RealTypes["d"], FloatDenote(<<52, 46, 57, 101, 45, 51, 50, 52>>), Fin(0, FromDigits(<<1>>, 10), -1074))) = TRUE   \* "4.9e-324" ~ 1*2^-1074
  /\ (InFormat(RealTypes["d"], Fin(0, FromDigits(<<1>>, 10), -1)) /\ Neighbour(RealTypes["d"], FloatDenote(<<48, 46, 53>>), Fin(0, FromDigits(<<1>>, 10), -1))) = TRUE   \* "0.5" ~ 1*2^-1
  /\ (InFormat(RealTypes["d"], Fin(0, FromDigits(<<4, 5, 0, 3, 5, 9, 9, 6, 2, 7, 3, 7, 0, 4, 9, 7>>, 10), -53)) /\ Neighbour(RealTypes["d"], FloatDenote(<<48, 46, 53>>), Fin(0, FromDigits(<<4, 5, 0, 3, 5, 9, 9, 6, 2, 7, 3, 7, 0, 4, 9, 7>>, 10), -53))) = FALSE   \* "0.5" ~ 4503599627370497*2^-53
  /\ ~Neighbour(RealTypes["d"], FloatDenote(<<48, 46, 53>>), Fin(1, One, -1))   \* sign
  /\ Neighbour(RealTypes["f"], Neg(FloatDenote(<<48, 46, 49>>)), Fin(1, FromDigits(<<1, 3, 4, 2, 1, 7, 7, 3>>, 10), -27))
=============================================================================
