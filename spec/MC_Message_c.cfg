SPECIFICATION Spec
CONSTANTS
  Alphabet = {10, 32, 35, 97}
  MaxLen = 4
  MaxFrag = 3
  MaxDst = 0
  MaxDstFrag = 1
  MaxQ = 0
  Ops = {"read", "argv", "arrmsg", "memtok"}
  EmptyBases = {"slice"}
  ForeignBytes = {10}
  ArrKinds = {"exact", "shared", "roomy"}
  MaxFail = 4
VIEW View
INVARIANTS TypeOK Refines
PROPERTIES DesignAgrees Normalised OnceAgrees
CHECK_DEADLOCK FALSE
