------------------------------ MODULE NodeTree ------------------------------
(***************************************************************************)
(* Node trees of mptcore/node (property C14).                              *)
(*                                                                         *)
(* Tier 1 (meaning):  fo = [kids, tops] -- an ordered forest: kids[n] is   *)
(*                    the sequence of children of n, tops the set of       *)
(*                    top-level sibling lists (nodes without parent).      *)
(* Tier 2 (design):   hp = [nx, pv, pa, ch] -- the four links of           *)
(*                    struct node {next, prev, parent, children}; the      *)
(*                    pointer operators below are written statement by     *)
(*                    statement after gnode_after.c, gnode_before.c,       *)
(*                    node_unlink.c, node_insert.c, node_move.c ...        *)
(* Node ids are handles of the caller (the driver keeps a pointer table);  *)
(* a new node always gets the smallest unused id, clones in pre-order.     *)
(* obs = what the last call was given (arg) and what must be seen after it *)
(* (exp): the answer, all four links of every live node, names, values,    *)
(* the nodes released by the call and the number of live value objects.    *)
(* obs.t1 is the Tier-1 answer of the same call (QueryAgree: t1 = ret).    *)
(***************************************************************************)
EXTENDS Integers, Sequences, FiniteSets, TLC

CONSTANTS MaxNodes,  \* size of the handle table
          Kinds,     \* kinds of new nodes: <<name, value payload>> (0 = no value object)
          Pos,       \* position arguments offered
          Keys       \* names searched for

VARIABLES live,      \* allocated handles
          hp,        \* Tier 2: link structure
          name, val, \* node name, value payload (0 = no value object)
          fo,        \* Tier 1: ordered forest
          obs
vars == <<live, hp, name, val, fo, obs>>

Ids == 1..MaxNodes
Zero == [n \in Ids |-> 0]

---------------------------------------------------------------------------
(* sequences *)
Range(s) == {s[i] : i \in 1..Len(s)}
InSeq(x, s) == \E i \in 1..Len(s) : s[i] = x
IndexOf(s, x) == CHOOSE i \in 1..Len(s) : s[i] = x
InsAt(s, i, x) == SubSeq(s, 1, i - 1) \o <<x>> \o SubSeq(s, i, Len(s))  \* x becomes element i
Without(s, x) == SelectSeq(s, LAMBDA y : y # x)
From(s, i) == SubSeq(s, i, Len(s))
MinOf(S) == CHOOSE x \in S : \A y \in S : x <= y
RECURSIVE Flat(_)
Flat(ss) == IF ss = <<>> THEN <<>> ELSE ss[1] \o Flat(SubSeq(ss, 2, Len(ss)))
RECURSIVE SortedSeq(_)
SortedSeq(S) == IF S = {} THEN <<>> ELSE LET m == MinOf(S) IN <<m>> \o SortedSeq(S \ {m})
\* indices (ascending) of the elements of s named key
MatchIdx(s, key) == SortedSeq({i \in 1..Len(s) : name[s[i]] = key})
Rev(s) == [i \in 1..Len(s) |-> s[Len(s) + 1 - i]]

---------------------------------------------------------------------------
(* Tier 2: pointer walks and the list primitives of the library            *)
RECURSIVE Fwd(_, _)
Fwd(h, n) == IF n = 0 THEN <<>> ELSE <<n>> \o Fwd(h, h.nx[n])
RECURSIVE Bwd(_, _)
Bwd(h, n) == IF n = 0 THEN <<>> ELSE <<n>> \o Bwd(h, h.pv[n])

\* mpt_gnode_pos(node, pos): 0 = last, <0 = nth predecessor, >0 = nth starting at node
GPos(h, n, pos) ==
  IF pos < 0 THEN LET b == Bwd(h, n) IN IF Len(b) > -pos THEN b[1 - pos] ELSE 0
  ELSE IF pos > 0 THEN LET f == Fwd(h, n) IN IF Len(f) >= pos THEN f[pos] ELSE 0
  ELSE LET f == Fwd(h, n) IN f[Len(f)]

\* mpt_node_locate(curr, pos, key): same, counting only nodes named key
Named(s, key) == SelectSeq(s, LAMBDA x : name[x] = key)
Locate(h, c, pos, key) ==
  IF pos = 0 THEN LET f == Fwd(h, c) m == Named(Bwd(h, f[Len(f)]), key)
                  IN IF m = <<>> THEN 0 ELSE m[1]
  ELSE IF pos < 0 THEN LET m == Named(Bwd(h, h.pv[c]), key)
                       IN IF Len(m) >= -pos THEN m[-pos] ELSE 0
  ELSE LET m == Named(Fwd(h, c), key) IN IF Len(m) >= pos THEN m[pos] ELSE 0

\* mpt_gnode_after(position, insert)
After(h, p, i) ==
  IF p = 0 \/ p = i THEN h
  ELSE LET n  == h.nx[p]
           h1 == [h EXCEPT !.pv[i] = p, !.nx[i] = n, !.nx[p] = i, !.pa[i] = h.pa[p]]
       IN IF n # 0 THEN [h1 EXCEPT !.pv[n] = i] ELSE h1

\* mpt_gnode_before(position, insert)
Before(h, p, i) ==
  IF p = 0 \/ p = i THEN h
  ELSE LET q  == h.pv[p]
           h1 == [h EXCEPT !.pv[i] = q, !.nx[i] = p, !.pv[p] = i, !.pa[i] = h.pa[p]]
       IN IF q # 0 THEN [h1 EXCEPT !.nx[q] = i]
          ELSE IF h.pa[p] # 0 THEN [h1 EXCEPT !.ch[h.pa[p]] = i] ELSE h1

\* mpt_node_unlink(curr)
Unlink(h, c) ==
  LET n  == h.nx[c]
      p  == h.pv[c]
      h1 == IF n # 0 THEN [h EXCEPT !.pv[n] = p] ELSE h
      h2 == IF p # 0 THEN [h1 EXCEPT !.nx[p] = n]
            ELSE IF h.pa[c] # 0 THEN [h1 EXCEPT !.ch[h.pa[c]] = n] ELSE h1
  IN [h2 EXCEPT !.pa[c] = 0, !.nx[c] = 0, !.pv[c] = 0]

\* static node_insert(first, pos, node, getnode) of node_insert.c
NodeInsert(h, first, pos, node, Get(_, _, _)) ==
  LET start == Get(h, first, IF pos > 0 THEN 1 ELSE 0)
      tmp0  == IF start = 0 \/ pos = 0 \/ pos = 1 THEN start ELSE Get(h, start, pos)
      tmp   == IF tmp0 # 0 THEN tmp0
               ELSE IF start # 0 THEN Get(h, first, IF pos < 0 THEN 1 ELSE 0)
               ELSE GPos(h, first, 0)
      p2    == IF tmp0 # 0 THEN pos ELSE IF start # 0 THEN -pos ELSE 0
  IN IF p2 < 1 THEN After(h, tmp, node) ELSE Before(h, tmp, node)

ByPos(h, first, pos, node)  == NodeInsert(h, first, pos, node, GPos)
ByName(h, first, pos, node) == NodeInsert(h, first, pos, node, LAMBDA hh, c, p : Locate(hh, c, p, name[node]))

ZeroH(h, S) == [nx |-> [n \in Ids |-> IF n \in S THEN 0 ELSE h.nx[n]],
                pv |-> [n \in Ids |-> IF n \in S THEN 0 ELSE h.pv[n]],
                pa |-> [n \in Ids |-> IF n \in S THEN 0 ELSE h.pa[n]],
                ch |-> [n \in Ids |-> IF n \in S THEN 0 ELSE h.ch[n]]]

\* mpt_node_move(&from, dst): nodes of the source list whose name is not
\* present in the target list (from dst on) are appended to it; for names
\* present in both the children are merged the same way, or handed over
\* when the target node has none.  Result: the links and the caller's
\* list head (*from).
Reparent(h, src, curr) ==
  LET cs == Range(Fwd(h, h.ch[src])) IN
  [h EXCEPT !.ch = [@ EXCEPT ![curr] = h.ch[src], ![src] = 0],
            !.pa = [n \in Ids |-> IF n \in cs THEN curr ELSE h.pa[n]]]
RECURSIVE MoveH(_, _, _, _, _)
MoveH(h, src, dst, last, from) ==
  IF src = 0 THEN [h |-> h, from |-> from]
  ELSE LET curr == Locate(h, dst, 1, name[src]) IN
       IF curr = 0
       THEN LET nsrc == h.nx[src]
                h2   == ByPos(Unlink(h, src), last, 0, src)
            IN MoveH(h2, nsrc, dst, src, IF from = src THEN nsrc ELSE from)
       ELSE LET h1 == IF h.ch[src] = 0 THEN h
                      ELSE IF h.ch[curr] # 0
                      THEN MoveH(h, h.ch[src], h.ch[curr], h.ch[curr], h.ch[src]).h
                      ELSE Reparent(h, src, curr)
            IN MoveH(h1, h1.nx[src], dst, last, from)

\* mpt_gnode_relink(node): parent and prev of all descendants restored from
\* the children/next links
RECURSIVE RelinkList(_, _, _, _)
RelinkList(h, c, q, p) ==
  IF c = 0 THEN h
  ELSE LET h1 == [h EXCEPT !.pa[c] = p, !.pv[c] = q]
           h2 == RelinkList(h1, h1.ch[c], 0, c)
       IN RelinkList(h2, h2.nx[c], c, p)
RelinkH(h, n) == RelinkList(h, h.ch[n], 0, n)

---------------------------------------------------------------------------
(* Tier 1: ordered forest *)
OwnerOf(f, n) == IF \E p \in Ids : InSeq(n, f.kids[p])
                 THEN CHOOSE p \in Ids : InSeq(n, f.kids[p]) ELSE 0
ListOf(f, n) == IF OwnerOf(f, n) # 0 THEN f.kids[OwnerOf(f, n)]
                ELSE CHOOSE s \in f.tops : InSeq(n, s)
\* the sibling list that contains n becomes new
SetListOf(f, n, new) ==
  LET p == OwnerOf(f, n) IN
  IF p # 0 THEN [f EXCEPT !.kids[p] = new]
  ELSE [f EXCEPT !.tops = (@ \ {ListOf(f, n)}) \cup (IF new = <<>> THEN {} ELSE {new})]
\* n leaves its list and is a list of its own
Detach(f, n) ==
  LET f1 == SetListOf(f, n, Without(ListOf(f, n), n)) IN [f1 EXCEPT !.tops = @ \cup {<<n>>}]
\* the isolated n enters the list of anchor as element idx
Attach(f, anchor, idx, n) ==
  LET f1 == [f EXCEPT !.tops = @ \ {<<n>>}] IN SetListOf(f1, anchor, InsAt(ListOf(f1, anchor), idx, n))
AttachChild(f, p, idx, n) == [f EXCEPT !.tops = @ \ {<<n>>}, !.kids[p] = InsAt(@, idx, n)]

RECURSIVE SubT(_, _)
SubT(f, n) == {n} \cup UNION {SubT(f, f.kids[n][i]) : i \in 1..Len(f.kids[n])}
RECURSIVE PreT(_, _)
PreT(f, n) == <<n>> \o Flat([i \in 1..Len(f.kids[n]) |-> PreT(f, f.kids[n][i])])
PreL(f, s) == Flat([i \in 1..Len(s) |-> PreT(f, s[i])])
RECURSIVE PostT(_, _)
PostT(f, n) == Flat([i \in 1..Len(f.kids[n]) |-> PostT(f, f.kids[n][i])]) \o <<n>>
RECURSIVE InT(_, _)
InT(f, n) == IF f.kids[n] = <<>> THEN <<n>>
             ELSE InT(f, f.kids[n][1]) \o <<n>> \o Flat([i \in 1..(Len(f.kids[n]) - 1) |-> InT(f, f.kids[n][i + 1])])
RECURSIVE RootOf(_, _)
RootOf(f, n) == IF OwnerOf(f, n) = 0 THEN n ELSE RootOf(f, OwnerOf(f, n))
TopList(f, n) == ListOf(f, RootOf(f, n))

\* index at which a node enters a list of length m when added "by position"
\* relative to the element with index fi (documented in gnode_pos.c):
\* 0 = last, k>0 = k-th counting the reference as 1, k<0 = before the last |k|
GIdx(m, fi, pos) ==
  IF pos = 0 THEN m + 1
  ELSE IF pos > 0 THEN (IF fi + pos - 1 <= m THEN fi + pos - 1 ELSE m + 1)
  ELSE IF m + pos >= 1 THEN m + pos + 1 ELSE fi
\* ... "by name": the same counting restricted to the nodes of that name;
\* without any such node the new one goes last.  0 = not inserted.
NIdx(L, fi, pos, key) ==
  LET S == MatchIdx(L, key)
      T == SelectSeq(S, LAMBDA i : i >= fi)
      s == Len(S)
      m == Len(L)
  IN IF pos <= 0
     THEN IF s = 0 THEN m + 1
          ELSE IF pos = 0 THEN S[s] + 1
          ELSE IF s + pos >= 1 THEN S[s + pos] + 1
          ELSE IF T = <<>> THEN 0 ELSE T[1]
     ELSE IF T = <<>> THEN m + 1
          ELSE IF pos <= Len(T) THEN T[pos]
          ELSE S[s] + 1

\* merge of node_move on the forest
RECURSIVE MoveT(_, _, _)
MoveT(f, rest, dst) ==
  IF rest = <<>> THEN f
  ELSE LET s    == rest[1]
           L    == ListOf(f, dst)
           cand == {i \in IndexOf(L, dst)..Len(L) : name[L[i]] = name[s]}
       IN IF cand = {}
          THEN LET f1 == Detach(f, s)
               IN MoveT(Attach(f1, dst, Len(ListOf(f1, dst)) + 1, s), From(rest, 2), dst)
          ELSE LET c  == L[MinOf(cand)]
                   f1 == IF f.kids[s] = <<>> THEN f
                         ELSE IF f.kids[c] # <<>> THEN MoveT(f, f.kids[s], f.kids[c][1])
                         ELSE [f EXCEPT !.kids[c] = f.kids[s], !.kids[s] = <<>>]
               IN MoveT(f1, From(rest, 2), dst)

RECURSIVE Shape(_, _, _, _)
Shape(f, nm, vl, n) == <<nm[n], vl[n], [i \in 1..Len(f.kids[n]) |-> Shape(f, nm, vl, f.kids[n][i])]>>

---------------------------------------------------------------------------
(* refinement mapping and well-formedness *)
AbsKids(h) == [n \in Ids |-> Fwd(h, h.ch[n])]
AbsTops(h, lv) == {Fwd(h, n) : n \in {m \in lv : h.pv[m] = 0 /\ h.pa[m] = 0}}

\* k-fold image under a link (no recursion along possibly cyclic links)
RECURSIVE Iter(_, _, _)
Iter(fn, n, k) == IF k = 0 \/ n = 0 THEN n ELSE Iter(fn, fn[n], k - 1)
Cyclic(fn, n) == \E k \in 1..MaxNodes : Iter(fn, n, k) = n

WellFormedH(h, lv) ==
  /\ \A n \in Ids \ lv : h.nx[n] = 0 /\ h.pv[n] = 0 /\ h.pa[n] = 0 /\ h.ch[n] = 0
  /\ \A n \in lv :
       /\ h.nx[n] \in lv \cup {0} /\ h.pv[n] \in lv \cup {0}
       /\ h.pa[n] \in lv \cup {0} /\ h.ch[n] \in lv \cup {0}
       \* forward and backward links agree, siblings share the parent
       /\ h.nx[n] # 0 => h.pv[h.nx[n]] = n /\ h.pa[h.nx[n]] = h.pa[n]
       /\ h.pv[n] # 0 => h.nx[h.pv[n]] = n
       \* the first-child link is the head of a list whose members name the parent
       /\ h.ch[n] # 0 => h.pa[h.ch[n]] = n /\ h.pv[h.ch[n]] = 0
       /\ (h.pa[n] # 0 /\ h.pv[n] = 0) => h.ch[h.pa[n]] = n
       \* no cycles along next or parent
       /\ ~Cyclic(h.nx, n) /\ ~Cyclic(h.pa, n)
WellFormed == WellFormedH(hp, live)

\* every live node occurs exactly once in the forest
Occurrences(n) == Cardinality({p \in Ids : InSeq(n, fo.kids[p])})
                  + Cardinality({s \in fo.tops : InSeq(n, s)})
OnceInForest ==
  /\ \A n \in live : Occurrences(n) = 1
  /\ \A n \in Ids \ live : Occurrences(n) = 0 /\ fo.kids[n] = <<>>
  /\ \A p \in Ids : \A i, j \in 1..Len(fo.kids[p]) : fo.kids[p][i] = fo.kids[p][j] => i = j
  /\ \A s \in fo.tops : s # <<>> /\ \A i, j \in 1..Len(s) : s[i] = s[j] => i = j

Refines == fo.kids = AbsKids(hp) /\ fo.tops = AbsTops(hp, live)

TypeOK ==
  /\ live \subseteq Ids
  /\ \A n \in Ids \ live : name[n] = "" /\ val[n] = 0

---------------------------------------------------------------------------
(* observation *)
Links(h, lv) == [n \in Ids |-> IF n \in lv THEN <<h.nx[n], h.pv[n], h.pa[n], h.ch[n]>> ELSE <<>>]
Ans(a, arg, ret, freed, t1) ==
  obs' = [a |-> a, arg |-> arg, t1 |-> t1,
          exp |-> [ret |-> ret, freed |-> freed, links |-> Links(hp', live'),
                   names |-> name', vals |-> val',
                   metas |-> Cardinality({n \in live' : val'[n] # 0})]]

FreeIds == Ids \ live
Isolated(n) == hp.nx[n] = 0 /\ hp.pv[n] = 0 /\ hp.pa[n] = 0
\* the caller may link n (a single unlinked root) next to / below target
CanAttach(n, target) == n \in live /\ target \in live /\ Isolated(n) /\ target \notin SubT(fo, n)
\* ... or (after/before) next to nothing or itself, where the call does nothing
CanBeside(p, n) == n \in live /\ Isolated(n) /\ (p = 0 \/ p = n \/ CanAttach(n, p))
\* source and target list of a move belong to different trees
CanMove(s, d) == s \in live /\ d \in live /\ TopList(fo, s) # TopList(fo, d)
\* children are exchanged between nodes none of which is below the other
CanSwap(a, b) == a \in live /\ b \in live /\ (a = b \/ (a \notin SubT(fo, b) /\ b \notin SubT(fo, a)))
\* the nodes a clone call copies, in pre-order; the handle table must have room
CloneSrc(a, n) == IF a = "clonenode" THEN <<n>>
                  ELSE IF a = "clonetree" THEN PreT(fo, n)
                  ELSE LET L == ListOf(fo, n) IN PreL(fo, From(L, IndexOf(L, n)))
CanClone(a, n) == n \in live /\ Cardinality(FreeIds) >= Len(CloneSrc(a, n))

---------------------------------------------------------------------------
(* actions: one per public call *)

\* mpt_node_new + mpt_identifier_set (+ value object)
New(k) ==
  /\ FreeIds # {}
  /\ LET id == MinOf(FreeIds) v == k[2] IN
     /\ live' = live \cup {id}
     /\ name' = [name EXCEPT ![id] = k[1]] /\ val' = [val EXCEPT ![id] = v]
     /\ fo' = [fo EXCEPT !.tops = @ \cup {<<id>>}]
     /\ UNCHANGED hp
     /\ Ans("new", [name |-> k[1], val |-> v], id, <<>>, id)

\* mpt_gnode_insert(parent, pos, node)
GInsert(p, pos, n) ==
  /\ CanAttach(n, p)
  /\ hp' = IF hp.ch[p] = 0 THEN [hp EXCEPT !.ch[p] = n, !.pa[n] = p]
           ELSE ByPos(hp, hp.ch[p], pos, n)
  /\ fo' = AttachChild(fo, p, GIdx(Len(fo.kids[p]), 1, pos), n)
  /\ UNCHANGED <<live, name, val>>
  /\ Ans("ginsert", [p |-> p, pos |-> pos, n |-> n], "ok", <<>>, "ok")

\* mpt_node_insert(parent, pos, node)
NInsert(p, pos, n) ==
  /\ CanAttach(n, p)
  /\ hp' = IF hp.ch[p] = 0 THEN [hp EXCEPT !.ch[p] = n, !.pa[n] = p]
           ELSE ByName(hp, hp.ch[p], pos, n)
  /\ fo' = AttachChild(fo, p, NIdx(fo.kids[p], 1, pos, name[n]), n)
  /\ UNCHANGED <<live, name, val>>
  /\ Ans("ninsert", [p |-> p, pos |-> pos, n |-> n], "ok", <<>>, "ok")

\* mpt_gnode_add(first, pos, node)
GAdd(first, pos, n) ==
  /\ CanAttach(n, first)
  /\ hp' = ByPos(hp, first, pos, n)
  /\ LET L == ListOf(fo, first) IN
       fo' = Attach(fo, first, GIdx(Len(L), IndexOf(L, first), pos), n)
  /\ UNCHANGED <<live, name, val>>
  /\ Ans("gadd", [first |-> first, pos |-> pos, n |-> n], n, <<>>, n)

\* mpt_node_add(first, pos, node)
NAdd(first, pos, n) ==
  /\ CanAttach(n, first)
  /\ hp' = ByName(hp, first, pos, n)
  /\ LET L == ListOf(fo, first) idx == NIdx(L, IndexOf(L, first), pos, name[n]) IN
       fo' = IF idx = 0 THEN fo ELSE Attach(fo, first, idx, n)
  /\ UNCHANGED <<live, name, val>>
  /\ Ans("nadd", [first |-> first, pos |-> pos, n |-> n], n, <<>>, n)

\* mpt_gnode_after(position, node) / mpt_gnode_before(position, node);
\* position may be null or the node itself (nothing happens)
GAfter(p, n) ==
  /\ CanBeside(p, n)
  /\ hp' = After(hp, p, n)
  /\ fo' = IF p = 0 \/ p = n THEN fo
           ELSE LET L == ListOf(fo, p) IN Attach(fo, p, IndexOf(L, p) + 1, n)
  /\ UNCHANGED <<live, name, val>>
  /\ Ans("after", [p |-> p, n |-> n], n, <<>>, n)
GBefore(p, n) ==
  /\ CanBeside(p, n)
  /\ hp' = Before(hp, p, n)
  /\ fo' = IF p = 0 \/ p = n THEN fo
           ELSE LET L == ListOf(fo, p) IN Attach(fo, p, IndexOf(L, p), n)
  /\ UNCHANGED <<live, name, val>>
  /\ Ans("before", [p |-> p, n |-> n], n, <<>>, n)

\* mpt_node_unlink(node): answers the former successor
NUnlink(n) ==
  /\ n \in live
  /\ hp' = Unlink(hp, n)
  /\ fo' = Detach(fo, n)
  /\ UNCHANGED <<live, name, val>>
  /\ LET L == ListOf(fo, n) i == IndexOf(L, n) IN
       Ans("unlink", [n |-> n], hp.nx[n], <<>>, IF i < Len(L) THEN L[i + 1] ELSE 0)

Release(S) ==
  /\ live' = live \ S
  /\ name' = [n \in Ids |-> IF n \in S THEN "" ELSE name[n]]
  /\ val' = [n \in Ids |-> IF n \in S THEN 0 ELSE val[n]]

\* mpt_node_destroy(node): refused (node answered) while the node is linked,
\* else the node and everything below it is released
Destroy(n) ==
  /\ n \in live
  /\ IF ~Isolated(n)
     THEN /\ UNCHANGED <<live, hp, name, val, fo>>
          /\ Ans("destroy", [n |-> n], n, <<>>, n)
     ELSE LET S == SubT(fo, n) IN
          /\ Release(S)
          /\ hp' = ZeroH(hp, S)
          /\ fo' = [kids |-> [m \in Ids |-> IF m \in S THEN <<>> ELSE fo.kids[m]],
                    tops |-> fo.tops \ {<<n>>}]
          /\ Ans("destroy", [n |-> n], 0, SortedSeq(S), 0)

\* mpt_node_clear(node): everything below the node is released
Clear(n) ==
  /\ n \in live
  /\ LET S == SubT(fo, n) \ {n} IN
     /\ Release(S)
     /\ hp' = [ZeroH(hp, S) EXCEPT !.ch[n] = 0]
     /\ fo' = [fo EXCEPT !.kids = [m \in Ids |-> IF m \in S \cup {n} THEN <<>> ELSE fo.kids[m]]]
     /\ Ans("clear", [n |-> n], "ok", SortedSeq(S), "ok")

\* mpt_node_clone / mpt_tree_clone / mpt_list_clone: src = the cloned nodes in
\* pre-order, roots = the top list of the copy.  Links leaving the cloned
\* region are null in the copy.
CloneOf(a, n, src, roots) ==
  /\ CanClone(a, n)
  /\ LET ids  == SubSeq(SortedSeq(FreeIds), 1, Len(src))
         M(x) == IF x = 0 \/ ~InSeq(x, src) THEN 0 ELSE ids[IndexOf(src, x)]
         S(i) == src[IndexOf(ids, i)]
         new  == Range(ids)
     IN
     /\ live' = live \cup new
     /\ name' = [i \in Ids |-> IF i \in new THEN name[S(i)] ELSE name[i]]
     /\ val'  = [i \in Ids |-> IF i \in new THEN val[S(i)] ELSE val[i]]
     /\ hp' = [nx |-> [i \in Ids |-> IF i \in new THEN M(hp.nx[S(i)]) ELSE hp.nx[i]],
               pv |-> [i \in Ids |-> IF i \in new THEN M(hp.pv[S(i)]) ELSE hp.pv[i]],
               pa |-> [i \in Ids |-> IF i \in new THEN M(hp.pa[S(i)]) ELSE hp.pa[i]],
               ch |-> [i \in Ids |-> IF i \in new THEN M(hp.ch[S(i)]) ELSE hp.ch[i]]]
     /\ fo' = [kids |-> [i \in Ids |-> IF i \in new
                           THEN LET ks == SelectSeq(fo.kids[S(i)], LAMBDA c : InSeq(c, src))
                                IN [j \in 1..Len(ks) |-> M(ks[j])]
                           ELSE fo.kids[i]],
               tops |-> fo.tops \cup {[j \in 1..Len(roots) |-> M(roots[j])]}]
     /\ Ans(a, [n |-> n], M(n), <<>>, M(n))

CloneNode(n) == n \in live /\ CloneOf("clonenode", n, CloneSrc("clonenode", n), <<n>>)
CloneTree(n) == n \in live /\ CloneOf("clonetree", n, CloneSrc("clonetree", n), <<n>>)
CloneList(n) == n \in live /\ LET L == ListOf(fo, n)
                              IN CloneOf("clonelist", n, CloneSrc("clonelist", n), From(L, IndexOf(L, n)))

\* A clone call during which an allocation fails (the failat-th node block or
\* name buffer, or the failmeta-th value object): nothing is made, nothing of
\* the half-made copy stays allocated (grow = 0), the source is untouched.
CloneKinds == {"clonenode", "clonetree", "clonelist"}
ValuedIn(src) == Cardinality({i \in 1..Len(src) : val[src[i]] # 0})
CloneFail(kind, n, failat, failmeta) ==
  /\ CanClone(kind, n)
  /\ UNCHANGED <<live, hp, name, val, fo>>
  /\ obs' = [a |-> "clonefail", arg |-> [kind |-> kind, n |-> n, failat |-> failat, failmeta |-> failmeta], t1 |-> 0,
             exp |-> [ret |-> 0, freed |-> <<>>, links |-> Links(hp, live), names |-> name, vals |-> val,
                      metas |-> Cardinality({m \in live : val[m] # 0}), grow |-> 0, fired |-> 1]]

\* mpt_node_move(&from, dst); the two lists belong to different trees
Move(s, d) ==
  /\ CanMove(s, d)
  /\ LET r    == MoveH(hp, s, d, d, s)
         L    == ListOf(fo, s)
         rest == From(L, IndexOf(L, s))
         f2   == MoveT(fo, rest, d)
         stay == SelectSeq(rest, LAMBDA x : ~InSeq(x, ListOf(f2, d)))
     IN
     /\ hp' = r.h /\ fo' = f2
     /\ UNCHANGED <<live, name, val>>
     /\ Ans("move", [s |-> s, d |-> d], r.from, <<>>, IF stay = <<>> THEN 0 ELSE stay[1])

\* mpt_gnode_swap(a, b): exchange the children
Swap(a, b) ==
  /\ CanSwap(a, b)
  /\ LET ca == Range(Fwd(hp, hp.ch[a])) cb == Range(Fwd(hp, hp.ch[b])) IN
     hp' = [hp EXCEPT !.ch = [@ EXCEPT ![b] = hp.ch[a], ![a] = hp.ch[b]],
                      !.pa = [n \in Ids |-> IF n \in cb THEN a ELSE IF n \in ca THEN b ELSE hp.pa[n]]]
  /\ fo' = [fo EXCEPT !.kids = [@ EXCEPT ![b] = fo.kids[a], ![a] = fo.kids[b]]]
  /\ UNCHANGED <<live, name, val>>
  /\ Ans("swap", [a |-> a, b |-> b], "ok", <<>>, "ok")

\* mpt_gnode_relink(node) after the caller has chained nodes by hand: the
\* driver clears parent and prev of everything below the node first
Relink(n) ==
  /\ n \in live
  /\ LET S  == SubT(fo, n) \ {n}
         h0 == [hp EXCEPT !.pv = [m \in Ids |-> IF m \in S THEN 0 ELSE hp.pv[m]],
                          !.pa = [m \in Ids |-> IF m \in S THEN 0 ELSE hp.pa[m]]]
     IN hp' = RelinkH(h0, n)
  /\ UNCHANGED <<live, name, val, fo>>
  /\ Ans("relink", [n |-> n], "ok", <<>>, "ok")

(* queries *)
Same == UNCHANGED <<live, hp, name, val, fo>>
ElemOr0(s, i) == IF i >= 1 /\ i <= Len(s) THEN s[i] ELSE 0

\* Each query is a pair: ret = the pointer walk of the library function
\* (Tier 2), t1 = the same question asked of the forest (Tier 1).

\* mpt_gnode_pos(node, pos)
PosA(n, pos) ==
  LET L == ListOf(fo, n) fi == IndexOf(L, n) IN
  [ret |-> GPos(hp, n, pos),
   t1  |-> IF pos = 0 THEN L[Len(L)] ELSE IF pos > 0 THEN ElemOr0(L, fi + pos - 1) ELSE ElemOr0(L, fi + pos)]
PosQ(n, pos) ==
  /\ n \in live /\ Same
  /\ Ans("pos", [n |-> n, pos |-> pos], PosA(n, pos).ret, <<>>, PosA(n, pos).t1)

\* mpt_node_locate(node, pos, key)
LocA(n, pos, key) ==
  LET L  == ListOf(fo, n)
      fi == IndexOf(L, n)
      S  == MatchIdx(L, key)
      T  == SelectSeq(S, LAMBDA i : i >= fi)
      U  == Rev(SelectSeq(S, LAMBDA i : i < fi))
  IN [ret |-> Locate(hp, n, pos, key),
      t1  |-> IF pos = 0 THEN (IF S = <<>> THEN 0 ELSE L[S[Len(S)]])
              ELSE IF pos > 0 THEN (IF pos <= Len(T) THEN L[T[pos]] ELSE 0)
              ELSE (IF -pos <= Len(U) THEN L[U[-pos]] ELSE 0)]
LocQ(n, pos, key) ==
  /\ n \in live /\ Same
  /\ Ans("locate", [n |-> n, pos |-> pos, key |-> key], LocA(n, pos, key).ret, <<>>, LocA(n, pos, key).t1)

\* mpt_node_find(parent, key, pos): pos-th child of that name; 0 = the last,
\* -k = the k-th before the last
FindA(p, key, pos) ==
  LET c  == hp.ch[p]
      t  == IF c = 0 THEN 0 ELSE Locate(hp, c, 0, key)
      S  == MatchIdx(fo.kids[p], key)
      i  == IF pos > 0 THEN pos ELSE Len(S) + pos
  IN [ret |-> IF c = 0 THEN 0
              ELSE IF pos >= 0 THEN Locate(hp, c, pos, key)
              ELSE IF t = 0 THEN 0 ELSE Locate(hp, t, pos, key),
      t1  |-> IF i >= 1 /\ i <= Len(S) THEN fo.kids[p][S[i]] ELSE 0]
FindQ(p, key, pos) ==
  /\ p \in live /\ Same
  /\ Ans("find", [p |-> p, key |-> key, pos |-> pos], FindA(p, key, pos).ret, <<>>, FindA(p, key, pos).t1)

\* mpt_node_next(node, key): first node of that name from node on
NextA(n, key) ==
  LET L == ListOf(fo, n)
      T == SelectSeq(MatchIdx(L, key), LAMBDA i : i >= IndexOf(L, n))
  IN [ret |-> Locate(hp, n, 1, key), t1 |-> IF T = <<>> THEN 0 ELSE L[T[1]]]
NextQ(n, key) ==
  /\ n \in live /\ Same
  /\ Ans("next", [n |-> n, key |-> key], NextA(n, key).ret, <<>>, NextA(n, key).t1)

\* mpt_gnode_traverse(node, order): node and its following siblings, each with
\* its subtree, in pre/post/in order (Tier 2: the recursion of
\* gnode_traverse.c over the links)
RECURSIVE TravH(_, _, _)
TravH(h, n, ord) ==
  LET cs  == Fwd(h, h.ch[n])
      sub == [i \in 1..Len(cs) |-> TravH(h, cs[i], ord)]
  IN IF ord = "pre" THEN <<n>> \o Flat(sub)
     ELSE IF ord = "post" THEN Flat(sub) \o <<n>>
     ELSE IF cs = <<>> THEN <<n>> ELSE sub[1] \o <<n>> \o Flat(From(sub, 2))
TravA(n, ord) ==
  LET L == ListOf(fo, n) r == From(L, IndexOf(L, n)) f == Fwd(hp, n) IN
  [ret |-> Flat([i \in 1..Len(f) |-> TravH(hp, f[i], ord)]),
   t1  |-> IF ord = "pre" THEN PreL(fo, r)
           ELSE IF ord = "post" THEN Flat([i \in 1..Len(r) |-> PostT(fo, r[i])])
           ELSE Flat([i \in 1..Len(r) |-> InT(fo, r[i])])]
TravQ(n, ord) ==
  /\ n \in live /\ Same
  /\ Ans("traverse", [n |-> n, ord |-> ord], TravA(n, ord).ret, <<>>, TravA(n, ord).t1)

Orders == {"pre", "post", "in"}
\* all queries agree in the current state (used instead of the query
\* transitions where only the state graph of the modifying calls is explored)
QueryInv ==
  \A n \in live :
    /\ \A pos \in Pos : PosA(n, pos).ret = PosA(n, pos).t1
    /\ \A pos \in Pos, key \in Keys :
         /\ LocA(n, pos, key).ret = LocA(n, pos, key).t1
         /\ FindA(n, key, pos).ret = FindA(n, key, pos).t1
    /\ \A key \in Keys : NextA(n, key).ret = NextA(n, key).t1
    /\ \A ord \in Orders : TravA(n, ord).ret = TravA(n, ord).t1

---------------------------------------------------------------------------
Init ==
  /\ live = {} /\ hp = [nx |-> Zero, pv |-> Zero, pa |-> Zero, ch |-> Zero]
  /\ name = [n \in Ids |-> ""] /\ val = Zero
  /\ fo = [kids |-> [n \in Ids |-> <<>>], tops |-> {}]
  /\ obs = [a |-> "init", arg |-> [n |-> MaxNodes], t1 |-> "ok",
            exp |-> [ret |-> "ok", freed |-> <<>>, links |-> [n \in Ids |-> <<>>],
                     names |-> [n \in Ids |-> ""], vals |-> Zero, metas |-> 0]]

Modify ==
  \/ \E k \in Kinds : New(k)
  \/ \E p \in Ids, n \in Ids, pos \in Pos :
        GInsert(p, pos, n) \/ NInsert(p, pos, n) \/ GAdd(p, pos, n) \/ NAdd(p, pos, n)
  \/ \E p \in Ids \cup {0}, n \in Ids : GAfter(p, n) \/ GBefore(p, n)
  \/ \E n \in Ids : NUnlink(n) \/ Destroy(n) \/ Clear(n) \/ Relink(n)
                    \/ CloneNode(n) \/ CloneTree(n) \/ CloneList(n)
  \/ \E a \in Ids, b \in Ids : Move(a, b) \/ Swap(a, b)
  \/ \E n \in live, kind \in CloneKinds :
        \/ \E k \in 1..Len(CloneSrc(kind, n)) : CloneFail(kind, n, k, 0)
        \/ \E j \in 1..ValuedIn(CloneSrc(kind, n)) : CloneFail(kind, n, 0, j)
Query ==
  \/ \E n \in Ids, pos \in Pos : PosQ(n, pos)
  \/ \E n \in Ids, pos \in Pos, key \in Keys : LocQ(n, pos, key) \/ FindQ(n, key, pos)
  \/ \E n \in Ids, key \in Keys : NextQ(n, key)
  \/ \E n \in Ids, ord \in Orders : TravQ(n, ord)
Next == Modify \/ Query

Spec == Init /\ [][Next]_vars
SpecM == Init /\ [][Modify]_vars      \* modifying calls only (queries: QueryInv)

---------------------------------------------------------------------------
(* action properties (checked on every transition) *)

\* the pointer walk and the forest give the same answer
QueryAgree == [][obs'.t1 = obs'.exp.ret]_vars

\* a cloned list or tree has the same shape, names and values as its source
\* at every depth, and is separate from it
CloneIsoStep ==
      /\ obs'.a = "clonetree" =>
          /\ Shape(fo', name', val', obs'.exp.ret) = Shape(fo, name, val, obs'.arg.n)
          /\ <<obs'.exp.ret>> \in fo'.tops
      /\ obs'.a = "clonelist" =>
          LET L == ListOf(fo, obs'.arg.n) r == From(L, IndexOf(L, obs'.arg.n))
              c == ListOf(fo', obs'.exp.ret)
          IN /\ c \in fo'.tops /\ Len(c) = Len(r) /\ c[1] = obs'.exp.ret
             /\ \A i \in 1..Len(r) : Shape(fo', name', val', c[i]) = Shape(fo, name, val, r[i])
      /\ obs'.a = "clonenode" =>
          /\ <<obs'.exp.ret>> \in fo'.tops /\ fo'.kids[obs'.exp.ret] = <<>>
          /\ name'[obs'.exp.ret] = name[obs'.arg.n] /\ val'[obs'.exp.ret] = val[obs'.arg.n]
      /\ obs'.a \in {"clonetree", "clonelist", "clonenode"} =>
          /\ live \subseteq live' /\ obs'.exp.ret \notin live
          /\ \A n \in live : fo'.kids[n] = fo.kids[n]
          /\ fo.tops \subseteq fo'.tops
CloneIso == [][CloneIsoStep]_vars

\* each node is released exactly once: the released set is what left the
\* handle table, only destroy/clear release, a refused destroy changes nothing
ReleaseOnceStep ==
      /\ Range(obs'.exp.freed) = live \ live'
      /\ Len(obs'.exp.freed) = Cardinality(live \ live')
      /\ (live \ live' # {}) => obs'.a \in {"destroy", "clear"}
      /\ (obs'.a = "destroy" /\ obs'.exp.ret # 0) => (live' = live /\ hp' = hp /\ fo' = fo)
      /\ (obs'.a = "destroy" /\ obs'.exp.ret = 0) =>
            live \ live' = SubT(fo, obs'.arg.n)
      /\ obs'.a = "clear" => live \ live' = SubT(fo, obs'.arg.n) \ {obs'.arg.n}
ReleaseOnce == [][obs'.a = "init" \/ ReleaseOnceStep]_vars     \* (init = a new execution)
=============================================================================
