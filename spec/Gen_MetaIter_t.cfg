SPECIFICATION GenSpec
CONSTANTS NI = 3 MaxDepth = 12 Texts <- TextsT
CONSTRAINT Bound
VIEW View
INVARIANTS TypeOK Refines
PROPERTY RetOK Independent CloneSame
ACTION_CONSTRAINT Emit
CHECK_DEADLOCK FALSE
