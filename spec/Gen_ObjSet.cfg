SPECIFICATION GenSpec
CONSTANTS KindSet = {"axis", "line", "text", "graph", "world"} MaxOps = 2 Lvl = 1 Doors = "c"
VIEW Skel
ACTION_CONSTRAINT Emit
CHECK_DEADLOCK FALSE
