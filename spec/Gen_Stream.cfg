SPECIFICATION GenSpec
CONSTANTS MaxCode = 5 NMsg = 2 PollMem = 1
  MsgSet <- MsgsQ
  Shapes <- ShapesQ
  Ks <- KsQ
VIEW Skel
ACTION_CONSTRAINT Emit
CHECK_DEADLOCK FALSE
