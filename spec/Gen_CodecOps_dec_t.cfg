SPECIFICATION GenSpec
CONSTANTS
  Mode = "dec"
  Kinds <- KindsDT
  Alpha <- AlphaG
  MaxMsg = 0
  MaxMsgs = 0
  Caps <- None
  Grows <- None
  Pres <- None
  DelKs <- None
  NextSet <- None
  Shifts <- None
  DMaxLen = 3
  DSlacks <- Sl02
  DGrants <- Gr2
  DStreams <- StreamsG
  DFeeds <- Fd13
  DQs <- Q13
  DOps <- OpsAll
  DMis <- Mis0
  CapMax = 0
CONSTRAINT BoundGD
VIEW SkelD
ACTION_CONSTRAINT EmitD
CHECK_DEADLOCK FALSE
