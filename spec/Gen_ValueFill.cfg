SPECIFICATION GenSpec
CONSTANTS
  Sources <- ScQuick
  MaxInst = 2
  MaxOps = 7
  ModSet <- ModQ
  QuerySet <- QueryQ
VIEW ViewX
ACTION_CONSTRAINT Emit
CHECK_DEADLOCK FALSE
