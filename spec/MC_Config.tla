----------------------------- MODULE MC_Config -----------------------------
(* Exhaustive configurations of Config: store (SpecC) and path object     *)
(* (SpecP) are explored separately; the other part stays at its initial    *)
(* value.                                                                  *)
EXTENDS Config
A == <<97>>
B == <<98>>
AB == <<97, 98>>
E == <<>>
NamesQ == <<A, B, E>>
Names2 == <<A, B>>
NamesAE == <<A, E>>
NamesT == <<A, B, AB, E>>
ValsQ  == {<<120>>, <<>>}
ValsT  == {<<120>>, <<121, 121>>, <<>>}
NoBase == <<>>
BaseA  == <<A>>
BaseAB == <<A, B>>
BaseE  == <<E>>
Bound  == Count(st) <= MaxSlots
ViewC  == <<tree, st>>
(* path object: strings over {a, b, '.', '='} up to 4 characters *)
Alpha == {97, 46, 61}
StrsQ == UNION {[1..n -> Alpha] : n \in 0..3}
StrsT == UNION {[1..n -> Alpha] : n \in 0..4}
SepsQ == {46}
SepsT == {46, 61}
AsgsQ == {0, 61}
ElemsQ == {<<>>, <<97>>, <<98, 97>>}
NoStrs == {}
Ends0 == {0}
EndsQ == {0, 61}
BoundP  == Len(pel) <= 3 /\ Len(po.buf) <= 6
BoundPT == Len(pel) <= 4 /\ Len(po.buf) <= 8
ViewP  == <<pel, po>>
=============================================================================
