---------------------------- MODULE Trace_Notify ----------------------------
(* Trace validation: a recorded execution of the real notifier (one event  *)
(* per call and one per internal step of mpt_loop: arguments, scripted     *)
(* answers, observation) must be a behaviour of Notify.  Executions are    *)
(* concatenated; each starts with an "init" event.                         *)
EXTENDS Notify, Json, IOUtils
VARIABLES l,
          inloop,     \* between the "loopbegin" and "loop" events: internal steps of one mpt_loop run
          ldef        \* mpt_loop's default flag: a default event is due when nothing is listed
TraceLog == ndJsonDeserialize(IOEnv.TRACE)

Reset ==
  /\ kind' = "none" /\ slots' = <<>> /\ def' = Zero /\ err' = -1
  /\ tab' = << >> /\ fin' = << >> /\ ever' = {} /\ ntok' = 0 /\ snap' = NoSnap
  /\ obs' = [a |-> "init", arg |-> [x |-> 0],
             exp |-> [ret |-> "ok", calls |-> <<>>, def |-> Zero, table |-> <<>>]]
  /\ att' = FALSE /\ dir' = FALSE /\ nin' = 0 /\ ik' = << >> /\ reg' = {} /\ was' = {} /\ rel' = << >>
  /\ wire' = << >> /\ eof' = << >> /\ buf' = << >> /\ sent' = << >> /\ last' = << >> /\ peek' = << >>
  /\ wait' = {} /\ cur' = 0 /\ conn' = << >>
  /\ NAnswer("init", [x |-> 0], "ok", {}, {}, <<>>)

HR(arg) == <<arg.r, arg.clear>>
Kill(ev) == IF "kill" \in DOMAIN ev.arg /\ Len(ev.arg.kill) = 2 THEN <<ev.arg.kill[1], ev.arg.kill[2]>> ELSE <<0, 0>>
\* how many messages a library input has read completely so far is recorded (the driver measures the bytes each
\* message took on the wire and the bytes the input left unread): this selects take
Got(ev, i) == IF "got" \in DOMAIN ev.obs /\ i \in DOMAIN ev.obs.got THEN ev.obs.got[i] ELSE sent[i]
TakeChoices(ev) ==
  LET S == {i \in Served(ev.arg.what) : Lib(ik[i]) /\ wire[i] # <<>>
                                        /\ ~(KillOn(ev.arg.what, Kill(ev)) /\ i = Kill(ev)[2])}   \* what a removed input had read does not matter
  IN {[i \in S |-> Got(ev, i) - (sent[i] - Len(wire[i]))]}
Known(i) == i \in reg
\* whom mpt_notify_next returns is the implementation's choice: the recorded one must be listed
Step(ev) ==
  CASE ev.a = "init"     -> Reset
    [] ev.a = "attach"   -> NAttach
    [] ev.a = "set"      -> IF att THEN NSet(ev.arg.id) /\ ev.arg.tok = NewTok ELSE NQuiet("set", ev.arg)
    [] ev.a = "clear"    -> IF att THEN NUnset(ev.arg.id) ELSE NQuiet("clear", ev.arg)
    [] ev.a = "seterror" -> IF att THEN NSetErr /\ ev.arg.tok = NewTok ELSE NQuiet("seterror", ev.arg)
    [] ev.a = "add"      -> NAdd(ev.arg.k) /\ ev.arg.tok = NewIn
    [] ev.a = "addsame"  -> IF Known(ev.arg.of) THEN NAddSame(ev.arg.of) ELSE NAddBad
    [] ev.a = "addbad"   -> NAddBad
    [] ev.a = "addfile"  -> NAddFile
    [] ev.a = "direct"   -> NDirect /\ ev.arg.tok = NewTok
    \* whether the kernel took the peer's bytes is the environment's answer (recorded)
    [] ev.a = "send"     -> IF Known(ev.arg.i) /\ ~eof[ev.arg.i] /\ ev.obs.ret = "ok"
                            THEN NSend(ev.arg.i, ev.arg.data) ELSE NQuiet("send", ev.arg)
    [] ev.a = "shut"     -> IF Known(ev.arg.i) /\ ~eof[ev.arg.i] THEN NShut(ev.arg.i, ev.arg.how) ELSE NQuiet("shut", ev.arg)
    \* whether the kernel took the connection is the environment's answer (recorded)
    [] ev.a = "conn"     -> IF Known(ev.arg.i) /\ ev.obs.ret = "ok" THEN NConn(ev.arg.i) ELSE NQuiet("conn", ev.arg)
    \* whether an input removed by another one's next() had been served before is the kernel's order
    [] ev.a = "wait"     -> \E take \in TakeChoices(ev), early \in BOOLEAN :
                              NWait(ev.arg.what, ev.arg.rvs, take, Kill(ev), early)
    [] ev.a = "next"     -> NPop(ev.obs.cur)
    [] ev.a = "dispatch" -> IF cur # 0 THEN NHand(HR(ev.arg)) ELSE NQuiet("dispatch", ev.arg)
    [] ev.a = "default"  -> IF att \/ dir THEN NIdle(HR(ev.arg)) ELSE NQuiet("dispatch", ev.arg)
    [] ev.a = "relist"   -> IF cur # 0 THEN NRelist ELSE NQuiet("relist", ev.arg)
    [] ev.a = "unreg"    -> IF Known(ev.arg.i) THEN NClear(ev.arg.i) ELSE NQuiet("unreg", ev.arg)
    [] ev.a = "fini"     -> NFini
    [] ev.a = "loop"     -> NQuiet("loop", ev.arg)
    [] ev.a = "loopbegin" -> NQuiet("loopbegin", ev.arg)
    [] OTHER             -> FALSE

Matches(ev) ==
  LET e == nobs'.exp  o == ev.obs IN
  /\ e.ret = "any" \/ e.ret = o.ret
  /\ e.cur = o.cur /\ e.nexts = o.nexts /\ e.rel = o.rel /\ e.reg = o.reg /\ e.waiting = o.waiting
  /\ e.data = o.data
  /\ e.d.calls = o.d.calls /\ e.d.def = o.d.def /\ e.d.table = o.d.table
  /\ e.dany = 1 \/ e.d.ret = o.d.ret

(* mpt_loop: "the default-event bookkeeping follows the handler's returned flags".  The flag starts set iff there  *)
(* is a handler and no input; every dispatch whose answer st (what the input handed back to the loop: negative or    *)
(* not, Default flag) is not negative sets it to the answer's Default flag, a negative one leaves it; the default   *)
(* event itself does the same with the handler's answer.  Demanded: a default event and the non-blocking wait before *)
(* it happen only while the flag is set, the blocking wait only while it is not; the answer's Default flag is that    *)
(* of the delivery (d.ret) whenever a handler was reached.                                                            *)
Odd(n) == (n % 2) = 1
LoopRule(ev) ==
  IF ev.a = "init" THEN inloop' = FALSE /\ ldef' = FALSE
  ELSE IF ev.a = "loopbegin" THEN inloop' = TRUE /\ ldef' = (reg = {} /\ (att \/ dir))
  ELSE IF ev.a = "loop" THEN inloop' = FALSE /\ ldef' = FALSE
  ELSE IF ~inloop THEN UNCHANGED <<inloop, ldef>>
  ELSE /\ UNCHANGED inloop
       /\ CASE ev.a = "dispatch" ->
                 /\ ldef' = IF ev.obs.st.neg = 1 THEN ldef ELSE ev.obs.st.def = 1
                 /\ (nobs'.exp.dany = 0 /\ nobs'.exp.d.ret >= 0) =>
                       (ev.obs.st.neg = 0 /\ ev.obs.st.def = nobs'.exp.d.ret % 2)
            [] ev.a = "default" ->
                 /\ ldef
                 /\ ldef' = IF nobs'.exp.d.ret < 0 THEN ldef ELSE Odd(nobs'.exp.d.ret)
            [] ev.a = "wait" -> (ev.arg.blk = 1) = (~ldef) /\ UNCHANGED ldef
            [] OTHER -> UNCHANGED ldef

TraceInit == l = 1 /\ NInit /\ inloop = FALSE /\ ldef = FALSE

TraceNext ==
  /\ l <= Len(TraceLog)
  /\ l' = l + 1
  /\ LET ev == TraceLog[l] IN
       Step(ev) /\ Matches(ev) /\ LoopRule(ev)

TraceSpec == TraceInit /\ [][TraceNext]_<<nvars, l, inloop, ldef>>

TraceAccepted ==
  LET n == TLCGet("stats").diameter - 1 IN
  /\ PrintT(<<"MATCHED", n>>)
  /\ n = Len(TraceLog)
CTexts == {}
CEmpty == {}
=============================================================================
