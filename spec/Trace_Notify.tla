---------------------------- MODULE Trace_Notify ----------------------------
(* Trace validation: a recorded execution of the real notifier (one event  *)
(* per call and one per internal step of mpt_loop: arguments, scripted     *)
(* answers, observation) must be a behaviour of Notify.  Executions are    *)
(* concatenated; each starts with an "init" event.                         *)
EXTENDS Notify, Json, IOUtils
VARIABLE l
TraceLog == ndJsonDeserialize(IOEnv.TRACE)

Reset ==
  /\ kind' = "none" /\ slots' = <<>> /\ def' = Zero /\ err' = -1
  /\ tab' = << >> /\ fin' = << >> /\ ever' = {} /\ ntok' = 0
  /\ obs' = [a |-> "init", arg |-> [x |-> 0],
             exp |-> [ret |-> "ok", calls |-> <<>>, def |-> Zero, table |-> <<>>]]
  /\ att' = FALSE /\ nin' = 0 /\ ik' = << >> /\ reg' = {} /\ was' = {} /\ rel' = << >>
  /\ wire' = << >> /\ eof' = << >> /\ buf' = << >> /\ sent' = << >> /\ last' = << >> /\ peek' = << >>
  /\ wait' = {} /\ cur' = 0 /\ conn' = << >>
  /\ NAnswer("init", [x |-> 0], "ok", {}, {}, <<>>)

HR(arg) == <<arg.r, arg.clear>>
\* how many messages a library input has read completely so far is recorded (the driver measures the bytes each
\* message took on the wire and the bytes the input left unread): this selects take
Got(ev, i) == IF "got" \in DOMAIN ev.obs /\ i \in DOMAIN ev.obs.got THEN ev.obs.got[i] ELSE sent[i]
TakeChoices(ev) ==
  LET S == {i \in Served(ev.arg.what) : ik[i] \in {"s", "c", "f"} /\ wire[i] # <<>>}
  IN {[i \in S |-> Got(ev, i) - (sent[i] - Len(wire[i]))]}
Known(i) == i \in reg
\* whom mpt_notify_next returns is the implementation's choice: the recorded one must be listed
Step(ev) ==
  CASE ev.a = "init"     -> Reset
    [] ev.a = "attach"   -> NAttach
    [] ev.a = "set"      -> IF att THEN NSet(ev.arg.id) /\ ev.arg.tok = NewTok ELSE NQuiet("set", ev.arg)
    [] ev.a = "clear"    -> IF att THEN NUnset(ev.arg.id) ELSE NQuiet("clear", ev.arg)
    [] ev.a = "seterror" -> IF att THEN NSetErr /\ ev.arg.tok = NewTok ELSE NQuiet("seterror", ev.arg)
    [] ev.a = "add"      -> NAdd(ev.arg.k) /\ ev.arg.tok = NewIn
    [] ev.a = "addsame"  -> IF Known(ev.arg.of) THEN NAddSame(ev.arg.of) ELSE NAddBad
    [] ev.a = "addbad"   -> NAddBad
    [] ev.a = "send"     -> IF Known(ev.arg.i) /\ ~eof[ev.arg.i] THEN NSend(ev.arg.i, ev.arg.data) ELSE NQuiet("send", ev.arg)
    [] ev.a = "shut"     -> IF Known(ev.arg.i) /\ ~eof[ev.arg.i] THEN NShut(ev.arg.i, ev.arg.how) ELSE NQuiet("shut", ev.arg)
    \* whether the kernel took the connection is the environment's answer (recorded)
    [] ev.a = "conn"     -> IF Known(ev.arg.i) /\ ev.obs.ret = "ok" THEN NConn(ev.arg.i) ELSE NQuiet("conn", ev.arg)
    [] ev.a = "wait"     -> \E take \in TakeChoices(ev) : NWait(ev.arg.what, ev.arg.rvs, take)
    [] ev.a = "next"     -> NPop(ev.obs.cur)
    [] ev.a = "dispatch" -> IF cur # 0 THEN NHand(HR(ev.arg)) ELSE NQuiet("dispatch", ev.arg)
    [] ev.a = "default"  -> IF att THEN NIdle(HR(ev.arg)) ELSE NQuiet("dispatch", ev.arg)
    [] ev.a = "relist"   -> IF cur # 0 THEN NRelist ELSE NQuiet("relist", ev.arg)
    [] ev.a = "unreg"    -> IF Known(ev.arg.i) THEN NClear(ev.arg.i) ELSE NQuiet("unreg", ev.arg)
    [] ev.a = "fini"     -> NFini
    [] ev.a = "loop"     -> NQuiet("loop", ev.arg)
    [] OTHER             -> FALSE

Matches(ev) ==
  LET e == nobs'.exp  o == ev.obs IN
  /\ e.ret = "any" \/ e.ret = o.ret
  /\ e.cur = o.cur /\ e.nexts = o.nexts /\ e.rel = o.rel /\ e.reg = o.reg /\ e.waiting = o.waiting
  /\ e.data = o.data
  /\ e.d.calls = o.d.calls /\ e.d.def = o.d.def /\ e.d.table = o.d.table
  /\ e.dany = 1 \/ e.d.ret = o.d.ret

TraceInit == l = 1 /\ NInit

TraceNext ==
  /\ l <= Len(TraceLog)
  /\ l' = l + 1
  /\ LET ev == TraceLog[l] IN
       Step(ev) /\ Matches(ev)

TraceSpec == TraceInit /\ [][TraceNext]_<<nvars, l>>

TraceAccepted ==
  LET n == TLCGet("stats").diameter - 1 IN
  /\ PrintT(<<"MATCHED", n>>)
  /\ n = Len(TraceLog)
CTexts == {}
CEmpty == {}
=============================================================================
