SPECIFICATION ScanSpec
CONSTANTS Configs = {} OptNames = {} SecNames = {} Values = {} Decos = {} MaxNodes = 0 MaxDepth = 0 ScanLen = 5
ACTION_CONSTRAINT EmitScan
CHECK_DEADLOCK FALSE
