SPECIFICATION SpecX
CONSTANTS Names <- NamesM Depth = 3 Vals <- ValsX Sep = 46 Design = "list" Base <- NoBase MaxSlots = 5
  Ends <- Ends0 Strs <- None Seps <- None Asgs <- None Elems <- None
  Configs <- DefaultOnly OptNames <- OptA SecNames <- SecAE Values <- ValsDocQ Decos <- Decos2 MaxNodes = 2 MaxDepth = 1
  Routes <- RLoad Cfgs <- CfgTN PrePaths <- PreQ
  EnvLists <- None Patterns <- None EnvSeps <- None ArgLists <- None ClearLists <- None
  MsgEls <- None MsgVals <- None MsgSplits <- None GetLists <- None GetSeps <- None NodeBases <- None FputSeps <- None
  MaxOps = 2
CONSTRAINT Bound
VIEW ViewX
INVARIANTS Refines PrefixClosed
PROPERTIES ArrivalProp MapProp
CHECK_DEADLOCK FALSE
