SPECIFICATION GenSpec
CONSTANTS SmallIds = {1} Widths = {1} MaxTok = 1 MaxSlots = 9
  Texts <- CTextsF HRs <- CHRsAll
CONSTRAINT BoundF
VIEW Skel
ACTION_CONSTRAINT Emit
CHECK_DEADLOCK FALSE
