SPECIFICATION GenSpec
CONSTANTS KindSet = {"axis", "line", "text", "graph", "world"} MaxOps = 2 Lvl = 1 Doors = "cxx"
VIEW Skel
ACTION_CONSTRAINT Emit
CHECK_DEADLOCK FALSE
