SPECIFICATION Spec
CONSTANTS NH = 2 Gran = 2 Hdr = 64 PChunk = 64 MaxLen = 3 MaxArg = 3 Prune = FALSE Api = "xarr" CtrMax = 2
CONSTRAINT Bound
VIEW View
INVARIANTS TypeOK AliasOK Refines NoTouch
PROPERTY Independent RefuseFrame
CHECK_DEADLOCK FALSE
