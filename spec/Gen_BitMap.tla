----------------------------- MODULE Gen_BitMap -----------------------------
(* Behaviour export for BitMap: one JSON line per generated transition;    *)
(* skeleton = length of the map, and per byte whether it is empty / full / *)
(* mixed (the payload pattern itself is hidden from the view).             *)
EXTENDS BitMap, Json, TLC
CONSTANT MaxDepth
VARIABLE hist
GenInit == Init /\ hist = <<obs>>
GenNext == Next /\ hist' = Append(hist, obs')
GenSpec == GenInit /\ [][GenNext]_<<vars, hist>>
Bound == Len(hist) <= MaxDepth
Cls(b) == IF b = 0 THEN 0 ELSE IF b = 255 THEN 2 ELSE 1
Skel  == <<obs.a, obs.exp.ret, [i \in 1..Len(mem) |-> Cls(mem[i])]>>
Emit  == PrintT(<<"BEHAV", ToJson(hist')>>)
=============================================================================
