SPECIFICATION Spec
CONSTANTS MaxLen = 4 LenMax = 6 CtrMax = 11
CONSTRAINT Bound
VIEW View
INVARIANT TypeOK
PROPERTY FailFrame
CHECK_DEADLOCK FALSE
