------------------------------ MODULE MC_Reply ------------------------------
(* Exhaustive configuration of Reply: full state, small constants.        *)
EXTENDS Reply
CONSTANT CtrMax
Bound == ctr <= CtrMax
View  == state                      \* obs is an observation, not state
=============================================================================
