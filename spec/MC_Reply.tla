------------------------------ MODULE MC_Reply ------------------------------
(* Exhaustive configuration of Reply: full state, small constants.        *)
EXTENDS Reply
CONSTANT CtrMax
Bound == ctr <= CtrMax
View  == state                      \* obs is an observation, not state
CMsgDom == {<<0, 2, 104>>}
CTextDom == {<<2, <<111, 107>>>>}
=============================================================================
