----------------------------- MODULE Trace_Ticks -----------------------------
(* Validation of recorded calls of the real code (one event per call: arguments + what the driver read back)   *)
(* against the closed forms of Ticks.  Doubles arrive as <<sign, m0..m3, e>> (IterNum); "within floating-point  *)
(* rounding" = 2^-48 times the magnitude of the operands, as in C19.  Inputs are p/q * 2^s: the scale is taken   *)
(* out of the logged exponent, so huge and tiny magnitudes are judged with the same small rationals.            *)
EXTENDS Ticks, Json, IOUtils
VARIABLE l
TraceLog == ndJsonDeserialize(IOEnv.TRACE)

D(pts, n) == SubSeq(pts, 6 * n + 1, 6 * n + 6)          \* n-th double of a flat list (0-based)
Adj(d, s) == IF DFinite(d) /\ ~DZero(d) THEN [d EXCEPT ![6] = @ - s] ELSE d
ClassOf(r) == IF IsNaN(r) THEN 4 ELSE IF r[1] > 0 THEN 2 ELSE 3

CoordOK(d, r, exact, s, t) ==
  IF r = AnyV THEN TRUE
  ELSE IF ~Fin(r) THEN d[1] = ClassOf(r)
  ELSE IF exact THEN Exactly(Adj(d, s), r)
  ELSE Near(Adj(d, s), r, t)

Tol(first, delta) ==
  LET a == IF Fin(first) THEN RAbs(first) ELSE RInt(0)
      b == IF Fin(delta) THEN RAbs(delta) ELSE RInt(0)
  IN MagExp(RMax(a, b)) - 48

TicksOK(ev) ==
  LET c == [nt |-> ev.arg.nt, p0 |-> ev.arg.p0, p1 |-> ev.arg.p1, dx |-> ev.arg.dx, dy |-> ev.arg.dy]
      s == ev.arg.s
      ref == TicksRef(c)
      pts == ev.obs.pts
      dl == <<c.dx, c.dy>>
  IN /\ ev.obs.ret = "ok"
     /\ Len(pts) = 12 * NPts(c.nt)                      \* exactly nt ticks and the two canary points
     /\ \A j \in 1..NPts(c.nt) : \A cc \in 1..2 :
          LET d == D(pts, 2 * (j - 1) + (cc - 1))
              canary == j > 2 * c.nt
              f == IF j % 2 = 1 THEN c.p0[cc] ELSE c.p1[cc]
          IN CoordOK(d, ref[j][cc], canary \/ j <= 2, IF canary THEN 0 ELSE s, Tol(f, dl[cc]))

RangeOKEv(ev) ==
  LET r == RangeRef(ev.arg) IN
  /\ ev.obs.ret = "ok"
  /\ CoordOK(ev.obs.min, r[1], TRUE, 0, 0)
  /\ CoordOK(ev.obs.max, r[2], TRUE, 0, 0)

Judge(ev) ==
  CASE ev.a = "ticks" -> TicksOK(ev)
    [] ev.a = "log10" -> LogDocumented(ev.arg.k) => LogNear(ev.obs.d, ev.arg.k)
    [] ev.a = "range" -> RangeOKEv(ev)
    [] OTHER          -> FALSE                          \* Crash / Hang / Missing

TraceInit == l = 1 /\ Init
TraceNext == /\ l <= Len(TraceLog) /\ l' = l + 1
             /\ Judge(TraceLog[l])
             /\ UNCHANGED vars
TraceSpec == TraceInit /\ [][TraceNext]_<<vars, l>>
TraceAccepted ==
  LET n == TLCGet("stats").diameter - 1 IN
  /\ PrintT(<<"MATCHED", n>>)
  /\ n = Len(TraceLog)
=============================================================================
