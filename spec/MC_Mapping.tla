----------------------------- MODULE MC_Mapping -----------------------------
(* Exhaustive configurations of Mapping: the array design implements the   *)
(* set of bound keys, for every history of add / del (/ clear / set_cycle  *)
(* / clear_cycles) over the small universe of the .cfg.                    *)
EXTENDS Mapping
CONSTANT MaxTab
D110 == <<1, 1, 1, 0>>
D111 == <<1, 1, 1, 1>>
D120 == <<1, 1, 2, 0>>
D210 == <<2, 1, 1, 0>>
Dims2  == <<0, 1>>
Masks2 == <<1, 8, 9>>          \* two state bits: Init (inside DataStateAll) and Fail (outside it), and both
MasksIS == <<1, 2, 3>>         \* Init, Step and both
MasksF == <<3, 8>>             \* Init|Step and Fail alone (merged: 11; 11 without 3: Fail alone)
Clis2  == <<0, 1>>
Clis3  == <<0, 1, 7>>
Dest2  == <<D110, D111>>
Dest3  == <<D110, D111, D120>>
Dest4  == <<D110, D111, D120, D210>>
Path2  == <<<<1, 1, 1>>, <<1, 1, 2>>>>
Path3  == <<<<1, 1, 1>>, <<1, 1, 2>>, <<2, 1, 1>>>>
Tok01  == {0, 1}
Tok012 == {0, 1, 2}
ActsC   == {"table"}
ActsCxx == {"table", "reg"}
ActsTxt == {"text"}
None == {}
NoSeq == <<>>
Bound == Len(tab) <= MaxTab
View  == <<bound, cycm, tab, cyc>>     \* obs is an observation, not state
(* text front end: items over {left out, 0, 1, 2, 300, word} *)
(* every field may be left out at every position: leading (":2"), middle ("2::1"), trailing ("1::", "2:"), all (":") *)
ItemsQ == {<<2>>, <<-1, 2>>, <<1, 2, 2>>, <<0>>, <<BadField>>, <<2, -1, 1>>, <<300>>,
           <<1, -1, -1>>, <<-1, -1>>, <<2, -1>>}
ItemsT == ItemsQ \cup {<<-1, -1, 2>>, <<1, 1>>, <<-1, -1, -1>>, <<2, 0, 1>>, <<1, BadField>>, <<255, 255, 255>>,
                       <<-1, 2, -1>>, <<1, 2, -1>>, <<0, -1, -1>>}
Gaps1 == {1}
Gaps13 == {1, 3}
Edge0 == {0}
Edge01 == {0, 1}
Dims3   == <<0, 1, 2>>
Dims4   == <<0, 1, 2, 3>>
Masks17 == <<1, 7>>
Masks13 == <<1, 3>>
Clis1   == <<0>>
ActsPure == {"srctext", "list", "plot"}
LettersQ == {"i", "s", "F", "A"}
LettersT == {"i", "I", "s", "S", "f", "F", "a", "A"}
LGapsQ == {0, 1, 2}
LGapsT == {0, 1, 2, 3}
NodesQ == {<<"ab", "x">>, <<"", "y">>, <<"c", "">>, <<"d", "1:s">>}
NodesT == NodesQ \cup {<<"lay:g:w", "2">>, <<"", "">>}
=============================================================================
