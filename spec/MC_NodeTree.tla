---------------------------- MODULE MC_NodeTree ----------------------------
(* Exhaustive configuration of NodeTree: full state, small constants.      *)
(* Only the modifying calls are transitions (SpecM); the queries are       *)
(* checked in every reached state by QueryInv.                             *)
EXTENDS NodeTree
\* "~b": a node with a non-text identifier (raw key "b"); text keys never match it
KindsQ == {<<"a", 0>>, <<"~b", 7>>}
KindsT == {<<"a", 0>>, <<"b", 7>>, <<"~b", 5>>, <<"", 0>>}
PosQ3  == -2..3
PosT   == -3..4
KeysQ  == {"a", "b", "c"}
KeysT  == {"a", "b", "", "c"}
View   == <<live, hp, name, val, fo>>     \* obs is an observation, not state

(* Handles are interchangeable: every action commutes with a renaming of   *)
(* the handles (a new node takes the smallest unused one, which is again a *)
(* renaming), and all invariants and action properties are stated without  *)
(* reference to particular handles.  The thorough configuration therefore  *)
(* identifies states that differ by a renaming: the view is the bag of the *)
(* shapes (names, values, order, nesting) of the top-level lists.          *)
ListShape(s) == [i \in 1..Len(s) |-> Shape(fo, name, val, s[i])]
ShapeView ==
  LET shs == {ListShape(s) : s \in fo.tops} IN
  [sh \in shs |-> Cardinality({s \in fo.tops : ListShape(s) = sh})]
=============================================================================
