------------------------------ MODULE PipeLog ------------------------------
(***************************************************************************)
(* Extension X29 of property C02 (reading of Stream.tla): the byte stream  *)
(* between the framed output queue and the framed input queue is a pair of *)
(* pipes through a child process (mpt_stream_pipe), the sender is a        *)
(* connection (mpt_connection_push, mpt_connection_log).                   *)
(*                                                                         *)
(* Tier 1 (meaning, as in Stream.tla): sent / rcvd message lists; wire --  *)
(* bytes written to the child and not yet read back; rpend -- bytes read   *)
(* back, not yet handed out.  A frame is a run of non-zero bytes closed by *)
(* one zero (C01).  wz -- delimiters written so far: only finished frames  *)
(* may leave (wz <= Len(sent)).                                            *)
(* Environment: the child forwards what it reads unaltered and in order,   *)
(* in pieces of its choice; quota = [k, j]: it exits after k delimiters    *)
(* and at most j further non-delimiter bytes (k = Unl: never).  What it    *)
(* did not forward is lost: a frame cut by its exit is never a message.    *)
(* Tier 2 (design): the byte layout of a log entry (Layout), LogMax.       *)
(* Where C02 is silent (return codes of the sender after the child died,   *)
(* re-opening with data in flight) the answer is "any" / not offered.      *)
(***************************************************************************)
EXTENDS Naturals, Sequences, FiniteSets, TLC

CONSTANTS MsgSet,    \* candidate messages
          NMsg,      \* messages per history
          LogArgs,   \* set of [fp, fc, fn, tp, tc, tn, ty] log calls offered
          LogMax,    \* MPT_OUTPUT_LOGMSG_MAX (256 shipped)
          Quotas,    \* set of [k, j] child quotas
          Ks,        \* piece sizes offered to deliver (Unl = everything the child forwards)
          Ops        \* groups of calls offered

Unl == 1000000

VARIABLES open,      \* the stream has the pipes to a child
          quota,     \* what the child still forwards
          cur,       \* message being composed: [on, msg, done]
          sent, wire, wz, rpend, rcvd, obs
state == <<open, quota, cur, sent, wire, wz, rpend, rcvd>>
vars  == <<state, obs>>

---------------------------------------------------------------------------
FirstN(s, n) == SubSeq(s, 1, n)
Drop(s, n)   == SubSeq(s, n + 1, Len(s))
Zeros(s)     == Cardinality({i \in 1..Len(s) : s[i] = 0})
HasFrame(s)  == \E i \in 1..Len(s) : s[i] = 0
FirstZero(s) == CHOOSE i \in 1..Len(s) : s[i] = 0 /\ \A j \in 1..(i - 1) : s[j] # 0
IsPrefix(s, t) == Len(s) <= Len(t) /\ \A i \in 1..Len(s) : s[i] = t[i]
Rep(c, n)    == [i \in 1..n |-> c]
Min(a, b)    == IF a < b THEN a ELSE b

\* stand-in framing of the bounded model: non-zero bytes and one delimiter (the shipped framings: C01, traces)
Fr(m) == Rep(1, Len(m) + 1) \o <<0>>

\* the prefix of w a child with quota (k, j) forwards, and the quota left after forwarding o
RECURSIVE FwdR(_, _, _)
FwdR(w, k, j) ==
  IF w = <<>> THEN <<>>
  ELSE IF k > 0 THEN <<w[1]>> \o FwdR(Tail(w), IF w[1] = 0 THEN k - 1 ELSE k, j)
  ELSE IF j > 0 /\ w[1] # 0 THEN <<w[1]>> \o FwdR(Tail(w), 0, j - 1)
  ELSE <<>>
Fwd(w, q) == IF q.k >= Unl THEN w ELSE FwdR(w, q.k, q.j)
RECURSIVE SpendR(_, _, _)
SpendR(o, k, j) ==
  IF o = <<>> THEN [k |-> k, j |-> j]
  ELSE IF k > 0 THEN SpendR(Tail(o), IF o[1] = 0 THEN k - 1 ELSE k, j)
  ELSE SpendR(Tail(o), 0, IF j > 0 THEN j - 1 ELSE 0)
Spend(o, q) == IF q.k >= Unl THEN q ELSE SpendR(o, q.k, q.j)

(* byte layout of a log entry (mptio/connection/connection_log.c): header (message type Output = 0, level =   *)
(* type mod 128), SOH if a source is given and the type says it is a function name, the source, and for a     *)
(* given text STX, text, ETX -- cut (without ETX) so that the entry has at most LogMax bytes.                 *)
IsFcn(ty)  == (ty \div 2048) % 2 = 1
HdrLen(l)  == IF l.fp = 1 /\ IsFcn(l.ty) THEN 3 ELSE 2
FromLen(l) == IF l.fp = 1 THEN l.fn ELSE 0
LogRefused(l) == FromLen(l) >= (IF l.tp = 1 THEN LogMax - 2 ELSE LogMax) - HdrLen(l)
Layout(l) ==
  LET hl   == HdrLen(l)
      room == LogMax - hl - FromLen(l) - 1
  IN <<0, l.ty % 128>> \o (IF hl = 3 THEN <<1>> ELSE <<>>) \o Rep(l.fc, FromLen(l))
     \o (IF l.tp = 1 THEN <<2>> \o (IF room > l.tn THEN Rep(l.tc, l.tn) \o <<3>> ELSE Rep(l.tc, room)) ELSE <<>>)

---------------------------------------------------------------------------
Idle == [on |-> FALSE, msg |-> <<>>, done |-> 0]
Answer(a, arg, exp) == obs' = [a |-> a, arg |-> arg, exp |-> exp]
Fds == IF open' THEN 2 ELSE 0
Limited == quota.k < Unl

(* mpt_stream_pipe on a stream without data in flight: two descriptors, a fresh child *)
Open(q) ==
  /\ wire = <<>> /\ rpend = <<>> /\ ~cur.on
  /\ open' = TRUE /\ quota' = q
  /\ UNCHANGED <<cur, sent, wire, wz, rpend, rcvd>>
  /\ Answer("open", [qk |-> q.k, qj |-> q.j], [ret |-> "ok", fds |-> 2])

(* refused mpt_stream_pipe (missing file, file not executable, no file; "nofork": no process could be made -- *)
(* offered for a stream without descriptors only): nothing changes, no descriptor stays                        *)
OpenBad(how) ==
  /\ how = "nofork" => ~open
  /\ UNCHANGED state
  /\ Answer("openbad", [how |-> how], [ret |-> "refused", fds |-> Fds, chg |-> 0])

Start(m) ==
  /\ open /\ ~cur.on /\ Len(sent) < NMsg
  /\ cur' = [on |-> TRUE, msg |-> m, done |-> 0]
  /\ UNCHANGED <<open, quota, sent, wire, wz, rpend, rcvd>>
  /\ Answer("start", [data |-> m], [ret |-> "ok"])

(* w: bytes that left the output queue during the call (bounded model: none before the message ends) *)
Push(k, w) ==
  /\ open /\ cur.on /\ k >= 1 /\ cur.done + k <= Len(cur.msg)
  /\ cur' = [cur EXCEPT !.done = @ + k]
  /\ wire' = wire \o w /\ wz' = wz + Zeros(w)
  /\ UNCHANGED <<open, quota, sent, rpend, rcvd>>
  /\ Answer("push", [n |-> k], [ret |-> IF Limited THEN "any" ELSE "ok"])

End(w) ==
  /\ open /\ cur.on /\ cur.done = Len(cur.msg)
  /\ sent' = Append(sent, cur.msg)
  /\ cur' = Idle
  /\ wire' = wire \o w /\ wz' = wz + Zeros(w)
  /\ UNCHANGED <<open, quota, rpend, rcvd>>
  /\ Answer("end", [x |-> 0], [ret |-> IF Limited THEN "any" ELSE "ok"])

(* mpt_connection_log: refused while a message is being composed (first bytes pushed) or when the source does  *)
(* not fit -- nothing changes; otherwise exactly one message with the bytes of Layout                           *)
Log(l, w) ==
  /\ open
  /\ IF cur.on /\ cur.done > 0
     THEN /\ UNCHANGED state
          /\ Answer("log", l, [ret |-> "busy", wz |-> 0])
     ELSE IF LogRefused(l)
     THEN /\ UNCHANGED state
          /\ Answer("log", l, [ret |-> "nobuf", wz |-> 0])
     ELSE /\ Len(sent) + (IF cur.on THEN 1 ELSE 0) < NMsg
          /\ sent' = Append(sent, Layout(l))
          /\ wire' = wire \o w /\ wz' = wz + Zeros(w)
          /\ UNCHANGED <<open, quota, cur, rpend, rcvd>>
          /\ Answer("log", l, [ret |-> IF Limited THEN "any" ELSE "ok"])

(* the child forwards, the reader polls: out arrives in the input queue *)
Deliver(out, a) ==
  /\ open /\ IsPrefix(out, Fwd(wire, quota))
  /\ rpend' = rpend \o out
  /\ wire' = Drop(wire, Len(out))
  /\ quota' = Spend(out, quota)
  /\ UNCHANGED <<open, cur, sent, wz, rcvd>>
  /\ Answer(a, [x |-> 0], [ret |-> "ok", z |-> Zeros(out)])

Recv ==
  /\ open
  /\ IF HasFrame(rpend)
     THEN /\ Len(rcvd) < Len(sent)
          /\ rcvd' = Append(rcvd, sent[Len(rcvd) + 1])
          /\ rpend' = Drop(rpend, FirstZero(rpend))
          /\ UNCHANGED <<open, quota, cur, sent, wire, wz>>
          /\ Answer("recv", [x |-> 0], [ret |-> "msg", data |-> sent[Len(rcvd) + 1]])
     ELSE /\ UNCHANGED state
          /\ Answer("recv", [x |-> 0], [ret |-> "none"])

(* mpt_stream_close: both descriptors closed; what was in flight is gone *)
Close ==
  /\ open /\ ~cur.on
  /\ open' = FALSE /\ wire' = <<>> /\ rpend' = <<>> /\ rcvd' = sent /\ wz' = Len(sent)
  /\ UNCHANGED <<quota, cur, sent>>
  /\ Answer("close", [x |-> 0], [ret |-> "ok", fds |-> 0])

---------------------------------------------------------------------------
Init ==
  /\ open = FALSE /\ quota = [k |-> Unl, j |-> 0] /\ cur = Idle /\ sent = <<>> /\ wire = <<>> /\ wz = 0
  /\ rpend = <<>> /\ rcvd = <<>>
  /\ obs = [a |-> "init", arg |-> [kind |-> "cobs"], exp |-> [ret |-> "ok", fds |-> 0]]

Next ==
  \/ \E q \in Quotas : Open(q)
  \/ "bad" \in Ops /\ \E h \in {"missing", "noexec", "null", "nofork"} : OpenBad(h)
  \/ \E m \in MsgSet : Start(m)
  \/ cur.on /\ cur.done < Len(cur.msg) /\ \E k \in {1, Len(cur.msg) - cur.done} : Push(k, <<>>)
  \/ End(Fr(cur.msg))
  \/ "log" \in Ops /\ \E l \in LogArgs : Log(l, Fr(Layout(l)))
  \/ \E k \in Ks : wire # <<>> /\ Deliver(FirstN(Fwd(wire, quota), Min(k, Len(Fwd(wire, quota)))), "deliver")
  \/ Recv
  \/ "close" \in Ops /\ Close

Spec == Init /\ [][Next]_vars

---------------------------------------------------------------------------
TypeOK == /\ open \in BOOLEAN /\ wz \in Nat /\ Len(sent) <= NMsg /\ Len(rcvd) <= Len(sent)
\* integrity: same messages, same order, nothing lost, duplicated or merged
Integrity == IsPrefix(rcvd, sent)
\* only finished frames leave the sender
OnlyFinished == wz <= Len(sent)
\* every delimiter written is in the pipe, in the input queue, or was handed out as one message (or was lost
\* with a child that exited): nothing is delivered that was not sent
NoForgery == open => Len(rcvd) + Zeros(rpend) + Zeros(wire) = wz
\* availability: "none" only without a complete frame
Availability == (obs.a = "recv" /\ obs.exp.ret = "none") => ~HasFrame(rpend)
\* a log entry never exceeds LogMax bytes and always carries its header
LogShape == \A l \in LogArgs : ~LogRefused(l) => Len(Layout(l)) <= LogMax /\ Layout(l)[1] = 0
=============================================================================
