----------------------------- MODULE Gen_Convert -----------------------------
(***************************************************************************)
(* Behaviour export at the real type widths (LBits = 16): every value of   *)
(* the 8-bit source types, boundary values (+-(2^k + d)) of the wider      *)
(* integer types, format-boundary values of the floating types, and every  *)
(* short string over a small alphabet -- each with the result set the      *)
(* specification admits (computed here by TLC, never by the harness).      *)
(* The invariants of the model-level check are evaluated on these          *)
(* real-width cases as well.                                               *)
(***************************************************************************)
EXTENDS MC_Convert, Json

CONSTANTS Ks      \* exponents k of the boundary values +-(2^k + d), |d| <= 2
VARIABLE hist

EdgeVals(T) ==
  LET cand == {IntNum(s, IF dl >= 0 THEN Add(Pow2(k), FromInt(dl)) ELSE Sub(Pow2(k), FromInt(0 - dl))) :
                 s \in {0, 1}, k \in {kk \in Ks : kk >= 1}, dl \in (-2)..2}
              \cup {IntNum(s, FromInt(j)) : s \in {0, 1}, j \in 0..3}
  IN {v \in cand : InIntRange(T, v)}

FltEdge(SF) ==
  LET Ds       == {TypeTab["f"], TypeTab["d"], TypeTab["e"]}
      mants(D) == {One, FromInt(3), Sub(Pow2(D.p), One), Add(Pow2(D.p), One), Add(Pow2(D.p + 1), One),
                   Add(Pow2(D.p + 1), FromInt(3)), Sub(Pow2(SF.p), One)}
      tops(D)  == {0 - D.emax - D.p - 1, QMin(D) - 1, QMin(D), QMin(D) + 1, 1 - D.emax, -1, 0, 1, 30, 31, 62, 63, 64,
                   D.emax - 1, D.emax, D.emax + 1, SF.emax}
      cand     == UNION {{Fin(s, m, top - BitLen(m) + 1) : s \in {0, 1}, m \in mants(D), top \in tops(D)} : D \in Ds}
  IN {v \in cand : InFormat(SF, v)} \cup {Fin(0, Zero, 0), Inf(0), Inf(1), NaN}

GenVals(t) ==
  LET T == TypeTab[t] IN
  IF T.kind = "int" THEN (IF T.bits <= 8 THEN IntVals(T) ELSE EdgeVals(T)) ELSE FltEdge(T)

GenInit == MCInit /\ hist = << >>
GenNext ==
  /\ obs.a = "init"
  /\ IF obs.arg.kind = "conv"
     THEN \E v \in GenVals(obs.arg.src) : Conv(obs.arg.api, obs.arg.src, obs.arg.dst, v)
     ELSE \E s \in Strings(obs.arg.first) : Text(obs.arg.api, obs.arg.dst, obs.arg.base, s)
  /\ hist' = <<obs'>>
GenSpec == GenInit /\ [][GenNext]_<<vars, hist>>
Emit == PrintT(<<"BEHAV", ToJson(hist')>>)
=============================================================================
