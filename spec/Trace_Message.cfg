SPECIFICATION TraceSpec
CONSTANTS
  Alphabet = {0}
  MaxLen = 0
  MaxFrag = 1
  MaxDst = 0
  MaxDstFrag = 1
  MaxQ = 0
  Ops = {}
  EmptyBases = {"slice"}
  ForeignBytes = {0}
  ArrKinds = {}
  MaxFail = 0
INVARIANTS Refines
PROPERTIES DesignAgrees OnceAgrees
POSTCONDITION TraceAccepted
CHECK_DEADLOCK FALSE
