SPECIFICATION TraceSpec
CONSTANTS
  Alphabet = {0}
  MaxLen = 0
  MaxFrag = 1
  MaxDst = 0
  MaxDstFrag = 1
  MaxQ = 0
  Ops = {}
INVARIANTS Refines
PROPERTIES DesignAgrees OnceAgrees
POSTCONDITION TraceAccepted
CHECK_DEADLOCK FALSE
