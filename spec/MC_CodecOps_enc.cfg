SPECIFICATION XSpec
CONSTANTS
  Mode = "enc"
  Kinds <- KindsEQ
  Alpha <- AlphaE
  MaxMsg = 2
  MaxMsgs = 3
  Caps <- CapsZ
  Grows <- Grows2
  Pres <- None
  DelKs <- Del12
  NextSet <- NextAll
  Shifts <- None
  DMaxLen = 0
  DSlacks <- None
  DGrants <- None
  DStreams <- NoStreams
  DFeeds <- None
  DQs <- None
  DOps <- None
  DMis <- None
  CapMax = 8
CONSTRAINT BoundE
VIEW View
INVARIANTS XTypeOK SurvivorsOnly PartialTextX PartialRaw PartialCobs FinDenotesX RefusedX
PROPERTIES AnswerAllowedX DeleteAllowed DeleteClean ReaderView
CHECK_DEADLOCK FALSE
