SPECIFICATION TraceSpec
CONSTANTS
  LBits = 16
  TypeTab <- RealTypes
  GraphLo = 33 GraphHi = 126 MaxBits = 64
  GPrec = 6 ByteMax = 255 DecLimit = 127
  PrintTypes = {} IntFormats = {} FltFormats = {} Lefts = {} FltLefts = {}
  FmtAlphabet = {} FmtLen = 0 DestAlphabet = {} DestLen = 0 DestSeps = {} DestMax = {}
  RDsts = {} RBases = {} RAlphabet = {} RLen = 0 VecTypes = {} VecLen = 0 SinkTypes = {} SinkCaps = {} SinkLefts = {}
POSTCONDITION TraceAccepted
CHECK_DEADLOCK FALSE
