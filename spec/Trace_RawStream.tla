--------------------------- MODULE Trace_RawStream ---------------------------
(* Trace validation for RawStream: executions of the real code recorded by drv/rawstream.cpp (sections "raw" and     *)
(* "file") at production sizes.  Every event must be a step of the specification whose expected observation equals   *)
(* the recorded one ("any" for what the statement leaves open).                                                      *)
EXTENDS RawStream, Json, IOUtils
VARIABLE l
TraceLog == ndJsonDeserialize(IOEnv.TRACE)

ResetTo(sh) ==
  /\ shape' = sh /\ nops' = 0
  /\ uw' = [fin |-> <<>>, open |-> <<>>] /\ usent' = <<>> /\ uwire' = <<>> /\ urin' = <<>>
  /\ uwin' = [pos |-> 0, len |-> 0]
  /\ wq2' = [done |-> 0, scratch |-> 0] /\ rq2' = [pos |-> 0, len |-> 0, msg |-> -1]
  /\ fs' = Closed /\ want' = <<>> /\ pend' = <<>> /\ wbuf' = <<>> /\ wat' = 0 /\ rbuf' = <<>>
  /\ disk' = IF sh.sec = "file" THEN sh.pre ELSE <<>>
  /\ obs' = [a |-> "init", arg |-> sh, exp |-> [ret |-> "ok"]]

\* nothing to move: the call answers an empty list
Idle(a, arg) == UNCHANGED uvars /\ Answer(a, arg, [ret |-> "ok", out |-> <<>>])

RawStep(ev) ==
  /\ UNCHANGED fvars
  /\ CASE ev.a = "push"     -> UPush(ev.arg.data)
       [] ev.a = "done"     -> UDone
       [] ev.a = "discard"  -> UDiscard(ev.arg.n)
       [] ev.a = "flush"    -> IF Len(uw.fin) >= 1 THEN UFlush(ev.arg.n) ELSE Idle("flush", ev.arg)
       [] ev.a = "overtrim" -> UOvertrim(ev.arg.n)
       [] ev.a = "deliver"  -> IF Len(uwire) >= 1 THEN UDeliver(ev.arg.n) ELSE Idle("deliver", ev.arg)
       [] ev.a = "recv"     -> URecv
       [] ev.a = "peek"     -> UPeek(ev.arg.max, ev.arg.dst)
       [] ev.a = "shift"    -> UShift
       [] OTHER             -> FALSE

FileStep(ev) ==
  /\ UNCHANGED uvars
  /\ CASE ev.a = "open"   -> FOpen(ev.arg)
       [] ev.a = "write"  -> FWrite(ev.arg.data, ev.arg.part, 0)
       [] ev.a = "zeros"  -> FZeros(ev.arg.n, ev.arg.part, 0)
       [] ev.a = "endl"   -> FEndl(0)
       [] ev.a = "push"   -> FPush(ev.arg.data)
       [] ev.a = "end"    -> FEnd
       [] ev.a = "drop"   -> FDrop
       [] ev.a = "flush"  -> FFlush
       [] ev.a = "close"  -> FClose
       [] ev.a = "seek"   -> FSeek(ev.arg)
       [] ev.a = "read"   -> FRead(ev.arg.n, ev.arg.part, 0)
       [] ev.a = "skip"   -> FSkip(ev.arg.n, 0)
       [] ev.a = "peekr"  -> FPeekr(ev.arg.n, 0)
       [] ev.a = "getc"   -> FGetc(0)
       [] OTHER           -> FALSE

Step(ev) ==
  IF ev.a = "init" THEN ResetTo(ev.arg)
  ELSE /\ UNCHANGED <<shape, nops>>
       /\ IF IsRaw THEN RawStep(ev) ELSE FileStep(ev)

Matches(ev) ==
  /\ obs'.a = ev.a
  /\ \A k \in DOMAIN obs'.exp :
       /\ k \in DOMAIN ev.obs
       /\ IF k = "ret" THEN (obs'.exp[k] = "any" \/ obs'.exp[k] = ev.obs[k])
          ELSE obs'.exp[k] = ev.obs[k]

TraceInit ==
  /\ l = 1
  /\ shape = [sec |-> "none"] /\ nops = 0
  /\ uw = [fin |-> <<>>, open |-> <<>>] /\ usent = <<>> /\ uwire = <<>> /\ urin = <<>>
  /\ uwin = [pos |-> 0, len |-> 0]
  /\ wq2 = [done |-> 0, scratch |-> 0] /\ rq2 = [pos |-> 0, len |-> 0, msg |-> -1]
  /\ fs = Closed /\ want = <<>> /\ pend = <<>> /\ wbuf = <<>> /\ wat = 0 /\ rbuf = <<>> /\ disk = <<>>
  /\ obs = [a |-> "none", arg |-> [x |-> 0], exp |-> [ret |-> "ok"]]

TraceNext ==
  /\ l <= Len(TraceLog)
  /\ l' = l + 1
  /\ LET ev == TraceLog[l] IN Step(ev) /\ Matches(ev)

TraceSpec == TraceInit /\ [][TraceNext]_<<vars, l>>

TraceAccepted ==
  LET n == TLCGet("stats").diameter - 1 IN
  /\ PrintT(<<"MATCHED", n>>)
  /\ n = Len(TraceLog)
=============================================================================
