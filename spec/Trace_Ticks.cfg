SPECIFICATION TraceSpec
CONSTANTS NtMax = 0 Firsts = {} Deltas = {} RVals = {} IVals = {} RLenMax = 0 LogDen = 128
POSTCONDITION TraceAccepted
CHECK_DEADLOCK FALSE
