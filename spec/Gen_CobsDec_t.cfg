SPECIFICATION GenSpec
CONSTANTS
  Kinds <- KindsT
  Alpha <- AlphaT
  MaxLen = 3
  Slacks <- SlacksQ
  Grants <- GrantsQ
CONSTRAINT Bound
VIEW Skel
ACTION_CONSTRAINT Emit
CHECK_DEADLOCK FALSE
