SPECIFICATION TraceSpec
CONSTANTS NH = 4 Gran = 128 Hdr = 64 PChunk = 64 MaxLen = 100000 MaxArg = 100000 Prune = FALSE Api = "c"
INVARIANTS DebugStop
CHECK_DEADLOCK FALSE
