SPECIFICATION Spec
CONSTANTS SmallIds = {1, 2} Widths = {1, 2} MaxTok = 4
  Texts <- CTexts HRs <- CHRs
CONSTRAINT Bound
VIEW View
INVARIANTS TypeOK Refines OnceOnly GoneNotified
PROPERTIES DeliveredRight OneHandler FiniAll ReserveUnique DefaultFollows
CHECK_DEADLOCK FALSE
