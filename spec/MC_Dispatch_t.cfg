SPECIFICATION Spec
CONSTANTS SmallIds = {1, 2} Widths = {1, 2} MaxTok = 4
  Texts <- CTexts HRs <- CHRs
CONSTRAINT Bound
VIEW View
INVARIANTS TypeOK Refines OnceOnly GoneNotified HeldApart
PROPERTIES DeliveredRight OneHandler FiniAll SnapshotSilent ReserveUnique DefaultFollows
CHECK_DEADLOCK FALSE
