------------------------------ MODULE IoQueue ------------------------------
(***************************************************************************)
(* C++ wrapper io::queue (mpt++/io_queue.cpp) over the ring-buffer queue:  *)
(* an unbounded byte deque (it enlarges the storage on demand) with        *)
(* element-wise write/read and a contiguous peek.  Part of property C13.   *)
(* Tier 1 only: the ring design underneath is module Queue.                *)
(***************************************************************************)
EXTENDS Naturals, Sequences, TLC
CONSTANTS MaxLen        \* largest piece offered
VARIABLES deq, ctr, obs
vars == <<deq, ctr, obs>>

Min(a, b) == IF a < b THEN a ELSE b
Fresh(n)  == [i \in 1..n |-> ((ctr + i - 1) % 250) + 1]
Zeros(n)  == [i \in 1..n |-> 0]
FirstN(s, n) == SubSeq(s, 1, n)
LastN(s, n)  == SubSeq(s, Len(s) - n + 1, Len(s))
Drop(s, n)   == SubSeq(s, n + 1, Len(s))

Answer(a, arg, ret, out) ==
  obs' = [a |-> a, arg |-> arg, exp |-> [ret |-> ret, out |-> out, content |-> deq']]

(* push(data, len): append; the storage grows as needed *)
Push(d) ==
  /\ deq' = deq \o d /\ ctr' = ctr + Len(d)
  /\ Answer("push", [data |-> d], IF Len(d) = 0 THEN "any" ELSE "true", <<>>)

(* unshift(data, len): prepend; zero = 1: no data given, zero filled *)
Unshift(d, zero) ==
  /\ deq' = d \o deq /\ ctr' = ctr + Len(d)
  /\ Answer("unshift", [data |-> d, zero |-> zero], IF Len(d) = 0 THEN "any" ELSE "true", <<>>)

(* pop(data, len): remove at the right end; buf = 0: no target, bytes dropped *)
Pop(n, buf) ==
  IF n > Len(deq)
  THEN /\ UNCHANGED <<deq, ctr>> /\ Answer("pop", [n |-> n, buf |-> buf], "false", <<>>)
  ELSE /\ deq' = FirstN(deq, Len(deq) - n) /\ UNCHANGED ctr
       /\ Answer("pop", [n |-> n, buf |-> buf], IF n = 0 THEN "any" ELSE "true",
                 IF buf = 1 THEN LastN(deq, n) ELSE <<>>)

(* shift(data, len): remove at the left end *)
Shift(n, buf) ==
  IF n > Len(deq)
  THEN /\ UNCHANGED <<deq, ctr>> /\ Answer("shift", [n |-> n, buf |-> buf], "false", <<>>)
  ELSE /\ deq' = Drop(deq, n) /\ UNCHANGED ctr
       /\ Answer("shift", [n |-> n, buf |-> buf], IF n = 0 THEN "any" ELSE "true",
                 IF buf = 1 THEN FirstN(deq, n) ELSE <<>>)

(* write(count, data, part): append count elements of part bytes each;     *)
(* answers the number of elements written (all of them: storage grows).    *)
Write(count, part, d) ==
  /\ Len(d) = count * part
  /\ deq' = deq \o d /\ ctr' = ctr + Len(d)
  /\ Answer("write", [count |-> count, part |-> part, data |-> d],
            IF part = 0 \/ count = 0 THEN "any" ELSE "n", <<count>>)

(* read(count, target, part): take elements of part bytes from the right   *)
(* end, one after the other (last element first), until count are read or  *)
(* less than one element is left; answers the number read.                 *)
RECURSIVE Taken(_, _, _)
Taken(s, k, part) == IF k = 0 THEN <<>> ELSE LastN(s, part) \o Taken(FirstN(s, Len(s) - part), k - 1, part)
Read(count, part) ==
  LET k == IF part = 0 THEN count ELSE Min(count, Len(deq) \div part) IN
  /\ part >= 1
  /\ deq' = FirstN(deq, Len(deq) - k * part) /\ UNCHANGED ctr
  /\ Answer("read", [count |-> count, part |-> part], "n", <<k>> \o Taken(deq, k, part))

(* peek(len): a contiguous view of the content from the left end that is   *)
(* at least len bytes long (len = 0: everything) or everything there is.   *)
Peek(n) ==
  LET want == IF n = 0 THEN Len(deq) ELSE Min(n, Len(deq)) IN
  /\ UNCHANGED <<deq, ctr>>
  /\ Answer("peek", [n |-> n], "true", FirstN(deq, want))

Init == deq = <<>> /\ ctr = 0 /\ obs = [a |-> "init", arg |-> [cap |-> 0], exp |-> [ret |-> "true", out |-> <<>>, content |-> <<>>]]
InitCap(c) == deq = <<>> /\ ctr = 0 /\ obs = [a |-> "init", arg |-> [cap |-> c], exp |-> [ret |-> "true", out |-> <<>>, content |-> <<>>]]

Next ==
  \/ \E n \in 0..MaxLen : Push(Fresh(n)) \/ Unshift(Fresh(n), 0) \/ Unshift(Zeros(n), 1)
  \/ \E n \in 0..MaxLen, buf \in {0, 1} : Pop(n, buf) \/ Shift(n, buf)
  \/ \E count \in 0..3, part \in 0..3 : Write(count, part, Fresh(count * part))
  \/ \E count \in 0..3, part \in 1..3 : Read(count, part)
  \/ \E n \in 0..MaxLen : Peek(n)

Spec == (\E c \in {0, 1, 5, 8} : InitCap(c)) /\ [][Next]_vars

TypeOK == deq \in Seq(0..255)
\* a failed call leaves the byte list as it was
FailFrame == [][obs'.exp.ret = "false" => deq' = deq]_vars
\* bytes never appear from nowhere: every call changes the length by what it says
LenStep == [][Len(deq') - Len(deq) \in {0, Len(obs'.arg.data)} \/ Len(deq') <= Len(deq)]_vars
=============================================================================
