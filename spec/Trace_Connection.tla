--------------------------- MODULE Trace_Connection ---------------------------
(* Trace validation: a recorded execution of two real connections and the  *)
(* driver's network (one event per step: arguments and observation) must   *)
(* be a behaviour of Connection.  Executions are concatenated; each starts *)
(* with an "init" event.  The id an await was given, the id bytes of a     *)
(* stray reply and the number of messages a sync handled are taken from    *)
(* the recorded execution (the specification says which are allowed).      *)
EXTENDS Connection, Json, IOUtils
VARIABLE l
TraceLog == ndJsonDeserialize(IOEnv.TRACE)

XResetTo(arg) ==
  /\ mode' = "stream" /\ max' = arg.max /\ target' = FALSE /\ attached' = TRUE
  /\ own' = 0 /\ clen' = 0 /\ cval' = <<>> /\ handles' = [h \in 1..MaxH |-> <<>>]
  /\ reqs' = <<>> /\ ctr' = 0
  /\ obs' = [a |-> "init", g |-> {}, arg |-> [mode |-> "stream", max |-> arg.max, via |-> "conn"], exp |-> [ret |-> "ok"]]
  /\ tr' = arg.tr /\ cid' = 0 /\ wait' = <<>> /\ out' = <<>>
  /\ net' = [AB |-> <<>>, BA |-> <<>>] /\ held' = <<>> /\ arr' = <<>>
  /\ hg' = [h \in 1..MaxH |-> 0] /\ cnt' = [plain |-> 0, stray |-> 0, breq |-> 0, bplain |-> 0, chain |-> 0] /\ forged' = FALSE /\ bq' = <<>>
  /\ xobs' = [a |-> "init", arg |-> arg, exp |-> [ret |-> "ok"], g |-> <<>>]

Cb(arg) == [ret |-> arg.cret, chain |-> arg.chain, cw |-> arg.cw, hret |-> arg.hret]
Step(ev) ==
  CASE ev.a = "init"     -> XResetTo(ev.arg)
    [] ev.a = "await"    -> IF ev.obs.ret = "ok" THEN AwaitOk(ev.obs.id, ev.arg.w) ELSE AwaitRefused(ev.arg.w)
    [] ev.a = "send"     -> IF "end" \in DOMAIN ev.arg /\ ev.arg.end = "B" THEN PlainB(ev.arg.data) ELSE Send(ev.arg.data)
    [] ev.a = "request"  -> ev.obs.ret = "ok" /\ RequestB(ev.arg.w, ev.obs.id, ev.arg.data)
    [] ev.a = "deliver"  -> IF ev.arg.dir = "AB"
                            THEN IF ev.arg.k \in DOMAIN net.AB /\ IsReply(net.AB[ev.arg.k].id) THEN BReplied(ev.arg.k)
                                 ELSE DeliverB(ev.arg.k, ev.arg.act, ev.arg.data, ev.arg.hret, ev.arg.h)
                            ELSE IF ev.arg.k = 0 THEN DeliverArr(Cb(ev.arg), ev.obs.cids) \/ DeliverArrNone(Cb(ev.arg))
                            ELSE DeliverA(ev.arg.k, Cb(ev.arg), ev.obs.cids)
    [] ev.a = "hold"     -> Hold(ev.arg.k)
    [] ev.a = "dispatch" -> DispatchHeld(Cb(ev.arg), ev.obs.cids)
    [] ev.a = "sync"     -> \E n \in 0..(Len(arr) + Len(ev.arg.ks)) : Sync(ev.arg.ks, n, Cb(ev.arg), ev.obs.cids)
    [] ev.a = "stray"    -> StrayBytes(ev.obs.id, ev.arg.data) /\ X("stray", ev.arg, [ret |-> "ok"], <<>>)
    [] ev.a = "drop"     -> Drop(ev.arg.dir, ev.arg.k)
    [] ev.a = "dreply"   -> DReplyB(ev.arg.h, ev.arg.data)
    [] ev.a = "late"     -> LateB(ev.arg.data)
    [] ev.a = "close"    -> CloseA
    [] OTHER             -> FALSE

Matches(ev) ==
  LET e == xobs'.exp IN
  /\ "ret" \in DOMAIN e => (e.ret = "any" \/ e.ret = ev.obs.ret)
  /\ "calls" \in DOMAIN e => e.calls = ev.obs.calls
  /\ "chain" \in DOMAIN e => e.chain = ev.obs.chain
  /\ "wire" \in DOMAIN e => e.wire = ev.obs.wire
  /\ "seen" \in DOMAIN e => e.seen = ev.obs.seen
  /\ "r2" \in DOMAIN e => e.r2 = ev.obs.r2

TraceInit == l = 1 /\ XInitWith("stream", 1)
TraceNext ==
  /\ l <= Len(TraceLog)
  /\ l' = l + 1
  /\ LET ev == TraceLog[l] IN Step(ev) /\ Matches(ev)
TraceSpec == TraceInit /\ [][TraceNext]_<<xvars, l>>

TraceAccepted ==
  LET n == TLCGet("stats").diameter - 1 IN
  /\ PrintT(<<"MATCHED", n>>)
  /\ n = Len(TraceLog)
CMsgDom == {}
CTextDom == {}
CNone == {}
=============================================================================
