--------------------------- MODULE Trace_PipeLog ---------------------------
(* Trace validation: a recorded execution of drv/pipelog.c (one event per  *)
(* call: arguments + observation; w / r are the bytes the library wrote to *)
(* / read from the pipe descriptors during the call) must be a behaviour   *)
(* of PipeLog with the shipped framings: the bytes that leave are taken    *)
(* from the log (their byte-level correctness is C01), constrained by      *)
(* OnlyFinished; what comes back must be a prefix of what left, and a      *)
(* "deliver" (poll until the child waits or is gone) must bring everything *)
(* the child forwards.  Executions are concatenated; each starts with init.*)
EXTENDS PipeLog, Json, IOUtils
VARIABLE l
TraceLog == ndJsonDeserialize(IOEnv.TRACE)

Reset(arg) ==
  /\ open' = FALSE /\ quota' = [k |-> Unl, j |-> 0] /\ cur' = Idle /\ sent' = <<>> /\ wire' = <<>> /\ wz' = 0
  /\ rpend' = <<>> /\ rcvd' = <<>>
  /\ Answer("init", arg, [ret |-> "ok", fds |-> 0])
Quiet(a) == UNCHANGED state /\ Answer(a, [x |-> 0], [ret |-> "any"])
Flush(a, w) ==
  /\ open /\ wire' = wire \o w /\ wz' = wz + Zeros(w)
  /\ UNCHANGED <<open, quota, cur, sent, rpend, rcvd>>
  /\ Answer(a, [x |-> 0], [ret |-> IF Limited THEN "any" ELSE "ok"])

Step(ev) ==
  CASE ev.a = "init"    -> Reset(ev.arg)
    [] ev.a = "open"    -> Open([k |-> ev.arg.qk, j |-> ev.arg.qj])
    [] ev.a = "openbad" -> OpenBad(ev.arg.how)
    [] ev.a = "start"   -> IF open /\ ~cur.on THEN Start(ev.arg.data) ELSE Quiet("start")
    [] ev.a = "push"    -> Push(ev.arg.n, ev.obs.w)
    [] ev.a = "end"     -> End(ev.obs.w)
    [] ev.a \in {"flush", "pollout"} -> Flush(ev.a, ev.obs.w)
    [] ev.a = "log"     -> Log(ev.arg, ev.obs.w)
    [] ev.a = "deliver" -> Deliver(ev.obs.r, "deliver") /\ ev.obs.r = Fwd(wire, quota)
    [] ev.a = "poll"    -> Deliver(ev.obs.r, "poll")
    [] ev.a = "recv"    -> Recv
    [] ev.a = "close"   -> IF open /\ ~cur.on THEN Close ELSE Quiet("close")
    [] OTHER            -> FALSE

Matches(ev) ==
  /\ obs'.a = ev.a
  /\ \A k \in DOMAIN obs'.exp : IF k = "ret" THEN obs'.exp.ret = "any" \/ obs'.exp.ret = ev.obs.ret ELSE obs'.exp[k] = ev.obs[k]

TraceInit == l = 1 /\ Init
TraceNext ==
  /\ l <= Len(TraceLog)
  /\ l' = l + 1
  /\ LET ev == TraceLog[l] IN Step(ev) /\ Matches(ev)
TraceSpec == TraceInit /\ [][TraceNext]_<<vars, l>>
TraceAccepted ==
  LET n == TLCGet("stats").diameter - 1 IN
  /\ PrintT(<<"MATCHED", n>>)
  /\ n = Len(TraceLog)
CEmpty == {}
=============================================================================
