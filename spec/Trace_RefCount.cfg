SPECIFICATION TraceSpec
CONSTANTS Kinds = {"buf", "hmeta", "reply", "rawdata", "stream", "outlocal", "outremote", "iterfile", "geninfo", "metabuf", "metanew", "cxxref", "bare"}
  TextLens = {0, 249, 250, 1000}
  NH = 4 NObj = 8 Max = 1000 MaxExtra = 3 MaxTries = 1000 AsFound = FALSE
INVARIANTS TypeOK AliveIffReferenced CountExact NoDangling
POSTCONDITION TraceAccepted
CHECK_DEADLOCK FALSE
