SPECIFICATION GenSpec
CONSTANTS
  Alphabet <- Alpha5
  Alphabet2 <- Alpha3
  Ranges <- Rng13
  MaxLen = 3
  Limit = 65535
  Chunked = FALSE
  NoRangeLen = 2
  CodeDen = {}
  Dims = 2
  Kinds <- KindsAll
  HalfLimits = FALSE
  Uneven = "any"
VIEW View
ACTION_CONSTRAINT Emit
CHECK_DEADLOCK FALSE
