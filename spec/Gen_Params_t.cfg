SPECIFICATION GenSpec
CONSTANTS Mts = {0, 1} UserIds = {16} MaxTok = 4
CONSTANTS Paths <- Paths2 Vals <- Vals1
CONSTRAINT Bound
VIEW Skel
ACTION_CONSTRAINT Emitted
CHECK_DEADLOCK FALSE
