SPECIFICATION Spec
CONSTANTS NA = 2 NB = 2 NV = 1 MaxLen = 4 MaxArg = 4 Prune = FALSE
CONSTRAINT Bound
VIEW View
INVARIANTS TypeOK Refines
PROPERTY Independent RefuseFrame
CHECK_DEADLOCK FALSE
