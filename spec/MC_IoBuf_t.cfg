SPECIFICATION Spec
CONSTANTS NA = 1 NB = 2 NV = 1 MaxLen = 3 MaxArg = 3 Prune = TRUE
CONSTRAINT Bound
VIEW View
INVARIANTS TypeOK Refines
PROPERTY Independent RefuseFrame
CHECK_DEADLOCK FALSE
