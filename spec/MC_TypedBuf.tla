---------------------------- MODULE MC_TypedBuf ----------------------------
(* Exhaustive configuration of TypedBuf: full state, small constants.     *)
EXTENDS TypedBuf
CONSTANT CtrMax
Bound == /\ ctr <= CtrMax
         /\ \A h \in H : Len(val[h]) <= MaxLen /\ rec[h].size <= AllocSize(MaxLen + 1)
View  == <<val, vtyp, cnt, rec, share, ctr % NV>>
=============================================================================
