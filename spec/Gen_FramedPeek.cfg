SPECIFICATION GenSpec
CONSTANTS MaxCode = 5 NMsg = 1 PollMem = 1 PeekMem = 1
  MsgSet <- MsgsQ
  Shapes <- ShapesQ
  Ks <- KsQ
  PeekArgs <- PeekQ
VIEW Skel
INVARIANTS TypeOK Integrity Conservation InTransit EarlyIsPrefix Availability HeldOK
ACTION_CONSTRAINT Emit
CHECK_DEADLOCK FALSE
