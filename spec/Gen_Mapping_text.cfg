SPECIFICATION GenSpec2
CONSTANTS DimSeq <- Dims3 MaskSeq <- Masks17 CliSeq <- Clis1 DestSeq <- NoSeq PathSeq <- NoSeq Toks <- None
  Impl = "c" WithAll = TRUE Acts <- ActsTxt MaxTab = 4
  ItemSet <- ItemsQ MaxItems = 2 GapSet <- Gaps1 EdgeGaps <- Edge01
  Letters <- None MaxLetters = 0 LetterGaps <- None NodeSet <- None MaxNodes = 0
CONSTRAINT Bound
VIEW Skel
ACTION_CONSTRAINT Emit
CHECK_DEADLOCK FALSE
