------------------------------ MODULE RefCount ------------------------------
(***************************************************************************)
(* Reference-counted objects of mpt-base (property C15).                    *)
(*                                                                         *)
(* Tier 1 (meaning): who refers to what -- holds[h] (a handle: array,       *)
(*   metatype reference slot, C++ reference<T>), copyh (an array-of-        *)
(*   references copy of all handles), extra[o] (references the environment  *)
(*   holds as plain pointers: vptr addref, reference<T>::detach), defer[o]  *)
(*   (outstanding deferred reply handles).  Refs(o) counts them.            *)
(* Tier 2 (design): cnt[o], the counter as mpt_refcount_raise/lower keep    *)
(*   it, and alive[o]; every action is the sequence of raise/lower calls    *)
(*   the implementation makes (raise the new referent first, then lower     *)
(*   the old one; destruction when lower returns 0).                        *)
(* TLC checks  alive[o] <=> Refs(o) > 0  and  cnt[o] = Refs(o)  for every   *)
(* history, that a refused raise changes nothing and never wraps.           *)
(* AsFound = TRUE replays the design of _mpt_metatype_wrap at the pinned    *)
(* commit (addref on the replaced referent) -- MC_RefCount_asfound.cfg.     *)
(*                                                                         *)
(* One object kind per behaviour (chosen in Init):                          *)
(*   buf      shared buffer of _mpt_buffer_alloc, handles are arrays        *)
(*   hmeta    harness-implemented metatype counting with mpt_refcount_*     *)
(*   reply    mpt_reply_deferrable context (metatype + deferred handles)    *)
(*   rawdata  mpt_rawdata_create (with one stage of values inside)          *)
(*   stream   mpt_stream_input on a socket pair (tlen = 0) or on a regular  *)
(*            file (tlen = 1); the notifier is one more holder: defer[o] is *)
(*            its slot for o (mpt_notify_add accepted / refused, clear, fini) *)
(*   outlocal, outremote   mpt_output_local / mpt_output_remote             *)
(*   iterfile mpt_iterator_filename (shareable and clonable)                *)
(*   geninfo  mpt_meta_geninfo  (not shareable: addref answers 0)           *)
(*   metabuf  mpt_meta_buffer   (not shareable, clonable)                   *)
(*   cxxref   C++ reference<T>::type with reference<T> handles              *)
(*   metanew  mpt_meta_new of a text of tlen bytes (geninfo below 250 bytes, *)
(*            buffer metatype from there on); one length per behaviour       *)
(*   bare     a plain struct refcount (counter edge values)                 *)
(*                                                                         *)
(* Nested holders: an object of kind buf (array of arrays), hmeta or cxxref *)
(* can itself hold a reference (inner[o]); it is released when the holder   *)
(* is destroyed (cascade).  Assigning to a handle the object that only the  *)
(* handle's current referent keeps alive is the history that tells "retain  *)
(* the new one, then release the old one" from the reverse order.           *)
(* Teardown: releasing everything must destroy everything and leave nothing *)
(* allocated; the Gen export appends it to every behaviour, so a counter    *)
(* that drifted (also through a refused call) shows at the latest there.    *)
(***************************************************************************)
EXTENDS Naturals, Integers, Sequences, FiniteSets, TLC

CONSTANTS Kinds, NH, NObj,
          TextLens,   \* text lengths offered to mpt_meta_new (around the 250 byte limit of the small metatype)
          Max,        \* largest counter value (UINTPTR_MAX, scaled; values above Max \div 2 are "MAX - k")
          MaxExtra,   \* bound on plain-pointer references per object taken one by one
          MaxTries,   \* bound on consecutive rejected replies through one detached handle
          AsFound

VARIABLES kind, holds, copyh, hascopy, extra, defer, made,   \* Tier 1
          inner,      \* Tier 1: the reference object o itself holds (0 = none); only for live o
          origin,     \* clone ancestry (objects sharing one text buffer)
          tlen,       \* kind metanew: length of the text every object of the behaviour is made from
          cnt, alive,                                         \* Tier 2
          snd,        \* Tier 2, reply contexts: the send callback is still set (ctx->reply.send); a metatype
                      \* unref that leaves other references clears it, after that every reply counts as delivered
          tries,      \* rejected reply attempts on the current detached handle of o (bounded by MaxTries):
                      \* makes "failed, handle kept, try again" a history the exploration walks through
          obs
vars == <<kind, holds, copyh, hascopy, extra, defer, made, inner, origin, tlen, cnt, alive, snd, tries, obs>>

Handles == 1..NH
Objs    == 1..NObj

---------------------------------------------------------------------------
(* what each kind offers *)
MetaKinds   == {"hmeta", "reply", "rawdata", "stream", "geninfo", "metabuf", "metanew", "outlocal", "outremote", "iterfile"}
Sharable(k) == k \in {"buf", "hmeta", "reply", "rawdata", "stream", "cxxref", "outlocal", "outremote", "iterfile"}
Clonable(k) == k \in {"hmeta", "geninfo", "metabuf", "metanew", "iterfile"}
NestKind(k) == k \in {"buf", "hmeta", "cxxref"}     \* objects that can hold a reference themselves
(* buffers come in two makes, one per behaviour: tlen = 0 plain and empty, tlen > 0 an array of arrays with one element *)
Nestable(k) == NestKind(k) /\ (k = "buf" => tlen > 0)
TextShare(k) == k \in {"metabuf", "metanew"}         \* objects that may expose a shared text buffer
Pokable(k)  == k \in {"hmeta", "cxxref"}
CntSeen(k)  == k \in {"hmeta", "cxxref"}          \* the driver can read the counter
CopyVias(k) == IF k = "buf" THEN {"clone", "traits", "cxx", "cxxctor"}
               ELSE IF k = "cxxref" THEN {"cxx", "cxxctor"}
               ELSE IF k \in MetaKinds THEN {"conv", "value", "valueptr", "traits", "cxx", "cxxctor"} ELSE {}
DropVias(k) == IF k = "buf" THEN {"clone", "fini", "raw", "cxx"}
               ELSE IF k = "cxxref" THEN {"cxx"}
               ELSE IF k \in MetaKinds THEN {"conv", "value", "fini", "raw", "cxx"} ELSE {}
HasCxx(k)   == k # "bare"
HasArr(k)   == k = "buf" \/ k \in MetaKinds
Construct(via) == via \in {"traits", "cxxctor"}    \* the destination is raw storage
ClearsOnFail(via) == via \in {"cxx", "cxxctor"}    \* reference<T>: handle ends up empty

---------------------------------------------------------------------------
(* Tier 1 *)
Count(S) == Cardinality(S)
HRefsOf(hl, ch, hc, o) == Count({h \in Handles : hl[h] = o}) + (IF hc THEN Count({h \in Handles : ch[h] = o}) ELSE 0)
RootsOf(hl, ch, hc, ex, df, o) == HRefsOf(hl, ch, hc, o) + ex[o] + df[o]
RECURSIVE Grow(_, _, _)
Grow(S, inn, k) == IF k = 0 THEN S ELSE Grow(S \cup ({inn[p] : p \in S} \ {0}), inn, k - 1)
(* objects reachable from the handles / plain pointers / deferred handles through nested references *)
LiveOf(inn, hl, ch, hc, ex, df) == Grow({o \in Objs : RootsOf(hl, ch, hc, ex, df, o) > 0}, inn, NObj)
RefsOf(inn, hl, ch, hc, ex, df, o) == RootsOf(hl, ch, hc, ex, df, o)
                                      + Count({p \in LiveOf(inn, hl, ch, hc, ex, df) : inn[p] = o})
NormInner(inn, hl, ch, hc, ex, df) == [p \in Objs |-> IF p \in LiveOf(inn, hl, ch, hc, ex, df) THEN inn[p] ELSE 0]
HRefs(o) == HRefsOf(holds, copyh, hascopy, o)
Live1    == LiveOf(inner, holds, copyh, hascopy, extra, defer)
Refs(o)  == RefsOf(inner, holds, copyh, hascopy, extra, defer, o)
NestRefs(o) == Refs(o) - HRefs(o) - extra[o] - defer[o]
Reaches(a, b) == a # 0 /\ b \in Grow({a}, inner, NObj)         \* b is a or nested (transitively) in a

(* Tier 2: counter machine  m = [cnt, alive, snd, inn, gone]; destroying an object releases what it holds *)
M0 == [cnt |-> cnt, alive |-> alive, snd |-> snd, inn |-> inner, gone |-> <<>>]
CanRaise(m, o) == Sharable(kind) /\ m.alive[o] /\ m.cnt[o] # 0 /\ m.cnt[o] # Max
MRaise(m, o)   == [m EXCEPT !.cnt[o] = @ + 1]
RECURSIVE MLowerX(_, _, _)
MLowerX(m, o, meta) ==                                   \* meta: an unref through the object's interface
  IF o = 0 THEN m
  ELSE IF m.cnt[o] <= 1 \/ ~Sharable(kind)
  THEN MLowerX([m EXCEPT !.cnt[o] = 0, !.alive[o] = FALSE, !.gone = Append(@, o), !.inn[o] = 0], m.inn[o], TRUE)
  ELSE [m EXCEPT !.cnt[o] = @ - 1, !.snd[o] = IF meta /\ kind = "reply" THEN FALSE ELSE @]
MLower(m, o)  == MLowerX(m, o, TRUE)
MLowerD(m, o) == MLowerX(m, o, FALSE)                    \* release by a detached reply handle
MTryRaise(m, o) == IF o # 0 /\ CanRaise(m, o) THEN MRaise(m, o) ELSE m

SetM(m) == cnt' = m.cnt /\ alive' = m.alive /\ snd' = m.snd
(* Tier 1 side of nested references: cand with the holders that are no longer reachable cleared *)
SetInner(cand) == inner' = NormInner(cand, holds', copyh', hascopy', extra', defer')

(* counter as the driver reports it: k for small values, Max-k mapped by the driver *)
Seen(o, c, a) == IF CntSeen(kind) /\ a[o] THEN c[o] ELSE -1
Bit(b) == IF b THEN 1 ELSE 0

(* a text buffer exposed by a buffer metatype can only be shared if somebody else may hold it too: the harness *)
(* (metabuf) or another live object cloned from the same origin                                               *)
Answer(a, arg, ret, gone, val) ==
  LET L     == LiveOf(inner', holds', copyh', hascopy', extra', defer')        \* computed once per step
      lv    == [o \in Objs |-> o <= made' /\ o \in L]
      rf    == [o \in Objs |-> RootsOf(holds', copyh', hascopy', extra', defer', o) + Count({p \in L : inner'[p] = o})]
      tsh   == [o \in Objs |-> (IF kind = "metabuf" THEN 1 ELSE 0) + Count({p \in Objs : lv[p] /\ origin'[p] = origin'[o]}) > 1]
  IN
  obs' = [a |-> a, arg |-> arg,
          exp |-> [ret    |-> ret,
                   href   |-> holds',
                   copy   |-> IF hascopy' THEN copyh' ELSE [h \in Handles |-> 0],
                   inner  |-> [o \in Objs |-> IF lv[o] THEN inner'[o] ELSE 0],
                   alive  |-> [o \in Objs |-> Bit(lv[o])],
                   gone   |-> gone,
                   cnt    |-> [o \in Objs |-> IF CntSeen(kind) /\ lv[o] THEN rf[o] ELSE -1],
                   shared |-> [o \in Objs |-> IF ~lv[o] THEN -1
                                              ELSE IF kind = "buf" THEN Bit(rf[o] > 1)
                                              \* a text buffer nobody else can hold is not shared; otherwise free
                                              ELSE IF TextShare(kind) /\ ~tsh[o] THEN 0 ELSE -1],
                   val    |-> val,
                   bare   |-> IF kind = "bare" THEN cnt'[1] ELSE -1,
                   badfree |-> 0,   \* nothing is ever released that is not a live allocation
                   quiet  |-> IF ~hascopy' /\ \A o \in Objs : ~lv[o]
                              THEN 0 ELSE -1]]   \* nothing refers to anything: nothing may stay allocated

Tier1Same == UNCHANGED <<holds, copyh, hascopy, extra, defer, made>>
NoTry     == UNCHANGED tries
Same      == Tier1Same /\ UNCHANGED <<cnt, alive, snd, inner>>
FrameK    == UNCHANGED <<kind, tlen>>
KeepOrigin == UNCHANGED origin
Frame     == FrameK /\ NoTry

---------------------------------------------------------------------------
FrameO == Frame /\ KeepOrigin
T1Keep(S) == UNCHANGED S                      \* readability: Tier-1 variables an action leaves alone

(* a new object, referred to by the empty handle h *)
Create(h) ==
  /\ kind # "bare" /\ holds[h] = 0 /\ made < NObj
  /\ LET o == made + 1 IN
       /\ made' = o
       /\ holds' = [holds EXCEPT ![h] = o]
       /\ origin' = [origin EXCEPT ![o] = o]
       /\ cnt' = [cnt EXCEPT ![o] = 1] /\ alive' = [alive EXCEPT ![o] = TRUE] /\ snd' = [snd EXCEPT ![o] = TRUE]
  /\ UNCHANGED <<copyh, hascopy, extra, defer>> /\ Frame /\ SetInner(inner)
  /\ Answer("create", [h |-> h, len |-> tlen], "ok", <<>>, -1)

(* handle h := what handle g refers to (sin = 0), or what the object g refers to holds itself (sin = 1: *)
(* the source is the element / member inside that object -- also when g = h)                          *)
Copy(h, g, via, sin) ==
  LET t == IF sin = 1 THEN inner[holds[g]] ELSE holds[g]
      o == holds[h]
      arg == [h |-> h, g |-> g, via |-> via, sin |-> sin] IN
  /\ via \in CopyVias(kind) /\ (Construct(via) => o = 0) /\ FrameO
  /\ (sin = 1 => Nestable(kind) /\ holds[g] # 0)
  /\ IF t = o
     THEN /\ Tier1Same /\ UNCHANGED <<cnt, alive, inner>>
          \* assigning the referent to itself through conversion is addref + unref: no reference moves,
          \* but the unref is one that "leaves other references" (clears a reply context's send callback)
          /\ snd' = IF o # 0 /\ kind = "reply" /\ via \in {"conv", "value", "valueptr"} /\ CanRaise(M0, o)
                    THEN [snd EXCEPT ![o] = FALSE] ELSE snd
          /\ Answer("copy", arg, "any", <<>>, -1)
     ELSE IF t # 0 /\ ~CanRaise(M0, t)
     THEN IF ClearsOnFail(via)
          THEN LET m == MLower(M0, o) IN
               /\ holds' = [holds EXCEPT ![h] = 0] /\ SetM(m)
               /\ UNCHANGED <<copyh, hascopy, extra, defer, made>> /\ SetInner(inner)
               /\ Answer("copy", arg, "any", m.gone, -1)
          ELSE Same /\ Answer("copy", arg, "refused", <<>>, -1)
     ELSE LET m1 == IF t = 0 THEN M0 ELSE MRaise(M0, t)          \* retain the new referent first ...
              m2 == IF AsFound /\ via \in {"conv", "value", "valueptr"} THEN MTryRaise(m1, o)
                    ELSE MLower(m1, o) IN                        \* ... then release the old one (may cascade)
          /\ holds' = [holds EXCEPT ![h] = t] /\ SetM(m2)
          /\ UNCHANGED <<copyh, hascopy, extra, defer, made>> /\ SetInner(inner)
          /\ Answer("copy", arg, "ok", m2.gone, -1)

(* the object handle h refers to takes (or gives up, when g is empty) a reference of its own to what *)
(* handle g refers to: element assignment of an array of arrays, reference member of a metatype      *)
Nest(h, g, via) ==
  LET a == holds[h]  t == holds[g]  old == inner[a]
      arg == [h |-> h, g |-> g, via |-> via] IN
  /\ Nestable(kind) /\ via \in CopyVias(kind) \ {"traits", "cxxctor"} /\ a # 0 /\ FrameO
  /\ (t # 0 => ~Reaches(t, a))                      \* no cycles (they would never be released)
  /\ IF t = old
     THEN Same /\ Answer("nest", arg, "any", <<>>, -1)
     ELSE IF t # 0 /\ ~CanRaise(M0, t)
     THEN IF ClearsOnFail(via)
          THEN LET m == MLower(M0, old) IN
               /\ Tier1Same /\ SetM(m) /\ SetInner([inner EXCEPT ![a] = 0])
               /\ Answer("nest", arg, "any", m.gone, -1)
          ELSE Same /\ Answer("nest", arg, "refused", <<>>, -1)
     ELSE LET m1 == IF t = 0 THEN M0 ELSE MRaise(M0, t)
              m2 == MLower(m1, old) IN
          /\ Tier1Same /\ SetM(m2) /\ SetInner([inner EXCEPT ![a] = t])
          /\ Answer("nest", arg, "ok", m2.gone, -1)

(* handle h gives up its reference *)
Drop(h, via) ==
  LET o == holds[h]  m == MLower(M0, o) IN
  /\ via \in DropVias(kind) /\ FrameO
  /\ holds' = [holds EXCEPT ![h] = 0] /\ SetM(m)
  /\ UNCHANGED <<copyh, hascopy, extra, defer, made>> /\ SetInner(inner)
  /\ Answer("drop", [h |-> h, via |-> via], IF o = 0 THEN "any" ELSE "ok", m.gone, -1)

(* C++ move assignment: h takes over g's reference *)
Move(h, g) ==
  LET t == holds[g]  o == holds[h] IN
  /\ HasCxx(kind) /\ FrameO
  /\ IF h = g THEN Same /\ Answer("move", [h |-> h, g |-> g], "ok", <<>>, -1)
     ELSE LET m == MLower(M0, o) IN
          /\ holds' = [holds EXCEPT ![h] = t, ![g] = 0] /\ SetM(m)
          /\ UNCHANGED <<copyh, hascopy, extra, defer, made>> /\ SetInner(inner)
          /\ Answer("move", [h |-> h, g |-> g], "ok", m.gone, -1)

(* reference<T>::detach(): the plain pointer now carries the reference *)
Detach(h) ==
  LET o == holds[h] IN
  /\ HasCxx(kind) /\ o # 0 /\ extra[o] < MaxExtra /\ FrameO
  /\ holds' = [holds EXCEPT ![h] = 0] /\ extra' = [extra EXCEPT ![o] = @ + 1]
  /\ UNCHANGED <<copyh, hascopy, defer, made, cnt, alive, snd, inner>>
  /\ Answer("detach", [h |-> h], "ok", <<>>, -1)

(* reference<T>::set_instance(p): the handle takes over a plain-pointer reference *)
Adopt(h, o) ==
  LET old == holds[h]  m == MLower(M0, old) IN
  /\ HasCxx(kind) /\ o <= made /\ extra[o] > 0 /\ FrameO
  /\ (old = o => cnt[o] > 1)        \* handing a handle its own only reference is a caller error
  /\ holds' = [holds EXCEPT ![h] = o] /\ extra' = [extra EXCEPT ![o] = @ - 1] /\ SetM(m)
  /\ UNCHANGED <<copyh, hascopy, defer, made>> /\ SetInner(inner)
  /\ Answer("adopt", [h |-> h, o |-> o], "ok", m.gone, -1)

(* addref / unref through the object's own interface *)
RawRef(o) ==
  /\ kind # "bare" /\ o <= made /\ alive[o] /\ extra[o] < MaxExtra /\ FrameO
  /\ IF CanRaise(M0, o)
     THEN /\ extra' = [extra EXCEPT ![o] = @ + 1] /\ SetM(MRaise(M0, o))
          /\ UNCHANGED <<holds, copyh, hascopy, defer, made, inner>>
          /\ Answer("rawref", [o |-> o], "ok", <<>>, -1)
     ELSE Same /\ Answer("rawref", [o |-> o], "refused", <<>>, -1)
RawUnref(o) ==
  LET m == MLower(M0, o) IN
  /\ kind # "bare" /\ o <= made /\ extra[o] > 0 /\ FrameO
  /\ extra' = [extra EXCEPT ![o] = @ - 1] /\ SetM(m)
  /\ UNCHANGED <<holds, copyh, hascopy, defer, made>> /\ SetInner(inner)
  /\ Answer("rawunref", [o |-> o], "ok", m.gone, -1)

(* reply context: defer() hands out a detached handle that keeps the context.  armed = 0: there is no  *)
(* pending request (never armed, already deferred, already answered) -- refused, and like every refusal *)
(* it changes nothing                                                                                   *)
Defer(o, armed) ==
  LET arg == [o |-> o, armed |-> armed] IN
  /\ kind = "reply" /\ o <= made /\ alive[o] /\ defer[o] < MaxExtra /\ FrameO
  /\ IF armed = 1 /\ CanRaise(M0, o)
     THEN /\ defer' = [defer EXCEPT ![o] = @ + 1] /\ SetM(MRaise(M0, o))
          /\ UNCHANGED <<holds, copyh, hascopy, extra, made, inner>>
          /\ Answer("defer", arg, "ok", <<>>, -1)
     ELSE Same /\ Answer("defer", arg, "refused", <<>>, -1)
(* reply(msg) through a detached handle.  The transport either accepts or rejects the send (accept); *)
(* an explicit reply (msg = 1) that is rejected keeps the handle -- and therefore its reference --   *)
(* for a retry; every other outcome (accepted, final reply(0), nobody left to send to) consumes the  *)
(* handle and gives its reference back exactly once.                                                *)
Undefer(o, msg, accept) ==
  LET arg  == [o |-> o, msg |-> msg, accept |-> accept]
      kept == msg = 1 /\ accept = 0 /\ snd[o]
      m    == MLowerD(M0, o) IN
  /\ kind = "reply" /\ o <= made /\ defer[o] > 0 /\ FrameK /\ KeepOrigin
  /\ IF kept
     THEN /\ tries[o] < MaxTries
          /\ tries' = [tries EXCEPT ![o] = @ + 1]
          /\ Same /\ Answer("undefer", arg, "kept", <<>>, -1)
     ELSE /\ tries' = [tries EXCEPT ![o] = 0]
          /\ defer' = [defer EXCEPT ![o] = @ - 1] /\ SetM(m)
          /\ UNCHANGED <<holds, copyh, hascopy, extra, made>> /\ SetInner(inner)
          /\ Answer("undefer", arg, "done", m.gone, -1)

(* reply(msg) through the context itself: whatever the transport answers, no reference moves *)
ReplyCtx(o, msg, accept) ==
  /\ kind = "reply" /\ o <= made /\ alive[o] /\ FrameO
  /\ Same
  /\ Answer("reply", [o |-> o, msg |-> msg, accept |-> accept], "any", <<>>, -1)

(* write the counter directly: everything above the handles' share is held by the environment *)
Poke(o, v) ==
  /\ Pokable(kind) /\ o <= made /\ alive[o] /\ FrameO
  /\ v >= HRefs(o) + defer[o] + NestRefs(o) /\ v >= 1 /\ v <= Max
  /\ extra' = [extra EXCEPT ![o] = v - HRefs(o) - defer[o] - NestRefs(o)]
  /\ cnt' = [cnt EXCEPT ![o] = v]
  /\ UNCHANGED <<holds, copyh, hascopy, defer, made, alive, snd, inner>>
  /\ Answer("poke", [o |-> o, v |-> v], "ok", <<>>, -1)

(* array of references: element-wise copy of all handles (type traits init), and its release *)
RECURSIVE ArrFold(_, _, _)
ArrFold(h, m, acc) ==
  IF h > NH THEN [m |-> m, c |-> acc]
  ELSE LET o == holds[h] IN
       IF o # 0 /\ CanRaise(m, o) THEN ArrFold(h + 1, MRaise(m, o), Append(acc, o))
       ELSE ArrFold(h + 1, m, Append(acc, 0))
RECURSIVE DropFold(_, _)
DropFold(h, m) == IF h > NH THEN m ELSE DropFold(h + 1, MLower(m, copyh[h]))
ArrCopy ==
  LET r == ArrFold(1, M0, <<>>) IN
  /\ HasArr(kind) /\ ~hascopy /\ FrameO
  /\ copyh' = r.c /\ hascopy' = TRUE /\ SetM(r.m)
  /\ UNCHANGED <<holds, extra, defer, made, inner>>
  /\ Answer("arrcopy", [x |-> 0], "ok", <<>>, -1)
ArrDrop ==
  LET m == DropFold(1, M0) IN
  /\ HasArr(kind) /\ hascopy /\ FrameO
  /\ copyh' = [h \in Handles |-> 0] /\ hascopy' = FALSE /\ SetM(m)
  /\ UNCHANGED <<holds, extra, defer, made>> /\ SetInner(inner)
  /\ Answer("arrdrop", [x |-> 0], "ok", m.gone, -1)

(* a handle leaves (or keeps) its buffer through an array operation that needs a buffer of its own:   *)
(* copy-on-write detach (buffer detach(), mpt_array_reserve with the content type of the buffer,      *)
(* mpt_array_slice / insert / append, which detach before they write): a shared buffer is left to the *)
(* other holders and the handle gets a buffer of its own -- a copy, so what the shared one holds       *)
(* itself is retained once more for the copy; a unique buffer stays.                                   *)
(* via = "reserveother": mpt_array_reserve with ANOTHER content type -- nothing is copied: the handle  *)
(* leaves a shared buffer for a new empty one; a unique buffer stays and its content (the reference it *)
(* holds) is released.  In every case the handle's reference on the buffer it leaves is given back     *)
(* exactly once.                                                                                       *)
UnshareVias == {"vptr", "reserve", "reserveother", "slice", "insert", "append"}
Unshare(h, via) ==
  LET o == holds[h]  arg == [h |-> h, via |-> via]  keep == via # "reserveother" IN
  /\ kind = "buf" /\ o # 0 /\ Frame /\ via \in UnshareVias
  /\ (via = "append" => tlen = 0)                   \* raw bytes are only appended to an untyped buffer
  /\ IF cnt[o] > 1
     THEN /\ made < NObj
          /\ LET n  == made + 1
                 t  == IF keep THEN inner[o] ELSE 0
                 m1 == IF t # 0 /\ CanRaise(M0, t) THEN MRaise(M0, t) ELSE M0
                 m  == MLower(m1, o) IN
               /\ made' = n /\ holds' = [holds EXCEPT ![h] = n]
               /\ origin' = [origin EXCEPT ![n] = n]
               /\ cnt' = [m.cnt EXCEPT ![n] = 1] /\ alive' = [m.alive EXCEPT ![n] = TRUE]
               /\ UNCHANGED <<copyh, hascopy, extra, defer, snd>>
               /\ SetInner([inner EXCEPT ![n] = IF t # 0 /\ CanRaise(M0, t) THEN t ELSE 0])
          /\ Answer("unshare", arg, "ok", <<>>, -1)
     ELSE IF keep \/ inner[o] = 0
     THEN Same /\ KeepOrigin /\ Answer("unshare", arg, "ok", <<>>, -1)
     ELSE LET m == MLower(M0, inner[o]) IN
          /\ Tier1Same /\ KeepOrigin /\ SetM(m) /\ SetInner([inner EXCEPT ![o] = 0])
          /\ Answer("unshare", arg, "ok", m.gone, -1)

(* stream inputs: the notifier (mpt_notify_add) is one more holder.  An accepted add takes over the    *)
(* handle's reference (defer[o] = 1: the slot of the notifier) until clear / fini; a refused add --    *)
(* the descriptor is not one the kernel lets the notifier poll (tlen = 1: inputs of this behaviour are  *)
(* on regular files), or the input is in its slot already -- changes nothing: the notifier holds none.  *)
NotifyAdd(h) ==
  LET o == holds[h] IN
  /\ kind = "stream" /\ o # 0 /\ FrameO
  /\ IF tlen = 0 /\ defer[o] = 0
     THEN /\ holds' = [holds EXCEPT ![h] = 0] /\ defer' = [defer EXCEPT ![o] = 1]
          /\ UNCHANGED <<copyh, hascopy, extra, made, cnt, alive, snd, inner>>
          /\ Answer("nadd", [h |-> h], "ok", <<>>, -1)
     ELSE Same /\ Answer("nadd", [h |-> h], "refused", <<>>, -1)
(* mpt_notify_clear for the descriptor of input o: the notifier gives its reference back (if it has one) *)
NotifyClear(o) ==
  LET m == MLower(M0, o) IN
  /\ kind = "stream" /\ o <= made /\ alive[o] /\ FrameO
  /\ IF defer[o] > 0
     THEN /\ defer' = [defer EXCEPT ![o] = 0] /\ SetM(m)
          /\ UNCHANGED <<holds, copyh, hascopy, extra, made>> /\ SetInner(inner)
          \* the answer is that of the kernel's deregistration (fails when the input went with the slot): free
          /\ Answer("nclear", [o |-> o], "any", m.gone, -1)
     ELSE Same /\ Answer("nclear", [o |-> o], "any", <<>>, -1)
(* mpt_notify_fini: every slot is given back *)
RECURSIVE FiniFold(_, _)
FiniFold(o, m) == IF o > NObj THEN m ELSE FiniFold(o + 1, IF defer[o] > 0 THEN MLower(m, o) ELSE m)
NotifyFini ==
  LET m == FiniFold(1, M0) IN
  /\ kind = "stream" /\ FrameO
  /\ defer' = [o \in Objs |-> 0] /\ SetM(m)
  /\ UNCHANGED <<holds, copyh, hascopy, extra, made>> /\ SetInner(inner)
  /\ Answer("nfini", [x |-> 0], "ok", m.gone, -1)

(* metatype clone(): a new object for the empty handle g, or refused *)
Clone(h, g) ==
  LET o == holds[h] IN
  /\ kind \in MetaKinds /\ o # 0 /\ holds[g] = 0 /\ made < NObj /\ Frame
  /\ IF Clonable(kind)
     THEN LET n == made + 1 IN
          /\ made' = n /\ holds' = [holds EXCEPT ![g] = n]
          /\ origin' = [origin EXCEPT ![n] = origin[o]]
          /\ cnt' = [cnt EXCEPT ![n] = 1] /\ alive' = [alive EXCEPT ![n] = TRUE] /\ snd' = [snd EXCEPT ![n] = TRUE]
          /\ UNCHANGED <<copyh, hascopy, extra, defer>> /\ SetInner(inner)
          /\ Answer("clone", [h |-> h, g |-> g], "ok", <<>>, -1)
     ELSE Same /\ KeepOrigin /\ Answer("clone", [h |-> h, g |-> g], "refused", <<>>, -1)

(* everything is released: all handles, the array copy, plain-pointer references, detached handles  *)
(* (final reply).  Whatever the history was, every object is destroyed and nothing stays allocated. *)
RECURSIVE AliveSeq(_, _)
AliveSeq(a, o) == IF o > NObj THEN <<>> ELSE (IF a[o] THEN <<o>> ELSE <<>>) \o AliveSeq(a, o + 1)
CanTeardown(k, c) == k = "bare" \/ \A o \in Objs : c[o] <= Max \div 2     \* not while a counter is poked up to MAX-k
TeardownExp(k, a, c) ==
  [ret |-> "ok", href |-> [h \in Handles |-> 0], copy |-> [h \in Handles |-> 0], inner |-> [o \in Objs |-> 0],
   alive |-> [o \in Objs |-> 0], gone |-> IF k = "bare" THEN <<>> ELSE AliveSeq(a, 1),
   cnt |-> [o \in Objs |-> -1], shared |-> [o \in Objs |-> -1], val |-> -1,
   bare |-> IF k = "bare" THEN c[1] ELSE -1, badfree |-> 0, quiet |-> 0]
Teardown ==
  /\ CanTeardown(kind, cnt) /\ FrameK /\ KeepOrigin
  /\ holds' = [h \in Handles |-> 0] /\ copyh' = [h \in Handles |-> 0] /\ hascopy' = FALSE
  /\ extra' = [o \in Objs |-> 0] /\ defer' = [o \in Objs |-> 0] /\ tries' = [o \in Objs |-> 0]
  /\ inner' = [o \in Objs |-> 0] /\ UNCHANGED <<made, snd>>
  /\ cnt' = IF kind = "bare" THEN cnt ELSE [o \in Objs |-> 0]
  /\ alive' = [o \in Objs |-> FALSE]
  /\ obs' = [a |-> "teardown", arg |-> [x |-> 0], exp |-> TeardownExp(kind, alive, cnt)]

(* plain struct refcount: cnt[1] is the value; api = "c" | "cxx" (refcount::raise/lower) *)
BareSet(v) ==
  /\ kind = "bare" /\ FrameO /\ Tier1Same /\ UNCHANGED <<alive, snd, inner>>
  /\ cnt' = [cnt EXCEPT ![1] = v]
  /\ Answer("bareset", [v |-> v], "ok", <<>>, -1)
BareRaise(api) ==
  /\ kind = "bare" /\ FrameO /\ Tier1Same /\ UNCHANGED <<alive, snd, inner>>
  /\ IF cnt[1] # 0 /\ cnt[1] # Max
     THEN cnt' = [cnt EXCEPT ![1] = @ + 1] /\ Answer("bareraise", [api |-> api], "ok", <<>>, cnt[1] + 1)
     ELSE UNCHANGED cnt /\ Answer("bareraise", [api |-> api], "refused", <<>>, 0)
BareLower(api) ==
  /\ kind = "bare" /\ FrameO /\ Tier1Same /\ UNCHANGED <<alive, snd, inner>>
  /\ IF cnt[1] # 0
     THEN cnt' = [cnt EXCEPT ![1] = @ - 1] /\ Answer("barelower", [api |-> api], "ok", <<>>, cnt[1] - 1)
     ELSE UNCHANGED cnt /\ Answer("barelower", [api |-> api], "any", <<>>, -1)
BareSeen == IF kind = "bare" THEN cnt[1] ELSE -1

---------------------------------------------------------------------------
InitKind(k, tl) ==
  /\ kind = k /\ tlen = tl
  /\ holds = [h \in Handles |-> 0] /\ copyh = [h \in Handles |-> 0] /\ hascopy = FALSE
  /\ extra = [o \in Objs |-> 0] /\ defer = [o \in Objs |-> 0] /\ made = 0
  /\ inner = [o \in Objs |-> 0] /\ origin = [o \in Objs |-> 0]
  /\ cnt = [o \in Objs |-> IF k = "bare" /\ o = 1 THEN 1 ELSE 0] /\ alive = [o \in Objs |-> FALSE]
  /\ snd = [o \in Objs |-> TRUE] /\ tries = [o \in Objs |-> 0]
  /\ obs = [a |-> "init", arg |-> [kind |-> k, nh |-> NH, nobj |-> NObj, max |-> Max],
            exp |-> TeardownExp(k, [o \in Objs |-> FALSE], [o \in Objs |-> IF k = "bare" /\ o = 1 THEN 1 ELSE 0])]
Init == \E k \in Kinds : \E tl \in (IF k = "metanew" THEN TextLens ELSE IF k = "buf" THEN {0, 8} ELSE IF k = "stream" THEN {0, 1} ELSE {0}) : InitKind(k, tl)

PokeVals(o) == {Max - 1, Max} \cup (IF HRefs(o) + defer[o] + NestRefs(o) >= 1 THEN {HRefs(o) + defer[o] + NestRefs(o)} ELSE {})

Next ==
  \/ \E h \in Handles : Create(h) \/ Detach(h)
  \/ \E h \in Handles, g \in Handles, via \in CopyVias(kind), sin \in {0, 1} : Copy(h, g, via, sin)
  \/ \E h \in Handles, g \in Handles, via \in CopyVias(kind) : Nest(h, g, via)
  \/ \E h \in Handles, via \in DropVias(kind) : Drop(h, via)
  \/ \E h \in Handles, g \in Handles : Move(h, g) \/ Clone(h, g)
  \/ \E h \in Handles, via \in UnshareVias : Unshare(h, via)
  \/ \E h \in Handles : NotifyAdd(h)
  \/ \E o \in Objs : NotifyClear(o)
  \/ NotifyFini
  \/ \E h \in Handles, o \in Objs : Adopt(h, o)
  \/ \E o \in Objs : RawRef(o) \/ RawUnref(o) \/ Defer(o, 0) \/ Defer(o, 1)
  \/ \E o \in Objs, msg \in {0, 1}, accept \in {0, 1} : Undefer(o, msg, accept)
  \/ \E o \in Objs, accept \in {0, 1} : ReplyCtx(o, 1, accept)
  \/ \E o \in Objs : \E v \in PokeVals(o) : Poke(o, v)
  \/ ArrCopy \/ ArrDrop
  \/ \E v \in {0, 1, 2, Max - 1, Max} : BareSet(v)
  \/ \E api \in {"c", "cxx"} : BareRaise(api) \/ BareLower(api)
  \/ Teardown

Spec == Init /\ [][Next]_vars

---------------------------------------------------------------------------
(* invariants *)
TypeOK ==
  /\ kind \in Kinds /\ made \in 0..NObj
  /\ \A h \in Handles : holds[h] \in 0..made /\ copyh[h] \in 0..made
  /\ \A o \in Objs : inner[o] \in 0..made /\ origin[o] \in 0..made
  /\ \A o \in Objs : cnt[o] \in 0..Max /\ extra[o] \in 0..Max /\ defer[o] \in 0..MaxExtra /\ snd[o] \in BOOLEAN /\ tries[o] \in 0..MaxTries

(* the object lives exactly as long as somebody refers to it *)
AliveIffReferenced == kind # "bare" => \A o \in Objs : alive[o] <=> (o <= made /\ o \in Live1)
(* the counter equals the number of references; never beyond Max (no wrap) *)
CountExact == kind # "bare" => \A o \in Objs : alive[o] => (IF Sharable(kind) THEN cnt[o] = Refs(o) ELSE Refs(o) = 1)
(* nobody refers to an object that has been destroyed *)
NoDangling == /\ \A h \in Handles : (holds[h] # 0 => alive[holds[h]]) /\ (hascopy /\ copyh[h] # 0 => alive[copyh[h]])
              /\ \A o \in Objs : inner[o] # 0 => (alive[o] /\ alive[inner[o]])
(* what the check compares (computed from Tier 1) agrees with Tier 2 *)
ObsAgrees == /\ \A o \in Objs : obs.exp.alive[o] = Bit(alive[o])
             /\ \A o \in Objs : obs.exp.cnt[o] = Seen(o, cnt, alive)

(* action properties *)
RefusedUnchanged == [][obs'.exp.ret \in {"refused", "kept"} => UNCHANGED <<holds, copyh, hascopy, extra, defer, made, inner, cnt, alive, snd>>]_vars
DestroyedOnce    == [][\A o \in Objs : (alive[o] /\ ~alive'[o]) <=> (\E i \in 1..Len(obs'.exp.gone) : obs'.exp.gone[i] = o)]_vars
NoResurrection   == [][\A o \in Objs : (o <= made /\ ~alive[o]) => ~alive'[o]]_vars
ReplaceOnce      == [][(obs'.a = "copy" /\ obs'.exp.ret = "ok" /\ obs'.arg.sin = 0 /\ holds[obs'.arg.h] # holds[obs'.arg.g]) =>
                         LET t == holds[obs'.arg.g]  o == holds[obs'.arg.h] IN
                         /\ (t # 0 /\ ~Reaches(o, t) => cnt'[t] = cnt[t] + 1)
                         /\ (o # 0 /\ ~Reaches(t, o) => cnt'[o] = cnt[o] - 1 \/ (~Sharable(kind) /\ cnt'[o] = 0))]_vars
(* retain before release: the object being assigned survives the assignment, whoever kept it alive before *)
NewReferentSurvives == [][(obs'.a = "copy" /\ obs'.exp.ret = "ok" /\ holds'[obs'.arg.h] # 0) => alive'[holds'[obs'.arg.h]]]_vars
TeardownClears   == [][obs'.a = "teardown" => \A o \in Objs : ~alive'[o]]_vars
=============================================================================
