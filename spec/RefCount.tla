------------------------------ MODULE RefCount ------------------------------
(***************************************************************************)
(* Reference-counted objects of mpt-base (property C15).                    *)
(*                                                                         *)
(* Tier 1 (meaning): who refers to what -- holds[h] (a handle: array,       *)
(*   metatype reference slot, C++ reference<T>), copyh (an array-of-        *)
(*   references copy of all handles), extra[o] (references the environment  *)
(*   holds as plain pointers: vptr addref, reference<T>::detach), defer[o]  *)
(*   (outstanding deferred reply handles).  Refs(o) counts them.            *)
(* Tier 2 (design): cnt[o], the counter as mpt_refcount_raise/lower keep    *)
(*   it, and alive[o]; every action is the sequence of raise/lower calls    *)
(*   the implementation makes (raise the new referent first, then lower     *)
(*   the old one; destruction when lower returns 0).                        *)
(* TLC checks  alive[o] <=> Refs(o) > 0  and  cnt[o] = Refs(o)  for every   *)
(* history, that a refused raise changes nothing and never wraps.           *)
(* AsFound = TRUE replays the design of _mpt_metatype_wrap at the pinned    *)
(* commit (addref on the replaced referent) -- MC_RefCount_asfound.cfg.     *)
(*                                                                         *)
(* One object kind per behaviour (chosen in Init):                          *)
(*   buf      shared buffer of _mpt_buffer_alloc, handles are arrays        *)
(*   hmeta    harness-implemented metatype counting with mpt_refcount_*     *)
(*   reply    mpt_reply_deferrable context (metatype + deferred handles)    *)
(*   rawdata  mpt_rawdata_create (with one stage of values inside)          *)
(*   stream   mpt_stream_input on a socket pair                             *)
(*   outlocal, outremote   mpt_output_local / mpt_output_remote             *)
(*   iterfile mpt_iterator_filename (shareable and clonable)                *)
(*   geninfo  mpt_meta_geninfo  (not shareable: addref answers 0)           *)
(*   metabuf  mpt_meta_buffer   (not shareable, clonable)                   *)
(*   cxxref   C++ reference<T>::type with reference<T> handles              *)
(*   bare     a plain struct refcount (counter edge values)                 *)
(***************************************************************************)
EXTENDS Naturals, Integers, Sequences, FiniteSets, TLC

CONSTANTS Kinds, NH, NObj,
          Max,        \* largest counter value (UINTPTR_MAX, scaled; values above Max \div 2 are "MAX - k")
          MaxExtra,   \* bound on plain-pointer references per object taken one by one
          MaxTries,   \* bound on consecutive rejected replies through one detached handle
          AsFound

VARIABLES kind, holds, copyh, hascopy, extra, defer, made,   \* Tier 1
          cnt, alive,                                         \* Tier 2
          snd,        \* Tier 2, reply contexts: the send callback is still set (ctx->reply.send); a metatype
                      \* unref that leaves other references clears it, after that every reply counts as delivered
          tries,      \* rejected reply attempts on the current detached handle of o (bounded by MaxTries):
                      \* makes "failed, handle kept, try again" a history the exploration walks through
          obs
vars == <<kind, holds, copyh, hascopy, extra, defer, made, cnt, alive, snd, tries, obs>>

Handles == 1..NH
Objs    == 1..NObj

---------------------------------------------------------------------------
(* what each kind offers *)
MetaKinds   == {"hmeta", "reply", "rawdata", "stream", "geninfo", "metabuf", "outlocal", "outremote", "iterfile"}
Sharable(k) == k \in {"buf", "hmeta", "reply", "rawdata", "stream", "cxxref", "outlocal", "outremote", "iterfile"}
Clonable(k) == k \in {"hmeta", "geninfo", "metabuf", "iterfile"}
Pokable(k)  == k \in {"hmeta", "cxxref"}
CntSeen(k)  == k \in {"hmeta", "cxxref"}          \* the driver can read the counter
CopyVias(k) == IF k = "buf" THEN {"clone", "traits", "cxx", "cxxctor"}
               ELSE IF k = "cxxref" THEN {"cxx", "cxxctor"}
               ELSE IF k \in MetaKinds THEN {"conv", "value", "valueptr", "traits", "cxx", "cxxctor"} ELSE {}
DropVias(k) == IF k = "buf" THEN {"clone", "fini", "raw", "cxx"}
               ELSE IF k = "cxxref" THEN {"cxx"}
               ELSE IF k \in MetaKinds THEN {"conv", "value", "fini", "raw", "cxx"} ELSE {}
HasCxx(k)   == k # "bare"
HasArr(k)   == k = "buf" \/ k \in MetaKinds
Construct(via) == via \in {"traits", "cxxctor"}    \* the destination is raw storage
ClearsOnFail(via) == via \in {"cxx", "cxxctor"}    \* reference<T>: handle ends up empty

---------------------------------------------------------------------------
(* Tier 1 *)
Count(S) == Cardinality(S)
HRefsOf(hl, ch, hc, o) == Count({h \in Handles : hl[h] = o}) + (IF hc THEN Count({h \in Handles : ch[h] = o}) ELSE 0)
HRefs(o) == HRefsOf(holds, copyh, hascopy, o)
Refs(o)  == HRefs(o) + extra[o] + defer[o]

(* Tier 2: counter machine  m = [cnt, alive, gone] *)
M0 == [cnt |-> cnt, alive |-> alive, snd |-> snd, gone |-> <<>>]
CanRaise(m, o) == Sharable(kind) /\ m.alive[o] /\ m.cnt[o] # 0 /\ m.cnt[o] # Max
MRaise(m, o)   == [m EXCEPT !.cnt[o] = @ + 1]
MLowerD(m, o)  == IF o = 0 THEN m                       \* release that is not a metatype unref (detached handle)
                  ELSE IF m.cnt[o] <= 1 \/ ~Sharable(kind)
                  THEN [m EXCEPT !.cnt[o] = 0, !.alive[o] = FALSE, !.gone = Append(@, o)]
                  ELSE [m EXCEPT !.cnt[o] = @ - 1]
MLower(m, o)   == IF o = 0 THEN m                       \* unref through the object's interface
                  ELSE IF m.cnt[o] <= 1 \/ ~Sharable(kind)
                  THEN [m EXCEPT !.cnt[o] = 0, !.alive[o] = FALSE, !.gone = Append(@, o)]
                  ELSE [m EXCEPT !.cnt[o] = @ - 1, !.snd[o] = IF kind = "reply" THEN FALSE ELSE @]
MTryRaise(m, o) == IF o # 0 /\ CanRaise(m, o) THEN MRaise(m, o) ELSE m

SetM(m) == cnt' = m.cnt /\ alive' = m.alive /\ snd' = m.snd

(* counter as the driver reports it: k for small values, Max-k mapped by the driver *)
Seen(o, c, a) == IF CntSeen(kind) /\ a[o] THEN c[o] ELSE -1
Bit(b) == IF b THEN 1 ELSE 0

Answer(a, arg, ret, gone, val) ==
  obs' = [a |-> a, arg |-> arg,
          exp |-> [ret    |-> ret,
                   href   |-> holds',
                   copy   |-> IF hascopy' THEN copyh' ELSE [h \in Handles |-> 0],
                   alive  |-> [o \in Objs |-> Bit(HRefsOf(holds', copyh', hascopy', o) + extra'[o] + defer'[o] > 0 /\ o <= made')],
                   gone   |-> gone,
                   cnt    |-> [o \in Objs |-> IF CntSeen(kind) /\ o <= made'
                                                 /\ HRefsOf(holds', copyh', hascopy', o) + extra'[o] + defer'[o] > 0
                                              THEN HRefsOf(holds', copyh', hascopy', o) + extra'[o] + defer'[o] ELSE -1],
                   shared |-> [o \in Objs |-> IF kind = "buf" /\ o <= made'
                                                 /\ HRefsOf(holds', copyh', hascopy', o) + extra'[o] + defer'[o] > 0
                                              THEN Bit(HRefsOf(holds', copyh', hascopy', o) + extra'[o] + defer'[o] > 1) ELSE -1],
                   val    |-> val,
                   bare   |-> IF kind = "bare" THEN cnt'[1] ELSE -1,
                   badfree |-> 0,   \* nothing is ever released that is not a live allocation
                   quiet  |-> IF ~hascopy' /\ \A o \in Objs : HRefsOf(holds', copyh', hascopy', o) + extra'[o] + defer'[o] = 0
                              THEN 0 ELSE -1]]   \* nothing refers to anything: nothing may stay allocated

Tier1Same == UNCHANGED <<holds, copyh, hascopy, extra, defer, made>>
NoTry     == UNCHANGED tries
Same      == Tier1Same /\ UNCHANGED <<cnt, alive, snd>>
FrameK    == UNCHANGED kind
Frame     == FrameK /\ NoTry

---------------------------------------------------------------------------
(* a new object, referred to by the empty handle h *)
Create(h) ==
  /\ kind # "bare" /\ holds[h] = 0 /\ made < NObj
  /\ LET o == made + 1 IN
       /\ made' = o
       /\ holds' = [holds EXCEPT ![h] = o]
       /\ cnt' = [cnt EXCEPT ![o] = 1] /\ alive' = [alive EXCEPT ![o] = TRUE] /\ snd' = [snd EXCEPT ![o] = TRUE]
  /\ UNCHANGED <<copyh, hascopy, extra, defer>> /\ Frame
  /\ Answer("create", [h |-> h], "ok", <<>>, -1)

(* handle h := what handle g refers to *)
Copy(h, g, via) ==
  LET t == holds[g]  o == holds[h]  arg == [h |-> h, g |-> g, via |-> via] IN
  /\ via \in CopyVias(kind) /\ (Construct(via) => o = 0) /\ Frame
  /\ IF t = o
     THEN /\ Tier1Same /\ UNCHANGED <<cnt, alive>>
          \* assigning the referent to itself through conversion is addref + unref: no reference moves,
          \* but the unref is one that "leaves other references" (clears a reply context's send callback)
          /\ snd' = IF o # 0 /\ kind = "reply" /\ via \in {"conv", "value", "valueptr"} /\ CanRaise(M0, o)
                    THEN [snd EXCEPT ![o] = FALSE] ELSE snd
          /\ Answer("copy", arg, "any", <<>>, -1)
     ELSE IF t # 0 /\ ~CanRaise(M0, t)
     THEN IF ClearsOnFail(via)
          THEN LET m == MLower(M0, o) IN
               /\ holds' = [holds EXCEPT ![h] = 0] /\ SetM(m)
               /\ UNCHANGED <<copyh, hascopy, extra, defer, made>>
               /\ Answer("copy", arg, "any", m.gone, -1)
          ELSE Same /\ Answer("copy", arg, "refused", <<>>, -1)
     ELSE LET m1 == IF t = 0 THEN M0 ELSE MRaise(M0, t)
              m2 == IF AsFound /\ via \in {"conv", "value", "valueptr"} THEN MTryRaise(m1, o) ELSE MLower(m1, o) IN
          /\ holds' = [holds EXCEPT ![h] = t] /\ SetM(m2)
          /\ UNCHANGED <<copyh, hascopy, extra, defer, made>>
          /\ Answer("copy", arg, "ok", m2.gone, -1)

(* handle h gives up its reference *)
Drop(h, via) ==
  LET o == holds[h]  m == MLower(M0, o) IN
  /\ via \in DropVias(kind) /\ Frame
  /\ holds' = [holds EXCEPT ![h] = 0] /\ SetM(m)
  /\ UNCHANGED <<copyh, hascopy, extra, defer, made>>
  /\ Answer("drop", [h |-> h, via |-> via], IF o = 0 THEN "any" ELSE "ok", m.gone, -1)

(* C++ move assignment: h takes over g's reference *)
Move(h, g) ==
  LET t == holds[g]  o == holds[h] IN
  /\ HasCxx(kind) /\ Frame
  /\ IF h = g THEN Same /\ Answer("move", [h |-> h, g |-> g], "ok", <<>>, -1)
     ELSE LET m == MLower(M0, o) IN
          /\ holds' = [holds EXCEPT ![h] = t, ![g] = 0] /\ SetM(m)
          /\ UNCHANGED <<copyh, hascopy, extra, defer, made>>
          /\ Answer("move", [h |-> h, g |-> g], "ok", m.gone, -1)

(* reference<T>::detach(): the plain pointer now carries the reference *)
Detach(h) ==
  LET o == holds[h] IN
  /\ HasCxx(kind) /\ o # 0 /\ extra[o] < MaxExtra /\ Frame
  /\ holds' = [holds EXCEPT ![h] = 0] /\ extra' = [extra EXCEPT ![o] = @ + 1]
  /\ UNCHANGED <<copyh, hascopy, defer, made, cnt, alive, snd>>
  /\ Answer("detach", [h |-> h], "ok", <<>>, -1)

(* reference<T>::set_instance(p): the handle takes over a plain-pointer reference *)
Adopt(h, o) ==
  LET old == holds[h]  m == MLower(M0, old) IN
  /\ HasCxx(kind) /\ o <= made /\ extra[o] > 0 /\ Frame
  /\ (old = o => cnt[o] > 1)        \* handing a handle its own only reference is a caller error
  /\ holds' = [holds EXCEPT ![h] = o] /\ extra' = [extra EXCEPT ![o] = @ - 1] /\ SetM(m)
  /\ UNCHANGED <<copyh, hascopy, defer, made>>
  /\ Answer("adopt", [h |-> h, o |-> o], "ok", m.gone, -1)

(* addref / unref through the object's own interface *)
RawRef(o) ==
  /\ kind # "bare" /\ o <= made /\ alive[o] /\ extra[o] < MaxExtra /\ Frame
  /\ IF CanRaise(M0, o)
     THEN /\ extra' = [extra EXCEPT ![o] = @ + 1] /\ SetM(MRaise(M0, o))
          /\ UNCHANGED <<holds, copyh, hascopy, defer, made>>
          /\ Answer("rawref", [o |-> o], "ok", <<>>, -1)
     ELSE Same /\ Answer("rawref", [o |-> o], "refused", <<>>, -1)
RawUnref(o) ==
  LET m == MLower(M0, o) IN
  /\ kind # "bare" /\ o <= made /\ extra[o] > 0 /\ Frame
  /\ extra' = [extra EXCEPT ![o] = @ - 1] /\ SetM(m)
  /\ UNCHANGED <<holds, copyh, hascopy, defer, made>>
  /\ Answer("rawunref", [o |-> o], "ok", m.gone, -1)

(* reply context: defer() hands out a detached handle that keeps the context *)
Defer(o) ==
  /\ kind = "reply" /\ o <= made /\ alive[o] /\ defer[o] < MaxExtra /\ Frame
  /\ IF CanRaise(M0, o)
     THEN /\ defer' = [defer EXCEPT ![o] = @ + 1] /\ SetM(MRaise(M0, o))
          /\ UNCHANGED <<holds, copyh, hascopy, extra, made>>
          /\ Answer("defer", [o |-> o], "ok", <<>>, -1)
     ELSE Same /\ Answer("defer", [o |-> o], "refused", <<>>, -1)
(* reply(msg) through a detached handle.  The transport either accepts or rejects the send (accept); *)
(* an explicit reply (msg = 1) that is rejected keeps the handle -- and therefore its reference --   *)
(* for a retry; every other outcome (accepted, final reply(0), nobody left to send to) consumes the  *)
(* handle and gives its reference back exactly once.                                                *)
Undefer(o, msg, accept) ==
  LET arg  == [o |-> o, msg |-> msg, accept |-> accept]
      kept == msg = 1 /\ accept = 0 /\ snd[o]
      m    == MLowerD(M0, o) IN
  /\ kind = "reply" /\ o <= made /\ defer[o] > 0 /\ FrameK
  /\ IF kept
     THEN /\ tries[o] < MaxTries
          /\ tries' = [tries EXCEPT ![o] = @ + 1]
          /\ Same /\ Answer("undefer", arg, "kept", <<>>, -1)
     ELSE /\ tries' = [tries EXCEPT ![o] = 0]
          /\ defer' = [defer EXCEPT ![o] = @ - 1] /\ SetM(m)
          /\ UNCHANGED <<holds, copyh, hascopy, extra, made>>
          /\ Answer("undefer", arg, "done", m.gone, -1)

(* reply(msg) through the context itself: whatever the transport answers, no reference moves *)
ReplyCtx(o, msg, accept) ==
  /\ kind = "reply" /\ o <= made /\ alive[o] /\ Frame
  /\ Same
  /\ Answer("reply", [o |-> o, msg |-> msg, accept |-> accept], "any", <<>>, -1)

(* write the counter directly: everything above the handles' share is held by the environment *)
Poke(o, v) ==
  /\ Pokable(kind) /\ o <= made /\ alive[o] /\ Frame
  /\ v >= HRefs(o) + defer[o] /\ v >= 1 /\ v <= Max
  /\ extra' = [extra EXCEPT ![o] = v - HRefs(o) - defer[o]]
  /\ cnt' = [cnt EXCEPT ![o] = v]
  /\ UNCHANGED <<holds, copyh, hascopy, defer, made, alive, snd>>
  /\ Answer("poke", [o |-> o, v |-> v], "ok", <<>>, -1)

(* array of references: element-wise copy of all handles (type traits init), and its release *)
RECURSIVE ArrFold(_, _, _)
ArrFold(h, m, acc) ==
  IF h > NH THEN [m |-> m, c |-> acc]
  ELSE LET o == holds[h] IN
       IF o # 0 /\ CanRaise(m, o) THEN ArrFold(h + 1, MRaise(m, o), Append(acc, o))
       ELSE ArrFold(h + 1, m, Append(acc, 0))
RECURSIVE DropFold(_, _)
DropFold(h, m) == IF h > NH THEN m ELSE DropFold(h + 1, MLower(m, copyh[h]))
ArrCopy ==
  LET r == ArrFold(1, M0, <<>>) IN
  /\ HasArr(kind) /\ ~hascopy /\ Frame
  /\ copyh' = r.c /\ hascopy' = TRUE /\ SetM(r.m)
  /\ UNCHANGED <<holds, extra, defer, made>>
  /\ Answer("arrcopy", [x |-> 0], "ok", <<>>, -1)
ArrDrop ==
  LET m == DropFold(1, M0) IN
  /\ HasArr(kind) /\ hascopy /\ Frame
  /\ copyh' = [h \in Handles |-> 0] /\ hascopy' = FALSE /\ SetM(m)
  /\ UNCHANGED <<holds, extra, defer, made>>
  /\ Answer("arrdrop", [x |-> 0], "ok", m.gone, -1)

(* copy-on-write detach of a buffer (buffer detach(), mpt_array_reserve): a shared buffer is left *)
(* to the other holders and the handle gets a buffer of its own; a unique one stays               *)
Unshare(h, via) ==
  LET o == holds[h]  arg == [h |-> h, via |-> via] IN
  /\ kind = "buf" /\ o # 0 /\ Frame
  /\ IF cnt[o] > 1
     THEN /\ made < NObj
          /\ LET n == made + 1  m == MLower(M0, o) IN
               /\ made' = n /\ holds' = [holds EXCEPT ![h] = n]
               /\ cnt' = [m.cnt EXCEPT ![n] = 1] /\ alive' = [m.alive EXCEPT ![n] = TRUE]
          /\ UNCHANGED <<copyh, hascopy, extra, defer, snd>>
          /\ Answer("unshare", arg, "ok", <<>>, -1)
     ELSE Same /\ Answer("unshare", arg, "ok", <<>>, -1)

(* metatype clone(): a new object for the empty handle g, or refused *)
Clone(h, g) ==
  LET o == holds[h] IN
  /\ kind \in MetaKinds /\ o # 0 /\ holds[g] = 0 /\ made < NObj /\ Frame
  /\ IF Clonable(kind)
     THEN LET n == made + 1 IN
          /\ made' = n /\ holds' = [holds EXCEPT ![g] = n]
          /\ cnt' = [cnt EXCEPT ![n] = 1] /\ alive' = [alive EXCEPT ![n] = TRUE] /\ snd' = [snd EXCEPT ![n] = TRUE]
          /\ UNCHANGED <<copyh, hascopy, extra, defer>>
          /\ Answer("clone", [h |-> h, g |-> g], "ok", <<>>, -1)
     ELSE Same /\ Answer("clone", [h |-> h, g |-> g], "refused", <<>>, -1)

(* plain struct refcount: cnt[1] is the value; api = "c" | "cxx" (refcount::raise/lower) *)
BareSet(v) ==
  /\ kind = "bare" /\ Frame /\ Tier1Same /\ UNCHANGED <<alive, snd>>
  /\ cnt' = [cnt EXCEPT ![1] = v]
  /\ Answer("bareset", [v |-> v], "ok", <<>>, -1)
BareRaise(api) ==
  /\ kind = "bare" /\ Frame /\ Tier1Same /\ UNCHANGED <<alive, snd>>
  /\ IF cnt[1] # 0 /\ cnt[1] # Max
     THEN cnt' = [cnt EXCEPT ![1] = @ + 1] /\ Answer("bareraise", [api |-> api], "ok", <<>>, cnt[1] + 1)
     ELSE UNCHANGED cnt /\ Answer("bareraise", [api |-> api], "refused", <<>>, 0)
BareLower(api) ==
  /\ kind = "bare" /\ Frame /\ Tier1Same /\ UNCHANGED <<alive, snd>>
  /\ IF cnt[1] # 0
     THEN cnt' = [cnt EXCEPT ![1] = @ - 1] /\ Answer("barelower", [api |-> api], "ok", <<>>, cnt[1] - 1)
     ELSE UNCHANGED cnt /\ Answer("barelower", [api |-> api], "any", <<>>, -1)
BareSeen == IF kind = "bare" THEN cnt[1] ELSE -1

---------------------------------------------------------------------------
InitKind(k) ==
  /\ kind = k
  /\ holds = [h \in Handles |-> 0] /\ copyh = [h \in Handles |-> 0] /\ hascopy = FALSE
  /\ extra = [o \in Objs |-> 0] /\ defer = [o \in Objs |-> 0] /\ made = 0
  /\ cnt = [o \in Objs |-> IF k = "bare" /\ o = 1 THEN 1 ELSE 0] /\ alive = [o \in Objs |-> FALSE]
  /\ snd = [o \in Objs |-> TRUE] /\ tries = [o \in Objs |-> 0]
  /\ obs = [a |-> "init", arg |-> [kind |-> k, nh |-> NH, nobj |-> NObj, max |-> Max],
            exp |-> [ret |-> "ok", href |-> [h \in Handles |-> 0], copy |-> [h \in Handles |-> 0],
                     alive |-> [o \in Objs |-> 0], gone |-> <<>>, cnt |-> [o \in Objs |-> -1],
                     shared |-> [o \in Objs |-> -1], val |-> -1, bare |-> IF k = "bare" THEN 1 ELSE -1, badfree |-> 0, quiet |-> 0]]
Init == \E k \in Kinds : InitKind(k)

PokeVals(o) == {Max - 1, Max} \cup (IF HRefs(o) + defer[o] >= 1 THEN {HRefs(o) + defer[o]} ELSE {})

Next ==
  \/ \E h \in Handles : Create(h) \/ Detach(h)
  \/ \E h \in Handles, g \in Handles, via \in CopyVias(kind) : Copy(h, g, via)
  \/ \E h \in Handles, via \in DropVias(kind) : Drop(h, via)
  \/ \E h \in Handles, g \in Handles : Move(h, g) \/ Clone(h, g)
  \/ \E h \in Handles, via \in {"vptr", "reserve"} : Unshare(h, via)
  \/ \E h \in Handles, o \in Objs : Adopt(h, o)
  \/ \E o \in Objs : RawRef(o) \/ RawUnref(o) \/ Defer(o)
  \/ \E o \in Objs, msg \in {0, 1}, accept \in {0, 1} : Undefer(o, msg, accept)
  \/ \E o \in Objs, accept \in {0, 1} : ReplyCtx(o, 1, accept)
  \/ \E o \in Objs : \E v \in PokeVals(o) : Poke(o, v)
  \/ ArrCopy \/ ArrDrop
  \/ \E v \in {0, 1, 2, Max - 1, Max} : BareSet(v)
  \/ \E api \in {"c", "cxx"} : BareRaise(api) \/ BareLower(api)

Spec == Init /\ [][Next]_vars

---------------------------------------------------------------------------
(* invariants *)
TypeOK ==
  /\ kind \in Kinds /\ made \in 0..NObj
  /\ \A h \in Handles : holds[h] \in 0..made /\ copyh[h] \in 0..made
  /\ \A o \in Objs : cnt[o] \in 0..Max /\ extra[o] \in 0..Max /\ defer[o] \in 0..MaxExtra /\ snd[o] \in BOOLEAN /\ tries[o] \in 0..MaxTries

(* the object lives exactly as long as somebody refers to it *)
AliveIffReferenced == kind # "bare" => \A o \in Objs : alive[o] <=> (o <= made /\ Refs(o) > 0)
(* the counter equals the number of references; never beyond Max (no wrap) *)
CountExact == kind # "bare" => \A o \in Objs : alive[o] => (IF Sharable(kind) THEN cnt[o] = Refs(o) ELSE Refs(o) = 1)
(* nobody refers to an object that has been destroyed *)
NoDangling == \A h \in Handles : (holds[h] # 0 => alive[holds[h]]) /\ (hascopy /\ copyh[h] # 0 => alive[copyh[h]])
(* what the check compares (computed from Tier 1) agrees with Tier 2 *)
ObsAgrees == /\ \A o \in Objs : obs.exp.alive[o] = Bit(alive[o])
             /\ \A o \in Objs : obs.exp.cnt[o] = Seen(o, cnt, alive)

(* action properties *)
RefusedUnchanged == [][obs'.exp.ret \in {"refused", "kept"} => UNCHANGED <<holds, copyh, hascopy, extra, defer, made, cnt, alive, snd>>]_vars
DestroyedOnce    == [][\A o \in Objs : (alive[o] /\ ~alive'[o]) <=> (\E i \in 1..Len(obs'.exp.gone) : obs'.exp.gone[i] = o)]_vars
NoResurrection   == [][\A o \in Objs : (o <= made /\ ~alive[o]) => ~alive'[o]]_vars
ReplaceOnce      == [][(obs'.a = "copy" /\ obs'.exp.ret = "ok" /\ holds[obs'.arg.h] # holds[obs'.arg.g]) =>
                         LET t == holds[obs'.arg.g]  o == holds[obs'.arg.h] IN
                         /\ (t # 0 => cnt'[t] = cnt[t] + 1)
                         /\ (o # 0 => cnt'[o] = cnt[o] - 1 \/ (~Sharable(kind) /\ cnt'[o] = 0))]_vars
=============================================================================
