---------------------------- MODULE Trace_ObjSet ----------------------------
(* Trace validation for ObjSet: a recorded execution of the real front doors *)
(* on layout objects (one event per call: arguments + ALL properties of both *)
(* objects afterwards) must be a behaviour the statement permits: every      *)
(* property of the target is what it was or what a handed-in value for it    *)
(* denotes on the direct route (Perm, all of them when nothing is refused    *)
(* and the names differ), a refused call changed nothing, the other object   *)
(* is untouched, listings name the listed properties of the asked class once *)
(* and in order with their current values, printed text set again gives      *)
(* equal properties.  The model follows the observed state (the design tier  *)
(* of ObjSet is not used here).  Executions are concatenated; each starts    *)
(* with an "init" event.                                                     *)
EXTENDS ObjSet, Json, IOUtils
VARIABLE l
TraceLog == ndJsonDeserialize(IOEnv.TRACE)

ResetTo(k) ==
  /\ kind' = k
  /\ t2' = <<Def2(k), Def2(k)>> /\ t1' = <<Def1(k), Def1(k)>> /\ nid' = 1
  /\ obs' = [a |-> "init", arg |-> [kind |-> k], tgt |-> "", den |-> <<>>, door |-> 0, perm |-> <<>>,
             exp |-> [p0 |-> AllView1(k, Def1(k)), p1 |-> AllView1(k, Def1(k)), shared |-> 0]]

EntOf(a) == Ent(a.name, V(a.f, a.n, a.c, a.sty), a.x)
EntsOf(ev) == [i \in 1..Len(ev.arg.ents) |-> EntOf(ev.arg.ents[i])]
ValsOf(ev) == [i \in 1..Len(ev.arg.ents) |-> EntOf(ev.arg.ents[i]).v]
PO(ev, o) == IF o = 1 THEN ev.obs.p0 ELSE ev.obs.p1

(* the struct image that reads like the observed properties (strings that changed get new storage) *)
RECURSIVE Build2(_, _, _, _, _)
Build2(r, a0, a1, ss, id) ==
  IF ss = {} THEN r
  ELSE LET s == CHOOSE x \in ss : TRUE IN
       Build2(IF a1[s] = a0[s] THEN r ELSE Put2(kind, r, s, a1[s], id), a0, a1, ss \ {s}, id + 1)
Follow(o, p) ==      \* the target is from now on what was observed
  LET a1 == [s \in Slots(kind) |-> p[s]] IN
  /\ t1' = [t1 EXCEPT ![o] = a1]
  /\ t2' = [t2 EXCEPT ![o] = Build2(t2[o], t1[o], a1, Slots(kind), nid)]
  /\ nid' = nid + Cardinality(Slots(kind))
  /\ UNCHANGED kind
Answered(a, o, perm) ==
  obs' = [a |-> a, arg |-> <<>>, tgt |-> "", den |-> <<>>, door |-> o, perm |-> perm,
          exp |-> [p0 |-> AllView1(kind, t1'[1]), p1 |-> AllView1(kind, t1'[2]), shared |-> SharedCount']]
(* a door step: the observed properties of the target lie inside what the results rs permit *)
DoorX(a, ev, o, rs) ==
  LET p == PO(ev, o)  perm == Perm(t1[o], rs) IN
  /\ \A nm \in ReadNames(kind) : nm \in DOMAIN p /\ InPerm(p[nm], perm[nm])
  /\ kind = "text" => p.pos = p.x \o p.y
  /\ Follow(o, p)
  /\ Answered(a, o, perm)
Single(ev, r1) ==    \* one assignment: a settled answer is the answer, a refusal changes nothing
  /\ r1.ret \in {"ok", "refused"} => ev.obs.ret = r1.ret
  /\ ev.obs.ret = "refused" => PO(ev, ev.arg.o + 1) = AllView1(kind, t1[ev.arg.o + 1])
  /\ (ev.obs.ret = "ok" /\ r1.ret = "either") => PO(ev, ev.arg.o + 1) = AllView1(kind, Put1(kind, t1[ev.arg.o + 1], r1.tgt, r1.den))

NodeRs(ev) ==
  LET ents == EntsOf(ev)  m == ev.arg.match IN
  [i \in 1..Len(ents) |-> LET r == EntRes(NodeEnt(ents[i]), FALSE) IN
                          IF Processed(ents[i], m, i) \/ r.ret # "ok" THEN r ELSE Res("either", r.tgt, r.den)]
SeenNames(ev) == [j \in 1..Len(ev.obs.seen) |-> ev.obs.seen[j].n]
SeenVals(ev)  == [j \in 1..Len(ev.obs.seen) |-> ev.obs.seen[j].v]
Quiet(a) == Same /\ obs' = [a |-> a, arg |-> <<>>, tgt |-> "", den |-> <<>>, door |-> 0, perm |-> <<>>,
                            exp |-> [p0 |-> AllView1(kind, t1[1]), p1 |-> AllView1(kind, t1[2]), shared |-> SharedCount]]

Step(ev) ==
  LET o == IF "o" \in DOMAIN ev.arg THEN ev.arg.o + 1 ELSE 1 IN
  CASE ev.a = "init" -> ResetTo(ev.arg.kind)
    [] ev.a = "dset" ->
         LET rs == Results(EntsOf(ev), LAMBDA e : EntRes(e, FALSE)) IN
         /\ \A i \in 1..Len(rs) : /\ rs[i].ret = "ok" => ev.obs.oks[i] = 1
                                  /\ rs[i].ret = "refused" => ev.obs.oks[i] = 0
         /\ DoorX("dset", ev, o, rs)
    [] ev.a \in {"vset", "vvset"} ->
         IF ev.obs.ret = "skipped" THEN Quiet(ev.a)
         ELSE LET r1 == VSetRes(ev.arg.name, ev.arg.unnamed, ev.arg.fmt, ValsOf(ev), FALSE) IN
              Single(ev, r1) /\ DoorX(ev.a, ev, o, <<r1>>)
    [] ev.a = "iset" ->
         LET r1 == ISetRes(ev.arg.name, ev.arg.unnamed, ValsOf(ev), FALSE) IN
         Single(ev, r1) /\ DoorX("iset", ev, o, <<r1>>)
    [] ev.a = "args" ->
         IF ev.obs.ret = "skipped" THEN Quiet("args")
         ELSE LET es == [i \in 1..Len(ev.arg.ents) |-> ArgEnt(ev.arg.src, EntsOf(ev)[i])] IN
              DoorX("args", ev, o, ArgRs(es))
    [] ev.a = "nodes" -> DoorX("nodes", ev, o, NodeRs(ev))
    [] ev.a = "list" ->
         LET ix == Listed(o, ev.arg.match) IN
         /\ ev.obs.ret = "ok"
         /\ SeenNames(ev) = [j \in 1..Len(ix) |-> Props(kind)[ix[j]].name]
         /\ ev.arg.mode # "print" => SeenVals(ev) = [j \in 1..Len(ix) |-> View1(kind, t1[o], Props(kind)[ix[j]].name)]
         /\ Quiet("list")
    [] ev.a = "printset" ->
         LET from == ev.arg.from + 1
             p == PO(ev, o)
             \* (listed open finding of C20: a text position outside [0,1] cannot be written back through "pos")
             stuck == IF PosTransferable(from) THEN {} ELSE {"pos", "x", "y"}
             vague == {nm \in RealNames : ~Printable(t1[from][nm])} IN
              /\ \A nm \in ReadNames(kind) \ (stuck \cup vague) : p[nm] = View1(kind, t1[from], nm)
              /\ \A nm \in stuck \ {"pos"} : nm \in vague \/ p[nm] \in {t1[o][nm], t1[from][nm]}
              /\ kind = "text" => p.pos = p.x \o p.y
              /\ Follow(o, p) /\ Answered("printset", 0, <<>>)
    [] ev.a = "aset" ->
         LET e == EntsOf(ev)[1]  r1 == ASetRes(e.name, e.v, FALSE) IN
         Single(ev, r1) /\ DoorX("aset", ev, o, <<r1>>)
    [] ev.a = "alist" ->
         /\ ev.obs.ret = "ok"
         /\ SeenNames(ev) = [j \in 1..NListed(kind) |-> Props(kind)[j].name]
         /\ SeenVals(ev) = [j \in 1..NListed(kind) |-> View1(kind, t1[o], Props(kind)[j].name)]
         /\ Quiet("alist")
    [] ev.a = "nset" -> DoorX("nset", ev, o, NSetRs(EntsOf(ev)))
    [] ev.a = "tname" ->
         /\ ev.obs.ret = "ok" /\ ev.obs.tname = kind /\ ev.obs.iname = "object" /\ ev.obs.idesc = kind /\ ev.obs.icode = 1
         /\ Quiet("tname")
    [] OTHER -> FALSE

Matches(ev) == \A k \in DOMAIN obs'.exp : k \in DOMAIN ev.obs /\ obs'.exp[k] = ev.obs[k]

TraceInit ==
  /\ l = 1 /\ kind = "axis" /\ ops = 0 /\ nid = 1
  /\ t2 = <<Def2("axis"), Def2("axis")>> /\ t1 = <<Def1("axis"), Def1("axis")>>
  /\ obs = [a |-> "none", arg |-> <<>>, tgt |-> "", den |-> <<>>, door |-> 0, perm |-> <<>>, exp |-> [shared |-> 0]]
TraceNext ==
  /\ l <= Len(TraceLog)
  /\ l' = l + 1
  /\ UNCHANGED ops
  /\ LET ev == TraceLog[l] IN Step(ev) /\ Matches(ev)
TraceSpec == TraceInit /\ [][TraceNext]_<<vars, l>>
\* the other object is never touched by a door (the target follows the observation, the rest is computed)
OtherKept == [][obs'.door # 0 => (t2'[3 - obs'.door] = t2[3 - obs'.door] /\ t1'[3 - obs'.door] = t1[3 - obs'.door])]_<<vars, l>>
TraceAccepted ==
  LET n == TLCGet("stats").diameter - 1 IN
  /\ PrintT(<<"MATCHED", n>>)
  /\ n = Len(TraceLog)
=============================================================================
