SPECIFICATION Spec
CONSTANTS MaxCap = 5 MaxLen = 6 Word = 8 CtrMax = 8
CONSTRAINT Bound
VIEW View
INVARIANTS TypeOK Refines InStorage
PROPERTY RefuseFrame
CHECK_DEADLOCK FALSE
