SPECIFICATION GSpec
CONSTANTS Configs <- GenQ1Configs OptNames <- GQOptNames SecNames <- GQSecNames Values <- GQValues
          Decos <- GQDecos MaxNodes = 2 MaxDepth = 1
          FrontEnds <- AllFE LoadAccs <- SameOnly Pres = {0, 2} MaxLoads = 1 MaxFail = 1 MaxAside = 0
          XNames <- XNT XValues <- QV XDecos <- QD
INVARIANT CasesInv
CHECK_DEADLOCK FALSE
