SPECIFICATION GenSpec
CONSTANTS
  IfBase <- FIfBase  IfAdd <- FIfAdd  IfCap <- FIfCap
  BuiltinIf <- FBuiltinIf
  DynBase <- FDynBase  DynCap <- FDynCap
  MetaBase <- FMetaBase  MetaCap <- FMetaCap
  GenBase <- FGenBase  GenCap <- FGenCap
  Chunk = 30
  PtrSize <- FPtr
  Fixed <- FFixed
  Optional = {}
  Names = {"", "abc", "abcd", "iter", "logger", "metatype", "mpt.x"}
  Sizes = {0, 24}
  Probe <- GProbe
  MaxAdds = 3
CONSTRAINT Bound
VIEW View
ACTION_CONSTRAINT Emit
INVARIANTS TypeOK Refines InRange NameInverse
PROPERTIES Legal Stable RefuseFrame DesignAgrees
CHECK_DEADLOCK FALSE
