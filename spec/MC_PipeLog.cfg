SPECIFICATION Spec
CONSTANTS NMsg = 2 LogMax = 8 MsgSet <- Msgs LogArgs <- LogsQ Quotas <- QuotasQ Ks <- KsQ Ops <- OpsQ
VIEW View
INVARIANTS TypeOK Integrity OnlyFinished NoForgery Availability LogShape
CHECK_DEADLOCK FALSE
