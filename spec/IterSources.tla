---------------------------- MODULE IterSources ----------------------------
(* Sources explored by the Iter configurations (C19).  ExploreX: all        *)
(* interleavings of the four calls; WalkX: documented loop, past the end,   *)
(* reset, half a walk, clone, rest (formula family, many parameters).       *)
EXTENDS Iter
R(p, q) == <<p, q>>
I(n)    == <<n, 1>>
Ints(n) == [k \in 1..n |-> I(k)]

ExploreSmall ==
  {Linear("api", 1, I(0), I(6), 0), Linear("api", 2, I(0), I(6), 0), Linear("desc", 2, I(-1), I(1), 0)}
  \cup {Range(I(0), I(1), R(1, 2), 0)}
  \cup {Factor(n, I(2), I(3), I(1), 5) : n \in 0..2} \cup {FactorMax}
  \cup {Boundary("api", n, I(1), I(2), I(3)) : n \in 2..3}
  \cup {Poly("polyapi", Ints(n), <<I(1), I(0), I(1)>>, <<I(1)>>) : n \in 0..2}
  \cup {Values("values", Ints(n)) : n \in 1..2}
  \cup {Text(Ints(n)) : n \in 0..2}
  \cup {Buffer("buffer", Ints(n)) : n \in 0..2}
  \cup {Buffer("args", Ints(n)) : n \in 0..2}
  \cup {BufferCut("buffer", Ints(1), 125, 3, 2), BufferCut("args", Ints(1), 125, 3, 1), BufferCut("buffer", <<>>, 47, 2, 1)}
ExploreMore ==
  {IterArg(Linear("desc", 2, I(0), I(6), 0)), Linear("api", 3, I(0), I(6), 0), Linear("profile", 2, I(0), I(6), 0), Factor(3, I(2), I(3), I(1), 5),
   Boundary("api", 4, I(1), I(2), I(3)), Boundary("profile", 3, I(1), I(2), I(3)),
   Poly("profile", Ints(3), <<I(1), I(0), I(1)>>, <<I(1)>>), Values("values", Ints(3)), Values("desc", Ints(2)),
   Text(Ints(3)), Buffer("buffer", Ints(3)), Buffer("args", Ints(3))}

LinParams == {<<1, I(0), I(1)>>, <<2, I(-1), I(1)>>, <<3, I(0), I(6)>>, <<4, I(1), I(2)>>, <<2, R(1, 2), R(5, 2)>>,
              <<3, I(0), I(1)>>, <<10, I(0), I(1)>>, <<7, R(-3, 10), R(11, 10)>>, <<5, I(1000), I(1001)>>, <<1, I(5), I(5)>>,
              <<3, I(6), I(0)>>}
WalkLinear ==
  {Linear("desc", p[1], p[2], p[3], st) : p \in LinParams, st \in {0, 1}}
  \cup {Linear("desc", n, I(0), I(1), 2) : n \in {1, 2, 4, 10}}
  \cup {Linear("api", p[1], p[2], p[3], 0) : p \in {q \in LinParams : Dyadic(q[2]) /\ Dyadic(q[3])}}
  \cup {Linear("profile", p[1], p[2], p[3], st) : p \in LinParams, st \in {0, 1}}
WalkRange ==
  {Range(I(0), I(1), R(1, 4), 0), Range(I(0), I(1), R(1, 2), 1), Range(I(-1), I(1), R(1, 2), 0), Range(I(0), I(1), I(1), 0),
   Range(I(0), I(3), I(2), 0), Range(I(0), I(1), R(1, 10), 2), Range(R(1, 2), I(3), R(5, 8), 1), Range(I(2), I(4), R(1, 5), 2),
   Range(I(0), I(1), R(1, 10), 3),
   \* decimal steps: the count is floor((b - a) / step) in exact arithmetic
   Range(I(0), R(3, 10), R(1, 10), 0), Range(I(0), R(7, 10), R(1, 10), 0), Range(I(0), R(6, 5), R(2, 5), 1),
   Range(I(1), I(2), R(1, 5), 0), Range(I(0), R(9, 10), R(3, 10), 0), Range(I(0), R(1, 2), R(1, 5), 0),
   Range(R(37, 10), R(9, 2), R(4, 5), 0), Range(I(33), R(167, 5), R(1, 10), 1)}
\* many decimal steps: the count floor((b - a) / step) + 1 is an exact rational question, the quotient of the doubles
\* lands just below or above the integer
ManySteps(N, S) == {Range(I(0), RMul(RInt(n), st), st, 0) : n \in N, st \in S}
WalkRangeMany  == ManySteps({19, 23, 29, 37, 46, 48, 57}, {R(1, 10), R(1, 5), R(2, 5), R(3, 10)})
WalkRangeMore  == ManySteps({97, 131, 233, 300}, {R(1, 10), R(1, 5), R(2, 5), R(3, 10), R(7, 10)})
                  \cup {Range(R(1, 10), RAdd(R(1, 10), RMul(RInt(n), R(3, 10))), R(3, 10), 1) : n \in {21, 58, 119}}
WalkFactor ==
  {Factor(n, I(10), I(10), I(0), 1) : n \in {0, 1, 3}}
  \cup {Factor(n, b, b, I(0), 2) : n \in {0, 2, 4}, b \in {I(2), R(1, 2), I(3)}}
  \cup {Factor(n, b, f, I(0), 3) : n \in {1, 3}, b \in {I(2), R(3, 2)}, f \in {I(3), R(1, 4), I(1)}}
  \cup {Factor(n, I(2), I(2), i, 4) : n \in {0, 3}, i \in {I(1), I(-5)}}
  \cup {Factor(n, b, f, i, 5) : n \in {0, 1, 4}, b \in {I(3), R(1, 10)}, f \in {I(2), R(1, 10)}, i \in {I(1), R(7, 2)}}
  \cup {FactorMax}
WalkBoundary ==
  {Boundary(v, n, l, I(0), R(5, 2)) : v \in {"api", "profile"}, n \in {2, 3, 5}, l \in {I(-1), R(1, 4)}}
WalkPoly ==
  {Poly(v, g, c[1], c[2]) : v \in {"profile", "polyapi"}, g \in {Ints(1), Ints(4), <<R(1, 2), I(-2), R(3, 4)>>},
                         c \in {<<<<I(2)>>, <<>>>>, <<<<I(1), I(0)>>, <<>>>>, <<<<I(1), I(0), I(1)>>, <<I(1)>>>>,
                                <<<<I(1), I(-2), I(1)>>, <<I(-1), I(1)>>>>, <<<<R(1, 2), I(3)>>, <<R(1, 4)>>>>,
                                <<<<R(1, 10), I(1)>>, <<>>>>}}
  \cup {Poly("polyapi", <<>>, <<I(2), I(1)>>, <<>>)}
ValLists == {<<I(7)>>, Ints(3), <<R(1, 2), R(-5, 4), I(3)>>, <<R(1, 10), R(1, 5)>>, <<I(-1), I(0), I(1), I(1000)>>,
             <<R(12345, 1000), R(-1, 8)>>}
WalkValues == {Values(v, l) : v \in {"values", "desc"}, l \in ValLists}
WalkText   == {Text(l) : l \in ValLists \cup {<<>>}}
WalkBuffer == {Buffer(v, l) : v \in {"buffer", "args"}, l \in ValLists \cup {<<>>}}
              \cup {BufferCut(v, l, t[1], t[2], t[3]) : v \in {"buffer", "args"}, l \in {<<>>, Ints(3), <<R(1, 2), R(-5, 4), I(3)>>},
                                                        t \in {<<125, 3, 2>>, <<125, 3, 1>>, <<98765, 5, 4>>, <<40, 2, 1>>}}

WalkFill ==
  {FillSrc("linear", n, ld, p[2], p[3], I(0)) : n \in {2, 3, 5}, ld \in {1, 3}, p \in LinParams}
  \cup {FillSrc("bound", n, ld, I(-1), R(1, 2), I(4)) : n \in {2, 3, 6}, ld \in {1, 2}}
  \* no point, one point, two points; strides 1..3 (the cells around and between the elements are guarded)
  \cup {FillSrc("linear", n, ld, p[1], p[2], I(0)) : n \in 0..2, ld \in 1..3, p \in {<<I(0), I(6)>>, <<R(-1, 2), R(5, 4)>>, <<I(3), I(3)>>}}
  \cup {FillSrc("bound", n, ld, p[1], p[2], p[3]) : n \in 0..2, ld \in 1..3, p \in {<<I(1), I(2), I(3)>>, <<I(-1), R(1, 2), I(4)>>}}

\* decorated descriptions: leading / between / trailing white space and white space around ( : ) -- the denoted sequence is unchanged
Decos     == {<<2, 2, 2, 2>>, <<1, 3, 1, 1>>, <<4, 4, 4, 4>>, <<5, 5, 5, 5>>, <<1, 2, 5, 1>>, <<6, 6, 6, 6>>, <<3, 2, 3, 3>>, <<1, 2, 2, 1>>, <<1, 2, 8, 1>>, <<7, 7, 7, 7>>}
DecoSmall == {<<1, 2, 2, 1>>, <<5, 6, 3, 4>>}
DecoBase ==
  {Linear("desc", 2, I(0), I(6), 0), Linear("desc", 3, R(1, 2), I(2), 0), Linear("desc", 2, I(0), I(1), 2),
   Linear("profile", 2, I(0), I(6), 0), Linear("profile", 3, I(-1), R(1, 2), 1),
   Range(I(0), I(1), R(1, 2), 0), Range(I(0), R(3, 10), R(1, 10), 0), Range(I(2), I(4), R(1, 5), 2), Range(I(0), I(1), R(1, 10), 4),
   Factor(2, I(10), I(10), I(0), 1), Factor(2, I(3), I(3), I(0), 2), Factor(3, I(2), R(1, 4), I(0), 3), Factor(2, I(2), I(2), I(-5), 4),
   Factor(2, I(3), I(2), R(7, 2), 5),
   Boundary("profile", 3, I(-1), I(0), R(5, 2)), Boundary("profile", 2, I(1), I(2), I(3)),
   Poly("profile", Ints(3), <<I(1), I(0), I(1)>>, <<I(1)>>), Poly("polyapi", Ints(3), <<I(1), I(-2), I(1)>>, <<I(-1), I(1)>>),
   Poly("profile", Ints(2), <<I(2), I(1)>>, <<>>), Poly("polyapi", Ints(2), <<R(1, 2), I(3)>>, <<R(1, 4)>>),
   Values("values", Ints(3)), Values("desc", <<R(1, 2), R(-5, 4), I(3)>>), Values("values", <<I(7)>>), Values("desc", <<I(1), R(5, 2), I(-3)>>),
   Text(Ints(3)), Text(<<R(1, 2), R(-5, 4), I(3)>>), Text(<<I(7)>>), Text(<<>>)}
  \cup {IterArg(x) : x \in {Linear("desc", 2, I(0), I(6), 0), Range(I(0), I(1), R(1, 2), 0), Range(I(0), R(3, 10), R(1, 10), 0),
                            Factor(2, I(10), I(10), I(0), 1), Factor(2, I(3), I(2), R(7, 2), 5)}}
WalkDeco == WithDeco(DecoBase, Decos)
\* empty description, descriptions of separators only, through every text constructor: not decided (any answer, no fault, replay)
WalkUnknown == {Unknown(v, k) : v \in {"desc", "values", "string"}, k \in 1..Len(SepTexts)}
WalkBlank == WithDeco({[kind |-> "unknown", via |-> "values", sep |-> 0]}, {<<1, 2, 1, 1>>, <<2, 2, 3, 1>>, <<5, 2, 6, 1>>})   \* "", "  ", "^ ~^ "
             \cup {Range(I(0), I(1), R(1, 10), 4)}       \* mpt_iterator_create(""): the default range (blank: DecoBase)
ExploreDeco == WithDeco({Values("values", Ints(2)), Text(Ints(1)), Text(<<>>)}, DecoSmall)
               \cup WithDeco({Linear("desc", 2, I(-1), I(1), 0)}, {<<5, 6, 3, 4>>})

WalkIterArg ==
  {IterArg(x) : x \in {y \in WalkLinear : y.via = "desc" /\ y.style = 0}}
  \cup {IterArg(x) : x \in {y \in WalkRange \cup WalkRangeMany : y.style = 0}}
  \cup {IterArg(x) : x \in {y \in WalkFactor \ {FactorMax} : y.form \in {1, 5}}}

WalkAll == WalkIterArg \cup WalkFill \cup WalkLinear \cup WalkRange \cup WalkRangeMany \cup WalkFactor \cup WalkBoundary \cup WalkPoly \cup WalkValues \cup WalkText \cup WalkBuffer

WalkDecorated == WalkDeco \cup WalkUnknown \cup WalkBlank      \* (not part of WalkAll: the extension X19 walks WalkAll with its own consumers)
SrcQuick    == WithExplore(ExploreSmall \cup ExploreDeco, TRUE) \cup WithExplore(WalkAll \cup WalkDecorated, FALSE)
SrcThorough == WithExplore(ExploreSmall \cup ExploreDeco \cup ExploreMore, TRUE) \cup WithExplore(WalkAll \cup WalkDecorated \cup WalkRangeMore, FALSE)
=============================================================================
