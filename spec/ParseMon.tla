------------------------------ MODULE ParseMon ------------------------------
(***************************************************************************)
(* Monitor specification of the event protocol of mpt_parse_config /       *)
(* mpt_parse_node (property C08).                                          *)
(*                                                                         *)
(* One run of the parser is a sequence of events                           *)
(*   start(len, before) . (getc(k) | sect(p) | end(p) | opt(p) | data(p))* *)
(*   . return(ok, after, net, netclear)                                    *)
(* where p is the element path the handler was given.                      *)
(*                                                                         *)
(* Tier 1 (meaning): the stack `open` of section names, the read budget,   *)
(* the target forest before the call, the balance of live allocations.     *)
(* Tier 2 (design): depth counter and previous-operation code as kept in   *)
(* parser_context (depth = Len(open) is the refinement invariant).         *)
(*                                                                         *)
(* Rules (the statement of C08):                                           *)
(*   R1  reads <= len + MaxPolls: every input character is requested at    *)
(*       most once; the end-of-input indication may be polled MaxPolls     *)
(*       times (once by the element that ends there, once by the next      *)
(*       request).                                                         *)
(*   R2  nothing happens after return.                                     *)
(*   R3  a failed parse leaves the target forest as it was.                *)
(*   R4  no allocation stays behind a failed parse; after a successful one *)
(*       everything is released when the target is cleared.                *)
(*   R6  when the call returns, every node of the target names a live parent: the node it   *)
(*       is listed under (links = number of nodes that do not, over the whole target).      *)
(*   R7  the value range handed to the handler lies inside the characters stored behind     *)
(*       the path (vl <= post).                                                              *)
(*   R5  if the parse succeeds its events were well nested: sect(p) pushes *)
(*       p = open + <<name>>, end(p) closes p = open # <<>>, opt(p) has    *)
(*       p = open + <<name>>, data(p) has p = open.                        *)
(***************************************************************************)
EXTENDS Naturals, Sequences, FiniteSets, TLC

CONSTANTS MaxPolls,   \* end-of-input polls allowed (2)
          Names,      \* model: names offered
          MaxLen,     \* model: input lengths
          MaxDepth,   \* model: nesting explored
          Forests     \* model: target forests offered

VARIABLES mon,        \* monitor state
          obs
vars == <<mon, obs>>

Idle == [phase |-> "idle", open |-> <<>>, depth |-> 0, reads |-> 0, len |-> 0, before |-> <<>>,
         nestok |-> TRUE, prev |-> "sect", bad |-> "none"]

Front(s) == SubSeq(s, 1, Len(s) - 1)
IsPush(p, open) == Len(p) = Len(open) + 1 /\ Front(p) = open

(* guard: may event e happen in monitor state s (rules R1, R2) *)
Ok(s, e) ==
  CASE e.t = "start"  -> s.phase = "idle"
    [] e.t = "getc"   -> s.phase = "run" /\ s.reads + e.k <= s.len + MaxPolls                 \* R1
    [] e.t \in {"sect", "end"} -> s.phase = "run"                                           \* R2
    [] e.t \in {"opt", "data"} -> s.phase = "run" /\ e.vl <= e.post                         \* R2, R7
    [] e.t = "return" ->
         /\ s.phase = "run"
         /\ e.ok => s.nestok                                                                 \* R5
         /\ ~e.ok => (e.after = s.before /\ e.net = 0)                                       \* R3, R4
         /\ e.ok => e.netclear = 0                                                           \* R4
         /\ e.links = 0                                                                     \* R6
    [] OTHER -> FALSE

(* which rule refuses e (diagnostics of a rejected trace) *)
Why(s, e) ==
  CASE e.t = "getc" /\ s.phase = "run" -> "R1:reads"
    [] e.t \in {"opt", "data"} /\ s.phase = "run" -> "R7:data-range"
    [] e.t = "return" /\ s.phase = "run" /\ e.links # 0 -> "R6:dead-parent"
    [] e.t = "return" /\ s.phase = "run" /\ e.ok /\ ~s.nestok -> "R5:nesting"
    [] e.t = "return" /\ s.phase = "run" /\ ~e.ok /\ e.after # s.before -> "R3:target-changed"
    [] e.t = "return" /\ s.phase = "run" /\ ~e.ok -> "R4:leak-on-failure"
    [] e.t = "return" /\ s.phase = "run" -> "R4:leak-after-clear"
    [] OTHER -> "R2:phase"

(* update *)
Upd(s, e) ==
  CASE e.t = "start"  -> [Idle EXCEPT !.phase = "run", !.len = e.len, !.before = e.before]
    [] e.t = "getc"   -> [s EXCEPT !.reads = @ + e.k]
    [] e.t = "sect"   -> IF IsPush(e.p, s.open)
                         THEN [s EXCEPT !.open = e.p, !.depth = @ + 1, !.prev = "sect"]
                         ELSE [s EXCEPT !.nestok = FALSE, !.open = e.p, !.depth = Len(e.p), !.prev = "sect"]
    [] e.t = "end"    -> IF s.open # <<>> /\ e.p = s.open
                         THEN [s EXCEPT !.open = Front(@), !.depth = @ - 1, !.prev = "end"]
                         ELSE [s EXCEPT !.nestok = FALSE, !.open = IF e.p = <<>> THEN <<>> ELSE Front(e.p),
                                        !.depth = Len(IF e.p = <<>> THEN <<>> ELSE Front(e.p)), !.prev = "end"]
    [] e.t = "opt"    -> IF IsPush(e.p, s.open) THEN [s EXCEPT !.prev = "opt"]
                         ELSE [s EXCEPT !.nestok = FALSE, !.prev = "opt"]
    [] e.t = "data"   -> IF e.p = s.open THEN [s EXCEPT !.prev = "opt"]
                         ELSE [s EXCEPT !.nestok = FALSE, !.prev = "opt"]
    [] e.t = "return" -> [s EXCEPT !.phase = "done"]
    [] OTHER -> s

(* acceptance of a whole run: 0 = accepted, else index of the refused event *)
RECURSIVE Refused(_, _, _)
Refused(s, evs, i) ==
  IF i > Len(evs) THEN (IF s.phase = "done" THEN 0 ELSE i)
  ELSE IF Ok(s, evs[i]) THEN Refused(Upd(s, evs[i]), evs, i + 1) ELSE i
RECURSIVE StateAt(_, _, _)
StateAt(s, evs, i) == IF i <= 1 THEN s ELSE Upd(StateAt(s, evs, i - 1), evs[i - 1])

---------------------------------------------------------------------------
(* the monitor as a transition system (checked by TLC for consistency) *)
Do(e) == Ok(mon, e) /\ mon' = Upd(mon, e) /\ obs' = [a |-> e.t, arg |-> e, exp |-> [phase |-> mon'.phase]]

Start(n, f)   == Do([t |-> "start", len |-> n, before |-> f])
Getc(k)       == Do([t |-> "getc", k |-> k])
Section(name) == Len(mon.open) < MaxDepth /\ Do([t |-> "sect", p |-> Append(mon.open, name)])
SectEnd       == mon.open # <<>> /\ Do([t |-> "end", p |-> mon.open])
Option(name, vl, post) == Do([t |-> "opt", p |-> Append(mon.open, name), vl |-> vl, post |-> post])
Data(vl, post) == Do([t |-> "data", p |-> mon.open, vl |-> vl, post |-> post])
Return(ok, after, net, netclear, links) ==
  Do([t |-> "return", ok |-> ok, after |-> after, net |-> net, netclear |-> netclear, links |-> links])

Init == mon = Idle /\ obs = [a |-> "none", arg |-> [t |-> "none"], exp |-> [phase |-> "idle"]]
Next ==
  \/ \E n \in 0..MaxLen, f \in Forests : Start(n, f)
  \/ \E k \in 1..2 : Getc(k)
  \/ \E name \in Names : Section(name) \/ \E vl \in 0..2, post \in 0..2 : Option(name, vl, post)
  \/ SectEnd \/ \E vl \in 0..2, post \in 0..2 : Data(vl, post)
  \/ \E ok \in BOOLEAN, after \in Forests, net \in 0..1, nc \in 0..1, lk \in 0..1 : Return(ok, after, net, nc, lk)
Spec == Init /\ [][Next]_vars

TypeOK == mon.phase \in {"idle", "run", "done"} /\ mon.reads \in Nat /\ mon.depth \in Nat
Refines == mon.depth = Len(mon.open)                         \* Tier 2 counter = Tier 1 stack
Budget == mon.reads <= mon.len + MaxPolls                    \* R1
WellNested == mon.nestok                                     \* the monitor's own actions nest properly
Quiescent == mon.phase = "done" => ~ENABLED Next             \* R2
(* R3/R4 as action property: a failing return is only possible on an unchanged target without residue *)
Transactional ==
  [][(mon.phase = "run" /\ mon'.phase = "done" /\ ~obs'.arg.ok) => (obs'.arg.after = mon.before /\ obs'.arg.net = 0)]_vars
Balanced ==
  [][(mon.phase = "run" /\ mon'.phase = "done" /\ obs'.arg.ok) => obs'.arg.netclear = 0]_vars
Linked ==
  [][(mon.phase = "run" /\ mon'.phase = "done") => obs'.arg.links = 0]_vars
InRange ==
  [][(obs'.a \in {"opt", "data"}) => obs'.arg.vl <= obs'.arg.post]_vars
=============================================================================
