------------------------------- MODULE Reply -------------------------------
(***************************************************************************)
(* Request ids in message headers and the reply context (property C12).    *)
(*                                                                         *)
(* mode "id":   mpt_message_id2buf / mpt_message_buf2id as functions on    *)
(*              64-bit ids.  TLC integers are 32 bit: an id is the tuple   *)
(*              <<l0,l1,l2,l3>> of 16-bit limbs, l0 least significant.     *)
(*   Tier 1:    Fits / RefId2Buf / RefBuf2Id  (positional meaning)         *)
(*   Tier 2:    OpId2Buf / OpBuf2Id           (the byte loops of the code) *)
(*                                                                         *)
(* mode "ctx":  one reply context of mpt_reply_deferrable with its         *)
(*              deferred handles and a scripted transport.                 *)
(*   Tier 1:    reqs -- every request ever armed and where it is now       *)
(*              (at = 0 context, h > 0 handle h, -1 answered, -2 lost)     *)
(*   Tier 2:    max/own/attached/target/clen/cval/handles mirror           *)
(*              struct reply_context_defer and struct replyDataDelayed.    *)
(* mode "stream": the reply context of a stream input (mptio               *)
(*              stream_input.c): a request frame <<id bytes>> \o payload   *)
(*              is dispatched to a handler that answers through ev->reply  *)
(*              (or not at all); what goes back over the wire is observed  *)
(*              at the peer as frames.                                     *)
(* obs = what the last call was given (arg), must answer (exp) and which   *)
(* requests it spoke for (g, ghost).                                       *)
(***************************************************************************)
EXTENDS Integers, Sequences, FiniteSets, TLC

CONSTANTS Widths,    \* id capacities (reply_data._max) a context is created with
          MaxH,      \* deferred handle slots 1..MaxH
          MaxOwn,    \* owner references held at most (1 + contextRef calls)
          LimbDom,   \* limb values ids are built from (mode "id")
          IdWidths,  \* header widths of mode "id"
          MsgDom,    \* message payloads offered to reply calls
          TextDom,   \* <<code, text>> pairs offered to mpt_context_reply
          StreamWidths \* id widths of stream inputs (mode "stream")

VARIABLES mode,
          max, target, own, attached, clen, cval, handles,   \* Tier 2
          reqs,                                              \* Tier 1
          ctr, obs
vars  == <<mode, max, target, own, attached, clen, cval, handles, reqs, ctr, obs>>
state == <<mode, max, target, own, attached, clen, cval, handles, reqs, ctr>>

---------------------------------------------------------------------------
(* 64-bit ids on limbs *)
Zero == <<0, 0, 0, 0>>
Zeros(n) == [i \in 1..n |-> 0]
MinOf(S) == CHOOSE x \in S : \A y \in S : x <= y

\* the eight bytes of an id, most significant first
Bytes8(id) == << id[4] \div 256, id[4] % 256, id[3] \div 256, id[3] % 256,
                 id[2] \div 256, id[2] % 256, id[1] \div 256, id[1] % 256 >>
Limbs(P)   == << P[7] * 256 + P[8], P[5] * 256 + P[6], P[3] * 256 + P[4], P[1] * 256 + P[2] >>

BL8(b) == IF b = 0 THEN 0 ELSE IF b < 2 THEN 1 ELSE IF b < 4 THEN 2 ELSE IF b < 8 THEN 3
          ELSE IF b < 16 THEN 4 ELSE IF b < 32 THEN 5 ELSE IF b < 64 THEN 6
          ELSE IF b < 128 THEN 7 ELSE 8
BitLen(id) == LET B == Bytes8(id)  nz == {i \in 1..8 : B[i] # 0} IN
              IF nz = {} THEN 0 ELSE (8 - MinOf(nz)) * 8 + BL8(B[MinOf(nz)])

(* Tier 1.  A header of w bytes holds the id most significant byte first;  *)
(* the top bit of the first byte is the reply marker and must stay free.   *)
Fits(id, w) == IF w = 0 THEN id = Zero ELSE BitLen(id) <= 8 * w - 1
RefId2Buf(id, w) == IF w >= 8 THEN Zeros(w - 8) \o Bytes8(id)
                    ELSE SubSeq(Bytes8(id), 9 - w, 8)
RefBuf2Id(buf) ==
  LET n == Len(buf)
      lead == IF n > 8 THEN SubSeq(buf, 1, n - 8) ELSE <<>>
      P == IF n >= 8 THEN SubSeq(buf, n - 7, n) ELSE Zeros(8 - n) \o buf
  IN IF \E i \in DOMAIN lead : lead[i] # 0 THEN [ok |-> FALSE, id |-> Zero]
     ELSE [ok |-> TRUE, id |-> Limbs(P)]

(* Tier 2.  id2buf: store the low byte, divide by 256, w times from the    *)
(* right; whatever is left must be zero and the marker bit free.           *)
Shr8(id) == << (id[1] \div 256) + (id[2] % 256) * 256, (id[2] \div 256) + (id[3] % 256) * 256,
               (id[3] \div 256) + (id[4] % 256) * 256, id[4] \div 256 >>
Shl8Or(id, b) == << (id[1] % 256) * 256 + b, (id[2] % 256) * 256 + id[1] \div 256,
                    (id[3] % 256) * 256 + id[2] \div 256, (id[4] % 256) * 256 + id[3] \div 256 >>
RECURSIVE I2BLoop(_, _, _)
I2BLoop(id, k, acc) == IF k = 0 THEN [rest |-> id, buf |-> acc]
                       ELSE I2BLoop(Shr8(id), k - 1, <<id[1] % 256>> \o acc)
OpId2Buf(id, w) ==
  IF w = 0 THEN [ok |-> id = Zero, buf |-> <<>>]
  ELSE LET r == I2BLoop(id, w, <<>>) IN
       [ok |-> r.rest = Zero /\ r.buf[1] < 128, buf |-> r.buf]
\* buf2id: shift in byte after byte, count the significant ones, at most 8
RECURSIVE B2ILoop(_, _, _, _)
B2ILoop(buf, i, id, used) ==
  IF i > Len(buf) THEN [ok |-> TRUE, id |-> id]
  ELSE LET u == IF buf[i] # 0 \/ used > 0 THEN used + 1 ELSE used IN
       IF u > 8 THEN [ok |-> FALSE, id |-> Zero]
       ELSE B2ILoop(buf, i + 1, Shl8Or(id, buf[i]), u)
OpBuf2Id(buf) == B2ILoop(buf, 1, Zero, 0)

\* reply marker
Mark(b)   == [i \in DOMAIN b |-> IF i = 1 /\ b[1] < 128 THEN b[1] + 128 ELSE b[i]]
Unmark(b) == [i \in DOMAIN b |-> IF i = 1 /\ b[1] >= 128 THEN b[1] - 128 ELSE b[i]]

---------------------------------------------------------------------------
(* mode "id": the two functions and their composition *)
Id2Buf(id, w) ==
  /\ mode = "id" /\ UNCHANGED state
  /\ obs' = [a |-> "id2buf", arg |-> [id |-> id, w |-> w], g |-> {},
             exp |-> IF Fits(id, w) THEN [ret |-> "ok", buf |-> RefId2Buf(id, w)]
                     ELSE [ret |-> "refused"]]
Buf2Id(buf) ==
  /\ mode = "id" /\ UNCHANGED state
  /\ obs' = [a |-> "buf2id", arg |-> [buf |-> buf], g |-> {},
             exp |-> IF RefBuf2Id(buf).ok THEN [ret |-> "ok", id |-> RefBuf2Id(buf).id]
                     ELSE [ret |-> "refused"]]
\* write into a header of width w, mark as reply, unmark and read back
RoundTrip(id, w) ==
  /\ mode = "id" /\ UNCHANGED state
  /\ obs' = [a |-> "roundtrip", arg |-> [id |-> id, w |-> w], g |-> {},
             exp |-> IF Fits(id, w) THEN [ret |-> "ok", id |-> id] ELSE [ret |-> "refused"]]

---------------------------------------------------------------------------
(* mode "ctx" *)
HeldAt(x)   == {r \in DOMAIN reqs : reqs[r].at = x}
SetAt(R, x) == [r \in DOMAIN reqs |-> IF r \in R THEN [reqs[r] EXCEPT !.at = x] ELSE reqs[r]]
LiveH       == {h \in 1..MaxH : handles[h] # <<>>}
Sent(b, m)  == [id |-> Mark(b), null |-> m.null, data |-> m.data]
NoMsg       == [null |-> 1, data |-> <<>>]
Linked      == attached /\ target      \* the transport can be reached

Answer(a, arg, ret, sends, g) ==
  obs' = [a |-> a, arg |-> arg, g |-> g,
          exp |-> [ret |-> ret, sends |-> sends,
                   armed |-> IF own' > 0 /\ clen' > 0 THEN 1 ELSE 0]]
Same(a, arg, ret, sends, g) == UNCHANGED state /\ Answer(a, arg, ret, sends, g)

(* arm: mpt_reply_set on the reply_data obtained from the context.  A      *)
(* request still armed is overwritten (lost); length 0 disarms.            *)
Arm(b) ==
  LET n == Len(b)  arg == [id |-> b] IN
  /\ mode = "ctx" /\ own > 0
  /\ IF n > max
     THEN /\ UNCHANGED state
          /\ obs' = [a |-> "arm", arg |-> arg, g |-> {},
                     exp |-> [ret |-> "refused", sends |-> <<>>, intact |-> 1,
                              armed |-> IF clen > 0 THEN 1 ELSE 0]]
     ELSE /\ clen' = n /\ cval' = b /\ ctr' = ctr + 1
          /\ reqs' = IF n = 0 THEN SetAt(HeldAt(0), -2)
                     ELSE Append(SetAt(HeldAt(0), -2), [id |-> b, at |-> 0])
          /\ UNCHANGED <<mode, max, target, own, attached, handles>>
          /\ obs' = [a |-> "arm", arg |-> arg, g |-> {},
                     exp |-> [ret |-> "ok", sends |-> <<>>, intact |-> 1,
                              armed |-> IF n > 0 THEN 1 ELSE 0]]

(* reply through the context (contextSet -> contextSend) *)
ReplyCore(a, arg, m, tv) ==
  /\ mode = "ctx" /\ own > 0
  /\ IF clen = 0 THEN Same(a, arg, "refused", <<>>, {})
     ELSE IF ~attached                       \* transport gone: dropped silently
     THEN /\ clen' = 0 /\ cval' = <<>> /\ reqs' = SetAt(HeldAt(0), -2)
          /\ UNCHANGED <<mode, max, target, own, attached, handles, ctr>>
          /\ Answer(a, arg, "any", <<>>, {})
     ELSE IF ~target THEN Same(a, arg, "any", <<>>, {})
     ELSE IF tv = "ok"
     THEN /\ clen' = 0 /\ cval' = <<>> /\ reqs' = SetAt(HeldAt(0), -1)
          /\ UNCHANGED <<mode, max, target, own, attached, handles, ctr>>
          /\ Answer(a, arg, "ok", <<Sent(cval, m)>>, HeldAt(0))
     ELSE Same(a, arg, "refused", <<Sent(cval, m)>>, HeldAt(0))

Reply(m, tv) == ReplyCore("reply", [null |-> m.null, data |-> m.data, tv |-> tv], m, tv)
\* mpt_context_reply(rc, code, "%s", text): header <<Answer, code>> and text
AnswerCmd == 1
ReplyText(code, text, tv) ==
  ReplyCore("replytext", [code |-> code, text |-> text, tv |-> tv],
            [null |-> 0, data |-> <<AnswerCmd, code>> \o text], tv)

(* defer: the armed request moves to a new handle that holds a reference *)
Defer(h) ==
  LET arg == [h |-> h] IN
  /\ mode = "ctx" /\ own > 0 /\ handles[h] = <<>>
  /\ IF clen = 0 THEN Same("defer", arg, "none", <<>>, {})
     ELSE /\ handles' = [handles EXCEPT ![h] = cval]
          /\ clen' = 0 /\ cval' = <<>> /\ reqs' = SetAt(HeldAt(0), h)
          /\ UNCHANGED <<mode, max, target, own, attached, ctr>>
          /\ Answer("defer", arg, "handle", <<>>, {})

(* reply through a deferred handle; the handle is consumed unless the      *)
(* transport rejected the message                                          *)
DeferredReply(h, m, tv) ==
  LET arg == [h |-> h, null |-> m.null, data |-> m.data, tv |-> tv] IN
  /\ mode = "ctx" /\ handles[h] # <<>> /\ m.null = 0
  /\ IF ~Linked
     THEN /\ handles' = [handles EXCEPT ![h] = <<>>] /\ reqs' = SetAt(HeldAt(h), -2)
          /\ UNCHANGED <<mode, max, target, own, attached, clen, cval, ctr>>
          /\ Answer("dreply", arg, "any", <<>>, {})
     ELSE IF tv = "ok"
     THEN /\ handles' = [handles EXCEPT ![h] = <<>>] /\ reqs' = SetAt(HeldAt(h), -1)
          /\ UNCHANGED <<mode, max, target, own, attached, clen, cval, ctr>>
          /\ Answer("dreply", arg, "ok", <<Sent(handles[h], m)>>, HeldAt(h))
     ELSE Same("dreply", arg, "refused", <<Sent(handles[h], m)>>, HeldAt(h))

(* release a handle without an answer: one default reply while linked *)
ReleaseHandle(h, tv) ==
  LET arg == [h |-> h, tv |-> tv] IN
  /\ mode = "ctx" /\ handles[h] # <<>>
  /\ handles' = [handles EXCEPT ![h] = <<>>]
  /\ UNCHANGED <<mode, max, target, own, attached, clen, cval, ctr>>
  /\ IF ~Linked
     THEN /\ reqs' = SetAt(HeldAt(h), -2)
          /\ Answer("drelease", arg, "any", <<>>, {})
     ELSE /\ reqs' = SetAt(HeldAt(h), IF tv = "ok" THEN -1 ELSE -2)
          /\ Answer("drelease", arg, "ok", <<Sent(handles[h], NoMsg)>>, HeldAt(h))

(* release one owner reference of the context.  The transport is detached  *)
(* by this call (the owner is going away).  A request still armed gets its *)
(* default reply first: required when this was the only owner reference    *)
(* (only deferred handles may remain); with further owners (contextRef)    *)
(* the statement is silent and dflt is the implementation's choice.        *)
CanDefault == Linked /\ clen > 0
ReleaseCtx(tv, dflt) ==
  LET arg  == [tv |-> tv]
      done == dflt /\ tv = "ok"
      last == own = 1 /\ LiveH = {}
  IN
  /\ mode = "ctx" /\ own > 0
  /\ dflt => CanDefault
  /\ own = 1 => (dflt = CanDefault)
  /\ own' = own - 1
  /\ attached' = IF last THEN attached ELSE FALSE
  /\ clen' = IF done \/ own = 1 THEN 0 ELSE clen
  /\ cval' = IF done \/ own = 1 THEN <<>> ELSE cval
  /\ reqs' = IF done THEN SetAt(HeldAt(0), -1)
             ELSE IF own = 1 THEN SetAt(HeldAt(0), -2) ELSE reqs
  /\ UNCHANGED <<mode, max, target, handles, ctr>>
  /\ Answer("release", arg, "ok", IF dflt THEN <<Sent(cval, NoMsg)>> ELSE <<>>,
            IF dflt THEN HeldAt(0) ELSE {})

AddRef ==
  /\ mode = "ctx" /\ own > 0 /\ own < MaxOwn
  /\ own' = own + 1
  /\ UNCHANGED <<mode, max, target, attached, clen, cval, handles, reqs, ctr>>
  /\ Answer("addref", [x |-> 0], "ok", <<>>, {})

---------------------------------------------------------------------------
(* mode "stream": requests arriving on a stream input with id width max.   *)
(* The handler is scripted: act = "none" (no answer: the input sends the   *)
(* default answer <<Answer, code>>), "reply" (one answer with data),       *)
(* "reply2" (a second attempt after the first), hret = its return value.   *)
(* A frame whose id is all zero asks for no answer.                        *)
AllZero(b) == \A i \in DOMAIN b : b[i] = 0
ByteOf(n)  == IF n < 0 THEN 256 + n ELSE n
StreamRequest(b, payload, act, data, hret) ==
  LET arg == [id |-> b, payload |-> payload, act |-> act, data |-> data, hret |-> hret]
      answer == IF act = "none" THEN <<AnswerCmd, IF hret < 0 THEN ByteOf(hret) ELSE 0>> ELSE data
  IN
  /\ mode = "stream" /\ Len(b) = max /\ b[1] < 128 /\ act \in {"none", "reply", "reply2"}
  /\ reqs' = IF AllZero(b) THEN reqs ELSE Append(reqs, [id |-> b, at |-> -1])
  /\ ctr' = ctr + 1
  /\ UNCHANGED <<mode, max, target, own, attached, clen, cval, handles>>
  /\ obs' = [a |-> "srequest", arg |-> arg, g |-> IF AllZero(b) THEN {} ELSE {Len(reqs) + 1},
             exp |-> [seen   |-> <<[id |-> Zero, reply |-> IF AllZero(b) THEN 0 ELSE 1, payload |-> payload]>>,
                      frames |-> IF AllZero(b) THEN <<>> ELSE <<[id |-> Mark(b), data |-> answer]>>,
                      r2     |-> IF act = "reply2" /\ ~AllZero(b) THEN "refused" ELSE "none"]]
\* connection only: the handler defers the request into handle slot h (answered later, while
\* further requests use the same context) -- nothing goes out now
StreamDefer(b, payload, h) ==
  LET arg == [id |-> b, payload |-> payload, act |-> "defer", h |-> h, data |-> <<>>, hret |-> 0] IN
  /\ mode = "stream" /\ ~target /\ Len(b) = max /\ b[1] < 128 /\ ~AllZero(b) /\ handles[h] = <<>>
  /\ reqs' = Append(reqs, [id |-> b, at |-> h])
  /\ handles' = [handles EXCEPT ![h] = b]
  /\ ctr' = ctr + 1
  /\ UNCHANGED <<mode, max, target, own, attached, clen, cval>>
  /\ obs' = [a |-> "srequest", arg |-> arg, g |-> {},
             exp |-> [seen |-> <<[id |-> Zero, reply |-> 1, payload |-> payload]>>, frames |-> <<>>, r2 |-> "handle"]]
\* ... and answers it through the handle later
StreamDeferred(h, data) ==
  /\ mode = "stream" /\ handles[h] # <<>>
  /\ handles' = [handles EXCEPT ![h] = <<>>] /\ reqs' = SetAt(HeldAt(h), -1)
  /\ UNCHANGED <<mode, max, target, own, attached, clen, cval, ctr>>
  /\ obs' = [a |-> "sdreply", arg |-> [h |-> h, data |-> data], g |-> HeldAt(h),
             exp |-> [ret |-> "ok", frames |-> <<[id |-> Mark(handles[h]), data |-> data]>>]]
\* an attempt through the context after its request was answered: refused, nothing sent
StreamLate(data) ==
  /\ mode = "stream" /\ reqs # <<>>
  /\ UNCHANGED state
  /\ obs' = [a |-> "slate", arg |-> [data |-> data], g |-> {},
             exp |-> [ret |-> "refused", frames |-> <<>>]]
\* an incoming answer (marker set) on a stream input: handed to the handler with the decoded
\* id, never answered (a connection looks its own waiting callers up instead: not modelled)
StreamAnswer(b, payload) ==
  /\ mode = "stream" /\ target /\ Len(b) = max /\ b[1] >= 128 /\ RefBuf2Id(Unmark(b)).ok
  /\ UNCHANGED state
  /\ obs' = [a |-> "sanswer", arg |-> [id |-> b, payload |-> payload], g |-> {},
             exp |-> [seen |-> <<[id |-> RefBuf2Id(Unmark(b)).id, reply |-> 0, payload |-> payload]>>,
                      frames |-> <<>>]]

---------------------------------------------------------------------------
\* distinguishable request ids: width n, marker bit free, last byte counts
IdBytes(n) == [i \in 1..n |-> IF i = n THEN (ctr % 100) + 1 ELSE IF i = 1 THEN 127 ELSE 0]
Msgs == {[null |-> 0, data |-> d] : d \in MsgDom} \cup {NoMsg}
TV   == {"ok", "reject"}

InitCtx(m, t, at) ==
  /\ mode = "ctx" /\ max = m /\ target = t /\ attached = at
  /\ own = 1 /\ clen = 0 /\ cval = <<>> /\ handles = [h \in 1..MaxH |-> <<>>]
  /\ reqs = <<>> /\ ctr = 0
  /\ obs = [a |-> "init", g |-> {},
            arg |-> [mode |-> "ctx", max |-> m, target |-> IF t THEN 1 ELSE 0, attached |-> IF at THEN 1 ELSE 0],
            exp |-> [ret |-> "ok", sends |-> <<>>, armed |-> 0]]
InitId ==
  /\ mode = "id" /\ max = 0 /\ target = FALSE /\ attached = FALSE
  /\ own = 0 /\ clen = 0 /\ cval = <<>> /\ handles = [h \in 1..MaxH |-> <<>>]
  /\ reqs = <<>> /\ ctr = 0
  /\ obs = [a |-> "init", g |-> {}, arg |-> [mode |-> "id"], exp |-> [ret |-> "ok"]]

\* via = "input": mpt_stream_input; via = "conn": mpt_connection_dispatch on a connection whose
\* backend is a stream (reply context of mpt_reply_deferrable over replyConnection).  In mode
\* "stream" the variable target only remembers which of the two it is.
InitStream(m, via) ==
  /\ mode = "stream" /\ max = m /\ target = (via = "input") /\ attached = TRUE
  /\ own = 0 /\ clen = 0 /\ cval = <<>> /\ handles = [h \in 1..MaxH |-> <<>>]
  /\ reqs = <<>> /\ ctr = 0
  /\ obs = [a |-> "init", g |-> {}, arg |-> [mode |-> "stream", max |-> m, via |-> via], exp |-> [ret |-> "ok"]]

Init == \/ InitId
        \/ \E m \in Widths, t \in BOOLEAN, at \in BOOLEAN : InitCtx(m, t, at)
        \/ \E m \in StreamWidths, via \in {"input", "conn"} : InitStream(m, via)

IdDom  == [1..4 -> LimbDom]
BufDom == UNION {[1..n -> {0, 1, 128, 255}] : n \in 0..4} \cup UNION {[1..n -> {0, 255}] : n \in 5..10}

NextId ==
  \/ \E id \in IdDom, w \in IdWidths : Id2Buf(id, w) \/ RoundTrip(id, w)
  \/ \E b \in BufDom : Buf2Id(b)

NextCtx ==
  \/ \E n \in {0, 1, max, max + 1} : Arm(IdBytes(n)) \/ Arm(Zeros(n))
  \/ \E m \in Msgs, tv \in TV : Reply(m, tv)
  \/ \E t \in TextDom, tv \in TV : ReplyText(t[1], t[2], tv)
  \/ \E h \in 1..MaxH : Defer(h) /\ \A k \in 1..(h - 1) : handles[k] # <<>>
  \/ \E h \in 1..MaxH, m \in Msgs, tv \in TV : DeferredReply(h, m, tv)
  \/ \E h \in 1..MaxH, tv \in TV : ReleaseHandle(h, tv)
  \/ \E tv \in TV, d \in BOOLEAN : ReleaseCtx(tv, d)
  \/ AddRef

NextStream ==
  \/ \E act \in {"none", "reply", "reply2"}, hret \in {0, -3}, d \in MsgDom :
        \/ StreamRequest(IdBytes(max), <<4, 58, 103>>, act, d, hret)
        \/ StreamRequest(Zeros(max), <<9>>, act, d, hret)
  \/ \E d \in MsgDom : StreamLate(d)
  \/ \E h \in 1..MaxH : StreamDefer(IdBytes(max), <<5>>, h) /\ \A k \in 1..(h - 1) : handles[k] # <<>>
  \/ \E h \in 1..MaxH, d \in MsgDom : StreamDeferred(h, d)
  \/ StreamAnswer(Mark(IdBytes(max)), <<1, 0>>)

\* (the mode test comes first so that TLC does not enumerate the id domain in every state)
Next == (mode = "id" /\ NextId) \/ (mode = "ctx" /\ NextCtx) \/ (mode = "stream" /\ NextStream)
Spec == Init /\ [][Next]_vars

---------------------------------------------------------------------------
(* invariants *)
TypeOK ==
  /\ mode \in {"id", "ctx", "stream"} /\ own \in 0..MaxOwn /\ clen \in 0..max
  /\ clen = Len(cval)
  /\ \A h \in 1..MaxH : Len(handles[h]) <= max
  /\ \A r \in DOMAIN reqs : reqs[r].at \in (-2)..MaxH

\* Tier 2 implements Tier 1: what the context and each handle carry is the
\* id of exactly the one request they are responsible for
Refines ==
  /\ IF clen > 0 THEN \E r \in DOMAIN reqs : HeldAt(0) = {r} /\ reqs[r].id = cval
     ELSE HeldAt(0) = {}
  /\ \A h \in 1..MaxH :
       IF handles[h] # <<>> THEN \E r \in DOMAIN reqs : HeldAt(h) = {r} /\ reqs[r].id = handles[h]
       ELSE HeldAt(h) = {}
  /\ own = 0 => clen = 0

(* action properties (the statement of C12 on the ghost) *)
\* every message handed to the transport speaks for exactly one request that
\* was outstanding before the call, in the place the call acted on, and
\* carries that request's own id marked as reply; at most one per call
SendsRight == [][(mode' = "ctx" /\ obs'.a # "init") =>
  /\ Len(obs'.exp.sends) <= 1
  /\ Len(obs'.exp.sends) = Cardinality(obs'.g)
  /\ \A r \in obs'.g :
       /\ r \in DOMAIN reqs /\ reqs[r].at >= 0
       /\ obs'.exp.sends[1].id = Mark(reqs[r].id)
       /\ obs'.exp.sends[1].id[1] >= 128
       /\ RefBuf2Id(Unmark(obs'.exp.sends[1].id)) = RefBuf2Id(reqs[r].id)
  ]_vars
\* an accepted reply answers the request for good: answered and lost are final,
\* so (with SendsRight) no request sees a second message after an accepted one
Final == [][obs'.a # "init" =>   \* ("init" = start of the next recorded execution)
              \A r \in DOMAIN reqs : reqs[r].at < 0 => (r \in DOMAIN reqs' /\ reqs'[r] = reqs[r])]_vars
Accepted == [][(mode' = "ctx" /\ obs'.a # "init") => \A r \in obs'.g : obs'.arg.tv = "ok" => reqs'[r].at = -1]_vars
\* with nothing outstanding in the context a reply attempt is refused and sends nothing
RefusedAfter == [][(obs'.a \in {"reply", "replytext"} /\ HeldAt(0) = {})
                   => (obs'.exp.ret = "refused" /\ obs'.exp.sends = <<>>)]_vars
\* a rejected send leaves the request where it was (retry possible)
RejectKeeps == [][(obs'.a \in {"reply", "replytext", "dreply"} /\ obs'.exp.ret = "refused")
                  => reqs' = reqs /\ clen' = clen /\ handles' = handles]_vars
\* releasing the place of an unanswered request: exactly one default reply while linked
DefaultOnRelease == [][
  /\ (obs'.a = "release" /\ own = 1 /\ Linked /\ HeldAt(0) # {})
       => (Len(obs'.exp.sends) = 1 /\ obs'.exp.sends[1].null = 1 /\ obs'.g = HeldAt(0))
  /\ (obs'.a = "drelease" /\ Linked)
       => (Len(obs'.exp.sends) = 1 /\ obs'.exp.sends[1].null = 1 /\ obs'.g = HeldAt(obs'.arg.h))
  ]_vars
\* arming touches the armed id only
ArmFrame == [][obs'.a = "arm" => (UNCHANGED <<max, target, own, attached, handles>>
                                  /\ obs'.exp.sends = <<>> /\ obs'.exp.intact = 1)]_vars

\* mode "stream": a request that asks for an answer gets exactly one frame back, carrying its
\* own id marked as reply (the requester reads its id back); nothing else is ever sent
StreamOnce == [][(mode' = "stream" /\ obs'.a # "init") =>
  /\ Len(obs'.exp.frames) = Cardinality(obs'.g)
  /\ \A r \in obs'.g : /\ reqs'[r].at = -1
                       /\ obs'.exp.frames[1].id[1] >= 128
                       /\ RefBuf2Id(Unmark(obs'.exp.frames[1].id)) = RefBuf2Id(reqs'[r].id)]_vars

\* mode "id": the byte loops compute the positional meaning; what was written reads back
IdTiers == [][
  /\ obs'.a \in {"id2buf", "roundtrip"} =>
       LET id == obs'.arg.id  w == obs'.arg.w  o == OpId2Buf(id, w) IN
       /\ o.ok = Fits(id, w)
       /\ o.ok => /\ o.buf = RefId2Buf(id, w) /\ Len(o.buf) = w
                  /\ (w > 0 => o.buf[1] < 128)
                  /\ RefBuf2Id(o.buf) = [ok |-> TRUE, id |-> id]
                  /\ OpBuf2Id(Unmark(Mark(o.buf))) = [ok |-> TRUE, id |-> id]
  /\ obs'.a = "buf2id" => OpBuf2Id(obs'.arg.buf) = RefBuf2Id(obs'.arg.buf)
  ]_vars
=============================================================================
