----------------------------- MODULE Gen_MapBuf -----------------------------
(* Behaviour export for MapBuf: one JSON line per generated transition of  *)
(* the control skeleton (handle 1: used, size, flags, type, kind; others:  *)
(* type, kind, shares-with-1).  Only histories in which a mapped buffer is *)
(* alive before the last call are exported (the others are CowArray's):    *)
(* pm = "some handle was mapped before the last step".                     *)
EXTENDS MapBuf, Json
CONSTANTS MaxDepth,
          Need      \* "map": histories with a mapped buffer alive; "meta": histories in which a metatype was made
VARIABLES hist, pm
GenInit == Init /\ hist = <<obs>> /\ pm = FALSE
GenNext == /\ IF Need = "meta" THEN MNextC \/ MNextMeta ELSE MNext    \* huge arguments: with Need = "map"
           /\ hist' = Append(hist, obs')
           /\ pm' = \E h \in H : Mapped(h)
GenSpec == GenInit /\ [][GenNext]_<<vars, hist, pm>>
Bound == /\ Len(hist) <= MaxDepth
         /\ \A h \in H : /\ Len(val[h]) <= MaxLen
                         /\ rec[h].size <= Max(AllocSize(MaxLen + 1), MAllocSize(MaxLen + 1))
         /\ IF Need = "map" THEN pm \/ hist[Len(hist)].a \in {"init", "new", "mnew"}
            ELSE \/ hist[Len(hist)].a \in {"init", "new", "mnew", "meta"}
                 \/ \E j \in 2..(Len(hist) - 1) : hist[j].a = "meta" /\ hist[j].arg.from # 0
Sk(h)  == <<Len(rec[h].data), rec[h].size, rec[h].imm, rec[h].nc, rec[h].typ, rec[h].kind,
            rec[h].typ = "c" /\ HasZero(rec[h].data)>>
Skel  == <<Sk(1), [h \in H \ {1} |-> <<rec[h].typ, rec[h].kind, h \in share[1]>>], pm,
           \E j \in 2..Len(hist) : hist[j].a = "meta" /\ hist[j].arg.from # 0>>
Emit  == PrintT(<<"BEHAV", ToJson(hist')>>)
=============================================================================
