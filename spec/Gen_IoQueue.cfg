SPECIFICATION GenSpec
CONSTANTS MaxLen = 4
CONSTRAINT GBound
VIEW Skel
ACTION_CONSTRAINT Emit
CHECK_DEADLOCK FALSE
