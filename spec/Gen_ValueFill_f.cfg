SPECIFICATION GenSpec
CONSTANTS
  Sources <- FileSc
  MaxInst = 2
  MaxOps = 4
  ModSet <- ModQ
  QuerySet <- QueryQ
VIEW ViewX
ACTION_CONSTRAINT Emit
CHECK_DEADLOCK FALSE
