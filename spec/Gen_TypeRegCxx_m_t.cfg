SPECIFICATION GenSpec
CONSTANTS
  IfBase <- SIfBase  IfAdd <- SIfAdd  IfCap <- SIfCap
  BuiltinIf <- FBuiltinIf
  DynBase <- SDynBase  DynCap <- SDynCap
  MetaBase <- SMetaBase  MetaCap <- SMetaCap
  GenBase <- SGenBase  GenCap <- SGenCap
  Chunk = 30
  PtrSize <- SPtr
  FixedSize <- SFixedSize
  FixedManaged <- SFixedManaged
  Optional = {}
  Names = {}
  Sizes = {}
  Probe = {}
  CxxCat <- XCat
  CxxSize <- XSize
  CxxFixedId <- XFixedId
  CxxName <- XName
  CxxClassK <- XClassK
  CxxClassT <- XClassT
  Vias = {"tmpl", "value", "default"}
  MetaAsk = {"generic_ptr", "basic_ptr", "mvalue_tracked_ptr", "mvalue_double_ptr", "mvalue_int32_ptr"}
  TraitsRegs = {"cspan_pod3", "generic_ptr", "basic_ptr", "mvalue_pod3_ptr"}
  GenericPtr = "generic_ptr"
  BasicPtr = "basic_ptr"
  PropBuf <- XPropBuf
  CxxTypes = {}
  PayTypes = {"tracked", "tracked_ptr", "double", "cstr"}
  WrapTypes = {}
  Slots = {1}
  Vals = {2}
  MaxAdds = 14
  MaxRefs = 1
  RawSizes = {}
  RawNames = {}
CONSTRAINT Bound
VIEW ViewS
ACTION_CONSTRAINT Emit
INVARIANTS TypeOK InRange CTypeOK CxxInRange
PROPERTIES CLegal CStable CxxStable LiveExact
CHECK_DEADLOCK FALSE
