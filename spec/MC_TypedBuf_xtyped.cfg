SPECIFICATION Spec
CONSTANTS NH = 2 GranE = 2 ES = 16 MaxLen = 3 MaxArg = 3 NV = 2 CTSet = {"elem"} Prune = FALSE Api = "xtyped" CtrMax = 4
CONSTRAINT Bound
VIEW View
INVARIANTS TypeOK AliasOK Refines Balance AllGone
PROPERTY Independent RefuseFrame
CHECK_DEADLOCK FALSE
