---------------------------- MODULE Gen_Connection ----------------------------
(* Behaviour export: one JSON line per generated transition of the control *)
(* skeleton (transport, width, who waits in which state, what is in flight *)
(* in which order and for whom, what A holds, which handles B keeps).      *)
(* Ids are the ones the code's algorithm picks; they are not compared.     *)
EXTENDS Connection, Json
VARIABLE hist
GenInit == XInit /\ hist = <<xobs>>
GenNext == XNext /\ hist' = Append(hist, xobs')
GenSpec == GenInit /\ [][GenNext]_<<xvars, hist>>
PSkel(q) == [i \in DOMAIN q |-> <<IsReply(q[i].id), q[i].g, AllZero(q[i].id),
                                   IF IsReply(q[i].id) /\ ReplyId(q[i].id) \in LiveIds THEN wait[SlotOf(ReplyId(q[i].id))].w ELSE 0>>]
Skel == <<tr, max, cid # 0, [r \in DOMAIN out |-> out[r].st], PSkel(net.AB), PSkel(net.BA), PSkel(held), Len(bq),
          [h \in 1..MaxH |-> handles[h] # <<>>], hg, cnt, reqs # <<>>>>
Emit == PrintT(<<"BEHAV", ToJson(hist')>>)
CMsgDom == {}
CTextDom == {}
CHretsBoth == {0, -3}
CHretsFail == {-3}
CRetsZero == {0}
CRetsBoth == {0, -1}
=============================================================================
