SPECIFICATION XSpec
CONSTANTS
  Modes <- AllModes
  KindsE <- KindsGQ
  KindsA <- KindsAQ
  KindsD <- KindsDQ
  Alpha <- AlphaE
  MaxMsg = 2
  MaxMsgs = 3
  MaxMsgsA = 2
  Caps <- CapsZ
  Grows <- Grows2
  DelKs <- Del12
  NextSet <- NextAll
  NextSetA <- NextAll
  Shifts <- Sh12
  DMaxLen = 8
  DSlacks <- Sl02
  DGrants <- Gr2
  DStreams <- StreamsG
  DFeeds <- Fd13
  DQs <- Q123
  DOps <- OpsAll
  DMis <- Mis0
  SStreams <- StreamsQ
  SQs <- Q1to8
  CapMax = 8
  Kinds <- None
  Pres <- None
CONSTRAINT Bound
VIEW View
INVARIANTS XTypeOK SurvivorsOnly PartialTextX PartialRaw PartialCobs FinDenotesX RefusedX DTypeOK
PROPERTIES AnswerAllowedX DeleteAllowed DeleteClean ReaderView DAnswerAllowed SizeSound ResetClears NoSourceKeeps SizeKeepsState ResetIdempotent DAnswerHonest DUnreadKept
CHECK_DEADLOCK FALSE
