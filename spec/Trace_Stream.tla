---------------------------- MODULE Trace_Stream ----------------------------
(* Trace validation for Stream: executions of the real encode_queue ->     *)
(* wire -> decode_queue pipeline recorded by drv/stream.c with the shipped  *)
(* codecs (block code 255 / 223) and arbitrary message lengths.            *)
(* For plain COBS ("cobs", scaled "s5") the flushed bytes must be exactly  *)
(* the reference frames; for the other framings (C01 decides their         *)
(* byte-level correctness) a flush may only move finished frames: the      *)
(* number of delimiters that left the output queue never exceeds the       *)
(* number of finished messages, and flushing everything moves them all     *)
(* (bytes of completed blocks of an unfinished message may leave early).   *)
EXTENDS Stream, Json, IOUtils
VARIABLE l
TraceLog == ndJsonDeserialize(IOEnv.TRACE)

Exact == shape.kind \in {"cobs", "s5"}
Code  == IF shape.kind = "s5" THEN 5 ELSE 255
ZerosOut == Zeros(wire) + Zeros(rpend) + Len(rcvd)      \* delimiters flushed so far

ResetTo(sh) ==
  /\ shape' = sh /\ cur' = Idle /\ sent' = <<>> /\ wdone' = <<>> /\ wire' = <<>>
  /\ rpend' = <<>> /\ rcvd' = <<>>
  /\ obs' = [a |-> "init", arg |-> sh, exp |-> [ret |-> "ok"]]

\* framing not modelled byte-exactly: take the flushed bytes from the log
LooseFlush(k, out) ==
  /\ wire' = wire \o out
  /\ Zeros(out) + ZerosOut <= Len(sent)
  /\ k = 1000000 => Zeros(out) + ZerosOut = Len(sent)
  /\ UNCHANGED <<shape, cur, sent, wdone, rpend, rcvd>>
  /\ Answer("flush", [n |-> k], [ret |-> "ok", out |-> out])

Step(ev) ==
  CASE ev.a = "init"    -> ResetTo(ev.arg)
    [] ev.a = "start"   -> Start(ev.arg.data)
    [] ev.a = "push"    -> Push(ev.arg.n, IF Exact THEN EncDone(FirstN(cur.msg, cur.done + ev.arg.n), Code) ELSE <<>>)
    [] ev.a = "end"     -> End(IF Exact THEN FrameK(cur.msg, Code) ELSE <<>>)
    [] ev.a = "flush"   -> IF Exact THEN (Len(wdone) >= 1 /\ Flush(ev.arg.n)) \/ (Len(wdone) = 0 /\ LooseFlush(ev.arg.n, <<>>))
                           ELSE LooseFlush(ev.arg.n, ev.obs.out)
    [] ev.a = "deliver" -> (Len(wire) >= 1 /\ Deliver(ev.arg.n)) \/ (Len(wire) = 0 /\ UNCHANGED vars)
    [] ev.a = "recv"    -> Recv
    [] OTHER            -> FALSE

Matches(ev) ==
  \/ ev.a = "deliver" /\ Len(wire) = 0 /\ ev.obs.out = <<>>
  \/ /\ obs'.a = ev.a
     /\ \A k \in DOMAIN obs'.exp : obs'.exp[k] = ev.obs[k]

TraceInit ==
  /\ l = 1
  /\ shape = [kind |-> "none"] /\ cur = Idle /\ sent = <<>> /\ wdone = <<>> /\ wire = <<>>
  /\ rpend = <<>> /\ rcvd = <<>>
  /\ obs = [a |-> "none", arg |-> [x |-> 0], exp |-> [ret |-> "ok"]]

TraceNext ==
  /\ l <= Len(TraceLog)
  /\ l' = l + 1
  /\ LET ev == TraceLog[l] IN Step(ev) /\ Matches(ev)

TraceSpec == TraceInit /\ [][TraceNext]_<<vars, l>>

TraceIntegrity == IsPrefix(rcvd, sent)

TraceAccepted ==
  LET n == TLCGet("stats").diameter - 1 IN
  /\ PrintT(<<"MATCHED", n>>)
  /\ n = Len(TraceLog)
=============================================================================
