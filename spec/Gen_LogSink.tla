---------------------------- MODULE Gen_LogSink ----------------------------
(* Behaviour export: one JSON line per generated transition.  The pieces   *)
(* of the message in progress are part of the view: every cut of every      *)
(* message is a path of its own up to its end (in the model the sink state  *)
(* does not depend on the cut; the code has to show the same).              *)
EXTENDS MC_LogSink, Json, IOUtils
CONSTANTS GenMax,      \* bound of the length of an exported behaviour
          Chain        \* TRUE: how the previous message ended is part of the view
VARIABLES hist, pcs, prev
\* In the model a finished or abandoned message leaves the sink as it was before (IdleClean), so the model checker
\* would look at a following message once only.  The code has to show that too: with Chain the class of the previous
\* message (printed / filtered / rich text, value rows, raw value rows, passed on) and how it ended stay in the view,
\* every message in every cut is replayed behind every such class.
PrevClass(m) == IF Route(cfg, m) = "log" /\ Len(m) >= 2 /\ OutFlags(MType(m), lvl0) = 0 THEN "filtered"
                ELSE IF Len(m) >= 2 /\ IsRich(m) THEN "rich"
                ELSE IF Route(cfg, m) = "values" /\ m[1] = RawCmd THEN "rawvalues"
                ELSE Route(cfg, m)
GenInit == Init /\ hist = <<obs>> /\ pcs = <<>> /\ prev = <<>>
GenNext ==
  /\ Next
  \* a message behind a predecessor is followed to its end in every cut, not abandoned again
  /\ ~(Chain /\ prev # <<>> /\ obs'.a = "abort")
  /\ hist' = Append(hist, obs')
  /\ pcs' = CASE obs'.a = "push" -> Append(pcs, Len(obs'.arg.data))
              [] obs'.a \in {"msg", "end", "abort", "drop", "vlog"} -> <<>>
              [] OTHER -> Append(pcs, 0)
  /\ prev' = IF Chain /\ obs'.a \in {"end", "abort"} THEN <<obs'.a, PrevClass(cur)>> ELSE prev
GenSpec == GenInit /\ [][GenNext]_<<vars, hist, pcs, prev>>
GenView == <<cfg, snk, wr, todo, held, cur, lvl0, pcs, prev>>
\* at most one level change / logger call per message, bounded behaviours
Marks(s) == Cardinality({i \in DOMAIN s : s[i] = 0})
GenBound == Marks(pcs) <= 1 /\ Len(hist) <= GenMax
Emit == PrintT(<<"BEHAV", ToJson(hist')>>)
=============================================================================
