SPECIFICATION TraceSpec
CONSTANTS SmallIds = {} Widths = {}
  Texts <- CTexts HRs <- CHRs
INVARIANTS TypeOK Refines OnceOnly GoneNotified HeldApart
PROPERTIES DeliveredRight OneHandler FiniAll SnapshotSilent ReserveUnique DefaultFollows
POSTCONDITION TraceAccepted
CHECK_DEADLOCK FALSE
