SPECIFICATION TraceSpec
CONSTANTS SmallIds = {} Widths = {}
  Texts <- CTexts HRs <- CHRs
INVARIANTS TypeOK Refines OnceOnly GoneNotified
PROPERTIES DeliveredRight OneHandler FiniAll ReserveUnique DefaultFollows
POSTCONDITION TraceAccepted
CHECK_DEADLOCK FALSE
