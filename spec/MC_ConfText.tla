---------------------------- MODULE MC_ConfText ----------------------------
(* Exhaustive configuration of ConfText: full state, small constants.      *)
(* Unambiguity: the model is run twice, once with the full state and once  *)
(* with the view <<cfg, text, depth>> (forest hidden).  If some text had   *)
(* two forests the second run would merge the two states; the              *)
(* postcondition SameCount compares its number of distinct states with the *)
(* number $EXPECT_DISTINCT of the first run.                               *)
EXTENDS ConfText, IOUtils

\* shipped format strings (examples/core/CMakeLists.txt), the default, and one per further style
FmtDefault == Null                                              \* "{*} = " + '#' + quotes
FmtOnline  == <<123, 42, 125, 32, 61, 59, 33, 35, 32, 96>>     \* "{*} =;!# `"
FmtLayout  == <<91, 42, 93, 32, 61, 32>>                       \* "[*] = "
FmtLayAlt  == <<91, 42, 93, 32, 61, 32, 33>>                   \* "[*] = !"
FmtSubsect == <<123, 42, 125, 32, 61, 59, 33, 35>>             \* "{*} =;!#"
FmtConfig  == <<91, 32, 93, 32, 61, 32, 35>>                   \* "[ ] = #"
FmtEncSame == <<37, 120, 37, 32, 61, 32>>                      \* "%x% = "
FmtEncNest == <<60, 120, 62, 32, 61, 32>>                      \* "<x> = "
FmtOpt     == <<123, 95, 125, 32, 61, 32>>                     \* "{_} = "
FmtOptEnd  == <<123, 95, 125, 32, 61, 59>>                     \* "{_} =;"
FmtSepBlank == <<91, 32, 93, 32, 32, 32, 35>>                  \* "[ ]   #"   blank as assign character
FmtOptBlank == <<91, 95, 93, 32, 32, 32, 35>>                  \* "[_]   #"
FmtEncBlank == <<37, 120, 37, 32, 32, 59, 35>>                 \* "%x%  ;#"   blank assign, option end

AccEf   == <<69, 102>>
AccEsnw == <<69, 115, 110, 119>>
AccE    == <<69>>
AccEsc  == <<69, 115, 99>>
AccNs   == <<110, 115>>                                         \* mpt_node_parse default "ns"
AccAll  == <<69, 78, 83, 87, 101, 110, 115, 119>>               \* "ENSWensw"

Cfg(f, a) == [fmt |-> f, acc |-> a]
ShippedConfigs == {Cfg(FmtDefault, Null), Cfg(FmtOnline, AccEf), Cfg(FmtLayout, AccEsnw), Cfg(FmtLayAlt, Null),
                   Cfg(FmtSubsect, AccE), Cfg(FmtConfig, AccEsc)}
MoreConfigs == {Cfg(FmtEncSame, Null), Cfg(FmtEncNest, Null), Cfg(FmtOpt, AccNs), Cfg(FmtOptEnd, Null),
                Cfg(FmtDefault, AccNs), Cfg(FmtConfig, AccAll), Cfg(FmtOnline, AccAll),
                Cfg(FmtSepBlank, Null), Cfg(FmtOptBlank, AccNs), Cfg(FmtEncBlank, Null)}
MCConfigs == ShippedConfigs \cup MoreConfigs

nA == B(<<97>>)  nB == B(<<98>>)  nA1 == B(<<97, 49>>)  n1 == B(<<49>>)  nE == <<>>
nAsB == B(<<97, 32, 98>>)   \* "a b"
nABsC == B(<<97, 98, 32, 99>>) \* "ab c"
nAuB == B(<<97, 95, 98>>)   \* "a_b"
nAdB == B(<<97, 46, 98>>)   \* "a.b"
vE == <<>>  vX == B(<<120>>)  vXY == B(<<120, 32, 121>>)
vSp == B(<<32, 120, 32>>)                  \* " x "   (needs quotes)
vQ == B(<<97, 34, 98>>)                    \* a"b
vBQ == B(<<92, 34, 39>>)                   \* \"'
vHash == B(<<120, 32, 35, 121>>)           \* x #y
vSemi == B(<<120, 59, 121, 125>>)          \* x;y}
vNl == B(<<120, 10, 121>>)                 \* two lines
vLong(n) == << <<120, n>> >>

MCOptNames == {nA, nA1}
MCSecNames == {nA, nE}
MCValues == {vE, vXY, vQ}
D(g, g2, b1, b2, b3, term) == [g |-> g, g2 |-> g2, b1 |-> b1, b2 |-> b2, b3 |-> b3, term |-> term]
DTight  == D("none", "none", "none", "none", "none", "nl")
DSpaced == D("sp", "nl", "sp", "sp", "sp", "nl")
DCom    == D("com", "spcom", "tab", "none", "sp", "com")
DBlank  == D("blank", "blank", "mix", "sp2", "mix", "eof")
DCrlf   == D("crlf", "none", "none", "tab", "sp", "nl")
\* comments glued (no blank) to the previous token wherever a comment may start: as gap right behind
\* '}' ']' ';' '{' or a header, right behind the opener of an enclosed header, right behind its name
DGlue   == D("com", "com", "none", "com", "sp", "com")
MCDecos == {DTight, DCom, DGlue}
MCDecosT == {DTight, DSpaced, DCom, DBlank, DGlue}
\* thorough: the slots vary independently (gap x blank before '=' x blank after the value x value end)
MCDecosP == ({D(g, IF g = "none" THEN "none" ELSE "nl", b1, b1, b3, t) :
               g \in {"none", "com"}, b1 \in {"none", "sp"}, b3 \in {"none", "sp"}, t \in {"nl", "com"}} \ {D("none", "none", "sp", "sp", "none", "com"), D("com", "nl", "sp", "sp", "none", "com")}) \cup {DGlue}
MCConfigsQ == ShippedConfigs \cup {Cfg(FmtEncSame, Null), Cfg(FmtEncNest, Null), Cfg(FmtOptEnd, Null), Cfg(FmtSepBlank, Null)}

Bound == TRUE
View == <<cfg, text, stack, nn>>                   \* obs is an observation, not state
TextView == <<cfg, text, Len(stack), nn>>          \* forest hidden
SameCount == TLCGet("stats").distinct = atoi(IOEnv.EXPECT_DISTINCT)

(* Tier 2 scanner against Tier 1 value for everything the renderer writes *)
ScanSet == MCValues \cup {vX, vSp, vBQ, vHash, vSemi, vNl, vLong(7)}
ScanFormats == {FormatOf(c.fmt) : c \in MCConfigs}
ScanChecked ==
  \A FF \in ScanFormats, v \in ScanSet, q \in {0, 34, 39, 96},
     b2 \in {"none", "sp", "tab", "sp2", "mix"}, b3 \in {"none", "sp", "mix"} :
     /\ (FF.oe # 0 => ScanAgrees(FF, v, q, b2, b3, C1(FF.oe)))
     /\ (FF.oe = 0 => /\ ScanAgrees(FF, v, q, b2, b3, C1(10))
                      /\ ScanAgrees(FF, v, q, b2, b3, <<>>)
                      /\ (b3 # "none" /\ ComChars(FF) # {} =>
                            ScanAgrees(FF, v, q, b2, b3, ComLine(FF, CHOOSE c \in ComChars(FF) : TRUE))))
ASSUME ("SKIP_SCAN" \in DOMAIN IOEnv) \/ ScanChecked
=============================================================================
