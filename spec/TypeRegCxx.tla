----------------------------- MODULE TypeRegCxx -----------------------------
(***************************************************************************)
(* The C++ face of the type registry (extension X06 of property C06, with  *)
(* C15 as second ingredient): type_properties<T>::id()/traits() of         *)
(* mptcore/types.h, the metatype implementations of mpt++ built on them    *)
(* (metatype::value<T>, metatype::generic via metatype::create / the C++   *)
(* mpt_meta_new), the value wrapper and property::set.                     *)
(*                                                                         *)
(* The registry itself is TypeReg (EXTENDS): reg is the meaning, the chunk *)
(* tables the design.  Added here:                                         *)
(*   cxx  -- C++ type -> identifier it obtained (Tier 1: Id(T); in the     *)
(*           code: the function-local static of every instantiation),      *)
(*   mt   -- slots of live metatype objects [k, t, v, refs]: a typed value *)
(*           store; refs = handles held on the object (C15),               *)
(*   wrap -- the value wrapper last assigned [t, v].                       *)
(* A C++ call may register types on the way ("on first use").  The step is *)
(* given the registrations that took place (news: type, identifier, name,  *)
(* managed -- in the model what the design does, in trace validation what  *)
(* the code did); every one of them must be legal in the sense of C06:     *)
(* the type had no identifier yet (Id(T) is stable and unique per T), the  *)
(* identifier is unused and inside the range of the type's kind, a class   *)
(* type is described with construct/destroy operations; the registry entry *)
(* carries sizeof(T).  A type may be left without identifier only when its *)
(* range is used up.  WHEN a call registers is not demanded (the statement *)
(* is silent), only that what the answer needs is there.                   *)
(***************************************************************************)
EXTENDS TypeReg

CONSTANTS CxxTypes,        \* tokens of the explored C++ types
          CxxCat(_),       \* "fixed" (built-in id) | "class" | "pod" | "ptr" | "span" | "meta" (metatype pointer class)
          CxxSize(_),      \* sizeof(T)
          CxxFixedId(_),   \* identifier types.h assigns to a built-in type
          CxxName(_),      \* name a metatype pointer class asks for
          CxxClassK(_),    \* kind of object a metatype pointer class points to ("tmpl" | "generic" | "basic")
          CxxClassT(_),    \* ... and for metatype::value<T> * the stored type T ("" otherwise)
          TraitsRegs,      \* design: types whose traits() query obtains the identifier
          GenericPtr,      \* design: token of metatype::generic * (registered by its conversions)
          BasicPtr,        \* design: token of metatype::basic * (the same)
          PayTypes,        \* types whose values are stored in metatypes
          WrapTypes,       \* ... in the value wrapper / a property
          Vias,            \* explored creators
          MetaAsk,         \* explored metatype pointer classes an object is asked for
          Slots, Vals, PropBuf

VARIABLES cxx, mt, wrap
cvars == <<vars, cxx, mt, wrap>>

---------------------------------------------------------------------------
IsFixed(T) == CxxCat(T) = "fixed"
IsMeta(T)  == CxxCat(T) = "meta"
IsText(T)  == IsFixed(T) /\ CxxFixedId(T) = 115      \* 's': text is kept by metatype::basic whichever creator is used
\* design: the generic template gives every value type construct/destroy operations
DesignManaged(T) == IF CxxCat(T) \in {"class", "pod"} THEN 1 ELSE 0
\* the statement demands the plain copy only where no such operations can be involved
RawCopy(T) == CxxCat(T) \in {"ptr", "span", "fixed"}

\* how the driver writes a value of type T made from token v
Repr(T, v) == CASE CxxCat(T) = "pod"  -> [i \in 1..CxxSize(T) |-> v]
                [] CxxCat(T) = "span" -> IF v = -1 THEN <<-1, 0>> ELSE <<v, v>>
                [] OTHER              -> <<v>>
\* token of the value an element has when it is made without a source: the class's default constructor
\* (the driver's class: tok = -1), zero bytes / zero for plain data, the null pointer (written -1), the empty span
DefV(T) == IF CxxCat(T) \in {"class", "ptr", "span"} THEN -1 ELSE 0

NoMeta == [k |-> "none", t |-> "", v |-> 0, refs |-> 0]
NoWrap == [t |-> "", v |-> 0]
Live(m) == Cardinality({h \in Slots : m[h].k # "none" /\ CxxCat(m[h].t) = "class"})

MapAdd(f, k, x) == [y \in DOMAIN f \cup {k} |-> IF y = k THEN x ELSE f[y]]
RangeOfT(T) == IF IsMeta(T) THEN MetaRange ELSE GenRange

---------------------------------------------------------------------------
(* registrations inside a call: pure functions of a registry state         *)
S0 == [reg |-> reg, genC |-> genC, metaC |-> metaC, cxx |-> cxx, legal |-> TRUE]
HasId(s, T)   == IsFixed(T) \/ T \in DOMAIN s.cxx
TId(s, T)     == IF IsFixed(T) THEN CxxFixedId(T) ELSE s.cxx[T]
FullFor(s, T) == RangeOfT(T) \ DOMAIN s.reg = {}
Settled(s, T) == HasId(s, T) \/ FullFor(s, T)      \* without identifier only when the range is used up

Apply1(s, n) ==
  IF IsMeta(n.t)
  THEN LET p   == Place(s.metaC, 1, MetaBase, MetaBase + MetaCap - 1, n.name)
           bad == n.name # "" /\ (Len(n.name) < 4 \/ n.name \in NamesIn(s.reg))
       IN [reg |-> MapAdd(s.reg, n.id, Desc("meta", n.name, PtrSize, 0)),
           genC |-> s.genC, metaC |-> p.chunks, cxx |-> MapAdd(s.cxx, n.t, n.id),
           legal |-> /\ s.legal /\ ~HasId(s, n.t) /\ n.id \in MetaRange \ DOMAIN s.reg
                     /\ ~bad /\ n.name \in {CxxName(n.t), ""}]
  ELSE LET e == [size |-> CxxSize(n.t), managed |-> n.managed]
           p == Place(s.genC, 1, GenBase, GenBase + GenCap - 1, e)
       IN [reg |-> MapAdd(s.reg, n.id, Desc("gen", "", CxxSize(n.t), n.managed)),
           genC |-> p.chunks, metaC |-> s.metaC, cxx |-> MapAdd(s.cxx, n.t, n.id),
           legal |-> /\ s.legal /\ ~HasId(s, n.t) /\ n.id \in GenRange \ DOMAIN s.reg
                     /\ (CxxCat(n.t) = "class" => n.managed = 1)]

RECURSIVE Absorb(_, _)
Absorb(s, news) == IF news = <<>> THEN s ELSE Absorb(Apply1(s, news[1]), Tail(news))

(* design: what the code registers when it asks for the identifier of T *)
DesignOne(s, T) ==
  IF HasId(s, T) THEN <<>>
  ELSE IF IsMeta(T)
  THEN LET want == CxxName(T)
           nm   == IF want # "" /\ Len(want) >= 4 /\ want \notin NamesIn(s.reg) THEN want ELSE ""
           p    == Place(s.metaC, 1, MetaBase, MetaBase + MetaCap - 1, nm)
       IN IF p.ok THEN <<[t |-> T, id |-> p.id, name |-> nm, managed |-> 0]>> ELSE <<>>
  ELSE LET p == Place(s.genC, 1, GenBase, GenBase + GenCap - 1, [size |-> CxxSize(T), managed |-> DesignManaged(T)])
       IN IF p.ok THEN <<[t |-> T, id |-> p.id, name |-> "", managed |-> DesignManaged(T)]>> ELSE <<>>

RECURSIVE DesignNews(_, _)
DesignNews(s, ts) ==
  IF ts = <<>> THEN <<>>
  ELSE LET n == DesignOne(s, ts[1])
       IN n \o DesignNews(IF n = <<>> THEN s ELSE Apply1(s, n[1]), Tail(ts))

Commit(s) == /\ reg' = s.reg /\ genC' = s.genC /\ metaC' = s.metaC /\ cxx' = s.cxx
             /\ UNCHANGED <<ifs, dyn>>

\* observation of a C++ step; the part every step answers: registrations, live payloads of
\* the tracked class, destructions/constructions at a wrong place
CObs(a, arg, legal, news, e) ==
  /\ obs' = [a |-> a, arg |-> arg, legal |-> legal,
             exp |-> e @@ [news |-> news, live |-> Live(mt'), bad |-> 0]]
  /\ des' = obs'.exp

AnsOk(T, vt, v) == [ret |-> "ok", vt |-> vt, val |-> Repr(T, v)]
AnsRef == [ret |-> "refused", vt |-> "", val |-> <<>>]

---------------------------------------------------------------------------
(* type_properties<T>::id(obtain) *)
CxxId(T, obtain, news) ==
  LET s == Absorb(S0, news) IN
  /\ Commit(s) /\ UNCHANGED <<mt, wrap>>
  /\ CObs("cxxid", [t |-> T, obtain |-> obtain],
          s.legal /\ (obtain = 1 => Settled(s, T)), news,
          IF HasId(s, T) THEN [ret |-> "ok", val |-> <<TId(s, T)>>, size |-> CxxSize(T)]
          ELSE [ret |-> "refused", val |-> <<>>, size |-> 0])

(* type_properties<T>::traits(): describes the C++ type whatever the registry says *)
CxxTraits(T, news) ==
  LET s == Absorb(S0, news) IN
  /\ Commit(s) /\ UNCHANGED <<mt, wrap>>
  /\ CObs("cxxtraits", [t |-> T],
          s.legal /\ (IsMeta(T) => Settled(s, T)), news,
          IF IsMeta(T) /\ ~HasId(s, T) THEN [open |-> 1]
          ELSE IF CxxCat(T) = "class" THEN [open |-> 0, present |-> 1, size |-> CxxSize(T), managed |-> 1]
          ELSE [open |-> 0, present |-> 1, size |-> CxxSize(T)])

\* metatype::create<T>(const T &): via = "tmpl";  metatype::create(const value &): "value";
\* mpt_meta_new of mpt++: "new";  metatype::generic::create(Id(T), 0), no source value: "default" -- the element is
\* made by the type's own description (a class is default-constructed, once).  All but the first need Id(T).
Create(h, via, T, v, news) ==
  LET s  == Absorb(S0, news)
      ok == via = "tmpl" \/ HasId(s, T)
  IN
  /\ mt[h].k = "none"
  /\ via = "default" => ~IsText(T)
  /\ Commit(s) /\ UNCHANGED wrap
  /\ mt' = IF ok THEN [mt EXCEPT ![h] = [k |-> IF via = "default" THEN "generic" ELSE IF IsText(T) THEN "basic"
                                                ELSE IF via = "tmpl" THEN "tmpl" ELSE "generic",
                                         t |-> T, v |-> IF via = "default" THEN DefV(T) ELSE v, refs |-> 1]]
           ELSE mt
  /\ CObs("create", [h |-> h, via |-> via, t |-> T, v |-> v],
          s.legal /\ (via # "tmpl" => Settled(s, T)), news,
          [ret |-> IF ok THEN "ok" ELSE "refused"])

(* convertable::get<T2>(T2 &) on the metatype in slot h *)
Get(h, T2, news) ==
  LET s == Absorb(S0, news)
      m == mt[h]
      T == m.t
  IN
  /\ m.k # "none"
  /\ Commit(s) /\ UNCHANGED <<mt, wrap>>
  /\ CObs("get", [h |-> h, t |-> T2],
          s.legal /\ Settled(s, T2), news,
          IF ~HasId(s, T2) THEN [open |-> 0, ans_in |-> {AnsRef}]
          ELSE IF T2 = T
          THEN (IF m.k = "tmpl" \/ IsFixed(T) THEN [open |-> 0, ans_in |-> {AnsOk(T, "", m.v)}]
                ELSE [open |-> 0, ans_in |-> {AnsOk(T, "", m.v), AnsRef}])    \* typed store answers through the value form
          ELSE IF IsFixed(T) /\ IsFixed(T2) THEN [open |-> 1]                  \* numeric conversion: property C07
          ELSE [open |-> 0, ans_in |-> {AnsRef}])                             \* a value is never handed out as another type

(* convert(TypeValue, &value): the stored value with its identifier *)
GetVal(h, news) ==
  LET s == Absorb(S0, news)
      m == mt[h]
  IN
  /\ m.k # "none"
  /\ Commit(s) /\ UNCHANGED <<mt, wrap>>
  /\ CObs("getval", [h |-> h], s.legal, news,
          IF m.k = "generic" THEN [open |-> 0, ans_in |-> {AnsOk(m.t, m.t, m.v)}] ELSE [open |-> 1])

(* convertable::type(): the identifier registered for the stored type *)
TypeOf(h, news) ==
  LET s == Absorb(S0, news)
      m == mt[h]
  IN
  /\ m.k # "none"
  /\ Commit(s) /\ UNCHANGED <<mt, wrap>>
  /\ CObs("typeof", [h |-> h], s.legal /\ Settled(s, m.t), news,
          IF HasId(s, m.t) /\ m.k # "basic" THEN [open |-> 0, val |-> <<TId(s, m.t)>>] ELSE [open |-> 1])

(* convert(TypeMetaPtr): the object itself *)
MetaPtr(h, news) ==
  LET s == Absorb(S0, news) IN
  /\ mt[h].k # "none"
  /\ Commit(s) /\ UNCHANGED <<mt, wrap>>
  /\ CObs("metaptr", [h |-> h], s.legal, news, [self |-> 1])

(* convert(Id(M), &ptr) for a metatype pointer class M: the object is handed out under the identifier *)
(* of its own class only -- an identifier stands for one type (C06: unique)                        *)
AsMeta(h, M, news) ==
  LET s    == Absorb(S0, news)
      m    == mt[h]
      mine == CxxClassK(M) = m.k /\ (CxxClassT(M) = "" \/ CxxClassT(M) = m.t)
  IN
  /\ m.k # "none" /\ IsMeta(M)
  /\ Commit(s) /\ UNCHANGED <<mt, wrap>>
  /\ CObs("asmeta", [h |-> h, t |-> M], s.legal /\ Settled(s, M), news,
          IF HasId(s, M) /\ mine THEN [ret |-> "ok", self |-> 1] ELSE [ret |-> "refused", self |-> 0])

(* addref(): got = 1 when the object handed out one more handle (which objects share is open) *)
AddRef(h, got, news) ==
  LET s == Absorb(S0, news) IN
  /\ mt[h].k # "none"
  /\ Commit(s) /\ UNCHANGED wrap
  /\ mt' = IF got = 1 THEN [mt EXCEPT ![h].refs = @ + 1] ELSE mt
  /\ CObs("addref", [h |-> h], s.legal, news, [got |-> got])

(* unref(): the payload goes with the last handle, once *)
Release(h, news) ==
  LET s == Absorb(S0, news) IN
  /\ mt[h].k # "none"
  /\ Commit(s) /\ UNCHANGED wrap
  /\ mt' = IF mt[h].refs = 1 THEN [mt EXCEPT ![h] = NoMeta] ELSE [mt EXCEPT ![h].refs = @ - 1]
  /\ CObs("release", [h |-> h], s.legal, news, [ret |-> "ok"])

(* clone(): an equal value in an object of its own *)
Clone(h, h2, news) ==
  LET s == Absorb(S0, news) IN
  /\ mt[h].k # "none" /\ mt[h2].k = "none"
  /\ Commit(s) /\ UNCHANGED wrap
  /\ mt' = [mt EXCEPT ![h2] = [mt[h] EXCEPT !.refs = 1]]
  /\ CObs("clone", [h |-> h, h2 |-> h2], s.legal, news, [ret |-> "ok"])

(* value = x: the wrapper reports the identifier registered for T *)
ValAssign(T, v, news) ==
  LET s == Absorb(S0, news) IN
  /\ Commit(s) /\ UNCHANGED mt
  /\ wrap' = IF HasId(s, T) THEN [t |-> T, v |-> v] ELSE NoWrap
  /\ CObs("valassign", [t |-> T, v |-> v], s.legal /\ Settled(s, T), news,
          [val |-> IF HasId(s, T) THEN <<TId(s, T)>> ELSE <<>>])

(* value::get<T2>(T2 &) *)
ValGet(T2, news) ==
  LET s == Absorb(S0, news)
      T == wrap.t
  IN
  /\ Commit(s) /\ UNCHANGED <<mt, wrap>>
  /\ CObs("valget", [t |-> T2], s.legal /\ Settled(s, T2), news,
          IF T = "" THEN [open |-> 1]                                           \* an empty wrapper: nothing is demanded
          ELSE IF ~HasId(s, T2) THEN [open |-> 0, ans_in |-> {AnsRef}]
          ELSE IF T2 = T
          THEN (IF RawCopy(T) THEN [open |-> 0, ans_in |-> {AnsOk(T, "", wrap.v)}]
                ELSE [open |-> 0, ans_in |-> {AnsOk(T, "", wrap.v), AnsRef}])
          ELSE IF IsFixed(T) /\ IsFixed(T2) THEN [open |-> 1]
          ELSE [open |-> 0, ans_in |-> {AnsRef}])

(* property::set(id(T), &x): keeps a copy of plain data that fits *)
PropSet(T, v, news) ==
  LET s == Absorb(S0, news) IN
  /\ Commit(s) /\ UNCHANGED <<mt, wrap>>
  /\ CObs("propset", [t |-> T, v |-> v], s.legal /\ Settled(s, T), news,
          IF ~HasId(s, T) THEN [open |-> 0, ans_in |-> {AnsRef}]
          ELSE IF RawCopy(T) /\ CxxSize(T) <= PropBuf THEN [open |-> 0, ans_in |-> {AnsOk(T, T, v)}]
          ELSE [open |-> 0, ans_in |-> {AnsOk(T, T, v), AnsRef}])

---------------------------------------------------------------------------
CInit == Init /\ cxx = [T \in {} |-> 0] /\ mt = [h \in Slots |-> NoMeta] /\ wrap = NoWrap

CKeep == UNCHANGED <<cxx, mt, wrap>>

\* the calls of the C face that the C++ calls are interleaved with
RawNext(sizes, names, probe, lo, hi) ==
  \/ \E sz \in sizes, m \in {0, 1} :
       LET p == GenPlace([size |-> sz, managed |-> m]) IN AddGeneric(sz, m, p.ok, p.id)
  \/ \E n \in names : LET p == MetaPlace(n) IN AddMeta(n, p.ok, p.id)
  \/ \E id \in probe : ById(id)
  \/ Scan(lo, hi)

\* design: the types a conversion of the stored object asks the identifier of
SideOf(m, act) ==
  CASE m.k = "tmpl"    -> <<m.t>>
    [] m.k = "generic" -> IF act \in {"get", "getval"} THEN <<GenericPtr>> ELSE <<>>
    [] m.k = "basic"   -> IF act \in {"get", "getval", "metaptr"} THEN <<BasicPtr>> ELSE <<>>
    [] OTHER           -> <<>>

CxxNext ==
  \/ \E T \in CxxTypes, o \in {0, 1} : CxxId(T, o, DesignNews(S0, IF o = 1 THEN <<T>> ELSE <<>>))
  \/ \E T \in CxxTypes : CxxTraits(T, DesignNews(S0, IF T \in TraitsRegs THEN <<T>> ELSE <<>>))
  \/ \E h \in Slots, via \in Vias, T \in PayTypes, v \in Vals :
       Create(h, via, T, v, DesignNews(S0, IF via = "tmpl" THEN <<>> ELSE <<T>>))
  \/ \E h \in Slots, M \in MetaAsk : AsMeta(h, M, DesignNews(S0, <<M>> \o SideOf(mt[h], "get")))
  \/ \E h \in Slots, T2 \in PayTypes : Get(h, T2, DesignNews(S0, <<T2>> \o SideOf(mt[h], "get")))
  \/ \E h \in Slots : GetVal(h, DesignNews(S0, SideOf(mt[h], "getval")))
  \/ \E h \in Slots : TypeOf(h, DesignNews(S0, SideOf(mt[h], "typeof")))
  \/ \E h \in Slots : MetaPtr(h, DesignNews(S0, SideOf(mt[h], "metaptr")))
  \/ \E h \in Slots : AddRef(h, IF mt[h].k = "generic" THEN 1 ELSE 0, <<>>)
  \/ \E h \in Slots : Release(h, <<>>)
  \/ \E h, h2 \in Slots : Clone(h, h2, <<>>)
  \/ \E T \in WrapTypes, v \in Vals : ValAssign(T, v, DesignNews(S0, <<T>>))
  \/ \E T2 \in WrapTypes : wrap.t # "" /\ ValGet(T2, DesignNews(S0, <<T2>>))
  \/ \E T \in WrapTypes, v \in Vals : PropSet(T, v, DesignNews(S0, <<T>>))

---------------------------------------------------------------------------
(* properties *)
CTypeOK ==
  /\ \A T \in DOMAIN cxx : ~IsFixed(T)
  /\ \A h \in Slots : (mt[h].k = "none" /\ mt[h] = NoMeta) \/ (mt[h].k \in {"tmpl", "generic", "basic"} /\ mt[h].refs >= 1)

\* Id(T) is unique per T (and no built-in identifier is handed out again)
CxxUnique ==
  /\ \A T1, T2 \in DOMAIN cxx : T1 # T2 => cxx[T1] # cxx[T2]
  /\ \A T \in DOMAIN cxx, F \in CxxTypes : IsFixed(F) => cxx[T] # CxxFixedId(F)
  /\ \A F1, F2 \in CxxTypes : (IsFixed(F1) /\ IsFixed(F2) /\ F1 # F2) => CxxFixedId(F1) # CxxFixedId(F2)

\* ... inside the range of its kind ...
CxxInRange == \A T \in DOMAIN cxx : cxx[T] \in RangeOfT(T)

\* ... and the registry describes it as the C++ type: Size(Id(T)) = sizeof(T)
CxxDescribed ==
  /\ \A T \in DOMAIN cxx :
       /\ cxx[T] \in DOMAIN reg
       /\ reg[cxx[T]].size = CxxSize(T)
       /\ (CxxCat(T) = "class" => reg[cxx[T]].managed = 1)
       /\ reg[cxx[T]].kind = IF IsMeta(T) THEN "meta" ELSE "gen"
  /\ \A F \in CxxTypes : IsFixed(F) => ById1(CxxFixedId(F)).present = 1 /\ ById1(CxxFixedId(F)).size = CxxSize(F)

\* stable: an identifier once obtained stays (a new process, "boot", starts again)
CxxStable == [][obs'.a # "boot" => \A T \in DOMAIN cxx : T \in DOMAIN cxx' /\ cxx'[T] = cxx[T]]_cvars
\* the C face does not touch what C++ obtained, and a value store step does not touch the entries either (Stable of TypeReg)
CLegal  == [][obs'.legal]_cvars
CStable == [][obs'.a # "boot" => \A i \in DOMAIN reg : i \in DOMAIN reg' /\ reg'[i] = reg[i]]_cvars
\* payloads of the tracked class: exactly one per live object that stores one
LiveExact == [][("live" \in DOMAIN obs'.exp) => obs'.exp.live = Live(mt')]_cvars
=============================================================================
