SPECIFICATION NSpec
CONSTANTS SmallIds = {1} Widths = {} MaxTok = 1
  Texts <- CTexts HRs <- CHRsQ
  MaxIn = 2 Kinds = {"h", "s", "l", "o"} MsgIds = {1} NextRVs <- CRVs Whats <- CWhats
  MaxQ = 2 Hows = {"shut"} MaxSent = 2 Ops <- OpsT
CONSTRAINT Bound
VIEW View
INVARIANTS TypeOK Refines OnceOnly GoneNotified NTypeOK ReleasedOnce ListedLive InOrderInv
PROPERTIES DeliveredRight OneHandler CalledWhileReady HandedRight ReleaseCause
CHECK_DEADLOCK FALSE
