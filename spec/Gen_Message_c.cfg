SPECIFICATION GenSpec
CONSTANTS
  Alphabet = {10, 32, 35, 97}
  MaxLen = 3
  MaxFrag = 3
  MaxDst = 0
  MaxDstFrag = 1
  MaxQ = 0
  Ops = {"read", "argv", "arrmsg", "memtok"}
  EmptyBases = {"slice", "null", "guard", "foreign"}
  ForeignBytes = {10}
  ArrKinds = {"exact", "shared", "roomy"}
  MaxFail = 4
VIEW View
ACTION_CONSTRAINT Emit
CHECK_DEADLOCK FALSE
