SPECIFICATION GenSpec
CONSTANTS Kinds = {"c", "cxx"}
  TextLens = {0}
  NH = 1 NObj = 4 Max = 4 MaxExtra = 1 MaxTries = 1 AsFound = FALSE
  Paths <- APaths
  NodeNames <- QNames
VIEW Skel
ACTION_CONSTRAINT Emit
CHECK_DEADLOCK FALSE
