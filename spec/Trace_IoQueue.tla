---------------------------- MODULE Trace_IoQueue ----------------------------
(* Trace validation of recorded io::queue executions against IoQueue.     *)
EXTENDS IoQueue, Json, IOUtils
VARIABLE l
TraceLog == ndJsonDeserialize(IOEnv.TRACE)
ResetTo(c) == deq' = <<>> /\ ctr' = 0
              /\ obs' = [a |-> "init", arg |-> [cap |-> c], exp |-> [ret |-> "true", out |-> <<>>, content |-> <<>>]]
Step(ev) ==
  CASE ev.a = "init"    -> ResetTo(ev.arg.cap)
    [] ev.a = "push"    -> Push(ev.arg.data)
    [] ev.a = "unshift" -> Unshift(ev.arg.data, ev.arg.zero)
    [] ev.a = "pop"     -> Pop(ev.arg.n, ev.arg.buf)
    [] ev.a = "shift"   -> Shift(ev.arg.n, ev.arg.buf)
    [] ev.a = "write"   -> Write(ev.arg.count, ev.arg.part, ev.arg.data)
    [] ev.a = "read"    -> Read(ev.arg.count, ev.arg.part)
    [] ev.a = "peek"    -> Peek(ev.arg.n)
    [] OTHER            -> FALSE
Matches(ev) ==
  /\ obs'.exp.content = ev.obs.content
  /\ \/ obs'.exp.ret = "any"
     \/ obs'.exp.ret = ev.obs.ret /\ obs'.exp.out = ev.obs.out
TraceInit == l = 1 /\ Init
TraceNext == /\ l <= Len(TraceLog) /\ l' = l + 1
             /\ LET ev == TraceLog[l] IN Step(ev) /\ Matches(ev)
TraceSpec == TraceInit /\ [][TraceNext]_<<vars, l>>
TraceAccepted == LET n == TLCGet("stats").diameter - 1 IN PrintT(<<"MATCHED", n>>) /\ n = Len(TraceLog)
=============================================================================
