SPECIFICATION Spec
CONSTANTS
  Alphabet <- Alpha5
  Ranges <- Rng1
  MaxLen = 7
  Limit = 65535
  Chunked = FALSE
  NoRangeLen = 4
  CodeDen <- Den1
VIEW View
INVARIANTS TypeOK PartsOK Partition Complete EncodeOK
PROPERTIES JoinTotals Progress
CHECK_DEADLOCK FALSE
