----------------------------- MODULE LayoutTree -----------------------------
(***************************************************************************)
(* Layout objects CREATED FROM and BOUND THROUGH descriptions (extension   *)
(* of property C20, with C09's tree meaning of configuration text).        *)
(*                                                                         *)
(* A description is a forest in the sense of ConfText: top-level options   *)
(* of the layout, sections "kind name [: parent ...]" holding name=value   *)
(* options, graph sections holding member sections.  It is written in the  *)
(* format of layout::file_format() ("{*} =;#! '\"") by the rendering        *)
(* operators of ConfText, one action per item, with a decoration choice    *)
(* at every insignificant position.                                        *)
(*                                                                         *)
(* Tier 1 (meaning)  Denote(tree): the named objects the description       *)
(*    denotes.  An object's property record is Layout.tla's record after   *)
(*    Set for every option in order (Den / Put1 of Layout: a refused or    *)
(*    unknown option leaves the record unchanged and is reported); a       *)
(*    section naming parents starts from the record of the parent (generic *)
(*    assignment: equal properties); containment keeps names and order; a  *)
(*    graph binds exactly the axes / worlds its 'axes' / 'worlds' text     *)
(*    names -- its own members first, then the layout's items -- and all   *)
(*    its own when the text is empty; binding changes no property.         *)
(* Tier 2 (design)   heap of struct images (Layout's Def2 / Put2 / View2)  *)
(*    built the way mpt::add_items walks the node tree: create, inherit    *)
(*    property-wise, append to the enclosing group's item array, apply the *)
(*    options through the name tables; layout::bind afterwards resolves    *)
(*    the names through the relation chain (own item array, then the       *)
(*    enclosing one), by reference when the list is empty, else as copies. *)
(*                                                                         *)
(* obs.arg.text is a complete document (open sections closed), obs.exp     *)
(* what loading it must show: every item with ALL properties, the binding  *)
(* lists with ALL properties of the bound objects, the graphs and the      *)
(* number of reports.                                                      *)
(***************************************************************************)
EXTENDS Integers, Sequences, FiniteSets, TLC, LayoutNames

CONSTANTS MaxSecs,   \* sections per description
          MaxOpts,   \* options per description
          MaxMem,    \* members per graph
          MaxTop,    \* top-level entries
          MaxDocs,   \* descriptions loaded one after the other on the same layout object
          MaxSteps,  \* operations on the loaded layout (graph property changes, binds) per description
          Mode       \* alphabet selection: "mc" | "gen" | "gent" | "trace"

VARIABLES stack,  \* open frames [h, body, id]; stack[1] = the layout itself
          text,   \* document so far (runs of ConfText)
          heap,   \* Tier 2: struct images, heap[1] = the layout
          cnt,    \* [secs, opts, rep]: items written so far, reports so far (Tier 2 count)
          den,    \* Tier 1: what the document written so far denotes (a function of stack)
          sess,   \* the history of the layout object: earlier descriptions (their steps), operations after the current load
          obs
vars == <<stack, text, heap, cnt, den, sess, obs>>

L  == INSTANCE Layout WITH KindSet <- {"axis"}, MaxOps <- 0, kind <- "axis", t2 <- <<>>, t1 <- <<>>,
                           nid <- 0, ops <- 0, obs <- [a |-> "none"]
CT == INSTANCE ConfText WITH Configs <- {}, OptNames <- {}, SecNames <- {}, Values <- {}, Decos <- {},
                             MaxNodes <- 0, MaxDepth <- 0, cfg <- [F |-> 0, A |-> 0], text <- <<>>,
                             stack <- <<>>, nn <- 0, obs <- [a |-> "none"]

---------------------------------------------------------------------------
(* Layout's tables, evaluated once (TLC evaluates constant definitions at   *)
(* start-up; Layout's operators rebuild the table at every use)             *)
Kinds == {"axis", "line", "text", "graph", "world"}
PropsT == [k \in Kinds |-> L!Props(k)]
ReadNamesT == [k \in Kinds |-> L!ReadNames(k)]
Def1T == [k \in Kinds |-> L!Def1(k)]
Def2T == [k \in Kinds |-> L!Def2(k)]
NListedT == [k \in Kinds |-> L!NListed(k)]
AllView1(k, a) == [nm \in ReadNamesT[k] |-> L!View1(k, a, nm)]
AllView2(k, r) == [nm \in ReadNamesT[k] |-> L!View2(k, r, nm)]
SetResolve(k, name) ==
  LET hits == {i \in 1..Len(PropsT[k]) : \E e \in PropsT[k][i].set : L!NameHit(e, name)}
  IN IF hits = {} THEN 0 ELSE CHOOSE i \in hits : \A j \in hits : i <= j
ASSUME TablesAgree ==
  \A k \in Kinds : /\ AllView1(k, Def1T[k]) = L!AllView1(k, L!Def1(k)) /\ AllView2(k, Def2T[k]) = L!AllView2(k, L!Def2(k))
                    /\ \A nm \in L!CanonNames(k) \cup L!AliasNames(k) \cup L!ExtraSetNames(k) : SetResolve(k, nm) = L!SetResolve(k, nm)

---------------------------------------------------------------------------
(* the file format of mpt::layout and the name flags of mpt::config_parser *)
FmtLay == <<123, 42, 125, 32, 61, 59, 35, 33, 32, 39, 34>>      \* {*} =;#! '"
FF == CT!FormatOf(FmtLay)
SectFlags == {"c", "w", "s"}       \* NumCont | Space | Special
OptFlags  == {"c"}                 \* NumCont
ASSUME FormatAsRead ==
  /\ FF.ss = 123 /\ FF.se = 125 /\ FF.as = 61 /\ FF.oe = 59 /\ FF.os = 0
  /\ FF.com = {35, 33} /\ FF.esc = {39, 34} /\ CT!StyleOf(FF) = "pre"

KW_axis  == <<97, 120, 105, 115>>
KW_xaxis == <<120, 97, 120, 105, 115>>
KW_yaxis == <<121, 97, 120, 105, 115>>
KW_zaxis == <<122, 97, 120, 105, 115>>
KW_world == <<119, 111, 114, 108, 100>>
KW_graph == <<103, 114, 97, 112, 104>>
KW_text  == <<116, 101, 120, 116>>
KW_line  == <<108, 105, 110, 101>>
KW_legend == <<108, 101, 103, 101, 110, 100>>     \* no such item type
KW_Axis  == <<65, 120, 105, 115>>                 \* type words are case sensitive
KindOf(w) ==      \* item_group::create
  CASE w \in {KW_axis, KW_xaxis, KW_yaxis, KW_zaxis} -> "axis"
    [] w = KW_world -> "world" [] w = KW_graph -> "graph" [] w = KW_text -> "text" [] w = KW_line -> "line"
    [] OTHER -> ""
N_name == <<110, 97, 109, 101>>
NM_a == <<97>>  NM_b == <<98>>  NM_w == <<119>>  NM_ab == <<97, 32, 98>>  NM_ba == <<98, 32, 97>>
NM_a1 == <<97, 49>>  NM_zz == <<122, 122>>  NM_atab_b == <<97, 9, 32, 98>>  NM_aa == <<97, 32, 97>>

---------------------------------------------------------------------------
(* text of numbers: 2*v = n[1]*65536 + n[2]                                *)
Neg2(n) == IF n[2] = 0 THEN <<-n[1], 0>> ELSE <<-n[1] - 1, 65536 - n[2]>>
RECURSIVE Digits(_, _)
Digits(h1, h2) ==
  LET t == (h1 % 10) * 65536 + h2
      q1 == h1 \div 10  q2 == t \div 10  d == t % 10
  IN IF q1 = 0 /\ q2 = 0 THEN <<48 + d>> ELSE Digits(q1, q2) \o <<48 + d>>
RECURSIVE HexDigits(_, _)
HexDigits(h1, h2) ==
  LET d == h2 % 16  q2 == (h1 % 16) * 4096 + h2 \div 16  q1 == h1 \div 16
  IN IF q1 = 0 /\ q2 = 0 THEN <<L!HexDigit(d)>> ELSE HexDigits(q1, q2) \o <<L!HexDigit(d)>>
NumText(n, sty) ==        \* what drv/layout_common.h render_num writes for the same number
  LET neg == n[1] < 0
      m == IF neg THEN Neg2(n) ELSE n
      odd == m[2] % 2 = 1
      h == L!Half(m)
      pre == IF sty = "sp" THEN <<32>> ELSE IF sty = "plus" THEN <<43>> ELSE <<>>
      sign == IF neg THEN <<45>> ELSE <<>>
  IN IF odd THEN pre \o sign \o Digits(h[1], h[2]) \o <<46, 53>>
     ELSE IF sty = "hex" THEN <<48, 120>> \o HexDigits(h[1], h[2])
     ELSE IF sty = "flt" THEN sign \o Digits(h[1], h[2]) \o <<46, 48>>
     ELSE pre \o sign \o Digits(h[1], h[2])

(* run lists: Layout's flat <<ch, n, ch, n>> and ConfText's << <<ch, n>> >> *)
RunsOfRle(r) == [i \in 1..(Len(r) \div 2) |-> <<r[2 * i - 1], r[2 * i]>>]
RECURSIVE RleOfRuns(_)
RleOfRuns(rs) == IF rs = <<>> THEN <<>> ELSE <<rs[1][1], rs[1][2]>> \o RleOfRuns(SubSeq(rs, 2, Len(rs)))

NoVal == [f |-> "none", n |-> <<>>, c |-> <<>>, sty |-> ""]      \* a node without value
TextForms == {"txt", "rle", "num", "num2"}
TextRuns(v) ==             \* the value as written
  CASE v.f = "txt"  -> CT!B(v.c)
    [] v.f = "rle"  -> RunsOfRle(v.c)
    [] v.f = "num"  -> CT!B(NumText(v.n, v.sty))
    [] v.f = "num2" -> CT!B(NumText(SubSeq(v.n, 1, 2), "dec") \o <<32>> \o NumText(SubSeq(v.n, 3, 4), "dec"))
    [] OTHER -> <<>>
(* what the value denotes: Layout's Den; a string property takes any text byte for byte *)
DenT(pt, v) == IF pt.t = "str" THEN L!Ok(RleOfRuns(TextRuns(v))) ELSE L!Den(pt, v)

---------------------------------------------------------------------------
(* entries of a description *)
Hdr(kw, name, par) == [kw |-> kw, name |-> name, par |-> par]
NoHdr == Hdr(<<>>, <<>>, <<>>)
Opt(name, v) == [e |-> "opt", name |-> name, v |-> v, h |-> NoHdr, body |-> <<>>]
Sec(h, body) == [e |-> "sec", name |-> <<>>, v |-> NoVal, h |-> h, body |-> body]

RECURSIVE Fold(_)
Fold(st) ==     \* close every open section: the entries of the layout
  IF Len(st) = 1 THEN st[1].body
  ELSE LET m == Len(st) IN
       Fold(Append(SubSeq(st, 1, m - 2), [st[m - 1] EXCEPT !.body = Append(@, Sec(st[m].h, st[m].body))]))

IsSp(c) == c = 32 \/ c \in 9..13
RECURSIVE Tokens(_, _, _)
Tokens(c, i, cur) ==       \* blank separated words (mpt_convert_key)
  IF i > Len(c) THEN (IF cur = <<>> THEN <<>> ELSE <<cur>>)
  ELSE IF IsSp(c[i]) THEN (IF cur = <<>> THEN <<>> ELSE <<cur>>) \o Tokens(c, i + 1, <<>>)
  ELSE Tokens(c, i + 1, Append(cur, c[i]))
RECURSIVE Unrle(_)
Unrle(r) == IF r = <<>> THEN <<>> ELSE [i \in 1..r[2] |-> r[1]] \o Unrle(SubSeq(r, 3, Len(r)))
WordsOf(str) == Tokens(Unrle(str), 1, <<>>)
MinOf(S) == CHOOSE x \in S : \A y \in S : x <= y

---------------------------------------------------------------------------
(* Tier 1: the meaning of a description                                    *)
NoObj == [nm |-> <<>>, kind |-> "", a |-> <<>>, mem |-> <<>>]
Match1(sc, kind, nm) == {i \in 1..Len(sc) : sc[i].kind = kind /\ sc[i].nm = nm}
RECURSIVE Lookup1(_, _, _)
Lookup1(kind, nm, scopes) ==       \* innermost scope first, first of that kind and name
  IF scopes = <<>> THEN NoObj
  ELSE LET m == Match1(scopes[1], kind, nm) IN
       IF m # {} THEN scopes[1][MinOf(m)] ELSE Lookup1(kind, nm, SubSeq(scopes, 2, Len(scopes)))

Determinate(kind, name, v) ==
  LET i == SetResolve(kind, name) IN
  IF i = 0 \/ v.f = "none" THEN TRUE ELSE DenT(PropsT[kind][i].pt, v).ret \in {"ok", "refused"}

RECURSIVE Apply1(_, _, _, _)
Apply1(kind, a0, body, n) ==       \* Set for every option in order
  IF n = 0 THEN [a |-> a0, rep |-> 0]
  ELSE LET pr == Apply1(kind, a0, body, n - 1)  en == body[n] IN
       IF en.e # "opt" THEN pr
       ELSE LET i == SetResolve(kind, en.name) IN
            IF en.v.f = "none"          \* no value: the documented default
            THEN IF i = 0 THEN pr
                 ELSE [pr EXCEPT !.a = L!Put1(kind, pr.a, PropsT[kind][i].name, PropsT[kind][i].pt.def)]
            ELSE IF i = 0 THEN [pr EXCEPT !.rep = @ + 1]
            ELSE LET p == PropsT[kind][i]  r == DenT(p.pt, en.v) IN
                 IF r.ret = "ok" THEN [pr EXCEPT !.a = L!Put1(kind, pr.a, p.name, r.den)]
                 ELSE [pr EXCEPT !.rep = @ + 1]

NoItems == [items |-> <<>>, rep |-> 0, ok |-> TRUE]
RECURSIVE Items1(_, _, _)
Items1(body, n, outer) ==          \* the objects the sections of a group body denote
  IF n = 0 THEN NoItems
  ELSE LET pr == Items1(body, n - 1, outer)  en == body[n] IN
       IF en.e # "sec" \/ ~pr.ok THEN pr
       ELSE LET kind == KindOf(en.h.kw) IN
            IF kind = "" \/ en.h.name = <<>> THEN [pr EXCEPT !.rep = @ + 1]
            ELSE IF Match1(pr.items, kind, en.h.name) # {} THEN [pr EXCEPT !.rep = @ + 1]
            ELSE LET scopes == <<pr.items>> \o outer
                     pars == [j \in 1..Len(en.h.par) |-> Lookup1(kind, en.h.par[j], scopes)]
                 IN IF \E j \in 1..Len(pars) : pars[j].kind = "" THEN [pr EXCEPT !.ok = FALSE]
                    ELSE LET base == IF pars = <<>> THEN Def1T[kind] ELSE pars[Len(pars)].a
                             ap == Apply1(kind, base, en.body, Len(en.body))
                             sub == IF kind = "graph" THEN Items1(en.body, Len(en.body), scopes) ELSE NoItems
                             o == [nm |-> en.h.name, kind |-> kind, a |-> ap.a, mem |-> sub.items]
                         IN [items |-> Append(pr.items, o), rep |-> pr.rep + ap.rep + sub.rep, ok |-> sub.ok]

(* the layout's own options: alias (also "name") and font take any text    *)
LayName(name) == IF L!LowSeq(name) \in {N_alias, N_name} THEN "alias" ELSE IF L!LowSeq(name) = N_font THEN "font" ELSE ""
RECURSIVE LayApply1(_, _)
LayApply1(body, n) ==
  IF n = 0 THEN [a |-> [alias |-> <<>>, font |-> <<>>], rep |-> 0]
  ELSE LET pr == LayApply1(body, n - 1)  en == body[n] IN
       IF en.e # "opt" THEN pr
       ELSE IF LayName(en.name) = "" THEN [pr EXCEPT !.rep = @ + 1]
       ELSE [pr EXCEPT !.a[LayName(en.name)] = RleOfRuns(TextRuns(en.v))]

(* binding: the objects a graph's 'axes' / 'worlds' text names *)
Bound1(kind, str, own, top) ==
  IF str = <<>>
  THEN LET idx == {i \in 1..Len(own) : own[i].kind = kind}
           S == SelectSeq([i \in 1..Len(own) |-> i], LAMBDA i : i \in idx)
       IN [j \in 1..Len(S) |-> [nm |-> own[S[j]].nm, o |-> own[S[j]]]]
  ELSE LET w == WordsOf(str) IN [j \in 1..Len(w) |-> [nm |-> w[j], o |-> Lookup1(kind, w[j], <<own, top>>)]]
BoundOK(b) == \A j \in 1..Len(b) : b[j].o.kind # ""
PBound(b) == [j \in 1..Len(b) |-> [name |-> L!RLE(b[j].nm), kind |-> b[j].o.kind, p |-> AllView1(b[j].o.kind, b[j].o.a)]]
RECURSIVE PObj(_, _)
PObj(o, top) ==
  [name |-> L!RLE(o.nm), kind |-> o.kind, p |-> AllView1(o.kind, o.a),
   items |-> [i \in 1..Len(o.mem) |-> PObj(o.mem[i], top)],
   axes |-> IF o.kind = "graph" THEN PBound(Bound1("axis", o.a.axes, o.mem, top)) ELSE <<>>,
   worlds |-> IF o.kind = "graph" THEN PBound(Bound1("world", o.a.worlds, o.mem, top)) ELSE <<>>]
RECURSIVE AllBound(_, _)
AllBound(items, top) ==
  \A i \in 1..Len(items) :
     items[i].kind = "graph" =>
        /\ BoundOK(Bound1("axis", items[i].a.axes, items[i].mem, top))
        /\ BoundOK(Bound1("world", items[i].a.worlds, items[i].mem, top))
        /\ AllBound(items[i].mem, top)

Denote(tree) ==
  LET it == Items1(tree, Len(tree), <<>>)
      la == LayApply1(tree, Len(tree))
      gi == SelectSeq(it.items, LAMBDA o : o.kind = "graph")
  IN IF ~it.ok \/ ~AllBound(it.items, it.items) THEN [ret |-> "failed"]
     ELSE [ret |-> "ok", lay |-> la.a,
           items |-> [i \in 1..Len(it.items) |-> PObj(it.items[i], it.items)],
           graphs |-> [i \in 1..Len(gi) |-> L!RLE(gi[i].nm)],
           rep |-> it.rep + la.rep]

(* the C path: every section "kind name" on its own, filled by             *)
(* mpt_object_set_nodes from its leaf children (no parents, no binding);   *)
(* nset = number of options that took effect                               *)
RECURSIVE CItems(_, _)
CItems(body, n) ==
  IF n = 0 THEN <<>>
  ELSE LET pr == CItems(body, n - 1)  en == body[n] IN
       IF en.e # "sec" \/ KindOf(en.h.kw) = "" THEN pr
       ELSE LET kind == KindOf(en.h.kw)
                ap == Apply1(kind, Def1T[kind], en.body, Len(en.body))
                nopt == Cardinality({j \in 1..Len(en.body) : en.body[j].e = "opt"})
                nrst == Cardinality({j \in 1..Len(en.body) : en.body[j].e = "opt" /\ en.body[j].v.f = "none"
                                                                /\ SetResolve(kind, en.body[j].name) = 0})
            IN Append(pr, [name |-> L!RLE(en.h.name), kind |-> kind, p |-> AllView1(kind, ap.a),
                           nset |-> nopt - ap.rep - nrst,
                           items |-> IF kind = "graph" THEN CItems(en.body, Len(en.body)) ELSE <<>>])

---------------------------------------------------------------------------
(* Tier 2: struct images in a heap; item arrays hold (name, id)            *)
Img(kind, r) == [kind |-> kind, r |-> r, items |-> <<>>, axes |-> <<>>, worlds |-> <<>>]
LayImg == Img("layout", [alias |-> <<>>, font |-> <<>>])
IsGroup(kind) == kind \in {"layout", "graph"}
ItemIdx(hp, gid, kind, nm) == {i \in 1..Len(hp[gid].items) : hp[gid].items[i].nm = nm /\ hp[hp[gid].items[i].id].kind = kind}
RECURSIVE Find2(_, _, _, _)
Find2(hp, chain, kind, nm) ==      \* collection::relation::find through the chain of groups
  IF chain = <<>> THEN 0
  ELSE LET m == ItemIdx(hp, chain[1], kind, nm) IN
       IF m # {} THEN hp[chain[1]].items[MinOf(m)].id ELSE Find2(hp, SubSeq(chain, 2, Len(chain)), kind, nm)
RECURSIVE CopyProps2(_, _, _, _)
CopyProps2(kind, r, src, n) ==     \* object::set(const object &): every listed property, one by one
  IF n = 0 THEN r
  ELSE LET nm == PropsT[kind][n].name IN
       L!Put2(kind, CopyProps2(kind, r, src, n - 1), nm, L!View2(kind, src, nm), 7)
RECURSIVE Inherit2(_, _, _, _)
Inherit2(hp, kind, ids, n) ==
  IF n = 0 THEN Def2T[kind] ELSE CopyProps2(kind, Inherit2(hp, kind, ids, n - 1), hp[ids[n]].r, NListedT[kind])

Chain(st) == LET g == SelectSeq(st, LAMBDA f : f.id > 0) IN [i \in 1..Len(g) |-> g[Len(g) + 1 - i].id]

(* layout::bind: the binding lists of every graph; named objects are bound as copies *)
RECURSIVE BindNames2(_, _, _, _, _)
BindNames2(hp, chain, kind, w, n) ==       \* [hp, list, ok]
  IF n = 0 THEN [hp |-> hp, list |-> <<>>, ok |-> TRUE]
  ELSE LET pr == BindNames2(hp, chain, kind, w, n - 1)
           id == Find2(hp, chain, kind, w[n]) IN
       IF ~pr.ok \/ id = 0 THEN [pr EXCEPT !.ok = FALSE]
       ELSE [hp |-> Append(pr.hp, Img(kind, L!Dup2(kind, hp[id].r, 9))),
             list |-> Append(pr.list, [nm |-> w[n], id |-> Len(pr.hp) + 1]), ok |-> TRUE]
BindOne2(hp, gid, kind, str) ==
  IF str = <<>>
  THEN [hp |-> hp, ok |-> TRUE,
        list |-> SelectSeq(hp[gid].items, LAMBDA it : hp[it.id].kind = kind)]
  ELSE LET w == WordsOf(str) IN BindNames2(hp, <<gid, 1>>, kind, w, Len(w))
RECURSIVE BindAll2(_, _)
BindAll2(hp, n) ==                 \* over the layout's items in order
  IF n = 0 THEN [hp |-> hp, ok |-> TRUE]
  ELSE LET pr == BindAll2(hp, n - 1)
           gid == hp[1].items[n].id IN
       IF ~pr.ok \/ hp[gid].kind # "graph" THEN pr
       ELSE LET ax == BindOne2(pr.hp, gid, "axis", pr.hp[gid].r.axes.s)
                wl == BindOne2(ax.hp, gid, "world", ax.hp[gid].r.worlds.s)
            IN IF ~ax.ok \/ ~wl.ok THEN [pr EXCEPT !.ok = FALSE]
               ELSE [hp |-> [wl.hp EXCEPT ![gid].axes = ax.list, ![gid].worlds = wl.list], ok |-> TRUE]
Bound(hp) == BindAll2(hp, Len(hp[1].items))

VBound2(hp, list) == [j \in 1..Len(list) |-> [name |-> L!RLE(list[j].nm), kind |-> hp[list[j].id].kind,
                                              p |-> AllView2(hp[list[j].id].kind, hp[list[j].id].r)]]
RECURSIVE VObj2(_, _, _)
VObj2(hp, nm, id) ==
  [name |-> L!RLE(nm), kind |-> hp[id].kind, p |-> AllView2(hp[id].kind, hp[id].r),
   items |-> [i \in 1..Len(hp[id].items) |-> VObj2(hp, hp[id].items[i].nm, hp[id].items[i].id)],
   axes |-> VBound2(hp, hp[id].axes), worlds |-> VBound2(hp, hp[id].worlds)]
View2B(hp, b, rep) ==      \* b = Bound(hp)
  LET gi == SelectSeq(hp[1].items, LAMBDA it : hp[it.id].kind = "graph")
  IN IF ~b.ok THEN [ret |-> "failed"]
     ELSE [ret |-> "ok", lay |-> [alias |-> hp[1].r.alias, font |-> hp[1].r.font],
           items |-> [i \in 1..Len(hp[1].items) |-> VObj2(b.hp, hp[1].items[i].nm, hp[1].items[i].id)],
           graphs |-> [i \in 1..Len(gi) |-> L!RLE(gi[i].nm)],
           rep |-> rep]
View2(hp, rep) == View2B(hp, Bound(hp), rep)

---------------------------------------------------------------------------
(* rendering *)
D(g, g2, b1, b2, b3, q, hs) == [g |-> g, g2 |-> g2, b1 |-> b1, b2 |-> b2, b3 |-> b3, q |-> q, hs |-> hs]
DTight  == D("none", "none", "none", "none", "none", 0, "tight")
DSpaced == D("nl", "none", "sp", "sp", "none", 0, "spaced")
DCom    == D("com", "spcom", "tab", "none", "sp", 34, "wide")
DBlank  == D("blank", "nl", "mix", "sp2", "mix", 39, "spaced")
DecoList == <<DTight, DSpaced, DCom, DBlank>>
(* exhaustive / export runs: one profile per item, picked by the length of the document so far and the item *)
DecoPick(salt) == IF Mode = "mc" THEN DTight ELSE DecoList[((CT!RLen(text) + salt) % 4) + 1]

RECURSIVE JoinWords(_, _)
JoinWords(ws, sep) == IF ws = <<>> THEN <<>> ELSE IF Len(ws) = 1 THEN ws[1] ELSE ws[1] \o sep \o JoinWords(SubSeq(ws, 2, Len(ws)), sep)
HdrText(h, hs) ==          \* kind name [: parent ...]
  LET sp == CASE hs = "wide" -> <<32, 9>> [] OTHER -> <<32>>
      colon == CASE hs = "tight" -> <<58>> [] hs = "wide" -> <<32, 58, 9>> [] OTHER -> <<32, 58, 32>>
  IN h.kw \o (IF h.name = <<>> THEN <<>> ELSE sp \o h.name)
          \o (IF h.par = <<>> THEN <<>> ELSE colon \o JoinWords(h.par, sp))
QuoteFor(vr, want) ==      \* 0 = bare; a quote character where the text needs one (or the profile asks for it)
  LET can == {q \in FF.esc : CT!QuotedOK(FF, vr, q)} IN
  IF want # 0 /\ want \in can THEN want
  ELSE IF CT!UnquotedOK(FF, vr) THEN 0
  ELSE IF can # {} THEN MinOf(can) ELSE -1
Closers(st) == CT!Rep(CT!C1(FF.se), Len(st) - 1)
OptText(name, v, d) ==
  LET vr == TextRuns(v)  q == QuoteFor(vr, d.q) IN
  CT!CatAll(<<CT!GapText(FF, d.g), CT!B(name), CT!BlankText(d.b1), CT!C1(FF.as), CT!BlankText(d.b2),
              CT!ValText(vr, q), CT!BlankText(d.b3), CT!C1(FF.oe)>>)
ResetText(name, d) ==      \* a node without value: "name = ;"
  CT!CatAll(<<CT!GapText(FF, d.g), CT!B(name), CT!BlankText(d.b1), CT!C1(FF.as), CT!BlankText(d.b3), CT!C1(FF.oe)>>)
OpenText(h, d) ==
  CT!CatAll(<<CT!GapText(FF, d.g), CT!B(HdrText(h, d.hs)), CT!BlankText(d.b1), CT!GapText(FF, d.g2), CT!C1(FF.ss)>>)
CloseText(d) == CT!Cat(CT!GapText(FF, d.g), CT!C1(FF.se))

---------------------------------------------------------------------------
Top == stack[Len(stack)]
TopKind == IF Top.id > 0 THEN heap[Top.id].kind ELSE ""
Exp1(st) == Denote(Fold(st))
(* what loading a document must show on a layout object that has loaded ndocs documents before: exactly what   *)
(* the document denotes; alias / font: the document's value where it gives one, the default after a reset      *)
(* (rst), otherwise not demanded                                                                                *)
LaySet(tree) == {LayName(tree[i].name) : i \in {j \in 1..Len(tree) : tree[j].e = "opt"}} \ {""}
LoadExpOf(dn, st, empty, ndocs, rst) ==
  IF dn.ret # "ok" THEN dn
  ELSE LET d1 == IF empty THEN [dn EXCEPT !.rep = -1] ELSE dn IN     \* an empty document: reports not demanded
       IF ndocs = 0 THEN d1
       ELSE LET keys == IF rst THEN {"alias", "font"} ELSE LaySet(Fold(st)) IN
            [d1 EXCEPT !.lay = [k \in keys |-> dn.lay[k]]]
LoadStepOf(dn, txt, st, empty, ndocs, rst) ==
  [a |-> IF ndocs = 0 THEN "load" ELSE "reload", arg |-> [text |-> RleOfRuns(txt)], exp |-> LoadExpOf(dn, st, empty, ndocs, rst)]
Case(a, arg, txt, st) ==
  /\ den' = Exp1(st)
  /\ LET stp == LoadStepOf(den', txt, st, FALSE, sess.docs, sess.rst) IN
     /\ sess' = [sess EXCEPT !.cur = stp]
     /\ obs' = stp

\* later descriptions of a history stay small in the export runs
SecLimit == IF sess.docs > 0 /\ Mode \in {"gen", "gent"} THEN 2 ELSE MaxSecs
OptLimit == IF sess.docs > 0 /\ Mode \in {"gen", "gent"} THEN 1 ELSE MaxOpts

UnitXY(r) == \A f \in {"x", "y"} : r[f][1] = 0 /\ r[f][2] = 0 /\ r[f][3] \in 0..2

(* name = value ; inside the innermost open section (or for the layout itself) *)
AddOption(name, v, d) ==
  LET k == TopKind  vr == TextRuns(v)  q == QuoteFor(vr, d.q) IN
  /\ cnt.opts < OptLimit
  /\ CT!NameOK(CT!B(name), OptFlags) /\ CT!NameLex(FF, CT!B(name)) /\ name # <<>>
  /\ v.f \in TextForms /\ q >= 0 /\ CT!ValOK(FF, vr, q) /\ CT!GapOK(FF, d.g)
  /\ vr # <<>>                                   \* an empty value is no value: see AddReset
  /\ text' = CT!Cat(text, OptText(name, v, d))
  /\ stack' = [stack EXCEPT ![Len(stack)].body = Append(@, Opt(name, v))]
  /\ IF Top.id <= 0 THEN UNCHANGED heap /\ cnt' = [cnt EXCEPT !.opts = @ + 1]       \* inside a skipped section
     ELSE IF k = "layout"
     THEN IF LayName(name) = "" THEN UNCHANGED heap /\ cnt' = [cnt EXCEPT !.opts = @ + 1, !.rep = @ + 1]
          ELSE /\ heap' = [heap EXCEPT ![1].r[LayName(name)] = RleOfRuns(vr)]
               /\ cnt' = [cnt EXCEPT !.opts = @ + 1]
     ELSE /\ Determinate(k, name, v)
          /\ LET i == SetResolve(k, name) IN
             IF i = 0 THEN UNCHANGED heap /\ cnt' = [cnt EXCEPT !.opts = @ + 1, !.rep = @ + 1]
             ELSE LET p == PropsT[k][i]  r == DenT(p.pt, v) IN
                  IF r.ret = "ok"
                  THEN /\ heap' = [heap EXCEPT ![Top.id].r = L!Put2(k, @, p.name, r.den, 5)]
                       /\ cnt' = [cnt EXCEPT !.opts = @ + 1]
                  ELSE UNCHANGED heap /\ cnt' = [cnt EXCEPT !.opts = @ + 1, !.rep = @ + 1]
  /\ Case("load", [x |-> 0], CT!Cat(text', Closers(stack')), stack')

(* name = ; inside a plain object: a node without value resets the property *)
AddReset(name, d) ==
  LET k == TopKind IN
  /\ cnt.opts < OptLimit /\ Top.id > 0 /\ ~IsGroup(k)
  /\ CT!NameOK(CT!B(name), OptFlags) /\ CT!NameLex(FF, CT!B(name)) /\ name # <<>> /\ CT!GapOK(FF, d.g)
  /\ text' = CT!Cat(text, ResetText(name, d))
  /\ stack' = [stack EXCEPT ![Len(stack)].body = Append(@, Opt(name, NoVal))]
  /\ LET i == SetResolve(k, name) IN
     IF i = 0 THEN UNCHANGED heap
     ELSE heap' = [heap EXCEPT ![Top.id].r = L!Put2(k, @, PropsT[k][i].name, PropsT[k][i].pt.def, 5)]
  /\ cnt' = [cnt EXCEPT !.opts = @ + 1]
  /\ Case("load", [x |-> 0], CT!Cat(text', Closers(stack')), stack')

(* kind name [: parents] {   -- in the layout or in a graph *)
OpenSection(h, d) ==
  LET k == KindOf(h.kw)
      chain == Chain(stack)
      nsib == Cardinality({i \in 1..Len(Top.body) : Top.body[i].e = "sec"})
      hn == CT!B(HdrText(h, d.hs)) IN
  /\ cnt.secs < SecLimit /\ Top.id > 0 /\ IsGroup(TopKind)
  /\ Len(stack) = 1 => Len(Top.body) < MaxTop
  /\ Len(stack) > 1 => nsib < MaxMem
  /\ Len(stack) > 1 => k # "graph"                                \* graphs inside graphs: not described
  /\ CT!NameOK(hn, SectFlags) /\ CT!NameLex(FF, hn) /\ CT!GapOK(FF, d.g) /\ CT!GapOK(FF, d.g2)
  /\ d.g2 \in {"none", "nl", "blank", "spcom"}
  /\ h.name # <<>>
  /\ \A j \in 1..Len(h.par) : h.par[j] # <<>> /\ \A i \in 1..Len(h.par[j]) : ~IsSp(h.par[j][i]) /\ h.par[j][i] # 58   \* parents are blank separated words
  /\ \A i \in 1..Len(h.name) : h.name[i] # 58 /\ (i \in {1, Len(h.name)} => ~IsSp(h.name[i]))               \* the name ends at ':'
  /\ text' = CT!Cat(text, OpenText(h, d))
  /\ IF k = ""
     THEN /\ h.par = <<>>
          /\ stack' = Append(stack, [h |-> h, body |-> <<>>, id |-> -1])
          /\ UNCHANGED heap /\ cnt' = [cnt EXCEPT !.secs = @ + 1, !.rep = @ + 1]
     ELSE LET ids == [j \in 1..Len(h.par) |-> Find2(heap, chain, k, h.par[j])]
              new == Len(heap) + 1 IN
          /\ ItemIdx(heap, Top.id, k, h.name) = {}                   \* a second item of that kind and name: not described
          /\ \A j \in 1..Len(ids) : ids[j] # 0                       \* parents exist
          /\ k = "text" => \A j \in 1..Len(ids) : UnitXY(heap[ids[j]].r)   \* open finding of C20 (x/y outside [0,1])
          /\ heap' = Append([heap EXCEPT ![Top.id].items = Append(@, [nm |-> h.name, id |-> new])],
                            Img(k, Inherit2(heap, k, ids, Len(ids))))
          /\ stack' = Append(stack, [h |-> h, body |-> <<>>, id |-> new])
          /\ cnt' = [cnt EXCEPT !.secs = @ + 1]
  /\ Case("load", [x |-> 0], CT!Cat(text', Closers(stack')), stack')

CloseSection(d) ==
  /\ Len(stack) > 1 /\ CT!GapOK(FF, d.g)
  /\ text' = CT!Cat(text, CloseText(d))
  /\ LET m == Len(stack) IN
     stack' = Append(SubSeq(stack, 1, m - 2), [stack[m - 1] EXCEPT !.body = Append(@, Sec(stack[m].h, stack[m].body))])
  /\ UNCHANGED <<heap, cnt>>
  /\ Case("load", [x |-> 0], CT!Cat(text', Closers(stack')), stack')

(* the same document: every item copied (clone / set_property(0|"", item) / object::set(object)), *)
(* then read once more -- equal properties, nothing changed                                        *)
CopyModes == {"clone", "null", "empty", "props"}
Probe(a, mode) ==
  /\ Len(stack) = 1 /\ cnt.secs > 0 /\ sess.docs = 0 /\ ~sess.on
  /\ mode = "props" => \A i \in 2..Len(heap) : heap[i].kind = "text" => UnitXY(heap[i].r)    \* open finding of C20
  /\ UNCHANGED <<stack, text, heap, cnt, den, sess>>
  /\ obs' = [a |-> a, arg |-> IF a = "copy" THEN [mode |-> mode] ELSE [x |-> 0],
             exp |-> LET e == den IN IF e.ret = "ok" THEN [ret |-> "ok", lay |-> e.lay, items |-> e.items, graphs |-> e.graphs]
                                             ELSE [ret |-> "failed"]]
(* a node that carries an item instance instead of a value (add_items hands the instance to the group): *)
(* the loaded layout gains that item, named like the node, at the end                                   *)
InstName == <<113, 49>>       \* q1
Inst ==
  LET k == IF cnt.secs % 2 = 0 THEN "axis" ELSE "world" IN
  /\ Len(stack) = 1 /\ cnt.secs > 0 /\ sess.docs = 0 /\ ~sess.on /\ den.ret = "ok"
  /\ UNCHANGED <<stack, text, heap, cnt, den, sess>>
  /\ obs' = [a |-> "inst", arg |-> [kind |-> k, name |-> InstName],
             exp |-> [ret |-> "ok", lay |-> den.lay, graphs |-> den.graphs,
                      items |-> Append(den.items, [name |-> L!RLE(InstName), kind |-> k, p |-> AllView1(k, Def1T[k]),
                                                   items |-> <<>>, axes |-> <<>>, worlds |-> <<>>])]]
(* the C path on the same text *)
CLoad ==
  /\ Len(stack) = 1 /\ cnt.secs > 0 /\ sess.docs = 0 /\ ~sess.on
  /\ UNCHANGED <<stack, text, heap, cnt, den, sess>>
  /\ obs' = [a |-> "cload", arg |-> [text |-> RleOfRuns(text)],
             exp |-> [ret |-> "ok", items |-> CItems(stack[1].body, Len(stack[1].body))]]


---------------------------------------------------------------------------
(* histories of one layout object: load, operations on the loaded layout,  *)
(* [reset,] load of the next description ...                               *)
(*  - after load(B) the layout denotes exactly B, whatever it held before  *)
(*    (alias / font: B's value where B gives one, the default after a      *)
(*    reset; otherwise the statement is silent);                           *)
(*  - gset: a property of a graph is set from text (Layout's Den);         *)
(*  - gbind: the graph binds what its 'axes' / 'worlds' texts name NOW;    *)
(*    when a name cannot be found the bind is refused and the graph stays  *)
(*    exactly as it was (both lists), like any refused operation.          *)
EmptyStack == << [h |-> NoHdr, body |-> <<>>, id |-> 1] >>
NoSess == [docs |-> 0, done |-> <<>>, sum |-> <<>>, rst |-> FALSE, on |-> FALSE, items |-> <<>>, steps |-> <<>>,
           cur |-> LoadStepOf(Exp1(EmptyStack), <<>>, EmptyStack, TRUE, 0, FALSE)]
HeapFlags == {<<heap[i].kind, heap[i].r # Def2T[heap[i].kind]>> : i \in 2..Len(heap)}
History == sess.done \o <<sess.cur>> \o sess.steps
ResetStep == [a |-> "reset", arg |-> [x |-> 0], exp |-> [ret |-> "ok", lay |-> [alias |-> <<>>, font |-> <<>>]]]

LiveItems == IF sess.on THEN sess.items ELSE den.items
GraphIdx(items) == {i \in 1..Len(items) : items[i].kind = "graph"}
LiveExp(ret, items) == [ret |-> ret, lay |-> sess.cur.exp.lay, items |-> items, graphs |-> den.graphs]
OpsOK == den.ret = "ok" /\ Len(sess.steps) < MaxSteps /\ (Mode # "trace" => Len(stack) = 1)
OpStep(st, items) ==
  /\ sess' = [sess EXCEPT !.on = TRUE, !.items = items, !.steps = Append(@, st)]
  /\ obs' = st
  /\ UNCHANGED <<stack, text, heap, cnt, den>>

GSet(gi, name, v) ==
  LET items == LiveItems IN
  /\ OpsOK /\ gi \in GraphIdx(items)
  /\ v.f \in TextForms /\ TextRuns(v) # <<>> /\ Determinate("graph", name, v)
  /\ LET i == SetResolve("graph", name)
         r == IF i = 0 THEN L!Refused ELSE DenT(PropsT["graph"][i].pt, v)
         new == IF r.ret = "ok" THEN [items EXCEPT ![gi].p = L!Put1("graph", @, PropsT["graph"][i].name, r.den)] ELSE items
     IN OpStep([a |-> "gset", arg |-> [g |-> gi - 1, name |-> name, text |-> RleOfRuns(TextRuns(v))],
                exp |-> LiveExp(IF r.ret = "ok" THEN "ok" ELSE "refused", new)], new)

PMatch(sc, kind, nm) == {i \in 1..Len(sc) : sc[i].kind = kind /\ sc[i].name = L!RLE(nm)}
PBound2(kind, str, own, top) ==        \* [list, ok] on the projected items
  IF str = <<>>
  THEN LET S == SelectSeq(own, LAMBDA o : o.kind = kind) IN
       [ok |-> TRUE, list |-> [j \in 1..Len(S) |-> [name |-> S[j].name, kind |-> kind, p |-> S[j].p]]]
  ELSE LET w == WordsOf(str)
           hit(j) == IF PMatch(own, kind, w[j]) # {} THEN own[MinOf(PMatch(own, kind, w[j]))]
                     ELSE IF PMatch(top, kind, w[j]) # {} THEN top[MinOf(PMatch(top, kind, w[j]))] ELSE [kind |-> ""]
       IN [ok |-> \A j \in 1..Len(w) : hit(j).kind # "",
           list |-> [j \in 1..Len(w) |-> IF hit(j).kind = "" THEN [name |-> L!RLE(w[j]), kind |-> "", p |-> <<>>]
                                          ELSE [name |-> L!RLE(w[j]), kind |-> kind, p |-> hit(j).p]]]
GBind(gi) ==
  LET items == LiveItems IN
  /\ OpsOK /\ gi \in GraphIdx(items)
  /\ LET g == items[gi]
         ax == PBound2("axis", g.p.axes, g.items, items)
         wl == PBound2("world", g.p.worlds, g.items, items)
         ok == ax.ok /\ wl.ok
         new == IF ok THEN [items EXCEPT ![gi].axes = ax.list, ![gi].worlds = wl.list] ELSE items
     IN OpStep([a |-> "gbind", arg |-> [g |-> gi - 1], exp |-> LiveExp(IF ok THEN "ok" ELSE "refused", new)], new)

NextDoc(rst) ==
  /\ sess.docs + 1 < MaxDocs
  /\ Mode # "trace" => Len(stack) = 1 /\ cnt.secs > 0
  /\ sess' = [docs |-> sess.docs + 1, done |-> History \o (IF rst THEN <<ResetStep>> ELSE <<>>), sum |-> Append(sess.sum, IF Mode = "gen" THEN {f[1] : f \in HeapFlags} \cap {"graph"} ELSE {f[1] : f \in HeapFlags} \cap {"graph", "axis"}),
              rst |-> rst, on |-> FALSE, items |-> <<>>, steps |-> <<>>,
              cur |-> LoadStepOf(Exp1(EmptyStack), <<>>, EmptyStack, TRUE, sess.docs + 1, rst)]
  /\ stack' = EmptyStack
  /\ text' = <<>> /\ heap' = <<LayImg>> /\ cnt' = [secs |-> 0, opts |-> 0, rep |-> 0]
  /\ den' = Exp1(stack')
  /\ obs' = [a |-> "next", arg |-> [x |-> 0], exp |-> [ret |-> "ok"]]

---------------------------------------------------------------------------
(* alphabets *)
TextOnly(S) == {v \in S : v.f \in TextForms}
LongStr == {L!Rle(<<120, 249>>), L!Rle(<<120, 250>>), L!Rle(<<121, 300>>)}
StrExtra == {L!Txt(<<104, 105, 32, 116, 104, 101, 114, 101>>), L!Txt(<<32, 120, 32>>), L!Txt(<<97, 39, 98>>), L!Num(14, "dec")}
ValsOf(pt, full) ==
  IF pt.t = "str" THEN (IF full THEN TextOnly(L!StrVals) \cup StrExtra \cup LongStr ELSE {L!Txt(W_abc), L!Txt(<<104, 105, 32, 116, 104, 101, 114, 101>>), L!Rle(<<121, 300>>)})
  ELSE IF full THEN TextOnly(L!Vals(pt)) ELSE TextOnly(L!FewVals(pt))
BindVals == {L!Txt(c) : c \in {NM_a, NM_b, NM_w, NM_ab, NM_ba, NM_aa, NM_atab_b}}
OkName(nm) == CT!NameOK(CT!B(nm), OptFlags) /\ CT!NameLex(FF, CT!B(nm))

(* export runs: the full alphabet (every property x every text value class x spelling) is offered for the    *)
(* first option of the first section(s) of a description, a medium one (every property x three values) in   *)
(* the next section; later options and sections come from the small alphabet                                *)
Level == CASE sess.docs > 0 -> 0
           [] Mode = "gen"  -> (IF cnt.opts = 0 /\ cnt.secs = 1 THEN 2
                                ELSE IF cnt.opts = 0 /\ cnt.secs = 2 /\ (Len(stack) = 3 \/ stack[Len(stack)].h.par # <<>>) THEN 1 ELSE 0)
           [] Mode = "gent" -> (IF cnt.opts <= 1 /\ cnt.secs <= 2 THEN 2 ELSE IF cnt.opts <= 1 /\ cnt.secs = 3 THEN 1 ELSE 0)
           [] OTHER -> 0
FullHere == Level > 0
OptChoices(k) ==           \* (name, value) pairs offered inside a section of kind k
  IF k = "" THEN {<<N_title, L!Txt(W_abc)>>}
  ELSE IF k = "layout" THEN
       {<<N_name, L!Txt(W_abc)>>, <<N_alias, L!Txt(<<76, 32, 49>>)>>, <<N_ALIAS, L!Txt(W_red)>>, <<N_font, L!Txt(W_abc)>>,
        <<N_Font, L!Txt(W_blue)>>, <<N_bogus, L!Txt(W_abc)>>, <<N_title, L!Num(2, "dec")>>}
       \cup (IF Mode \in {"gen", "gent"} /\ FullHere THEN {<<N_name, v>> : v \in LongStr} \cup {<<N_font, v>> : v \in LongStr} ELSE {})
  ELSE IF Mode = "mc" \/ ~FullHere THEN
       CASE k = "axis"  -> {<<N_title, L!Txt(W_abc)>>, <<N_title, L!Txt(W_red)>>, <<N_exp, L!Num(200000, "dec")>>, <<N_bogus, L!Txt(W_abc)>>}
         [] k = "world" -> {<<N_alias, L!Txt(W_abc)>>, <<N_width, L!Num(200, "dec")>>, <<N_cyc, L!Num(14, "dec")>>}
         [] k = "graph" -> {<<N_axes, v>> : v \in BindVals \ {L!Txt(NM_atab_b), L!Txt(NM_aa)}} \cup {<<N_worlds, L!Txt(NM_a)>>, <<N_worlds, L!Txt(NM_w)>>, <<N_fg, L!Txt(W_red)>>}
         [] k = "text"  -> {<<N_value, L!Txt(W_abc)>>, <<N_x, L!Num(1, "dec")>>, <<N_pos, L!Num2(2, 0)>>}
         [] OTHER       -> {<<N_color, L!Txt(W_red)>>, <<N_x1, L!Num(3, "dec")>>}
  ELSE LET canon == {x \in L!CanonNames(k) : OkName(x)}
           other == IF Level = 2 THEN {x \in L!AliasNames(k) \cup L!ExtraSetNames(k) : OkName(x)} ELSE {} IN
       UNION {{<<nc, v>> : v \in ValsOf(L!PropOfName(k, nc).pt, Level = 2)} : nc \in canon} \cup
       UNION {{<<nc, v>> : v \in ValsOf(L!PropOfName(k, nc).pt, FALSE)} : nc \in other} \cup
       (IF k = "graph" THEN {<<N_axes, v>> : v \in BindVals} \cup {<<N_worlds, v>> : v \in BindVals} ELSE {})
ResetChoices(k) ==
  IF k \in {"", "layout", "graph"} THEN {}
  ELSE IF Level < 2 THEN (CASE k = "axis" -> {N_title, N_bogus} [] k = "world" -> {N_cyc} [] k = "text" -> {N_pos} [] OTHER -> {N_color})
  ELSE {x \in L!CanonNames(k) \cup {N_bogus} : OkName(x)}

FullHdr == Mode \in {"gen", "gent"} /\ sess.docs = 0 /\ cnt.secs <= (IF Mode = "gent" THEN 2 ELSE 1)
ItemNames == IF FullHdr THEN {NM_a, NM_b, NM_w, NM_a1} ELSE {NM_a, NM_b}
KindWords == IF FullHdr THEN {KW_axis, KW_xaxis, KW_yaxis, KW_zaxis, KW_world, KW_graph, KW_text, KW_line, KW_legend, KW_Axis}
             ELSE IF Mode = "mc" THEN (IF MaxMem >= 2 THEN {KW_axis, KW_world, KW_graph, KW_legend} ELSE {KW_axis, KW_world, KW_graph, KW_text, KW_legend})
             ELSE IF Mode = "gen" THEN {KW_axis, KW_world, KW_graph} ELSE {KW_axis, KW_world, KW_graph, KW_text, KW_line}
ParChoices == {<<>>} \cup {<<n>> : n \in ItemNames} \cup (IF FullHdr THEN {<<NM_a, NM_b>>, <<NM_b, NM_a>>} ELSE {})
Headers == {Hdr(kw, nm, par) : kw \in KindWords, nm \in ItemNames, par \in ParChoices}

Init ==
  /\ stack = << [h |-> NoHdr, body |-> <<>>, id |-> 1] >>
  /\ text = <<>> /\ heap = <<LayImg>> /\ cnt = [secs |-> 0, opts |-> 0, rep |-> 0]
  /\ den = Exp1(stack) /\ sess = NoSess
  /\ obs = [a |-> "none", arg |-> [x |-> 0], exp |-> [ret |-> "ok"]]

Salt(c) == Len(c[1]) + Len(c[2].c) + Len(c[2].n) + (IF c[2].n = <<>> THEN 0 ELSE c[2].n[Len(c[2].n)])
Build0 ==
  \/ \E c \in OptChoices(TopKind) : AddOption(c[1], c[2], DecoPick(Salt(c)))
  \/ \E nm \in ResetChoices(TopKind) : AddReset(nm, DecoPick(Len(nm)))
  \/ \E h \in Headers : OpenSection(h, DecoPick(Len(h.kw) + Len(h.par) + h.name[Len(h.name)]))
  \/ CloseSection(DecoPick(cnt.secs + cnt.opts))
Build == ~sess.on /\ Build0          \* a description is complete once the loaded layout has been worked on
\* quick export: one copy mode per description (all four in the other modes)
CopyPick == IF Mode = "gen" THEN {<<"clone", "null", "empty", "props">>[((cnt.secs + cnt.opts) % 4) + 1]} ELSE CopyModes
Odd == (cnt.secs + cnt.opts) % 2 = 1
NM_zz2 == <<122, 122>>
OpSetChoices == {<<N_axes, L!Txt(NM_ba)>>, <<N_axes, L!Txt(NM_a)>>, <<N_axes, L!Txt(NM_zz2)>>, <<N_worlds, L!Txt(NM_zz2)>>,
                 <<N_worlds, L!Txt(NM_w)>>, <<N_fg, L!Txt(W_red)>>, <<N_fg, L!Txt(W_abc)>>, <<N_bogus, L!Txt(W_abc)>>}
\* export runs: operations start on descriptions without options (quick) and work on the first graph
OpsHere == Len(stack) = 1 /\ (Mode \in {"gen", "gent"} => cnt.opts = 0 /\ sess.docs = 0)
OpSetQuick == {<<N_axes, L!Txt(NM_ba)>>, <<N_axes, L!Txt(NM_zz2)>>, <<N_worlds, L!Txt(NM_zz2)>>, <<N_worlds, L!Txt(NM_w)>>, <<N_fg, L!Txt(W_abc)>>}
Ops == OpsHere /\ \E gi \in GraphIdx(LiveItems) :
          /\ (Mode = "gen" => gi = MinOf(GraphIdx(LiveItems)))
          /\ ((\E c \in (IF Mode = "gen" THEN OpSetQuick ELSE OpSetChoices) : GSet(gi, c[1], c[2])) \/ GBind(gi))
\* quick export: a second description follows two-section descriptions, with a reset in between for every other one
NextDocs == IF Mode = "gen" THEN ~sess.on /\ cnt.secs = 2 /\ cnt.opts <= 1 /\ NextDoc((cnt.opts + Cardinality(HeapFlags)) % 2 = 1)
            ELSE IF Mode = "gent" THEN ~sess.on /\ cnt.secs = 2 /\ \E rst \in BOOLEAN : NextDoc(rst)
            ELSE \E rst \in BOOLEAN : NextDoc(rst)
Next == Build \/ (\E m \in CopyPick : Probe("copy", m)) \/ CLoad
              \/ ((Mode # "gen" \/ Odd) /\ Probe("dump", "")) \/ ((Mode # "gen" \/ ~Odd) /\ Inst)
              \/ Ops \/ NextDocs
Spec == Init /\ [][Next]_vars

---------------------------------------------------------------------------
(* invariants *)
TypeOK ==
  /\ Len(stack) \in 1..3 /\ stack[1].id = 1 /\ heap[1].kind = "layout"
  /\ sess.docs \in 0..(MaxDocs - 1) /\ Len(sess.steps) <= MaxSteps /\ (sess.on => den.ret = "ok")
  /\ cnt.secs \in 0..MaxSecs /\ cnt.opts \in 0..MaxOpts /\ cnt.rep \in 0..(MaxSecs + MaxOpts)
  /\ \A i \in 2..Len(heap) : heap[i].kind \in {"axis", "line", "text", "graph", "world"}
                             /\ DOMAIN heap[i].r = DOMAIN Def2T[heap[i].kind]

\* the heap built item by item shows exactly what the description denotes,
\* and binding changes no property and no containment
Refines ==
  LET b == Bound(heap) IN
  /\ View2B(heap, b, cnt.rep) = den
  /\ b.ok => \A i \in 1..Len(heap) : b.hp[i].r = heap[i].r /\ b.hp[i].items = heap[i].items /\ b.hp[i].kind = heap[i].kind
BindPure == TRUE   \* second conjunct of Refines (one evaluation of the binding for both)

\* containment preserves names and order: the items of a group are the accepted sections of its body, in order
RECURSIVE SecNames(_, _)
SecNames(body, n) ==
  IF n = 0 THEN <<>>
  ELSE IF body[n].e = "sec" /\ KindOf(body[n].h.kw) # "" THEN Append(SecNames(body, n - 1), L!RLE(body[n].h.name))
  ELSE SecNames(body, n - 1)
Contained ==
  LET e == den  tree == Fold(stack) IN
  e.ret = "ok" =>
    /\ [i \in 1..Len(e.items) |-> e.items[i].name] = SecNames(tree, Len(tree))
    /\ \A i \in 1..Len(e.items) :
         LET secs == SelectSeq(tree, LAMBDA en : en.e = "sec" /\ KindOf(en.h.kw) # "") IN
         [j \in 1..Len(e.items[i].items) |-> e.items[i].items[j].name] = SecNames(secs[i].body, Len(secs[i].body))

\* a graph binds exactly what its text names (all its own when empty), and what is bound reads like the named item
BindsNamed ==
  LET e == den IN
  e.ret = "ok" => \A i \in 1..Len(e.items) :
     LET g == e.items[i] IN
     g.kind = "graph" =>
       /\ (g.p.axes = <<>> => [j \in 1..Len(g.axes) |-> g.axes[j].name]
                               = [j \in 1..Len(SelectSeq(g.items, LAMBDA o : o.kind = "axis")) |-> SelectSeq(g.items, LAMBDA o : o.kind = "axis")[j].name])
       /\ (g.p.axes # <<>> => [j \in 1..Len(g.axes) |-> g.axes[j].name] = [j \in 1..Len(WordsOf(g.p.axes)) |-> L!RLE(WordsOf(g.p.axes)[j])])
       /\ (g.p.worlds # <<>> => [j \in 1..Len(g.worlds) |-> g.worlds[j].name] = [j \in 1..Len(WordsOf(g.p.worlds)) |-> L!RLE(WordsOf(g.p.worlds)[j])])
       /\ \A j \in 1..Len(g.axes) : g.axes[j].kind = "axis"
            /\ \E o \in {g.items[x] : x \in 1..Len(g.items)} \cup {e.items[x] : x \in 1..Len(e.items)} :
                  o.kind = "axis" /\ o.name = g.axes[j].name /\ o.p = g.axes[j].p
       /\ \A j \in 1..Len(g.worlds) : g.worlds[j].kind = "world"

\* generic copies of a built object (struct copy and property-wise onto a fresh one) have equal properties
CopiesEqual ==
  \A i \in 2..Len(heap) :
     LET k == heap[i].kind IN
     /\ AllView2(k, L!Dup2(k, heap[i].r, 3)) = AllView2(k, heap[i].r)
     /\ (k = "text" => UnitXY(heap[i].r)) => AllView2(k, CopyProps2(k, Def2T[k], heap[i].r, NListedT[k])) = AllView2(k, heap[i].r)

(* action properties *)
\* an option touches the object of the innermost open section only
OptFrame == [][Len(stack') = Len(stack) /\ Len(heap') = Len(heap) =>
                 \A i \in 1..Len(heap) : i # Top.id => heap'[i] = heap[i]]_vars
\* a refused or unknown option changes nothing and is counted
Reported == [][cnt'.rep > cnt.rep /\ Len(heap') = Len(heap) => heap' = heap]_vars
\* a new section leaves every existing object as it is (the group gains one item at the end)
OpenFrame == [][Len(heap') > Len(heap) =>
                 \A i \in 1..Len(heap) : heap'[i].r = heap[i].r /\ (i # Top.id => heap'[i] = heap[i])
                                         /\ SubSeq(heap'[i].items, 1, Len(heap[i].items)) = heap[i].items]_vars
\* a refused operation on the loaded layout leaves every item, member and binding list as it was
RefusedFrame == [][obs'.a \in {"gset", "gbind"} /\ obs'.exp.ret = "refused" => sess'.items = LiveItems]_vars
\* an accepted bind binds exactly the words of the texts (all own members when empty) and touches nothing else
BindExact == [][obs'.a = "gbind" /\ obs'.exp.ret = "ok" =>
                  LET gi == obs'.arg.g + 1  g == sess'.items[gi]  old == LiveItems IN
                  /\ (g.p.axes # <<>> => [j \in 1..Len(g.axes) |-> g.axes[j].name] = [j \in 1..Len(WordsOf(g.p.axes)) |-> L!RLE(WordsOf(g.p.axes)[j])])
                  /\ (g.p.worlds # <<>> => [j \in 1..Len(g.worlds) |-> g.worlds[j].name] = [j \in 1..Len(WordsOf(g.p.worlds)) |-> L!RLE(WordsOf(g.p.worlds)[j])])
                  /\ \A j \in 1..Len(g.axes) : g.axes[j].kind = "axis"
                  /\ \A j \in 1..Len(g.worlds) : g.worlds[j].kind = "world"
                  /\ g.p = old[gi].p /\ g.items = old[gi].items
                  /\ \A i \in 1..Len(old) : i # gi => sess'.items[i] = old[i]]_vars
\* setting a graph property leaves the binding lists and every other item alone
GSetFrame == [][obs'.a = "gset" =>
                  LET gi == obs'.arg.g + 1  old == LiveItems IN
                  /\ sess'.items[gi].axes = old[gi].axes /\ sess'.items[gi].worlds = old[gi].worlds /\ sess'.items[gi].items = old[gi].items
                  /\ \A i \in 1..Len(old) : i # gi => sess'.items[i] = old[i]]_vars
\* a new description starts from nothing: what it denotes does not depend on the history
FreshDoc == [][obs'.a = "next" => den' = Exp1(<< [h |-> NoHdr, body |-> <<>>, id |-> 1] >>) /\ heap' = <<LayImg>>]_vars
=============================================================================
