SPECIFICATION SpecMU
CONSTANTS MaxNodes = 3 Kinds <- KindsQ Pos <- PosU Keys <- KeysQ
          Paths <- PathsQ APaths <- APathsQ Forests <- ForestsQ Ups <- UpsQ Stops <- StopsQ
VIEW ShapeView
INVARIANTS TypeOK WellFormed OnceInForest Refines QueryInv QueryInv2
PROPERTIES QueryAgree CloneIso ReleaseOnce2 Produced Switched
CHECK_DEADLOCK FALSE
