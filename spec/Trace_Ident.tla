----------------------------- MODULE Trace_Ident -----------------------------
(* Trace validation: a recorded execution of the real identifier code (one *)
(* event per public call: arguments + observation) must be a behaviour of  *)
(* Ident.  Executions are concatenated; each starts with an "init" event.  *)
EXTENDS Ident, Json, IOUtils
VARIABLE l
TraceLog == ndJsonDeserialize(IOEnv.TRACE)

ResetTo(sizes) ==
  LET nm == [i \in Slots |-> IF i <= Len(sizes) THEN Raw(0) ELSE Dead] IN
  /\ name' = nm
  /\ st' = [i \in Slots |-> IF i <= Len(sizes) THEN FreshRec(InitMax(sizes[i]), 1) ELSE DeadRec]
  /\ heap' = [x \in {} |-> <<>>]
  /\ bad' = FALSE
  /\ obs' = [a |-> "init", arg |-> [sizes |-> sizes], dsg |-> "na",
             exp |-> [ret |-> "ok", eq |-> "na", idx |-> 0, ids |-> Ids(nm), orphans |-> 0, badfree |-> 0]]

Step(ev) ==
  CASE ev.a = "init"     -> ResetTo(ev.arg.sizes)
    [] ev.a = "set"      -> Set(ev.arg.id, ev.arg.data, ev.arg.mode, ev.arg.fail)
    [] ev.a = "setraw"   -> SetRaw(ev.arg.id, ev.arg.n)
    [] ev.a = "setself"  -> SetSelf(ev.arg.id, ev.arg.off, ev.arg.n)
    [] ev.a = "copy"     -> Copy(ev.arg.id, ev.arg.src, ev.arg.fail)
    [] ev.a = "copynull" -> CopyNull(ev.arg.id)
    [] ev.a = "compare"  -> Compare(ev.arg.id, ev.arg.data, ev.arg.mode)
    [] ev.a = "inequal"  -> Inequal(ev.arg.id, ev.arg.other)
    [] ev.a = "locate"   -> Locate(ev.arg.data, ev.arg.pos)
    [] ev.a = "fini"     -> Fini(ev.arg.id)
    [] ev.a = "make"     -> Make(ev.arg.id, ev.arg.size, ev.arg.how,
                                 IF ev.arg.how = "init" THEN InitMax(ev.arg.size) ELSE ev.dbg.max[ev.arg.id])
    [] ev.a = "tinit"    -> TInit(ev.arg.id, ev.arg.src, ev.arg.fail)
    [] OTHER             -> FALSE

(* slots beyond the recorded ones are dead and not logged *)
IdsMatch(e, o) ==
  /\ Len(o) <= NId
  /\ \A i \in 1..Len(o) : e[i].live = o[i].live /\ e[i].len = o[i].len /\ e[i].data = o[i].data
  /\ \A i \in (Len(o) + 1)..NId : e[i].live = 0

Matches(ev) ==
  LET e == obs'.exp IN
  /\ (e.ret # "any" => e.ret = ev.obs.ret)
  /\ IdsMatch(e.ids, ev.obs.ids)
  /\ e.orphans = ev.obs.orphans
  /\ e.badfree = ev.obs.badfree
  /\ (e.eq \in {"equal", "differs"} => e.eq = ev.obs.eq)
  /\ (ev.a = "locate" /\ e.idx # -1 => e.idx = ev.obs.idx)

TraceInit ==
  /\ l = 1
  /\ name = [i \in Slots |-> Dead]
  /\ st = [i \in Slots |-> DeadRec]
  /\ heap = [x \in {} |-> <<>>]
  /\ bad = FALSE
  /\ obs = [a |-> "none", arg |-> [x |-> 0], dsg |-> "na",
            exp |-> [ret |-> "ok", eq |-> "na", idx |-> 0, ids |-> Ids([i \in Slots |-> Dead]), orphans |-> 0, badfree |-> 0]]

TraceNext ==
  /\ l <= Len(TraceLog)
  /\ l' = l + 1
  /\ LET ev == TraceLog[l] IN
       Step(ev) /\ Matches(ev)

TraceSpec == TraceInit /\ [][TraceNext]_<<vars, l>>

TraceAccepted ==
  LET n == TLCGet("stats").diameter - 1 IN
  /\ PrintT(<<"MATCHED", n>>)
  /\ n = Len(TraceLog)
=============================================================================
