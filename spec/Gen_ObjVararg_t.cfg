SPECIFICATION GenSpec
CONSTANTS KindSet = {"ref", "hist"} MaxOps = 2 Lvl = 2
VIEW Skel
ACTION_CONSTRAINT Emit
CHECK_DEADLOCK FALSE
