---------------------------- MODULE MC_ParseFront ----------------------------
(* Constants for the exhaustive runs and the case export of ParseFront.     *)
EXTENDS ParseFront, Gen_ConfText

\* formats with an option start character
FmtPreOs    == <<123, 42, 125, 36, 61>>                \* "{*}$="
FmtPreOsEnd == <<123, 42, 125, 36, 61, 59>>            \* "{*}$=;"
FmtSepOs    == <<91, 32, 93, 36, 61, 32, 35>>          \* "[ ]$= #"
FmtEncOs    == <<60, 120, 62, 36, 61, 32>>             \* "<x>$= "
FmtEncSameOs == <<37, 120, 37, 36, 61, 32>>            \* "%x%$= "
FmtOptOs    == <<123, 95, 125, 36, 61, 32>>            \* "{_}$= "
OsConfigs == {Cfg(FmtPreOs, Null), Cfg(FmtPreOsEnd, Null), Cfg(FmtSepOs, Null), Cfg(FmtEncOs, Null),
              Cfg(FmtEncSameOs, Null), Cfg(FmtOptOs, Null)}

AllFE   == {"parsenode", "ctxstdio", "ctxfile", "nodeparse", "cxx", "cxxreset", "folder"}
CFE     == {"parsenode", "ctxstdio", "ctxfile", "nodeparse", "folder"}
CxxFE   == {"cxx", "cxxreset"}

nBin == B(<<97, 1, 98>>)                                \* a\x01b
XN   == {nE, nA}
XNT  == {nE, nA, nA1, nAsB}
XV   == {vX, vXY}
XD   == {DTight, DSpaced}

\* flag sets: every option set with all section flags, every section set with all option flags
FlagAccs == {AccStr(AllFlags, o) : o \in SUBSET AllFlags} \cup {AccStr(s, AllFlags) : s \in SUBSET AllFlags}
FlagNames == {nA, nA1, n1, nAsB, nAuB, nBin}
FlagSecNames == FlagNames \cup {nE}

MCQConfigs == {Cfg(FmtDefault, Null), Cfg(FmtConfig, AccEsc), Cfg(FmtOptEnd, Null), Cfg(FmtPreOs, Null)}
MCTConfigs == MCQConfigs \cup {Cfg(FmtEncNest, Null), Cfg(FmtSepOs, Null), Cfg(FmtEncOs, Null), Cfg(FmtOptOs, Null)}
QD == {DTight}
QV == {vX}
MCLoadAccs == {Same, AccNs, AccStr({"e", "c"}, {"e"})}
GenLoadAccs == {Same, AccNs}

FView == <<vars, target, pre, aside, nl>>          \* fobs is an observation, not state
DirConfigs == {Cfg(FmtDefault, Null)}
DirNames == {nA}
DirValues == {vX}
DirDecos == {DTight}
GenQConfigs == {Cfg(FmtDefault, Null), Cfg(FmtOnline, AccEf), Cfg(FmtConfig, AccEsc), Cfg(FmtEncNest, Null),
                Cfg(FmtEncSame, Null), Cfg(FmtOptEnd, Null)} \cup OsConfigs
GenTConfigs == GenQConfigs
GenQ1Configs == {Cfg(FmtDefault, Null), Cfg(FmtConfig, AccEsc), Cfg(FmtEncNest, Null), Cfg(FmtOptEnd, Null)} \cup OsConfigs
GQOptNames == {nA}
GQSecNames == {nA, nE}
GQValues == {vLong(300)}
GQDecos == {DTight}
GTOptNames == {nA, nA1}
GTSecNames == {nA, nE, nAsB}
GTValues == {vX, vQ, vLong(300)}
GTDecos == {DTight, DCom}
FlagAccsQ == {AccStr(AllFlags, AllFlags \ {f}) : f \in AllFlags} \cup {AccStr(AllFlags \ {f}, AllFlags) : f \in AllFlags}
             \cup {AccStr({f}, {f}) : f \in AllFlags}
FlagConfigs == {Cfg(FmtDefault, Null), Cfg(FmtConfig, Null), Cfg(FmtEncNest, Null)}
vHi == B(<<120, 200, 255, 128>>)                    \* bytes >= 0x80 (file-backed character sources return them as they are)
GXV == {vHi}
SameOnly == {Same}
ASSUME AccStrChecked
=============================================================================
