SPECIFICATION TraceSpec
CONSTANTS MaxCap = 100000 MaxLen = 100000 Word = 8
INVARIANTS TypeOK Refines
POSTCONDITION TraceAccepted
CHECK_DEADLOCK FALSE
