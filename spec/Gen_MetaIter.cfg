SPECIFICATION GenSpec
CONSTANTS NI = 2 MaxDepth = 9 Texts <- TextsQ
CONSTRAINT Bound
VIEW View
INVARIANTS TypeOK Refines
PROPERTY RetOK Independent CloneSame
ACTION_CONSTRAINT Emit
CHECK_DEADLOCK FALSE
