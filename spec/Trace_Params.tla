---------------------------- MODULE Trace_Params ----------------------------
(* Trace validation: recorded executions of drv/params.c (one event per     *)
(* call: arguments + observation) must be behaviours of Params.  Executions *)
(* are concatenated; each starts with an "init" event.                      *)
EXTENDS Params, Json, IOUtils
VARIABLE l
TraceLog == ndJsonDeserialize(IOEnv.TRACE)

Reset ==
  /\ tab' = << >> /\ fin' = << >> /\ nst' = 0
  /\ cfg' = [m \in 0..2 |-> << >>] /\ rc' = [m \in 1..2 |-> 0] /\ fb' = TRUE
  /\ obs' = [a |-> "init", arg |-> [x |-> 0],
             exp |-> [ret |-> "ok", calls |-> <<>>, replies |-> <<>>, rany |-> 0, nreplies |-> 0,
                      apresent |-> 0, aval |-> <<>>, table |-> <<>>, refs |-> <<0, 0>>]]

Step(ev) ==
  CASE ev.a = "init"    -> Reset
    [] ev.a = "install" -> Install(ev.arg.m, ev.arg.failref)
    [] ev.a = "set"     -> Set(ev.arg.id, ev.arg.tok)
    [] ev.a = "cmdset"  -> CmdSet(ev.arg.id, ev.arg.new, ev.arg.tok)
    [] ev.a = "clear"   -> Clear(ev.arg.id)
    [] ev.a = "fini"    -> Fini
    [] ev.a = "emit"    -> IF "hdr" \in DOMAIN ev.arg THEN EmitShort(ev.arg.cmd, ev.arg.reply, ev.arg.r)
                           ELSE Emit(ev.arg.cmd, ev.arg.sep, ev.arg.payload, ev.arg.cuts, ev.arg.reply, ev.arg.r,
                                     Len(ev.arg.payload) >= Limit /\ ev.obs.ret = 2)
    [] ev.a = "probe"   -> Probe(ev.arg.m, ev.arg.path)
    [] OTHER            -> FALSE

Matches(ev) ==
  IF ev.a = "probe" THEN obs'.exp.present = ev.obs.present /\ obs'.exp.val = ev.obs.val
  ELSE /\ obs'.exp.rany >= 2 \/ obs'.exp.ret = ev.obs.ret
       /\ obs'.exp.calls = ev.obs.calls
       /\ obs'.exp.nreplies = ev.obs.nreplies
       /\ obs'.exp.rany % 2 = 1 \/ obs'.exp.replies = ev.obs.replies
       /\ obs'.exp.apresent = ev.obs.apresent /\ obs'.exp.aval = ev.obs.aval
       /\ obs'.exp.table = ev.obs.table
       /\ obs'.exp.refs = ev.obs.refs

TraceInit ==
  /\ l = 1 /\ InitState
  /\ obs = [a |-> "none", arg |-> [x |-> 0], exp |-> [ret |-> "ok"]]

TraceNext ==
  /\ l <= Len(TraceLog)
  /\ l' = l + 1
  /\ LET ev == TraceLog[l] IN Step(ev) /\ Matches(ev)

TraceSpec == TraceInit /\ [][TraceNext]_<<vars, l>>

TraceAccepted ==
  LET n == TLCGet("stats").diameter - 1 IN
  /\ PrintT(<<"MATCHED", n>>)
  /\ n = Len(TraceLog)
=============================================================================
