SPECIFICATION GenSpec
CONSTANTS Mts = {1} UserIds = {} MaxTok = 4
CONSTANTS Paths <- Paths2 Vals <- Vals1
CONSTRAINT Bound
VIEW Skel
ACTION_CONSTRAINT Emitted
CHECK_DEADLOCK FALSE
