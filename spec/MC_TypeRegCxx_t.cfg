SPECIFICATION McSpec
CONSTANTS
  IfBase = 8  IfAdd = 2  IfCap = 4
  BuiltinIf <- McBuiltinIf
  DynBase = 12  DynCap = 2
  MetaBase = 20  MetaCap = 3
  GenBase = 40  GenCap = 3
  Chunk = 2
  PtrSize = 8
  FixedSize <- McFixedSize
  FixedManaged <- McFixedManaged
  Optional = {2}
  Names = {}
  Sizes = {}
  Probe = {}
  CxxTypes = {"int32", "metaptr", "tracked", "pod3", "tptr", "span3", "genptr", "mval"}
  CxxCat <- McCat
  CxxSize <- McSize
  CxxFixedId <- McFixedId
  CxxName <- McName
  CxxClassK <- McClassK
  CxxClassT <- McClassT
  Vias = {"tmpl", "value", "default"}
  MetaAsk = {"genptr", "mval"}
  TraitsRegs = {"genptr", "mval"}
  GenericPtr = "genptr"
  BasicPtr = "mval"
  PayTypes = {"tracked", "tptr"}
  WrapTypes = {"tracked", "pod3"}
  Slots = {1, 2}
  Vals = {1}
  PropBuf = 8
  MaxAdds = 4
  MaxRefs = 2
  RawSizes = {3}
  RawNames = {"generic"}
CONSTRAINT Bound
VIEW View
INVARIANTS TypeOK Refines ChunksDense InRange NameInverse CTypeOK CxxUnique CxxInRange CxxDescribed
PROPERTIES CLegal CStable CxxStable LiveExact
CHECK_DEADLOCK FALSE
