----------------------------- MODULE MC_Creators -----------------------------
(* Exhaustive configurations of Creators: full state, small constants.      *)
EXTENDS Creators
CView == <<kind, holds, made, cnt, alive, cls, nmeta, par, nname>>      \* obs is an observation, not state
(* quick tier: one make of identifier storage, paths "a" and "a.b" (a complete match, a partial match, no match) *)
NoPaths == {}
APaths == {"a", "a.b"}
QNames == {"short"}
=============================================================================
