SPECIFICATION Spec
CONSTANTS NH = 2 NO = 1 NN = 2 MaxLen = 3 MaxLen2 = 1 MaxSub = 2 MaxArg = 3 Kinds = {"cfg"} Solo = {1} Fails = {0, 1} FailOut = TRUE Prune = FALSE
CONSTRAINT Bound
VIEW View
INVARIANTS TypeOK AliasOK Refines Balance AllGone OneSlot
PROPERTY Independent RefuseFrame KindFixed
CHECK_DEADLOCK FALSE
