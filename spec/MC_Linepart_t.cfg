SPECIFICATION Spec
CONSTANTS
  Alphabet <- Alpha5
  Ranges <- Rng1
  MaxLen = 8
  Limit = 65535
  Chunked = FALSE
  NoRangeLen = 5
  CodeDen <- Den2
  Dims = 1
VIEW View
INVARIANTS TypeOK PartsOK Partition Complete EncodeOK PolyOK
PROPERTIES JoinTotals Progress
CHECK_DEADLOCK FALSE
