SPECIFICATION XSpec
CONSTANTS Widths = {} MaxH = 1 MaxOwn = 1 LimbDom = {0} IdWidths = {} StreamWidths = {}
  MsgDom <- CMsgDom TextDom <- CTextDom
  Transports = {"stream", "dgram"} ConnWidths = {1} IdCand = {1, 2, 3} IdLimit = 3
  MaxReq = 3 MaxPlain = 0 MaxStray = 1
  BActs = {"reply"} BHrets <- CHretsFail SyncMax = 0
  MaxBReq = 0 MaxBPlain = 0 CRets <- CRetsZero MaxChain = 0
VIEW XView
INVARIANTS XTypeOK Distinct XRefines AtMostOnce IdsFit HeaderOK TypeOK
PROPERTIES RightWaiter EndToEnd ReserveTiers Recycle NothingLost StreamOnce Final
CHECK_DEADLOCK FALSE
