SPECIFICATION GenSpec
CONSTANTS NMsg = 2 LogMax = 256 MsgSet <- MsgsL LogArgs <- LogsT Quotas <- QuotasU Ks <- KsQ Ops <- OpsL
VIEW Skel
ACTION_CONSTRAINT Emit
CHECK_DEADLOCK FALSE
