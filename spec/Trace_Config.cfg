SPECIFICATION TraceSpec
CONSTANTS Names <- NoNames Depth = 0 Vals <- None Sep = 46 Design = "list" Base <- NoBase MaxSlots = 0
  Ends <- None Strs <- None Seps <- None Asgs <- None Elems <- None
INVARIANTS Refines PrefixClosed PathRefines
PROPERTIES MapProp PathProp
POSTCONDITION TraceAccepted
CHECK_DEADLOCK FALSE
