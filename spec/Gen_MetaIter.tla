---------------------------- MODULE Gen_MetaIter ----------------------------
(* Exhaustive check AND behaviour export for MetaIter in one run: the view *)
(* is the full state (text, positions, slices), every generated transition *)
(* is printed as a behaviour.                                              *)
EXTENDS MetaIter, Json, TLC
CONSTANT MaxDepth
VARIABLE hist
GenInit == Init /\ hist = <<obs>>
GenNext == Next /\ hist' = Append(hist, obs')
GenSpec == GenInit /\ [][GenNext]_<<vars, hist>>
Bound == Len(hist) <= MaxDepth
\* instances are symmetric: only histories that fill them in order
View  == <<text, pos, sl, obs.a = "init", IF obs.a = "itext" THEN obs.arg.map ELSE 0>>
\* texts: empty, unterminated only, terminated only, terminated segments + unterminated tail ("alpha\\0beta\\0tail"),
\* empty segments in front / at the end
TextsQ == { <<>>, <<1>>, <<0>>, <<1, 0>>, <<1, 2>>, <<0, 1>>, <<1, 0, 2>>, <<1, 0, 2, 0>>, <<1, 0, 2, 0, 3>>,
            <<0, 0, 1>>, <<1, 0, 0>> }
TextsT == TextsQ \cup { <<1, 2, 0, 3, 4, 0, 5, 6>>, <<0, 1, 0, 0, 2>>, <<1, 0, 2, 0, 3, 0, 4>>, <<1, 0, 2, 0, 3, 0>> }
Emit  == PrintT(<<"BEHAV", ToJson(hist')>>)
=============================================================================
