SPECIFICATION GenSpec
CONSTANTS NH = 2 GranE = 2 ES = 16 MaxLen = 3 MaxArg = 3 NV = 2 CTSet = {"elem"} Prune = TRUE Api = "xtyped" MaxDepth = 7
CONSTRAINT Bound
VIEW Skel
INVARIANTS TypeOK AliasOK Refines Balance AllGone
ACTION_CONSTRAINT Emit
CHECK_DEADLOCK FALSE
