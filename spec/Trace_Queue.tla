----------------------------- MODULE Trace_Queue -----------------------------
(* Trace validation: a recorded execution of the real queue code (one     *)
(* event per public call, arguments + observation) must be a behaviour of *)
(* Queue.  Executions are concatenated; each starts with an "init" event. *)
EXTENDS Queue, Json, IOUtils
VARIABLE l
TraceLog == ndJsonDeserialize(IOEnv.TRACE)

ResetTo(m, o) ==
  /\ max' = m /\ off' = o /\ len' = 0 /\ deq' = <<>> /\ ctr' = 0
  /\ store' = [i \in 0..(m - 1) |-> 0]
  /\ obs' = [a |-> "init", arg |-> [max |-> m, off |-> o],
             exp |-> [ret |-> "ok", out |-> <<>>, content |-> <<>>]]

\* The real queue was wrapped before this call (previous event's log).  Whether
\* a call without caller buffer / an element search is refused depends on the
\* real storage offsets, which the byte-list meaning does not fix: the recorded
\* answer selects the branch, and a refusal is only permitted when wrapped.
PrevWrapped == l > 1 /\ "dbg" \in DOMAIN TraceLog[l - 1]
               /\ TraceLog[l - 1].dbg.off + TraceLog[l - 1].dbg.len > TraceLog[l - 1].dbg.max

\* a position given as "far" lies just below SIZE_MAX in the real call (sums with a length wrap around there);
\* for the byte list it is simply a position beyond every content
Far == 1000000000
PosOf(ev) == IF "far" \in DOMAIN ev.arg /\ ev.arg.far = 1 THEN Far ELSE ev.arg.pos

Step(ev) ==
  CASE ev.a = "init"     -> ResetTo(ev.arg.max, ev.arg.off)
    [] ev.a = "qpush"    -> QPush(ev.arg.data)
    [] ev.a = "qunshift" -> QUnshift(ev.arg.data)
    [] ev.a = "qpop"     -> QPop(ev.arg.n, ev.arg.buf, ev.obs.ret = "refused" /\ PrevWrapped)
    [] ev.a = "qshift"   -> QShift(ev.arg.n, ev.arg.buf, ev.obs.ret = "refused" /\ PrevWrapped)
    [] ev.a = "crop"     -> Crop(PosOf(ev), ev.arg.n)
    [] ev.a = "set"      -> Set(PosOf(ev), ev.arg.data, ev.arg.zero)
    [] ev.a = "get"      -> Get(PosOf(ev), ev.arg.n)
    [] ev.a = "align"    -> Align(ev.arg.pos)
    [] ev.a = "resize"   -> Resize(ev.arg.n)
    [] ev.a = "prepare"  -> Prepare(ev.arg.n, ev.dbg.max)
    [] ev.a = "string"   -> String
    [] ev.a = "memrev"   -> MemRev(ev.arg.data, ev.arg.pre)
    [] ev.a = "find"     -> Find(ev.arg.esz, ev.arg.b, ev.obs.ret = "unsupported" /\ PrevWrapped)
    [] OTHER             -> FALSE

Matches(ev) ==
  /\ obs'.exp.content = ev.obs.content
  /\ \/ obs'.exp.ret = "any"
     \/ obs'.exp.ret = ev.obs.ret /\ obs'.exp.out = ev.obs.out

TraceInit ==
  /\ l = 1 /\ max = 0 /\ off = 0 /\ len = 0 /\ deq = <<>> /\ ctr = 0 /\ store = << >>
  /\ obs = [a |-> "none", arg |-> [x |-> 0], exp |-> [ret |-> "ok", out |-> <<>>, content |-> <<>>]]

TraceNext ==
  /\ l <= Len(TraceLog)
  /\ l' = l + 1
  /\ LET ev == TraceLog[l] IN
       Step(ev) /\ Matches(ev)

TraceSpec == TraceInit /\ [][TraceNext]_<<vars, l>>

TraceAccepted ==
  LET n == TLCGet("stats").diameter - 1 IN
  /\ PrintT(<<"MATCHED", n>>)
  /\ n = Len(TraceLog)
=============================================================================
