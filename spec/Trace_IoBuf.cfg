SPECIFICATION TraceSpec
CONSTANTS NA = 3 NB = 3 NV = 255 MaxLen = 100000 MaxArg = 100000 Prune = FALSE
INVARIANTS TypeOK Refines
POSTCONDITION TraceAccepted
CHECK_DEADLOCK FALSE
