SPECIFICATION GenSpec
CONSTANTS
  Mode = "arr"
  Kinds <- KindsAT
  Alpha <- AlphaE
  MaxMsg = 2
  MaxMsgs = 2
  Caps <- CapsA
  Grows <- None
  Pres <- None
  DelKs <- Del12
  NextSet <- NextAll
  Shifts <- Sh12
  DMaxLen = 0
  DSlacks <- None
  DGrants <- None
  DStreams <- NoStreams
  DFeeds <- None
  DQs <- None
  DOps <- None
  DMis <- None
  CapMax = 0
CONSTRAINT BoundGA
VIEW SkelE
ACTION_CONSTRAINT EmitE
CHECK_DEADLOCK FALSE
