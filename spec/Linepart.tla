------------------------------ MODULE Linepart ------------------------------
(***************************************************************************)
(* Visible line parts of mptplot/values (property C18).                    *)
(*                                                                         *)
(* A run of coordinate values `data` is split against the visible range    *)
(* [lo, hi] into successive parts {raw, usr, _cut, _trim}:                 *)
(*   raw    points consumed (the next part starts raw points further),     *)
(*   usr    points of the drawn line; the line starts at the part's first  *)
(*          point,                                                         *)
(*   _cut   # 0: the first line point is outside the range and is replaced *)
(*          by the crossing  s1 + cut/65536 * (s2 - s1),                   *)
(*   _trim  # 0: the same for the last line point, measured from the end.  *)
(*                                                                         *)
(* Tier 1 (meaning):  PartOK / PartsOK / Contiguous -- what a list of      *)
(*          parts must satisfy with respect to the data (progress,         *)
(*          partition, drawn set, fraction accuracy), JoinOK.              *)
(* Tier 2 (design):   PartOf (mpt_linepart_linear), Code                   *)
(*          (mpt_linepart_code), JoinRefused/Joined (mpt_linepart_join),   *)
(*          SetParts/ApplyOld (C++ linepart::array::set/apply).            *)
(* Coordinates are integers (the real code is fed the same integers,       *)
(* optionally scaled by a power of two, as doubles: exact).                *)
(***************************************************************************)
EXTENDS Integers, Sequences, FiniteSets, TLC

CONSTANTS Alphabet,    \* coordinate values explored
          Ranges,      \* set of <<lo, hi>> explored
          MaxLen,      \* longest data sequence
          Limit,       \* per-part limit of points (UINT16_MAX in production)
          Chunked,     \* TRUE: callers may offer fewer values than remain
          NoRangeLen,  \* longest sequence explored without a range
          CodeDen,     \* denominators of the fractions offered to Encode
          Dims         \* 1: one dimension; 2: C++ apply of a second dimension onto the parts of the first

VARIABLES data, data2, lo, hi, ranged,   \* input (data2: second dimension of the same length, or <<>>)
          pos, parts,             \* points consumed, list of parts so far
          obs
vars == <<data, data2, lo, hi, ranged, pos, parts, obs>>

---------------------------------------------------------------------------
Min2(a, b) == IF a < b THEN a ELSE b
FirstN(s, n) == SubSeq(s, 1, n)

InR(x)  == ~ranged \/ (x >= lo /\ x <= hi)

(* 16-bit fraction code: floor(65536 * a / b) for 0 <= a <= b < 2^23,      *)
(* evaluated without leaving 32-bit integers.                              *)
FloorCode(a, b) == LET t == 256 * a IN 256 * (t \div b) + ((256 * (t % b)) \div b)
ExactCode(a, b) == (256 * ((256 * a) % b)) % b = 0

(* Tier 2: mpt_linepart_code for a fraction in [0,1]; a fraction that is   *)
(* not zero gets a code that is not zero (zero means "no cut").            *)
Code(a, b) ==
  LET q == FloorCode(a, b) IN
  IF q > 65535 THEN 65535 ELSE IF q = 0 /\ a > 0 THEN 1 ELSE q

(* Tier 1: the code reproduces the fraction to the precision of the 16-bit *)
(* encoding: |c - 65536 a/b| <= 1.                                         *)
CodeNear(c, a, b) ==
  LET q == FloorCode(a, b) IN
  /\ c \in 0..65535
  /\ c >= (IF ExactCode(a, b) THEN q - 1 ELSE q)
  /\ c <= q + 1

(* crossing of the range boundary on the segment from the outside point o  *)
(* to the inside point i, as fraction a/b of the segment measured from o   *)
CrossA(o, i) == IF o < lo THEN lo - o ELSE o - hi
CrossB(o, i) == IF o < lo THEN i - o ELSE o - i

---------------------------------------------------------------------------
(* Tier 2: mpt_linepart_linear on the offered values v (already clipped).   *)
FirstOutFrom(v, i) ==
  LET S == {j \in i..Len(v) : ~InR(v[j])} IN
  IF S = {} THEN Len(v) + 1 ELSE CHOOSE j \in S : \A k \in S : j <= k
FirstInFrom(v, i) ==
  LET S == {j \in i..Len(v) : InR(v[j])} IN
  IF S = {} THEN Len(v) + 1 ELSE CHOOSE j \in S : \A k \in S : j <= k

PartOf(v) ==
  LET n      == Len(v)
      hasCut == n >= 2 /\ ~InR(v[1]) /\ InR(v[2])
      cut    == IF hasCut THEN Code(CrossA(v[1], v[2]), CrossB(v[1], v[2])) ELSE 0
      k      == FirstOutFrom(v, IF hasCut THEN 3 ELSE 1)   \* point that ends the visible run
  IN
  IF k > n THEN [raw |-> n, usr |-> n, cut |-> cut, trim |-> 0]
  ELSE LET hasTrim == k > 1
           m == FirstInFrom(v, k + 1)                       \* next visible point
       IN [raw  |-> IF m > n THEN n ELSE m - 2,
           usr  |-> IF hasTrim THEN k ELSE 0,
           cut  |-> cut,
           trim |-> IF hasTrim THEN Code(CrossA(v[k], v[k - 1]), CrossB(v[k], v[k - 1])) ELSE 0]

(* Tier 2: mpt_linepart_join (the second part's trim becomes the trim of   *)
(* the joined part).                                                       *)
JoinRefused(to, post) ==
  \/ Limit - to.raw < post.raw
  \/ Limit - to.usr < post.usr
  \/ to.trim # 0 \/ post.cut # 0 \/ to.usr # to.raw
Joined(to, post) ==
  [s |-> to.s, n |-> to.raw + post.n, raw |-> to.raw + post.raw, usr |-> to.usr + post.usr,
   cut |-> to.cut, trim |-> post.trim]

---------------------------------------------------------------------------
(* Tier 1: what one part p = [s, n, raw, usr, cut, trim] (start s, n values *)
(* offered) must satisfy with respect to the data.                         *)
Drawn(p) == (p.s + 1 + (IF p.cut # 0 THEN 1 ELSE 0)) .. (p.s + p.usr - (IF p.trim # 0 THEN 1 ELSE 0))

PartOK(p) ==
  LET m == Min2(p.n, Limit) IN
  /\ p.raw \in 0..m /\ p.usr \in 0..m
  /\ p.n >= 1 => p.raw >= 1                                           \* progress
  /\ \A i \in Drawn(p) : InR(data[i]) /\ i <= p.s + p.raw               \* only visible points drawn, each in its own part
  /\ \A i \in (p.s + 1)..(p.s + p.raw) : InR(data[i]) => i \in Drawn(p)   \* every visible point drawn
  /\ p.cut # 0 =>
       /\ p.usr >= 2 /\ ~InR(data[p.s + 1]) /\ InR(data[p.s + 2])
       /\ CodeNear(p.cut, CrossA(data[p.s + 1], data[p.s + 2]), CrossB(data[p.s + 1], data[p.s + 2]))
  /\ p.trim # 0 =>
       LET e == p.s + p.usr IN
       /\ p.usr >= 2 /\ ~InR(data[e]) /\ InR(data[e - 1])
       /\ CodeNear(p.trim, CrossA(data[e], data[e - 1]), CrossB(data[e], data[e - 1]))

(* Tier 1 with two dimensions: a point is visible when it is in range in    *)
(* both.  The point clauses as before; a cut/trimmed line end is where the  *)
(* line leaves the visible rectangle: the largest of the crossing fractions *)
(* (measured from that end) of the dimensions in which the end is outside.  *)
(* (Consecutive line points are never both outside in the same dimension.)  *)
Vis2(i) == InR(data[i]) /\ InR(data2[i])
Cross2OK(c, o, i) ==     \* o: index of the outside line end, i: its neighbour on the line
  LET out1 == ~InR(data[o]) /\ InR(data[i])
      out2 == ~InR(data2[o]) /\ InR(data2[i])
      a1 == CrossA(data[o], data[i])   b1 == CrossB(data[o], data[i])
      a2 == CrossA(data2[o], data2[i]) b2 == CrossB(data2[o], data2[i])
      q1 == FloorCode(a1, b1)  q2 == FloorCode(a2, b2)      \* the larger fraction, compared without leaving 32 bits
  IN IF out1 /\ out2 THEN (IF q1 < q2 THEN CodeNear(c, a2, b2) ELSE IF q2 < q1 THEN CodeNear(c, a1, b1)
                          ELSE CodeNear(c, a1, b1) \/ CodeNear(c, a2, b2))
     ELSE IF out1 THEN CodeNear(c, a1, b1)
     ELSE IF out2 THEN CodeNear(c, a2, b2)
     ELSE FALSE           \* an end that is outside is so in one of the dimensions, with its neighbour inside there
PartOK2(p) ==
  LET m == Min2(p.n, Limit) IN
  /\ p.raw \in 0..m /\ p.usr \in 0..(m + 1)
  /\ p.n >= 1 => p.raw >= 1
  /\ p.s + p.usr <= Len(data)
  /\ \A i \in Drawn(p) : Vis2(i) /\ i <= p.s + p.raw
  /\ \A i \in (p.s + 1)..(p.s + p.raw) : Vis2(i) => i \in Drawn(p)
  /\ (p.cut # 0 /\ p.usr > 0) =>
       /\ p.usr >= 2 /\ ~Vis2(p.s + 1)
       /\ Cross2OK(p.cut, p.s + 1, p.s + 2)
  /\ (p.trim # 0 /\ p.usr > 0) =>
       /\ p.usr >= 2 /\ ~Vis2(p.s + p.usr)
       /\ Cross2OK(p.trim, p.s + p.usr, p.s + p.usr - 1)
NDrawn(p) == LET a == p.s + 1 + (IF p.cut # 0 THEN 1 ELSE 0)
                 b == p.s + p.usr - (IF p.trim # 0 THEN 1 ELSE 0)
             IN IF b < a THEN 0 ELSE b - a + 1

RECURSIVE SumRaw(_)
SumRaw(ps) == IF ps = <<>> THEN 0 ELSE ps[Len(ps)].raw + SumRaw(FirstN(ps, Len(ps) - 1))
RECURSIVE SumUsr(_)
SumUsr(ps) == IF ps = <<>> THEN 0 ELSE ps[Len(ps)].usr + SumUsr(FirstN(ps, Len(ps) - 1))

Contiguous(ps, end) ==
  /\ \A i \in 1..Len(ps) : ps[i].s = (IF i = 1 THEN 0 ELSE ps[i - 1].s + ps[i - 1].raw)
  /\ end = (IF ps = <<>> THEN 0 ELSE ps[Len(ps)].s + ps[Len(ps)].raw)

---------------------------------------------------------------------------
(* Tier 2: C++ linepart::array::set(len) and ::apply over existing parts.  *)
RECURSIVE SetParts(_, _)
SetParts(len, s) ==
  LET mx == Limit - 2 IN
  IF len = 0 THEN <<>>
  ELSE LET c == Min2(len, mx) IN
       <<[s |-> s, n |-> c, raw |-> c, usr |-> c, cut |-> 0, trim |-> 0]>> \o SetParts(len - c, s + c)

(* the loop of linepart::array::apply for one dimension; `old` is the       *)
(* current (possibly shortened) old part, `rest` the old parts after it,   *)
(* `len` values remain from offset `off`, `out` is the new list.           *)
AddPart(out, pt) ==
  IF out # <<>> /\ ~JoinRefused(out[Len(out)], pt)
  THEN [out EXCEPT ![Len(out)] = Joined(out[Len(out)], pt)]
  ELSE Append(out, pt)

RECURSIVE ApplyOldD(_, _, _, _, _, _)
ApplyOldD(dat, old, rest, len, off, out) ==
  LET tl(r) == IF r = <<>> THEN <<>> ELSE SubSeq(r, 2, Len(r)) IN
  IF old.usr = 0 \/ len = 0
  THEN LET pt   == [s |-> off, n |-> old.raw, raw |-> old.raw, usr |-> old.usr, cut |-> old.cut, trim |-> old.trim]
           len2 == IF len > old.raw THEN len - old.raw ELSE 0
           off2 == IF len > old.raw THEN off + old.raw ELSE off
           out2 == AddPart(out, pt)
       IN IF rest = <<>> THEN out2 ELSE ApplyOldD(dat, rest[1], tl(rest), len2, off2, out2)
  ELSE LET ousr == Min2(old.usr, len)
           p0   == PartOf(SubSeq(dat, off + 1, off + Min2(ousr, Limit)))
           cut  == IF old.cut > p0.cut THEN old.cut ELSE p0.cut
           \* the old trim describes the old line's last segment: it counts when the new line ends in the same point
           trimM == IF p0.usr = ousr /\ old.trim > p0.trim THEN old.trim ELSE p0.trim
       IN IF p0.raw < old.raw
          THEN LET pt == [s |-> off, n |-> ousr, raw |-> p0.raw, usr |-> p0.usr, cut |-> cut, trim |-> trimM]
                   o2 == [raw |-> old.raw - p0.raw, usr |-> ousr - p0.raw, cut |-> 0, trim |-> old.trim]
               IN ApplyOldD(dat, o2, rest, len - p0.raw, off + p0.raw, AddPart(out, pt))
          ELSE LET raw  == Min2(old.raw, p0.raw)
                   pt   == [s |-> off, n |-> ousr, raw |-> raw, usr |-> p0.usr, cut |-> cut, trim |-> trimM]
                   out2 == AddPart(out, pt)
               IN IF rest = <<>> THEN out2 ELSE ApplyOldD(dat, rest[1], tl(rest), len - raw, off + raw, out2)

ApplyOld(old, rest, len, off, out) == ApplyOldD(data, old, rest, len, off, out)

RECURSIVE Walk(_, _)
Walk(p0, acc) ==
  IF p0 >= Len(data) THEN acc
  ELSE LET n == Len(data) - p0
           p == PartOf(SubSeq(data, p0 + 1, p0 + Min2(n, Limit)))
       IN Walk(p0 + p.raw, Append(acc, [s |-> p0, n |-> n, raw |-> p.raw, usr |-> p.usr, cut |-> p.cut, trim |-> p.trim]))

ApplyResult(mode) ==
  IF mode = "fresh" THEN Walk(0, <<>>)
  ELSE LET sp == SetParts(Len(data), 0) IN
       IF sp = <<>> THEN <<>> ELSE ApplyOld(sp[1], SubSeq(sp, 2, Len(sp)), Len(data), 0, <<>>)

(* C++: the second dimension applied onto the parts of the first *)
Apply2Result(mode) ==
  LET ps == ApplyResult(mode) IN
  IF ps = <<>> THEN <<>> ELSE ApplyOldD(data2, ps[1], SubSeq(ps, 2, Len(ps)), Len(data2), 0, <<>>)

---------------------------------------------------------------------------
(* observation projection of a part / list *)
Proj(p)   == [raw |-> p.raw, usr |-> p.usr, cut |-> p.cut, trim |-> p.trim]
ProjL(ps) == [i \in 1..Len(ps) |-> <<ps[i].raw, ps[i].usr, ps[i].cut, ps[i].trim>>]

(* one call of mpt_linepart_linear offering n of the remaining values; p is *)
(* the part it reports.                                                    *)
NextPart(n, p) ==
  /\ n \in 0..(Len(data) - pos)
  /\ parts' = Append(parts, [s |-> pos, n |-> n, raw |-> p.raw, usr |-> p.usr, cut |-> p.cut, trim |-> p.trim])
  /\ pos' = pos + p.raw
  /\ obs' = [a |-> "part", arg |-> [n |-> n], exp |-> Proj(p)]
  /\ UNCHANGED <<data, data2, lo, hi, ranged>>

Offered(n) == SubSeq(data, pos + 1, pos + Min2(n, Limit))

(* mpt_linepart_join of the last two parts of the list; j is what the first *)
(* of them holds afterwards.                                               *)
JoinLast(ret, j) ==
  /\ Len(parts) >= 2
  /\ parts' = IF ret = "ok" THEN Append(FirstN(parts, Len(parts) - 2), j) ELSE parts
  /\ obs' = [a |-> "join", arg |-> [x |-> 0],
             exp |-> [ret |-> ret, to |-> IF ret = "ok" THEN Proj(j) ELSE Proj(parts[Len(parts) - 1])]]
  /\ UNCHANGED <<data, data2, lo, hi, ranged, pos>>

DoJoin ==
  /\ Len(parts) >= 2
  /\ LET to == parts[Len(parts) - 1]  post == parts[Len(parts)] IN
     IF JoinRefused(to, post) THEN JoinLast("refused", to) ELSE JoinLast("ok", Joined(to, post))

(* C++: fresh linepart::array (mode "fresh") or after set(length) (mode     *)
(* "set"), then apply() of the whole data; ps is the resulting list.       *)
Apply(mode, ps) ==
  /\ parts' = ps
  /\ pos' = SumRaw(ps)
  /\ obs' = [a |-> "apply", arg |-> [mode |-> mode], exp |-> [parts |-> ProjL(ps)]]
  /\ UNCHANGED <<data, data2, lo, hi, ranged>>

Apply2(mode, ps, qs, np) ==   \* qs: parts of polyline::set on both dimensions, np: sizes of points() of the parts its iterator visits
  /\ parts' = ps
  /\ pos' = SumRaw(ps)
  /\ obs' = [a |-> "apply2", arg |-> [mode |-> mode], exp |-> [parts |-> ProjL(ps), pparts |-> ProjL(qs), np |-> np]]
  /\ UNCHANGED <<data, data2, lo, hi, ranged>>

(* C++ polyline::set for one dimension mapped to x unchanged, then the walk *)
(* over the parts: pts[i] = coordinates of part i's points(), ends[i] =     *)
(* <<known, 65536 * first x, known, 65536 * last x>> of its line().         *)
(* Only parts up to the last one with a drawn line are visited.            *)
Visited(ps) ==
  LET S == {k \in 0..Len(ps) : SumUsr(FirstN(ps, k)) = SumUsr(ps)} IN
  CHOOSE k \in S : \A j \in S : k <= j
DrawnVals(p) ==
  LET a == p.s + 1 + (IF p.cut # 0 THEN 1 ELSE 0)
      b == p.s + p.usr - (IF p.trim # 0 THEN 1 ELSE 0)
  IN [k \in 1..(b - a + 1) |-> data[a + k - 1]]
LineEnds(p) ==
  IF p.usr = 0 THEN <<0, 0, 0, 0>>
  ELSE LET f == p.s + 1  e == p.s + p.usr IN
       <<1, IF p.cut # 0 THEN 65536 * data[f] + p.cut * (data[f + 1] - data[f]) ELSE 65536 * data[f],
         1, IF p.trim # 0 THEN 65536 * data[e] + p.trim * (data[e - 1] - data[e]) ELSE 65536 * data[e]>>
PolyPts(ps)  == [i \in 1..Visited(ps) |-> DrawnVals(ps[i])]
PolyEnds(ps) == [i \in 1..Visited(ps) |-> LineEnds(ps[i])]

Poly(ret, ps, pts, ends) ==
  /\ parts' = ps
  /\ pos' = SumRaw(ps)
  /\ obs' = [a |-> "poly", arg |-> [x |-> 0],
             exp |-> [ret |-> ret, parts |-> ProjL(ps), pts |-> pts, ends |-> ends, full |-> 1]]
  /\ UNCHANGED <<data, data2, lo, hi, ranged>>

(* Tier 1 for the end points of a drawn line: a cut/trimmed end lies on the *)
(* range boundary to the precision of one code of its segment              *)
(* |x65536 - 65536 v| <= w for ANY recorded x65536 (a line end the code left  *)
(* at the transform's zero next to coordinates of 2^16 and more must be       *)
(* rejected, not overflow TLC's 32-bit integers): x65536 = 65536 q + r.       *)
EndWithin(x65536, v, w) ==
  LET q == x65536 \div 65536
      r == x65536 % 65536
      k == q - v
      m == w \div 65536 + 2
  IN /\ k <= m /\ -k <= m
     /\ LET d == 65536 * k + r IN d <= w /\ -d <= w
EndNear(x65536, o, i) ==
  LET bound == IF o < lo THEN lo ELSE hi
      w == IF i > o THEN i - o ELSE o - i
  IN EndWithin(x65536, bound, w)
EndsOK(p, e) ==
  /\ (p.usr > 0 /\ p.cut # 0 /\ e[1] = 1) => EndNear(e[2], data[p.s + 1], data[p.s + 2])
  /\ (p.usr > 0 /\ p.trim # 0 /\ e[3] = 1) => EndNear(e[4], data[p.s + p.usr], data[p.s + p.usr - 1])
  /\ (p.usr > 0 /\ p.cut = 0 /\ e[1] = 1) => EndWithin(e[2], data[p.s + 1], 0)
  /\ (p.usr > 0 /\ p.trim = 0 /\ e[3] = 1) => EndWithin(e[4], data[p.s + p.usr], 0)

(* mpt_linepart_code / mpt_linepart_real on the fraction a/b               *)
EncodeNums(b) == IF b <= 16 THEN -1..(b + 1)
                 ELSE {-1, 0, 1, 2, 3, b \div 65536, b \div 65536 + 1, b \div 3, b \div 2, b - 2, b - 1, b, b + 1}
Encode(a, b, ret, code) ==
  /\ obs' = [a |-> "encode", arg |-> [a |-> a, b |-> b], exp |-> [ret |-> ret, code |-> code]]
  /\ UNCHANGED <<data, data2, lo, hi, ranged, pos, parts>>
EncodeRet(a, b)  == IF a < 0 \/ a > b THEN "refused" ELSE "ok"
EncodeCode(a, b) == IF a < 0 \/ a > b THEN 0 ELSE Code(a, b)

---------------------------------------------------------------------------
Flag(b) == IF b THEN 1 ELSE 0
InitObs == [a |-> "init",
            arg |-> [data |-> data, data2 |-> data2, lo |-> lo, hi |-> hi, ranged |-> Flag(ranged), lim |-> Limit],
            exp |-> [x |-> 0]]

Init ==
  /\ data \in UNION {[1..k -> Alphabet] : k \in 0..MaxLen}
  /\ data2 \in IF Dims = 2 THEN [1..Len(data) -> Alphabet] ELSE {<<>>}
  /\ Dims = 2 => Len(data) > 0
  /\ \E r \in Ranges : lo = r[1] /\ hi = r[2]
  /\ ranged \in BOOLEAN
  /\ ~ranged => Len(data) <= NoRangeLen /\ lo = (CHOOSE r \in Ranges : TRUE)[1] /\ hi = (CHOOSE r \in Ranges : TRUE)[2]
  /\ pos = 0 /\ parts = <<>>
  /\ obs = InitObs

Next2 == \E mode \in {"fresh", "set"} :
           /\ pos = 0 /\ parts = <<>>
           /\ LET ps == Apply2Result(mode)
                  qs == Apply2Result("set")        \* polyline::set always starts from set(length)
              IN Apply2(mode, ps, qs, [i \in 1..Visited(qs) |-> NDrawn(qs[i])])

Next1 ==
  \/ \E n \in (IF Chunked THEN 0..(Len(data) - pos) ELSE {Len(data) - pos}) :
        /\ n = 0 => parts = <<>>          \* offering nothing is explored once
        /\ NextPart(n, PartOf(Offered(n)))
  \/ DoJoin
  \/ \E mode \in {"fresh", "set", "set2"} : Len(data) > 0 /\ pos = 0 /\ parts = <<>> /\ Apply(mode, ApplyResult(mode))
  \/ /\ Len(data) > 0 /\ pos = 0 /\ parts = <<>>
     /\ LET ps == ApplyResult("set") IN
        Poly(IF SumUsr(ps) > 0 THEN "ok" ELSE "refused", ps, PolyPts(ps), PolyEnds(ps))
  \/ Len(data) = 0 /\ ranged /\ \E b \in CodeDen : \E a \in EncodeNums(b) : Encode(a, b, EncodeRet(a, b), EncodeCode(a, b))

Next == IF Dims = 2 THEN Next2 ELSE Next1

Spec == Init /\ [][Next]_vars

---------------------------------------------------------------------------
(* invariants (Tier 1 holds of everything Tier 2 produces) *)
TypeOK ==
  /\ pos \in 0..Len(data)
  /\ \A i \in 1..Len(parts) : parts[i].raw \in 0..Limit /\ parts[i].usr \in 0..Limit
                               /\ parts[i].cut \in 0..65535 /\ parts[i].trim \in 0..65535

PartsOK    == \A i \in 1..Len(parts) : IF data2 = <<>> THEN PartOK(parts[i]) ELSE PartOK2(parts[i])
Partition  == Contiguous(parts, pos)        \* raws add up to the points consumed
Complete   == obs.a \in {"apply", "apply2", "poly"} => pos = Len(data)
PolyOK     == obs.a = "poly" =>
                /\ Len(obs.exp.pts) = Len(obs.exp.ends) /\ Len(obs.exp.pts) <= Len(parts)
                /\ \A i \in 1..Len(parts) : parts[i].usr > 0 => i <= Len(obs.exp.pts)
                /\ \A i \in 1..Len(obs.exp.pts) :
                     /\ obs.exp.pts[i] = DrawnVals(parts[i])
                     /\ \A k \in 1..Len(obs.exp.pts[i]) : InR(obs.exp.pts[i][k])
                     /\ EndsOK(parts[i], obs.exp.ends[i])
EncodeOK   == obs.a = "encode" /\ obs.exp.ret = "ok" =>
                /\ CodeNear(obs.exp.code, obs.arg.a, obs.arg.b)
                /\ obs.arg.a > 0 => obs.exp.code > 0

(* joining never changes the number of points covered; a refusal changes   *)
(* nothing                                                                 *)
JoinTotals == [][obs'.a = "join" =>
                   /\ SumRaw(parts') = SumRaw(parts) /\ SumUsr(parts') = SumUsr(parts)
                   /\ obs'.exp.ret = "refused" => parts' = parts]_vars
(* a call that is offered at least one value consumes at least one *)
Progress == [][obs'.a = "part" /\ obs'.arg.n >= 1 => pos' > pos]_vars
=============================================================================
