------------------------------- MODULE Stream -------------------------------
(***************************************************************************)
(* Framed message stream (property C02): messages are pushed in pieces     *)
(* into an encoding output queue, finished frames are flushed to a byte    *)
(* wire, the wire is delivered in arbitrary segments into a decoding input *)
(* queue, and the receiver takes messages out.                             *)
(*                                                                         *)
(* Tier 1 (meaning): sent / rcvd message lists, and the three byte         *)
(* sequences a frame travels through (wdone: finished, not yet flushed;    *)
(* wire: in flight; rpend: delivered, not yet handed out).  A frame is a   *)
(* run of non-zero bytes closed by one zero delimiter (C01), so "a         *)
(* complete frame has arrived" is "rpend contains a zero".                 *)
(* Tier 2 (design) enters as the ring shapes of both queues (capacity,     *)
(* start offset, growth step): they are parameters of the schedule that    *)
(* the replay imposes on the real queues; the byte-level ring design is    *)
(* module Queue.                                                           *)
(***************************************************************************)
EXTENDS Naturals, Sequences, FiniteSets, TLC

CONSTANTS MaxCode,   \* COBS block code limit of the codec under the model (5 scaled, 255 shipped)
          MsgSet,    \* candidate messages
          NMsg,      \* messages per history
          Shapes,    \* set of [wcap, woff, rcap, roff, grow] ring shapes
          Ks         \* piece sizes offered to push / flush / deliver (1000000 = everything)

VARIABLES shape,     \* chosen ring shapes (schedule parameter)
          cur,       \* message being written: [on, msg, done, enc]; enc = encoded bytes already final
          sent,      \* messages finished by the sender
          wdone,     \* finished frame bytes still in the output queue
          wire,      \* bytes flushed, not yet delivered
          rpend,     \* bytes delivered, not yet handed out as messages
          rcvd,      \* messages handed to the receiver
          obs
vars == <<shape, cur, sent, wdone, wire, rpend, rcvd, obs>>

---------------------------------------------------------------------------
FirstN(s, n) == SubSeq(s, 1, n)
Drop(s, n)   == SubSeq(s, n + 1, Len(s))
Zeros(s)     == Cardinality({i \in 1..Len(s) : s[i] = 0})
HasFrame(s)  == \E i \in 1..Len(s) : s[i] = 0
FirstZero(s) == CHOOSE i \in 1..Len(s) : s[i] = 0 /\ \A j \in 1..(i - 1) : s[j] # 0

(* reference COBS encoder, block code limit MaxCode; v ends with the       *)
(* virtual zero that closes the message                                    *)
RECURSIVE EncV(_, _)
EncV(v, mc) ==
  IF v = <<>> THEN <<>>
  ELSE LET r == FirstZero(v) - 1 IN
       IF r >= mc - 1
       THEN <<mc>> \o FirstN(v, mc - 1) \o EncV(Drop(v, mc - 1), mc)
       ELSE <<r + 1>> \o FirstN(v, r) \o EncV(Drop(v, r + 1), mc)
FrameK(m, mc) == EncV(m \o <<0>>, mc) \o <<0>>

(* bytes of the blocks the encoder has completed after accepting prefix p  *)
(* of a message: they are final and may be flushed before the message ends *)
RECURSIVE EncDone(_, _)
EncDone(p, mc) ==
  IF HasFrame(p) /\ FirstZero(p) - 1 < mc - 1
  THEN LET r == FirstZero(p) - 1 IN <<r + 1>> \o FirstN(p, r) \o EncDone(Drop(p, r + 1), mc)
  ELSE IF Len(p) >= mc - 1 /\ (\A i \in 1..(mc - 1) : p[i] # 0)
  THEN <<mc>> \o FirstN(p, mc - 1) \o EncDone(Drop(p, mc - 1), mc)
  ELSE <<>>
Frame(m) == FrameK(m, MaxCode)

---------------------------------------------------------------------------
Idle == [on |-> FALSE, msg |-> <<>>, done |-> 0, enc |-> 0]
Answer(a, arg, exp) == obs' = [a |-> a, arg |-> arg, exp |-> exp]

(* the sender starts a message *)
Start(m) ==
  /\ ~cur.on /\ Len(sent) < NMsg
  /\ cur' = [on |-> TRUE, msg |-> m, done |-> 0, enc |-> 0]
  /\ UNCHANGED <<shape, sent, wdone, wire, rpend, rcvd>>
  /\ Answer("start", [data |-> m], [ret |-> "ok"])

(* the next k bytes of the message are handed to the encoder (the caller   *)
(* repeats partial pushes and grants buffer space until all k are taken);  *)
(* blocks completed by these bytes become final.  fin = their encoding.    *)
Push(k, fin) ==
  /\ cur.on /\ k >= 1 /\ cur.done + k <= Len(cur.msg)
  /\ cur' = [cur EXCEPT !.done = @ + k, !.enc = Len(fin)]
  /\ wdone' = wdone \o Drop(fin, cur.enc)
  /\ UNCHANGED <<shape, sent, wire, rpend, rcvd>>
  /\ Answer("push", [n |-> k], [ret |-> "ok"])

(* the message is terminated: its frame becomes flushable *)
End(frame) ==
  /\ cur.on /\ cur.done = Len(cur.msg)
  /\ sent' = Append(sent, cur.msg)
  /\ wdone' = wdone \o Drop(frame, cur.enc)
  /\ cur' = Idle
  /\ UNCHANGED <<shape, wire, rpend, rcvd>>
  /\ Answer("end", [x |-> 0], [ret |-> "ok"])

(* up to k final bytes leave the output queue (only final bytes may)        *)
Flush(k) ==
  LET n == IF k < Len(wdone) THEN k ELSE Len(wdone) IN
  /\ k >= 1 /\ n >= 1
  /\ wire' = wire \o FirstN(wdone, n)
  /\ wdone' = Drop(wdone, n)
  /\ UNCHANGED <<shape, cur, sent, rpend, rcvd>>
  /\ Answer("flush", [n |-> k], [ret |-> "ok", out |-> FirstN(wdone, n)])

(* up to k wire bytes arrive in the input queue *)
Deliver(k) ==
  LET n == IF k < Len(wire) THEN k ELSE Len(wire) IN
  /\ k >= 1 /\ n >= 1
  /\ rpend' = rpend \o FirstN(wire, n)
  /\ wire' = Drop(wire, n)
  /\ UNCHANGED <<shape, cur, sent, wdone, rcvd>>
  /\ Answer("deliver", [n |-> k], [ret |-> "ok", out |-> FirstN(wire, n)])

(* the receiver asks for the next message: with a complete frame in the    *)
(* input queue (and buffer space granted on request) it gets the message   *)
(* that was sent at this position; otherwise "none".                       *)
Recv ==
  IF HasFrame(rpend)
  THEN /\ Len(rcvd) < Len(sent)
       /\ rcvd' = Append(rcvd, sent[Len(rcvd) + 1])
       /\ rpend' = Drop(rpend, FirstZero(rpend))
       /\ UNCHANGED <<shape, cur, sent, wdone, wire>>
       /\ Answer("recv", [x |-> 0], [ret |-> "msg", data |-> sent[Len(rcvd) + 1]])
  ELSE /\ UNCHANGED <<shape, cur, sent, wdone, wire, rpend, rcvd>>
       /\ Answer("recv", [x |-> 0], [ret |-> "none", data |-> <<>>])

---------------------------------------------------------------------------
Init ==
  /\ shape \in Shapes
  /\ cur = Idle /\ sent = <<>> /\ wdone = <<>> /\ wire = <<>> /\ rpend = <<>> /\ rcvd = <<>>
  /\ obs = [a |-> "init", arg |-> shape, exp |-> [ret |-> "ok"]]

Next ==
  \/ \E m \in MsgSet : Start(m)
  \/ \E k \in Ks : Push(k, EncDone(FirstN(cur.msg, cur.done + k), MaxCode)) \/ Flush(k) \/ Deliver(k)
  \/ End(Frame(cur.msg))
  \/ Recv

Spec == Init /\ [][Next]_vars

(* progress: everything sent is eventually received once nothing more is   *)
(* written, if flushing, delivering and receiving keep happening           *)
FairSpec == Spec /\ WF_vars(\E k \in Ks : Flush(k)) /\ WF_vars(\E k \in Ks : Deliver(k))
                 /\ WF_vars(Recv /\ HasFrame(rpend)) /\ WF_vars(End(Frame(cur.msg)))
                 /\ WF_vars(\E k \in Ks : Push(k, EncDone(FirstN(cur.msg, cur.done + k), MaxCode)))
                 /\ WF_vars(\E m \in MsgSet : Start(m))

---------------------------------------------------------------------------
IsPrefix(s, t) == Len(s) <= Len(t) /\ \A i \in 1..Len(s) : s[i] = t[i]

TypeOK == /\ rcvd \in Seq(MsgSet) /\ sent \in Seq(MsgSet) /\ Len(sent) <= NMsg
\* integrity: same messages, same order, nothing lost, duplicated or merged
Integrity == IsPrefix(rcvd, sent)
\* every finished frame is somewhere between sender and receiver, exactly once
Conservation == Zeros(wdone) + Zeros(wire) + Zeros(rpend) + Len(rcvd) = Len(sent)
\* what was made final early is a prefix of the finished frame
EarlyIsPrefix == cur.on => cur.enc <= Len(Frame(cur.msg))
                          /\ FirstN(Frame(cur.msg), cur.enc) = EncDone(FirstN(cur.msg, cur.done), MaxCode)
\* the bytes in transit are exactly the frames of the messages not yet received
InTransit ==
  LET RECURSIVE Cat(_)
      Cat(i) == IF i > Len(sent) THEN <<>> ELSE Frame(sent[i]) \o Cat(i + 1)
      all == Cat(Len(rcvd) + 1) \o (IF cur.on THEN EncDone(FirstN(cur.msg, cur.done), MaxCode) ELSE <<>>)
      got == rpend \o wire \o wdone
  IN got = all
\* availability: "none" is answered only when no complete frame has arrived
Availability == (obs.a = "recv" /\ obs.exp.ret = "none") => ~HasFrame(rpend)
AllReceived == <>[](Len(sent) = NMsg /\ rcvd = sent)
=============================================================================
