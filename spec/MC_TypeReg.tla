----------------------------- MODULE MC_TypeReg -----------------------------
(* Exhaustive configuration of TypeReg at scaled capacities: every range   *)
(* can be filled and over-filled, the chunk lists cross a chunk border and *)
(* end in a partly usable chunk (like 1792 = 59 * 30 + 22).                *)
EXTENDS TypeReg
CONSTANT MaxAdds
McBuiltinIf == <<"logger", "iterator">>
\* 1, 30: a core and a managed built-in; 98..121: the numeric scalars b n i x y q u t f d e
McFixedSize(id) == CASE id = 1 -> 4 [] id = 30 -> 16
                     [] id = 98 -> 1 [] id = 110 -> 2 [] id = 105 -> 4 [] id = 120 -> 8
                     [] id = 121 -> 1 [] id = 113 -> 2 [] id = 117 -> 4 [] id = 116 -> 8
                     [] id = 102 -> 4 [] id = 100 -> 8 [] id = 101 -> 16 [] OTHER -> 0
McFixedManaged(id) == IF id = 30 THEN 1 ELSE 0
McProbe == {0, 1, 2, 8, 9, 10, 11, 12, 13, 14, 20, 21, 22, 23, 24, 25, 30, 40, 41, 42, 43, 44, 45, 50}
Bound == Cardinality(DOMAIN reg) - Cardinality(DOMAIN BuiltinReg) <= MaxAdds
View == <<reg, ifs, dyn, metaC, genC>>
=============================================================================
