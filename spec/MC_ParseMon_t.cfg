SPECIFICATION Spec
CONSTANTS MaxPolls = 2 Names <- MCNames MaxLen = 5 MaxDepth = 4 Forests <- MCForests
VIEW View
INVARIANTS TypeOK Refines Budget WellNested Quiescent
PROPERTIES Transactional Balanced Linked InRange
CHECK_DEADLOCK FALSE
