SPECIFICATION TraceSpec
CONSTANTS
  Configs = {}
  Heads = {}
  TextBytes = {}
  MaxText = 0
  Levels = {}
  Calls = {}
  Ops = {}
  LogMax = 256
  AsFound = {}
INVARIANTS IdleClean Engaged
PROPERTIES DesignAgrees
POSTCONDITION TraceAccepted
CHECK_DEADLOCK FALSE
