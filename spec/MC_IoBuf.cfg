SPECIFICATION Spec
CONSTANTS NA = 1 NB = 2 NV = 1 MaxLen = 2 MaxArg = 2 Prune = FALSE
CONSTRAINT Bound
VIEW View
INVARIANTS TypeOK Refines
PROPERTY Independent RefuseFrame
CHECK_DEADLOCK FALSE
