SPECIFICATION Spec
CONSTANTS LBits = 16
  Vals = {0,1,2,3,9,10,255,256,32767,32768,65534,65535,65536,65537,131071,131072,1000000,16777215,16777216,16777217,268435455,268435456,536870911,536870912,1073741823}
  Smalls = {0,1,2,3,4,5,8,10,12,15,16,17,36,10000,15625,32767}
  Radices = {2,8,10,16,36}
INVARIANTS RoundTrip CmpOK AddOK SubOK MulOK ShiftOK BitsOK DigitsOK Pow10OK MulBigOK
CHECK_DEADLOCK FALSE
