SPECIFICATION GenSpec
CONSTANTS SmallIds = {1, 2} Widths = {1, 2} MaxTok = 4 MaxSlots = 10
  Texts <- CTextsT HRs <- CHRs
CONSTRAINT BoundT
VIEW Skel
ACTION_CONSTRAINT Emit
CHECK_DEADLOCK FALSE
