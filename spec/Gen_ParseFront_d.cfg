SPECIFICATION GSpec
CONSTANTS Configs <- DirConfigs OptNames <- DirNames SecNames <- DirNames Values <- DirValues
          Decos <- DirDecos MaxNodes = 1 MaxDepth = 1
          FrontEnds = {"folder"} LoadAccs <- GenLoadAccs Pres = {0} MaxLoads = 1 MaxFail = 1 MaxAside = 1
          XNames = {} XValues = {} XDecos = {}
INVARIANT CasesInv
CHECK_DEADLOCK FALSE
