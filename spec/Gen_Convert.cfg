SPECIFICATION GenSpec
CONSTANTS
  LBits = 16
  TypeTab <- RealTypes
  GraphLo = 33 GraphHi = 126 MaxBits = 64
  Apis = {"value"}
  TextApis = {"cint", "number", "string"}
  TextDsts = {"b", "y", "q", "i", "x", "t", "l", "f", "d"}
  Bases = {0, 16}
  Alphabet = {32, 45, 48, 49, 57, 120, 102}
  TextLen = 3
  ConverseDsts = {} ConverseSrcs = {}
  Ks = {1, 7, 8, 15, 16, 31, 32, 63, 64}
INVARIANTS DesignSound AllowedSound
ACTION_CONSTRAINT Emit
CHECK_DEADLOCK FALSE
