SPECIFICATION GenSpec
CONSTANTS
  Sources <- FileSources
  MaxInst = 2
VIEW View
ACTION_CONSTRAINT Emit
CHECK_DEADLOCK FALSE
