----------------------------- MODULE Gen_Stream -----------------------------
(* Behaviour export for replay into the real queues driven by the scaled  *)
(* (block code 5) COBS codec compiled from the unmodified sources.        *)
EXTENDS Stream, Json
CONSTANT PollMem
VARIABLES hist,
          polled   \* how many bytes had been delivered when a receive answered "none" (at most two such points are
                   \* remembered): in the model such a receive changes nothing, in the code it moves decoder state,
                   \* so behaviours must continue after it
GenInit == Init /\ hist = <<obs>> /\ polled = {}
Delivered == Len(rpend) + 100 * Len(rcvd)
GenNext == /\ Next
           /\ hist' = Append(hist, obs')
           /\ polled' = IF obs'.a = "recv" /\ obs'.exp.ret = "none" /\ Cardinality(polled \cup {Delivered}) <= PollMem
                         THEN polled \cup {Delivered} ELSE polled
GenSpec == GenInit /\ [][GenNext]_<<vars, hist, polled>>
MsgsQ == {<<0>>, <<1, 0, 6>>, <<1, 2, 3, 4>>}
MsgsT == {<<>>, <<0, 0>>, <<1, 0, 6>>, <<1, 2, 3, 4>>, <<1, 2, 3, 4, 0, 7, 8, 9, 6>>}
Sh(wc, wo, rc, ro, g) == [wcap |-> wc, woff |-> wo, rcap |-> rc, roff |-> ro, grow |-> g]
ShapesQ == {Sh(0, 0, 0, 0, 8), Sh(8, 5, 8, 6, 2)}
ShapesT == {Sh(0, 0, 0, 0, 8), Sh(8, 5, 8, 6, 2), Sh(16, 13, 16, 11, 1)}
KsQ == {1, 1000000}
KsT == {1, 2, 1000000}
Skel == <<shape, cur, sent, wdone, wire, rpend, rcvd, polled>>
Emit == PrintT(<<"BEHAV", ToJson(hist')>>)
=============================================================================
