SPECIFICATION GSpec
CONSTANTS Configs <- GenQ1Configs OptNames <- GQOptNames SecNames <- GQSecNames Values <- GQValues
          Decos <- GQDecos MaxNodes = 1 MaxDepth = 1
          FrontEnds <- AllFE LoadAccs <- GenLoadAccs Pres = {0, 2} MaxLoads = 1 MaxFail = 1 MaxAside = 0
          XNames <- XN XValues <- GXV XDecos <- QD
INVARIANT CasesInv
CHECK_DEADLOCK FALSE
