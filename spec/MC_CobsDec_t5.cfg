SPECIFICATION Spec
CONSTANTS
  Kinds <- KindsT
  Alpha <- AlphaT
  MaxLen = 3
  Slacks <- SlacksQ
  Grants <- GrantsQ
CONSTRAINT Bound
VIEW View
INVARIANTS TypeOK AnswerAllowed
PROPERTIES AnswerHonest UnreadKept PeekKeepsInput
CHECK_DEADLOCK FALSE
