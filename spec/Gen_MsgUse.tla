----------------------------- MODULE Gen_MsgUse -----------------------------
(* Behaviour export: one JSON line per generated transition (case): the    *)
(* message (string, cut), the consuming uses leading to the cursor state,   *)
(* the use and the answer the specification expects.                        *)
EXTENDS MsgUse, Json, IOUtils
VARIABLE hist
GenInit == UInit /\ hist = <<obs>>
GenNext == UNext /\ hist' = Append(hist, obs')
GenSpec == GenInit /\ [][GenNext]_<<uvars, hist>>
HeadsA == {<<>>, <<4, 0>>, <<4, 32>>, <<5, 32>>}     \* none / command, separator 0 / command, space / other type
HeadsB == {<<>>, <<6, 1>>, <<6, 2>>}                 \* none / assignment with 1 / 2 path elements
HeadsC == {<<>>}
HeadsV == {<<9, 0>>, <<9, 1, 224>>, <<9, 2, 224, 161>>, <<9, 2, 225>>, <<9>>}   \* value messages: inline / int8 / int8,uint16 / int16,...
UView == <<flat, cur, cont, mode, nofrag>>
EmitCase == PrintT(<<"BEHAV", ToJson(hist')>>)
=============================================================================
