----------------------------- MODULE MC_MsgUse -----------------------------
(* Exhaustive configuration of MsgUse: every head x every string over      *)
(* Alphabet up to MaxLen x every cut into <= MaxFrag fragments (empty ones  *)
(* and the cut with no fragment included) x every use with every argument   *)
(* of the bounded sets.                                                     *)
EXTENDS MsgUse
HeadsA == {<<>>, <<4, 0>>, <<4, 32>>, <<5, 32>>}     \* none / command, separator 0 / command, space / other type
HeadsB == {<<>>, <<6, 1>>, <<6, 2>>}                 \* none / assignment with 1 / 2 path elements
HeadsC == {<<>>}
HeadsV == {<<9, 0>>, <<9, 1, 224>>, <<9, 2, 224, 161>>, <<9, 2, 225>>, <<9>>}   \* value messages: inline / int8 / int8,uint16 / int16,...
UView == <<flat, cur, cont, mode, nofrag>>      \* obs/des are observations, not state
=============================================================================
