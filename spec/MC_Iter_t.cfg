SPECIFICATION Spec
CONSTANTS
  Sources <- SrcThorough
  MaxInst = 3
VIEW View
INVARIANTS TypeOK SeqOK
PROPERTIES Accepts LoopVisits
CHECK_DEADLOCK FALSE
