SPECIFICATION Spec
CONSTANTS NH = 3 Gran = 4 Hdr = 64 PChunk = 64 MaxLen = 1 MaxArg = 1 Prune = FALSE Api = "c" CtrMax = 1
CONSTRAINT Bound
VIEW View
INVARIANTS TypeOK AliasOK Refines NoTouch
PROPERTY Independent RefuseFrame
CHECK_DEADLOCK FALSE
