---------------------------- MODULE Gen_RawStream ----------------------------
(* Behaviour export for RawStream (replayed into drv/rawstream.cpp, sections "raw" and "file").  The design freedom   *)
(* of the model (early write-out, read-ahead) is fixed to "none": the expected observations do not depend on it.      *)
(* `touched` remembers calls that change nothing in the model (peek, shift, receive without data, read at the end of  *)
(* the file, refused calls, discards) so that the export continues after them: the code may move internal state.      *)
EXTENDS RawStream, Json
CONSTANT TouchMem
VARIABLES hist, touched
\* calls that lead back to a state the model has seen before (the code must have come back as well)
Revisit == {"discard", "drop"}
GenInit == Init /\ hist = <<obs>> /\ touched = {}
Key == <<obs'.a, obs'.arg, obs'.exp, Len(urin), fs.pos>>
GenNext == /\ Next
           /\ hist' = Append(hist, obs')
           /\ touched' = IF (obs'.a \in Revisit \/ (uvars' = uvars /\ fvars' = fvars)) /\ Cardinality(touched \cup {Key}) <= TouchMem
                          THEN touched \cup {Key} ELSE touched
GenSpec == GenInit /\ [][GenNext]_<<vars, hist, touched>>
RawSh(v, wc, wo, rc, ro, g) == [sec |-> "raw", via |-> v, wcap |-> wc, woff |-> wo, rcap |-> rc, roff |-> ro, grow |-> g]
FileSh(p) == [sec |-> "file", pre |-> p]
RawShapesQ  == {RawSh("c", 8, 5, 8, 6, 2), RawSh("cxx", 0, 0, 0, 0, 8)}
RawShapesT  == RawShapesQ \cup {RawSh("cxx", 8, 5, 8, 6, 2), RawSh("c", 4, 3, 4, 1, 1)}
FileShapesQ == {FileSh(<<>>), FileSh(<<5, 13, 10, 7>>)}
ShapesQ == RawShapesQ \cup FileShapesQ
FileShapesT == {FileSh(<<>>), FileSh(<<10, 9, 8, 13, 10, 5, 4, 3, 2, 1>>)}
ShapesT == RawShapesT \cup FileShapesT
DatasRawQ == {<<2, 3, 4>>}
DatasRawT == {<<1>>, <<5, 6, 7, 8, 9, 1, 2, 3, 4>>}
DatasFileQ == {<<1>>, <<2, 10>>, <<13, 10, 3, 4>>}
DatasFileT == {<<2, 10>>, <<13, 10, 3, 4>>, <<6, 13, 10, 10, 7, 8, 9, 9, 9, 9>>}
KsQ == {1, 2, 1000000}
KsT == {1, 2, 3, 1000000}
OA(m, nl, fl, buf, v) == [m |-> m, nl |-> nl, fl |-> fl, buf |-> buf, via |-> v]
OpenQ == {OA("r", "-", 0, 1, "c"), OA("r", "-", 0, 0, "cxx"), OA("w", "u", 1, 1, "cxx"), OA("w", "n", 1, 1, "c"),
          OA("w", "-", 0, 0, "c"), OA("a", "m", 0, 1, "c")}
OpenT == OpenQ \cup {OA("w", "n", 0, 0, "c"), OA("a", "n", 1, 1, "cxx"), OA("r", "-", 0, 1, "cxx")}
SK(o, w) == [off |-> o, wh |-> w]
SeekQ == {SK(1, "set"), SK(-1, "cur"), SK(-1, "end")}
SeekT == SeekQ
Skel == <<shape, uvars, fvars, touched>>
Emit == PrintT(<<"BEHAV", ToJson(hist')>>)
=============================================================================
