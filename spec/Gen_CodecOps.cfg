SPECIFICATION GenSpec
CONSTANTS
  Modes <- AllModes
  KindsE <- KindsGQ
  KindsA <- KindsAQ
  KindsD <- KindsDG
  Alpha <- AlphaE
  MaxMsg = 2
  MaxMsgs = 2
  MaxMsgsA = 2
  Caps <- CapsZ
  Grows <- Grows2
  DelKs <- Del12
  NextSet <- NextFew
  NextSetA <- NextMin
  Shifts <- Sh12
  DMaxLen = 8
  DSlacks <- Sl2
  DGrants <- Gr2
  DStreams <- StreamsG
  DFeeds <- Fd13
  DQs <- Q2
  DOps <- OpsNoPeek
  DMis <- Mis0
  SStreams <- StreamsP
  SQs <- Q1to8
  CapMax = 8
  HistD = 8
  Kinds <- None
  Pres <- None
CONSTRAINT BoundG
VIEW Skel
ACTION_CONSTRAINT Emit
CHECK_DEADLOCK FALSE
