SPECIFICATION GSpec
CONSTANTS Configs <- FlagConfigs OptNames <- FlagNames SecNames <- FlagSecNames Values <- QV
          Decos <- QD MaxNodes = 1 MaxDepth = 1
          FrontEnds = {"nodeparse", "cxx"} LoadAccs <- FlagAccsQ Pres = {1} MaxLoads = 1 MaxFail = 0 MaxAside = 0
          XNames = {} XValues = {} XDecos = {}
INVARIANT CasesInv
CHECK_DEADLOCK FALSE
