SPECIFICATION GenSpec
CONSTANTS Widths = {} MaxH = 1 MaxOwn = 1 LimbDom = {0} IdWidths = {} StreamWidths = {}
  MsgDom <- CMsgDom TextDom <- CTextDom
  Transports = {"stream", "dgram"} ConnWidths = {2} IdCand = {} IdLimit = 0
  MaxReq = 2 MaxPlain = 0 MaxStray = 1
  BActs = {"none", "reply"} BHrets <- CHretsFail SyncMax = 0
  MaxBReq = 0 MaxBPlain = 0 CRets <- CRetsBoth MaxChain = 1
VIEW Skel
ACTION_CONSTRAINT Emit
CHECK_DEADLOCK FALSE
