SPECIFICATION Spec
CONSTANTS
  Configs <- CfgsTty
  Heads <- HeadsTty
  Levels = {}
  Calls = {}
  TextBytes = {0, 1, 2, 3, 4, 97}
  MaxText = 3
  Ops = {"abort"}
  LogMax = 256
  AsFound = {}
VIEW MCView
CHECK_DEADLOCK FALSE
INVARIANTS TypeOK IdleClean Engaged
PROPERTIES DesignAgrees
