SPECIFICATION TraceSpec
CONSTANTS Widths = {} MaxH = 8 MaxOwn = 100 LimbDom = {0} IdWidths = {}
  StreamWidths = {}
  MsgDom <- CMsgDom TextDom <- CTextDom
INVARIANTS TypeOK Refines
PROPERTIES SendsRight Final Accepted RefusedAfter RejectKeeps DefaultOnRelease ArmFrame IdTiers StreamOnce
POSTCONDITION TraceAccepted
CHECK_DEADLOCK FALSE
