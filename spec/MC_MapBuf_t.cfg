SPECIFICATION MSpec
CONSTANTS NH = 2 Gran = 4 Hdr = 64 PChunk = 2 MaxLen = 2 MaxArg = 2 Prune = FALSE Api = "c" CtrMax = 2
          Page = 2 MTypes = {"raw", "c", "n"} Meta = {}
          Null <- MNull NewRec <- MNewRec Det <- MDet
CONSTRAINT Bound
CONSTRAINT Scope
VIEW View
INVARIANTS TypeOK MTypeOK AliasOK Refines NoTouch
PROPERTY Independent RefuseFrame
CHECK_DEADLOCK FALSE
