------------------------------- MODULE Ticks -------------------------------
(***************************************************************************)
(* X28 (part of C19): the value generators no iterator wraps.              *)
(*   mpt_ticks_linear(pts, nt, dx, dy)  nt equidistant ticks, two points   *)
(*                                      each, relative to the first tick   *)
(*   mpt_tick_log10(k)                  position of k inside a decade      *)
(*   mpt_{i,d,f}range(r, len, val, ld)  least / greatest of a strided run  *)
(* C19: "a source described by its parameters yields the count and values  *)
(* its description denotes (linear: the stated number of equal steps from  *)
(* the first to the last bound, equal to the closed form within rounding)".*)
(*                                                                         *)
(* Numbers: rationals <<p, q>> (IterNum); q = 0 marks a non-finite value   *)
(* (<<1,0>> +inf, <<-1,0>> -inf, <<0,0>> nan).  AnyV = "not determined".   *)
(* Tier 1 = closed forms (TickRef, RangeRef, LogPos); Tier 2 = the loops   *)
(* as the code runs them (index, pointer advance, memory with canaries).   *)
(***************************************************************************)
EXTENDS IterNum, FiniteSets

CONSTANTS NtMax,      \* ticks 0..NtMax
          Firsts,     \* coordinates of the first tick's points
          Deltas,     \* total deltas
          RVals,      \* values of double / float arrays
          IVals,      \* values of int arrays
          RLenMax,    \* array length 0..RLenMax
          LogDen      \* log10 is bracketed between a/LogDen and (a+1)/LogDen

VARIABLES pc, cs, i, p, mem, reg, obs
vars == <<pc, cs, i, p, mem, reg, obs>>

AnyV  == <<0, 0, 1>>
NaNV  == <<0, 0>>
Fin(x)   == Len(x) = 2 /\ x[2] # 0
IsNaN(x) == x = NaNV

(* ---------------- extended arithmetic (IEEE classes, exact values) ------------- *)
XAdd(x, y) ==
  IF Fin(x) /\ Fin(y) THEN RAdd(x, y)
  ELSE IF Fin(x) THEN y ELSE IF Fin(y) THEN x
  ELSE IF x = y THEN x ELSE NaNV
XMulI(k, x) == IF Fin(x) THEN RNorm(k * x[1], x[2]) ELSE x          \* k >= 1
XDivI(x, n) == IF Fin(x) THEN RDivI(x, n) ELSE x                     \* n >= 1
XLt(x, y) ==      \* IEEE "<": false when either is nan
  IF IsNaN(x) \/ IsNaN(y) THEN FALSE
  ELSE IF Fin(x) /\ Fin(y) THEN x[1] * y[2] < y[1] * x[2]
  ELSE IF Fin(x) THEN y[1] > 0
  ELSE IF Fin(y) THEN x[1] < 0
  ELSE x[1] < y[1]

(* ======================= Tier 1: what the descriptions denote ================== *)
(* coordinate of tick k (0-based) of nt ticks: first + k * delta / (nt - 1); the first tick keeps its value;
   with a non-finite first or delta nothing is stated about the later ticks *)
TickRef(first, delta, nt, k) ==
  IF k = 0 THEN first
  ELSE IF ~Fin(first) \/ ~Fin(delta) THEN AnyV
  ELSE RAdd(first, RNorm(k * delta[1], delta[2] * (nt - 1)))

Junk   == <<77, 1>>
Canary == <<99, 1>>
NPts(nt) == 2 * nt + 2
(* memory before the call: tick 0 = (p0, p1), other ticks junk, two canary points behind *)
Prefill(c) ==
  [j \in 1..NPts(c.nt) |->
     IF j > 2 * c.nt THEN <<Canary, Canary>>
     ELSE IF j = 1 THEN c.p0 ELSE IF j = 2 THEN c.p1 ELSE <<Junk, Junk>>]
(* memory after the call as the description denotes it *)
TicksRef(c) ==
  [j \in 1..NPts(c.nt) |->
     IF j > 2 * c.nt THEN <<Canary, Canary>>
     ELSE LET k == (j - 1) \div 2
              f == IF j % 2 = 1 THEN c.p0 ELSE c.p1
          IN <<TickRef(f[1], c.dx, c.nt, k), TickRef(f[2], c.dy, c.nt, k)>>]

Agree(v, r) == r = AnyV \/ v = r
PtsAgree(m, r) == /\ Len(m) = Len(r)
                  /\ \A j \in 1..Len(r) : Agree(m[j][1], r[j][1]) /\ Agree(m[j][2], r[j][2])

(* the values a range call looks at: len elements, ld apart, starting at off (0-based) *)
Sel(c) == [j \in 1..c.len |-> c.vals[c.off + (j - 1) * c.ld + 1]]
RangeOK(c) == c.len = 0 \/ (/\ c.off + 1 \in 1..Len(c.vals)
                            /\ c.off + (c.len - 1) * c.ld + 1 \in 1..Len(c.vals))
(* least and greatest; an empty run gives 0, 0; nothing is stated once a nan is among the values *)
RangeRef(c) ==
  LET s == Sel(c)
      S == {s[j] : j \in 1..Len(s)}
  IN IF c.len = 0 THEN <<RInt(0), RInt(0)>>
     ELSE IF \E v \in S : IsNaN(v) THEN <<AnyV, AnyV>>
     ELSE <<CHOOSE v \in S : \A w \in S : ~XLt(w, v), CHOOSE v \in S : \A w \in S : ~XLt(v, w)>>

(* position of k in a decade: the L with 10^L = k, decided with integer powers:
   a / LogDen <= L < (a + 1) / LogDen  iff  10^a <= k^LogDen < 10^(a+1) *)
RECURSIVE PowB(_, _)
PowB(k, n) == IF n = 0 THEN <<1>> ELSE MulS(PowB(k, n - 1), k)
RECURSIVE Digits(_, _, _)
Digits(K, T, a) == LET T10 == MulS(T, 10) IN IF Cmp(T10, K) > 0 THEN a ELSE Digits(K, T10, a + 1)
LogTab(k) == Digits(PowB(k, LogDen), <<1>>, 0)
LogDocumented(k) == k \in 2..9
RECURSIVE Log2Up(_)
Log2Up(n) == IF n <= 1 THEN 0 ELSE 1 + Log2Up((n + 1) \div 2)
(* the double d is within 1 / (2 LogDen) of the middle of the bracket *)
LogNear(d, k) == Near(d, <<2 * LogTab(k) + 1, 2 * LogDen>>, -(Log2Up(LogDen) + 1))

(* ======================= Tier 2: the loops as the code runs them =============== *)
TickCases == [nt : 0..NtMax, p0 : Firsts \X Firsts, p1 : Firsts \X Firsts, dx : Deltas, dy : Deltas]

RECURSIVE SeqsUpTo(_, _)
SeqsUpTo(S, n) == IF n = 0 THEN {<<>>} ELSE SeqsUpTo(S, n - 1) \cup [1..n -> S]
RangeCases ==
  {c \in [t : {"d", "f"}, vals : SeqsUpTo(RVals, RLenMax), len : 0..RLenMax, ld : -2..2, off : 0..(RLenMax - 1)]
        \cup [t : {"i"}, vals : SeqsUpTo(IVals, RLenMax), len : 0..RLenMax, ld : -2..2, off : 0..(RLenMax - 1)] :
     RangeOK(c) /\ (c.len = 0 => c.off = 0 /\ c.ld = 1)}

(* while (--len > 0): val += ld; r0 = least of r0 and val[0]; r1 = greatest of r1 and val[0] (IEEE compares) *)
RECURSIVE RangeLoop(_, _, _, _, _)
RangeLoop(r, len, pos, ld, vals) ==
  IF len - 1 > 0
  THEN LET q == pos + ld
           v == vals[q + 1]
           lo == IF XLt(v, r[1]) THEN v ELSE r[1]
           hi == IF XLt(r[2], v) THEN v ELSE r[2]
       IN RangeLoop(<<lo, hi>>, len - 1, q, ld, vals)
  ELSE r
RangeRun(c) ==
  IF c.len = 0 THEN <<RInt(0), RInt(0)>>
  ELSE LET v0 == c.vals[c.off + 1] IN
       IF c.ld = 0 THEN <<v0, v0>> ELSE RangeLoop(<<v0, v0>>, c.len, c.off, c.ld, c.vals)

Idle == [bx |-> NaNV, by |-> NaNV, tx |-> NaNV, ty |-> NaNV, ddx |-> NaNV, ddy |-> NaNV, n |-> 0]
NoCase == [nt |-> 0]

Init ==
  /\ pc = "idle" /\ cs = NoCase /\ i = 0 /\ p = 0 /\ mem = <<>> /\ reg = Idle
  /\ obs = [a |-> "none", arg |-> [x |-> 0], exp |-> [ret |-> "ok"]]

(* entry: if (!nt--) return; base and end of the first tick; dx /= nt, dy /= nt *)
Call(c) ==
  /\ pc = "idle"
  /\ cs' = c /\ mem' = Prefill(c) /\ p' = 0 /\ i' = 1
  /\ IF c.nt = 0
     THEN pc' = "ret" /\ reg' = Idle
     ELSE LET n == c.nt - 1 IN
          /\ pc' = "loop"
          /\ reg' = [bx |-> c.p0[1], by |-> c.p0[2], tx |-> c.p1[1], ty |-> c.p1[2], n |-> n,
                     ddx |-> IF n = 0 THEN NaNV ELSE XDivI(c.dx, n),       \* x / 0: never used
                     ddy |-> IF n = 0 THEN NaNV ELSE XDivI(c.dy, n)]
  /\ UNCHANGED obs

(* for (i = 1; i <= nt; i++) { x = i * dx ...; pts += 2; pts[0] = base + x; pts[1] = end + x; } *)
Loop ==
  /\ pc = "loop" /\ i <= reg.n
  /\ LET x == XMulI(i, reg.ddx)
         y == XMulI(i, reg.ddy)
         q == p + 2
     IN /\ p' = q
        /\ q + 2 <= Len(mem)             \* a write outside the block has no successor: caught by Completes
        /\ mem' = [mem EXCEPT ![q + 1] = <<XAdd(reg.bx, x), XAdd(reg.by, y)>>,
                              ![q + 2] = <<XAdd(reg.tx, x), XAdd(reg.ty, y)>>]
  /\ i' = i + 1
  /\ UNCHANGED <<pc, cs, reg, obs>>

Ret ==
  /\ pc = "ret" \/ (pc = "loop" /\ i > reg.n)
  /\ pc' = "done"
  /\ obs' = [a |-> "ticks", arg |-> [nt |-> cs.nt, p0 |-> cs.p0, p1 |-> cs.p1, dx |-> cs.dx, dy |-> cs.dy, s |-> 0],
             exp |-> [ret |-> "ok", pts |-> mem]]
  /\ UNCHANGED <<cs, i, p, mem, reg>>

Log10(k) ==
  /\ pc = "idle" /\ pc' = "done"
  /\ obs' = [a |-> "log10", arg |-> [k |-> k],
             exp |-> IF LogDocumented(k) THEN [lo |-> LogTab(k), den |-> LogDen] ELSE [any |-> 1]]
  /\ UNCHANGED <<cs, i, p, mem, reg>>

Range(c) ==
  /\ pc = "idle" /\ pc' = "done"
  /\ LET r == RangeRun(c) IN
     obs' = [a |-> "range", arg |-> c, exp |-> [ret |-> "ok", min |-> r[1], max |-> r[2]]]
  /\ UNCHANGED <<cs, i, p, mem, reg>>

Next ==
  \/ \E c \in TickCases : Call(c)
  \/ Loop \/ Ret
  \/ \E k \in -2..12 : Log10(k)
  \/ \E c \in RangeCases : Range(c)

Spec == Init /\ [][Next]_vars

(* ---------------- Tier 2 => Tier 1 ---------------- *)
TypeOK == pc \in {"idle", "loop", "ret", "done"} /\ i \in 0..(NtMax + 1) /\ p \in 0..(2 * NtMax + 2)
(* the pointer stays on a tick of the array, the canaries are never touched *)
PtrOK == pc = "loop" => /\ p + 2 <= 2 * cs.nt
                        /\ mem[2 * cs.nt + 1] = <<Canary, Canary>> /\ mem[2 * cs.nt + 2] = <<Canary, Canary>>
(* every started call returns (no write outside the block stops the loop) *)
Completes == pc = "loop" => ENABLED (Loop \/ Ret)
Refines ==
  pc = "done" =>
    CASE obs.a = "ticks" -> PtsAgree(obs.exp.pts, TicksRef(cs))
      [] obs.a = "range" -> LET r == RangeRef(obs.arg) IN Agree(obs.exp.min, r[1]) /\ Agree(obs.exp.max, r[2])
      [] obs.a = "log10" -> LogDocumented(obs.arg.k) =>
                              /\ Cmp(PowB(10, obs.exp.lo), PowB(obs.arg.k, LogDen)) <= 0
                              /\ Cmp(PowB(10, obs.exp.lo + 1), PowB(obs.arg.k, LogDen)) > 0
      [] OTHER -> TRUE
=============================================================================
