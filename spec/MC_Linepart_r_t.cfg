SPECIFICATION Spec
CONSTANTS
  Alphabet <- Alpha5
  Ranges <- Rng3
  MaxLen = 6
  Limit = 65535
  Chunked = FALSE
  NoRangeLen = 0
  CodeDen <- Den1
  Dims = 1
VIEW View
INVARIANTS TypeOK PartsOK Partition Complete EncodeOK PolyOK
PROPERTIES JoinTotals Progress
CHECK_DEADLOCK FALSE
