SPECIFICATION GenSpec
CONSTANTS
  Alphabet <- Alpha5
  Ranges <- Rng1
  MaxLen = 3
  Limit = 65535
  Chunked = TRUE
  NoRangeLen = 3
  CodeDen <- Den1
  Dims = 1
VIEW View
ACTION_CONSTRAINT Emit
CHECK_DEADLOCK FALSE
