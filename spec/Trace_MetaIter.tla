--------------------------- MODULE Trace_MetaIter ---------------------------
(* Trace validation for MetaIter: recorded calls on buffer metatypes over  *)
(* texts of production sizes (segments around 63/64/255 bytes, heap and    *)
(* mapped arrays) must be behaviours of the specification.  Executions are *)
(* concatenated; each starts with "init".                                  *)
EXTENDS MetaIter, Json, IOUtils, TLC
VARIABLE l
TraceLog == ndJsonDeserialize(IOEnv.TRACE)

Fresh ==
  /\ text' = <<>> /\ pos' = [i \in I |-> 0] /\ sl' = [i \in I |-> NoInst]
  /\ obs' = [a |-> "init", arg |-> [n |-> NI],
             exp |-> [ret |-> "any", ts |-> [i \in I |-> "dead"], ds |-> [i \in I |-> <<>>]]]

\* a call the driver did not make because there was no such instance (or the slot was taken)
Skipped(ev) ==
  /\ CASE ev.a = "iclone" -> (IF ev.arg.from \in I THEN pos[ev.arg.from] = 0 ELSE TRUE) \/ pos[ev.arg.i] > 0
       [] OTHER -> pos[ev.arg.i] = 0
  /\ UNCHANGED <<text, pos, sl>>
  /\ Answer(ev.a, ev.arg, "skipped")

Step(ev) ==
  IF "obs" \notin DOMAIN ev THEN FALSE ELSE
  IF ev.a = "init" THEN Fresh ELSE
  IF ev.obs.ret = "skipped" THEN Skipped(ev) ELSE
  CASE ev.a = "itext"  -> MkText(ev.arg.data, ev.arg.map)
    [] ev.a = "iadv"   -> Advance(ev.arg.i)
    [] ev.a = "ireset" -> Reset(ev.arg.i)
    [] ev.a = "iclone" -> Clone(ev.arg.i, ev.arg.from)
    [] ev.a = "iunref" -> Unref(ev.arg.i)
    [] OTHER           -> FALSE

Matches(ev) ==
  \/ obs'.exp.ret = "any"
  \/ /\ obs'.exp.ret = ev.obs.ret /\ obs'.exp.ts = ev.obs.ts /\ obs'.exp.ds = ev.obs.ds

TraceInit == l = 1 /\ Init
TraceNext ==
  /\ l <= Len(TraceLog)
  /\ l' = l + 1
  /\ LET ev == TraceLog[l] IN Step(ev) /\ Matches(ev)
TraceSpec == TraceInit /\ [][TraceNext]_<<vars, l>>

TraceAccepted ==
  LET n == TLCGet("stats").diameter - 1 IN
  /\ PrintT(<<"MATCHED", n>>)
  /\ n = Len(TraceLog)
=============================================================================
