SPECIFICATION GenSpec
CONSTANTS
  Configs <- CfgsRich
  Heads <- HeadsRich
  Levels = {}
  Calls = {}
  TextBytes = {0, 1, 2, 3, 97}
  MaxText = 3
  Ops = {}
  LogMax = 256
  AsFound = {}
  Chain = FALSE
  GenMax = 12
VIEW GenView
CONSTRAINT GenBound
CHECK_DEADLOCK FALSE
ACTION_CONSTRAINT Emit
