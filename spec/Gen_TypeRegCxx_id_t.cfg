SPECIFICATION GenSpec
CONSTANTS
  IfBase <- SIfBase  IfAdd <- SIfAdd  IfCap <- SIfCap
  BuiltinIf <- FBuiltinIf
  DynBase <- SDynBase  DynCap <- SDynCap
  MetaBase <- SMetaBase  MetaCap <- SMetaCap
  GenBase <- SGenBase  GenCap <- SGenCap
  Chunk = 30
  PtrSize <- SPtr
  FixedSize <- SFixedSize
  FixedManaged <- SFixedManaged
  Optional = {}
  Names = {}
  Sizes = {}
  Probe = {}
  CxxCat <- XCat
  CxxSize <- XSize
  CxxFixedId <- XFixedId
  CxxName <- XName
  CxxClassK <- XClassK
  CxxClassT <- XClassT
  Vias = {"tmpl", "value", "new"}
  MetaAsk = {}
  TraitsRegs = {"cspan_pod3", "generic_ptr", "basic_ptr", "mvalue_pod3_ptr"}
  GenericPtr = "generic_ptr"
  BasicPtr = "basic_ptr"
  PropBuf <- XPropBuf
  CxxTypes = {"int32", "double", "uint8", "cstr", "cspan_double", "cspan_int32", "conv_ptr", "iter_ptr", "meta_ptr", "value", "meta_ref", "tracked", "pod1", "pod3", "pod24", "tracked_ptr", "pod3_ptr", "span_pod3", "cspan_pod3", "span_double", "generic_ptr", "basic_ptr", "mvalue_pod3_ptr", "fill0", "fill1", "fill2", "fill3"}
  PayTypes = {}
  WrapTypes = {}
  Slots = {1}
  Vals = {1}
  MaxAdds = 2
  MaxRefs = 1
  RawSizes = {24}
  RawNames = {"generic"}
CONSTRAINT Bound
VIEW View
ACTION_CONSTRAINT Emit
INVARIANTS TypeOK InRange CTypeOK CxxInRange
PROPERTIES CLegal CStable CxxStable LiveExact
CHECK_DEADLOCK FALSE
