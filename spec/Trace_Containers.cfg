SPECIFICATION TraceSpec
CONSTANTS NH = 4 NO = 4 NN = 5 MaxLen = 100000 MaxSub = 100000 MaxArg = 100000 Kinds = {"ref", "item", "group", "cfg", "cmd", "stage"} Solo = {3, 4} Fails = {0, 1, 2} FailOut = TRUE Prune = FALSE
INVARIANTS TypeOK AliasOK Refines Balance AllGone OneSlot
POSTCONDITION TraceAccepted
CHECK_DEADLOCK FALSE
