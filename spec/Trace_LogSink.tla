--------------------------- MODULE Trace_LogSink ---------------------------
(* Trace validation: recorded executions of the real sinks (messages of    *)
(* production size, seeded cuts, sizes around the internal buffers) must be *)
(* behaviours of LogSink: every answer and everything written is recomputed *)
(* from the contiguous message (Tier 1) with the operators the model        *)
(* checker used; the push design (Tier 2) is evaluated alongside            *)
(* (DesignAgrees).  Executions are concatenated; each starts with "open".   *)
EXTENDS LogSink, Json, IOUtils
VARIABLE l
TraceLog == ndJsonDeserialize(IOEnv.TRACE)

TraceStep(ev) ==
  CASE ev.a = "open"  -> Open(ev.arg)
    [] ev.a = "msg"   -> Start(ev.arg.data)
    [] ev.a = "push"  -> \/ /\ Len(ev.arg.data) <= Len(todo)
                            /\ First(todo, Len(ev.arg.data)) = ev.arg.data
                            /\ Push(Len(ev.arg.data))
                         \/ Skip
    [] ev.a = "finish" -> Finish("end") \/ Drop \/ Skip
    [] ev.a = "giveup" -> Finish("abort") \/ Drop \/ Skip
    [] ev.a = "end"   -> Finish("end")
    [] ev.a = "abort" -> Finish("abort")
    [] ev.a = "drop"  -> Drop
    [] ev.a = "set"   -> SetLevel(ev.arg)
    [] ev.a = "log"   -> Log(ev.arg)
    [] ev.a = "vlog"  -> VLog(ev.arg)
    [] OTHER          -> FALSE

\* the script of a recorded execution does not know the answers: "finish" / "giveup" / a push after a refusal
\* say what the pusher did (obs.did), the specification has to take the same step
Matches(ev) ==
  /\ \A k \in DOMAIN obs'.exp : k \in DOMAIN ev.obs /\ ev.obs[k] = obs'.exp[k]
  /\ "did" \in DOMAIN ev.obs => ev.obs.did = obs'.a

TraceInit ==
  /\ l = 1
  /\ cfg = [kind |-> "logfile", file |-> "none", ignore |-> 0, color |-> 0, pass |-> 0, tty |-> 0]
  /\ snk = Snk0(0) /\ wr = EmptyW /\ todo = <<>> /\ held = <<>> /\ cur = <<>> /\ lvl0 = 0
  /\ obs = [a |-> "none", arg |-> NoArg, exp |-> [ret |-> "ok"]]
  /\ des = [ret |-> "ok"]

TraceNext ==
  /\ l <= Len(TraceLog)
  /\ l' = l + 1
  /\ LET ev == TraceLog[l] IN TraceStep(ev) /\ Matches(ev)

TraceSpec == TraceInit /\ [][TraceNext]_<<vars, l>>

TraceAccepted ==
  LET n == TLCGet("stats").diameter - 1 IN
  /\ PrintT(<<"MATCHED", n>>)
  /\ n = Len(TraceLog)
=============================================================================
