SPECIFICATION SpecX
CONSTANTS
  Sources <- ScThorough
  MaxInst = 2
  MaxOps = 10
  ModSet <- ModT
  QuerySet <- QueryT
VIEW ViewX
INVARIANTS TypeOKX
PROPERTIES AcceptsX ConsumersVisit FillsColumn CloneIndependent
CHECK_DEADLOCK FALSE
