SPECIFICATION Spec
CONSTANTS
  Configs <- CfgsMix
  Heads <- HeadsOps
  Levels <- LevelsB
  Calls <- CallsB
  TextBytes = {0, 2, 97}
  MaxText = 3
  Ops = {"abort", "set", "log"}
  LogMax = 256
  AsFound = {}
VIEW MCView
CHECK_DEADLOCK FALSE
INVARIANTS TypeOK IdleClean Engaged
PROPERTIES DesignAgrees
