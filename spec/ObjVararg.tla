------------------------------ MODULE ObjVararg ------------------------------
(***************************************************************************)
(* X21 (extension of C20), second module: what reaches an object through   *)
(* the variadic front door -- mpt_object_set / mpt_object_vset ->          *)
(* mpt_process_vararg -> mpt_value_argv -> mpt_object_set_iterator -- and  *)
(* the doors on objects that are no layout objects:                        *)
(*   "ref"   a reference object of the harness (count 'i', ratio 'd',      *)
(*           label 's', list = every value the source delivers) that takes *)
(*           iterator sources for every property,                          *)
(*   "hist"  the library's local output object (mpt_output_local: history  *)
(*           / log file properties format, file, ignore).                  *)
(*                                                                         *)
(* Tier 1: the door delivers the arguments, each with the type its code    *)
(*   names, in order (Delivered); value() is the element at the position,  *)
(*   advance() moves on by one and answers the type of the new element or  *)
(*   0 behind the last, reset() goes back to the first.  A property set    *)
(*   through the door reads back the delivered value; a refusal changes    *)
(*   nothing; a listing names every listed property once, in order.        *)
(* Tier 2: the iterator of process_vararg.c: format pointer (null = ended),*)
(*   a loaded element that stays where it is, arguments taken from the     *)
(*   list only when a code is consumed.  TLC checks that every walk of the *)
(*   design sees what the position in Delivered says (WalkSync).           *)
(***************************************************************************)
EXTENDS Integers, Sequences, FiniteSets, TLC

CONSTANTS KindSet, MaxOps, Lvl
VARIABLES kind, st, ops, obs
vars == <<kind, st, ops, obs>>

D(v2) == <<v2 \div 65536, v2 % 65536>>
RECURSIVE RLEfrom(_, _)
RLEfrom(c, i) ==
  IF i > Len(c) THEN <<>>
  ELSE LET RECURSIVE Run(_)
           Run(j) == IF j <= Len(c) /\ c[j] = c[i] THEN Run(j + 1) ELSE j
           e == Run(i)
       IN <<c[i], e - i>> \o RLEfrom(c, e)
RLE(c) == RLEfrom(c, 1)

(* arguments: [f, n, c]  f = type letter, n = doubled value (hi, lo), c = text codes *)
V(f, n, c) == [f |-> f, n |-> n, c |-> c, sty |-> ""]
Num(f, v2) == V(f, D(v2), <<>>)
Str(c)     == V("s", <<>>, c)
CodeOf(f) == CASE f = "b" -> 98 [] f = "y" -> 121 [] f = "n" -> 110 [] f = "q" -> 113 [] f = "i" -> 105 [] f = "u" -> 117
               [] f = "x" -> 120 [] f = "t" -> 116 [] f = "l" -> 108 [] f = "f" -> 102 [] f = "d" -> 100 [] f = "s" -> 115
               [] OTHER -> 63
VaCodes == {98, 121, 110, 113, 105, 117, 120, 116, 108, 102, 100, 115}
Known   == VaCodes \ {108}            \* value types (a native long, code 'l', is delivered as the 64 bit integer 'x')
NullFmt == <<0>>
(* an element as the object sees it: [t, n, c] (c = run-length text) *)
Item(code0, v) == LET code == IF code0 = 108 THEN 120 ELSE code0 IN [t |-> code, n |-> IF code = 115 THEN <<>> ELSE v.n, c |-> IF code = 115 THEN RLE(v.c) ELSE <<>>]
FlatItem(it) == IF it.t = 115 THEN <<115, Len(it.c)>> \o it.c ELSE <<it.t>> \o it.n
RECURSIVE Flat(_, _)
Flat(items, i) == IF i > Len(items) THEN <<>> ELSE FlatItem(items[i]) \o Flat(items, i + 1)

RECURSIVE GoodPrefix(_, _)
GoodPrefix(fmt, i) == IF i <= Len(fmt) /\ fmt[i] \in VaCodes THEN GoodPrefix(fmt, i + 1) ELSE i - 1
WellFormed(fmt) == fmt # NullFmt /\ GoodPrefix(fmt, 1) = Len(fmt)
NCodes(fmt) == IF fmt = NullFmt THEN 0 ELSE GoodPrefix(fmt, 1)
\* Tier 1: what the door delivers (as far as the format goes)
Delivered(fmt, args) == [i \in 1..NCodes(fmt) |-> Item(fmt[i], args[i])]

---------------------------------------------------------------------------
(* Tier 2: the iterator of process_vararg.c                                *)
(*  m = [fmt, args, p, a, live, cur]  p = index of the next code (0: the   *)
(*  format pointer is null), a = next argument, cur = loaded element       *)
NoItem == [t |-> 0, n |-> <<>>, c |-> <<>>]
VaNext(m) ==     \* _iteratorVarargNext: [m, ret]
  IF m.p = 0 THEN [m |-> m, ret |-> -1]
  ELSE IF m.p > Len(m.fmt) THEN [m |-> [m EXCEPT !.p = 0], ret |-> 0]
  ELSE IF m.fmt[m.p] \notin VaCodes THEN [m |-> m, ret |-> -1]
  ELSE [m |-> [m EXCEPT !.cur = Item(m.fmt[m.p], m.args[m.a]), !.p = m.p + 1, !.a = m.a + 1], ret |-> Item(m.fmt[m.p], m.args[m.a]).t]
VaOpen(fmt, args) ==     \* mpt_process_vararg up to the call of the handler: [m, ret]
  LET m0 == [fmt |-> fmt, args |-> args, p |-> 1, a |-> 1, cur |-> NoItem] IN
  IF fmt = NullFmt THEN [m |-> [m0 EXCEPT !.p = 0], ret |-> 0]
  ELSE IF fmt = <<>> THEN [m |-> m0, ret |-> 0]
  ELSE VaNext(m0)
VaValue(m) == IF m.p = 0 THEN NoItem ELSE m.cur
VaReset(m) ==
  IF m.fmt = NullFmt THEN [m |-> m, ret |-> 0]
  ELSE IF m.fmt = <<>> THEN [m |-> [m EXCEPT !.p = 1], ret |-> 0]
  ELSE LET r == VaNext([m EXCEPT !.p = 1, !.a = 1]) IN
       IF r.ret < 0 THEN [m |-> r.m, ret |-> -1] ELSE [m |-> r.m, ret |-> Len(m.fmt)]
\* everything the design hands out when the consumer takes value, advance, value, ... to the end
RECURSIVE Drain(_, _)
Drain(m, n) == IF n = 0 \/ m.p = 0 THEN <<>>
               ELSE LET r == VaNext(m) IN <<VaValue(m)>> \o (IF r.ret <= 0 THEN <<>> ELSE Drain(r.m, n - 1))

(* a scripted walk over the iterator: w = sequence of "v" "a" "r"; the log   *)
(* is what the harness records: 118, item | 97, answer | 114, answer          *)
SeenItem(it) == IF it.t = 0 THEN <<0>> ELSE FlatItem(it)
RECURSIVE WalkLog(_, _, _)
WalkLog(m, w, i) ==
  IF i > Len(w) THEN <<>>
  ELSE CASE w[i] = "v" -> <<118>> \o SeenItem(VaValue(m)) \o WalkLog(m, w, i + 1)
         [] w[i] = "a" -> LET r == VaNext(m) IN <<97, r.ret>> \o WalkLog(r.m, w, i + 1)
         [] w[i] = "r" -> LET r == VaReset(m) IN <<114, r.ret>> \o WalkLog(r.m, w, i + 1)
(* Tier 1 of the same walk: a position g in Delivered (Len + 1 = behind the last) *)
RECURSIVE WalkPos(_, _, _, _)
WalkPos(ds, g, w, i) ==
  IF i > Len(w) THEN <<>>
  ELSE CASE w[i] = "v" -> <<118>> \o (IF g <= Len(ds) THEN SeenItem(ds[g]) ELSE <<0>>) \o WalkPos(ds, g, w, i + 1)
         [] w[i] = "a" -> IF g > Len(ds) THEN <<97, -1>> \o WalkPos(ds, g, w, i + 1)
                          ELSE <<97, IF g = Len(ds) THEN 0 ELSE ds[g + 1].t>> \o WalkPos(ds, g + 1, w, i + 1)
         [] w[i] = "r" -> <<114, Len(ds)>> \o WalkPos(ds, 1, w, i + 1)

---------------------------------------------------------------------------
(* objects *)
DefRef  == [count |-> <<0, 0>>, ratio |-> <<0, 0>>, label |-> <<>>, items |-> <<>>]
DefHist == [ignore |-> 8]
Def == IF kind = "ref" THEN DefRef ELSE DefHist
ViewOf(k, s) == IF k = "ref" THEN [count |-> s.count, ratio |-> <<0>> \o s.ratio, label |-> s.label,
                                   list |-> <<0, Len(s.items)>>, items |-> Flat(s.items, 1)]
                ELSE [ignore |-> <<s.ignore>>]
Ok(d)     == [ret |-> "ok", den |-> d]
Either(d) == [ret |-> "either", den |-> d]
Refused   == [ret |-> "refused", den |-> <<>>]
Silent    == [ret |-> "silent", den |-> <<>>]
Settled(r) == r.ret \in {"ok", "refused"}

N_count == <<99, 111, 117, 110, 116>>  N_ratio == <<114, 97, 116, 105, 111>>  N_label == <<108, 97, 98, 101, 108>>
N_list == <<108, 105, 115, 116>>  N_bogus == <<98, 111, 103, 117, 115>>  N_ignore == <<105, 103, 110, 111, 114, 101>>
SlotOf(name) == CASE name = N_count -> "count" [] name = N_ratio -> "ratio" [] name = N_label -> "label" [] name = N_list -> "items"
                  [] name = N_ignore -> "ignore" [] OTHER -> ""
Names == IF kind = "ref" THEN {N_count, N_ratio, N_label, N_list, N_bogus} ELSE {N_ignore, N_bogus}
Knows(name) == SlotOf(name) \in DOMAIN Def

Int32(n) == n[2] % 2 = 0 /\ n[1] \in -65536..65535
Byte(n)  == n[2] % 2 = 0 /\ n[1] = 0 /\ n[2] \in 0..510
(* what a delivered list means for a slot; t2 = the policy of the code where the statement leaves it open *)
DenList(slot, ds, t2) ==
  CASE slot = "items" -> IF \A i \in 1..Len(ds) : ds[i].t \in Known THEN Ok(ds) ELSE IF t2 THEN Refused ELSE Silent
    [] slot = "count" -> IF ds = <<>> THEN (IF t2 THEN Refused ELSE Silent)
                         ELSE IF ds[1].t = 105 THEN Ok(ds[1].n)
                         ELSE IF ds[1].t = 115 THEN (IF t2 THEN Refused ELSE Silent)
                         ELSE IF t2 THEN Silent ELSE (IF Int32(ds[1].n) THEN Either(ds[1].n) ELSE Silent)
    [] slot = "ratio" -> IF ds = <<>> THEN (IF t2 THEN Refused ELSE Silent)
                         ELSE IF ds[1].t = 100 THEN Ok(ds[1].n)
                         ELSE IF ds[1].t = 115 THEN (IF t2 THEN Refused ELSE Silent)
                         ELSE IF t2 THEN Silent ELSE Either(ds[1].n)
    [] slot = "label" -> IF ds = <<>> THEN (IF t2 THEN Refused ELSE Silent)
                         ELSE IF ds[1].t = 115 THEN Ok(ds[1].c) ELSE IF t2 THEN Refused ELSE Silent
    [] slot = "ignore" -> IF t2 THEN Refused        \* the log file properties take no iterator source
                          ELSE IF Len(ds) = 1 /\ ds[1].t # 115 /\ Byte(ds[1].n) THEN Either(ds[1].n[2] \div 2) ELSE Silent
(* direct route: one typed value / text *)
DenDirect(slot, v) ==
  CASE slot = "count"  -> IF v.f = "i" THEN Ok(v.n) ELSE IF v.f = "num" THEN (IF Int32(v.n) THEN Ok(v.n) ELSE Silent) ELSE Silent
    [] slot = "ratio"  -> IF v.f \in {"d", "num"} THEN Ok(v.n) ELSE Silent
    [] slot = "label"  -> IF v.f \in {"s", "txt"} THEN Ok(RLE(v.c)) ELSE Silent
    [] slot = "items"  -> Silent
    [] slot = "ignore" -> IF v.f \in {"y", "num"} THEN (IF Byte(v.n) THEN Ok(v.n[2] \div 2) ELSE IF v.f = "num" /\ v.n[2] % 2 = 0 THEN Refused ELSE Silent)
                          ELSE IF v.f = "txt" /\ v.c = <<97, 98, 99>> THEN Refused ELSE Silent

---------------------------------------------------------------------------
PView(i) == ViewOf(kind, st'[i])
Exp(ret) == [ret |-> ret, p0 |-> PView(1), p1 |-> PView(2)]
EntArg(v) == [name |-> <<>>, f |-> v.f, n |-> v.n, c |-> v.c, sty |-> v.sty, x |-> "U"]
EntArgs(vals) == [i \in 1..Len(vals) |-> EntArg(vals[i])]
Same == UNCHANGED <<kind, st>>
Put(o, slot, d) == st' = [st EXCEPT ![o] = [@ EXCEPT ![slot] = d]] /\ UNCHANGED kind
Res(ret, slot, den) == [ret |-> ret, slot |-> slot, den |-> den]
\* whole views of the target the statement permits after a door step ("any": it does not say)
AltViews(o, slot, r1) ==
  IF r1.ret = "silent" THEN "any"
  ELSE {ViewOf(kind, st[o])} \cup (IF r1.ret \in {"ok", "either"} /\ slot # "" THEN {ViewOf(kind, [st[o] EXCEPT ![slot] = r1.den])} ELSE {})

(* direct route (mpt_object_set_string / mpt_object_set_value / reset) *)
DSet(o, name, v) ==
  LET slot == SlotOf(name)
      r == IF ~Knows(name) THEN Refused ELSE IF v.f = "none" THEN Ok(Def[slot]) ELSE DenDirect(slot, v) IN
  /\ Settled(r)
  /\ IF r.ret = "ok" THEN Put(o, slot, r.den) ELSE Same
  /\ obs' = [a |-> "dset", arg |-> [o |-> o - 1, ents |-> <<[EntArg(v) EXCEPT !.name = name, !.x = ""]>>], door |-> o, slot |-> slot,
             res |-> r, exp |-> Exp("any") @@ [oks |-> <<IF r.ret = "ok" THEN 1 ELSE 0>>, altp |-> AltViews(o, slot, r)]]

(* mpt_object_set / mpt_object_vset *)
VSetRes(name, fmt, args, t2) ==
  LET slot == SlotOf(name) IN
  IF ~Knows(name) THEN Refused
  ELSE IF fmt = NullFmt THEN Ok(Def[slot])
  ELSE IF fmt = <<>> THEN (IF t2 THEN Refused ELSE Either(Def[slot]))
  ELSE IF GoodPrefix(fmt, 1) = 0 THEN Refused
  ELSE IF t2 /\ ~WellFormed(fmt) THEN Refused
  ELSE LET r == DenList(slot, Delivered(fmt, args), t2) IN
       IF WellFormed(fmt) \/ r.ret # "ok" THEN r ELSE Either(r.den)
VSet(a, o, name, fmt, args) ==
  LET r2 == VSetRes(name, fmt, args, TRUE)  r1 == VSetRes(name, fmt, args, FALSE)  slot == SlotOf(name) IN
  /\ Len(args) = NCodes(fmt) /\ Settled(r2)
  /\ IF r2.ret = "ok" THEN Put(o, slot, r2.den) ELSE Same
  /\ obs' = [a |-> a, arg |-> [o |-> o - 1, name |-> name, fmt |-> fmt, ents |-> EntArgs(args)], door |-> o, slot |-> slot, res |-> r1,
             exp |-> Exp(IF Settled(r1) THEN r2.ret ELSE "any") @@ [altp |-> AltViews(o, slot, r1)]]
(* mpt_object_set_iterator with a harness iterator over typed values *)
ISet(o, name, args) ==
  LET slot == SlotOf(name)
      ds == [i \in 1..Len(args) |-> Item(CodeOf(args[i].f), args[i])]
      r2 == IF ~Knows(name) THEN Refused ELSE DenList(slot, ds, TRUE)
      r1 == IF ~Knows(name) THEN Refused ELSE DenList(slot, ds, FALSE) IN
  /\ Settled(r2)
  /\ IF r2.ret = "ok" THEN Put(o, slot, r2.den) ELSE Same
  /\ obs' = [a |-> "iset", arg |-> [o |-> o - 1, name |-> name, ents |-> EntArgs(args)], door |-> o, slot |-> slot, res |-> r1,
             exp |-> Exp(IF Settled(r1) THEN r2.ret ELSE "any") @@ [altp |-> AltViews(o, slot, r1)]]

(* mpt_process_vararg with a handler that walks the iterator *)
WText(w) == w
Walk(fmt, args, w, wtxt) ==
  LET op == VaOpen(fmt, args) IN
  /\ Len(args) = NCodes(fmt) /\ fmt # <<>>      \* (an empty format: the statement does not say what the one element is)
  /\ Same
  /\ obs' = [a |-> "walk", arg |-> [fmt |-> fmt, w |-> wtxt, ents |-> EntArgs(args)], door |-> 0, slot |-> "", res |-> Silent,
             fmt |-> fmt, args |-> args, w |-> w,
             exp |-> IF op.ret < 0 THEN [ret |-> "refused", seen |-> <<>>]
                     ELSE [ret |-> "ok", seen |-> WalkLog(op.m, w, 1)]]

(* listing *)
Listed == IF kind = "ref" THEN <<"count", "ratio", "label">> ELSE <<"format", "file", "ignore">>
IsDef(o, nm) == kind = "ref" /\ st[o][nm] = DefRef[nm]
List(o, m, mode) ==
  LET all == m % 256 >= 48 IN
  /\ Same /\ (kind = "hist" => all)
  /\ obs' = [a |-> "list", arg |-> [o |-> o - 1, match |-> m, mode |-> mode], door |-> 0, slot |-> "", res |-> Silent,
             exp |-> [ret |-> "ok", p0 |-> ViewOf(kind, st[1]), p1 |-> ViewOf(kind, st[2]),
                      names |-> SelectSeq(Listed, LAMBDA nm : all \/ (IF IsDef(o, nm) THEN (m \div 32) % 2 = 1 ELSE (m \div 16) % 2 = 1)),
                      vals |-> IF kind = "ref" /\ mode # "print"
                               THEN [j \in 1..Len(SelectSeq(Listed, LAMBDA nm : all \/ (IF IsDef(o, nm) THEN (m \div 32) % 2 = 1 ELSE (m \div 16) % 2 = 1))) |->
                                      ViewOf(kind, st[o])[SelectSeq(Listed, LAMBDA nm : all \/ (IF IsDef(o, nm) THEN (m \div 32) % 2 = 1 ELSE (m \div 16) % 2 = 1))[j]]]
                               ELSE "any"]]
TName(o) ==
  /\ Same
  /\ obs' = [a |-> "tname", arg |-> [o |-> o - 1], door |-> 0, slot |-> "", res |-> Silent,
             exp |-> [ret |-> "ok", p0 |-> ViewOf(kind, st[1]), p1 |-> ViewOf(kind, st[2]),
                      tname |-> IF kind = "ref" THEN "ref" ELSE "history", iname |-> "object",
                      idesc |-> IF kind = "ref" THEN "ref" ELSE "history", icode |-> 1]]

(* mpt_value_copy of a typed value into a buffer of max bytes *)
SizeOf(f) == CASE f \in {"b", "y"} -> 1 [] f \in {"n", "q"} -> 2 [] f \in {"i", "u", "f", "col"} -> 4 [] OTHER -> 8
VCopy(v, max, nosrc) ==
  /\ Same
  /\ obs' = [a |-> "vcopy", arg |-> [max |-> max, nosrc |-> nosrc, ents |-> <<[EntArg(v) EXCEPT !.c = IF v.f = "col" THEN <<1, 2, 3, 4>> ELSE v.c]>>],
             door |-> 0, slot |-> "", res |-> Silent,
             exp |-> IF SizeOf(v.f) > max THEN [ret |-> "refused", size |-> -1, kept |-> 1, tail |-> 1]
                     ELSE [ret |-> "ok", size |-> SizeOf(v.f), kept |-> 1, tail |-> 1]
                          @@ (IF nosrc = 1 THEN [bytes |-> [i \in 1..SizeOf(v.f) |-> 0]]
                              ELSE IF v.f = "col" THEN [bytes |-> <<1, 2, 3, 4>>] ELSE [x \in {} |-> 0])]

---------------------------------------------------------------------------
(* alphabet *)
Vals1 == {Num("i", 14), Num("d", 5), Str(<<114, 101, 100>>), Num("y", 8), Num("f", 3), Num("x", 200000), Num("i", -6), Num("n", -600), Num("q", 120000)}
         \cup (IF Lvl >= 2 THEN {Num("b", -4), Num("u", 262140), Num("t", 20), Str(<<>>), Num("d", -3), Num("l", 6)} ELSE {})
ArgLists == {<<>>} \cup {<<a>> : a \in Vals1}
            \cup {<<a, b>> : a \in {Num("i", 14), Num("d", 5), Str(<<114, 101, 100>>)}, b \in {Num("i", 2), Num("d", 1), Str(<<104, 105>>), Num("x", 8)}}
            \cup {<<Num("i", 14), Num("d", 5), Num("i", 6)>>, <<Str(<<97>>), Num("d", 5), Str(<<98, 98>>)>>, <<Num("x", 2), Num("f", 1), Num("y", 6)>>}
FmtOf(args) == [i \in 1..Len(args) |-> CodeOf(args[i].f)]
Fmts(args) == {FmtOf(args)} \cup (IF Len(args) <= 2 THEN {FmtOf(args) \o <<63>>, FmtOf(args) \o <<63, 105>>} ELSE {})
Words == {<<"v">>, <<"v", "a", "v">>, <<"v", "a", "v", "a", "v">>, <<"v", "a", "v", "a", "v", "a", "v", "a", "v">>,
          <<"a", "a", "v">>, <<"v", "a", "r", "v", "a", "v">>, <<"r", "v">>, <<"a", "a", "a", "a", "r", "v", "a", "v">>,
          <<"v", "r", "r", "a", "v", "r", "v">>}
         \cup (IF Lvl >= 2 THEN {<<"a", "r", "a", "v", "a", "v", "a", "v">>, <<"v", "a", "v", "r", "a", "a", "v", "r", "v">>,
                                 <<"r", "a", "r", "a", "v">>, <<"a", "v", "a", "v", "a", "v", "r", "v", "a", "v", "a", "v">>} ELSE {})
WordText(w) == w
DirectVals == IF kind = "ref" THEN {Num("i", 14), Num("d", 5), Str(<<104, 105>>), V("num", D(8), <<>>), V("txt", <<>>, <<120, 121>>), V("none", <<>>, <<>>)}
              ELSE {Num("y", 6), V("num", D(10), <<>>), V("num", D(600), <<>>), V("txt", <<>>, <<97, 98, 99>>), V("none", <<>>, <<>>)}

Op ==
  \/ \E nm \in Names : \E v \in DirectVals : \E o \in {1, 2} : DSet(o, nm, v)
  \/ \E nm \in Names : \E args \in ArgLists : \E fmt \in Fmts(args) : VSet("vset", 1, nm, fmt, args) \/ (Lvl >= 2 /\ VSet("vvset", 1, nm, fmt, args))
  \/ \E nm \in Names : VSet("vset", 1, nm, NullFmt, <<>>) \/ VSet("vvset", 1, nm, NullFmt, <<>>) \/ VSet("vvset", 1, nm, <<63>>, <<>>)
  \/ \E nm \in Names : \E args \in ArgLists : ISet(1, nm, args)
  \/ (kind = "ref" /\ \E args \in ArgLists : \E fmt \in Fmts(args) \cup {NullFmt} : \E w \in Words :
         (fmt = NullFmt => args = <<>>) /\ Walk(IF fmt = NullFmt THEN fmt ELSE fmt, IF fmt = NullFmt THEN <<>> ELSE args, w, w))
  \/ \E m \in {-1, 16, 32, 48} : \E mode \in {"foreach", "props", "print"} : List(1, m, mode)
  \/ TName(1)
  \/ (kind = "ref" /\ \E v \in {Num("i", 14), Num("y", 6), Num("n", 6), Num("d", 5), Num("f", 3), Num("x", 8), V("col", <<>>, <<>>)} :
         \E max \in {0, 1, 2, 3, 4, 7, 8, 16} : VCopy(v, max, 0) \/ (max = 16 /\ VCopy(v, max, 1)))

Init == /\ kind \in KindSet
        /\ st = <<Def, Def>> /\ ops = 0
        /\ obs = [a |-> "init", arg |-> [kind |-> kind], door |-> 0, slot |-> "", res |-> Silent,
                  exp |-> [ret |-> "ok", p0 |-> ViewOf(kind, Def), p1 |-> ViewOf(kind, Def)]]
Next == ops < MaxOps /\ ops' = ops + 1 /\ Op
Spec == Init /\ [][Next]_vars

---------------------------------------------------------------------------
TypeOK == kind \in {"ref", "hist"} /\ DOMAIN st[1] = DOMAIN Def /\ DOMAIN st[2] = DOMAIN Def
(* the design's walk sees what the position in the delivered list says (well-formed formats) *)
WalkSync == [][(obs'.a = "walk" /\ WellFormed(obs'.fmt) /\ obs'.fmt # <<>>) =>
                obs'.exp.seen = WalkPos(Delivered(obs'.fmt, obs'.args), 1, obs'.w, 1)]_vars
(* and, drained from the start, exactly the delivered list *)
DrainAll == [][(obs'.a = "walk" /\ WellFormed(obs'.fmt) /\ obs'.fmt # <<>>) =>
                Drain(VaOpen(obs'.fmt, obs'.args).m, 20) = Delivered(obs'.fmt, obs'.args)]_vars
(* a door changes the named slot only, to the delivered meaning or not at all; the other object never *)
DoorSound == [][obs'.door # 0 =>
                 /\ st'[3 - obs'.door] = st[3 - obs'.door]
                 /\ \A s \in DOMAIN Def : s # obs'.slot => st'[obs'.door][s] = st[obs'.door][s]
                 /\ obs'.slot # "" =>
                      \/ st'[obs'.door][obs'.slot] = st[obs'.door][obs'.slot] /\ obs'.res.ret # "ok"
                      \/ obs'.res.ret \in {"ok", "either"} /\ st'[obs'.door][obs'.slot] = obs'.res.den
                      \/ obs'.res.ret = "silent"]_vars
Reads == [][obs'.door = 0 => st' = st]_vars
=============================================================================
