---------------------------- MODULE Trace_BitMap ----------------------------
(* Trace validation for BitMap: recorded mpt_bitmap_* calls on maps of     *)
(* production sizes (0..300 bytes, arbitrary content) must be behaviours   *)
(* of the specification.  Executions are concatenated, each starts with    *)
(* "bminit".                                                               *)
EXTENDS BitMap, Json, IOUtils, TLC
VARIABLE l
TraceLog == ndJsonDeserialize(IOEnv.TRACE)

\* a position at the limits of long is written symbolically by the check
Pos(ev) == ev.arg.pos

Step(ev) ==
  IF "obs" \notin DOMAIN ev THEN FALSE ELSE
  CASE ev.a = "init"    -> UNCHANGED <<bits, mem>> /\ obs' = [a |-> "init", arg |-> ev.arg, exp |-> [ret |-> "any", mem |-> mem]]
    [] ev.a = "bminit"  -> BmInit(ev.arg.data)
    [] ev.a = "bmset"   -> BmSet(Pos(ev))
    [] ev.a = "bmunset" -> BmUnset(Pos(ev))
    [] ev.a = "bmget"   -> BmGet(Pos(ev))
    [] OTHER            -> FALSE

Matches(ev) ==
  /\ "obs" \in DOMAIN ev
  /\ \/ obs'.exp.ret = "any"
     \/ obs'.exp.ret = ev.obs.ret /\ obs'.exp.mem = ev.obs.mem

TraceInit == l = 1 /\ Init
TraceNext ==
  /\ l <= Len(TraceLog)
  /\ l' = l + 1
  /\ LET ev == TraceLog[l] IN Step(ev) /\ Matches(ev)
TraceSpec == TraceInit /\ [][TraceNext]_<<vars, l>>

TraceAccepted ==
  LET n == TLCGet("stats").diameter - 1 IN
  /\ PrintT(<<"MATCHED", n>>)
  /\ n = Len(TraceLog)
=============================================================================
