SPECIFICATION Spec
CONSTANTS MaxSecs = 3 MaxOpts = 1 MaxMem = 2 MaxTop = 3 Mode = "mc"
VIEW View
INVARIANTS TypeOK Refines BindPure Contained BindsNamed CopiesEqual
PROPERTIES OptFrame Reported OpenFrame
CHECK_DEADLOCK FALSE
