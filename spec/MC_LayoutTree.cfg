SPECIFICATION SpecMC
CONSTANTS MaxSecs = 3 MaxOpts = 1 MaxMem = 2 MaxTop = 2 MaxDocs = 1 MaxSteps = 0 Mode = "mc"
VIEW View
INVARIANTS TypeOK Refines Contained BindsNamed CopiesEqual
PROPERTIES OptFrame Reported OpenFrame
CHECK_DEADLOCK FALSE
