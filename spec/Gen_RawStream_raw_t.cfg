SPECIFICATION GenSpec
CONSTANTS MaxOps = 6 RawOps = 6 TouchMem = 1
  Shapes <- RawShapesT
  Datas <- DatasRawT
  Ks <- KsQ
  OpenArgs = {}
  SeekArgs = {}
  Parts = {1}
  Early = {0}
  Ahead = {0}
VIEW Skel
ACTION_CONSTRAINT Emit
CHECK_DEADLOCK FALSE
