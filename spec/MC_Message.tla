----------------------------- MODULE MC_Message -----------------------------
(* Exhaustive configuration of Message: every string over Alphabet up to   *)
(* MaxLen x every cut into <= MaxFrag fragments (empty ones included) x    *)
(* every call with every argument of the bounded sets.                     *)
EXTENDS Message
View == <<flat, cur, cont, mode, ebase>>      \* obs/des are observations, not state
=============================================================================
