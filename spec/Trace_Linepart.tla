--------------------------- MODULE Trace_Linepart ---------------------------
(* Trace validation: recorded calls of the real line part code (arguments + *)
(* what the code answered) must be a behaviour of Linepart in which every   *)
(* reported part satisfies the Tier 1 meaning (PartOK) with respect to the  *)
(* data.  The recorded answer selects the part; nothing but the property's  *)
(* clauses is demanded of it.  Executions are concatenated; each starts     *)
(* with an "init" event.                                                    *)
EXTENDS Linepart, Json, IOUtils
VARIABLE l
TraceLog == ndJsonDeserialize(IOEnv.TRACE)

ResetTo(ev) ==
  /\ data' = ev.arg.data /\ data2' = (IF "data2" \in DOMAIN ev.arg THEN ev.arg.data2 ELSE <<>>) /\ lo' = ev.arg.lo /\ hi' = ev.arg.hi /\ ranged' = (ev.arg.ranged = 1)
  /\ pos' = 0 /\ parts' = <<>>
  /\ ev.arg.lim = Limit
  /\ obs' = [a |-> "init", arg |-> [x |-> 0], exp |-> [x |-> 0]]

RECURSIVE Build(_, _, _)
Build(L, i, s) ==   \* recorded list of <<raw, usr, cut, trim>> -> parts with start and offered count
  IF i > Len(L) THEN <<>>
  ELSE <<[s |-> s, n |-> Len(data) - s, raw |-> L[i][1], usr |-> L[i][2], cut |-> L[i][3], trim |-> L[i][4]]>>
       \o Build(L, i + 1, s + L[i][1])

StartsInside(ps) == \A i \in 1..Len(ps) : ps[i].s <= Len(data) /\ ps[i].raw >= 0 /\ ps[i].usr >= 0

Step(ev) ==
  CASE ev.a = "init" -> ResetTo(ev)
    [] ev.a = "part" ->
         /\ NextPart(ev.arg.n, ev.obs)
         /\ PartOK(parts'[Len(parts')])
    [] ev.a = "join" /\ Len(parts) < 2 ->      \* nothing to join: the driver made no call
         /\ ev.obs.ret = "none"
         /\ UNCHANGED <<data, data2, lo, hi, ranged, pos, parts>>
         /\ obs' = [a |-> "join", arg |-> [x |-> 0], exp |-> [ret |-> "none"]]
    [] ev.a = "join" /\ Len(parts) >= 2 ->
         /\ Len(parts) >= 2
         /\ LET to == parts[Len(parts) - 1]  post == parts[Len(parts)]
                j  == [s |-> to.s, n |-> to.raw + post.n, raw |-> ev.obs.to.raw, usr |-> ev.obs.to.usr,
                       cut |-> ev.obs.to.cut, trim |-> ev.obs.to.trim]
            IN /\ JoinLast(ev.obs.ret, j)
               /\ ev.obs.ret = "ok" => /\ j.raw = to.raw + post.raw /\ j.usr = to.usr + post.usr
                                       /\ PartOK(j)
               /\ ev.obs.ret # "ok" => ev.obs.ret = "refused" /\ Proj(j) = Proj(to)
    [] ev.a = "encode" ->
         /\ "code" \in DOMAIN ev.obs
         /\ Encode(ev.arg.a, ev.arg.b, ev.obs.ret, ev.obs.code)
         /\ ev.obs.ret \in {"ok", "refused"}
         /\ ev.arg.a >= 0 /\ ev.arg.a <= ev.arg.b =>
              ev.obs.ret = "ok" /\ CodeNear(ev.obs.code, ev.arg.a, ev.arg.b)
    [] ev.a = "apply" ->
         LET ps == Build(ev.obs.parts, 1, 0) IN
         /\ StartsInside(ps)
         /\ Apply(ev.arg.mode, ps)
         /\ pos' = Len(data)
         /\ \A i \in 1..Len(ps) : PartOK(ps[i])
    [] ev.a = "apply2" ->
         LET ps == Build(ev.obs.parts, 1, 0)
             qs == Build(ev.obs.pparts, 1, 0)      \* the polyline's own parts
         IN
         /\ Len(data2) = Len(data)
         /\ StartsInside(ps) /\ StartsInside(qs)
         /\ Apply2(ev.arg.mode, ps, qs, ev.obs.np)
         /\ pos' = Len(data) /\ SumRaw(qs) = Len(data)
         /\ LET bad == {i \in 1..Len(ps) : ~PartOK2(ps[i])} IN     \* diagnostics: the first part that is not acceptable
            bad # {} => PrintT(<<"BADPART", l, CHOOSE i \in bad : \A j \in bad : i <= j>>)
         /\ \A i \in 1..Len(ps) : PartOK2(ps[i])
         /\ \A i \in 1..Len(qs) : PartOK2(qs[i])
         /\ Len(ev.obs.np) <= Len(qs)
         /\ \A i \in 1..Len(qs) : qs[i].usr > 0 => i <= Len(ev.obs.np)
         /\ \A i \in 1..Len(ev.obs.np) : ev.obs.np[i] = NDrawn(qs[i])
    [] ev.a = "poly" ->
         LET ps == Build(ev.obs.parts, 1, 0) IN
         /\ StartsInside(ps)
         /\ Poly(ev.obs.ret, ps, ev.obs.pts, ev.obs.ends)
         /\ pos' = Len(data)
         /\ \A i \in 1..Len(ps) : PartOK(ps[i])
         /\ ev.obs.full = 1 =>
              /\ Len(ev.obs.pts) = Len(ev.obs.ends) /\ Len(ev.obs.pts) <= Len(ps)
              /\ \A i \in 1..Len(ps) : ps[i].usr > 0 => i <= Len(ev.obs.pts)
              /\ \A i \in 1..Len(ev.obs.pts) :
                   /\ ev.obs.pts[i] = DrawnVals(ps[i])
                   /\ EndsOK(ps[i], ev.obs.ends[i])
    [] OTHER -> FALSE

TraceInit ==
  /\ l = 1 /\ data = <<>> /\ data2 = <<>> /\ lo = 0 /\ hi = 0 /\ ranged = TRUE /\ pos = 0 /\ parts = <<>>
  /\ obs = [a |-> "none", arg |-> [x |-> 0], exp |-> [x |-> 0]]

TraceNext ==
  /\ l <= Len(TraceLog)
  /\ l' = l + 1
  /\ Step(TraceLog[l])

TraceSpec == TraceInit /\ [][TraceNext]_<<vars, l>>

TraceAccepted ==
  LET n == TLCGet("stats").diameter - 1 IN
  /\ PrintT(<<"MATCHED", n>>)
  /\ n = Len(TraceLog)
=============================================================================
