SPECIFICATION MTraceSpec
CONSTANTS NH = 4 Gran = 128 Hdr = 64 PChunk = 64 MaxLen = 100000 MaxArg = 100000 Prune = FALSE Api = "c"
          Page = 4096 MTypes = {"raw", "c", "n"} Meta = {4}
          Null <- MNull NewRec <- MNewRec Det <- MDet
INVARIANTS TypeOK MTypeOK AliasOK Refines NoTouch
INVARIANT DebugStop
POSTCONDITION TraceAccepted
CHECK_DEADLOCK FALSE
