--------------------------- MODULE Trace_NodeTree ---------------------------
(* Trace validation: a recorded execution of the real node code (one event *)
(* per public call: arguments + observation) must be a behaviour of        *)
(* NodeTree.  Executions are concatenated; each starts with "init".        *)
(* The caller's obligations (link only unlinked nodes, never a node below  *)
(* itself, clone only when the handle table has room ...) are evaluated by *)
(* the driver before each call; a call it did not make is recorded as      *)
(* "skipped" and is accepted exactly when the specification's own guard of *)
(* that call is false -- and a call it made only when the guard is true.   *)
EXTENDS NodeTree, Json, IOUtils
VARIABLE l
TraceLog == ndJsonDeserialize(IOEnv.TRACE)
NoKinds == {}
NoPos == {}
NoKeys == {}

Reset ==
  /\ live' = {} /\ hp' = [nx |-> Zero, pv |-> Zero, pa |-> Zero, ch |-> Zero]
  /\ name' = [n \in Ids |-> ""] /\ val' = Zero
  /\ fo' = [kids |-> [n \in Ids |-> <<>>], tops |-> {}]
  /\ Ans("init", [n |-> MaxNodes], "ok", <<>>, "ok")

\* the specification's guard of the call
Guard(a, g) ==
  CASE a = "new"      -> FreeIds # {}
    [] a \in {"ginsert", "ninsert"} -> CanAttach(g.n, g.p)
    [] a \in {"gadd", "nadd"}       -> CanAttach(g.n, g.first)
    [] a \in {"after", "before"}    -> CanBeside(g.p, g.n)
    [] a \in {"unlink", "destroy", "clear", "relink", "pos", "locate", "next", "traverse"} -> g.n \in live
    [] a \in {"clonenode", "clonetree", "clonelist"} -> CanClone(a, g.n)
    [] a = "clonefail" -> g.kind \in CloneKinds /\ CanClone(g.kind, g.n)
    [] a = "move"     -> CanMove(g.s, g.d)
    [] a = "swap"     -> CanSwap(g.a, g.b)
    [] a = "find"     -> g.p \in live
    [] OTHER          -> FALSE

Call(a, g) ==
  CASE a = "new"       -> New(<<g.name, g.val>>)
    [] a = "ginsert"   -> GInsert(g.p, g.pos, g.n)
    [] a = "ninsert"   -> NInsert(g.p, g.pos, g.n)
    [] a = "gadd"      -> GAdd(g.first, g.pos, g.n)
    [] a = "nadd"      -> NAdd(g.first, g.pos, g.n)
    [] a = "after"     -> GAfter(g.p, g.n)
    [] a = "before"    -> GBefore(g.p, g.n)
    [] a = "unlink"    -> NUnlink(g.n)
    [] a = "destroy"   -> Destroy(g.n)
    [] a = "clear"     -> Clear(g.n)
    [] a = "relink"    -> Relink(g.n)
    [] a = "clonenode" -> CloneNode(g.n)
    [] a = "clonetree" -> CloneTree(g.n)
    [] a = "clonelist" -> CloneList(g.n)
    [] a = "move"      -> Move(g.s, g.d)
    [] a = "swap"      -> Swap(g.a, g.b)
    [] a = "pos"       -> PosQ(g.n, g.pos)
    [] a = "locate"    -> LocQ(g.n, g.pos, g.key)
    [] a = "find"      -> FindQ(g.p, g.key, g.pos)
    [] a = "next"      -> NextQ(g.n, g.key)
    [] a = "traverse"  -> TravQ(g.n, g.ord)
    [] OTHER           -> FALSE

Step(ev) ==
  IF "obs" \notin DOMAIN ev THEN FALSE      \* the call crashed or hung: no observation
  ELSE IF ev.a = "init" THEN Reset
  ELSE IF ev.obs.skip = 1
  THEN /\ ~Guard(ev.a, ev.arg)
       /\ UNCHANGED <<live, hp, name, val, fo>>
       /\ Ans("skipped", ev.arg, "skipped", <<>>, "skipped")
  \* a clone with an armed allocation failure: the recorded fact whether the
  \* failure was met selects the branch (failed clone / ordinary clone)
  ELSE IF ev.a = "clonefail"
  THEN IF ev.obs.fired = 1 THEN CloneFail(ev.arg.kind, ev.arg.n, ev.arg.failat, ev.arg.failmeta) /\ ev.obs.grow = 0
       ELSE Call(ev.arg.kind, ev.arg)
  ELSE Call(ev.a, ev.arg)

Matches(ev) ==
  /\ "obs" \in DOMAIN ev
  /\ obs'.exp.ret = ev.obs.ret
  /\ obs'.t1 = ev.obs.ret
  /\ obs'.exp.freed = ev.obs.freed
  /\ obs'.exp.links = ev.obs.links
  /\ obs'.exp.names = ev.obs.names
  /\ obs'.exp.vals = ev.obs.vals
  /\ obs'.exp.metas = ev.obs.metas
  /\ ev.dbg.badfree = 0 /\ ev.dbg.badunref = 0

TraceInit ==
  /\ l = 1 /\ Init

TraceNext ==
  /\ l <= Len(TraceLog)
  /\ l' = l + 1
  /\ LET ev == TraceLog[l] IN
       Step(ev) /\ Matches(ev)

TraceSpec == TraceInit /\ [][TraceNext]_<<vars, l>>

TraceAccepted ==
  LET n == TLCGet("stats").diameter - 1 IN
  /\ PrintT(<<"MATCHED", n>>)
  /\ n = Len(TraceLog)
=============================================================================
