SPECIFICATION Spec
CONSTANTS Widths = {2} MaxH = 2 MaxOwn = 2 CtrMax = 3
  LimbDom = {0, 1, 127, 128, 255, 32768, 65535} IdWidths = {0, 1, 2, 3, 4, 5, 6, 7, 8, 9}
  StreamWidths = {2}
  MsgDom <- CMsgDom TextDom <- CTextDom
CONSTRAINT Bound
VIEW View
INVARIANTS TypeOK Refines
PROPERTIES SendsRight Final Accepted RefusedAfter RejectKeeps DefaultOnRelease ArmFrame IdTiers StreamOnce
CHECK_DEADLOCK FALSE
