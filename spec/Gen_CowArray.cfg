SPECIFICATION GenSpec
CONSTANTS NH = 2 Gran = 4 Hdr = 64 PChunk = 64 MaxLen = 2 MaxArg = 2 Prune = TRUE MaxDepth = 7
CONSTRAINT Bound
VIEW Skel
ACTION_CONSTRAINT Emit
CHECK_DEADLOCK FALSE
