SPECIFICATION GenSpec
CONSTANTS NH = 2 Gran = 4 Hdr = 64 PChunk = 64 MaxLen = 2 MaxArg = 2 Prune = TRUE Api = "c" MaxDepth = 7
CONSTRAINT Bound
VIEW Skel
INVARIANTS TypeOK AliasOK Refines NoTouch
ACTION_CONSTRAINT Emit
CHECK_DEADLOCK FALSE
