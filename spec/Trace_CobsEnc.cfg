SPECIFICATION TraceSpec
CONSTANTS
  Kinds = {}
  Alpha = {}
  MaxMsg = 0
  Caps = {}
  Grows = {}
  Pres = {}
POSTCONDITION TraceAccepted
CHECK_DEADLOCK FALSE
