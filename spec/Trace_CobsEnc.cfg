SPECIFICATION TraceSpec
CONSTANTS
  Kinds = {}
  Alpha = {}
  MaxMsg = 0
  Caps = {}
  Grows = {}
  Pres = {}
INVARIANT AtEnd
POSTCONDITION TraceAccepted
CHECK_DEADLOCK FALSE
