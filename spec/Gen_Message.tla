----------------------------- MODULE Gen_Message -----------------------------
(* Behaviour export: one JSON line per generated transition (case):        *)
(* the message (string, cut), the calls leading to the cursor state, the   *)
(* call and the answer the specification expects.                          *)
EXTENDS Message, Json, IOUtils
VARIABLE hist
GenInit == Init /\ hist = <<obs>>
GenNext == Next /\ hist' = Append(hist, obs')
GenSpec == GenInit /\ [][GenNext]_<<vars, hist>>
View == <<flat, cur, cont, mode, ebase>>
\* the export can be split over several TLC processes by message content
RECURSIVE Hash(_)
Hash(s) == IF s = <<>> THEN 7 ELSE (Hash(Tail(s)) * 31 + s[1] + 1) % 1009
InShard == obs'.a \in {"init", "qget"} =>
             Hash(obs'.arg.data) % atoi(IOEnv.NSHARD) = atoi(IOEnv.SHARD)
Emit == InShard /\ PrintT(<<"BEHAV", ToJson(hist')>>)
=============================================================================
