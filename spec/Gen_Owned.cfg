SPECIFICATION GenSpec
CONSTANTS Kinds = {"loader", "outchain", "cxxmeta"}
  TextLens = {0}
  NH = 2 NObj = 5 Max = 20 MaxExtra = 1 MaxTries = 1 AsFound = FALSE
CONSTRAINT CapQ
VIEW Skel
ACTION_CONSTRAINT Emit
CHECK_DEADLOCK FALSE
