SPECIFICATION MCSpec
CONSTANTS
  LBits = 4
  TypeTab <- ScaledQuick
  GraphLo = 1 GraphHi = 2 MaxBits = 6
  Apis = {"data", "value"}
  TextApis = {"cint", "number", "string"}
  TextDsts = {"b", "y", "x", "t"}
  Bases = {0, 10, 16}
  Alphabet = {32, 45, 43, 48, 49, 57, 120, 102, 122}
  TextLen = 3
  ConverseDsts = {"f"}
  ConverseSrcs = {"c", "b", "y", "n", "q", "i", "u", "x", "t", "f", "d"}
INVARIANTS TypeOK DesignSound AllowedSound NeighbourExact DesignUseful
CHECK_DEADLOCK FALSE
