SPECIFICATION TraceSpec
CONSTANTS MaxLen = 100000
INVARIANT TypeOK
POSTCONDITION TraceAccepted
CHECK_DEADLOCK FALSE
