SPECIFICATION GenSpec
CONSTANTS MaxCode = 5 NMsg = 2 PollMem = 1
  MsgSet <- MsgsT
  Shapes <- ShapesT
  Ks <- KsT
VIEW Skel
ACTION_CONSTRAINT Emit
CHECK_DEADLOCK FALSE
