SPECIFICATION GenSpec
CONSTANTS NH = 3 Gran = 4 Hdr = 64 PChunk = 64 MaxLen = 2 MaxArg = 2 Prune = TRUE Api = "c" MaxDepth = 5
          Page = 2 MTypes = {"raw", "c", "n"} Meta = {3} Need = "meta"
          Null <- MNull NewRec <- MNewRec Det <- MDet
CONSTRAINT Bound
VIEW Skel
INVARIANTS TypeOK MTypeOK AliasOK Refines NoTouch
ACTION_CONSTRAINT Emit
CHECK_DEADLOCK FALSE
