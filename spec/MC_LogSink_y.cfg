SPECIFICATION Spec
CONSTANTS
  Configs <- CfgsTty
  Heads <- HeadsTty
  Levels = {}
  Calls = {}
  TextBytes = {1, 2, 3, 97}
  MaxText = 3
  Ops = {"abort"}
  LogMax = 256
  AsFound = {}
VIEW MCView
CHECK_DEADLOCK FALSE
INVARIANTS TypeOK IdleClean Engaged
PROPERTIES DesignAgrees
