------------------------------ MODULE CobsEnc ------------------------------
(***************************************************************************)
(* Resumable frame encoders of mptcore/convert (property C01).             *)
(*                                                                         *)
(* Tier 1 (meaning): framing K, message msg, number of bytes accepted so   *)
(*   far (acc).  The encoder may accept any non-empty prefix of what it is *)
(*   offered or ask for more room; a finished frame must denote msg under  *)
(*   the independent reference decoder of Cobs.tla and contain no zero     *)
(*   except its delimiter; the library's own decoder must agree.           *)
(* Tier 2 (design): out/run/code/cap mirror the output array and           *)
(*   encode_state{done = Len(out), scratch = code}: closed blocks are      *)
(*   "done", the open block (code byte + run) is scratch.  Push mirrors    *)
(*   the loop of encode_cobs.c, including the hand-back of one byte when   *)
(*   a block reaches the limit with no room for the next code byte, Term   *)
(*   the termination of encode_cobs.c / encode_cobs_r.c (tail inline),     *)
(*   the pair rule the macro of encode_cobs_zpe.c, PushS/TermS the single- *)
(*   delimiter path of encode_string.c.                                    *)
(* obs = [a, arg, exp]: exp is the design's prediction; verdicts on the    *)
(* real code are taken by the Tier-1 relations PushOK / TermOK (see        *)
(* Trace_CobsEnc), the design prediction only decides where they agree.    *)
(***************************************************************************)
EXTENDS Cobs, TLC

CONSTANTS Kinds,    \* set of framing records explored
          Alpha,    \* message alphabet
          MaxMsg,   \* longest message
          Caps,     \* initial free capacities (beyond the prefix)
          Grows,    \* grow steps
          Pres      \* lengths of finished output already in the buffer

VARIABLES K, msg, acc,             \* Tier 1
          out, run, code, cap,     \* Tier 2
          pre, st,                 \* prefix length; "run" | "done" | "dead"
          obs
vars == <<K, msg, acc, out, run, code, cap, pre, st, obs>>

Big == 100000
Min(a, b) == IF a < b THEN a ELSE b
Rest == DropN(msg, acc)

---------------------------------------------------------------------------
(* Tier 1: what the property allows a call to answer.                      *)

\* offer of data d (non-empty) answered by (ret, n)
PushOK(KK, d, ret, n) ==
  \/ ret = "ok" /\ n \in 1..Len(d) /\ (KK.cmd => NoZero(TakeN(d, n)))
  \/ ret \in {"nobuf", "ok"} /\ n = 0      \* "nothing accepted" is the same refusal as MissingBuffer
  \/ ret = "err" /\ n = 0 /\ KK.cmd /\ HasZero(d)

\* termination answered by ret; frame = the finished bytes, decs = what the
\* library's decoder of the same framing delivered for them (list of messages)
TermOK(KK, m, ret, frame, decs) ==
  \/ ret = "nobuf"
  \/ /\ ret = "ok"
     /\ WellFormed(frame)
     /\ Denotes(KK, frame, m)
     /\ decs = <<RefDec(KK, frame).msg>>

\* several messages finished one after the other into the same output (a ring the
\* reader drains from the front): the bytes the reader got are exactly the frames
\* of the finished messages, in order; decs = the library decoder's reading of them
RECURSIVE StreamOK(_, _, _, _)
StreamOK(KK, sent, wire, decs) ==
  IF Len(sent) = 0 THEN Len(wire) = 0 /\ Len(decs) = 0
  ELSE /\ HasZero(wire) /\ Len(decs) > 0
       /\ LET f == FirstFrame(wire) IN
          /\ Denotes(KK, f, sent[1])
          /\ decs[1] = RefDec(KK, f).msg
          /\ StreamOK(KK, DropN(sent, 1), AfterFrame(wire), DropN(decs, 1))

---------------------------------------------------------------------------
(* Tier 2: the encoder loop.  closed = finished bytes, r = literal bytes   *)
(* of the open block (its code is Len(r)+1), left = free bytes behind the  *)
(* open block, d = offered data, i = next index.  Result [out,run,left,n]. *)
RECURSIVE Loop(_, _, _, _, _, _)
Loop(KK, closed, r, left, d, i) ==
  IF i > Len(d) THEN [out |-> closed, run |-> r, left |-> left, n |-> Len(d)]
  ELSE LET b == d[i]  c == Len(r) + 1 IN
    IF b = 0 THEN
      LET pair == KK.zpe /\ i < Len(d) /\ c > 1 /\ c < KK.zlim /\ d[i + 1] = 0
          cl2  == closed \o <<IF pair THEN PairCode(KK, c) ELSE c>> \o r
          i2   == IF pair THEN i + 2 ELSE i + 1
      IN IF left = 1 THEN [out |-> cl2, run |-> <<>>, left |-> 0, n |-> i2 - 1]
         ELSE Loop(KK, cl2, <<>>, left - 1, d, i2)
    ELSE IF c + 1 = KK.max THEN
      IF left = 1      \* no room for the continuation code: hand the byte back
      THEN [out |-> closed, run |-> r, left |-> 1, n |-> i - 1]
      ELSE LET cl2 == closed \o <<KK.max>> \o Append(r, b) IN
           IF left = 2 THEN [out |-> cl2, run |-> <<>>, left |-> 0, n |-> i]
           ELSE Loop(KK, cl2, <<>>, left - 2, d, i + 1)
    ELSE IF left = 1 THEN [out |-> closed, run |-> Append(r, b), left |-> 0, n |-> i]
         ELSE Loop(KK, closed, Append(r, b), left - 1, d, i + 1)

\* free bytes available to the loop on entry (0: ask for room)
EntryLeft(o, c, cp) ==
  IF c > 0 THEN cp - Len(o) - c
  ELSE IF cp - Len(o) <= 1 THEN 0 ELSE cp - Len(o) - 1

\* terminated output of (o, r, c): [ok, out]
TermOut(KK, o, r, c, cp) ==
  IF c = 0 THEN
       IF cp - Len(o) < 2 THEN [ok |-> FALSE, out |-> o]
       ELSE [ok |-> TRUE, out |-> o \o <<1, 0>>]
  ELSE LET e == IF c > 1 THEN r[Len(r)] ELSE 0 IN
       IF KK.inl /\ c > 1 /\ c < e /\ (KK.zpe => e <= KK.max)
       THEN [ok |-> TRUE, out |-> o \o <<e>> \o TakeN(r, Len(r) - 1) \o <<0>>]
       ELSE IF Len(o) + c + 1 > cp THEN [ok |-> FALSE, out |-> o]
       ELSE [ok |-> TRUE, out |-> o \o <<c>> \o r \o <<0>>]

\* frame the design reaches when everything left is offered at once with
\* unlimited room and the message is terminated (the driver's "fin")
FinOut(KK, o, r, c, rest) ==
  IF KK.cmd THEN o \o rest \o <<0>>
  ELSE IF Len(rest) = 0 THEN TermOut(KK, o, r, c, Big).out
  ELSE LET l == Loop(KK, o, r, Big, rest, 1) IN
       TermOut(KK, l.out, l.run, Len(l.run) + 1, Big).out

---------------------------------------------------------------------------
Answer(a, arg, exp) == obs' = [a |-> a, arg |-> arg, exp |-> exp]

Prefix(p) == [i \in 1..p |-> IF i = p THEN 0 ELSE 17]

Init ==
  /\ K \in Kinds
  /\ msg \in SeqsUpTo(Alpha, MaxMsg)
  /\ (~K.cmd => TRUE)
  /\ pre \in Pres
  /\ cap \in {pre + c : c \in Caps}
  /\ out = Prefix(pre) /\ run = <<>> /\ code = 0 /\ acc = 0 /\ st = "run"
  /\ obs = [a |-> "einit",
            arg |-> [kind |-> K.name, m |-> K.max, path |-> "direct", cap |-> cap, pre |-> pre, msg |-> msg],
            exp |-> [ret |-> "ok"]]

\* COBS family: offer the next k bytes
PushC(k) ==
  LET d    == SubSeq(msg, acc + 1, acc + k)
      left == EntryLeft(out, code, cap)
      l    == Loop(K, out, run, left, d, 1)
  IN IF left = 0 \/ l.n = 0
     THEN /\ UNCHANGED <<K, msg, acc, out, run, code, cap, pre, st>>
          /\ Answer("push", [k |-> k], [ret |-> "nobuf", n |-> 0])
     ELSE /\ out' = l.out /\ run' = l.run /\ code' = Len(l.run) + 1
          /\ acc' = acc + l.n
          /\ UNCHANGED <<K, msg, cap, pre, st>>
          /\ Answer("push", [k |-> k], [ret |-> "ok", n |-> l.n])

\* command text: copy what fits unless it holds the delimiter
PushS(k) ==
  LET d == SubSeq(msg, acc + 1, acc + k)
      n == Min(k, cap - Len(out))
  IN IF n = 0
     THEN /\ UNCHANGED <<K, msg, acc, out, run, code, cap, pre, st>>
          /\ Answer("push", [k |-> k], [ret |-> "nobuf", n |-> 0])
     ELSE IF HasZero(TakeN(d, n))
     THEN /\ st' = "dead"
          /\ UNCHANGED <<K, msg, acc, out, run, code, cap, pre>>
          /\ Answer("push", [k |-> k], [ret |-> "err", n |-> 0])
     ELSE /\ out' = out \o TakeN(d, n) /\ acc' = acc + n
          /\ UNCHANGED <<K, msg, run, code, cap, pre, st>>
          /\ Answer("push", [k |-> k], [ret |-> "ok", n |-> n])

Push(k) == st = "run" /\ k \in 1..(Len(msg) - acc) /\ IF K.cmd THEN PushS(k) ELSE PushC(k)

Grow(g) ==
  /\ st = "run"
  /\ cap' = cap + g
  /\ UNCHANGED <<K, msg, acc, out, run, code, pre, st>>
  /\ Answer("grow", [n |-> g], [ret |-> "ok"])

Term ==
  /\ st = "run" /\ acc = Len(msg)
  /\ LET t == IF K.cmd
              THEN (IF cap - Len(out) = 0 THEN [ok |-> FALSE, out |-> out]
                    ELSE [ok |-> TRUE, out |-> Append(out, 0)])
              ELSE TermOut(K, out, run, code, cap)
     IN IF ~t.ok
        THEN /\ UNCHANGED <<K, msg, acc, out, run, code, cap, pre, st>>
             /\ Answer("term", [x |-> 0], [ret |-> "nobuf"])
        ELSE /\ out' = t.out /\ run' = <<>> /\ code' = 0 /\ st' = "done"
             /\ UNCHANGED <<K, msg, acc, cap, pre>>
             /\ LET f == DropN(t.out, pre) IN
                Answer("term", [x |-> 0],
                       [ret |-> "ok", frame |-> f, decs |-> <<RefDec(K, f).msg>>])

Next == (\E k \in 1..MaxMsg : Push(k)) \/ (\E g \in Grows : Grow(g)) \/ Term
Spec == Init /\ [][Next]_vars

---------------------------------------------------------------------------
(* Invariants: the design meets Tier 1 for every schedule in the bound.    *)
TypeOK ==
  /\ acc \in 0..Len(msg)
  /\ Len(out) + code <= cap
  /\ Len(run) = (IF code = 0 THEN 0 ELSE code - 1)
  /\ (~K.cmd => code < K.max)
  /\ st \in {"run", "done", "dead"}

\* every answer of the design is one the property allows
AnswerAllowed ==
  /\ obs.a = "push" =>
       \* the offer was made in the previous state: recover it from acc and n
       LET n == obs.exp.n
           d == SubSeq(msg, acc - n + 1, acc - n + obs.arg.k)
       IN PushOK(K, d, obs.exp.ret, n)
  /\ (obs.a = "term" /\ obs.exp.ret = "ok") =>
       TermOK(K, msg, "ok", obs.exp.frame, obs.exp.decs)

\* what has been written so far denotes exactly the accepted bytes
PartialDenotes ==
  (st = "run" /\ ~K.cmd) =>
    LET body == DropN(out, pre) \o (IF code = 0 THEN (IF Len(out) = pre THEN <<1>> ELSE <<>>) ELSE <<code>> \o run)
        KN   == [K EXCEPT !.inl = FALSE]
    IN /\ NoZero(body)
       /\ RefBody(KN, body) = [st |-> "ok", msg |-> TakeN(msg, acc)]
PartialText ==
  (st = "run" /\ K.cmd) => (DropN(out, pre) = TakeN(msg, acc) /\ NoZero(TakeN(msg, acc)))

\* a finished frame denotes the message, has a single delimiter
Final ==
  st = "done" => /\ acc = Len(msg)
                 /\ WellFormed(DropN(out, pre))
                 /\ Denotes(K, DropN(out, pre), msg)
                 /\ TakeN(out, pre) = Prefix(pre)

\* a message the framing does not admit is never finished
Refused == (st = "done") => Admits(K, msg)

\* completing from any reachable state reaches a frame denoting the message
FinDenotes ==
  (st = "run" /\ Admits(K, msg)) =>
     LET f == DropN(FinOut(K, out, run, code, Rest), pre) IN
     WellFormed(f) /\ Denotes(K, f, msg)

\* the reference encoder and decoder agree (sanity of the oracle itself)
RefRoundTrip == Admits(K, msg) => Denotes(K, RefEnc(K, msg), msg)
=============================================================================
