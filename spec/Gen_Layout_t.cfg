SPECIFICATION GenSpec
CONSTANTS KindSet = {"axis", "line", "text", "graph", "world"} MaxOps = 3
VIEW Skel3
ACTION_CONSTRAINT Emit
CHECK_DEADLOCK FALSE
