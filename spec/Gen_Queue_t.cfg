SPECIFICATION GenSpec
CONSTANTS MaxCap = 7 MaxLen = 8 Word = 8
CONSTRAINT Bound
VIEW Skel
ACTION_CONSTRAINT Emit
CHECK_DEADLOCK FALSE
