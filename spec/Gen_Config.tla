----------------------------- MODULE Gen_Config -----------------------------
(* Behaviour export for Config: one JSON line per generated transition of  *)
(* the store (GenSpecC) or of the path object (GenSpecP): the calls leading *)
(* to the source state, then the transition with its expected observation. *)
EXTENDS Config, Json
VARIABLE hist
A == <<97>>
B == <<98>>
AB == <<97, 98>>
E == <<>>
NamesQ == <<A, B, E>>
Names2 == <<A, B>>
NamesAE == <<A, E>>
NamesT == <<A, B, AB, E>>
ValsQ  == {<<120>>, <<>>}
ValsT  == {<<120>>, <<121, 121>>, <<>>}
NoBase == <<>>
BaseA  == <<A>>
BaseAB == <<A, B>>
BaseE  == <<E>>
Alpha == {97, 46, 61}
StrsQ == UNION {[1..n -> Alpha] : n \in 0..3}
StrsT == UNION {[1..n -> Alpha] : n \in 0..4}
SepsQ == {46}
SepsT == {46, 61}
AsgsQ == {0, 61}
ElemsQ == {<<>>, <<97>>, <<98, 97>>}
NoStrs == {}
Ends0 == {0}
EndsQ == {0, 61}
Call(o) == [a |-> o.a, arg |-> o.arg]
GenInit == Init /\ hist = <<Call(obs)>>
GenSpecC == GenInit /\ [][NextC /\ hist' = Append(hist, Call(obs'))]_<<vars, hist>>
GenSpecP == GenInit /\ [][NextP /\ hist' = Append(hist, Call(obs'))]_<<vars, hist>>
Bound  == Count(st) <= MaxSlots
BoundP  == Len(pel) <= 3 /\ Len(po.buf) <= 6
BoundPT == Len(pel) <= 4 /\ Len(po.buf) <= 8
ViewC  == <<tree, st>>
ViewP  == <<pel, po>>
Emit   == PrintT(<<"BEHAV", ToJson(Append(hist, obs'))>>)
=============================================================================
