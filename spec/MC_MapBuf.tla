----------------------------- MODULE MC_MapBuf -----------------------------
(* Exhaustive configuration of MapBuf: full state, small constants.       *)
EXTENDS MapBuf
CONSTANT CtrMax
Bound == /\ ctr <= CtrMax
         /\ \A h \in H : /\ Len(val[h]) <= MaxLen
                         /\ rec[h].size <= Max(AllocSize(MaxLen + 1), MAllocSize(MaxLen + 1))
\* histories without a mapped buffer are CowArray's own (MC_CowArray); the step that loses the last mapped
\* buffer is still generated and checked, its successors are not.  The calls are symmetric in the handles
\* (Prune = FALSE): every state with a mapped buffer has a mirror image in which handle 1 holds one.
Scope == Mapped(1) \/ (\A h \in H : IsNull(h))
View  == <<val, vtyp, rec, share, touch, ctr>>     \* obs is an observation, not state
=============================================================================
