------------------------------ MODULE MetaIter ------------------------------
(***************************************************************************)
(* X23 / C04: the iterator face of the buffer metatype                     *)
(* (mptcore/array/meta_buffer.c: mpt_meta_buffer, its clone(), the         *)
(* iterator's value/advance/reset; mptcore/array/slice_next.c).            *)
(*                                                                         *)
(* A buffer metatype is a handle on a character array TOGETHER WITH a      *)
(* position in it.  C04's words applied: a clone reads what the original   *)
(* reads at the moment of cloning (current element, remaining sequence),   *)
(* and afterwards no advance/reset/release through one handle changes      *)
(* what any other handle reads.                                            *)
(*                                                                         *)
(* Tier 1 (meaning): the text is a sequence of elements -- every           *)
(*    zero-terminated segment a string "s" (without its terminator), an    *)
(*    unterminated non-empty tail a character vector "v"; pos[i] = index   *)
(*    of instance i's current element (N+1 = at the end, 0 = no instance). *)
(* Tier 2 (design): per instance the slice {off, len} and the "is string"  *)
(*    pointer of struct metaBuffer; NextSeg mirrors mpt_slice_next, Copy   *)
(*    mirrors bufferCopy (new instance = reset, then off/len taken over,   *)
(*    string pointer cleared and set again when the original has one).     *)
(* Refines: what Tier 2 hands out as current value = Tier 1's element.     *)
(* obs.exp = [ret, ts, ds]: result class of the call and, for EVERY        *)
(* instance, type and bytes of its current element.                        *)
(***************************************************************************)
EXTENDS Naturals, Integers, Sequences, FiniteSets

CONSTANTS NI,       \* instances
          Texts     \* texts offered (exhaustive / export configurations)

VARIABLES text, pos, sl, obs
vars == <<text, pos, sl, obs>>

I == 1..NI

---------------------------------------------------------------------------
(* Tier 1: elements of a text *)
Zs(t)        == {i \in 1..Len(t) : t[i] = 0}
NthZero(t, k) == CHOOSE z \in Zs(t) : Cardinality({y \in Zs(t) : y < z}) = k - 1
NZ(t)        == Cardinality(Zs(t))
LastZero(t)  == IF Zs(t) = {} THEN 0 ELSE NthZero(t, NZ(t))
HasTail(t)   == LastZero(t) < Len(t)
N(t)         == NZ(t) + (IF HasTail(t) THEN 1 ELSE 0)
Start(t, k)  == IF k = 1 THEN 1 ELSE NthZero(t, k - 1) + 1
Elem(t, k)   == IF k < 1 \/ k > N(t) THEN [t |-> "none", d |-> <<>>]
                ELSE IF k <= NZ(t) THEN [t |-> "s", d |-> SubSeq(t, Start(t, k), NthZero(t, k) - 1)]
                ELSE [t |-> "v", d |-> SubSeq(t, Start(t, k), Len(t))]
TypeAt(t, k) == IF k > N(t) THEN "end" ELSE Elem(t, k).t
Dead         == [t |-> "dead", d |-> <<>>]
Cur1(i)      == IF pos[i] = 0 THEN Dead ELSE Elem(text, pos[i])

(* Tier 2: struct slice + string pointer *)
NoInst == [off |-> 0, len |-> 0, str |-> FALSE, live |-> FALSE]
\* mpt_slice_next on a character array: [ret, off, len]
NextSeg(t, off, len) ==
  LET rem0 == Len(t) - off IN
  IF len > 0 /\ rem0 - len = 0 THEN [ret |-> "end", off |-> off + len, len |-> 0]
  ELSE LET rem == IF len > 0 THEN rem0 - len ELSE rem0
           b   == off + len                       \* 0-based start of the next segment
       IN
       IF rem < 1 THEN [ret |-> "refused", off |-> off, len |-> len]
       ELSE LET zs == {z \in Zs(t) : z > b} IN
            IF zs = {} THEN [ret |-> "v", off |-> b, len |-> rem]
            ELSE LET z == CHOOSE x \in zs : \A y \in zs : x <= y IN
                 [ret |-> "s", off |-> b, len |-> z - b]
\* bufferAdvance
Adv(t, s) == LET n == NextSeg(t, s.off, s.len) IN
             [ret |-> n.ret, s |-> [s EXCEPT !.off = n.off, !.len = n.len, !.str = (n.ret = "s")]]
\* bufferReset (errors of the first advance are answered as 0 = "end")
Rst(t, s) == LET a == Adv(t, [s EXCEPT !.off = 0, !.len = 0]) IN
             [ret |-> IF a.ret = "refused" THEN "end" ELSE a.ret, s |-> a.s]
\* bufferGet
UptoZ(q) == IF \E i \in 1..Len(q) : q[i] = 0
            THEN SubSeq(q, 1, (CHOOSE i \in 1..Len(q) : q[i] = 0 /\ \A j \in 1..(i - 1) : q[j] # 0) - 1)
            ELSE q
Cur2(t, s) == IF ~s.live THEN Dead
              ELSE IF s.len = 0 THEN [t |-> "none", d |-> <<>>]
              ELSE IF ~s.str THEN [t |-> "v", d |-> SubSeq(t, s.off + 1, s.off + s.len)]
              ELSE [t |-> "s", d |-> UptoZ(SubSeq(t, s.off + 1, Len(t)))]

---------------------------------------------------------------------------
Answer(a, arg, ret) ==
  obs' = [a |-> a, arg |-> arg,
          exp |-> [ret |-> ret, ts |-> [i \in I |-> Cur1(i).t]', ds |-> [i \in I |-> Cur1(i).d]']]

(* the driver makes a character array holding d (map = 1: mapped buffer)   *)
(* and instance 1 = mpt_meta_buffer(&array); the array handle is dropped   *)
MkText(d, map) ==
  /\ text' = d
  /\ pos' = [i \in I |-> IF i = 1 THEN 1 ELSE 0]
  /\ sl' = [i \in I |-> IF i = 1 THEN Rst(d, [NoInst EXCEPT !.live = TRUE]).s ELSE NoInst]
  /\ Answer("itext", [data |-> d, map |-> map], "ok")

Advance(i) ==
  /\ pos[i] > 0
  /\ UNCHANGED text
  /\ LET n == N(text) a == Adv(text, sl[i]) IN
     /\ IF pos[i] > n
        THEN /\ UNCHANGED pos /\ Answer("iadv", [i |-> i], "refused")
        ELSE /\ pos' = [pos EXCEPT ![i] = @ + 1]
             /\ Answer("iadv", [i |-> i], TypeAt(text, pos[i] + 1))
     /\ sl' = [sl EXCEPT ![i] = a.s]

Reset(i) ==
  /\ pos[i] > 0
  /\ pos' = [pos EXCEPT ![i] = 1]
  /\ sl' = [sl EXCEPT ![i] = Rst(text, sl[i]).s]
  /\ UNCHANGED text
  /\ Answer("ireset", [i |-> i], TypeAt(text, 1))

Clone(j, i) ==
  /\ pos[i] > 0 /\ pos[j] = 0
  /\ pos' = [pos EXCEPT ![j] = pos[i]]
  /\ sl' = [sl EXCEPT ![j] = [Rst(text, [NoInst EXCEPT !.live = TRUE]).s
                               EXCEPT !.off = sl[i].off, !.len = sl[i].len, !.str = sl[i].str]]
  /\ UNCHANGED text
  /\ Answer("iclone", [i |-> j, from |-> i], "ok")

Unref(i) ==
  /\ pos[i] > 0
  /\ pos' = [pos EXCEPT ![i] = 0]
  /\ sl' = [sl EXCEPT ![i] = NoInst]
  /\ UNCHANGED text
  /\ Answer("iunref", [i |-> i], "ok")

Init == /\ text = <<>> /\ pos = [i \in I |-> 0] /\ sl = [i \in I |-> NoInst]
        /\ obs = [a |-> "init", arg |-> [n |-> NI],
                  exp |-> [ret |-> "any", ts |-> [i \in I |-> "dead"], ds |-> [i \in I |-> <<>>]]]

Next ==
  \/ \E d \in Texts, m \in {0, 1} : obs.a = "init" /\ MkText(d, m)
  \/ \E i \in I : Advance(i) \/ Reset(i) \/ Unref(i)
  \/ \E i, j \in I : i # j /\ Clone(j, i)

Spec == Init /\ [][Next]_vars

---------------------------------------------------------------------------
TypeOK  == /\ \A i \in I : pos[i] \in 0..(N(text) + 1)
           /\ \A i \in I : sl[i].live <=> pos[i] > 0
           /\ \A i \in I : sl[i].off + sl[i].len <= Len(text)
\* the design hands out the element the meaning names, for every instance
Refines == \A i \in I : Cur2(text, sl[i]) = Cur1(i)
\* what Tier 2 answers to advance/reset is what Tier 1 answers
RetOK   == [][/\ obs'.a = "iadv" => obs'.exp.ret = Adv(text, sl[obs'.arg.i]).ret
              /\ obs'.a = "ireset" => obs'.exp.ret = Rst(text, sl[obs'.arg.i]).ret]_vars
\* no call through one instance changes what another one reads
Independent == [][obs'.a \in {"iadv", "ireset", "iunref", "iclone"} =>
                    \A k \in I : k # obs'.arg.i => (pos'[k] = pos[k] /\ sl'[k] = sl[k])]_vars
\* a clone reads what its original reads at the moment of cloning
CloneSame == [][obs'.a = "iclone" => Cur2(text, sl'[obs'.arg.i]) = Cur2(text, sl[obs'.arg.from])]_vars
=============================================================================
