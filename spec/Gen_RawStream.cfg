SPECIFICATION GenSpec
CONSTANTS MaxOps = 4 RawOps = 6 TouchMem = 1
  Shapes <- ShapesQ
  Datas <- DatasFileQ
  RawDatas <- DatasRawQ
  Ks <- KsQ
  OpenArgs <- OpenQ
  SeekArgs <- SeekQ
  Parts = {1, 2}
  Early = {0}
  Ahead = {0}
VIEW Skel
ACTION_CONSTRAINT Emit
CHECK_DEADLOCK FALSE
