SPECIFICATION Spec
CONSTANTS Kinds = {"rawdata", "geninfo"}
  TextLens = {0, 249, 250, 1000}
  NH = 3 NObj = 3 Max = 4 MaxExtra = 1 MaxTries = 2 AsFound = FALSE
CONSTRAINT NestBound
VIEW View
INVARIANTS TypeOK AliveIffReferenced CountExact NoDangling ObsAgrees
PROPERTIES RefusedUnchanged DestroyedOnce NoResurrection ReplaceOnce NewReferentSurvives TeardownClears
CHECK_DEADLOCK FALSE
