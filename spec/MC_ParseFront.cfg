SPECIFICATION FSpec
CONSTANTS Configs <- MCQConfigs OptNames <- MCOptNames SecNames <- MCSecNames Values <- QV
          Decos <- QD MaxNodes = 2 MaxDepth = 2
          FrontEnds <- AllFE LoadAccs <- MCLoadAccs Pres = {0, 2} MaxLoads = 1 MaxFail = 1 MaxAside = 0
          XNames <- XN XValues <- QV XDecos <- QD
VIEW FView
INVARIANTS FTypeOK Refines
PROPERTIES Atomic Faithful
CHECK_DEADLOCK FALSE
