SPECIFICATION Spec
CONSTANTS MaxSecs = 3 MaxOpts = 2 MaxMem = 2 MaxTop = 3 MaxDocs = 2 MaxSteps = 3 Mode = "gent"
VIEW SkelT
ACTION_CONSTRAINT Emit
PROPERTIES RefusedFrame BindExact GSetFrame FreshDoc
CHECK_DEADLOCK FALSE
