SPECIFICATION GenSpecC
CONSTANTS Names <- Names2 Depth = 3 Vals <- ValsQ Sep = 46 Design = "list" Base <- BaseAB MaxSlots = 4
  Ends <- Ends0 Strs <- NoStrs Seps <- NoStrs Asgs <- NoStrs Elems <- NoStrs
CONSTRAINT Bound
VIEW ViewC
ACTION_CONSTRAINT Emit
CHECK_DEADLOCK FALSE
