---------------------------- MODULE MC_CobsEnc ----------------------------
(* Exhaustive configuration of CobsEnc: every message over a boundary      *)
(* alphabet (0, below / between / above the block codes), every split into *)
(* pushes, every capacity schedule, all five framings at scaled limits.    *)
EXTENDS CobsEnc
CONSTANT CapMax
K3 == {SCobs(3), SCobsR(3), SZpe(3, 3), SZpeR(3, 3)}
K5 == {SCobs(5), SCobsR(5), SZpe(5, 4), SZpeR(5, 4)}
KindsQ == K3 \cup {KCmd}
KindsT == K3 \cup K5 \cup {KCmd}
AlphaQ == {0, 1, 3, 6}
AlphaT == {0, 1, 3, 4, 6}
AlphaS == {0, 1, 6}
CapsQ  == 0..2
CapsZ  == {0}
GrowsQ == {1, 2}
PresQ  == {0, 2}
Bound == cap <= pre + CapMax
View  == <<K, msg, acc, out, run, code, cap, pre, st>>
=============================================================================
