--------------------------- MODULE Trace_Creators ---------------------------
(* Trace validation: a recorded execution of the real code (one event per  *)
(* call: arguments + observation) must be a behaviour of Creators.         *)
(* Executions are concatenated; each starts with "init".                   *)
EXTENDS Creators, Json, IOUtils
VARIABLE l
TraceLog == ndJsonDeserialize(IOEnv.TRACE)

ResetTo(k) ==
  /\ kind' = k /\ tlen' = 0
  /\ holds' = [h \in Handles |-> 0] /\ copyh' = [h \in Handles |-> 0] /\ hascopy' = FALSE
  /\ extra' = [o \in Objs |-> 0] /\ defer' = [o \in Objs |-> 0] /\ made' = 0
  /\ inner' = [o \in Objs |-> 0] /\ origin' = [o \in Objs |-> 0]
  /\ cnt' = [o \in Objs |-> 0] /\ alive' = [o \in Objs |-> FALSE]
  /\ snd' = [o \in Objs |-> TRUE] /\ tries' = [o \in Objs |-> 0]
  /\ cls' = [o \in Objs |-> "none"] /\ nmeta' = [o \in Objs |-> 0] /\ par' = [o \in Objs |-> 0]
  /\ nname' = [o \in Objs |-> "none"]
  /\ obs' = CInitObs(k)

Step(ev) ==
  CASE ev.a = "init"         -> ev.arg.nh = NH /\ ev.arg.nobj = NObj /\ ev.arg.kind \in Kinds /\ ResetTo(ev.arg.kind)
    [] ev.a = "newmeta"      -> NewMeta(ev.arg.h, ev.arg.sz)
    [] ev.a = "newnode"      -> NewNode(ev.arg.h, ev.arg.nm)
    [] ev.a = "clonemeta"    -> CloneMeta(ev.arg.h, ev.arg.g)
    [] ev.a = "addref"       -> AddRef(ev.arg.h, ev.arg.g)
    [] ev.a = "takemeta"     -> TakeMeta(ev.arg.n, ev.arg.g)
    [] ev.a = "unref"        -> Unref(ev.arg.h)
    [] ev.a = "setvalue"     -> SetValue(ev.arg.n, ev.arg.sz)
    [] ev.a = "movemeta"     -> MoveMeta(ev.arg.n, ev.arg.h, ev.arg.via)
    [] ev.a = "addchild"     -> AddChild(ev.arg.p, ev.arg.h)
    [] ev.a = "unlink"       -> Unlink(ev.arg.c, ev.arg.g)
    [] ev.a = "clonenode"    -> CloneNode(ev.arg.n, ev.arg.g)
    [] ev.a = "destroy"      -> DestroyNode(ev.arg.h)
    [] ev.a = "destroyinner" -> DestroyInner(ev.arg.n)
    [] ev.a = "clear"        -> ClearNode(ev.arg.n)
    [] ev.a = "assign"       -> Assign(ev.arg.n, ev.arg.p, ev.arg.sz)
    [] ev.a = "print"        -> PrintMeta(ev.arg.h, ev.arg.via)
    [] ev.a = "teardown"     -> CTeardown
    [] OTHER                 -> FALSE

SeqSet(s) == {s[i] : i \in 1..Len(s)}
Matches(ev) ==
  LET e == obs'.exp  o == ev.obs IN
  /\ (e.ret # "any" => e.ret = o.ret)
  /\ e.href = o.href /\ e.alive = o.alive /\ e.nmeta = o.nmeta /\ e.par = o.par
  /\ Len(e.gone) = Len(o.gone) /\ SeqSet(e.gone) = SeqSet(o.gone)
  /\ (e.quiet = 0 => o.quiet = 0)
  /\ e.badfree = o.badfree

TraceInit ==
  /\ l = 1 /\ kind = "c" /\ tlen = 0
  /\ holds = [h \in Handles |-> 0] /\ copyh = [h \in Handles |-> 0] /\ hascopy = FALSE
  /\ extra = [o \in Objs |-> 0] /\ defer = [o \in Objs |-> 0] /\ made = 0
  /\ inner = [o \in Objs |-> 0] /\ origin = [o \in Objs |-> 0]
  /\ cnt = [o \in Objs |-> 0] /\ alive = [o \in Objs |-> FALSE]
  /\ snd = [o \in Objs |-> TRUE] /\ tries = [o \in Objs |-> 0]
  /\ cls = [o \in Objs |-> "none"] /\ nmeta = [o \in Objs |-> 0] /\ par = [o \in Objs |-> 0]
  /\ nname = [o \in Objs |-> "none"]
  /\ obs = [a |-> "none", arg |-> [x |-> 0], exp |-> CTeardownExp([o \in Objs |-> FALSE])]

TraceNext ==
  /\ l <= Len(TraceLog)
  /\ l' = l + 1
  /\ LET ev == TraceLog[l] IN
       Step(ev) /\ Matches(ev)

TraceSpec == TraceInit /\ [][TraceNext]_<<cvars, l>>

TraceAccepted ==
  LET n == TLCGet("stats").diameter - 1 IN
  /\ PrintT(<<"MATCHED", n>>)
  /\ n = Len(TraceLog)
=============================================================================
