---------------------------- MODULE MC_CodecOps ----------------------------
(* Exhaustive configurations of CodecOps.                                  *)
(* One run explores the four parts (variable mode) side by side:           *)
(*  enc : sessions of up to three messages through the bare encoders       *)
(*        (COBS family at block limit 3 [5 in _t], command text, text      *)
(*        framings with delimiters of 1..3 bytes whose prefixes and        *)
(*        repetitions occur in the messages), every split into pushes,     *)
(*        room schedule, Delete(1..3) at every point.                      *)
(*  arr : the array path: unlimited room, a reader consuming finished      *)
(*        bytes (Shift), ShiftFront / Prepare, the raw path.               *)
(*  dec : the decoder design of CobsDec with SizeQuery and Reset at every  *)
(*        point; size: longer frames of short blocks on one schedule.      *)
EXTENDS CodecOps
CONSTANT CapMax
K3 == {SCobs(3), SCobsR(3), SZpe(3, 3), SZpeR(3, 3)}
K5 == {SCobs(5), SCobsR(5), SZpe(5, 4), SZpeR(5, 4)}
Texts1 == {TText(<<6>>, "ctx"), TText(<<6>>, "buf")}
Texts2 == {TText(<<1, 6>>, "buf"), TText(<<6, 6>>, "buf")}
Texts3 == {TText(<<6, 1, 6>>, "buf"), TText(<<6, 6, 6>>, "buf"), TText(<<1, 1, 6>>, "buf")}
KindsEQ == K3 \cup {KCmd} \cup Texts1 \cup Texts2 \cup {TText(<<6, 1, 6>>, "buf")}
KindsET == K3 \cup K5 \cup {KCmd} \cup Texts1 \cup Texts2 \cup Texts3
KindsGQ == K3 \cup {KCmd, TText(<<6>>, "ctx"), TText(<<6, 6>>, "buf"), TText(<<6, 1, 6>>, "buf")}
KindsAQ == K3 \cup {KCmd, KRaw}
KindsAT == K3 \cup K5 \cup {KCmd, KRaw}
KindsDQ == K3 \cup {KCmd}
KindsDG == {SCobs(3), SZpeR(3, 3), KCmd}
KindsDT == K3 \cup K5 \cup {KCmd}
AlphaE == {0, 1, 6}
AlphaD == {0, 1, 2, 3, 5}
AlphaS == {0, 1, 2}
AlphaG == {0, 1, 3}
StreamsG == SeqsUpTo(AlphaG, 3)
NextAll == SeqsUpTo(AlphaE, 2)
NextFew == {<<>>, <<0>>, <<6, 1>>, <<1, 0>>, <<6, 6>>}
NextMin == {<<>>, <<0>>, <<6, 1>>}
OpsNoPeek == {"size", "reset"}
CapsZ  == {0}
CapsA  == {Big}
Grows2 == {2}
Grows12 == {1, 2}
None   == {}
Del12  == {1, 2}
Del123 == {1, 2, 3}
Sh12   == {1, 2}
Sl02   == {0, 2}
Gr12   == {1, 2}
Gr2    == {2}
Fd123  == {1, 2, 3}
Fd1    == {1}
Fd13   == {1, 3}
Q1236  == {1, 2, 3, 6}
Q123   == {1, 2, 3}
Q13    == {1, 3}
Q2     == {2}
Sl2    == {2}
Mis01  == {0, 1}
Mis0   == {0}
Streams3 == SeqsUpTo(AlphaD, 3)
Streams4 == SeqsUpTo(AlphaD, 4)
\* frames of short blocks: every string of length 5..7 over {1,2} followed by the delimiter
StreamsS == {s \o <<0>> : s \in UNION {[1..k -> {1, 2}] : k \in 5..7}}
NoStreams == {<<>>}
\* two frames of short blocks for the behaviour export of the part "size"
StreamsP == {<<2, 1, 2, 1, 2, 1, 0>>, <<2, 1, 2, 1, 2, 1, 2, 1, 0>>}
Q68 == {6, 8}
Q1to8 == 1..8
OpsAll == {"peek", "reset", "size"}
OpsSize == {"size"}
StreamsQ == {s \o <<0>> : s \in [1..6 -> {1, 2}]}
AllModes == {"enc", "arr", "dec", "size"}
GenModes == {"enc", "arr", "dec"}
BoundE == cap <= Sep(K) + CapMax
BoundD == Len(reg) <= Len(stream) + 6
Bound  == IF mode = "enc" THEN BoundE ELSE IF mode = "arr" THEN TRUE ELSE BoundD
View   == <<mode, K, evars, dvars>>
=============================================================================
