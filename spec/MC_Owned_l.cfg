SPECIFICATION OSpec
CONSTANTS Kinds = {"loader"}
  TextLens = {0}
  NH = 3 NObj = 5 Max = 4 MaxExtra = 1 MaxTries = 1 AsFound = FALSE
VIEW OView
CONSTRAINT LoaderCap
INVARIANTS OTypeOK AliveIffReachable OCountExact ONoDangling OObsAgrees ProxyComplete
PROPERTIES ORefusedUnchanged ODestroyedOnce ONoResurrection MemberReplacedOnce HandleReplacedOnce BindReleasesOld OTeardownClears
CHECK_DEADLOCK FALSE
