-------------------------------- MODULE IoBuf --------------------------------
(***************************************************************************)
(* io::buffer / io::buffer::metatype (mpt++/io_buffer.cpp,                 *)
(* io_buffer_metatype.cpp) and the encode_array members it is made of      *)
(* (mpt++/array.cpp, mptcore/array/array_push.c without encoder) as a      *)
(* consumer of copy-on-write arrays (C04 applied to the wider behaviour):  *)
(* a buffer made from an array, a clone of a buffer and the array itself   *)
(* behave as independent byte sequences, and the buffer reads exactly the  *)
(* bytes a plain queue would contain after the same writes and reads.      *)
(*                                                                         *)
(* Tier 1 (meaning): buf[k] = [on, pre, q, s]                              *)
(*    q   readable bytes (finished data), s unfinished bytes behind them,  *)
(*    pre bytes already consumed that reset() makes readable again.        *)
(* Tier 2 (design):  rep[k] = [bytes, done, scratch] -- the array content  *)
(*    and the encode state; readable = the done bytes in front of the      *)
(*    last scratch bytes.  Refines: bytes = pre \o q \o s, done = Len(q),  *)
(*    scratch = Len(s).                                                    *)
(***************************************************************************)
EXTENDS Naturals, Integers, Sequences, FiniteSets, TLC

CONSTANTS NA,      \* array handles
          NB,      \* buffers
          NV,      \* byte values 0..NV (0 terminates a text record)
          MaxLen,  \* largest content explored
          MaxArg,  \* largest count argument offered
          Prune    \* TRUE: buffer 1 / array 1 are the actors (behaviour export)

VARIABLES arr, buf,    \* Tier 1
          rep,         \* Tier 2
          obs
vars == <<arr, buf, rep, obs>>

A == 1..NA
B == 1..NB
Byte == 0..NV

Min(a, b) == IF a < b THEN a ELSE b
FirstN(s, n) == SubSeq(s, 1, Min(n, Len(s)))
Drop(s, n)   == SubSeq(s, n + 1, Len(s))
Off == [on |-> FALSE, pre |-> <<>>, q |-> <<>>, s |-> <<>>]
OffRep == [bytes |-> <<>>, done |-> 0, scratch |-> 0]
Datas == UNION {[1..n -> Byte] : n \in 0..2}

\* position of the first zero byte (0: none)
Nul(s) == IF \E i \in 1..Len(s) : s[i] = 0 THEN CHOOSE i \in 1..Len(s) : s[i] = 0 /\ \A j \in 1..(i - 1) : s[j] # 0 ELSE 0

\* design: the readable window of the array content
Window(r) == SubSeq(r.bytes, Len(r.bytes) - r.done - r.scratch + 1, Len(r.bytes) - r.scratch)

Answer(a, arg, ret, out, data) ==
  obs' = [a |-> a, arg |-> arg,
          exp |-> [ret |-> ret, out |-> out, data |-> data,
                   arrs |-> arr',
                   q |-> [k \in B |-> buf'[k].q],
                   pos |-> [k \in B |-> Len(buf'[k].pre)],
                   on |-> [k \in B |-> buf'[k].on]],
          mdl |-> [done |-> [k \in B |-> rep'[k].done], scratch |-> [k \in B |-> rep'[k].scratch],
                   len |-> [k \in B |-> Len(rep'[k].bytes)]]]
AnyOut == -99
Frame == UNCHANGED <<arr, buf, rep>>
Refuse(a, arg) == Frame /\ Answer(a, arg, "refused", AnyOut, <<>>)

SetB(k, b, r) == buf' = [buf EXCEPT ![k] = b] /\ rep' = [rep EXCEPT ![k] = r]

---------------------------------------------------------------------------
\* array::set(len, data) / array::append(len, data)
ASet(h, d) ==
  /\ arr' = [arr EXCEPT ![h] = d] /\ UNCHANGED <<buf, rep>>
  /\ Answer("aset", [h |-> h, data |-> d], "ok", AnyOut, <<>>)
AAppend(h, d) ==
  /\ arr' = [arr EXCEPT ![h] = arr[h] \o d] /\ UNCHANGED <<buf, rep>>
  /\ Answer("aappend", [h |-> h, data |-> d], "ok", AnyOut, <<>>)

\* io::buffer::metatype::create(&array): everything in the array is readable
BNew(k, h) ==
  /\ ~buf[k].on
  /\ SetB(k, [on |-> TRUE, pre |-> <<>>, q |-> arr[h], s |-> <<>>], [bytes |-> arr[h], done |-> Len(arr[h]), scratch |-> 0])
  /\ UNCHANGED arr
  /\ Answer("bnew", [k |-> k, h |-> h], "ok", AnyOut, <<>>)

\* clone(): same content and state, independent afterwards
BClone(k, j) ==
  /\ ~buf[k].on /\ buf[j].on /\ j # k
  /\ SetB(k, buf[j], rep[j]) /\ UNCHANGED arr
  /\ Answer("bclone", [k |-> k, from |-> j], "ok", AnyOut, <<>>)

BRelease(k) ==
  /\ buf[k].on
  /\ SetB(k, Off, OffRep) /\ UNCHANGED arr
  /\ Answer("brelease", [k |-> k], "ok", AnyOut, <<>>)

\* encode_array::push(len, data) without encoder: unfinished bytes behind everything; push(0, 0) finishes them
BPush(k, d) ==
  LET b == buf[k] r == rep[k] arg == [k |-> k, data |-> d] IN
  /\ b.on
  /\ IF d = <<>>
     THEN /\ SetB(k, [b EXCEPT !.q = b.q \o b.s, !.s = <<>>], [r EXCEPT !.done = r.done + r.scratch, !.scratch = 0])
          /\ UNCHANGED arr /\ Answer("bpush", arg, "ok", 0, <<>>)
     ELSE /\ SetB(k, [b EXCEPT !.s = b.s \o d], [r EXCEPT !.bytes = r.bytes \o d, !.scratch = r.scratch + Len(d)])
          /\ UNCHANGED arr /\ Answer("bpush", arg, "ok", Len(d), <<>>)

\* io::buffer::write(nblk, data, esz): blocks are finished at once unless unfinished bytes were pending
BWrite(k, d, esz) ==
  LET b == buf[k] r == rep[k] arg == [k |-> k, data |-> d, esz |-> esz] n == Len(d) \div esz IN
  /\ b.on /\ esz > 0 /\ n * esz = Len(d)
  /\ IF n = 0
     THEN /\ SetB(k, [b EXCEPT !.q = b.q \o b.s, !.s = <<>>], [r EXCEPT !.done = r.done + r.scratch, !.scratch = 0])
          /\ UNCHANGED arr /\ Answer("bwrite", arg, "ok", 0, <<>>)
     ELSE IF b.s = <<>>
     THEN /\ SetB(k, [b EXCEPT !.q = b.q \o d], [r EXCEPT !.bytes = r.bytes \o d, !.done = r.done + Len(d)])
          /\ UNCHANGED arr /\ Answer("bwrite", arg, "ok", n, <<>>)
     ELSE /\ SetB(k, [b EXCEPT !.s = b.s \o d], [r EXCEPT !.bytes = r.bytes \o d, !.scratch = r.scratch + Len(d)])
          /\ UNCHANGED arr /\ Answer("bwrite", arg, "ok", n, <<>>)

\* io::buffer::read(nblk, dest, esz): esz = 0 copies nblk bytes without consuming them
BRead(k, n, esz) ==
  LET b == buf[k] r == rep[k] arg == [k |-> k, n |-> n, esz |-> esz]
      m == IF esz = 0 THEN 0 ELSE Min(n, Len(b.q) \div esz) IN
  /\ b.on
  /\ IF esz = 0
     THEN IF Len(b.q) < n THEN Refuse("bread", arg)
          ELSE Frame /\ Answer("bread", arg, "ok", n, FirstN(b.q, n))
     ELSE /\ SetB(k, [b EXCEPT !.pre = b.pre \o FirstN(b.q, m * esz), !.q = Drop(b.q, m * esz)], [r EXCEPT !.done = r.done - m * esz])
          /\ UNCHANGED arr /\ Answer("bread", arg, "ok", m, FirstN(b.q, m * esz))

\* encode_array::shift(len): consume len readable bytes; len = 0 drops the consumed bytes from the storage
BShift(k, n) ==
  LET b == buf[k] r == rep[k] arg == [k |-> k, n |-> n] IN
  /\ b.on
  /\ IF n = 0
     THEN IF b.pre = <<>> THEN Refuse("bshift", arg)
          ELSE /\ SetB(k, [b EXCEPT !.pre = <<>>], [r EXCEPT !.bytes = Drop(r.bytes, Len(b.pre))])
               /\ UNCHANGED arr /\ Answer("bshift", arg, "ok", AnyOut, <<>>)
     ELSE IF n > Len(b.q) THEN Refuse("bshift", arg)
     ELSE /\ SetB(k, [b EXCEPT !.pre = b.pre \o FirstN(b.q, n), !.q = Drop(b.q, n)], [r EXCEPT !.done = r.done - n])
          /\ UNCHANGED arr /\ Answer("bshift", arg, "ok", AnyOut, <<>>)

\* iterator::reset(): everything stored (except unfinished bytes) is readable again
BReset(k) ==
  LET b == buf[k] r == rep[k] IN
  /\ b.on
  /\ SetB(k, [b EXCEPT !.pre = <<>>, !.q = b.pre \o b.q], [r EXCEPT !.done = Len(r.bytes) - r.scratch])
  /\ UNCHANGED arr /\ Answer("breset", [k |-> k], "ok", Len(b.pre) + Len(b.q), <<>>)

\* iterator::value(): the text record in front (bytes before the first zero byte)
BValue(k) ==
  LET b == buf[k] i == Nul(b.q) IN
  /\ b.on
  /\ IF b.s # <<>> \/ i = 0 THEN Frame /\ Answer("bvalue", [k |-> k], "refused", AnyOut, <<>>)
     ELSE Frame /\ Answer("bvalue", [k |-> k], "ok", AnyOut, FirstN(b.q, i - 1))

\* iterator::advance(): consume the record in front; tells whether more is readable
BAdvance(k) ==
  LET b == buf[k] r == rep[k] i == Nul(b.q) IN
  /\ b.on
  /\ IF i = 0 THEN Refuse("badvance", [k |-> k])
     ELSE /\ SetB(k, [b EXCEPT !.pre = b.pre \o FirstN(b.q, i), !.q = Drop(b.q, i)], [r EXCEPT !.done = r.done - i])
          /\ UNCHANGED arr /\ Answer("badvance", [k |-> k], "ok", IF Len(b.q) > i THEN 1 ELSE 0, <<>>)

---------------------------------------------------------------------------
Init ==
  /\ arr = [h \in A |-> <<>>] /\ buf = [k \in B |-> Off] /\ rep = [k \in B |-> OffRep]
  /\ obs = [a |-> "init", arg |-> [na |-> NA, nb |-> NB],
            exp |-> [ret |-> "ok", out |-> AnyOut, data |-> <<>>, arrs |-> [h \in A |-> <<>>], q |-> [k \in B |-> <<>>],
                     pos |-> [k \in B |-> 0], on |-> [k \in B |-> FALSE]],
            mdl |-> [done |-> [k \in B |-> 0], scratch |-> [k \in B |-> 0], len |-> [k \in B |-> 0]]]

Next ==
  \/ \E h \in A, d \in Datas : (Prune => (h = 1 /\ d # <<>>)) /\ ASet(h, d)
  \/ \E h \in A, d \in Datas : (Prune => (h = 1 /\ Len(d) = 1)) /\ AAppend(h, d)
  \/ \E k \in B, h \in A : (Prune => h = 1) /\ BNew(k, h)
  \/ \E k \in B, j \in B : BClone(k, j)
  \/ \E k \in B : LET P == (Prune => k = 1) IN
       \/ P /\ BRelease(k)
       \/ \E d \in Datas : P /\ BPush(k, d)
       \/ \E d \in Datas, e \in 1..2 : (Prune /\ k # 1 => d = <<1>> /\ e = 1) /\ BWrite(k, d, e)
       \/ \E n \in 0..MaxArg, e \in 0..2 : P /\ BRead(k, n, e)
       \/ \E n \in 0..MaxArg : P /\ BShift(k, n)
       \/ P /\ BReset(k)
       \/ P /\ BValue(k)
       \/ P /\ BAdvance(k)

Spec == Init /\ [][Next]_vars

---------------------------------------------------------------------------
TypeOK == \A k \in B : /\ buf[k].on \in BOOLEAN
                       /\ rep[k].done >= 0 /\ rep[k].scratch >= 0
                       /\ rep[k].done + rep[k].scratch <= Len(rep[k].bytes)
\* the design state implements the queue
Refines == \A k \in B : /\ rep[k].bytes = buf[k].pre \o buf[k].q \o buf[k].s
                        /\ rep[k].done = Len(buf[k].q) /\ rep[k].scratch = Len(buf[k].s)
                        /\ Window(rep[k]) = buf[k].q
\* a call through one buffer / array changes no other buffer and no other array
Independent ==
  [][/\ \A k \in B : ("k" \notin DOMAIN obs'.arg \/ obs'.arg.k # k) => buf'[k] = buf[k]
     /\ \A h \in A : ("h" \notin DOMAIN obs'.arg \/ obs'.arg.h # h \/ obs'.a = "bnew") => arr'[h] = arr[h]]_vars
RefuseFrame == [][obs'.exp.ret = "refused" => (buf' = buf /\ arr' = arr)]_vars
=============================================================================
