--------------------------- MODULE Trace_ParseFront ---------------------------
(* Seeded sequences of loads at production size.  $TRACE holds events        *)
(*   init  {pre}                                                             *)
(*   doc   {fmt, acc, items, fe, lacc, fail, log [, text]} [obs]             *)
(*   clear {}                                         [obs]                  *)
(* pass 1 (no obs): the items are fed through the actions of ConfText and    *)
(*   the text of every document is printed for the driver;                   *)
(* pass 2 (obs = what the front end did): a doc event is a step only if the  *)
(*   recorded observation is one the specification permits for that load     *)
(*   (ParseFront.LoadObs: the denoted forest by the replace / merge rule, or *)
(*   a refusal) AND the run is accepted by the monitor of C08 (ParseMon: a   *)
(*   failed call leaves the target as it was and nothing behind, R3/R4;      *)
(*   every node of the target names a live parent, R6).  Where the statement *)
(*   is silent (merge into a non-empty target) the recorded forest is taken  *)
(*   over as the new target.                                                 *)
EXTENDS ParseFront, Trace_ConfText

PM == INSTANCE ParseMon WITH MaxPolls <- 2, Names <- {}, MaxLen <- 0, Forests <- {}, mon <- fobs

Ev == TraceLog[l]
HasObs == "obs" \in DOMAIN Ev
Mine == <<target, pre, aside, nl, fobs>>

AltMatches(alt, rec) ==
  /\ rec.ret = alt.ret
  /\ "tree" \in DOMAIN alt => rec.tree = alt.tree
  /\ "line_in" \in DOMAIN alt => rec.line \in alt.line_in
  /\ rec.links = alt.links /\ rec.fds = alt.fds /\ rec.badfree = alt.badfree
  /\ "net" \in DOMAIN alt => rec.net = alt.net

Judge(rec) ==
  LET s1 == PM!Upd(PM!Idle, [t |-> "start", len |-> 0, before |-> rec.before])
  IN PM!Ok(s1, [t |-> "return", ok |-> rec.ret = "ok", after |-> rec.tree,
                net |-> IF rec.ret = "ok" THEN 0 ELSE rec.net, netclear |-> 0, links |-> rec.links])

TInit ==
  /\ Ev.a = "init" /\ j = 0
  /\ pre' = Ev.arg.pre /\ target' = PreForest(Ev.arg.pre) /\ aside' = <<>> /\ nl' = 0
  /\ fobs' = [a |-> "init", arg |-> Ev.arg, exp |-> [alts |-> << [tree |-> PreForest(Ev.arg.pre)] >>], t2 |-> PreForest(Ev.arg.pre)]
  /\ HasObs => Ev.obs.tree = PreForest(Ev.arg.pre)
  /\ TLCSet(1, l) /\ l' = l + 1 /\ UNCHANGED <<vars, j>>

TClear ==
  /\ Ev.a = "clear" /\ j = 0
  /\ target' = <<>>
  /\ fobs' = [a |-> "clear", arg |-> ClearObs.arg, exp |-> ClearObs.exp, t2 |-> <<>>]
  /\ HasObs => (Ev.obs.tree = <<>> /\ Ev.obs.badfree = 0 /\ ("netclear" \in DOMAIN Ev.obs => Ev.obs.netclear = 0))
  /\ TLCSet(1, l) /\ l' = l + 1 /\ UNCHANGED <<vars, j, pre, aside, nl>>

TBegin == Ev.a = "doc" /\ Begin /\ UNCHANGED Mine
TItem  == Ev.a = "doc" /\ Item /\ UNCHANGED Mine

TLoad ==
  /\ Ev.a = "doc" /\ j > Len(Items)
  /\ UNCHANGED vars
  /\ IF HasObs
     THEN LET a == Ev.arg  rec == Ev.obs
              lo == LoadObs(a.fe, a.lacc, a.fail, a.log)
          IN /\ a.text = DocText
             /\ a.log \in LogsOf(a.fe)
             /\ \E out \in DOMAIN lo.exp.alts : AltMatches(lo.exp.alts[out], rec)
             /\ Judge(rec)
             /\ target' = rec.tree
             /\ fobs' = [a |-> lo.a, arg |-> lo.arg, exp |-> lo.exp, t2 |-> rec.tree]
     ELSE /\ PrintT(<<"BEHAV", ToJson(<< [arg |-> [text |-> DocText]] >>)>>)
          /\ UNCHANGED <<target, fobs>>
  /\ nl' = nl + 1
  /\ TLCSet(1, l)
  /\ j' = 0 /\ l' = l + 1 /\ UNCHANGED <<pre, aside>>

FTraceInit == TraceInit /\ pre = 0 /\ target = <<>> /\ aside = <<>> /\ nl = 0
              /\ fobs = [a |-> "init", arg |-> [pre |-> 0], exp |-> [alts |-> <<>>], t2 |-> <<>>]
FTraceNext == l <= Len(TraceLog) /\ (TInit \/ TClear \/ TBegin \/ TItem \/ TLoad)
FTraceSpec == FTraceInit /\ [][FTraceNext]_<<fvars, l, j>>
=============================================================================
