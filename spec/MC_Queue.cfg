SPECIFICATION Spec
CONSTANTS MaxCap = 4 MaxLen = 5 Word = 8 CtrMax = 6
CONSTRAINT Bound
VIEW View
INVARIANTS TypeOK Refines InStorage
PROPERTY RefuseFrame
CHECK_DEADLOCK FALSE
