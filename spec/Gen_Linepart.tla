----------------------------- MODULE Gen_Linepart -----------------------------
(* Behaviour export: one JSON line per generated transition (path to the     *)
(* source state + the transition); data, range and part list are the state.  *)
EXTENDS Linepart, Json
VARIABLE hist
GenInit == Init /\ hist = <<obs>>
GenNext == Next /\ hist' = Append(hist, obs')
GenSpec == GenInit /\ [][GenNext]_<<vars, hist>>
View == <<data, data2, lo, hi, ranged, pos, parts>>
Emit == PrintT(<<"BEHAV", ToJson(hist')>>)
Bound2 == \A i \in 1..Len(data2) : data2[i] \in {-2, 2, 6}   \* thorough 2-d export: second dimension below/inside/above
Rng1 == {<<0, 4>>}
Rng3 == {<<0, 4>>, <<2, 2>>, <<4, 0>>}
Alpha5 == {-2, 0, 2, 4, 6}
Den1 == {1, 2, 3, 7}
Den2 == {1, 2, 3, 5, 7, 16, 100, 65536, 65537, 131072, 200001}
=============================================================================
