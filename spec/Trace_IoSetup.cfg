SPECIFICATION TraceSpec
CONSTANTS MaxIn = 100000 MaxL = 100000 MaxPend = 100000 MaxSent = 100000 Ops <- CEmpty
INVARIANTS TypeOK ReleasedOnce OpenWhileLive
PROPERTIES OwnEventsOnly OnePerConnection ReleaseCause
POSTCONDITION TraceAccepted
CHECK_DEADLOCK FALSE
