-------------------------- MODULE Trace_Containers --------------------------
(* Trace validation: a recorded execution of the real containers (one      *)
(* event per call: arguments, what every handle reads afterwards, the      *)
(* objects' reference counters, end-of-life calls) must be a behaviour of  *)
(* Containers.  Several executions in one log, each starting with "init".  *)
EXTENDS Containers, Json, IOUtils
VARIABLE l
TraceLog == ndJsonDeserialize(IOEnv.TRACE)

Reset(ev) ==
  /\ kind' = ev.arg.kind
  /\ val' = [h \in H |-> <<>>] /\ cnt' = [o \in O |-> 0]
  /\ rec' = [h \in H |-> Null] /\ share' = [h \in H |-> {h}]
  /\ Answer("init", ev.arg, "ok", AnyOut, <<>>)

\* calls the harness does not make because the caller's duty (exclusive ownership, existing element,
\* unused token) is not met: the specification must agree that it is not met
Skipped(ev) ==
  LET h == ev.arg.h IN
  /\ CASE ev.a = "ielem"    -> Shared(h) \/ ev.arg.pos >= Used(h) \/ ~Free(ev.arg.o)
       [] ev.a \in {"rinsert", "rset", "iappend", "iset", "gappend", "gadd", "cfgset"} -> ~Free(ev.arg.o)
       [] ev.a = "ctor"     -> ~IsNull(h)
       [] ev.a = "cfgdel"   -> Shared(h)
       [] ev.a = "cmdset"   -> Shared(h) \/ (ev.arg.tok # 0 /\ cnt[ev.arg.tok] # 0)
       [] ev.a = "cmdclear" -> Shared(h) \/ IsNull(h)
       [] ev.a = "tcopy"    -> ev.arg.from = h \/ IsNull(ev.arg.from) \/ ev.arg.off > Used(h)
       [] ev.a = "cut"      -> IsNull(h) \/ Shared(h)
       [] ev.a = "copy"     -> ev.arg.from = h
       [] OTHER -> FALSE
  /\ Frame
  /\ Answer(ev.a, ev.arg, "skipped", AnyOut, <<>>)

Step(ev) ==
  IF "obs" \notin DOMAIN ev THEN FALSE ELSE
  IF ev.a = "init" THEN Reset(ev) ELSE
  IF ev.obs.ret = "skipped" THEN Skipped(ev) ELSE
  LET g == ev.arg IN
  CASE ev.a = "copy"     -> Copy(g.h, g.from)
    [] ev.a = "release"  -> Release(g.h)
    [] ev.a = "final"    -> Final
    [] ev.a = "rinsert"  -> RInsert(g.h, g.pos, g.o, g.f)
    [] ev.a = "rset"     -> RSet(g.h, g.pos, g.o)
    [] ev.a = "rclear"   -> RClear(g.h, g.o)
    [] ev.a = "rcompact" -> RCompact(g.h)
    [] ev.a = "count"    -> XCount(g.h)
    [] ev.a = "iappend"  -> IAppend(g.h, g.o, g.n, g.f)
    [] ev.a = "iinsert"  -> IInsert(g.h, g.pos, g.f)
    [] ev.a = "iset"     -> ISet(g.h, g.pos, g.o, g.n, g.f)
    [] ev.a = "ielem"    -> IElem(g.h, g.pos, g.o)
    [] ev.a = "icompact" -> ICompact(g.h)
    [] ev.a = "ctor"     -> UCtor(g.h, g.len)
    [] ev.a = "resize"   -> UResize(g.h, g.len, g.f)
    [] ev.a = "reserve"  -> UReserve(g.h, g.len)
    [] ev.a \in {"gappend", "gadd"} -> GAppend(ev.a, g.h, g.o, g.n, g.f)
    [] ev.a = "gclear"   -> GClear(g.h, g.o)
    [] ev.a = "cfgset"   -> CfgSet(g.h, g.p, g.q, g.o)
    [] ev.a = "cfgq"     -> CfgQuery(g.h, g.p, g.q)
    [] ev.a = "cfgdel"   -> CfgDel(g.h, g.p, g.q, g.mode)
    [] ev.a = "cmdset"   -> CmdSet(g.h, g.id, g.tok)
    [] ev.a = "cmdclear" -> CmdClear(g.h)
    [] ev.a = "stage"    -> Stage(g.h, g.dim, g.o)
    [] ev.a = "tcopy"    -> TCopy(g.h, g.from, g.off)
    [] ev.a = "cut"      -> Cut(g.h, g.off, g.n)
    [] OTHER             -> FALSE

Matches(ev) ==
  LET e == obs'.exp o == ev.obs IN
  /\ e.vals = o.vals /\ e.refs = o.refs /\ e.fin = o.fin /\ e.under = o.under
  /\ e.ret = "any" \/ e.ret = o.ret
  /\ e.out = AnyOut \/ e.out = o.out
  /\ e.leak = -1 \/ e.leak = o.leak

TraceInit ==
  /\ l = 1
  /\ kind \in Kinds /\ kind = TraceLog[1].arg.kind
  /\ val = [h \in H |-> <<>>] /\ cnt = [o \in O |-> 0]
  /\ rec = [h \in H |-> Null] /\ share = [h \in H |-> {h}]
  /\ obs = [a |-> "none", arg |-> [h |-> 0],
            exp |-> [ret |-> "ok", out |-> AnyOut, vals |-> [h \in H |-> <<>>], refs |-> [o \in O |-> 1], fin |-> <<>>,
                     under |-> 0, leak |-> -1],
            mdl |-> [refs |-> [h \in H |-> 1], null |-> [h \in H |-> TRUE], nc |-> [h \in H |-> FALSE]]]

DebugAt == IF "DEBUGAT" \in DOMAIN IOEnv THEN atoi(IOEnv.DEBUGAT) ELSE 0

TraceNext ==
  /\ l <= Len(TraceLog)
  /\ l' = l + 1
  /\ LET ev == TraceLog[l] IN
       Step(ev) /\ (Matches(ev) \/ l = DebugAt)

TraceSpec == TraceInit /\ [][TraceNext]_<<vars, l>>

TraceAccepted ==
  LET n == TLCGet("stats").diameter - 1 IN
  /\ PrintT(<<"MATCHED", n>>)
  /\ n = Len(TraceLog)
=============================================================================
