SPECIFICATION TraceSpec
CONSTANTS KindSet = {"axis"} MaxOps = 0
INVARIANTS TypeOK Refines OwnStrings InDomain
PROPERTIES Frame RefuseFrame ResetDefault CopyEqual ReadOnly
POSTCONDITION TraceAccepted
CHECK_DEADLOCK FALSE
