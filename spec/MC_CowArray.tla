---------------------------- MODULE MC_CowArray ----------------------------
(* Exhaustive configuration of CowArray: full state, small constants.     *)
EXTENDS CowArray
CONSTANT CtrMax
Bound == /\ ctr <= CtrMax
         /\ \A h \in H : Len(val[h]) <= MaxLen /\ rec[h].size <= AllocSize(MaxLen + 1)
View  == <<val, vtyp, rec, share, touch, ctr>>     \* obs is an observation, not state
=============================================================================
