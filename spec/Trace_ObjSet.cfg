SPECIFICATION TraceSpec
CONSTANTS KindSet = {"axis"} MaxOps = 0 Lvl = 1 Doors = "all"
INVARIANTS TypeOK Refines OwnStrings
PROPERTIES OtherKept
POSTCONDITION TraceAccepted
CHECK_DEADLOCK FALSE
