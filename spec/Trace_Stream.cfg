SPECIFICATION TraceSpec
CONSTANTS MaxCode = 255 NMsg = 1000000
  MsgSet = {}
  Shapes = {}
  Ks = {}
INVARIANTS TraceIntegrity Availability
POSTCONDITION TraceAccepted
CHECK_DEADLOCK FALSE
