------------------------------ MODULE Gen_Layout ------------------------------
(* Behaviour export: one JSON line per generated transition.  The view is  *)
(* the control skeleton: kind, step count and which properties of the two  *)
(* objects differ from their defaults (values are symmetric).              *)
EXTENDS Layout, Json
VARIABLE hist
Pub(o) == [a |-> o.a, arg |-> o.arg, exp |-> o.exp]
GenInit == Init /\ hist = <<Pub(obs)>>
GenNext == Next /\ hist' = Append(hist, Pub(obs'))
GenSpec == GenInit /\ [][GenNext]_<<vars, hist>>
Mask(o) == {s \in Slots(kind) : t1[o][s] # Def1(kind)[s]}
\* strings also by length class of the target's values (empty, one byte, short, long)
LenClass(r) == LET n == RunTotal(r, 1) IN IF n <= 1 THEN n ELSE IF n < 100 THEN 2 ELSE 3
StrShape == [s \in StrSlots(kind) |-> LenClass(t1[1][s])]
Skel  == <<kind, ops, Mask(1), Mask(2), StrShape>>
(* thorough: after two operations only the shape of the prefix counts (how  *)
(* many properties of each object are set, any string storage in use), so   *)
(* every operation is replayed as third step from a few representative      *)
(* prefixes per kind instead of from every pair.                            *)
Skel3 == <<kind, ops, IF ops < 2 THEN <<Mask(1), Mask(2), StrShape>>
                      ELSE <<Cardinality(Mask(1)), Cardinality(Mask(2)), Ids(kind, t2[1]) # {}, Ids(kind, t2[2]) # {}>> >>
Emit  == PrintT(<<"BEHAV", ToJson(hist')>>)
=============================================================================
