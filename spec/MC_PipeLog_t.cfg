SPECIFICATION Spec
CONSTANTS NMsg = 3 LogMax = 8 MsgSet <- Msgs LogArgs <- LogsQ Quotas <- QuotasT Ks <- KsT Ops <- OpsQ
VIEW View
INVARIANTS TypeOK Integrity OnlyFinished NoForgery Availability
CHECK_DEADLOCK FALSE
