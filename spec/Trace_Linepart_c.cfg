SPECIFICATION TraceSpec
CONSTANTS
  Alphabet = {}
  Ranges = {}
  MaxLen = 0
  Limit = 3
  Chunked = TRUE
  NoRangeLen = 0
  CodeDen = {}
  Dims = 1
INVARIANTS Partition
POSTCONDITION TraceAccepted
CHECK_DEADLOCK FALSE
