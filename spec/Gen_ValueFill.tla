---------------------------- MODULE Gen_ValueFill ----------------------------
(* Behaviour export: one JSON line per generated transition (path to the     *)
(* source state + the transition); scripted families (walk, vfile) print the *)
(* complete script only.  FileSc: scenario records read from $SOURCES        *)
(* (ndjson, parameters only; rendering and prediction stay here).            *)
EXTENDS ValueFillSources, Json, IOUtils
VARIABLE hist
GenInit == InitX /\ hist = <<obs>>
GenNext == NextX /\ hist' = Append(hist, obs')
GenSpec == GenInit /\ [][GenNext]_<<xvars, hist>>
ViewX == <<src, inst, todo, store, arr, nops>>
Emit == IF src.fam \in {"walk", "vfile", "copy"} /\ todo' # <<>> THEN TRUE ELSE PrintT(<<"BEHAV", ToJson(hist')>>)
FileLog == ndJsonDeserialize(IOEnv.SOURCES)
RECURSIVE ToSet(_)
ToSet(x) == {x[i] : i \in DOMAIN x}
FixSc(s) == With(s, [gets |-> ToSet(s.gets), styles |-> ToSet(s.styles), types |-> ToSet(s.types), mods |-> ToSet(s.mods)])
FileSc == {FixSc(FileLog[i]) : i \in 1..Len(FileLog)}
=============================================================================
