--------------------------- MODULE Trace_ConfText ---------------------------
(* Seeded documents at production size.  $TRACE holds one event per        *)
(* document: the format string, the name flags and a list of item          *)
(* parameters (kind, name, value, quoting, decoration) -- no text, no      *)
(* expectation.  The items are fed through the actions of ConfText (an     *)
(* item whose guard is false in the active style is skipped), which        *)
(* renders the document and computes the forest it denotes.                *)
(*   pass 1 (event without obs): the case is printed for the driver;       *)
(*   pass 2 (event with obs = what mpt_parse_node produced for that text): *)
(*           the step is only possible if the recorded forest is the       *)
(*           denoted one -- TLC accepts or rejects the recorded execution. *)
EXTENDS ConfText, Json, IOUtils
VARIABLES l, j
TraceLog == ndJsonDeserialize(IOEnv.TRACE)

Doc == TraceLog[l]
Items == Doc.arg.items

Begin ==
  /\ j = 0
  /\ cfg' = [fmt |-> Doc.arg.fmt, acc |-> Doc.arg.acc, F |-> FormatOf(Doc.arg.fmt), A |-> AcceptOf(Doc.arg.acc)]
  /\ text' = <<>> /\ stack' = << [n |-> <<>>, k |-> <<>>] >> /\ nn' = 0
  /\ obs' = [a |-> "none", arg |-> [x |-> 0], exp |-> [ret |-> "ok", tree |-> <<>>, links |-> 0, ev |-> <<>>]]
  /\ j' = 1 /\ l' = l

(* quoting 1: as the value requires (none if it can be written bare), 2: quoted whenever the format has a quote *)
CanQuote(v) == {q \in F.esc : QuotedOK(F, v, q)}
Quote(it) ==
  IF it.q \notin {1, 2} THEN it.q
  ELSE IF it.q = 1 /\ UnquotedOK(F, it.v) THEN 0
  ELSE IF CanQuote(it.v) # {} THEN CHOOSE q \in CanQuote(it.v) : \A r \in CanQuote(it.v) : q <= r
  ELSE 0

ItemAct(it) ==
  CASE it.k = "opt"   -> AddOption(it.n, it.v, Quote(it), it.d.g, it.d.b1, it.d.b2, it.d.b3, IF F.oe # 0 THEN "end" ELSE it.d.term)
    [] it.k = "open"  -> OpenSection(it.n, it.d.g, it.d.b1, it.d.b2, it.d.g2)
    [] it.k = "close" -> CloseSection(it.d.g)
    [] OTHER -> FALSE

Item ==
  /\ j >= 1 /\ j <= Len(Items)
  /\ LET it == Items[j] IN
       \/ ItemAct(it)
       \/ ~ENABLED ItemAct(it) /\ UNCHANGED vars
  /\ j' = j + 1 /\ l' = l

Finish ==
  /\ j > Len(Items)
  /\ Trailer("none", "none")
  /\ IF "obs" \in DOMAIN Doc
     THEN /\ Doc.obs.ret = obs'.exp.ret /\ Doc.obs.tree = obs'.exp.tree /\ Doc.obs.links = obs'.exp.links
          /\ Doc.arg.text = obs'.arg.text
     ELSE PrintT(<<"BEHAV", ToJson(<<obs'>>)>>)
  /\ TLCSet(1, l)
  /\ j' = 0 /\ l' = l + 1

TraceInit ==
  /\ l = 1 /\ j = 0 /\ TLCSet(1, 0)
  /\ cfg = [fmt |-> Null, acc |-> Null, F |-> FormatOf(Null), A |-> AcceptOf(Null)]
  /\ text = <<>> /\ stack = << [n |-> <<>>, k |-> <<>>] >> /\ nn = 0
  /\ obs = [a |-> "none", arg |-> [x |-> 0], exp |-> [ret |-> "ok", tree |-> <<>>, links |-> 0, ev |-> <<>>]]

TraceNext == l <= Len(TraceLog) /\ (Begin \/ Item \/ Finish)
TraceSpec == TraceInit /\ [][TraceNext]_<<vars, l, j>>

TraceAccepted ==
  LET n == TLCGet(1) IN
  /\ PrintT(<<"MATCHED", n>>)
  /\ n = Len(TraceLog)
=============================================================================
