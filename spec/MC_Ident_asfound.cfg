SPECIFICATION Spec
CONSTANTS NId = 2 Maxes = {2, 3, 6} Lens = {0, 1, 2, 3, 4, 5, 6, 7, 8} TraitsMax = 6 ValSz = 4 PtrSz = 8 Limit = 8 CodeOrder = TRUE
VIEW View
INVARIANTS TypeOK NoBadFree NoLeak Refines CmpAgrees
CHECK_DEADLOCK FALSE
