SPECIFICATION Spec
CONSTANTS DimSeq <- Dims2 MaskSeq <- MasksF CliSeq <- Clis2 DestSeq <- Dest3 PathSeq <- NoSeq Toks <- None
  Impl = "c" WithAll = FALSE Acts <- ActsC MaxTab = 3
  ItemSet <- None MaxItems = 0 GapSet <- None EdgeGaps <- None
  Letters <- None MaxLetters = 0 LetterGaps <- None NodeSet <- None MaxNodes = 0
CONSTRAINT Bound
VIEW View
INVARIANTS TypeOK Refines OneEntryPerKey OneDimPerDest LookupRefines RegRefines BoundRegistered
PROPERTY FrameProp
CHECK_DEADLOCK FALSE
