----------------------------- MODULE MC_BitMap -----------------------------
EXTENDS BitMap, TLC
CONSTANT MaxLevel
View  == <<bits, mem, obs.a = "init">>
Depth == TLCGet("level") <= MaxLevel
=============================================================================
