---------------------------- MODULE MC_Connection ----------------------------
(* Exhaustive configuration of Connection: full state, small constants.    *)
EXTENDS Connection
XView == <<state, xstate>>          \* obs / xobs are observations, not state
CMsgDom == {}
CTextDom == {}
CHretsFail == {-3}
CHretsBoth == {0, -3}
=============================================================================
