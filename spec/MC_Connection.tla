---------------------------- MODULE MC_Connection ----------------------------
(* Exhaustive configuration of Connection: full state, small constants.    *)
EXTENDS Connection
XView == <<state, xstate>>          \* obs / xobs are observations, not state
CMsgDom == {}
CTextDom == {}
=============================================================================
