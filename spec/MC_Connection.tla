---------------------------- MODULE MC_Connection ----------------------------
(* Exhaustive configuration of Connection: full state, small constants.    *)
EXTENDS Connection
XView == <<state, xstate>>          \* obs / xobs are observations, not state
CMsgDom == {}
CTextDom == {}
CHretsFail == {-3}
CRetsZero == {0}
CRetsBoth == {0, -1}
CHretsBoth == {0, -3}
=============================================================================
