---------------------------- MODULE MC_ValueFill ----------------------------
(* Exhaustive configuration of ValueFill; obs is an observation, not state. *)
EXTENDS ValueFillSources
ViewX == <<src, inst, todo, store, arr, nops>>
=============================================================================
