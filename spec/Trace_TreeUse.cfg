SPECIFICATION TraceSpec2
CONSTANTS MaxNodes = 24 Kinds <- NoKinds Pos <- NoPos Keys <- NoKeys
          Paths <- NoPaths APaths <- NoPaths Forests <- NoForests Ups <- NoUps Stops <- NoStops
INVARIANTS TypeOK WellFormed OnceInForest Refines
PROPERTIES CloneIso ReleaseOnce2 Produced Switched
POSTCONDITION TraceAccepted
CHECK_DEADLOCK FALSE
