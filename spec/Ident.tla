------------------------------- MODULE Ident -------------------------------
(***************************************************************************)
(* Identifiers (names) of mptcore/misc/identifier.c (property C16).         *)
(*                                                                         *)
(* Tier 1 (meaning):  name[i] -- the value an identifier slot holds:        *)
(*                    "text" (a byte string, stored with a terminating 0),  *)
(*                    "raw" (n zero bytes, the documented meaning of a      *)
(*                    zero name pointer; n = 0 is the cleared identifier)   *)
(*                    or "dead" (not constructed / finalised).              *)
(* Tier 2 (design):   st[i] mirrors struct identifier {_len,_charset,_max,  *)
(*                    _val[],_base}; heap is the set of separately          *)
(*                    allocated blocks.  The inline bytes beyond ValSz      *)
(*                    overlay the pointer field: writing them destroys the  *)
(*                    pointer (Junk), so the order "remember the old block, *)
(*                    write, release" matters and is checked by TLC         *)
(*                    (NoBadFree, NoLeak).  CodeOrder = TRUE selects the    *)
(*                    order mpt_identifier_copy had at the pinned commit    *)
(*                    (only used by MC_Ident_asfound.cfg to show that TLC   *)
(*                    finds the defect in that design).                     *)
(* obs = what the last call was given (arg) and must answer / leave (exp).  *)
(***************************************************************************)
EXTENDS Naturals, Integers, Sequences, FiniteSets, TLC

CONSTANTS NId,        \* number of identifier slots
          Maxes,      \* inline capacities (_max) offered to init
          Lens,       \* name lengths offered
          TraitsMax,  \* inline capacity of a default-size identifier (traits / copy constructor)
          ValSz,      \* inline bytes in front of the overlaid pointer (4)
          PtrSz,      \* size of the overlaid pointer (8)
          Limit,      \* largest storable length (65535, scaled in MC)
          CodeOrder   \* FALSE: intended design; TRUE: order of the code as found

VARIABLES name,       \* Tier 1
          st, heap,   \* Tier 2
          bad,        \* ghost: a release hit something that was not a live block
          obs
vars == <<name, st, heap, bad, obs>>

Slots == 1..NId
Junk  == -1

---------------------------------------------------------------------------
(* values and their stored image *)
Zeros(n)  == [k \in 1..n |-> 0]
Text(s)   == [kind |-> "text", s |-> s]
Raw(n)    == [kind |-> "raw",  s |-> Zeros(n)]
Dead      == [kind |-> "dead", s |-> <<>>]
Image(v)  == IF v.kind = "text" THEN Append(v.s, 0) ELSE v.s
Live(i)   == name[i].kind # "dead"
NoZero(s) == \A k \in 1..Len(s) : s[k] # 0

(* name patterns: plain, differing in the last byte, with an embedded zero *)
P1(n) == [k \in 1..n |-> ((k - 1) % 250) + 1]
P2(n) == [k \in 1..n |-> IF k = n THEN 251 ELSE ((k - 1) % 250) + 1]
P3(n) == [k \in 1..n |-> IF k = (n + 1) \div 2 THEN 0 ELSE ((k - 1) % 250) + 1]
Strings == {P1(n) : n \in Lens} \cup {P2(n) : n \in Lens \ {0}} \cup {P3(n) : n \in Lens \ {0}}

(* strings compared against a slot: its own text and near misses *)
Chop(s) == SubSeq(s, 1, Len(s) - 1)
Flip(s) == [k \in 1..Len(s) |-> IF k = Len(s) THEN (IF s[k] = 252 THEN 253 ELSE 252) ELSE s[k]]
Near(s) == {s, Append(s, 7), Append(s, 0), <<>>} \cup (IF s = <<>> THEN {} ELSE {Chop(s), Flip(s)})

(* equality demanded by the statement: equal values are equal, values with *)
(* different stored bytes differ; same stored bytes but different kind      *)
(* (text "" against one raw zero byte) is left open.                        *)
Verdict(a, b) == IF a = b THEN "equal" ELSE IF Image(a) = Image(b) THEN "any" ELSE "differs"

---------------------------------------------------------------------------
(* Tier 2 helpers *)
Pad(d, m)   == [k \in 1..m |-> IF k <= Len(d) THEN d[k] ELSE 0]
IsExt(r)    == r.len > r.max
RData(r, h) == IF IsExt(r) THEN h[r.ptr] ELSE SubSeq(r.inl, 1, r.len)
Store(h, b, bytes) == [x \in (DOMAIN h) \cup {b} |-> IF x = b THEN bytes ELSE h[x]]
Remove(h, p) == [x \in (DOMAIN h) \ {p} |-> h[x]]
NewBlk(h)   == CHOOSE b \in 1..(NId + 1) : b \notin DOMAIN h /\ \A c \in 1..(b - 1) : c \in DOMAIN h
FreeBlk(h, p) == IF p = 0 THEN [h |-> h, bad |-> FALSE]                     \* free(NULL)
                 ELSE IF p \in DOMAIN h THEN [h |-> Remove(h, p), bad |-> FALSE]
                 ELSE [h |-> h, bad |-> TRUE]
(* writing n inline bytes destroys the overlaid pointer when n > ValSz *)
WriteInl(r, img) == [r EXCEPT !.inl = Pad(img, r.max),
                              !.ptr = IF Len(img) > ValSz /\ r.max > ValSz THEN Junk ELSE r.ptr]
FreshRec(m, nd) == [max |-> m, len |-> 0, cs |-> 0, inl |-> Zeros(m), ptr |-> 0, nd |-> nd]
DeadRec == [max |-> 0, len |-> 0, cs |-> 0, inl |-> <<>>, ptr |-> 0, nd |-> 0]

(* mpt_identifier_set: the old block is read before the inline bytes are written *)
DSet(r, h, img, cs) ==
  LET n == Len(img)
      old == IF IsExt(r) THEN r.ptr ELSE 0 IN
  IF n > r.max
  THEN LET b == NewBlk(h)
           f == FreeBlk(Store(h, b, img), old) IN
       [r |-> [r EXCEPT !.len = n, !.cs = cs, !.inl = Zeros(r.max), !.ptr = b], h |-> f.h, bad |-> f.bad]
  ELSE LET r1 == WriteInl(r, img)
           f  == FreeBlk(h, old) IN
       [r |-> [r1 EXCEPT !.len = n, !.cs = cs, !.ptr = 0], h |-> f.h, bad |-> f.bad]

(* mpt_identifier_copy.  Intended: remember the old block first.  As found: *)
(* the pointer is read after the inline copy and then zeroed in place.      *)
DCopy(r, h, img, cs) ==
  LET n == Len(img) IN
  IF n > r.max
  THEN LET b == NewBlk(h)
           f == FreeBlk(Store(h, b, img), IF IsExt(r) THEN r.ptr ELSE 0) IN
       [r |-> [r EXCEPT !.len = n, !.cs = cs, !.inl = Zeros(r.max), !.ptr = b], h |-> f.h, bad |-> f.bad]
  ELSE LET r1  == WriteInl(r, img)
           old == IF ~IsExt(r) THEN 0 ELSE IF CodeOrder THEN r1.ptr ELSE r.ptr
           f   == FreeBlk(h, old)
           inl == IF CodeOrder /\ IsExt(r)
                  THEN [k \in 1..r.max |-> IF k > ValSz /\ k <= ValSz + PtrSz THEN 0 ELSE r1.inl[k]]
                  ELSE r1.inl IN
       [r |-> [r1 EXCEPT !.len = n, !.cs = cs, !.inl = inl, !.ptr = 0], h |-> f.h, bad |-> f.bad]

(* mpt_identifier_compare(id, name, len) for a non-zero name pointer *)
DCompare(r, h, s) ==
  IF r.cs # 1 THEN "differs"
  ELSE IF Len(s) + 1 # r.len THEN "differs"
  ELSE LET d == RData(r, h) IN
       IF (\A k \in 1..Len(s) : d[k] = s[k]) /\ d[Len(s) + 1] = 0 THEN "equal" ELSE "differs"
(* mpt_identifier_inequal *)
DInequal(r, q, h) ==
  IF r.cs # q.cs \/ r.len # q.len THEN "differs"
  ELSE IF RData(r, h) = RData(q, h) THEN "equal" ELSE "differs"

Owned(s, h)   == {s[i].ptr : i \in {j \in Slots : IsExt(s[j])}}
Orphans(s, h) == Cardinality((DOMAIN h) \ Owned(s, h))

---------------------------------------------------------------------------
Ids(nm) == [i \in Slots |-> [live |-> IF nm[i].kind = "dead" THEN 0 ELSE 1,
                             len  |-> Len(Image(nm[i])),
                             data |-> Image(nm[i])]]

Answer(a, arg, ret, eq, idx, dsg) ==
  obs' = [a |-> a, arg |-> arg, dsg |-> dsg,
          exp |-> [ret |-> ret, eq |-> eq, idx |-> idx, ids |-> Ids(name'),
                   orphans |-> Orphans(st', heap'), badfree |-> IF bad' THEN 1 ELSE 0]]

Same == UNCHANGED <<name, st, heap, bad>>
Refuse(a, arg) == Same /\ Answer(a, arg, "refused", "na", 0, "na")

Upd(i, v, m) ==
  /\ name' = [name EXCEPT ![i] = v]
  /\ st'   = [st EXCEPT ![i] = m.r]
  /\ heap' = m.h
  /\ bad'  = (bad \/ m.bad)

(* mpt_identifier_set(id, name, len) / set_name: mode "cstr" passes len = -1. *)
(* fail = 1: the next allocation fails -- a call that needs a block is       *)
(* refused and changes nothing, one that does not is not affected.          *)
Set(i, s, mode, fail) ==
  LET arg == [id |-> i, data |-> s, mode |-> mode, fail |-> fail] IN
  /\ Live(i) /\ (mode = "cstr" => NoZero(s))
  /\ IF Len(s) + 1 > Limit \/ (fail = 1 /\ Len(s) + 1 > st[i].max) THEN Refuse("set", arg)
     ELSE /\ Upd(i, Text(s), DSet(st[i], heap, Append(s, 0), 1))
          /\ Answer("set", arg, "ok", "na", 0, "na")

(* mpt_identifier_set(id, data + k, n) with the source inside the identifier's own current content  *)
(* (strip a prefix, truncate, set to itself): the bytes named at the time of the call are the new  *)
(* name -- wherever the old content is kept and wherever the new one goes.                         *)
SetSelf(i, k, n) ==
  LET img == Image(name[i])
      s   == SubSeq(img, k + 1, k + n)
      arg == [id |-> i, off |-> k, n |-> n] IN
  /\ Live(i) /\ k + n <= Len(img)
  /\ IF n + 1 > Limit THEN Refuse("setself", arg)
     ELSE /\ Upd(i, Text(s), DSet(st[i], heap, Append(s, 0), 1))
          /\ Answer("setself", arg, "ok", "na", 0, "na")

(* mpt_identifier_set(id, 0, n): n zero bytes of non-text data; n = 0 clears *)
SetRaw(i, n) ==
  LET arg == [id |-> i, n |-> n] IN
  /\ Live(i)
  /\ IF n > Limit THEN Refuse("setraw", arg)
     ELSE /\ Upd(i, Raw(n), DSet(st[i], heap, Zeros(n), 0))
          /\ Answer("setraw", arg, "ok", "na", 0, "na")

(* mpt_identifier_copy(id, from) / operator= ; fail = 1: the next allocation fails *)
Copy(i, j, fail) ==
  LET arg == [id |-> i, src |-> j, fail |-> fail] IN
  /\ Live(i) /\ Live(j)
  /\ IF i # j /\ fail = 1 /\ st[j].len > st[i].max
     THEN Same /\ Answer("copy", arg, "any", "na", 0, "na")      \* operator= has no answer; nothing may change
     ELSE /\ IF i = j THEN Same
             ELSE Upd(i, name[j], DCopy(st[i], heap, RData(st[j], heap), st[j].cs))
          /\ Answer("copy", arg, "ok", "na", 0, "na")

(* mpt_identifier_copy(id, 0) clears *)
CopyNull(i) ==
  /\ Live(i)
  /\ Upd(i, Raw(0), DSet(st[i], heap, <<>>, 0))
  /\ Answer("copynull", [id |-> i], "ok", "na", 0, "na")

(* mpt_identifier_compare(id, name, len) / equal() *)
Compare(i, s, mode) ==
  /\ Live(i) /\ (mode = "cstr" => NoZero(s))
  /\ Same
  /\ Answer("compare", [id |-> i, data |-> s, mode |-> mode], "ok",
            Verdict(name[i], Text(s)), 0, DCompare(st[i], heap, s))

(* mpt_identifier_inequal(id, cmp) *)
Inequal(i, j) ==
  /\ Live(i) /\ Live(j)
  /\ Same
  /\ Answer("inequal", [id |-> i, other |-> j], "ok",
            Verdict(name[i], name[j]), 0, DInequal(st[i], st[j], heap))

(* mpt_node_locate(curr, pos, name, len, -1) over the slots that live in a  *)
(* node, linked in slot order.  pos > 0: pos-th node named s counting from  *)
(* the first; pos = 0: last node named s; pos < 0: |pos|-th node named s    *)
(* before the last node.  Answer: slot number, 0 = none, -1 = left open.    *)
InList     == {i \in Slots : Live(i) /\ st[i].nd = 1}
Hits(s)    == {i \in InList : name[i] = Text(s)}
Unclear(s) == \E i \in InList : Verdict(name[i], Text(s)) = "any"
NthUp(S, n)   == IF \E i \in S : Cardinality({j \in S : j <= i}) = n
                 THEN CHOOSE i \in S : Cardinality({j \in S : j <= i}) = n ELSE 0
NthDown(S, n) == IF \E i \in S : Cardinality({j \in S : j >= i}) = n
                 THEN CHOOSE i \in S : Cardinality({j \in S : j >= i}) = n ELSE 0
LastIn     == CHOOSE i \in InList : \A j \in InList : j <= i
Locate(s, pos) ==
  LET H == Hits(s)
      r == IF InList = {} THEN 0
           ELSE IF pos > 0 THEN NthUp(H, pos)
           ELSE IF pos = 0 THEN NthDown(H, 1)
           ELSE NthDown(H \ {LastIn}, 0 - pos) IN
  /\ Same
  /\ Answer("locate", [data |-> s, pos |-> pos], "ok", "na", IF Unclear(s) THEN -1 ELSE r, "na")

(* end of life: type_traits fini / ~identifier() *)
Fini(i) ==
  /\ Live(i)
  /\ LET f == FreeBlk(heap, IF IsExt(st[i]) THEN st[i].ptr ELSE 0) IN
       Upd(i, Dead, [r |-> DeadRec, h |-> f.h, bad |-> f.bad])
  /\ Answer("fini", [id |-> i], "ok", "na", 0, "na")

(* mpt_identifier_init on fresh storage of `size` bytes (how = "init"),     *)
(* mpt_identifier_new(size) (how = "new"), mpt_node_new(size) ("node"), or  *)
(* the static initialisers MPT_IDENTIFIER_INIT ("macro": an object of       *)
(* exactly sizeof(struct identifier)) and MPT_NODE_INIT ("nodemacro");      *)
(* m is the inline capacity the storage got.                                *)
InitMax(size) == IF size - 4 > 252 THEN 252 ELSE size - 4
Make(i, size, how, m) ==
  /\ ~Live(i)
  /\ Upd(i, Raw(0), [r |-> FreshRec(m, IF how \in {"new", "macro"} THEN 0 ELSE 1), h |-> heap, bad |-> FALSE])
  /\ Answer("make", [id |-> i, size |-> size, how |-> how], "ok", "na", 0, "na")

(* construct slot i as a copy of slot j (type_traits init / copy           *)
(* constructor); j = 0: default construction.  fail = 1: the allocation a  *)
(* long name needs fails -- the new identifier is empty.                   *)
TInit(i, j, fail) ==
  LET arg == [id |-> i, src |-> j, fail |-> fail] IN
  /\ ~Live(i) /\ (j # 0 => Live(j))
  /\ IF j = 0 \/ (fail = 1 /\ st[j].len > TraitsMax)
     THEN /\ Upd(i, Raw(0), [r |-> FreshRec(TraitsMax, 1), h |-> heap, bad |-> FALSE])
          /\ Answer("tinit", arg, IF j = 0 THEN "ok" ELSE "any", "na", 0, "na")
     ELSE /\ Upd(i, name[j], DCopy(FreshRec(TraitsMax, 1), heap, RData(st[j], heap), st[j].cs))
          /\ Answer("tinit", arg, "ok", "na", 0, "na")

---------------------------------------------------------------------------
InitWith(ms) ==
  /\ name = [i \in Slots |-> Raw(0)]
  /\ st = [i \in Slots |-> FreshRec(ms[i], 1)]
  /\ heap = [x \in {} |-> <<>>]
  /\ bad = FALSE
  /\ obs = [a |-> "init", arg |-> [sizes |-> [i \in Slots |-> ms[i] + 4]], dsg |-> "na",
            exp |-> [ret |-> "ok", eq |-> "na", idx |-> 0, ids |-> Ids([i \in Slots |-> Raw(0)]),
                     orphans |-> 0, badfree |-> 0]]
Init == \E ms \in [Slots -> Maxes] : InitWith(ms)

TextOf(i) == IF name[i].kind = "text" THEN name[i].s ELSE <<>>

Next ==
  \/ \E i \in Slots, s \in Strings : Set(i, s, "len", 0)
  \/ \E i \in Slots, n \in Lens : Set(i, P1(n), "cstr", 0) \/ Set(i, P2(n), "cstr", 0) \/ Set(i, P1(n), "len", 1)
  \/ \E i \in Slots, n \in Lens : SetRaw(i, n)
  \/ \E i \in Slots, j \in Slots : Copy(i, j, 0) \/ Copy(i, j, 1) \/ Inequal(i, j)
  \/ \E i \in Slots : CopyNull(i) \/ Fini(i)
  \/ \E i \in Slots, m \in Maxes : Make(i, m + 4, "init", m)
  \/ \E i \in Slots : Make(i, TraitsMax + 4, "macro", TraitsMax) \/ Make(i, TraitsMax + 4, "nodemacro", TraitsMax)
  \/ \E i \in Slots, k \in {0, 2}, d \in {0, 1} :
        \* (the whole image including its terminator, k = 0 /\ d = 0, would grow the name with every call)
        \* from the plain pattern names only: the results are new names, not sources of further ones
        name[i].kind = "text" /\ name[i].s \in {P1(n) : n \in Lens} /\
        (d = 0 => k >= 1) /\ Len(Image(name[i])) >= k + d /\ SetSelf(i, k, Len(Image(name[i])) - k - d)
  \/ \E i \in Slots, j \in 0..NId : TInit(i, j, 0) \/ TInit(i, j, 1)
  \/ \E i \in Slots, j \in Slots : \E s \in Near(TextOf(j)) : Compare(i, s, "len")
  \/ \E i \in Slots, j \in Slots : Compare(i, TextOf(j), "cstr") \/ Compare(i, Append(TextOf(j), 7), "cstr")
  \/ \E j \in Slots, pos \in {-2, -1, 0, 1, 2} : \E s \in {TextOf(j), Append(TextOf(j), 7)} : Locate(s, pos)

Spec == Init /\ [][Next]_vars

---------------------------------------------------------------------------
(* invariants *)
TypeOK ==
  /\ \A i \in Slots : /\ name[i].kind \in {"text", "raw", "dead"}
                      /\ st[i].len \in 0..Limit
                      /\ Len(st[i].inl) = st[i].max
  /\ bad \in BOOLEAN

(* Tier 2 implements Tier 1: what is read back is the value's image *)
Refines == \A i \in Slots : Live(i) =>
             /\ st[i].len = Len(Image(name[i]))
             /\ (IsExt(st[i]) => st[i].ptr \in DOMAIN heap)
             /\ RData(st[i], heap) = Image(name[i])
             /\ st[i].cs = (IF name[i].kind = "text" THEN 1 ELSE 0)

(* long content is separately allocated, one block per identifier, nothing else is allocated *)
NoLeak    == /\ DOMAIN heap = Owned(st, heap)
             /\ \A i \in Slots, j \in Slots : (i # j /\ IsExt(st[i]) /\ IsExt(st[j])) => st[i].ptr # st[j].ptr
             /\ \A i \in Slots : ~Live(i) => ~IsExt(st[i])
NoBadFree == ~bad

(* the design's comparison agrees with the meaning wherever the statement speaks *)
CmpAgrees == obs.exp.eq \in {"equal", "differs"} => obs.dsg = obs.exp.eq

(* action properties *)
(* a refusal for lack of memory happens only where a block is needed *)
SetReadsBack == [][(obs'.a = "set" /\ obs'.exp.ret = "ok") =>
                     /\ RData(st'[obs'.arg.id], heap') = Append(obs'.arg.data, 0)
                     /\ st'[obs'.arg.id].len = Len(obs'.arg.data) + 1
                     /\ \A k \in Slots \ {obs'.arg.id} : name'[k] = name[k]]_vars
CopyFaithful == [][(obs'.a = "copy" /\ obs'.exp.ret = "ok") =>
                     /\ name'[obs'.arg.id] = name[obs'.arg.src]
                     /\ \A k \in Slots \ {obs'.arg.id} : name'[k] = name[k] /\ st'[k] = st[k]]_vars
RefuseFrame  == [][obs'.exp.ret = "refused" => (name' = name /\ st' = st /\ heap' = heap)]_vars
ReadOnly     == [][obs'.a \in {"compare", "inequal", "locate"} => (name' = name /\ st' = st /\ heap' = heap)]_vars
=============================================================================
