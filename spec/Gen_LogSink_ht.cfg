SPECIFICATION GenSpec
CONSTANTS
  Configs <- CfgsHist
  Heads <- HeadsValG
  Levels = {}
  Calls = {}
  TextBytes = {5, 224, 251}
  MaxText = 4
  Ops = {"abort"}
  LogMax = 256
  AsFound = {}
  Chain = FALSE
  GenMax = 11
VIEW GenView
CONSTRAINT GenBound
CHECK_DEADLOCK FALSE
ACTION_CONSTRAINT Emit
