SPECIFICATION GenSpec
CONSTANTS
  Configs <- CfgsHist
  Heads <- HeadsValG
  Levels = {}
  Calls = {}
  TextBytes = {5, 251}
  MaxText = 3
  Ops = {"abort"}
  LogMax = 256
  AsFound = {}
  Chain = FALSE
  GenMax = 11
VIEW GenView
CONSTRAINT GenBound
CHECK_DEADLOCK FALSE
ACTION_CONSTRAINT Emit
