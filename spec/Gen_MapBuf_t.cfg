SPECIFICATION GenSpec
CONSTANTS NH = 2 Gran = 4 Hdr = 64 PChunk = 64 MaxLen = 3 MaxArg = 3 Prune = TRUE Api = "c" MaxDepth = 6
          Page = 2 MTypes = {"raw", "c", "n"} Meta = {} Need = "map"
          Null <- MNull NewRec <- MNewRec Det <- MDet
CONSTRAINT Bound
VIEW Skel
INVARIANTS TypeOK MTypeOK AliasOK Refines NoTouch
ACTION_CONSTRAINT Emit
CHECK_DEADLOCK FALSE
