SPECIFICATION SpecX
CONSTANTS
  Sources <- ScQuick
  MaxInst = 2
  MaxOps = 7
  ModSet <- ModQ
  QuerySet <- QueryQ
VIEW ViewX
INVARIANTS TypeOKX
PROPERTIES AcceptsX ConsumersVisit FillsColumn CloneIndependent
CHECK_DEADLOCK FALSE
