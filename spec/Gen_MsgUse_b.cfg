SPECIFICATION GenSpec
CONSTANTS
  Alphabet = {0, 32, 34, 61, 97}
  MaxLen = 2
  MaxFrag = 3
  MaxDst = 2
  MaxDstFrag = 2
  MaxQ = 0
  Ops = {}
  EmptyBases = {"slice"}
  ForeignBytes = {0}
  ArrKinds = {"roomy"}
  MaxFail = 0
  Heads <- HeadsB
  UOps = {"cfgnext", "assign", "property"}
VIEW UView
CHECK_DEADLOCK FALSE
ACTION_CONSTRAINT EmitCase
