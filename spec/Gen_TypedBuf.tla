---------------------------- MODULE Gen_TypedBuf ----------------------------
(* Behaviour export: one JSON line per generated transition of the        *)
(* control skeleton (handle 1: count, capacity, flags, type; the others:  *)
(* type, shares-with-1).  Element values are symmetric and hidden.        *)
EXTENDS TypedBuf, Json
CONSTANT MaxDepth
VARIABLE hist
GenInit == Init /\ hist = <<obs>>
GenNext == Next /\ hist' = Append(hist, obs')
GenSpec == GenInit /\ [][GenNext]_<<vars, hist>>
Bound == /\ Len(hist) <= MaxDepth
         /\ \A h \in H : Len(val[h]) <= MaxLen /\ rec[h].size <= AllocSize(MaxLen + 1)
Sk(h)  == <<Len(rec[h].data), rec[h].size, rec[h].imm, rec[h].nc, rec[h].typ>>
\* the C++ call sets also distinguish empty / non-empty for the other handles (copy/move between two containers)
Skel  == <<Sk(1), [h \in H \ {1} |-> <<rec[h].typ, h \in share[1], Api # "c" /\ Len(rec[h].data) > 0>>]>>
Emit  == PrintT(<<"BEHAV", ToJson(hist')>>)
=============================================================================
