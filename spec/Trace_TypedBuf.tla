--------------------------- MODULE Trace_TypedBuf ---------------------------
(* Trace validation: a recorded execution of the real typed-buffer code    *)
(* (one event per call: arguments, what every handle holds afterwards,     *)
(* which elements are alive) must be a behaviour of TypedBuf at the        *)
(* production allocation constants.                                        *)
EXTENDS TypedBuf, Json, IOUtils
VARIABLE l
TraceLog == ndJsonDeserialize(IOEnv.TRACE)
\* the arr element kind cannot observe these counters: the driver omits them
Has(o, k) == k \in DOMAIN o

Reset ==
  /\ val' = [h \in H |-> <<>>] /\ vtyp' = [h \in H |-> "none"] /\ cnt' = [k \in V |-> 0]
  /\ rec' = [h \in H |-> Null] /\ share' = [h \in H |-> {h}]
  /\ ctr' = 0
  /\ Answer("init", [n |-> NH, grane |-> GranE, nv |-> NV], "ok", FALSE)

Skipped(ev) ==
  LET h == ev.arg.h IN
  /\ CASE ev.a = "new" -> ~IsNull(h)
       [] ev.a = "bufinsert" -> rec[h].typ # "elem" \/ Shared(h)
       [] ev.a \in {"bufcut", "bufset"} -> rec[h].typ # "elem" \/ Shared(h) \/ rec[h].imm
       [] ev.a \in {"insert", "detach"} -> rec[h].typ # "elem"
       [] ev.a = "slice" -> IsNull(h)
       [] OTHER -> FALSE
  /\ UNCHANGED <<val, vtyp, cnt, rec, share, ctr>>
  /\ Answer(ev.a, ev.arg, "skipped", FALSE)

Step(ev) ==
  IF "obs" \notin DOMAIN ev THEN FALSE ELSE
  IF ev.a # "init" /\ ev.obs.ret = "skipped" THEN Skipped(ev) ELSE
  CASE ev.a = "init"      -> Reset
    [] ev.a = "new"       -> New(ev.arg.h, ev.arg.data, ev.arg.imm = 1, ev.arg.nc = 1, ev.arg.typ)
    [] ev.a = "settyped"  -> SetTyped(ev.arg.h, ev.arg.data, ev.arg.off, ev.arg.zero, ev.arg.fail, ev.arg.fm)
    [] ev.a = "bufset"    -> BufSet(ev.arg.h, ev.arg.pos, ev.arg.data, ev.arg.zero, ev.arg.fail, ev.arg.fm)
    [] ev.a = "bufcut"    -> BufCut(ev.arg.h, ev.arg.off, ev.arg.n)
    [] ev.a = "bufinsert" -> BufInsert(ev.arg.h, ev.arg.pos, ev.arg.data, ev.arg.dfail)
    [] ev.a = "insert"    -> \E v \in {0, 1} : ArrInsert(ev.arg.h, ev.arg.pos, ev.arg.data, ev.arg.fail, v)
    [] ev.a = "slice"     -> Slice(ev.arg.h, ev.arg.off, ev.arg.n, ev.arg.fail)
    [] ev.a = "reserve"   -> \E v \in {0, 1} : Reserve(ev.arg.h, ev.arg.len, ev.arg.typ, ev.arg.fail, v)
    [] ev.a = "clone"     -> Clone(ev.arg.h, ev.arg.from)
    [] ev.a = "detach"    -> Detach(ev.arg.h, ev.arg.len, ev.arg.fail, 0)
    [] OTHER              -> FALSE

Matches(ev) ==
  LET e == obs'.exp o == ev.obs IN
  /\ "obs" \in DOMAIN ev
  /\ e.vals = o.vals /\ e.lens = o.lens /\ e.typs = o.typs /\ o.refok = "ok"
  /\ Has(o, "irefs") => e.irefs = o.irefs
  /\ Has(o, "nlive") => (e.nlive = o.nlive /\ e.bad = o.bad /\ e.dead = o.dead /\ e.dup = o.dup /\ e.orph = o.orph)
  /\ e.ret = "any" \/ e.ret = o.ret

TraceInit ==
  /\ l = 1
  /\ val = [h \in H |-> <<>>] /\ vtyp = [h \in H |-> "none"] /\ cnt = [k \in V |-> 0]
  /\ rec = [h \in H |-> Null] /\ share = [h \in H |-> {h}]
  /\ ctr = 0
  /\ obs = [a |-> "none", arg |-> [h |-> 0],
            exp |-> [ret |-> "ok", vals |-> [h \in H |-> <<>>], lens |-> [h \in H |-> 0],
                     typs |-> [h \in H |-> "none"], irefs |-> [k \in 1..NV |-> 1], nlive |-> 0,
                     bad |-> 0, dead |-> 0, dup |-> 0, orph |-> 0, either |-> FALSE],
            mdl |-> [sizes |-> [h \in H |-> 0], refs |-> [h \in H |-> 1],
                     imm |-> [h \in H |-> FALSE], nc |-> [h \in H |-> FALSE]]]

DebugAt == IF "DEBUGAT" \in DOMAIN IOEnv THEN atoi(IOEnv.DEBUGAT) ELSE 0
DebugStop == DebugAt = 0 \/ l # DebugAt + 1

TraceNext ==
  /\ l <= Len(TraceLog)
  /\ l' = l + 1
  /\ LET ev == TraceLog[l] IN
       Step(ev) /\ (Matches(ev) \/ l = DebugAt)

TraceSpec == TraceInit /\ [][TraceNext]_<<vars, l>>

TraceAccepted ==
  LET n == TLCGet("stats").diameter - 1 IN
  /\ PrintT(<<"MATCHED", n>>)
  /\ n = Len(TraceLog)
=============================================================================
