---------------------------- MODULE Gen_CobsDec ----------------------------
(* Behaviour export for CobsDec: one JSON line per generated transition    *)
(* under a view that keeps what decides the decoder's future (framing,     *)
(* bytes not yet fed, region from the message start on, decoder state      *)
(* relative to it) and drops the bytes of answered frames.                 *)
EXTENDS CobsDec, Json
VARIABLE hist
K3 == {SCobs(3), SCobsR(3), SZpe(3, 3), SZpeR(3, 3)}
K5 == {SCobs(5), SCobsR(5), SZpe(5, 4), SZpeR(5, 4)}
KindsQ == K3 \cup {KCmd}
KindsT == K3 \cup K5 \cup {KCmd}
AlphaQ == {0, 1, 2, 3, 5}
AlphaT == {0, 1, 2, 3, 5, 6, 7}
AlphaG == {0, 1, 3, 5}
SlacksQ == {0, 2}
GrantsQ == {1, 2}
GenInit == Init /\ hist = <<obs>>
GenNext == Next /\ hist' = Append(hist, obs')
GenSpec == GenInit /\ [][GenNext]_<<vars, hist>>
Bound == Len(reg) <= MaxLen + 6 /\ Len(hist) <= 14
Skel  == <<K, DropN(stream, fedn), DropN(reg, pos), curr - pos, dlen, dmsg, code, cpos, last = "nobuf", lost, fs = fedn>>
Emit  == PrintT(<<"BEHAV", ToJson(hist')>>)
=============================================================================
