SPECIFICATION OSpec
CONSTANTS Kinds = {"loader", "outchain", "cxxmeta"}
  TextLens = {0}
  NH = 2 NObj = 3 Max = 4 MaxExtra = 1 MaxTries = 1 AsFound = FALSE
VIEW OView
CONSTRAINT QuickCap
INVARIANTS OTypeOK AliveIffReachable OCountExact ONoDangling OObsAgrees ProxyComplete
PROPERTIES ORefusedUnchanged ODestroyedOnce ONoResurrection MemberReplacedOnce HandleReplacedOnce BindReleasesOld OTeardownClears
CHECK_DEADLOCK FALSE
