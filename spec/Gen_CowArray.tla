---------------------------- MODULE Gen_CowArray ----------------------------
(* Behaviour export: one JSON line per generated transition of the        *)
(* control skeleton (per handle: used, size, flags, type; sharing).       *)
(* Payload bytes are symmetric and hidden from the view.                  *)
EXTENDS CowArray, Json
CONSTANT MaxDepth
VARIABLE hist
GenInit == Init /\ hist = <<obs>>
GenNext == Next /\ hist' = Append(hist, obs')
GenSpec == GenInit /\ [][GenNext]_<<vars, hist>>
Bound == /\ Len(hist) <= MaxDepth
         /\ \A h \in H : Len(val[h]) <= MaxLen /\ rec[h].size <= AllocSize(MaxLen + 1)
Sk(h)  == <<Len(rec[h].data), rec[h].size, rec[h].imm, rec[h].nc, rec[h].typ,
            rec[h].typ = "c" /\ HasZero(rec[h].data)>>
Skel  == <<Sk(1), [h \in H \ {1} |-> <<rec[h].typ, h \in share[1]>>]>>
Emit  == PrintT(<<"BEHAV", ToJson(hist')>>)
=============================================================================
