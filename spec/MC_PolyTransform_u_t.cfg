SPECIFICATION SpecT
CONSTANTS
  Alphabet <- Alpha5
  Alphabet2 <- Alpha5
  Ranges <- Rng13
  MaxLen = 5
  Limit = 65535
  Chunked = FALSE
  NoRangeLen = 2
  CodeDen = {}
  Dims = 2
  Kinds <- KindsAll
  HalfLimits = FALSE
  Uneven = "short"
VIEW View
INVARIANTS TypeOKT PartsOKT PartitionT CompleteT DevOKT NoNonPosDrawn
CHECK_DEADLOCK FALSE
