-------------------------- MODULE MC_PolyTransform --------------------------
(* Exhaustive configurations of PolyTransform: every sequence of positions   *)
(* over the alphabet (plus the two non-positive values under log) up to      *)
(* MaxLen, every transform kind per dimension; obs is an observation.        *)
EXTENDS PolyTransform
View == <<data, data2, lo, hi, ranged, kind, lim2, pos, parts>>
Rng13 == {<<1, 3>>}
Rng3 == {<<1, 3>>, <<2, 2>>, <<3, 1>>}
Alpha5 == {0, 1, 2, 3, 4}
Alpha3 == {0, 2, 4}
AlphaN == {-3, -2, -1, 0, 1}      \* around the range of negative decades
RngN == {<<-2, 0>>}
KindsAll == {"lin+", "lin-", "log"}
KindsLog == {"log"}
KindsML == {"lin-", "log"}
=============================================================================
