SPECIFICATION FSpec
CONSTANTS Configs <- MCTConfigs OptNames <- MCOptNames SecNames <- MCSecNames Values <- XV
          Decos <- QD MaxNodes = 2 MaxDepth = 2
          FrontEnds <- AllFE LoadAccs <- MCLoadAccs Pres = {0, 2} MaxLoads = 1 MaxFail = 2 MaxAside = 0
          XNames <- XN XValues <- QV XDecos <- QD
VIEW FView
INVARIANTS FTypeOK Refines
PROPERTIES Atomic Faithful
CHECK_DEADLOCK FALSE
