SPECIFICATION Spec
CONSTANTS MaxLen = 4 LenMax = 5 CtrMax = 8
CONSTRAINT Bound
VIEW View
INVARIANT TypeOK
PROPERTY FailFrame
CHECK_DEADLOCK FALSE
