SPECIFICATION MCSpec
CONSTANTS
  LBits = 4
  TypeTab <- ScaledTypes
  GraphLo = 1 GraphHi = 2 MaxBits = 6
  GPrec = 2 ByteMax = 20 DecLimit = 9
  PrintTypes = {"b", "t", "f"}
  IntFormats <- IntFormatsQ
  FltFormats <- FltFormatsQ
  Lefts = {0, 2, 3, 5, 12} FltLefts = {0, 3, 5, 12}
  FmtAlphabet = {32, 43, 102, 120, 48, 49, 50, 57, 46, 45}
  FmtLen = 3
  DestAlphabet = {32, 58, 48, 49, 50, 51, 45, 120}
  DestLen = 3
  DestSeps = {0, 58}
  DestMax = {2, 7}
  RDsts = {"b", "t"}
  RBases = {0}
  RAlphabet = {32, 45, 48, 49, 57, 102}
  RLen = 3
  VecTypes = {"b", "i", "f", "l"}
  VecLen = 1
  SinkTypes = {"b", "q", "x", "f"} SinkCaps = {1, 2} SinkLefts = {0, 3, 6, 30}
INVARIANTS XTypeOK XDesignSound XDesignUseful XDigitsSound XPrintedSound
CHECK_DEADLOCK FALSE
