----------------------------- MODULE Gen_TypeReg -----------------------------
(* Behaviour export at production constants (ranges and built-in sizes from *)
(* the driver's "sizes" record, module TypeRegSizes): every history of at most MaxAdds *)
(* registrations followed by one more call, with the answer TypeReg expects.*)
EXTENDS TypeReg, TypeRegSizes, Json, IOUtils
CONSTANT MaxAdds
VARIABLE hist
FBuiltinIf == <<"convertable", "logger", "reply", "output", "object", "config", "iterator", "collection", "solver">>
GProbe == {0, 1, 4, 11, 24, 25, 26, 32, 64, 67, 90, 96, 99, 105, 108, 115, 122, 127,
           128, 129, 136, 137, 143, 144, 145, 146, 191, 192, 193, 194, 255,
           256, 257, 258, 2047, 2048, 2049, 2050, 2051, 2052, 2303, 2304, 2305, 2306, 4095, 4096, 4352}

GProbeQ == {0, 1, 11, 25, 67, 99, 108, 128, 134, 137, 144, 145, 191, 192, 193, 256, 257, 2047, 2048, 2052, 2304, 2305, 4096}

GenInit == Init /\ hist = <<obs>>
\* registrations that are denied memory are bound by trace validation only (whether a call asks
\* for memory at all is the implementation's business); the format sweep at the machine's byte order
GenNext == /\ Next /\ hist' = Append(hist, obs')
           /\ "fail" \notin DOMAIN obs'.arg
           /\ (obs'.a = "fmtsweep" => obs'.arg.nat = SFmtNative)
GenSpec == GenInit /\ [][GenNext]_<<vars, hist>>
Bound == Cardinality(DOMAIN reg) - Cardinality(DOMAIN BuiltinReg) <= MaxAdds
View  == <<reg, ifs, dyn, metaC, genC>>
Emit  == PrintT(<<"BEHAV", ToJson(hist')>>)
=============================================================================
