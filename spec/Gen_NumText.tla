----------------------------- MODULE Gen_NumText -----------------------------
(***************************************************************************)
(* Case export at the real type widths (LBits = 16): every value of the    *)
(* 8-bit types and the boundary values +-(2^k + d) of the wider integer    *)
(* types x formats x buffer sizes (with the text the design prints and the *)
(* obligation to refuse when the shortest numeral does not fit); floating  *)
(* boundary values x formats; every short format description, destination *)
(* text and ranged numeral with the expectation for every possible         *)
(* consumed length; short vectors with the admissible result per element.  *)
(* The invariants of the model-level check are evaluated on these cases.   *)
(***************************************************************************)
EXTENDS MC_NumText, Json

CONSTANTS Ks,        \* exponents k of the boundary values +-(2^k + d), |d| <= 2
          FltDesign  \* TRUE: the design text of floating prints is computed as well
VARIABLE hist

EdgeVals(T) ==
  LET cand == {IntNum(s, IF dl >= 0 THEN Add(Pow2(k), FromInt(dl)) ELSE Sub(Pow2(k), FromInt(0 - dl))) :
                 s \in {0, 1}, k \in {kk \in Ks : kk >= 1}, dl \in (-2)..2}
              \cup {IntNum(s, FromInt(j)) : s \in {0, 1}, j \in {0, 1, 7, 8, 9, 10, 15, 16, 99, 100}}
  IN {v \in cand : InIntRange(T, v)}

FltEdge(SF) ==
  LET mants == {One, FromInt(3), FromInt(5), FromInt(625), Sub(Pow2(SF.p), One), Add(Pow2(SF.p - 1), One)}
      tops  == {QMin(SF), QMin(SF) + 1, 1 - SF.emax, -20, -14, -13, -4, -1, 0, 1, 3, 10, 19, 20, 30, 63, 64, SF.emax - 1, SF.emax}
      cand  == {Fin(s, m, top - BitLen(m) + 1) : s \in {0, 1}, m \in mants, top \in tops}
  IN {v \in cand : InFormat(SF, v)} \cup {Fin(0, Zero, 0), Inf(0), Inf(1), NaN}

GenVals(t) ==
  LET T == TypeTab[t] IN
  IF T.kind = "int" THEN (IF T.bits <= 8 THEN IntVals(T) ELSE EdgeVals(T)) ELSE FltEdge(T)

(* element values of the sink prints: numerals of 1 .. 20 characters *)
SinkPicks(t) == LET T == TypeTab[t] IN
                {IntLo(T), IntHi(T), NatNum(0), NatNum(3), NatNum(12), NatNum(100)} \cup (IF T.sg = 1 THEN {IntNum(1, FromInt(5))} ELSE {})

GenPrint(api, t, v, f, left) ==
  IF TypeTab[t].kind = "flt" /\ ~FltDesign
  THEN obs' = [a |-> "print",
               arg |-> [api |-> api, src |-> t, v |-> Canon(v), flags |-> f.flags, width |-> f.width, dec |-> f.dec, left |-> left],
               exp |-> [design |-> [PObsRefused EXCEPT !.r = "skip"], must |-> "any"]]
  ELSE PrintNum(api, t, v, f, left)

GenInit == MCInit /\ hist = << >>
GenNext ==
  /\ obs.a = "init"
  /\ CASE obs.arg.kind = "print" ->
            \E v \in GenVals(obs.arg.src) : GenPrint("num", obs.arg.src, v, obs.arg.f, obs.arg.left)
       [] obs.arg.kind = "fmt" ->
            \E s \in StringsOver(FmtAlphabet, obs.arg.first, FmtLen) : FmtGet("get", s) \/ FmtList(s)
       [] obs.arg.kind = "dest" ->
            \E s \in StringsOver(DestAlphabet, obs.arg.first, DestLen) : Dest(s, obs.arg.sep, obs.arg.max)
       [] obs.arg.kind = "rtext" ->
            \E s \in StringsOver(RAlphabet, obs.arg.first, RLen), lo \in RPicks(obs.arg.dst), hi \in RPicks(obs.arg.dst) :
               RText(obs.arg.dst, obs.arg.base, s, lo, hi)
       [] obs.arg.kind = "sink" ->
            \/ \E v \in SinkPicks(obs.arg.src), api \in {"value", "conv"} :
                  PrintSink(api, obs.arg.src, v, obs.arg.pol, obs.arg.cap, obs.arg.left)
            \/ \E n \in 0..2 : \E vs \in [1..n -> SinkPicks(obs.arg.src)] :
                  PrintVec(obs.arg.src, vs, obs.arg.pol, obs.arg.cap, obs.arg.left)
       [] obs.arg.kind = "vec" ->
            \E n \in 0..VecLen : \E vs \in [1..n -> Picks(obs.arg.src)] :
               /\ (obs.arg.sk = "scalar" => n = 1)
               /\ Vec(obs.arg.api, obs.arg.sk, obs.arg.src, obs.arg.dk, obs.arg.dst, vs)
  /\ hist' = <<obs'>>
GenSpec == GenInit /\ [][GenNext]_<<vars, hist>>
Emit == PrintT(<<"BEHAV", ToJson(hist')>>)
=============================================================================
