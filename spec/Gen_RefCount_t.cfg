SPECIFICATION GenSpec
CONSTANTS Kinds = {"buf", "hmeta", "reply", "rawdata", "geninfo", "metabuf", "cxxref", "bare"}
  NH = 3 NObj = 2 Max = 20 MaxExtra = 1 MaxTries = 1 AsFound = FALSE
CONSTRAINT NarrowGap
VIEW Skel
ACTION_CONSTRAINT Emit
CHECK_DEADLOCK FALSE
