SPECIFICATION GenSpec
CONSTANTS Kinds = {"buf", "rawdata", "geninfo", "cxxref"}
  TextLens = {0, 1, 249, 250, 254, 255, 256, 1000}
  NH = 3 NObj = 2 Max = 20 MaxExtra = 1 MaxTries = 1 AsFound = FALSE
CONSTRAINT NarrowGap
VIEW Skel
ACTION_CONSTRAINT Emit
CHECK_DEADLOCK FALSE
