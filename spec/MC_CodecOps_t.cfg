SPECIFICATION XSpec
CONSTANTS
  Modes <- AllModes
  KindsE <- KindsET
  KindsA <- KindsAT
  KindsD <- KindsDT
  Alpha <- AlphaE
  MaxMsg = 2
  MaxMsgs = 3
  MaxMsgsA = 3
  Caps <- CapsZ
  Grows <- Grows12
  DelKs <- Del123
  NextSet <- NextAll
  NextSetA <- NextFew
  Shifts <- Sh12
  DMaxLen = 8
  DSlacks <- Sl02
  DGrants <- Gr2
  DStreams <- Streams3
  DFeeds <- Fd123
  DQs <- Q123
  DOps <- OpsAll
  DMis <- Mis01
  SStreams <- StreamsS
  SQs <- Q1to8
  CapMax = 8
  Kinds <- None
  Pres <- None
CONSTRAINT Bound
VIEW View
INVARIANTS XTypeOK SurvivorsOnly PartialTextX PartialRaw PartialCobs FinDenotesX RefusedX DTypeOK
PROPERTIES AnswerAllowedX DeleteAllowed DeleteClean ReaderView DAnswerAllowed SizeSound ResetClears NoSourceKeeps SizeKeepsState ResetIdempotent DAnswerHonest DUnreadKept
CHECK_DEADLOCK FALSE
