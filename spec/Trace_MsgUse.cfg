SPECIFICATION TraceSpec
CONSTANTS
  Alphabet = {0}
  MaxLen = 0
  MaxFrag = 1
  MaxDst = 0
  MaxDstFrag = 1
  MaxQ = 0
  Ops = {}
  Heads = {}
  UOps = {}
INVARIANTS URefines
PROPERTIES UDesignAgrees
POSTCONDITION TraceAccepted
CHECK_DEADLOCK FALSE
