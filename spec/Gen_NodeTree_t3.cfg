SPECIFICATION GenSpec
CONSTANTS MaxNodes = 3 Kinds <- KindsT Pos <- PosT Keys <- KeysT
VIEW ShapeView
ACTION_CONSTRAINT Emit
CHECK_DEADLOCK FALSE
