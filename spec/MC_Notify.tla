----------------------------- MODULE MC_Notify -----------------------------
(* Exhaustive configuration of Notify: full state, small constants.       *)
EXTENDS Notify
CONSTANTS MaxTok, MaxSent
RECURSIVE SumTo(_, _)
SumTo(f, n) == IF n = 0 THEN 0 ELSE f[n] + SumTo(f, n - 1)
Bound == ntok <= MaxTok /\ SumTo(sent, nin) <= MaxSent
View  == full                      \* obs / nobs are observations, not state
CTexts == {}
OpsT3 == {"unreg"}
OpsQ == {"refuse", "unreg", "relist"}
OpsT == {"refuse", "idle", "unreg", "table", "relist", "kill"}
OpsP == {"unreg", "direct", "idle"}
CHRs2 == {<<1, 0>>, <<-1, 0>>}
OpsAll == {"refuse", "idle", "unreg", "table", "relist", "kill", "direct"}
CHRsQ  == {<<0, 0>>, <<1, 0>>, <<-1, 0>>}
CRVs   == {1, 0, -1}
CWhats == {-1, 4}
CWhats1 == {-1}
CWhatsT == {-1, 1, 4}
CHRsT  == {<<0, 0>>, <<1, 0>>, <<3, 1>>, <<4, 0>>, <<-1, 0>>}
=============================================================================
