---------------------------- MODULE Trace_MapBuf ----------------------------
(* Trace validation for MapBuf: recorded executions of the real array code *)
(* over heap AND mapped buffers at the production constants (granularity   *)
(* 128, page 4096) must be behaviours of the specification.  Everything of *)
(* Trace_CowArray is reused; the calls that name an allocator and the      *)
(* array holders are added.                                                *)
EXTENDS Trace_CowArray, MapBuf

MSkipped(ev) ==
  LET h == ev.arg.h IN
  /\ CASE ev.a \in {"mnew", "new"} -> ~IsNull(h) \/ h \in Meta
       [] ev.a = "meta"      -> h \notin Meta \/ ev.arg.from \in Meta \/ ev.arg.from = h
       [] ev.a = "metaclone" -> h \notin Meta \/ ev.arg.from \notin Meta \/ ev.arg.from = h
                                \/ (IF ev.arg.from \in H THEN IsNull(ev.arg.from) ELSE TRUE)
       [] ev.a = "encfini"   -> h \in Meta
       [] OTHER              -> h \in Meta          \* C04's calls are not made on a handle standing for a metatype
  /\ UNCHANGED <<val, vtyp, rec, share, ctr>> /\ touch' = {}
  /\ Answer(ev.a, ev.arg, "skipped", <<>>, FALSE)

Own == {"mnew", "new", "reserve", "printf", "meta", "metaclone", "encfini"}

MStep(ev) ==
  IF "obs" \notin DOMAIN ev THEN FALSE ELSE
  IF ev.a = "init" THEN Step(ev) ELSE
  IF ev.obs.ret = "skipped" /\ (ev.a \in {"mnew", "new", "meta", "metaclone", "encfini"} \/ ev.arg.h \in Meta)
  THEN MSkipped(ev) ELSE
  IF ev.a \notin Own \/ ev.obs.ret = "skipped" \/ HasHuge(ev.arg) THEN Step(ev) ELSE
  CASE ev.a = "mnew"      -> MNew(ev.arg.h, ev.arg.data, ev.arg.imm = 1, ev.arg.nc = 1, ev.arg.typ)
    [] ev.a = "new"       -> HNew(ev.arg.h, ev.arg.data, ev.arg.imm = 1, ev.arg.nc = 1, ev.arg.typ)
    [] ev.a = "reserve"   -> \E v \in {0, 1} : MReserve(ev.arg.h, ev.arg.len, ev.arg.typ, v)
    [] ev.a = "printf"    -> MPrintf(ev.arg.h, ev.arg.data)
    [] ev.a = "meta"      -> MetaNew(ev.arg.h, ev.arg.from)
    [] ev.a = "metaclone" -> MetaClone(ev.arg.h, ev.arg.from)
    [] ev.a = "encfini"   -> EncFini(ev.arg.h)

MTraceNext ==
  /\ l <= Len(TraceLog)
  /\ l' = l + 1
  /\ LET ev == TraceLog[l] IN
       MStep(ev) /\ (Matches(ev) \/ l = DebugAt)

MTraceSpec == TraceInit /\ [][MTraceNext]_<<vars, l>>
=============================================================================
