SPECIFICATION GenSpec
CONSTANTS
  Alphabet <- Alpha5
  Ranges <- Rng1
  MaxLen = 4
  Limit = 3
  Chunked = TRUE
  NoRangeLen = 4
  CodeDen <- Den1
  Dims = 1
VIEW View
ACTION_CONSTRAINT Emit
CHECK_DEADLOCK FALSE
