SPECIFICATION Spec
CONSTANTS MaxIn = 3 MaxL = 2 MaxPend = 2 MaxSent = 1 Ops <- OpsT
VIEW View
INVARIANTS TypeOK ReleasedOnce OpenWhileLive
PROPERTIES OwnEventsOnly OnePerConnection ReleaseCause
CHECK_DEADLOCK FALSE
