SPECIFICATION TraceSpec
CONSTANTS KindSet = {"ref"} MaxOps = 0 Lvl = 1
INVARIANTS TypeOK
PROPERTIES OtherKept
POSTCONDITION TraceAccepted
CHECK_DEADLOCK FALSE
