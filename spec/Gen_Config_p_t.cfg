SPECIFICATION GenSpecP
CONSTANTS Names <- NamesQ Depth = 1 Vals <- ValsQ Sep = 46 Design = "list" Base <- NoBase MaxSlots = 3
  Ends <- Ends0 Strs <- StrsT Seps <- SepsQ Asgs <- AsgsQ Elems <- ElemsQ
CONSTRAINT BoundPT
VIEW ViewP
ACTION_CONSTRAINT Emit
CHECK_DEADLOCK FALSE
