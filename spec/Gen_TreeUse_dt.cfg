SPECIFICATION GenSpecD
CONSTANTS MaxNodes = 12 Kinds <- Kinds1 Pos <- PosU Keys <- KeysQ
          Paths <- Paths1 APaths <- APaths1 Forests <- Forests1 Ups <- UpsQ Stops <- Stops0
VIEW ShapeView
ACTION_CONSTRAINT EmitU
INVARIANTS WellFormed OnceInForest Refines QueryInv2
CHECK_DEADLOCK FALSE
