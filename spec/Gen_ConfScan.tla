---------------------------- MODULE Gen_ConfScan ----------------------------
(* Tier 2 against the code: the character scanner DataScan of ConfText     *)
(* (model of mpt_parse_data: path buffer, valid length, keep-post flag,    *)
(* quote/escape/comment states) is evaluated on EVERY byte string over a   *)
(* small hostile alphabet (letter, blank, quote, backslash, comment        *)
(* character, option end, line break) up to length ScanLen, for several    *)
(* delimiter sets.  Each case is the one-option document  k=<data>  in the *)
(* options-only style; the specification says whether the option is        *)
(* accepted and with which value (unterminated quotes, escaped quotes,     *)
(* stray delimiters included).  One JSON line per case.                    *)
EXTENDS MC_ConfText, Json
CONSTANT ScanLen

ScanFmts == {FmtOpt, FmtOptEnd,
             <<123, 95, 125, 32, 61, 59, 33, 35, 32, 96>>,        \* "{_} =;!# `"
             <<123, 95, 125, 32, 61, 32, 33, 32, 34>>}            \* "{_} = ! \""
Alphabet(FF) == {97, 32, 92, 10, 59}
                \cup {CHOOSE q \in FF.esc : \A r \in FF.esc : q <= r}
                \cup {CHOOSE c \in ComChars(FF) : TRUE}

RECURSIVE Strs(_, _)
Strs(AA, n) == IF n = 0 THEN {<<>>}
              ELSE LET S == Strs(AA, n - 1) IN S \cup {Append(s, a) : s \in {t \in S : Len(t) = n - 1}, a \in AA}

CaseOf(fmt, s) ==
  LET FF == FormatOf(fmt)
      r == DataScan(FF, s)
      key == B(<<107>>)
  IN [a |-> "events",
      arg |-> [fmt |-> B(fmt), acc |-> B(Null), text |-> B(<<107, FF.as>> \o SubSeq(s, 1, r.used))],
      exp |-> IF r.err THEN [ret |-> "error", ev |-> "any"]
              ELSE [ret |-> "ok", ev |-> << [e |-> "opt", p |-> <<key>>, v |-> B(r.value)] >>]]

ScanInit == /\ cfg = [fmt |-> Null, acc |-> Null, F |-> FormatOf(Null), A |-> AcceptOf(Null)]
            /\ text = <<>> /\ stack = <<>> /\ nn = 0
            /\ obs = [a |-> "none"]
ScanNext == /\ obs.a = "none"
            /\ \E fmt \in ScanFmts : \E s \in Strs(Alphabet(FormatOf(fmt)), ScanLen) : obs' = CaseOf(fmt, s)
            /\ UNCHANGED <<cfg, text, stack, nn>>
ScanSpec == ScanInit /\ [][ScanNext]_vars
EmitScan == PrintT(<<"BEHAV", ToJson(<<obs'>>)>>)
=============================================================================
