SPECIFICATION Spec
CONSTANTS
  Alphabet <- Alpha5
  Ranges <- Rng1
  MaxLen = 6
  Limit = 4
  Chunked = TRUE
  NoRangeLen = 6
  CodeDen <- Den1
  Dims = 1
VIEW View
INVARIANTS TypeOK PartsOK Partition Complete EncodeOK PolyOK
PROPERTIES JoinTotals Progress
CHECK_DEADLOCK FALSE
