SPECIFICATION Spec
CONSTANTS
  Configs <- CfgsHist
  Heads <- HeadsVal2
  Levels = {}
  Calls = {}
  TextBytes = {5, 224, 251}
  MaxText = 3
  Ops = {"abort"}
  LogMax = 256
  AsFound = {}
VIEW MCView
CHECK_DEADLOCK FALSE
INVARIANTS TypeOK IdleClean Engaged
PROPERTIES DesignAgrees
