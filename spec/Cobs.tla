-------------------------------- MODULE Cobs --------------------------------
(***************************************************************************)
(* Pure (state-free) definitions of the message framings of mpt-base:      *)
(* COBS, COBS/R (tail inline), COBS/ZPE (zero pair elimination), COBS/ZPE+R *)
(* and the zero-terminated command text.  Used by CobsEnc (C01), CobsDec   *)
(* (C03) and the stream module (C02).  Nothing here mirrors library code:  *)
(* RefDec/RefEnc are the independent reference the library is judged by.   *)
(*                                                                         *)
(* A framing ("kind") is a record K:                                       *)
(*   name  string, only for logs                                           *)
(*   cmd   TRUE for the command text framing (then the rest is unused)     *)
(*   max   largest block code M (255 COBS, 223 ZPE; 3/5 in scaled models)  *)
(*   inl   tail inline (the /R variants)                                   *)
(*   zpe   zero pair elimination: a code byte c > max stands for           *)
(*         c-(max+1) data bytes followed by TWO zero bytes                 *)
(*   zlim  the encoder forms a pair code only for open block codes         *)
(*         1 < c < zlim (32 in production)                                 *)
(* A frame is a byte sequence whose only zero byte is its last byte; the   *)
(* zero-free part in front of the delimiter is called its body.            *)
(*                                                                         *)
(* Block structure of a body (non-cmd kinds), read left to right: a code   *)
(* byte c, then DataLen(K,c) literal (non-zero) data bytes, then           *)
(* implicit zeros: two for a pair code; one for c < max unless the block   *)
(* is the last one of the frame; none for c = max.                         *)
(* Tail inline (inl): when fewer than DataLen bytes are left the block is  *)
(* the last one and the code byte itself is the final data byte.           *)
(***************************************************************************)
EXTENDS Naturals, Sequences, FiniteSets

Byte == 0..255

\* production kinds
KCobs  == [name |-> "cobs",   cmd |-> FALSE, max |-> 255, inl |-> FALSE, zpe |-> FALSE, zlim |-> 0]
KCobsR == [name |-> "cobs_r", cmd |-> FALSE, max |-> 255, inl |-> TRUE,  zpe |-> FALSE, zlim |-> 0]
KZpe   == [name |-> "zpe",    cmd |-> FALSE, max |-> 223, inl |-> FALSE, zpe |-> TRUE,  zlim |-> 32]
KZpeR  == [name |-> "zpe_r",  cmd |-> FALSE, max |-> 223, inl |-> TRUE,  zpe |-> TRUE,  zlim |-> 32]
KCmd   == [name |-> "cmd",    cmd |-> TRUE,  max |-> 0,   inl |-> FALSE, zpe |-> FALSE, zlim |-> 0]
ProdKinds == {KCobs, KCobsR, KZpe, KZpeR, KCmd}

\* scaled kinds: same rules, block code limit m, pair codes for 1 < c < zl
SCobs(m)      == [name |-> "cobs",   cmd |-> FALSE, max |-> m, inl |-> FALSE, zpe |-> FALSE, zlim |-> 0]
SCobsR(m)     == [name |-> "cobs_r", cmd |-> FALSE, max |-> m, inl |-> TRUE,  zpe |-> FALSE, zlim |-> 0]
SZpe(m, zl)   == [name |-> "zpe",    cmd |-> FALSE, max |-> m, inl |-> FALSE, zpe |-> TRUE,  zlim |-> zl]
SZpeR(m, zl)  == [name |-> "zpe_r",  cmd |-> FALSE, max |-> m, inl |-> TRUE,  zpe |-> TRUE,  zlim |-> zl]

\* kind by name at block limit m (m = 0: production constants)
KindOf(nm, m, zl) ==
  IF nm = "cmd" THEN KCmd
  ELSE IF m = 0 THEN CHOOSE K \in ProdKinds : K.name = nm
  ELSE CHOOSE K \in {SCobs(m), SCobsR(m), SZpe(m, zl), SZpeR(m, zl)} : K.name = nm

CmdHeader == <<4, 32>>      \* MPT_MESGTYPE(Command), ' ' prepended by the command decoder

---------------------------------------------------------------------------
(* helpers *)
Zeros(n)   == [i \in 1..n |-> 0]
HasZero(s) == \E i \in 1..Len(s) : s[i] = 0
NoZero(s)  == \A i \in 1..Len(s) : s[i] # 0
FirstZero(s) == CHOOSE i \in 1..Len(s) : s[i] = 0 /\ \A j \in 1..(i - 1) : s[j] # 0
DropN(s, n)  == SubSeq(s, n + 1, Len(s))
TakeN(s, n)  == SubSeq(s, 1, n)

IsPair(K, c)  == K.zpe /\ c > K.max              \* c is a zero-pair code
DataLen(K, c) == IF IsPair(K, c) THEN c - (K.max + 1) ELSE c - 1
PairCode(K, c) == c + K.max                      \* pair code for open block code c

\* a frame: non-empty, ends with the delimiter, no other zero
IsFrame(f)   == Len(f) > 0 /\ f[Len(f)] = 0 /\ NoZero(TakeN(f, Len(f) - 1))
BodyOf(f)    == TakeN(f, Len(f) - 1)
WellFormed(f) == IsFrame(f)      \* "contains no zero byte except its single terminating delimiter"

---------------------------------------------------------------------------
(* Reference decoder.                                                      *)
(* RefBody(K, b) for a zero-free body b gives [st, msg]:                   *)
(*   st = "ok"   b is a well-formed body, msg is its message               *)
(*   st = "bad"  malformed: must not be turned into a message              *)
(*   st = "amb"  the statement of C03 does not settle the case (truncated  *)
(*               pair-code block in an inline framing: the code byte       *)
(*               promises two zeros the frame does not deliver, yet every  *)
(*               truncated last block is a tail inline in COBS/R);         *)
(*               an error or exactly msg are both accepted                 *)
RECURSIVE RefFrom(_, _, _)
RefFrom(K, b, i) ==      \* i: position of a code byte, i <= Len(b)
  LET c    == b[i]
      n    == DataLen(K, c)
      rest == Len(b) - i
  IN IF rest < n
     THEN IF ~K.inl THEN [st |-> "bad", msg |-> <<>>]
          ELSE [st |-> IF IsPair(K, c) THEN "amb" ELSE "ok",
                msg |-> SubSeq(b, i + 1, Len(b)) \o <<c>>]
     ELSE LET data == SubSeq(b, i + 1, i + n) IN
          IF rest = n
          THEN [st |-> "ok", msg |-> data \o (IF IsPair(K, c) THEN <<0, 0>> ELSE <<>>)]
          ELSE LET r  == RefFrom(K, b, i + n + 1)
                   zz == IF IsPair(K, c) THEN <<0, 0>> ELSE IF c < K.max THEN <<0>> ELSE <<>>
               IN [st |-> r.st, msg |-> data \o zz \o r.msg]

RefBody(K, b) ==
  IF K.cmd THEN [st |-> "ok", msg |-> CmdHeader \o b]
  ELSE IF Len(b) = 0 THEN [st |-> "bad", msg |-> <<>>]     \* leading / double delimiter
  ELSE RefFrom(K, b, 1)

\* reference decoder on a frame
RefDec(K, f) == IF IsFrame(f) THEN RefBody(K, BodyOf(f)) ELSE [st |-> "bad", msg |-> <<>>]

\* the message a frame denotes for the round trip (command text: without header)
Payload(K, m) == IF K.cmd THEN DropN(m, 2) ELSE m
Denotes(K, f, m) == LET r == RefDec(K, f) IN r.st = "ok" /\ Payload(K, r.msg) = m

\* messages the framing admits
Admits(K, m) == IF K.cmd THEN NoZero(m) ELSE TRUE

---------------------------------------------------------------------------
(* Reference encoder (canonical block decomposition, greedy pairs).        *)
(* Only used to state RefDec(RefEnc(m)) = m and to produce well-formed     *)
(* frames for the decoder models; the library need not produce these bytes.*)
RECURSIVE Blocks(_, _, _)
\* m: remaining message, run: literal bytes of the open block
Blocks(K, m, run) ==
  LET code == Len(run) + 1 IN
  IF Len(m) = 0 THEN
       IF K.inl /\ code > 1 /\ run[Len(run)] > code /\ (~K.zpe \/ run[Len(run)] <= K.max)
       THEN <<run[Len(run)]>> \o TakeN(run, Len(run) - 1)
       ELSE <<code>> \o run
  ELSE IF m[1] = 0 THEN
       IF K.zpe /\ Len(m) > 1 /\ m[2] = 0 /\ code > 1 /\ code < K.zlim
       THEN <<PairCode(K, code)>> \o run \o Blocks(K, DropN(m, 2), <<>>)
       ELSE <<code>> \o run \o Blocks(K, DropN(m, 1), <<>>)
  ELSE IF code + 1 = K.max
       THEN <<K.max>> \o run \o <<m[1]>> \o Blocks(K, DropN(m, 1), <<>>)
       ELSE Blocks(K, DropN(m, 1), Append(run, m[1]))

RefEnc(K, m) == IF K.cmd THEN m \o <<0>> ELSE Blocks(K, m, <<>>) \o <<0>>

---------------------------------------------------------------------------
(* Byte streams (used by CobsDec and the stream module): split at the      *)
(* first delimiter.                                                        *)
HasFrame(s)   == HasZero(s)
FirstFrame(s) == TakeN(s, FirstZero(s))
AfterFrame(s) == DropN(s, FirstZero(s))

\* all sequences over alphabet A of length <= n
SeqsUpTo(A, n) == UNION {[1..k -> A] : k \in 0..n}
=============================================================================
