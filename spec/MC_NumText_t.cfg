SPECIFICATION MCSpec
CONSTANTS
  LBits = 4
  TypeTab <- ScaledTypes
  GraphLo = 1 GraphHi = 2 MaxBits = 6
  GPrec = 3 ByteMax = 20 DecLimit = 9
  PrintTypes = {"b", "y", "n", "q", "i", "u", "x", "t", "l", "f", "d"}
  IntFormats <- IntFormatsT
  FltFormats <- FltFormatsT
  Lefts = {0, 1, 2, 3, 4, 5, 6, 9, 12}
  FltLefts = {0, 4, 7, 12}
  FmtAlphabet = {32, 43, 102, 101, 120, 48, 49, 50, 57, 46, 45}
  FmtLen = 4
  DestAlphabet = {32, 58, 48, 49, 50, 51, 45, 120, 43}
  DestLen = 4
  DestSeps = {0, 58}
  DestMax = {1, 2, 7}
  RDsts = {"b", "y", "x", "t"}
  RBases = {0, 16}
  RAlphabet = {32, 45, 43, 48, 49, 57, 102, 120}
  RLen = 3
  VecTypes = {"c", "b", "y", "i", "u", "x", "f", "d", "e", "l"}
  VecLen = 2
  SinkTypes = {"b", "y", "n", "q", "x", "t", "f", "d"} SinkCaps = {1, 2, 3} SinkLefts = {0, 2, 3, 5, 6, 9, 30}
INVARIANTS XTypeOK XDesignSound XDesignUseful XDigitsSound XPrintedSound
CHECK_DEADLOCK FALSE
