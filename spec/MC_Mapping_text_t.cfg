SPECIFICATION Spec
CONSTANTS DimSeq <- Dims3 MaskSeq <- Masks17 CliSeq <- Clis2 DestSeq <- NoSeq PathSeq <- NoSeq Toks <- None
  Impl = "c" WithAll = FALSE Acts <- ActsTxt MaxTab = 2
  ItemSet <- ItemsT MaxItems = 2 GapSet <- Gaps1 EdgeGaps <- Edge01
  Letters <- None MaxLetters = 0 LetterGaps <- None NodeSet <- None MaxNodes = 0
CONSTRAINT Bound
VIEW View
INVARIANTS TypeOK Refines OneEntryPerKey OneDimPerDest LookupRefines RegRefines BoundRegistered
PROPERTY FrameProp
CHECK_DEADLOCK FALSE
