----------------------------- MODULE MC_IoQueue -----------------------------
EXTENDS IoQueue
CONSTANTS LenMax, CtrMax
Bound == Len(deq) <= LenMax /\ ctr <= CtrMax
View == <<deq, ctr>>
=============================================================================
