SPECIFICATION GenSpec
CONSTANTS Widths = {0, 1, 2, 4, 5, 9} MaxH = 3 MaxOwn = 1
  LimbDom = {0, 1, 127, 128, 255, 256, 32767, 32768, 65535} IdWidths = {0, 1, 2, 3, 4, 5, 6, 7, 8, 9}
  StreamWidths = {1, 2, 4, 8}
  MsgDom <- CMsgDom TextDom <- CTextDom
VIEW Skel
ACTION_CONSTRAINT Emit
CHECK_DEADLOCK FALSE
