------------------------------- MODULE BigNat -------------------------------
(***************************************************************************)
(* Natural numbers of arbitrary size as sequences of limbs (TLC integers   *)
(* are 32 bit; the conversions of property C07 need 64-bit integers,       *)
(* 1000-bit double values and 300-digit numerals).                         *)
(*                                                                         *)
(* A BigNat is a sequence of limbs 0..Base-1, least significant first,     *)
(* without a most-significant zero limb; zero is << >>.                    *)
(* LBits = 16 at production size; the model-level checks also run with     *)
(* LBits = 4 so that carries and multi-limb cases occur for small numbers. *)
(* Every intermediate value stays below 2^31 for LBits <= 16 and small     *)
(* factors <= 32767.                                                       *)
(***************************************************************************)
EXTENDS Integers, Sequences, SequencesExt, TLC

CONSTANT LBits
Base == 2^LBits

IsBigNat(a) == /\ \A i \in 1..Len(a) : a[i] \in 0..(Base - 1)
               /\ (Len(a) = 0 \/ a[Len(a)] # 0)

Limb(a, i) == IF i <= Len(a) THEN a[i] ELSE 0

RECURSIVE Norm(_)
Norm(a) == IF Len(a) = 0 THEN a
           ELSE IF a[Len(a)] = 0 THEN Norm(SubSeq(a, 1, Len(a) - 1)) ELSE a

RECURSIVE FromInt(_)
FromInt(n) == IF n = 0 THEN << >> ELSE <<n % Base>> \o FromInt(n \div Base)

RECURSIVE ToIntAt(_, _)
ToIntAt(a, i) == IF i > Len(a) THEN 0 ELSE a[i] + Base * ToIntAt(a, i + 1)
ToInt(a) == ToIntAt(a, 1)            \* only for values that fit a TLC integer

Zero == << >>
One  == <<1>>
IsZero(a) == Len(a) = 0

(* comparison: -1, 0, 1 *)
RECURSIVE CmpAt(_, _, _)
CmpAt(a, b, i) == IF i = 0 THEN 0
                  ELSE IF a[i] < b[i] THEN -1
                  ELSE IF a[i] > b[i] THEN 1
                  ELSE CmpAt(a, b, i - 1)
Cmp(a, b) == IF Len(a) < Len(b) THEN -1
             ELSE IF Len(a) > Len(b) THEN 1
             ELSE CmpAt(a, b, Len(a))

(***************************************************************************)
(* Addition and multiplication by a small factor without deep recursion:   *)
(* per position the column sum s[i] is below 2*Base, so the carry into     *)
(* position i+1 is 0 or 1 and is decided by the nearest lower column that  *)
(* is not exactly Base-1 (carry lookback; chains of Base-1 are short).     *)
(***************************************************************************)
RECURSIVE CarryOut(_, _)
CarryOut(s, i) == IF i = 0 THEN 0
                  ELSE IF s[i] >= Base THEN 1
                  ELSE IF s[i] = Base - 1 THEN CarryOut(s, i - 1)
                  ELSE 0
(* TLC keeps [i \in 1..n |-> e] unevaluated and re-evaluates e on every   *)
(* application; SubSeq forces a tuple once                                *)
Force(f, n) == SubSeq(f, 1, n)
Resolve(s0) == LET n == Len(s0)
                   s == Force(s0, n)
               IN Norm(Force([i \in 1..n |-> (s[i] + CarryOut(s, i - 1)) % Base], n))

Add(a, b) ==
  LET n == (IF Len(a) > Len(b) THEN Len(a) ELSE Len(b)) + 1 IN
  Resolve([i \in 1..n |-> Limb(a, i) + Limb(b, i)])

(* subtraction a - b for a >= b *)
RECURSIVE SubFrom(_, _, _, _)
SubFrom(a, b, i, br) ==
  IF i > Len(a) THEN << >>
  ELSE LET s == a[i] - Limb(b, i) - br IN
       IF s < 0 THEN <<s + Base>> \o SubFrom(a, b, i + 1, 1)
       ELSE <<s>> \o SubFrom(a, b, i + 1, 0)
Sub(a, b) == Norm(SubFrom(a, b, 1, 0))

(* a * k + c for small k, c (k <= 32767 when LBits = 16, c < Base) *)
RECURSIVE MulFrom(_, _, _, _)
MulFrom(a, k, i, c) ==
  IF i > Len(a) THEN FromInt(c)
  ELSE LET p == a[i] * k + c IN
       <<p % Base>> \o MulFrom(a, k, i + 1, p \div Base)
MulFast(a, k, c) ==        \* k <= Base, c < Base
  LET n == Len(a) + 1 IN
  Resolve([i \in 1..n |-> ((Limb(a, i) * k) % Base)
                          + (IF i = 1 THEN c ELSE (a[i - 1] * k) \div Base)])
MulAdd(a, k, c) == IF k = 0 THEN FromInt(c)
                   ELSE IF k <= Base /\ c < Base THEN MulFast(a, k, c)
                   ELSE MulFrom(a, k, 1, c)
MulSmall(a, k)  == MulAdd(a, k, 0)

(* shifts (multiplication by / floor division by 2^s) *)
ShlLimbs(a, q) == IF Len(a) = 0 \/ q = 0 THEN a ELSE [i \in 1..q |-> 0] \o a
Shl(a, s) == ShlLimbs(MulSmall(a, 2^(s % LBits)), s \div LBits)
Shr(a, s) ==
  LET q == s \div LBits
      r == s % LBits
      n == Len(a) - q
  IN IF n <= 0 THEN << >>
     ELSE Norm(Force([i \in 1..n |->
                  (a[q + i] \div 2^r) + (Limb(a, q + i + 1) % 2^r) * 2^(LBits - r)], n))
LowBits(a, s) == Sub(a, Shl(Shr(a, s), s))        \* a mod 2^s
MultPow2(a, s) == IsZero(LowBits(a, s))           \* 2^s divides a

BitLenInt(n) == CHOOSE k \in 1..LBits : 2^(k - 1) <= n /\ n < 2^k
BitLen(a) == IF Len(a) = 0 THEN 0 ELSE (Len(a) - 1) * LBits + BitLenInt(a[Len(a)])
Pow2(k) == Shl(One, k)

(* number of trailing zero bits of a # 0 *)
RECURSIVE TzLimbs(_, _)
TzLimbs(a, i) == IF a[i] # 0 THEN i - 1 ELSE TzLimbs(a, i + 1)
TzInt(n) == CHOOSE k \in 0..(LBits - 1) : n % 2^k = 0 /\ (n \div 2^k) % 2 = 1
TrailZeros(a) == LET q == TzLimbs(a, 1) IN q * LBits + TzInt(a[q + 1])

(* Long loops use FoldLeft (iterated by TLC in Java): a TLA+ recursion of   *)
(* depth ~1000 over growing numbers is slower by orders of magnitude.      *)
(* digits (most significant first) in a radix <= 36 *)
FromDigits(ds, radix) == FoldLeft(LAMBDA acc, dg : MulAdd(acc, radix, dg), Zero, ds)

(* a * 10^k = (a * 5^k) * 2^k *)
MulPow5(a, k) ==
  LET big == FoldLeft(LAMBDA acc, i : MulSmall(acc, 15625), a, [i \in 1..(k \div 6) |-> i])
  IN FoldLeft(LAMBDA acc, i : MulSmall(acc, 5), big, [i \in 1..(k % 6) |-> i])
MulPow10(a, k) == Shl(MulPow5(a, k), k)

(* general product, b short: schoolbook over the half limbs of b *)
HalfBits == LBits \div 2
Halves(b) == Force([j \in 1..(2 * Len(b)) |->
                IF j % 2 = 1 THEN b[(j + 1) \div 2] % 2^HalfBits ELSE b[j \div 2] \div 2^HalfBits], 2 * Len(b))
RECURSIVE MulAcc(_, _, _, _)
MulAcc(a, h, j, acc) ==
  IF j > Len(h) THEN acc
  ELSE MulAcc(a, h, j + 1, IF h[j] = 0 THEN acc ELSE Add(acc, Shl(MulSmall(a, h[j]), (j - 1) * HalfBits)))
Mul(a, b) == IF IsZero(a) \/ IsZero(b) THEN Zero ELSE MulAcc(a, Halves(b), 1, Zero)
=============================================================================
