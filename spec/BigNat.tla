------------------------------- MODULE BigNat -------------------------------
(***************************************************************************)
(* Natural numbers of arbitrary size as sequences of limbs (TLC integers   *)
(* are 32 bit; the conversions of property C07 need 64-bit integers,       *)
(* 1000-bit double values and 300-digit numerals).                         *)
(*                                                                         *)
(* A BigNat is a sequence of limbs 0..Base-1, least significant first,     *)
(* without a most-significant zero limb; zero is << >>.                    *)
(* LBits = 16 at production size; the model-level checks also run with     *)
(* LBits = 4 so that carries and multi-limb cases occur for small numbers. *)
(* Every intermediate value stays below 2^31 for LBits <= 16 and small     *)
(* factors <= 32767.                                                       *)
(***************************************************************************)
EXTENDS Integers, Sequences, TLC

CONSTANT LBits
Base == 2^LBits

IsBigNat(a) == /\ \A i \in 1..Len(a) : a[i] \in 0..(Base - 1)
               /\ (Len(a) = 0 \/ a[Len(a)] # 0)

Limb(a, i) == IF i <= Len(a) THEN a[i] ELSE 0

RECURSIVE Norm(_)
Norm(a) == IF Len(a) = 0 THEN a
           ELSE IF a[Len(a)] = 0 THEN Norm(SubSeq(a, 1, Len(a) - 1)) ELSE a

RECURSIVE FromInt(_)
FromInt(n) == IF n = 0 THEN << >> ELSE <<n % Base>> \o FromInt(n \div Base)

RECURSIVE ToIntAt(_, _)
ToIntAt(a, i) == IF i > Len(a) THEN 0 ELSE a[i] + Base * ToIntAt(a, i + 1)
ToInt(a) == ToIntAt(a, 1)            \* only for values that fit a TLC integer

Zero == << >>
One  == <<1>>
IsZero(a) == Len(a) = 0

(* comparison: -1, 0, 1 *)
RECURSIVE CmpAt(_, _, _)
CmpAt(a, b, i) == IF i = 0 THEN 0
                  ELSE IF a[i] < b[i] THEN -1
                  ELSE IF a[i] > b[i] THEN 1
                  ELSE CmpAt(a, b, i - 1)
Cmp(a, b) == IF Len(a) < Len(b) THEN -1
             ELSE IF Len(a) > Len(b) THEN 1
             ELSE CmpAt(a, b, Len(a))

(* addition *)
RECURSIVE AddFrom(_, _, _, _)
AddFrom(a, b, i, c) ==
  IF i > Len(a) /\ i > Len(b) THEN (IF c = 0 THEN << >> ELSE <<c>>)
  ELSE LET s == Limb(a, i) + Limb(b, i) + c IN
       <<s % Base>> \o AddFrom(a, b, i + 1, s \div Base)
Add(a, b) == AddFrom(a, b, 1, 0)

(* subtraction a - b for a >= b *)
RECURSIVE SubFrom(_, _, _, _)
SubFrom(a, b, i, br) ==
  IF i > Len(a) THEN << >>
  ELSE LET s == a[i] - Limb(b, i) - br IN
       IF s < 0 THEN <<s + Base>> \o SubFrom(a, b, i + 1, 1)
       ELSE <<s>> \o SubFrom(a, b, i + 1, 0)
Sub(a, b) == Norm(SubFrom(a, b, 1, 0))

(* a * k + c for small k, c (k <= 32767 when LBits = 16) *)
RECURSIVE MulFrom(_, _, _, _)
MulFrom(a, k, i, c) ==
  IF i > Len(a) THEN FromInt(c)
  ELSE LET p == a[i] * k + c IN
       <<p % Base>> \o MulFrom(a, k, i + 1, p \div Base)
MulAdd(a, k, c) == IF k = 0 THEN FromInt(c) ELSE MulFrom(a, k, 1, c)
MulSmall(a, k)  == MulAdd(a, k, 0)

(* shifts (multiplication by / floor division by 2^s) *)
ShlLimbs(a, q) == IF Len(a) = 0 THEN a ELSE [i \in 1..q |-> 0] \o a
Shl(a, s) == ShlLimbs(MulSmall(a, 2^(s % LBits)), s \div LBits)
Shr(a, s) ==
  LET q == s \div LBits
      r == s % LBits
      n == Len(a) - q
  IN IF n <= 0 THEN << >>
     ELSE Norm([i \in 1..n |->
                  (a[q + i] \div 2^r) + (Limb(a, q + i + 1) % 2^r) * 2^(LBits - r)])
LowBits(a, s) == Sub(a, Shl(Shr(a, s), s))        \* a mod 2^s
MultPow2(a, s) == IsZero(LowBits(a, s))           \* 2^s divides a

BitLenInt(n) == CHOOSE k \in 1..LBits : 2^(k - 1) <= n /\ n < 2^k
BitLen(a) == IF Len(a) = 0 THEN 0 ELSE (Len(a) - 1) * LBits + BitLenInt(a[Len(a)])
Pow2(k) == Shl(One, k)

(* number of trailing zero bits of a # 0 *)
RECURSIVE TzLimbs(_, _)
TzLimbs(a, i) == IF a[i] # 0 THEN i - 1 ELSE TzLimbs(a, i + 1)
TzInt(n) == CHOOSE k \in 0..(LBits - 1) : n % 2^k = 0 /\ (n \div 2^k) % 2 = 1
TrailZeros(a) == LET q == TzLimbs(a, 1) IN q * LBits + TzInt(a[q + 1])

(* digits (most significant first) in a radix <= 36 *)
RECURSIVE DigitsFrom(_, _, _, _)
DigitsFrom(ds, radix, i, acc) ==
  IF i > Len(ds) THEN acc ELSE DigitsFrom(ds, radix, i + 1, MulAdd(acc, radix, ds[i]))
FromDigits(ds, radix) == DigitsFrom(ds, radix, 1, Zero)

(* a * 10^k *)
RECURSIVE MulPow10(_, _)
MulPow10(a, k) == IF k = 0 THEN a
                  ELSE IF k >= 4 THEN MulPow10(MulSmall(a, 10000), k - 4)
                  ELSE MulPow10(MulSmall(a, 10), k - 1)
=============================================================================
