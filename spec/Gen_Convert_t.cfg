SPECIFICATION GenSpec
CONSTANTS
  LBits = 16
  TypeTab <- RealTypes
  GraphLo = 33 GraphHi = 126 MaxBits = 64
  Apis = {"value", "data", "iter"}
  TextApis = {"cint", "number", "string"}
  TextDsts = {"b", "y", "n", "q", "i", "u", "x", "t", "l", "f", "d", "e"}
  Bases = {0, 8, 10, 16, 36}
  Alphabet = {32, 9, 45, 43, 48, 49, 57, 120, 102, 122, 46, 101}
  TextLen = 3
  ConverseDsts = {} ConverseSrcs = {}
  Ks = {1, 2, 3, 4, 5, 6, 7, 8, 9, 10, 11, 12, 13, 14, 15, 16, 17, 18, 19, 20, 21, 22, 23, 24, 25, 26, 27, 28, 29, 30, 31, 32, 33, 34, 35, 36, 37, 38, 39, 40, 41, 42, 43, 44, 45, 46, 47, 48, 49, 50, 51, 52, 53, 54, 55, 56, 57, 58, 59, 60, 61, 62, 63, 64}
INVARIANTS DesignSound AllowedSound
ACTION_CONSTRAINT Emit
CHECK_DEADLOCK FALSE
