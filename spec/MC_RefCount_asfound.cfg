SPECIFICATION Spec
CONSTANTS Kinds = {"hmeta"}
  TextLens = {0, 249, 250, 1000}
  NH = 3 NObj = 2 Max = 6 MaxExtra = 1 MaxTries = 2 AsFound = TRUE
VIEW View
INVARIANTS TypeOK AliveIffReferenced CountExact NoDangling ObsAgrees
CHECK_DEADLOCK FALSE
