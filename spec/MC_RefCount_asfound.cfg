SPECIFICATION Spec
CONSTANTS Kinds = {"hmeta"}
  NH = 3 NObj = 2 Max = 6 MaxExtra = 1 MaxTries = 2 AsFound = TRUE
VIEW View
INVARIANTS TypeOK AliveIffReferenced CountExact NoDangling ObsAgrees
CHECK_DEADLOCK FALSE
