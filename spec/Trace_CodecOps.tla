--------------------------- MODULE Trace_CodecOps ---------------------------
(* Trace validation for the extension X01: recorded executions of the real *)
(* codecs must be behaviours of the Tier-1 part of CodecOps.               *)
(* Encoder sessions (xinit / push / grow / term / fin / next / delete /    *)
(*   shift / front / prepare / xfin): accepted bytes are a prefix of the   *)
(*   message (PushOKX), a finished frame denotes its message (TermOKX),    *)
(*   after a deletion and at the end of the session the finished output,   *)
(*   read by the reference stream decoder XDecAll, is exactly the          *)
(*   surviving messages with nothing left over, and the library's decoder  *)
(*   of the same framing reads the same messages.                          *)
(* Decoder executions (dinit / feed / call / peek / grant as in            *)
(*   Trace_CobsDec, plus size / reset, and qinit / qfeed / qrecv / qpeek   *)
(*   on a decode_queue): CallOK / WriteOK of CobsDec, SizeOK, a reset      *)
(*   inside a frame only leaves the safety clauses, a peek hands out a     *)
(*   prefix of the message it previews and leaves the queue as it was.     *)
(* Used at production constants (m = 0) and, for replayed behaviours on    *)
(* which design and code disagree, at the scaled limits.  A step that      *)
(* names an encoding (arg.name) is judged under the framing that name      *)
(* stands for, whatever the library's tables selected.                     *)
(* An event the specification cannot take is recorded in `bad`, the rest   *)
(* of that execution skipped.                                              *)
EXTENDS CodecOps, Json, IOUtils
VARIABLES l, bad, skipb,
          pend      \* message delivered by the queue and not yet consumed (<<-1>>: none)
TraceLog == ndJsonDeserialize(IOEnv.TRACE)

\* the encoding names of mptcore/convert/encoding.c (the lookup ignores case)
NameKind(nm) ==
  CASE nm \in {"command", "COMMAND"} -> KCmd
    [] nm \in {"cobs", "COBS"} -> KCobs
    [] nm \in {"cobs/r", "COBS/R"} -> KCobsR
    [] nm \in {"cobs/zpe", "cobs/c", "COBS/ZPE", "COBS/C"} -> KZpe
    [] nm \in {"cobs/zpe+r", "COBS/ZPE+R"} -> KZpeR
    [] OTHER -> KRaw
HasName(arg) == "name" \in DOMAIN arg /\ arg.name # "-"
\* line separators of mptcore/convert/newline_string.c by type (Mac, Unix, network)
HasNl(arg)  == "nl" \in DOMAIN arg /\ arg.nl > 0
NlDelim(t)  == CASE t = 1 -> <<13>> [] t = 2 -> <<10>> [] OTHER -> <<13, 10>>
KOf(arg) ==
  IF HasName(arg) THEN NameKind(arg.name)
  ELSE IF arg.kind = "text" THEN TText(IF HasNl(arg) THEN NlDelim(arg.nl) ELSE arg.dl, arg.how)
  ELSE IF arg.kind = "raw" THEN KRaw
  ELSE KindOf(arg.kind, arg.m, IF arg.m = 3 THEN 3 ELSE 4)
\* the name the library gives back for the value stands for the same framing
NameOK(ev) == /\ HasName(ev.arg) => NameKind(ev.obs.tname) = NameKind(ev.arg.name)
              /\ HasNl(ev.arg) => ev.obs.dl = NlDelim(ev.arg.nl)       \* the separator the library names for the type

HasLib(KK) == ~IsText(KK) /\ ~IsRaw(KK)
LibMsgs(KK, ms) == [i \in 1..Len(ms) |-> IF KK.cmd THEN CmdHeader \o ms[i] ELSE ms[i]]
GuardsOK(ev) == /\ "guards" \in DOMAIN ev.obs => ev.obs.guards = 1
                /\ "dec_guards" \in DOMAIN ev.obs => ev.obs.dec_guards = 1
IsPrefix(p, s) == Len(p) <= Len(s) /\ TakeN(s, Len(p)) = p

\* the finished output o holds exactly the messages ms
OutputOK(KK, o, ms) ==
  IF IsRaw(KK) THEN o = Concat(ms) ELSE XDecAll(KK, o) = [msgs |-> ms, rest |-> <<>>]

Prog == st = "run" /\ acc > 0

FinishOK(ev, must) ==
  LET r == ev.obs.ret IN
  /\ GuardsOK(ev)
  /\ \/ /\ st = "run" /\ r = "ok"
        /\ ev.obs.acc = Len(msg) /\ (must \/ acc = Len(msg))
        /\ TermOKX(K, msg, "ok", ev.obs.frame, IF HasLib(K) THEN ev.obs.decs ELSE "any")
     \/ /\ st = "run" /\ r \in {"nobuf", "todo"} /\ ~must
     \/ /\ st = "run" /\ r \in {"err", "todo"} /\ ~XAdmits(K, msg)
     \/ /\ st # "run" /\ r = "skip"

DeleteJudge(ev) ==
  LET nf == IF Prog THEN ev.arg.k - 1 ELSE ev.arg.k IN
  /\ GuardsOK(ev)
  /\ \/ ev.obs.ret = "err" /\ ev.obs.same = 1
     \/ /\ ev.obs.ret = "ok" /\ nf <= Len(sess)
        /\ OutputOK(K, ev.obs.out, TakeN(sess, Len(sess) - nf))

XFinJudge(ev) ==
  /\ GuardsOK(ev)
  /\ IF st = "run" /\ ~XAdmits(K, msg) THEN ev.obs.ret \in {"err", "todo"}
     ELSE LET ms == IF st = "run" THEN Append(sess, msg) ELSE sess IN
          /\ ev.obs.ret = "ok"
          /\ OutputOK(K, ev.obs.out, ms)
          /\ (HasLib(K) => ev.obs.decs = LibMsgs(K, ms))

\* decoder: stream offset of the read position, from the observed region
RPos(ev) == fedn - (ev.obs.len - ev.obs.curr)

PeekQOK(ev) ==
  /\ ev.obs.over = 0           \* nothing written behind the caller's target (a peek may decode the current block in place, C03)
  /\ \/ lost
     \/ IF pend # <<-1>> THEN IsPrefix(ev.obs.data, pend)
        ELSE LET v == D!Verdict(K, stream, fs, fedn) IN
             CASE v.st = "ok" -> IsPrefix(ev.obs.data, v.msg)
               [] v.st = "open" /\ K.cmd -> IsPrefix(ev.obs.data, CmdHeader \o SubSeq(stream, fs + 1, fedn))
               [] OTHER -> TRUE

Judge(ev) ==
  CASE ev.a = "xinit" -> ev.obs.ret = "ok" /\ NameOK(ev)
    [] ev.a = "push"  -> /\ GuardsOK(ev)
                         /\ \/ ev.obs.ret = "skip"
                            \/ /\ st = "run"
                               /\ PushOKX(K, msg, acc, SubSeq(msg, acc + 1, acc + ev.obs.k), ev.obs.ret, ev.obs.n)
    [] ev.a = "grow"  -> TRUE
    [] ev.a = "term"  -> FinishOK(ev, FALSE)
    [] ev.a = "fin"   -> FinishOK(ev, TRUE)
    [] ev.a = "next"  -> st \in {"done", "idle"}
    [] ev.a = "delete" -> DeleteJudge(ev)
    [] ev.a \in {"shift", "front", "prepare"} -> TRUE
    [] ev.a = "xfin"  -> XFinJudge(ev)
    \* decoder
    [] ev.a = "dinit" -> ev.obs.ret = "ok"
    [] ev.a \in {"feed", "grant"} -> TRUE
    [] ev.a = "call"  -> /\ ev.obs.guards = 1
                         /\ D!WriteOK(ev.obs.chg_hi, ev.obs.curr)
                         /\ D!CallOK(K, stream, fs, fedn, lost, ev.obs.ret, ev.obs.msg)
    [] ev.a = "peek"  -> /\ ev.obs.guards = 1
                         /\ D!WriteOK(ev.obs.chg_hi, ev.obs.curr)
                         /\ ev.obs.ret \in {"more", "nobuf", "err"}
    [] ev.a = "size"  -> /\ ev.obs.ret = "ok" /\ ev.obs.same = 1
                         /\ SizeOK(K, stream, fs, RPos(ev), Min(ev.arg.n, fedn - RPos(ev)), lost \/ ev.obs.curr > ev.obs.len,
                                   ev.obs.bound)
    [] ev.a = "reset" -> ev.obs.ret = "ok" /\ ev.obs.ctx = 0
    [] ev.a = "qinit" -> ev.obs.ret = "ok"
    [] ev.a = "qfeed" -> ev.obs.ret = "ok"
    [] ev.a = "qrecv" -> D!CallOK(K, stream, fs, fedn, lost, ev.obs.ret, ev.obs.msg)
    [] ev.a = "qpeek" -> PeekQOK(ev)
    [] OTHER -> FALSE

Tier2Idle == UNCHANGED <<out, run, code, cap, pre, marks, cons, left, reg, curr, pos, dlen, dmsg, dcode, cpos, obs>>
EncIdle == UNCHANGED <<stream, fedn, fs, lost, last, pend>>
DecIdle == UNCHANGED <<msg, acc, st, sess>>
Update(ev) ==
  /\ Tier2Idle /\ UNCHANGED mode
  /\ CASE ev.a = "xinit" -> K' = KOf(ev.arg) /\ msg' = ev.arg.msg /\ acc' = 0 /\ st' = "run" /\ sess' = <<>> /\ EncIdle
       [] ev.a = "push"  -> /\ acc' = IF ev.obs.ret = "skip" THEN acc ELSE acc + ev.obs.n
                            /\ UNCHANGED <<K, msg, st, sess>> /\ EncIdle
       [] ev.a \in {"term", "fin"} ->
                            /\ IF ev.obs.ret = "ok" THEN st' = "done" /\ acc' = Len(msg) /\ sess' = Append(sess, msg)
                               ELSE /\ UNCHANGED <<st, sess>>       \* fin may have had part of the rest accepted
                                    /\ acc' = IF "acc" \in DOMAIN ev.obs /\ ev.obs.ret # "skip" THEN ev.obs.acc ELSE acc
                            /\ UNCHANGED <<K, msg>> /\ EncIdle
       [] ev.a = "next"  -> msg' = ev.arg.msg /\ acc' = 0 /\ st' = "run" /\ UNCHANGED <<K, sess>> /\ EncIdle
       [] ev.a = "delete" -> /\ IF ev.obs.ret = "ok"
                                THEN /\ sess' = TakeN(sess, Len(sess) - (IF Prog THEN ev.arg.k - 1 ELSE ev.arg.k))
                                     /\ st' = "idle" /\ acc' = 0 /\ msg' = <<>>
                                ELSE UNCHANGED <<sess, st, acc, msg>>
                             /\ UNCHANGED K /\ EncIdle
       [] ev.a = "xfin"  -> st' = "idle" /\ UNCHANGED <<K, msg, acc, sess>> /\ EncIdle
       \* decoder
       [] ev.a \in {"dinit", "qinit"} ->
                            /\ K' = KOf(ev.arg) /\ stream' = <<>> /\ fedn' = 0 /\ fs' = 0 /\ lost' = FALSE
                            /\ last' = "none" /\ pend' = <<-1>> /\ DecIdle
       [] ev.a \in {"feed", "qfeed"} ->
                            /\ stream' = stream \o ev.arg.data /\ fedn' = fedn + Len(ev.arg.data)
                            /\ last' = "feed" /\ UNCHANGED <<K, fs, lost, pend>> /\ DecIdle
       [] ev.a \in {"call", "qrecv"} ->
                            /\ fs' = D!NextFs(K, stream, fs, fedn, ev.obs.ret)
                            /\ lost' = D!NextLost(lost, ev.obs.ret)
                            /\ pend' = IF ev.obs.ret = "msg" THEN ev.obs.msg ELSE <<-1>>
                            /\ last' = ev.obs.ret /\ UNCHANGED <<K, stream, fedn>> /\ DecIdle
       [] ev.a = "reset" -> /\ lost' = (lost \/ K.cmd \/ RPos(ev) # fs)
                            /\ last' = "reset" /\ UNCHANGED <<K, stream, fedn, fs, pend>> /\ DecIdle
       [] OTHER -> UNCHANGED <<K, msg, acc, st, sess, stream, fedn, fs, lost, last, pend>>

TraceInit ==
  /\ l = 1 /\ bad = <<>> /\ skipb = -1 /\ pend = <<-1>> /\ mode = "trace"
  /\ K = KCobs /\ msg = <<>> /\ acc = 0 /\ st = "idle" /\ sess = <<>>
  /\ out = <<>> /\ run = <<>> /\ code = 0 /\ cap = 0 /\ pre = 0 /\ marks = <<>> /\ cons = 0 /\ left = 0
  /\ stream = <<>> /\ fedn = 0 /\ fs = 0 /\ lost = FALSE /\ last = "none"
  /\ reg = <<>> /\ curr = 0 /\ pos = 0 /\ dlen = 0 /\ dmsg = -1 /\ dcode = 0 /\ cpos = 0
  /\ obs = [a |-> "none", arg |-> [x |-> 0], exp |-> [ret |-> "any"]]

TraceNext ==
  /\ l <= Len(TraceLog)
  /\ l' = l + 1
  /\ LET ev == TraceLog[l] IN
     IF ev.b = skipb THEN UNCHANGED <<allvars, bad, skipb, pend>>
     ELSE IF Judge(ev) THEN Update(ev) /\ UNCHANGED <<bad, skipb>>
     ELSE PrintT(<<"REJECT", l>>) /\ bad' = Append(bad, l) /\ skipb' = ev.b /\ UNCHANGED <<allvars, pend>>

TraceSpec == TraceInit /\ [][TraceNext]_<<allvars, l, bad, skipb, pend>>

AtEnd == l > Len(TraceLog) => PrintT(<<"MATCHED", l - 1, "REJECTED", Len(bad)>>)
TraceAccepted == TLCGet("stats").diameter - 1 = Len(TraceLog)
=============================================================================
