--------------------------- MODULE Trace_CowArray ---------------------------
(* Trace validation: a recorded execution of the real array code (one     *)
(* event per public call: arguments + what every handle read afterwards)  *)
(* must be a behaviour of CowArray at the production allocation           *)
(* constants.  Executions are concatenated; each starts with "init".      *)
EXTENDS CowArray, Json, IOUtils
VARIABLE l
TraceLog == ndJsonDeserialize(IOEnv.TRACE)

Reset ==
  /\ val' = [h \in H |-> <<>>] /\ vtyp' = [h \in H |-> "none"]
  /\ rec' = [h \in H |-> Null] /\ share' = [h \in H |-> {h}]
  /\ touch' = {} /\ ctr' = 0
  /\ Answer("init", [n |-> NH, gran |-> Gran], "ok", <<>>, FALSE)

\* a call the driver did not make because the caller's duty was not met
\* (buffer level call on a shared/immutable/absent buffer, slice window
\* outside the data): the model must agree that the duty was not met.
Skipped(ev) ==
  LET h == ev.arg.h IN
  /\ CASE ev.a = "new" -> ~IsNull(h)
       [] ev.a = "bufinsert" -> IsNull(h) \/ Shared(h)
       [] ev.a \in {"bufcut", "bufset"} -> IsNull(h) \/ Shared(h) \/ rec[h].imm
       [] ev.a = "slicewrite" -> ev.arg.off + ev.arg.len > Used(h)
       [] OTHER -> FALSE
  /\ UNCHANGED <<val, vtyp, rec, share, ctr>> /\ touch' = {}
  /\ Answer(ev.a, ev.arg, "skipped", <<>>, FALSE)

Step(ev) ==
  IF "obs" \notin DOMAIN ev THEN FALSE ELSE      \* crash/hang record: never a behaviour
  IF ev.a # "init" /\ ev.obs.ret = "skipped" THEN Skipped(ev) ELSE
  IF ev.a # "init" /\ HasHuge(ev.arg) THEN HugeCall(ev.a, ev.arg) ELSE   \* argument at the limits: refused
  CASE ev.a = "init"       -> Reset
    [] ev.a = "new"        -> New(ev.arg.h, ev.arg.data, ev.arg.imm = 1, ev.arg.nc = 1, ev.arg.typ)
    [] ev.a = "append"     -> ArrAppend(ev.arg.h, ev.arg.data, ev.arg.zero)
    [] ev.a = "insert"     -> \E v \in {0, 1} : Insert(ev.arg.h, ev.arg.pos, ev.arg.data, v)
    [] ev.a = "settyped"   -> SetTyped(ev.arg.h, ev.arg.typ, ev.arg.data, ev.arg.off, ev.arg.zero)
    [] ev.a = "slice"      -> Slice(ev.arg.h, ev.arg.off, ev.arg.data, ev.arg.fill)
    [] ev.a = "reserve"    -> \E v \in {0, 1} : Reserve(ev.arg.h, ev.arg.len, ev.arg.typ, v)
    [] ev.a = "clone"      -> Clone(ev.arg.h, ev.arg.from)
    [] ev.a = "reduce"     -> Reduce(ev.arg.h)
    [] ev.a = "printf"     -> Printf(ev.arg.h, ev.arg.data)
    [] ev.a = "string"     -> String(ev.arg.h)
    [] ev.a = "slicewrite" -> LET c == SWKeep(ev.arg.h, ev.arg.off, ev.arg.len, ev.arg.esz, ev.arg.nblk) IN
                              SliceWrite(ev.arg.h, ev.arg.off, ev.arg.len, ev.arg.nblk, ev.arg.esz,
                                         ev.arg.data, ev.arg.zero, c.k, c.compact, c.realloc)
    [] ev.a = "bufinsert"  -> BufInsert(ev.arg.h, ev.arg.pos, ev.arg.data)
    [] ev.a = "bufcut"     -> BufCut(ev.arg.h, ev.arg.off, ev.arg.n)
    [] ev.a = "bufset"     -> BufSet(ev.arg.h, ev.arg.typ, ev.arg.pos, ev.arg.data, ev.arg.zero)
    [] OTHER               -> FALSE

Matches(ev) ==
  LET e == obs'.exp o == ev.obs IN
  /\ "obs" \in DOMAIN ev
  /\ e.vals = o.vals /\ e.lens = o.lens /\ e.typs = o.typs /\ e.frozen = o.frozen /\ o.refok = "ok"
  /\ \/ e.ret = "any"
     \/ e.ret = o.ret /\ e.out = o.out

TraceInit ==
  /\ l = 1
  /\ val = [h \in H |-> <<>>] /\ vtyp = [h \in H |-> "none"]
  /\ rec = [h \in H |-> Null] /\ share = [h \in H |-> {h}]
  /\ touch = {} /\ ctr = 0
  /\ obs = [a |-> "none", arg |-> [h |-> 0],
            exp |-> [ret |-> "ok", out |-> <<>>, vals |-> [h \in H |-> <<>>], lens |-> [h \in H |-> 0],
                     typs |-> [h \in H |-> "none"], frozen |-> "ok", either |-> FALSE],
            mdl |-> [sizes |-> [h \in H |-> 0], refs |-> [h \in H |-> 1],
                     imm |-> [h \in H |-> FALSE], nc |-> [h \in H |-> FALSE]]]

\* diagnostics: with DEBUGAT=<k> in the environment event k is accepted without
\* comparison and the invariant DebugStop then shows the model's own answer
DebugAt == IF "DEBUGAT" \in DOMAIN IOEnv THEN atoi(IOEnv.DEBUGAT) ELSE 0
DebugStop == DebugAt = 0 \/ l # DebugAt + 1

TraceNext ==
  /\ l <= Len(TraceLog)
  /\ l' = l + 1
  /\ LET ev == TraceLog[l] IN
       Step(ev) /\ (Matches(ev) \/ l = DebugAt)

TraceSpec == TraceInit /\ [][TraceNext]_<<vars, l>>

TraceAccepted ==
  LET n == TLCGet("stats").diameter - 1 IN
  /\ PrintT(<<"MATCHED", n>>)
  /\ n = Len(TraceLog)
=============================================================================
