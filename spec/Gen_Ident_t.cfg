SPECIFICATION GenSpec
CONSTANTS NId = 2 Maxes = {0, 2, 3, 5, 12} Lens = {0, 1, 2, 3, 4, 5, 8, 11, 12, 13} TraitsMax = 12 ValSz = 4 PtrSz = 8 Limit = 65535 CodeOrder = FALSE
VIEW Skel
ACTION_CONSTRAINT Emit
CHECK_DEADLOCK FALSE
