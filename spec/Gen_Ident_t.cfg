SPECIFICATION GenSpec
CONSTANTS NId = 2 Maxes = {0, 5, 12} Lens = {0, 1, 2, 4, 5, 11, 12} TraitsMax = 12 ValSz = 4 PtrSz = 8 Limit = 65535 CodeOrder = FALSE
VIEW Skel
ACTION_CONSTRAINT Emit
CHECK_DEADLOCK FALSE
