SPECIFICATION Spec
CONSTANTS MaxOps = 4 RawOps = 7
  Shapes <- ShapesQ
  Datas <- DatasQ
  RawDatas <- RawDatasQ
  Ks <- KsQ
  OpenArgs <- OpenQ
  SeekArgs <- SeekQ
  Parts <- PartsQ
  Early <- EarlyQ
  Ahead <- AheadQ
VIEW View
INVARIANTS TypeOK RawConservation RawRefines FileRefines ReadRefines FlushComplete
PROPERTIES RawTiling RawPeek RawDiscard ReadIsFile EndlExact
CHECK_DEADLOCK FALSE
