SPECIFICATION SpecM
CONSTANTS MaxNodes = 4 Kinds <- KindsT Pos <- PosT Keys <- KeysT
VIEW ShapeView
INVARIANTS TypeOK WellFormed OnceInForest Refines QueryInv
PROPERTIES QueryAgree CloneIso ReleaseOnce
CHECK_DEADLOCK FALSE
