SPECIFICATION GenSpecX
CONSTANTS Names <- NamesMB Depth = 2 Vals <- ValsX Sep = 46 Design = "list" Base <- NoBase MaxSlots = 6
  Ends <- Ends0 Strs <- None Seps <- None Asgs <- None Elems <- None
  Configs <- DefaultOnly OptNames <- OptAB SecNames <- None Values <- ValsDocQ Decos <- Decos1 MaxNodes = 1 MaxDepth = 1
  Routes <- RLoadOnly Cfgs <- CfgTN SingleKinds <- None PrePaths <- None
  LoadKinds <- LoadTwo TwoFiles = TRUE EnvCalls <- None ArgCalls <- None ClearLists <- None
  MsgSets <- None MsgGets <- None NodeBases <- None FputSeps <- None
  MaxOps = 1 MaxArr = 1 SingleWhen = "first" QuoteSet <- AllQuotes Observe = TRUE
CONSTRAINT Bound
VIEW ViewX
ACTION_CONSTRAINT EmitX
CHECK_DEADLOCK FALSE
