SPECIFICATION ItemSpec
CONSTANTS Configs <- MCConfigsQ OptNames <- MCOptNames SecNames <- MCSecNames Values <- MCValues
          Decos <- MCDecos MaxNodes = 2 MaxDepth = 2
VIEW TextView
INVARIANTS TypeOK
POSTCONDITION SameCount
CHECK_DEADLOCK FALSE
