SPECIFICATION TraceSpec
CONSTANTS Configs = {} OptNames = {} SecNames = {} Values = {} Decos = {} MaxNodes = 100000 MaxDepth = 8
POSTCONDITION TraceAccepted
CHECK_DEADLOCK FALSE
