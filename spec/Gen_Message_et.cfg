SPECIFICATION GenSpec
CONSTANTS
  Alphabet = {32, 34, 39, 92}
  MaxLen = 4
  MaxFrag = 3
  MaxDst = 0
  MaxDstFrag = 1
  MaxQ = 0
  Ops = {"read", "argv", "arrmsg", "memtok"}
  EmptyBases = {"slice", "null", "guard", "foreign"}
  ForeignBytes = {34, 92}
  ArrKinds = {"exact", "shared", "roomy"}
  MaxFail = 4
VIEW View
ACTION_CONSTRAINT Emit
CHECK_DEADLOCK FALSE
