SPECIFICATION Spec
CONSTANTS
  Configs <- CfgsV
  Heads <- HeadsOne
  Levels = {}
  Calls <- CallsAll
  TextBytes = {97}
  MaxText = 1
  Ops = {"vlog", "log"}
  LogMax = 12
  AsFound = {}
VIEW MCView
CHECK_DEADLOCK FALSE
INVARIANTS TypeOK IdleClean Engaged
PROPERTIES DesignAgrees
