----------------------------- MODULE Gen_CfgInit -----------------------------
(* Behaviour export for CfgInit: one JSON line per generated call transition *)
(* (the calls leading to the source state, then the call with its expected  *)
(* observation).  Steps that write the draft document are not calls.        *)
EXTENDS MC_CfgInit, Json
VARIABLE hist
Call(o) == [a |-> o.a, arg |-> o.arg]
Final(o) == [a |-> o.a, arg |-> o.arg, exp |-> o.exp]
GenInit == InitI /\ hist = <<Call(obs)>>
GenSpecI == GenInit /\ [][NextI /\ hist' = IF nops' # nops THEN Append(hist, Call(obs')) ELSE hist]_<<ivars, hist>>
EmitI == nops' = nops \/ PrintT(<<"BEHAV", ToJson(Append(hist, Final(obs')))>>)
=============================================================================
