SPECIFICATION GenSpec
CONSTANTS
  Sources <- SrcThorough
  MaxInst = 3
VIEW View
ACTION_CONSTRAINT Emit
CHECK_DEADLOCK FALSE
