---------------------------- MODULE MC_PipeLog ----------------------------
(* Exhaustive configuration of PipeLog: full state, scaled constants.      *)
EXTENDS PipeLog
View == state
Msgs == {<<>>, <<7>>, <<0, 5>>}
L(fp, fn, tp, tn, ty) == [fp |-> fp, fc |-> 65, fn |-> fn, tp |-> tp, tc |-> 66, tn |-> tn, ty |-> ty]
LogsQ == {L(0, 0, 0, 0, 3), L(1, 1, 1, 2, 2051), L(1, 2, 1, 5, 4), L(1, 5, 1, 0, 4), L(1, 4, 0, 0, 2052)}
QuotasQ == {[k |-> Unl, j |-> 0], [k |-> 1, j |-> 1], [k |-> 0, j |-> 0]}
OpsQ == {"bad", "log", "close"}
KsQ == {1, 2, Unl}
KsT == {1, 2, 3, Unl}
QuotasT == QuotasQ \cup {[k |-> 2, j |-> 0], [k |-> 0, j |-> 2]}
=============================================================================
