---------------------------- MODULE Gen_Creators ----------------------------
(* Behaviour export of Creators: one JSON line per generated transition,    *)
(* every behaviour ends with the release of everything (expectation by TLC).*)
EXTENDS Creators, Json
VARIABLE hist
GenInit == CInit /\ hist = <<obs>>
GenNext == CNext /\ hist' = Append(hist, obs')
GenSpec == GenInit /\ [][GenNext]_<<cvars, hist>>
Skel == <<kind, holds, made, cnt, alive, cls, nmeta, par, nname>>
Emit == LET td == [a |-> "teardown", arg |-> [x |-> 0], exp |-> CTeardownExp(alive')] IN
        PrintT(<<"BEHAV", ToJson(IF obs'.a # "teardown" THEN Append(hist', td) ELSE hist')>>)
NoPaths == {}
APaths == {"a", "a.b"}
QNames == {"long"}
=============================================================================
