----------------------------- MODULE Gen_Notify -----------------------------
(* Behaviour export: one JSON line per generated transition of the control *)
(* skeleton (which inputs of which kind are registered / listed / in hand, *)
(* how many messages each has on the wire and which ids it has buffered,   *)
(* end of data, pending connections, dispatcher attached, which ids have a *)
(* handler, kind of fallback, default set).                                *)
EXTENDS Notify, Json
CONSTANTS MaxTok, MaxSent
VARIABLES hist,
          rord,     \* design: the kernel's ready list (inputs in the order they became ready; one that is still
                    \* ready when a wait looks at it keeps its place, the others drop out)
          word      \* design: the order of the listed inputs (mpt_notify_next hands out the first)
Rng(q) == {q[k] : k \in DOMAIN q}
Ord ==
  LET a == nobs'.a IN
  /\ rord' = CASE a \in {"send", "shut", "conn"} ->
                     IF nobs'.arg.i \in Rng(rord) THEN rord ELSE Append(rord, nobs'.arg.i)
               [] a = "wait" -> SelectSeq(rord, LAMBDA i : i \in ReadySet /\ i \in reg')
               [] a \in {"unreg", "fini"} -> SelectSeq(rord, LAMBDA i : i \in reg')
               \* the writer opening a FIFO wakes its reader: the kernel links it right away
               [] a = "add" /\ nobs'.arg.k = "f" -> Append(rord, nobs'.arg.tok)
               [] OTHER -> rord
  /\ word' = CASE a = "wait" -> IF ReadySet = {} THEN word ELSE SelectSeq(rord, LAMBDA i : i \in wait')
               [] a = "next" -> IF word = <<>> THEN word ELSE Tail(word)
               [] a = "relist" -> IF cur \in Rng(word) THEN word ELSE Append(word, cur)
               [] a \in {"unreg", "fini"} -> SelectSeq(word, LAMBDA i : i \in wait')
               [] OTHER -> word
GenInit == NInit /\ hist = <<nobs>> /\ rord = <<>> /\ word = <<>>
GenNext == NNext /\ hist' = Append(hist, nobs') /\ Ord
GenSpec == GenInit /\ [][GenNext]_<<nvars, hist, rord, word>>
\* behaviours are generated with the design's choice of the input mpt_notify_next returns (a recorded behaviour that
\* differs there is handed to TLC, which accepts any listed input)
Pos(q, x) == IF x \in Rng(q) THEN CHOOSE k \in DOMAIN q : q[k] = x ELSE Len(q) + 1
DesignOrder ==
  /\ (nobs'.a = "next" /\ word # <<>>) => cur' = Head(word)
  \* an input removed by another one's next(): served before that iff it precedes it in the ready list
  /\ (nobs'.a = "wait" /\ KillOn(nobs'.arg.what, nobs'.arg.kill) /\ nobs'.arg.kill[2] \in Served(nobs'.arg.what)) =>
        (nobs'.arg.early = 1) = (Pos(rord, nobs'.arg.kill[2]) < Pos(rord, nobs'.arg.kill[1]))
RECURSIVE SumTo(_, _)
SumTo(f, n) == IF n = 0 THEN 0 ELSE f[n] + SumTo(f, n - 1)
Bound == ntok <= MaxTok /\ SumTo(sent, nin) <= MaxSent
\* quick: one run over three slices of the state space -- two harness inputs with one message; one library data
\* input (socket pair, connected socket, FIFO) with two messages; a listener and the connection it accepts
AllK(S)  == \A i \in 1..nin : ik[i] \in S
SliceQ == \/ AllK({"h"}) /\ SumTo(sent, nin) <= 1 /\ ~dir
          \/ AllK({"s", "c", "f", "p"}) /\ nin <= 1 /\ SumTo(sent, nin) <= 2
          \/ AllK({"l", "o", "c"}) /\ (\A i \in 1..nin : ik[i] = "c" => i > 1) /\ SumTo(sent, nin) <= 1 /\ ~dir
BoundQ == ntok <= MaxTok /\ SliceQ
\* thorough: harness and socket-pair inputs mixed; connected sockets and FIFOs mixed; a listener with what it accepts
SliceT == \/ AllK({"h", "s"}) /\ ~dir
          \/ AllK({"c", "f", "p"}) /\ (nin <= 1 \/ ~dir)
          \/ AllK({"l", "o", "c"}) /\ ~dir
BoundT == Bound /\ SliceT
Skel  == <<att, dir, ik, reg, word, cur,
           [i \in 1..nin |-> <<Len(wire[i]), [k \in DOMAIN buf[i] |-> SubSeq(buf[i][k], 1, Len(buf[i][k]) - 2)], eof[i], conn[i]>>],
           DOMAIN tab, IF err > 0 THEN 1 ELSE err, def # Zero>>
SkelQ == <<att, dir, ik, reg, word, cur,
           [i \in 1..nin |-> <<Len(wire[i]), [k \in DOMAIN buf[i] |-> SubSeq(buf[i][k], 1, Len(buf[i][k]) - 2)], eof[i], conn[i]>>],
           DOMAIN tab>>
OpsAll == {"refuse", "idle", "unreg", "table", "relist", "kill", "direct"}
OpsQ   == {"refuse", "unreg", "kill", "direct"}
\* removal of another input is generated with every harness input answering "list me" (the other answers are
\* covered without removal)
KillLean == (nobs'.a = "wait" /\ nobs'.arg.kill[1] # 0) => \A k \in DOMAIN nobs'.arg.rvs : nobs'.arg.rvs[k] = 1
Emit  == DesignOrder /\ KillLean /\ PrintT(<<"BEHAV", ToJson(hist')>>)
\* quick: refused registrations (they change nothing) only from states without dispatcher, list and input in hand
RefuseLean == nobs'.a \in {"addsame", "addbad", "addfile"} => (~att /\ ~dir /\ wait = {} /\ cur = 0)
EmitQ == RefuseLean /\ Emit
CTexts == {}
CHRs   == {<<1, 0>>}
CHRs2  == {<<1, 0>>, <<-1, 0>>}
CHRsAll == {<<0, 0>>, <<1, 0>>, <<1, 1>>, <<2, 0>>, <<3, 1>>, <<4, 0>>, <<6, 0>>, <<-1, 0>>}
CRVs   == {1, 0, -1}
CWhats == {-1}
CWhats1 == {1}
CWhats2 == {-1, 1, 4}
CHows2 == {"shut", "close"}
=============================================================================
