----------------------------- MODULE Gen_Notify -----------------------------
(* Behaviour export: one JSON line per generated transition of the control *)
(* skeleton (which inputs of which kind are registered / listed / in hand, *)
(* how many messages each has on the wire and which ids it has buffered,   *)
(* end of data, pending connections, dispatcher attached, which ids have a *)
(* handler, kind of fallback, default set).                                *)
EXTENDS Notify, Json
CONSTANTS MaxTok, MaxSent
VARIABLE hist
GenInit == NInit /\ hist = <<nobs>>
GenNext == NNext /\ hist' = Append(hist, nobs')
GenSpec == GenInit /\ [][GenNext]_<<nvars, hist>>
RECURSIVE SumTo(_, _)
SumTo(f, n) == IF n = 0 THEN 0 ELSE f[n] + SumTo(f, n - 1)
Bound == ntok <= MaxTok /\ SumTo(sent, nin) <= MaxSent
Skel  == <<att, ik, reg, wait, cur,
           [i \in 1..nin |-> <<Len(wire[i]), [k \in DOMAIN buf[i] |-> buf[i][k][1]], eof[i], conn[i]>>],
           DOMAIN tab, IF err > 0 THEN 1 ELSE err, def>>
Emit  == PrintT(<<"BEHAV", ToJson(hist')>>)
CTexts == {}
CHRs   == {<<1, 0>>}
CHRs2  == {<<1, 0>>, <<-1, 0>>}
CHRsAll == {<<0, 0>>, <<1, 0>>, <<1, 1>>, <<2, 0>>, <<3, 1>>, <<4, 0>>, <<6, 0>>, <<-1, 0>>}
CRVs   == {1, 0, -1}
CWhats == {-1}
CWhats2 == {-1, 1, 4}
=============================================================================
