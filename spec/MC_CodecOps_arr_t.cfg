SPECIFICATION XSpec
CONSTANTS
  Mode = "arr"
  Kinds <- KindsAT
  Alpha <- AlphaE
  MaxMsg = 2
  MaxMsgs = 3
  Caps <- CapsA
  Grows <- None
  Pres <- None
  DelKs <- Del123
  NextSet <- NextFew
  Shifts <- Sh12
  DMaxLen = 0
  DSlacks <- None
  DGrants <- None
  DStreams <- NoStreams
  DFeeds <- None
  DQs <- None
  DOps <- None
  DMis <- None
  CapMax = 0
VIEW View
INVARIANTS XTypeOK SurvivorsOnly PartialTextX PartialRaw PartialCobs FinDenotesX RefusedX
PROPERTIES AnswerAllowedX DeleteAllowed DeleteClean ReaderView
CHECK_DEADLOCK FALSE
