SPECIFICATION Spec
CONSTANTS MaxBytes = 2 InitBytes = {0, 255, 165} Far = 9 MaxLevel = 100
VIEW View
CONSTRAINT Depth
INVARIANTS TypeOK Refines
PROPERTY Frame RefuseFrame OneBit
CHECK_DEADLOCK FALSE
