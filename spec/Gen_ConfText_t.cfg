SPECIFICATION Spec
CONSTANTS Configs <- MCConfigs OptNames <- GenOptNamesT SecNames <- GenSecNamesT Values <- GenValuesT
          Decos <- GenDecos MaxNodes = 3 MaxDepth = 3
VIEW Skel
ACTION_CONSTRAINT Emit
CHECK_DEADLOCK FALSE
