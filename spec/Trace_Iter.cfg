SPECIFICATION TraceSpec
CONSTANTS
  Sources = {}
  MaxInst = 16
POSTCONDITION TraceAccepted
CHECK_DEADLOCK FALSE
