SPECIFICATION Spec
CONSTANTS MaxSecs = 3 MaxOpts = 2 MaxMem = 2 MaxTop = 3 Mode = "gen"
VIEW SkelQ
ACTION_CONSTRAINT Emit
CHECK_DEADLOCK FALSE
