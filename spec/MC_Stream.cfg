SPECIFICATION Spec
CONSTANTS MaxCode = 5 NMsg = 2
  MsgSet <- MsgsQ
  Shapes <- OneShape
  Ks <- KsQ
VIEW View
INVARIANTS TypeOK Integrity Conservation InTransit EarlyIsPrefix Availability
CHECK_DEADLOCK FALSE
