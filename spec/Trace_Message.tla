---------------------------- MODULE Trace_Message ----------------------------
(* Trace validation: recorded calls of the real message code on long,      *)
(* randomly cut messages (arguments + observed answers) must be a          *)
(* behaviour of Message: every answer is recomputed from the contiguous    *)
(* string (Tier 1) with the operators the model checker used, and the      *)
(* fragment design (Tier 2) is evaluated alongside (DesignAgrees).         *)
(* Executions are concatenated; each starts with an "init" or "qget".      *)
EXTENDS Message, Json, IOUtils
VARIABLE l
TraceLog == ndJsonDeserialize(IOEnv.TRACE)

Blank ==
  /\ flat' = <<>> /\ cur' = <<>> /\ cont' = <<>> /\ mode' = "blank" /\ ebase' = <<"slice", 0>>
  /\ obs' = [a |-> "none", arg |-> [x |-> 0],
             exp |-> [ret |-> "ok", val |-> <<>>, out |-> <<>>, content |-> <<>>]]
  /\ des' = [ret |-> "ok", val |-> <<>>, out |-> <<>>, content |-> <<>>]

TraceStep(ev) ==
  CASE ev.a = "none"    -> Blank
    [] ev.a = "init"    -> InitMsg(ev.arg.data, ev.arg.cut, ev.arg.eb, ev.arg.fb)
    [] ev.a = "qget"    -> QGet(ev.arg.max, ev.arg.qoff, ev.arg.data, ev.arg.pos, ev.arg.take)
    [] ev.a = "read"    -> Read(ev.arg.n, ev.arg.dest)
    [] ev.a = "length"  -> Length
    [] ev.a = "argv"    -> Argv(ev.arg.sep)
    [] ev.a = "arrmsg"  -> ArrMsg(ev.arg.sep)
    [] ev.a = "memchr"  -> Memchr(ev.arg.b)
    [] ev.a = "memrchr" -> Memrchr(ev.arg.b)
    [] ev.a = "memfcn"  -> Memfcn(ev.arg.cls)
    [] ev.a = "memrfcn" -> Memrfcn(ev.arg.cls)
    [] ev.a = "memstr"  -> Memstr(ev.arg.set)
    [] ev.a = "memrstr" -> Memrstr(ev.arg.set)
    [] ev.a = "memtok"  -> Memtok(ev.arg.hastok, ev.arg.tok, ev.arg.com, ev.arg.esc)
    [] ev.a = "memcpy"  -> Memcpy(ev.arg.n, ev.arg.dcut)
    [] ev.a = "append"  -> MsgAppend(ev.arg.pre, ev.arg.kind, ev.arg.fail)
    [] OTHER            -> FALSE

Matches(ev) ==
  /\ obs'.exp.ret = ev.obs.ret
  /\ obs'.exp.val = ev.obs.val
  /\ obs'.exp.out = ev.obs.out
  /\ obs'.exp.content = ev.obs.content

TraceInit ==
  /\ l = 1 /\ Init

TraceNext ==
  /\ l <= Len(TraceLog)
  /\ l' = l + 1
  /\ LET ev == TraceLog[l] IN
       TraceStep(ev) /\ Matches(ev)

TraceSpec == TraceInit /\ [][TraceNext]_<<vars, l>>

TraceAccepted ==
  LET n == TLCGet("stats").diameter - 1 IN
  /\ PrintT(<<"MATCHED", n>>)
  /\ n = Len(TraceLog)
=============================================================================
