SPECIFICATION Spec
CONSTANTS Configs <- MCConfigs OptNames <- LongNames SecNames <- LongNames Values <- NameRunValues
          Decos <- NameRunDecos MaxNodes = 2 MaxDepth = 2
VIEW Skel
ACTION_CONSTRAINT Emit
CHECK_DEADLOCK FALSE
