SPECIFICATION GenSpec
CONSTANTS
  Sources <- ScThorough
  MaxInst = 2
  MaxOps = 10
  ModSet <- ModT
  QuerySet <- QueryT
VIEW ViewX
ACTION_CONSTRAINT Emit
CHECK_DEADLOCK FALSE
