SPECIFICATION Spec
CONSTANTS
  Configs <- CfgsMix
  Heads <- HeadsOps
  Levels <- LevelsA
  Calls <- CallsA
  TextBytes = {0, 2, 97}
  MaxText = 2
  Ops = {"abort", "set", "log"}
  LogMax = 256
  AsFound = {"fwrite", "abort", "habort", "lmissing", "rabort", "vlognul", "vlogempty", "endrst", "rawhead"}
VIEW MCView
CHECK_DEADLOCK FALSE
INVARIANTS TypeOK IdleClean Engaged
PROPERTIES DesignAgrees
