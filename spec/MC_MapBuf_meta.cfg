SPECIFICATION MSpec
CONSTANTS NH = 3 Gran = 4 Hdr = 64 PChunk = 2 MaxLen = 1 MaxArg = 1 Prune = FALSE Api = "c" CtrMax = 1
          Page = 2 MTypes = {"raw", "c"} Meta = {3}
          Null <- MNull NewRec <- MNewRec Det <- MDet
CONSTRAINT Bound
VIEW View
INVARIANTS TypeOK MTypeOK AliasOK Refines NoTouch
PROPERTY Independent RefuseFrame
CHECK_DEADLOCK FALSE
