SPECIFICATION GenSpecU
CONSTANTS MaxNodes = 5 Kinds <- KindsQ Pos <- PosU Keys <- KeysQ
          Paths <- PathsG APaths <- APathsG Forests <- ForestsQ Ups <- UpsQ Stops <- StopsQ
VIEW ShapeView
ACTION_CONSTRAINT EmitU
CONSTRAINT BaseLabels
CHECK_DEADLOCK FALSE
