SPECIFICATION XSpec
CONSTANTS Widths = {} MaxH = 1 MaxOwn = 1 LimbDom = {0} IdWidths = {} StreamWidths = {}
  MsgDom <- CMsgDom TextDom <- CTextDom
  Transports = {"stream", "dgram"} ConnWidths = {1} IdCand = {1, 2} IdLimit = 2
  MaxReq = 2 MaxPlain = 0 MaxStray = 0
  BActs = {"none", "reply", "reply2"} BHrets <- CHretsFail SyncMax = 2
  MaxBReq = 1 MaxBPlain = 1 CRets <- CRetsBoth MaxChain = 0
VIEW XView
INVARIANTS XTypeOK Distinct XRefines AtMostOnce IdsFit HeaderOK TypeOK
PROPERTIES RightWaiter EndToEnd ReserveTiers Recycle NothingLost StreamOnce Final
CHECK_DEADLOCK FALSE
