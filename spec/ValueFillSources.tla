-------------------------- MODULE ValueFillSources --------------------------
(* Scenarios of the ValueFill configurations (X19).  A scenario is a source *)
(* record plus: fam (which calls are explored / scripted), drv (binding:    *)
(* "c" drv/valuefill.c, "cxx" drv/valuefill_cxx.cpp) and family parameters. *)
EXTENDS ValueFill, IterSources
SX == INSTANCE SequencesExt
SetToSeq(S) == SX!SetToSeq(S)

Base == [explore |-> TRUE, gets |-> {}, styles |-> {"loop"}, lim |-> 0, dims |-> 0, nvs |-> 0, types |-> {}, cases |-> <<>>, maxops |-> 0, mods |-> {}, clone |-> FALSE]
Sc(S, fam, drv, f) == WithAll(WithAll(WithAll(S, Base), [fam |-> fam, drv |-> drv]), f)
Styles(S) == {With(s, [styles |-> IF Consumable(s) THEN {"loop", "consume"} ELSE {"loop"}]) : s \in S}

FileVals == {<<>>, Ints(1), Ints(2)}
Vias == {"file", "filename", "fd", "pipe"}

(* every interleaving of value / advance / reset / clone / consume (get<T>) *)
ProtoFilesQ == {File(v, l, sp) : v \in Vias, l \in FileVals, sp \in {0, 1}}
               \cup {File("filename", Ints(2), 2), File("file", Ints(1), 2), File("fd", <<>>, 2), File("pipe", Ints(1), 3)}
ProtoFilesT == {File(v, l, sp) : v \in Vias, l \in FileVals \cup {Ints(3)}, sp \in {2, 3}}
IntGets == {"f", "i", "x"}
ProtoCxxQ == Sc({Cxx("d", Ints(n), 1) : n \in 0..2} \cup {Cxx("d", Ints(3), 2), Cxx("f", <<R(1, 2), R(3, 4)>>, -1)}, "proto", "cxx", [gets |-> {"f"}])
             \cup Sc({Cxx("i", Ints(n), 1) : n \in 0..2} \cup {Cxx("i", Ints(5), -2), Cxx("u", Ints(2), 1)}, "proto", "cxx", [gets |-> IntGets])
             \cup Sc({Linear("api", 2, I(0), I(6), 0), Values("values", Ints(2)), Linear("desc", 1, I(-1), I(1), 0)}, "proto", "cxx", [gets |-> {"f"}])
ProtoCxxT == Sc({Cxx("n", Ints(3), -1), Cxx("y", Ints(3), 3), Cxx("x", Ints(4), -3), Cxx("q", Ints(2), -1)}, "proto", "cxx", [gets |-> {"d", "f", "i"}])
             \cup Sc({Cxx("d", Ints(3), 1), Cxx("f", Ints(4), -2)}, "proto", "cxx", [gets |-> {"d", "f"}])
             \cup Sc({Boundary("api", 3, I(1), I(2), I(3)), Values("desc", Ints(3)), Factor(2, I(2), I(3), I(1), 5)}, "proto", "cxx", [gets |-> {"f"}])

(* every interleaving of the consumers on one instance *)
ConsumeSrcQ == {Values("values", Ints(1)), Values("values", Ints(3)), Linear("api", 2, I(0), I(6), 0), Text(Ints(2)),
                File("filename", Ints(2), 1), File("file", Ints(3), 0), File("pipe", Ints(2), 2), File("fd", <<>>, 1),
                Factor(1, I(2), I(3), I(1), 5), Buffer("buffer", Ints(2))}
ConsumeSrcT == {Values("values", Ints(4)), Linear("desc", 3, I(0), I(6), 0), Text(Ints(3)), Text(<<>>), File("filename", Ints(4), 3),
                File("pipe", <<>>, 0), Boundary("api", 3, I(1), I(2), I(3)), Buffer("args", Ints(3)), Range(I(0), I(1), R(1, 2), 0),
                Poly("polyapi", Ints(2), <<I(1), I(0), I(1)>>, <<I(1)>>)}
ConsumeCxxQ == Sc({Cxx("i", Ints(3), 1), Cxx("d", Ints(4), -2)}, "consume", "cxx", [gets |-> {"d", "f"}, styles |-> {"loop", "get"}])
               \cup Sc({Linear("api", 2, I(0), I(6), 0)}, "consume", "cxx", [gets |-> {"f"}, styles |-> {"loop", "get"}])
ConsumeCxxT == Sc({Cxx("n", Ints(4), 1), Cxx("u", Ints(5), 2)}, "consume", "cxx", [gets |-> {"d", "i", "x"}, styles |-> {"loop", "get"}])
               \cup Sc({Values("values", Ints(3)), Factor(2, I(2), I(3), I(1), 5)}, "consume", "cxx", [gets |-> {"f"}, styles |-> {"loop", "get"}])

(* scripted consumers over the parameter tables of Iter and file / template sources *)
WalkFiles == {File(v, l, sp) : v \in {"file", "filename"}, l \in ValLists, sp \in {0, 1, 2}}
             \cup {File(v, l, 3) : v \in {"fd", "pipe"}, l \in ValLists \cup {<<>>}}
WalkCSrc  == (WalkAll \ WalkFill) \cup WalkFiles
CxxLists  == {Ints(1), Ints(4), <<I(-1), I(0), I(1), I(1000)>>, <<I(7), I(-3), I(12), I(5), I(2)>>}
WalkCxx   == {Cxx(t, l, st) : t \in {"d", "f", "i", "x", "n"}, l \in CxxLists, st \in {1, -1, 2, -3}}
             \cup {Cxx("d", l, st) : l \in {<<R(1, 2), R(-5, 4), I(3)>>, <<R(1, 10), R(1, 5)>>}, st \in {1, -1}}
             \cup {Cxx(t, l, 1) : t \in {"u", "q", "y"}, l \in {Ints(1), Ints(4)}}
WalkCxxGen == {x \in WalkLinear \cup WalkRange \cup WalkFactor \cup WalkValues \cup WalkBoundary :
                 x.via \in {"desc", "api", "values"} /\ x.kind # "factormax"}

(* prepare / fill *)
PrepSrc(m) == Sc({Values("values", Ints(3)), Linear("api", 4, I(0), I(1), 0)}, "prep", "c", [maxops |-> m])

(* the raw data store *)
Twelve == Linear("api", 11, I(1), I(12), 0)
StoreC(m)   == Sc({Twelve}, "store", "c", [maxops |-> m, lim |-> 0]) \cup Sc({Twelve}, "store", "c", [maxops |-> m, lim |-> 2])
StoreCxx(m) == Sc({Twelve}, "store", "cxx", [maxops |-> m]) \cup Sc({Twelve}, "store", "cxx", [maxops |-> m, lim |-> 2])
               \cup Sc({Twelve}, "store", "cxx", [maxops |-> m, dims |-> 2])
(* long chains of modify / advance with one kind of modify: the cycle index wraps, cycles are reused *)
DeepMods == {<<0, 0, 0, 1, "d", 0>>}
StoreDeep(m) == UNION {Sc({Twelve}, "store", d, [maxops |-> m, lim |-> l, mods |-> DeepMods]) : d \in {"c", "cxx"}, l \in {0, 1, 2, 3}}
CloneMods == {<<0, 0, 0, 1, "d", 0>>, <<0, 0, 0, 2, "d", 0>>, <<1, 0, 1, 1, "d", 0>>}
StoreClone(m) == Sc({Twelve}, "store", "cxx", [maxops |-> m, mods |-> CloneMods, clone |-> TRUE])
                 \cup Sc({Twelve}, "store", "c", [maxops |-> 3, mods |-> CloneMods, clone |-> TRUE])
ModQ == {<<0, 0, 0, 2, "d", 0>>, <<1, 0, 1, 1, "d", 0>>, <<0, 0, 0, 1, "f", 0>>, <<0, 2, 0, 1, "d", 1>>, <<1, 1, 0, 1, "d", 0>>, <<2, 0, 0, 1, "d", 0>>}
ModT == ModQ \cup {<<0, 0, 2, 1, "d", 0>>, <<1, 2, 0, 2, "f", 0>>, <<0, 3, 1, 1, "d", 0>>, <<0, 0, 0, 1, "d", 1>>}
QueryQ == {<<"val", 0, -1>>, <<"val", 1, 0>>, <<"val", 0, 2>>, <<"dim", -1>>, <<"dim", 1>>, <<"count">>}
QueryT == QueryQ \cup {<<"val", 2, 1>>, <<"dim", 0>>, <<"dim", 3>>}

(* typed value stores *)
VStore(m) == Sc({Cxx("i", Ints(12), 1)}, "vstore", "cxx", [maxops |-> m, nvs |-> 2, types |-> {"d", "i"}])
VStore3(m) == Sc({Cxx("n", Ints(12), 1)}, "vstore", "cxx", [maxops |-> m, nvs |-> 3, types |-> {"f", "n"}])

(* mpt_values_file *)
N2L(rows) == [r \in 1..Len(rows) |-> [k \in 1..Len(rows[r]) |-> I(rows[r][k])]]
LineSets == {N2L(<<<<1, 2>>, <<3, 4>>>>), N2L(<<<<1, 2, 9>>, <<3, 4>>, <<5, 6>>>>), N2L(<<<<1>>, <<2, 3>>, <<4>>>>), N2L(<<<<7, 8>>>>), <<>>,
             <<<<R(1, 2), R(-5, 4)>>, <<R(1, 8), I(1000)>>>>}
Params(rs, cs) == {[rows |-> r, cols |-> c, order |-> o, data |-> d, nl |-> n] : r \in rs, c \in cs, o \in {"row", "col"}, d \in {0, 1}, n \in {0, 1}}
VFileSc(rs, cs) == {With(With(Base, [kind |-> "vfile", via |-> "vfile", fam |-> "vfile", drv |-> "c"]),
                         [cases |-> SetToSeq({With(p, [lines |-> L]) : p \in Params(rs, cs)})]) : L \in LineSets}

(* strided copies *)
CopyVals == <<R(1, 2), I(-3), R(5, 4), I(7), I(0), R(-9, 8), I(11)>>
CopyParams(P) == {[fn |-> f, pts |-> n, lds |-> a, ldd |-> b, vals |-> CopyVals] : f \in {"64", "32", "df", "fd"}, n \in P, a \in {0, 1, 2}, b \in {0, 1, 2}}
CopySc(drv, P) == {With(With(Base, [kind |-> "copy", via |-> "copy", fam |-> "copy", drv |-> drv]), [cases |-> SetToSeq(CopyParams(P))])}

ScQuick ==
  Sc(ProtoFilesQ, "proto", "c", [x |-> 0]) \cup ProtoCxxQ
  \cup Sc(Styles(ConsumeSrcQ), "consume", "c", [x |-> 0]) \cup ConsumeCxxQ
  \cup Sc(WalkCSrc, "walk", "c", [x |-> 0]) \cup Sc(WalkCxx \cup WalkCxxGen, "walk", "cxx", [x |-> 0])
  \cup PrepSrc(3) \cup StoreC(3) \cup StoreCxx(3) \cup StoreDeep(7) \cup StoreClone(5) \cup VStore(2) \cup VFileSc({<<1>>, <<2>>, <<3>>, <<1, 1>>, <<1, 2>>, <<2, 1>>}, {1, 2})
  \cup CopySc("c", {0, 1, 3}) \cup CopySc("cxx", {0, 1, 3})
ScThorough ==
  Sc(ProtoFilesQ \cup ProtoFilesT, "proto", "c", [x |-> 0]) \cup ProtoCxxQ \cup ProtoCxxT
  \cup Sc(Styles(ConsumeSrcQ \cup ConsumeSrcT), "consume", "c", [x |-> 0]) \cup ConsumeCxxQ \cup ConsumeCxxT
  \cup Sc(WalkCSrc \cup WalkRangeMore, "walk", "c", [x |-> 0]) \cup Sc(WalkCxx \cup WalkCxxGen, "walk", "cxx", [x |-> 0])
  \cup PrepSrc(4) \cup StoreC(4) \cup StoreCxx(4) \cup StoreDeep(10) \cup StoreClone(6) \cup VStore(3) \cup VStore3(2) \cup VFileSc({<<1>>, <<2>>, <<3>>, <<4>>, <<1, 1>>, <<1, 2>>, <<2, 1>>, <<1, 1, 1>>, <<2, 2>>, <<3, 1>>}, {1, 2, 3})
  \cup CopySc("c", {0, 1, 2, 3, 4}) \cup CopySc("cxx", {0, 1, 2, 3, 4})
=============================================================================
