---------------------------- MODULE MC_RawStream ----------------------------
EXTENDS RawStream
RawSh(v) == [sec |-> "raw", via |-> v, wcap |-> 8, woff |-> 5, rcap |-> 8, roff |-> 6, grow |-> 2]
FileSh(p) == [sec |-> "file", pre |-> p]
ShapesQ == {RawSh("cxx"), FileSh(<<>>), FileSh(<<5, 13, 10, 7>>)}
ShapesT == {RawSh("cxx"), FileSh(<<>>), FileSh(<<5, 13, 10, 7>>), FileSh(<<10>>)}
DatasQ == {<<1>>, <<2, 10>>, <<13, 10, 3, 4>>}
DatasT == {<<1>>, <<2, 10>>, <<13>>, <<13, 10, 3, 4>>, <<6, 13, 10, 10, 7, 8>>}
RawDatasQ == {<<1>>, <<2, 3, 4>>}
KsQ == {1, 2, 1000000}
KsT == {1, 2, 3, 1000000}
OA(m, nl, fl, buf) == [m |-> m, nl |-> nl, fl |-> fl, buf |-> buf, via |-> "c"]
OpenQ == {OA("r", "-", 0, 1), OA("r", "-", 0, 0), OA("w", "u", 1, 1), OA("w", "n", 1, 1), OA("w", "-", 0, 0), OA("a", "m", 0, 1)}
OpenT == OpenQ \cup {OA("w", "m", 1, 1), OA("a", "n", 1, 1), OA("a", "u", 0, 0), OA("w", "n", 0, 1)}
SK(o, w) == [off |-> o, wh |-> w]
SeekQ == {SK(0, "set"), SK(1, "set"), SK(0, "cur"), SK(-1, "cur"), SK(-1, "end")}
SeekT == SeekQ \cup {SK(3, "set"), SK(2, "cur"), SK(0, "end"), SK(-2, "end")}
PartsQ == {1, 2}
EarlyQ == {0, 1, 1000000}
AheadQ == {0, 1, 8}
View == <<shape, nops, uvars, fvars>>
=============================================================================
