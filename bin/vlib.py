"""
Shared machinery of the /verif checks: builds from the repository's working
tree, TLC runs (exhaustive / behaviour export / trace validation), driver
execution, comparison under an observation projection, known findings and
evidence.  Nothing in here decides a property: verdicts come from TLC
(invariants, trace acceptance) and from equality of the specification's
expected observation with the one the real code produced.
"""
import fcntl
import hashlib
import json
import os
import random
import re
import shutil
import subprocess
import sys
import time

ROOT = os.path.dirname(os.path.dirname(os.path.abspath(__file__)))
WORK = os.path.join(ROOT, "_work")
SPEC = os.path.join(ROOT, "spec")
DRV = os.path.join(ROOT, "drv")
REPO = os.environ.get("VERIF_REPO", "/repo")
TLA_CP = "/opt/veriftools/tla/tla2tools.jar:/opt/veriftools/tla/CommunityModules-deps.jar"
NCPU = os.cpu_count() or 4

SAN_FLAGS = "-fsanitize=address -fno-omit-frame-pointer -O1 -g -DMPT_VERIF -Wno-error"
ASAN_ENV = "detect_odr_violation=0:detect_leaks=0:abort_on_error=0:exitcode=99:allocator_may_return_null=1"


class MachineryError(Exception):
    """The checking machinery itself failed (exit 2, never a violation)."""


def log(*a):
    print("[verif]", *a, file=sys.stderr, flush=True)


def ensure(d):
    os.makedirs(d, exist_ok=True)
    return d


def repo_key():
    return hashlib.sha1(os.path.abspath(REPO).encode()).hexdigest()[:8]


# --------------------------------------------------------------------------
# builds
# --------------------------------------------------------------------------
class Lock:
    def __init__(self, name):
        ensure(WORK)
        self.path = os.path.join(WORK, name + ".lock")

    def __enter__(self):
        self.f = open(self.path, "w")
        fcntl.flock(self.f, fcntl.LOCK_EX)
        return self

    def __exit__(self, *a):
        fcntl.flock(self.f, fcntl.LOCK_UN)
        self.f.close()


def build_libs(san=True):
    """cmake/ninja build of the shared libraries from REPO's working tree."""
    kind = "asan" if san else "plain"
    bdir = os.path.join(WORK, "build-%s-%s" % (kind, repo_key()))
    flags = SAN_FLAGS if san else "-O1 -g -DMPT_VERIF -Wno-error"
    with Lock("build-" + kind + "-" + repo_key()):
        t0 = time.time()
        if not os.path.exists(os.path.join(bdir, "build.ninja")):
            ensure(bdir)
            r = subprocess.run(
                ["cmake", "-G", "Ninja", "-S", REPO, "-B", bdir,
                 "-DCMAKE_C_COMPILER=clang", "-DCMAKE_CXX_COMPILER=clang++",
                 "-DCMAKE_BUILD_TYPE=None", "-Wno-dev", "-Wno-deprecated",
                 "-DCMAKE_C_FLAGS=" + flags, "-DCMAKE_CXX_FLAGS=" + flags],
                stdout=subprocess.PIPE, stderr=subprocess.STDOUT, text=True)
            if r.returncode:
                raise MachineryError("cmake configure failed:\n" + r.stdout[-3000:])
        # aux_source_directory globs at configure time: re-run cmake when the
        # set of source files changed
        stamp = os.path.join(bdir, ".srclist")
        cur = subprocess.run("cd %s && find mptcore mptio mptplot mpt++ mptloader -name '*.c' -o -name '*.cpp' | sort" % REPO,
                             shell=True, stdout=subprocess.PIPE, text=True).stdout
        old = open(stamp).read() if os.path.exists(stamp) else None
        if old is not None and old != cur:
            subprocess.run(["cmake", bdir], stdout=subprocess.DEVNULL, stderr=subprocess.DEVNULL)
        open(stamp, "w").write(cur)
        r = subprocess.run(["ninja", "-C", bdir, "mptcore", "mptio", "mptplot", "mpt++"],
                           stdout=subprocess.PIPE, stderr=subprocess.STDOUT, text=True)
        if r.returncode:
            raise MachineryError("library build failed:\n" + r.stdout[-4000:])
        log("libs (%s) ready in %.1fs" % (kind, time.time() - t0))
    return bdir


INCLUDES = ["mptcore", "mptio", "mptplot", "mpt++", "."]


def build_driver(name, sources, libs=("mptcore",), cxx=False, defines=(), san=True,
                 extra_flags=(), repo_sources=(), link_libs=True):
    """Compile a driver.  sources: files under /verif/drv; repo_sources: files
    of the repository compiled straight into the driver (source seam)."""
    bdir = build_libs(san) if link_libs else None
    odir = ensure(os.path.join(WORK, "drv-" + repo_key()))
    exe = os.path.join(odir, name)
    cc = "clang++" if cxx else "clang"
    cmd = [cc] + (SAN_FLAGS.split() if san else ["-O1", "-g", "-DMPT_VERIF"])
    if cxx:
        cmd += ["-std=c++11"]
    cmd += ["-Wno-unused-function", "-Wno-deprecated"]
    cmd += ["-I" + DRV] + ["-I" + os.path.join(REPO, i) for i in INCLUDES]
    cmd += ["-D" + d for d in defines] + list(extra_flags)
    cmd += [s if os.path.isabs(s) else os.path.join(DRV, s) for s in sources]
    cmd += [os.path.join(REPO, s) for s in repo_sources]
    if link_libs:
        for l in libs:
            sub = {"mptcore": "mptcore", "mptio": "mptio", "mptplot": "mptplot", "mpt++": "mpt++"}[l]
            d = os.path.join(bdir, sub)
            cmd += ["-L" + d, "-Wl,-rpath," + d, "-l" + l]
    cmd += ["-lm", "-ldl", "-o", exe + ".tmp%d" % os.getpid()]
    r = subprocess.run(cmd, stdout=subprocess.PIPE, stderr=subprocess.STDOUT, text=True)
    if r.returncode:
        raise MachineryError("driver build failed (%s):\n%s" % (name, r.stdout[-4000:]))
    os.replace(exe + ".tmp%d" % os.getpid(), exe)
    return exe


def run_driver(exe, script, timeout=600, env=None, args=()):
    """Feed a script to a driver; returns (records, stderr_text)."""
    e = dict(os.environ)
    e["ASAN_OPTIONS"] = ASAN_ENV
    e["UBSAN_OPTIONS"] = "print_stacktrace=1"
    if env:
        e.update(env)
    try:
        r = subprocess.run([exe] + list(args), input=script, stdout=subprocess.PIPE,
                           stderr=subprocess.PIPE, text=True, timeout=timeout, env=e,
                           errors="replace")
    except subprocess.TimeoutExpired:
        raise MachineryError("driver %s timed out after %ss" % (exe, timeout))
    recs = []
    for ln in r.stdout.splitlines():
        ln = ln.strip()
        if not ln.startswith("{"):
            continue
        try:
            recs.append(json.loads(ln))
        except ValueError:
            recs.append({"a": "Garbled", "raw": ln[:200]})
    if r.returncode not in (0,):
        raise MachineryError("driver %s exited %s\n%s" % (exe, r.returncode, r.stderr[-2000:]))
    return recs, r.stderr


# --------------------------------------------------------------------------
# TLC
# --------------------------------------------------------------------------
class TlcResult:
    def __init__(self):
        self.rc = None
        self.out = ""
        self.generated = 0
        self.distinct = 0
        self.depth = 0
        self.violation = None    # text of the violated invariant/property
        self.error = None        # machinery error text
        self.wall = 0.0
        self.coverage = {}

    @property
    def ok(self):
        return self.rc == 0 and not self.violation and not self.error


def tlc(module, cfg=None, workers=None, simulate=None, depth=None, env=None, timeout=1500,
        xss=None, xmx="8g", coverage=False, deque=False, tag=None, extra=()):
    """Run TLC on spec/<module>.tla with spec/<cfg>; returns TlcResult."""
    tag = tag or module
    md = os.path.join(WORK, "tlc-%s-%d" % (tag, os.getpid()))
    shutil.rmtree(md, ignore_errors=True)
    ensure(md)
    java = ["java", "-XX:+UseParallelGC", "-Xmx" + xmx]
    if xss:
        java.append("-Xss" + xss)
    if deque:
        java.append("-Dtlc2.tool.queue.IStateQueue=StateDeque")
    cmd = java + ["-cp", TLA_CP, "tlc2.TLC", "-metadir", md, "-noGenerateSpecTE"]
    cmd += ["-workers", str(workers or NCPU)]
    if simulate:
        cmd += ["-simulate", "num=%d" % simulate]
        if depth:
            cmd += ["-depth", str(depth)]
    if coverage:
        cmd += ["-coverage", "1"]
    cmd += list(extra)
    cmd += ["-config", cfg or (module + ".cfg"), module + ".tla"]
    e = dict(os.environ)
    if env:
        e.update({k: str(v) for k, v in env.items()})
    res = TlcResult()
    t0 = time.time()
    try:
        r = subprocess.run(cmd, cwd=SPEC, stdout=subprocess.PIPE, stderr=subprocess.STDOUT,
                           text=True, timeout=timeout, env=e, errors="replace")
        res.rc = r.returncode
        res.out = r.stdout
    except subprocess.TimeoutExpired as ex:
        res.rc = -1
        res.out = (ex.stdout or b"").decode(errors="replace") if isinstance(ex.stdout, bytes) else (ex.stdout or "")
        res.error = "TLC timed out after %ss" % timeout
    finally:
        shutil.rmtree(md, ignore_errors=True)
    res.wall = time.time() - t0
    m = re.findall(r"(\d[\d,]*) states generated, (\d[\d,]*) distinct states found", res.out)
    if m:
        res.generated = int(m[-1][0].replace(",", ""))
        res.distinct = int(m[-1][1].replace(",", ""))
    m = re.search(r"depth of the complete state graph search is (\d+)", res.out)
    if m:
        res.depth = int(m.group(1))
    m = re.search(r"Error: (Invariant \S+ is violated|Action property .* is violated|Temporal properties were violated|"
                  r"Deadlock reached|Assumption .* is false|Postcondition .* is false)", res.out)
    if m:
        res.violation = m.group(1)
    elif res.rc not in (0, -1):
        if res.rc in (12, 13):
            res.violation = "TLC reported a property violation (rc=%d)" % res.rc
        else:
            res.error = "TLC failed rc=%s\n%s" % (res.rc, res.out[-3000:])
    return res


def parse_behaviours(out):
    """Lines <<"BEHAV", "<json>">> printed by a Gen configuration."""
    behs = []
    for ln in out.splitlines():
        if not ln.startswith('<<"BEHAV", '):
            continue
        body = ln[len('<<"BEHAV", '):]
        if body.endswith(">>"):
            body = body[:-2]
        try:
            behs.append(json.loads(json.loads(body)))
        except ValueError:
            raise MachineryError("cannot parse behaviour line: " + ln[:200])
    return behs


def fmt_val(v):
    if isinstance(v, bool):
        return "1" if v else "0"
    if isinstance(v, int):
        return str(v)
    if isinstance(v, str):
        return v if v else "-"
    if isinstance(v, list):
        if not v:
            return "-"
        if all(isinstance(x, int) and not isinstance(x, bool) for x in v):
            return ",".join(str(x) for x in v)
        return ",".join(fmt_val(x) for x in v)
    if isinstance(v, dict):
        return ";".join("%s:%s" % (k, fmt_val(x)) for k, x in v.items())
    raise MachineryError("cannot format value %r" % (v,))


def to_script(behaviours):
    """behaviours: list of lists of {"a","arg",...}.  One 'B <id>' block each."""
    lines = []
    for i, beh in enumerate(behaviours):
        lines.append("B %d" % i)
        for st in beh:
            toks = [st["a"]]
            for k, v in (st.get("arg") or {}).items():
                toks.append("%s=%s" % (k, fmt_val(v)))
            lines.append(" ".join(toks))
    return "\n".join(lines) + "\n"


def group_records(recs):
    by = {}
    for r in recs:
        by.setdefault(r.get("b"), []).append(r)
    return by


STOP = "__stop__"   # a match function returns this to accept the step and end the comparison of the behaviour


def default_match(exp, obs, step=None, rec=None, prev=None):
    """Key-wise equality; expected value "any" matches everything."""
    for k, v in exp.items():
        if v == "any":
            continue
        if k not in obs:
            return "missing observation %r" % k
        if obs[k] != v:
            return "%s: expected %s, observed %s" % (k, json.dumps(v)[:300], json.dumps(obs[k])[:300])
    return None


def compare(behaviours, recs, match=default_match):
    """Returns list of mismatches: dict(b, i, step, rec, why).  Only the first
    differing step of a behaviour is reported (the states have diverged)."""
    by = group_records(recs)
    out = []
    for b, beh in enumerate(behaviours):
        rs = by.get(b, [])
        for i, st in enumerate(beh):
            if i >= len(rs):
                out.append({"b": b, "i": i, "step": st, "rec": None, "why": "no record (driver stopped)"})
                break
            rec = rs[i]
            if rec.get("a") in ("Crash", "Hang", "Garbled"):
                out.append({"b": b, "i": i, "step": st, "rec": rec, "why": rec["a"]})
                break
            why = match(st.get("exp") or {}, rec.get("obs") or {}, st, rec, rs[i - 1] if i else None)
            if why == STOP:
                break       # permitted divergence (e.g. a refusal the statement allows): the rest is not comparable
            if why:
                out.append({"b": b, "i": i, "step": st, "rec": rec, "why": why})
                break
    return out


# --------------------------------------------------------------------------
# trace validation
# --------------------------------------------------------------------------
def merge_trace(behaviours, recs):
    """Join script steps (a, arg) with driver records (obs, dbg) into events."""
    by = group_records(recs)
    ev = []
    for b, beh in enumerate(behaviours):
        rs = by.get(b, [])
        for i, st in enumerate(beh):
            e = {"a": st["a"], "arg": st.get("arg") or {}, "b": b, "i": i}
            if i < len(rs) and rs[i].get("a") not in ("Crash", "Hang", "Garbled"):
                e["obs"] = rs[i].get("obs") or {}
                e["dbg"] = rs[i].get("dbg") or {}
            else:
                e["a"] = (rs[i]["a"] if i < len(rs) else "Missing")
                ev.append(e)
                break
            ev.append(e)
    return ev


def validate_trace(module, events, cfg=None, tag=None, timeout=1500, xss="512m", extra_env=None):
    """TLC trace validation: spec/<module>.tla reads $TRACE (ndjson), must
    define TraceAccepted as POSTCONDITION and print <<"MATCHED", n>>.
    Returns (accepted, matched_prefix_len, TlcResult)."""
    tdir = ensure(os.path.join(WORK, "traces"))
    path = os.path.join(tdir, "%s-%d.ndjson" % (tag or module, os.getpid()))
    with open(path, "w") as f:
        for e in events:
            f.write(json.dumps(e, separators=(",", ":")) + "\n")
    env = {"TRACE": path}
    if extra_env:
        env.update(extra_env)
    res = tlc(module, cfg, workers=1, env=env, timeout=timeout, xss=xss, tag=tag)
    matched = None
    m = re.findall(r'<<"MATCHED", (\d+)>>', res.out)
    if m:
        matched = int(m[-1])
    accepted = (res.rc == 0 and matched == len(events))
    if res.error:
        raise MachineryError(res.error)
    if matched is None:
        raise MachineryError("trace validation produced no MATCHED line:\n" + res.out[-3000:])
    if accepted:
        os.unlink(path)
    return accepted, matched, res


# --------------------------------------------------------------------------
# known findings, evidence, verdict
# --------------------------------------------------------------------------
def load_findings(pid):
    p = os.path.join(ROOT, "known_findings.json")
    if not os.path.exists(p):
        return []
    data = json.load(open(p))
    return [f for f in data.get("findings", []) if f.get("property") == pid and f.get("status") == "open"]


CURRENT = None      # the Check of this process (bin/check.py reports its violations if the machinery fails later)


class Check:
    """Bookkeeping of one check run: violations, known findings, evidence."""

    def __init__(self, pid, tier, level="model_checking"):
        global CURRENT
        CURRENT = self
        self.pid = pid
        self.tier = tier
        self.level = level
        self.seed = int(os.environ.get("VERIF_SEED", "1"))
        self.rng = random.Random(self.seed)
        self.t0 = time.time()
        self.findings = load_findings(pid)
        self.known_hit = {}
        self.violations = []
        self.cov = {"states": 0, "transitions": 0, "traces_validated_against_impl": 0,
                    "evaluations": 0, "distinct_nontrivial": 0, "samples": [], "rule": "",
                    "exhaustive": False}
        self.assumptions = []
        self.notes = {}
        ensure(os.path.join(WORK, "violations"))

    # -- model checking results
    def add_tlc(self, res, what):
        self.cov["states"] += res.distinct
        self.cov["transitions"] += res.generated
        self.notes.setdefault("tlc_runs", []).append(
            {"what": what, "distinct": res.distinct, "generated": res.generated,
             "depth": res.depth, "wall_s": round(res.wall, 1)})
        if res.error:
            raise MachineryError("%s: %s" % (what, res.error))
        if res.violation:
            self.violation("model:" + what, {"tlc": res.violation, "output_tail": res.out[-6000:]})

    # -- reporting
    def signature_known(self, sig):
        for f in self.findings:
            if f.get("signature") == sig:
                return f
        return None

    def violation(self, sig, detail):
        """sig: specific signature string of the failing case."""
        f = self.signature_known(sig)
        if f:
            self.known_hit.setdefault(sig, f)
            return False
        n = len(self.violations)
        path = os.path.join(WORK, "violations", "%s-%s-%d.json" % (self.pid, self.tier, n))
        with open(path, "w") as fh:
            json.dump({"property": self.pid, "tier": self.tier, "seed": self.seed,
                       "signature": sig, "detail": detail}, fh, indent=1, default=str)
        self.violations.append((sig, path))
        return True

    def finish(self):
        wall = time.time() - self.t0
        for sig, f in self.known_hit.items():
            print("KNOWN-FINDING: property=%s %s [%s]" % (self.pid, f.get("what", ""), sig))
        seen = set()
        for sig, path in self.violations:
            if sig in seen:
                continue
            seen.add(sig)
            print("VIOLATION property=%s replay=%s  (%s)" % (self.pid, path, sig))
        cov = dict(self.cov)
        cov["samples"] = cov["samples"][:6] or ["(none)"]
        cov.update(self.notes)
        ev = {"property_id": self.pid, "tier": self.tier, "seed": self.seed, "level": self.level,
              "coverage": cov, "assumptions": self.assumptions, "wall_s": round(wall, 2),
              "violations": len(seen)}
        # runs against a scratch tree (VERIF_REPO=<worktree>, e.g. bin/mutrun.sh) must not replace the
        # evidence of the run against the repository itself
        evdir = os.path.join(ROOT, "evidence") if os.path.abspath(REPO) == "/repo" else os.path.join(WORK, "evidence-scratch")
        ensure(evdir)
        with open(os.path.join(evdir, self.pid + ".json"), "w") as fh:
            json.dump(ev, fh, indent=1, default=str)
        log("%s %s: %d violation(s), %d known finding(s), %.1fs" %
            (self.pid, self.tier, len(seen), len(self.known_hit), wall))
        return 1 if seen else 0


def sample_repr(beh, limit=12):
    """Compact, human-readable rendering of a behaviour for evidence samples."""
    out = []
    for st in beh[:limit]:
        out.append({"a": st["a"], "arg": st.get("arg"), "exp": st.get("exp")})
    return out


# --------------------------------------------------------------------------
# streamed, parallel replay of large behaviour dumps
# --------------------------------------------------------------------------
_RW = {}


def tlc_to_file(module, cfg, path, workers=None, timeout=3000, xmx="8g", extra_env=None):
    """Run a Gen configuration with stdout written to <path> (for dumps too big for memory)."""
    md = os.path.join(WORK, "tlc-%s-%d" % (module, os.getpid()))
    shutil.rmtree(md, ignore_errors=True)
    ensure(md)
    cmd = ["java", "-XX:+UseParallelGC", "-Xmx" + xmx, "-cp", TLA_CP, "tlc2.TLC", "-metadir", md,
           "-noGenerateSpecTE", "-workers", str(workers or 8), "-config", cfg, module + ".tla"]
    e = dict(os.environ)
    if extra_env:
        e.update(extra_env)
    t0 = time.time()
    with open(path, "w") as f:
        try:
            r = subprocess.run(cmd, cwd=SPEC, stdout=f, stderr=subprocess.STDOUT, timeout=timeout, env=e)
        except subprocess.TimeoutExpired:
            raise MachineryError("TLC dump timed out: " + module)
        finally:
            shutil.rmtree(md, ignore_errors=True)
    tail = subprocess.run(["tail", "-n", "30", path], stdout=subprocess.PIPE, text=True).stdout
    res = TlcResult()
    res.rc = r.returncode
    res.out = tail
    res.wall = time.time() - t0
    m = re.findall(r"(\d[\d,]*) states generated, (\d[\d,]*) distinct states found", tail)
    if m:
        res.generated = int(m[-1][0].replace(",", ""))
        res.distinct = int(m[-1][1].replace(",", ""))
    if r.returncode != 0:
        res.error = "TLC dump failed rc=%s\n%s" % (r.returncode, tail)
    return res


def _replay_worker(lines):
    exe, match, fix, nontrivial = _RW["exe"], _RW["match"], _RW["fix"], _RW["nontrivial"]
    behs = parse_behaviours("\n".join(lines))
    if fix:
        for b in behs:
            fix(b)
    recs, _ = run_driver(exe, to_script(behs), timeout=1500)
    mms = compare(behs, recs, match)
    out = []
    for mm in mms[:40]:
        out.append({"behaviour": behs[mm["b"]], "step": mm["i"], "why": mm["why"], "record": mm["rec"], "st": mm["step"]})
    nt = set()
    if nontrivial:
        by = group_records(recs)
        for b, beh in enumerate(behs):
            if nontrivial(by.get(b, [])):
                nt.add(hashlib.md5(json.dumps([(s["a"], s.get("arg")) for s in beh], sort_keys=True).encode()).digest()[:8])
    sample = sample_repr(behs[len(behs) // 2]) if behs else None
    return len(behs), len(mms), out, nt, sample


def replay_file(path, exe, match=default_match, fix=None, nontrivial=None, chunk=15000, procs=None):
    """Replay every behaviour of a TLC dump file in parallel chunks.
    Returns dict(n=, mismatches=, details=[...], nontrivial=set, samples=[...])."""
    import multiprocessing as mp
    _RW.update(exe=exe, match=match, fix=fix, nontrivial=nontrivial)

    def chunks():
        cur = []
        with open(path, errors="replace") as f:
            for ln in f:
                if ln.startswith('<<"BEHAV", '):
                    cur.append(ln.rstrip("\n"))
                    if len(cur) >= chunk:
                        yield cur
                        cur = []
        if cur:
            yield cur

    tot = dict(n=0, mismatches=0, details=[], nontrivial=set(), samples=[])
    ctx = mp.get_context("fork")
    with ctx.Pool(procs or max(2, NCPU // 2)) as pool:
        for n, nm, det, nt, sample in pool.imap_unordered(_replay_worker, chunks()):
            tot["n"] += n
            tot["mismatches"] += nm
            if len(tot["details"]) < 200:
                tot["details"] += det
            tot["nontrivial"] |= nt
            if sample and len(tot["samples"]) < 3:
                tot["samples"].append(sample)
    return tot
