#!/bin/bash
# usage: seedconfirm.sh <seed-out-dir> <seeded-id> <Cxx>
# Confirms a seeded change independently (clean: demo passes; patched: builds, 29/29 ctest, demo fails),
# runs the property's quick check against it, and stores everything under /verif/seeded/<seeded-id>/.
set -u
SRC="$1"; ID="$2"; PROP="$3"
DST=/verif/seeded/$ID
mkdir -p "$DST"
cp "$SRC/patch.diff" "$DST/patch.diff"
DEMO=$(ls "$SRC"/demo.c "$SRC"/demo.cpp 2>/dev/null | head -1)
cp "$DEMO" "$DST/"
W=$(mktemp -d /tmp/sc.XXXXXX)
git -C /repo worktree add --detach -f "$W" HEAD >/dev/null 2>&1
trap 'git -C /repo worktree remove --force "$W" 2>/dev/null; git -C /repo worktree prune' EXIT
build() { cmake -G Ninja -S "$W" -B "$W/_build" -DCMAKE_C_FLAGS=-Wno-error -DCMAKE_CXX_FLAGS=-Wno-error >/dev/null 2>&1 && cmake --build "$W/_build" >/dev/null 2>&1; }
demo() {
  case "$DEMO" in
    *.cpp) CC="c++ -std=c++11" ;;
    *) CC=cc ;;
  esac
  CORE="-L$W/_build/mptcore -lmptcore -Wl,-rpath,$W/_build/mptcore"
  IO="-L$W/_build/mptio -lmptio -Wl,-rpath,$W/_build/mptio"
  PLOT="-L$W/_build/mptplot -lmptplot -Wl,-rpath,$W/_build/mptplot"
  CXX="-L$W/_build/mpt++ -lmpt++ -Wl,-rpath,$W/_build/mpt++"
  HDRS=$(ls "$SRC"/*.h 2>/dev/null)
  # libmpt++ goes in FRONT of libmptcore: its creator overrides (mpt_meta_new, mpt_node_new) work by link order
  LIBS=""
  if grep -q "mpt++\|\"io.h\"\|namespace mpt\|mpt::" "$DEMO"; then LIBS="$CXX $PLOT $IO"; fi
  if grep -q "values.h\|layout.h\|history.h\|mpt_output_bind\|mpt_mapping" "$DEMO" $HDRS 2>/dev/null; then LIBS="$LIBS $PLOT $IO"; fi
  if grep -q "stream.h\|mptio\|connection.h\|notify.h" "$DEMO" $HDRS 2>/dev/null; then LIBS="$LIBS $IO"; fi
  LIBS="$LIBS $CORE -rdynamic"
  ARG=""
  if [ -f "$SRC/plugin.c" ]; then cp "$SRC/plugin.c" "$DST/"; cc -shared -fPIC -I"$W/mptcore" "$SRC/plugin.c" -o "$W/plugin.so" || return 99; ARG="$W/plugin.so"; fi
  if grep -q "loader.h\|mpt_library" "$DEMO"; then LIBS="$LIBS -L$W/_build/mptloader -lmptloader -Wl,-rpath,$W/_build/mptloader -ldl"; fi
  $CC -g -I"$W/mptloader" -I"$W/mptcore" -I"$W/mptio" -I"$W/mptplot" -I"$W/mpt++" -I"$W" "$DEMO" -o "$W/demo.bin" $LIBS -lm >/dev/null 2>"$W/demo.err" || { echo "demo build failed"; cat "$W/demo.err" | head; return 99; }
  timeout 60 "$W/demo.bin" $ARG >/dev/null 2>&1
  return $?
}
build || { echo "clean build failed"; exit 2; }
demo; CLEAN=$?
git -C "$W" apply "$SRC/patch.diff" || { echo "patch does not apply"; exit 2; }
build; PB=$?
TESTS=$(ctest --test-dir "$W/_build" -j8 --timeout 120 2>&1 | grep "tests passed" | sed 's/^ *//')
demo; PATCHED=$?
git -C "$W" checkout -- . 
OUT=$(/verif/bin/mutrun.sh "$SRC/patch.diff" "$PROP" quick 2>&1)
DET=$(echo "$OUT" | grep -c "^VIOLATION")
SIGS=$(echo "$OUT" | grep "^VIOLATION" | sed 's/.*(\(.*\))$/\1/' | tr '\n' ';')
echo "$ID: clean_demo_exit=$CLEAN patched_build=$PB tests='$TESTS' patched_demo_exit=$PATCHED detected=$DET [$SIGS]"
python3 - "$SRC/meta.json" "$DST/meta.json" "$PROP" "$CLEAN" "$PB" "$TESTS" "$PATCHED" "$DET" "$SIGS" <<'PY'
import json,sys
src,dst,prop,clean,pb,tests,patched,det,sigs=sys.argv[1:10]
m=json.load(open(src))
m.update({"property":prop,"breaks":prop,
 "confirmed":{"clean_tree_demo_exit":int(clean),"patched_library_builds":pb=="0","baseline_tests":tests,"patched_demo_exit":int(patched),
   "how":"fresh git worktree of /repo HEAD; cmake/ninja build; demo compiled against it; git apply patch.diff; rebuild; ctest -j8; demo again (bin/seedconfirm.sh)"},
 "check":{"cmd":"bin/mutrun.sh patch.diff %s quick"%prop,"violation_lines":int(det),"signatures":[s for s in sigs.split(';') if s]}})
json.dump(m,open(dst,'w'),indent=1)
PY
