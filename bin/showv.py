#!/usr/bin/env python3
import json,sys
for p in sys.argv[1:]:
    d=json.load(open(p)); det=d['detail']
    print("==",p,d['signature'])
    beh=det.get('behaviour') or []
    k=det.get('step')
    for i,s in enumerate(beh[: (k+1 if k is not None else 6)]):
        print("   ",i,s['a'],json.dumps(s.get('arg')),"=> exp",json.dumps(s.get('exp')) if 'exp' in s else '')
    print("   why:",det.get('why'))
    print("   rec:",json.dumps(det.get('record'))[:600])
    if 'rejected_event' in det: print("   rejected:",json.dumps(det['rejected_event'])[:600]); print("   prev:",json.dumps(det.get('previous_event'))[:600])
    if 'tlc' in det: print(det['tlc']); print(det['output_tail'][-2500:])
