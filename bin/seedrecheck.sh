#!/bin/bash
# usage: seedrecheck.sh <seeded-id> ...   -- re-run the property's quick check against each kept seeded change and
# refresh the "check" block of its meta.json (detection status after strengthening)
for ID in "$@"; do
  D=/verif/seeded/$ID
  PROP=$(python3 -c "import json;print(json.load(open('$D/meta.json'))['property'])")
  OUT=$(/verif/bin/mutrun.sh "$D/patch.diff" "$PROP" quick 2>&1)
  DET=$(echo "$OUT" | grep -c "^VIOLATION")
  SIGS=$(echo "$OUT" | grep "^VIOLATION" | sed 's/.*(\(.*\))$/\1/' | tr '\n' ';')
  RC=$(echo "$OUT" | grep -o "rc=[0-9]*" | tail -1)
  echo "$ID: detected=$DET $RC [$(echo $SIGS | cut -c1-200)]"
  python3 - "$D/meta.json" "$PROP" "$DET" "$SIGS" <<'PY'
import json,sys
p,prop,det,sigs=sys.argv[1:5]
m=json.load(open(p))
old=m.get("check",{})
m["check"]={"cmd":"bin/mutrun.sh <abs>/patch.diff %s quick"%prop,"violation_lines":int(det),"signatures":[s for s in sigs.split(';') if s][:40]}
if not old.get("violation_lines") and int(det): m["check"]["note"]="missed when first seeded; caught after the check was strengthened"
json.dump(m,open(p,'w'),indent=1)
PY
done
