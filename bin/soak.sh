#!/bin/bash
# usage: soak.sh <seeds...>  -- run every accepted quick check with several seeds; report anything that is not exit 0
cd /verif
for seed in "$@"; do
  for id in $(cat checks/ACCEPTED); do
    out=$(VERIF_SEED=$seed python3 bin/check.py $id --tier quick 2>&1); rc=$?
    if [ $rc -ne 0 ]; then echo "SOAK seed=$seed $id rc=$rc"; echo "$out" | grep -E "VIOLATION|MACHINERY|Error" | head -5; mkdir -p _work/soak; cp _work/violations/$id-quick-0.json _work/soak/$id-seed$seed.json 2>/dev/null; fi
  done
  echo "seed $seed done"
done
