#!/usr/bin/env python3
"""Entry point:  check.py <Cxx> [--tier quick|thorough] [--replay file]

exit 0  the property held on everything explored (KNOWN-FINDING lines allowed)
exit 1  a line "VIOLATION property=<id> replay=<path>" was printed
exit 2  the machinery failed (never a verdict)
"""
import argparse
import importlib
import os
import sys
import traceback

sys.path.insert(0, os.path.dirname(os.path.abspath(__file__)))
sys.path.insert(0, os.path.join(os.path.dirname(os.path.dirname(os.path.abspath(__file__))), "checks"))
import vlib  # noqa: E402


def main():
    ap = argparse.ArgumentParser()
    ap.add_argument("pid")
    ap.add_argument("--tier", default=os.environ.get("VERIF_TIER", "quick"), choices=["quick", "thorough"])
    ap.add_argument("--replay", default=None)
    a = ap.parse_args()
    pid = a.pid.upper()
    mod = importlib.import_module(pid.lower())
    try:
        if a.replay:
            return mod.replay(a.replay)
        return mod.run(a.tier)
    except vlib.MachineryError as e:
        print("MACHINERY-ERROR %s: %s" % (pid, e), file=sys.stderr)
        return 2
    except Exception:
        traceback.print_exc()
        return 2


if __name__ == "__main__":
    sys.exit(main())
