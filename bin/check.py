#!/usr/bin/env python3
"""Entry point:  check.py <Cxx> [--tier quick|thorough] [--replay file]

exit 0  the property held on everything explored (KNOWN-FINDING lines allowed)
exit 1  a line "VIOLATION property=<id> replay=<path>" was printed
exit 2  the machinery failed (never a verdict)
"""
import argparse
import importlib
import os
import sys
import traceback

sys.path.insert(0, os.path.dirname(os.path.abspath(__file__)))
sys.path.insert(0, os.path.join(os.path.dirname(os.path.dirname(os.path.abspath(__file__))), "checks"))
import vlib  # noqa: E402


def main():
    ap = argparse.ArgumentParser()
    ap.add_argument("pid")
    ap.add_argument("--tier", default=os.environ.get("VERIF_TIER", "quick"), choices=["quick", "thorough"])
    ap.add_argument("--replay", default=None)
    a = ap.parse_args()
    pid = a.pid.upper()
    mod = importlib.import_module(pid.lower())
    try:
        if a.replay:
            return mod.replay(a.replay)
        return mod.run(a.tier)
    except vlib.MachineryError as e:
        print("MACHINERY-ERROR %s: %s" % (pid, e), file=sys.stderr)
        return after_failure(str(e))
    except Exception as e:
        traceback.print_exc()
        return after_failure(repr(e))


def after_failure(msg):
    """A machinery failure is never a verdict (exit 2) - but violations that were already established before it
    (replay differences, traces rejected by TLC) are not thrown away with it: a changed tree can make a later
    stage fail in the tooling (seed C18-12 did: an out-of-range integer in a trace operator) after earlier stages
    had already rejected its behaviour."""
    ck = vlib.CURRENT
    if ck is not None and ck.violations and not a_replay():
        ck.notes["machinery_error_after_violations"] = msg[:600]
        try:
            return ck.finish()
        except Exception:
            traceback.print_exc()
    return 2


def a_replay():
    return "--replay" in sys.argv


if __name__ == "__main__":
    sys.exit(main())
