#!/bin/bash
# usage: seedround.sh <Cxx> <seeder-out-dir> <first-new-index>  -- confirm the changes <out>/1..4 as <Cxx>-<first>.. in order
PROP="$1"; OUT="$2"; N="$3"
for i in 1 2 3 4; do
  [ -f "$OUT/$i/patch.diff" ] || continue
  /verif/bin/seedconfirm.sh "$OUT/$i" "$PROP-$N" "$PROP" 2>&1 | tail -3
  N=$((N+1))
done
