#!/usr/bin/env python3
"""Writes /verif/MANIFEST.json from the table below (one entry per claimed property)."""
import json
import os

ROOT = os.path.dirname(os.path.dirname(os.path.abspath(__file__)))

import glob
import importlib
import sys

sys.path.insert(0, os.path.join(ROOT, "bin"))
sys.path.insert(0, os.path.join(ROOT, "checks"))


def load_checks():
    """Every checks/cNN.py that defines MANIFEST = dict(spec=, text=, note=, technique=, design=[, category=])."""
    out = {}
    accepted = set(open(os.path.join(ROOT, "checks", "ACCEPTED")).read().split())
    for f in sorted(glob.glob(os.path.join(ROOT, "checks", "c[0-9]*.py"))):
        if os.path.basename(f)[:-3].upper() not in accepted:
            continue
        mod = importlib.import_module(os.path.basename(f)[:-3])
        if getattr(mod, "MANIFEST", None) and mod.PID in accepted:
            out[mod.PID] = mod.MANIFEST
    return out


NOT_YET = "check not built yet (planned in DESIGN.md section 5); no claim is made"


def main():
    props = [json.loads(l) for l in open(os.path.join(ROOT, "properties.jsonl"))]
    checks = []
    na = []
    CHECKS = load_checks()
    for p in props:
        pid = p["id"]
        c = CHECKS.get(pid)
        if not c:
            na.append({"property_id": pid, "reason": NOT_YET})
            continue
        checks.append({
            "property_id": pid,
            "quick_cmd": "python3 bin/check.py %s --tier quick" % pid,
            "thorough_cmd": "python3 bin/check.py %s --tier thorough" % pid,
            "evidence_file": "evidence/%s.json" % pid,
            "replay_cmd_template": "python3 bin/check.py %s --replay {path}" % pid,
            "engine": "tlc-conformance",
            "level_claimed": {"category": c.get("category", "model_checking"), "text": c["text"],
                              "design_ref": "DESIGN.md section " + c["design"]},
            "level_note": c["note"],
            "technique": c["technique"],
        })
    man = {
        "version": 1,
        "setup_cmd": "mkdir -p _work evidence && python3 bin/check.py --help >/dev/null",
        "hooks": {
            "guard": "MPT_VERIF",
            "enable": "checks build /repo's working tree with clang -fsanitize=address -DMPT_VERIF (bin/vlib.py build_libs); no hook is present in the sources",
            "baseline_off_cmd": "cmake --build /repo/_build && ctest --test-dir /repo/_build -j8 --timeout 900",
            "source_commits": [],
            "add_only": True,
        },
        "engines": [{
            "name": "tlc-conformance", "path": "bin/check.py",
            "serves_properties": [c["property_id"] for c in checks],
            "kind_free_text": "explicit TLA+ specifications (spec/*.tla) checked by TLC; bound to the code by replay of TLC-generated "
                              "behaviours into drivers (drv/) built from /repo's working tree and by TLC validation of traces recorded from them",
        }],
        "checks": checks,
        "not_applicable": na,
        "notes": "Every check: exit 0 = held (KNOWN-FINDING lines possible), exit 1 + VIOLATION line = violated, exit 2 = machinery failure. "
                 "VERIF_SEED seeds the random histories; VERIF_REPO overrides the repository path (default /repo).",
    }
    with open(os.path.join(ROOT, "MANIFEST.json"), "w") as f:
        json.dump(man, f, indent=1)
    print("MANIFEST.json: %d checks, %d not_applicable" % (len(checks), len(na)))


if __name__ == "__main__":
    main()
