#!/bin/sh
# usage: mutrun.sh <patch-file|-R:commit> <Cxx> [tier]   -- run a check against a scratch worktree with a change applied
set -e
P="$1"; ID="$2"; TIER="${3:-quick}"
W=$(mktemp -d /tmp/mw.XXXXXX)
git -C /repo worktree add --detach -f "$W" HEAD >/dev/null 2>&1
K=$(python3 -c "import hashlib,os,sys; print(hashlib.sha1(os.path.abspath(sys.argv[1]).encode()).hexdigest()[:8])" "$W")
cleanup() {
  rm -rf /verif/_work/build-asan-$K /verif/_work/build-plain-$K /verif/_work/drv-$K /verif/_work/*-$K.lock
  git -C /repo worktree remove --force "$W" 2>/dev/null || rm -rf "$W"
  git -C /repo worktree prune
}
trap cleanup EXIT
case "$P" in
  -R:*) git -C "$W" revert --no-commit "${P#-R:}" >/dev/null ;;
  *) git -C "$W" apply "$P" ;;
esac
set +e
VERIF_REPO="$W" python3 /verif/bin/check.py "$ID" --tier "$TIER" 2>&1 | grep -E "VIOLATION|KNOWN|MACHINERY|\[verif\] C" | cut -c1-300
