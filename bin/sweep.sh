#!/bin/bash
# usage: sweep.sh <tier> <ids...>  -- run the given checks in order, log rc/summary/time
cd /verif
tier="$1"; shift
for id in "$@"; do
  t0=$(date +%s)
  out=$(timeout 3000 python3 bin/check.py $id --tier $tier 2>&1); rc=$?
  t1=$(date +%s)
  echo "$id $tier rc=$rc wall=$((t1-t0))s $(echo "$out" | grep -E '\[verif\] C[0-9]+ (quick|thorough)' | tail -1)"
  if [ $rc -ne 0 ]; then echo "$out" | grep -E "VIOLATION|MACHINERY|Error" | head -5 | cut -c1-250; mkdir -p _work/sweep; cp _work/violations/$id-$tier-0.json _work/sweep/ 2>/dev/null; fi
done
