"""
Allocation-seam builds (DESIGN.md section 2): repository C sources are compiled
with malloc/free/realloc/calloc redirected to the vf_* functions of drv/seam.h,
so that allocations and releases of the library become observable events.
Helper next to vlib (append-only rule: nothing in vlib is changed).
"""
import json
import os
import subprocess
import uuid

import vlib

SEAM_DEFS = ("malloc=vf_malloc", "free=vf_free", "realloc=vf_realloc", "calloc=vf_calloc")


def compile_c_objects(tag, repo_sources, defines=SEAM_DEFS, san=True, extra_flags=()):
    """Compile repository .c files (as C) into objects for a C++ driver.
    Returns the list of object paths."""
    odir = vlib.ensure(os.path.join(vlib.WORK, "drv-" + vlib.repo_key(), "obj-" + tag))
    objs = []
    procs = []
    for s in repo_sources:
        o = os.path.join(odir, s.replace("/", "_")[:-2] + ".%d.o" % os.getpid())
        cmd = ["clang"] + (vlib.SAN_FLAGS.split() if san else ["-O1", "-g", "-DMPT_VERIF"])
        cmd += ["-Wno-unused-function", "-Wno-deprecated", "-c"]
        cmd += ["-I" + vlib.DRV] + ["-I" + os.path.join(vlib.REPO, i) for i in vlib.INCLUDES]
        cmd += ["-D" + d for d in defines] + list(extra_flags)
        cmd += [os.path.join(vlib.REPO, s), "-o", o]
        procs.append((s, subprocess.Popen(cmd, stdout=subprocess.PIPE, stderr=subprocess.STDOUT, text=True)))
        objs.append(o)
    for s, p in procs:
        out, _ = p.communicate()
        if p.returncode:
            raise vlib.MachineryError("seam compile failed (%s):\n%s" % (s, out[-3000:]))
    return objs


def build_seam_driver(name, sources, c_sources, cxx_sources=(), cxx=False, libs=(), link_libs=False, defines=()):
    """Driver with repository sources compiled through the seam.
    c_sources: repository .c files; cxx_sources: repository .cpp files (cxx only)."""
    defs = tuple(SEAM_DEFS) + tuple(defines)
    if not cxx:
        return vlib.build_driver(name, sources, libs=libs, cxx=False, defines=defs,
                                 repo_sources=tuple(c_sources), link_libs=link_libs)
    objs = compile_c_objects(name, c_sources, defines=defs)
    try:
        # C++ translation units are compiled without the redirection (<cstdlib> undoes such macros
        # and would not find the renamed declarations); the mpt++ sources used here do not allocate with malloc
        return vlib.build_driver(name, sources, libs=libs, cxx=True, defines=tuple(defines),
                                 repo_sources=tuple(cxx_sources), extra_flags=tuple(objs), link_libs=link_libs)
    finally:
        for o in objs:
            try:
                os.unlink(o)
            except OSError:
                pass


def run_parallel(exe, behaviours, nproc=6, timeout=900, env=None):
    """Run a driver on the behaviours split into nproc contiguous chunks, concurrently.
    Behaviour ids stay global.  Returns the records of all chunks in order."""
    from concurrent.futures import ThreadPoolExecutor
    n = len(behaviours)
    if n == 0:
        return []
    nproc = max(1, min(nproc, n))
    step = (n + nproc - 1) // nproc
    e = {"ASAN_OPTIONS": vlib.ASAN_ENV + ":symbolize=0"}
    if env:
        e.update(env)

    def script(lo, hi):
        lines = []
        for i in range(lo, hi):
            lines.append("B %d" % i)
            for st in behaviours[i]:
                toks = [st["a"]]
                for k, v in (st.get("arg") or {}).items():
                    toks.append("%s=%s" % (k, vlib.fmt_val(v)))
                lines.append(" ".join(toks))
        return "\n".join(lines) + "\n"

    def work(lo):
        # stdout goes to a file, not a pipe: a driver must never wait for this (busy) Python process to
        # drain its output -- a blocked write would run into the per-behaviour alarm and look like a hang
        tdir = vlib.ensure(os.path.join(vlib.WORK, "drvout"))
        base = os.path.join(tdir, "%s-%d-%s" % (os.path.basename(exe), os.getpid(), uuid.uuid4().hex[:12]))
        env = dict(os.environ)
        env["ASAN_OPTIONS"] = vlib.ASAN_ENV
        env["UBSAN_OPTIONS"] = "print_stacktrace=1"
        env.update(e)
        try:
            with open(base + ".in", "w") as fi:
                fi.write(script(lo, min(lo + step, n)))
            with open(base + ".in") as fi, open(base + ".out", "w") as fo, open(base + ".err", "w") as fe:
                try:
                    r = subprocess.run([exe], stdin=fi, stdout=fo, stderr=fe, timeout=timeout, env=env)
                except subprocess.TimeoutExpired:
                    raise vlib.MachineryError("driver %s timed out after %ss" % (exe, timeout))
            if r.returncode != 0:
                raise vlib.MachineryError("driver %s exited %s\n%s" % (exe, r.returncode, open(base + ".err").read()[-2000:]))
            recs = []
            with open(base + ".out", errors="replace") as fo:
                for ln in fo:
                    ln = ln.strip()
                    if not ln.startswith("{"):
                        continue
                    try:
                        recs.append(json.loads(ln))
                    except ValueError:
                        recs.append({"a": "Garbled", "raw": ln[:200]})
            return recs
        finally:
            for ext in (".in", ".out", ".err"):
                try:
                    os.unlink(base + ext)
                except OSError:
                    pass

    with ThreadPoolExecutor(max_workers=nproc) as ex:
        parts = list(ex.map(work, range(0, n, step)))
    out = []
    for p in parts:
        out += p
    return out


# ---------------------------------------------------------------------------
# content-addressed object cache + archives (whole directories through the seam)
# ---------------------------------------------------------------------------
import glob
import hashlib


def _headers_digest():
    h = hashlib.sha1()
    for d in vlib.INCLUDES:
        for f in sorted(glob.glob(os.path.join(vlib.REPO, d, "*.h")) + glob.glob(os.path.join(vlib.REPO, d, "*", "*.h"))):
            h.update(f[len(vlib.REPO):].encode())
            h.update(open(f, "rb").read())
    for f in sorted(glob.glob(os.path.join(vlib.DRV, "*.h"))):
        h.update(open(f, "rb").read())
    return h.hexdigest()


def cached_objects(files, defines=SEAM_DEFS, san=True, extra_flags=(), jobs=None):
    """Compile C files (absolute paths, or relative to the repository) with the seam defines.
    Objects are cached under _work/seamobj keyed by source content, headers and flags, so a changed
    working tree recompiles exactly what changed.  Returns object paths in the order of `files`."""
    from concurrent.futures import ThreadPoolExecutor
    cdir = vlib.ensure(os.path.join(vlib.WORK, "seamobj"))
    flags = ["clang"] + (vlib.SAN_FLAGS.split() if san else ["-O1", "-g", "-DMPT_VERIF"])
    flags += ["-Wno-unused-function", "-Wno-deprecated", "-w", "-c"] + ["-D" + d for d in defines] + list(extra_flags)
    hd = _headers_digest()
    base = hashlib.sha1((" ".join(flags) + hd).encode()).hexdigest()
    todo = []
    objs = []
    for f in files:
        path = f if os.path.isabs(f) else os.path.join(vlib.REPO, f)
        key = hashlib.sha1(base.encode() + os.path.basename(path).encode() + open(path, "rb").read()).hexdigest()
        o = os.path.join(cdir, key[:2], key + ".o")
        objs.append(o)
        if not os.path.exists(o):
            todo.append((path, o))

    def cc(job):
        path, o = job
        vlib.ensure(os.path.dirname(o))
        tmp = o + ".tmp%d" % os.getpid()
        cmd = flags + ["-I" + vlib.DRV] + ["-I" + os.path.join(vlib.REPO, i) for i in vlib.INCLUDES]
        cmd += ["-I" + os.path.dirname(path), path, "-o", tmp]
        r = subprocess.run(cmd, stdout=subprocess.PIPE, stderr=subprocess.STDOUT, text=True)
        if r.returncode:
            return "seam compile failed (%s):\n%s" % (path, r.stdout[-3000:])
        os.replace(tmp, o)
        return None
    if todo:
        with ThreadPoolExecutor(max_workers=jobs or vlib.NCPU) as ex:
            for err in ex.map(cc, todo):
                if err:
                    raise vlib.MachineryError(err)
        vlib.log("seam: compiled %d of %d objects" % (len(todo), len(files)))
    return objs


def seam_archive(name, files, **kw):
    """Static archive of the cached objects of `files` (for -Wl,--whole-archive or symbol pull-in)."""
    objs = cached_objects(files, **kw)
    key = hashlib.sha1("\n".join(objs).encode()).hexdigest()[:16]
    adir = vlib.ensure(os.path.join(vlib.WORK, "seamobj", "ar"))
    path = os.path.join(adir, "lib%s-%s.a" % (name, key))
    if not os.path.exists(path):
        tmp = path + ".tmp%d" % os.getpid()
        if os.path.exists(tmp):
            os.unlink(tmp)
        r = subprocess.run(["ar", "rcs", tmp] + objs, stdout=subprocess.PIPE, stderr=subprocess.STDOUT, text=True)
        if r.returncode:
            raise vlib.MachineryError("ar failed: " + r.stdout[-2000:])
        os.replace(tmp, path)
    return path


def repo_c_files(*dirs, exclude=()):
    out = []
    for d in dirs:
        for f in sorted(glob.glob(os.path.join(vlib.REPO, d, "*.c")) + glob.glob(os.path.join(vlib.REPO, d, "*", "*.c"))):
            rel = f[len(vlib.REPO) + 1:]
            if rel not in exclude and os.path.basename(rel) not in exclude:
                out.append(rel)
    return out


def recheck_transient(exe, behaviours, mismatches, match, kinds=("Hang",)):
    """A hang (or another listed record kind) may be the machine, not the code: run such a behaviour once more
    on its own and keep the mismatch only if it shows again (with whatever the second run reports)."""
    out = []
    for mm in mismatches:
        if mm["why"] not in kinds:
            out.append(mm)
            continue
        recs, _ = vlib.run_driver(exe, vlib.to_script([behaviours[mm["b"]]]), timeout=300,
                                  env={"ASAN_OPTIONS": vlib.ASAN_ENV + ":symbolize=0"})
        again = vlib.compare([behaviours[mm["b"]]], recs, match)
        for a in again:
            a["b"] = mm["b"]
            out.append(a)
    return out


def rerun_hung(exe, behaviours, recs):
    """Records of behaviours that ended in a Hang record are replaced by those of a second run of that
    behaviour on its own (a per-behaviour alarm can fire on an overloaded machine)."""
    hung = sorted(set(r.get("b") for r in recs if r.get("a") == "Hang"))
    if not hung:
        return recs
    out = [r for r in recs if r.get("b") not in hung]
    for b in hung[:20]:
        rs, _ = vlib.run_driver(exe, vlib.to_script([behaviours[b]]), timeout=300,
                                env={"ASAN_OPTIONS": vlib.ASAN_ENV + ":symbolize=0"})
        for r in rs:
            r["b"] = b
        out += rs
    vlib.log("re-ran %d behaviour(s) that hit the alarm" % len(hung[:20]))
    return out
