"""
Allocation-seam builds (DESIGN.md section 2): repository C sources are compiled
with malloc/free/realloc/calloc redirected to the vf_* functions of drv/seam.h,
so that allocations and releases of the library become observable events.
Helper next to vlib (append-only rule: nothing in vlib is changed).
"""
import os
import subprocess

import vlib

SEAM_DEFS = ("malloc=vf_malloc", "free=vf_free", "realloc=vf_realloc", "calloc=vf_calloc")


def compile_c_objects(tag, repo_sources, defines=SEAM_DEFS, san=True, extra_flags=()):
    """Compile repository .c files (as C) into objects for a C++ driver.
    Returns the list of object paths."""
    odir = vlib.ensure(os.path.join(vlib.WORK, "drv-" + vlib.repo_key(), "obj-" + tag))
    objs = []
    procs = []
    for s in repo_sources:
        o = os.path.join(odir, s.replace("/", "_")[:-2] + ".%d.o" % os.getpid())
        cmd = ["clang"] + (vlib.SAN_FLAGS.split() if san else ["-O1", "-g", "-DMPT_VERIF"])
        cmd += ["-Wno-unused-function", "-Wno-deprecated", "-c"]
        cmd += ["-I" + vlib.DRV] + ["-I" + os.path.join(vlib.REPO, i) for i in vlib.INCLUDES]
        cmd += ["-D" + d for d in defines] + list(extra_flags)
        cmd += [os.path.join(vlib.REPO, s), "-o", o]
        procs.append((s, subprocess.Popen(cmd, stdout=subprocess.PIPE, stderr=subprocess.STDOUT, text=True)))
        objs.append(o)
    for s, p in procs:
        out, _ = p.communicate()
        if p.returncode:
            raise vlib.MachineryError("seam compile failed (%s):\n%s" % (s, out[-3000:]))
    return objs


def build_seam_driver(name, sources, c_sources, cxx_sources=(), cxx=False, libs=(), link_libs=False, defines=()):
    """Driver with repository sources compiled through the seam.
    c_sources: repository .c files; cxx_sources: repository .cpp files (cxx only)."""
    defs = tuple(SEAM_DEFS) + tuple(defines)
    if not cxx:
        return vlib.build_driver(name, sources, libs=libs, cxx=False, defines=defs,
                                 repo_sources=tuple(c_sources), link_libs=link_libs)
    objs = compile_c_objects(name, c_sources, defines=defs)
    try:
        # C++ translation units are compiled without the redirection (<cstdlib> undoes such macros
        # and would not find the renamed declarations); the mpt++ sources used here do not allocate with malloc
        return vlib.build_driver(name, sources, libs=libs, cxx=True, defines=tuple(defines),
                                 repo_sources=tuple(cxx_sources), extra_flags=tuple(objs), link_libs=link_libs)
    finally:
        for o in objs:
            try:
                os.unlink(o)
            except OSError:
                pass


def run_parallel(exe, behaviours, nproc=6, timeout=900, env=None):
    """Run a driver on the behaviours split into nproc contiguous chunks, concurrently.
    Behaviour ids stay global.  Returns the records of all chunks in order."""
    from concurrent.futures import ThreadPoolExecutor
    n = len(behaviours)
    if n == 0:
        return []
    nproc = max(1, min(nproc, n))
    step = (n + nproc - 1) // nproc
    e = {"ASAN_OPTIONS": vlib.ASAN_ENV + ":symbolize=0"}
    if env:
        e.update(env)

    def script(lo, hi):
        lines = []
        for i in range(lo, hi):
            lines.append("B %d" % i)
            for st in behaviours[i]:
                toks = [st["a"]]
                for k, v in (st.get("arg") or {}).items():
                    toks.append("%s=%s" % (k, vlib.fmt_val(v)))
                lines.append(" ".join(toks))
        return "\n".join(lines) + "\n"

    def work(lo):
        return vlib.run_driver(exe, script(lo, min(lo + step, n)), timeout=timeout, env=e)[0]

    with ThreadPoolExecutor(max_workers=nproc) as ex:
        parts = list(ex.map(work, range(0, n, step)))
    out = []
    for p in parts:
        out += p
    return out
