#!/usr/bin/env python3
"""Merges known_findings.d/*.json (one fragment per property) into known_findings.json."""
import glob
import json
import os

ROOT = os.path.dirname(os.path.dirname(os.path.abspath(__file__)))
out = {"_comment": "Committed list of genuine defects of becm/mpt-base found by the checks (merged from known_findings.d/). "
                   "status=open: recorded, not repaired -- the check prints KNOWN-FINDING and exits 0 for exactly this signature. "
                   "status=fixed: repaired by the named fix: commit in /repo; suppresses nothing. Never written at run time.",
       "findings": []}
for f in sorted(glob.glob(os.path.join(ROOT, "known_findings.d", "*.json"))):
    out["findings"] += json.load(open(f))["findings"]
tmp = os.path.join(ROOT, "known_findings.json.tmp%d" % os.getpid())
json.dump(out, open(tmp, "w"), indent=1)
os.replace(tmp, os.path.join(ROOT, "known_findings.json"))
print("known_findings.json: %d entries" % len(out["findings"]))
