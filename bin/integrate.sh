#!/bin/bash
# usage: integrate.sh <agent-worktree>   -- cherry-pick the agent's fix: commits (not yet in /repo main) and run the baseline
set -u
W="$1"
BASE=$(git -C /repo merge-base HEAD "$(git -C "$W" rev-parse HEAD)")
echo "commits in $W not in /repo main:"
git -C "$W" log --reverse --format='%h %s' HEAD --not $(git -C /repo rev-parse HEAD) | tee /tmp/integrate.list
for sha in $(git -C "$W" log --reverse --format='%h' HEAD --not $(git -C /repo rev-parse HEAD)); do
  subj=$(git -C "$W" log -1 --format=%s $sha)
  # skip commits whose patch is already applied (cherry-picked from /repo into the worktree)
  if git -C /repo log --format=%s | grep -qxF "$subj"; then echo "skip (already in main): $sha $subj"; continue; fi
  case " ${SKIP:-} " in *" $sha "*) echo "skip (SKIP list): $sha $subj"; continue ;; esac
  case "$subj" in
    fix:*) ;;
    *) echo "NOT a fix: commit, skipping: $sha $subj"; continue ;;
  esac
  if ! git -C /repo cherry-pick $sha >/dev/null 2>/tmp/cp.err; then
    if git -C /repo diff --quiet && git -C /repo diff --cached --quiet; then
      git -C /repo cherry-pick --skip >/dev/null 2>&1
      echo "EMPTY (change already present in main): $sha $subj"; continue
    fi
    echo "CONFLICT on $sha $subj"; cat /tmp/cp.err | head -5; git -C /repo cherry-pick --abort; exit 1
  fi
  new=$(git -C /repo rev-parse --short HEAD)
  echo "picked $sha -> $new $subj"
  # findings fragments and notes refer to the worktree sha: rewrite to the sha in /repo main
  grep -rl "$sha" /verif/known_findings.d /verif/docs /verif/checks 2>/dev/null | xargs -r sed -i "s/$sha/$new/g"
done
cmake --build /repo/_build >/dev/null 2>&1; ctest --test-dir /repo/_build -j8 --timeout 120 2>&1 | grep "tests passed\|Failed\|\*\*\*"
