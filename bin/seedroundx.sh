#!/bin/bash
# usage: seedroundx.sh <Xnn> <Cxx> <seeder-out-dir>  -- confirm the extension-area changes <out>/1..4 as <Xnn>-1..4 against check <Cxx>
X="$1"; PROP="$2"; OUT="$3"
for i in 1 2 3 4; do
  [ -f "$OUT/$i/patch.diff" ] || continue
  [ -f "$OUT/harness.h" ] && cp "$OUT/harness.h" "$OUT/$i/harness.h" && sed -i 's#"\.\./harness\.h"#"harness.h"#' "$OUT/$i"/demo.c*
  /verif/bin/seedconfirm.sh "$OUT/$i" "$X-$i" "$PROP" 2>&1 | tail -3
  [ -f "$OUT/$i/harness.h" ] && cp "$OUT/$i/harness.h" /verif/seeded/$X-$i/
done
