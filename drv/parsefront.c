/*
 * Driver for spec/ParseFront.tla (extension X09 of C09/C08): the front ends of the
 * configuration parser.
 *
 *   init  pre=<n>
 *       fresh target node with <n> marker groups; obs: tree
 *   load  fe=<front end> fmt=<runs|null> acc=<runs|null> text=<runs> fail=<k> log=<0|1>
 *       log = the optional logger argument of mpt_node_parse / mpt_parse_folder / parser::read: 0 = none (NULL),
 *       1 = a log target that keeps the last message (it selects the exit path of the failure branch)
 *       fe = parsenode  mpt_parse_node, character source in memory
 *            ctxstdio   mpt_parse_node, source mpt_getchar_stdio on a temporary file
 *            ctxfile    mpt_parse_node, source mpt_getchar_file on a descriptor
 *            nodeparse  mpt_node_parse(target, FILE *, fmt, limits, logger)
 *            cxx        mpt::config_parser: set_format, open(file name), read(target)      (C++ build)
 *            cxxreset   ... read, reset, read again                                       (C++ build)
 *       fail=k > 0: the k-th allocation of the library inside the call answers NULL (C build, allocation seam)
 *       obs: ret, before, tree, line, links, net, fds, badfree
 *   load  fe=folder files=<runs>/<runs>/... hidden=<0|1> fail=<k>
 *       mpt_parse_folder on a temporary directory with one file per text (and a hidden file that would
 *       not parse); obs: ret, files (per file the events the handler saw: kind, element path, value), net, fds, badfree
 *   clear
 *       mpt_node_clear(target); obs: tree, netclear (live library blocks compared with the start of the behaviour), badfree
 *
 * Byte strings are runs b0,n0,b1,n1,... as in drv/conftext.c.  The driver copies and follows pointers
 * only; all judgement is in the specification.
 *
 * C build: all of mptcore compiled through the allocation seam (drv/seam.h).
 * C++ build (drv/parsefront_cxx.cpp, PF_CXX): libmpt++ first, allocations counted with the ASan hooks.
 */
#ifndef PF_CXX
# include "seam.h"
#endif
#include "drv.h"

#include <sys/uio.h>
#include <sys/stat.h>
#include <dirent.h>
#include <fcntl.h>
#include <stdarg.h>

#include "types.h"
#include "meta.h"
#include "node.h"
#include "config.h"
#include "output.h"
#include "parse.h"

#ifdef PF_CXX
# include <new>
using namespace mpt;
# include <sanitizer/allocator_interface.h>
static long hk_alloc, hk_free;
static void hook_malloc(const volatile void *p, size_t n) { (void) n; if (p) hk_alloc++; }
static void hook_free(const volatile void *p) { if (p) hk_free++; }
static long pf_live(void) { return hk_alloc - hk_free; }
static void pf_inject(long k) { (void) k; }
static int  pf_fired(void) { return 0; }
static void pf_inject_off(void) { }
static long pf_badfree(void) { return 0; }
#else
static long pf_live(void) { return vf_live(); }
static void pf_inject(long k) { vf_fail_after = k > 0 ? k - 1 : -1; }
static int  pf_fired(void) { return vf_fail_after == -1 ? 1 : 0; }     /* only meaningful when armed */
static void pf_inject_off(void) { vf_fail_after = -1; }
static long pf_badfree(void) { return vf_badfree; }
#endif

/* ---------- byte strings as runs ---------- */
static uint8_t *runs_parse(const char *r, size_t *len, int *isnull)
{
	size_t total = 0, pos = 0, n = 0, cap = 64, i;
	long long *v;
	uint8_t *buf;
	*isnull = 0;
	*len = 0;
	if (!r || !strcmp(r, "null")) {
		*isnull = 1;
		return (uint8_t *) calloc(1, 1);
	}
	v = (long long *) malloc(cap * sizeof(*v));
	if (strcmp(r, "-")) {
		const char *p = r;
		while (*p) {
			char *end;
			long long x = strtoll(p, &end, 10);
			if (end == p) break;
			if (n == cap) v = (long long *) realloc(v, (cap *= 2) * sizeof(*v));
			v[n++] = x;
			p = *end == ',' ? end + 1 : end;
			if (*end != ',') break;
		}
	}
	for (i = 0; i + 1 < n; i += 2) total += (size_t) v[i + 1];
	buf = (uint8_t *) malloc(total + 1);
	for (i = 0; i + 1 < n; i += 2) {
		memset(buf + pos, (int) v[i], (size_t) v[i + 1]);
		pos += (size_t) v[i + 1];
	}
	buf[total] = 0;
	free(v);
	if (total == 1 && !buf[0]) {   /* a single NUL stands for a NULL argument */
		*isnull = 1;
		total = 0;
	}
	*len = total;
	return buf;
}
static void j_runs_body(const uint8_t *p, size_t n)
{
	size_t i = 0;
	int first = 1;
	fputc('[', drv_out);
	while (i < n) {
		size_t k = i + 1;
		while (k < n && p[k] == p[i]) k++;
		fprintf(drv_out, first ? "[%u,%zu]" : ",[%u,%zu]", p[i], k - i);
		first = 0;
		i = k;
	}
	fputc(']', drv_out);
}

/* ---------- target and its projection ---------- */
static MPT_STRUCT(node) *root;       /* heap block of the driver; the library never owns it */
static long live0;                   /* live library blocks at the start of the behaviour */
static long fds0;
static char tmpbase[512];
static long tmpcount;

static void print_nodes(const MPT_STRUCT(node) *n, const MPT_STRUCT(node) *parent, int depth, long *bad)
{
	int first = 1;
	const MPT_STRUCT(node) *prev = 0;
	fputc('[', drv_out);
	for (; n; prev = n, n = n->next) {
		const char *id = mpt_node_ident(n);
		size_t vlen = 0;
		const char *val = mpt_node_data(n, &vlen);
		uint16_t idlen;
		memcpy(&idlen, &n->ident, sizeof(idlen));      /* identifier._len (first member; protected in C++) */
		if (n->parent != parent || n->prev != prev) *bad += 1;
		if (!first) fputc(',', drv_out);
		first = 0;
		fputs("{\"n\":", drv_out);
		j_runs_body((const uint8_t *) id, id && idlen ? (size_t) idlen - 1 : 0);
		fputs(",\"v\":", drv_out);
		j_runs_body((const uint8_t *) val, val ? strnlen(val, vlen) : 0);
		fputs(",\"c\":", drv_out);
		if (depth > 60) fputs("[]", drv_out);
		else print_nodes(n->children, n, depth + 1, bad);
		fputc('}', drv_out);
	}
	fputc(']', drv_out);
}
static char *tree_text(long *bad)
{
	char *buf = 0;
	size_t len = 0;
	FILE *keep = drv_out;
	*bad = 0;
	drv_out = open_memstream(&buf, &len);
	print_nodes(root->children, root, 0, bad);
	fclose(drv_out);
	drv_out = keep;
	return buf;
}
static void add_marker(MPT_STRUCT(node) *to, const char *name, const char *value, const char *child)
{
	MPT_STRUCT(node) *n = mpt_node_new(strlen(name) + 1);
	MPT_STRUCT(node) *last;
	mpt_identifier_set(&n->ident, name, (int) strlen(name));
	if (value) {
#ifdef PF_CXX
		struct value v;
		v.set('s', &value);
#else
		MPT_STRUCT(value) v = MPT_VALUE_INIT('s', &value);
#endif
		n->_meta = mpt_meta_new(&v);
	}
	n->parent = to;
	if (!(last = to->children)) to->children = n;
	else { while (last->next) last = last->next; last->next = n; n->prev = last; }
	if (child) add_marker(n, child, "cv", 0);
}
static long count_fds(void)
{
	long n = 0;
	DIR *d = opendir("/proc/self/fd");
	struct dirent *e;
	if (!d) return -1;
	while ((e = readdir(d))) if (e->d_name[0] != '.') n++;
	closedir(d);
	return n - 1;     /* the directory stream itself */
}

/* ---------- character source in memory ---------- */
struct pf_source { const uint8_t *data; size_t len, pos; };
static int src_getc(void *arg)
{
	struct pf_source *s = (struct pf_source *) arg;
	if (s->pos >= s->len) return -2;
	return s->data[s->pos++];
}

/* ---------- logger that keeps the last message (mpt_node_parse reports the line there) ---------- */
static char lastmsg[512];
#ifndef PF_CXX
static int keep_log(MPT_INTERFACE(logger) *l, const char *fcn, int type, const char *fmt, va_list va)
{
	(void) l; (void) fcn; (void) type;
	if (fmt) vsnprintf(lastmsg, sizeof(lastmsg), fmt, va);
	return 0;
}
static const MPT_INTERFACE_VPTR(logger) keep_vptr = { keep_log };
static MPT_INTERFACE(logger) keep_logger = { &keep_vptr };
#endif
static long line_of_msg(void)
{
	const char *p = lastmsg, *hit = 0;
	while ((p = strstr(p, "line"))) { hit = p; p += 4; }
	if (!hit) return -1;
	hit += 4;
	while (*hit == ' ' || *hit == '=') hit++;
	if (*hit < '0' || *hit > '9') return -1;
	return strtol(hit, 0, 10);
}

/* ---------- temporary files ---------- */
static void tmp_name(char *dst, size_t n, const char *what)
{
	snprintf(dst, n, "%s/pf-%ld-%ld-%s", tmpbase, (long) getpid(), tmpcount++, what);
}
static void write_file(const char *path, const uint8_t *data, size_t len)
{
	FILE *f = fopen(path, "w");
	if (!f) { fprintf(stderr, "cannot write %s\n", path); abort(); }
	if (len) fwrite(data, 1, len, f);
	fclose(f);
}

/* ---------- warm-up: lazy one-time tables of the library are not leaks ---------- */
static void warm_up(void)
{
#ifdef PF_CXX
	parser_context ctx;
	node tmp;
#else
	static const MPT_STRUCT(parser_context) init = MPT_PARSER_INIT;
	static const MPT_STRUCT(node) ninit = MPT_NODE_INIT;
	MPT_STRUCT(parser_context) ctx = init;
	MPT_STRUCT(node) tmp = ninit;
#endif
	struct pf_source src;
	uint8_t *text = (uint8_t *) malloc(400);
	memset(text, 'x', 400);
	memcpy(text, "a{b=", 4);
	text[398] = '\n'; text[399] = '}';
	src.data = text; src.len = 400; src.pos = 0;
	ctx.src.getc = src_getc;
	ctx.src.arg = &src;
	(void) mpt_parse_node(&tmp, &ctx, 0);
	mpt_node_clear(&tmp);
	free(text);
}

static int warmed;
static void drv_reset(void)
{
#ifndef PF_CXX
	static const MPT_STRUCT(node) init = MPT_NODE_INIT;
#endif
	const char *base = getenv("VERIF_X09_TMP");
	if (!warmed) {
		warm_up();
#ifdef PF_CXX
		__sanitizer_install_malloc_and_free_hooks(hook_malloc, hook_free);
#endif
		warmed = 1;
	}
	snprintf(tmpbase, sizeof(tmpbase), "%s", base && *base ? base : "/tmp");
	alarm(20);
	if (root) { mpt_node_clear(root); free(root); }
	pf_inject_off();
	live0 = pf_live();
	root = (MPT_STRUCT(node) *) malloc(sizeof(*root));
#ifdef PF_CXX
	live0 = pf_live();            /* the root block is the driver's */
#endif
#ifdef PF_CXX
	new (root) node();
#else
	*root = init;
#endif
	fds0 = count_fds();
}

static void do_init(struct cmd *c)
{
	long pre = (long) drv_int(c, "pre", 0);
	long bad;
	char *t;
	if (pre > 0) add_marker(root, "keep", "kv", "sub");
	if (pre > 1) add_marker(root, "a", "old", 0);
	if (pre > 2) add_marker(root, "zz", 0, "zc");
	t = tree_text(&bad);
	drv_begin(c);
	j_sep(); fprintf(drv_out, "\"tree\":%s", t);
	drv_dbg();
	j_int("links", bad);
	drv_end();
	free(t);
}

static void do_clear(struct cmd *c)
{
	long bad, live;
	char *t;
	mpt_node_clear(root);
	live = pf_live();
	t = tree_text(&bad);
	drv_begin(c);
	j_sep(); fprintf(drv_out, "\"tree\":%s", t);
#ifndef PF_CXX
	j_int("netclear", live - live0);      /* (C++ build: the hooks count driver and C library too -- not reported) */
#endif
	j_int("badfree", pf_badfree());
	drv_dbg();
	j_int("live", live);
	drv_end();
	free(t);
}

/* ---------- C++ front end ---------- */
#ifdef PF_CXX
class pf_parser : public mpt::config_parser
{
public:
	inline mpt::parser_context &context() { return _d; }
};
class pf_logger : public mpt::logger
{
public:
	inline pf_logger() { }
	inline ~pf_logger() { }
	int log(const char *fcn, int type, const char *fmt, va_list va) __MPT_OVERRIDE
	{
		(void) fcn; (void) type;
		if (fmt) vsnprintf(lastmsg, sizeof(lastmsg), fmt, va);
		return 0;
	}
};
#endif

static void do_load(struct cmd *c)
{
#ifndef PF_CXX
	static const MPT_STRUCT(parser_context) init = MPT_PARSER_INIT;
#endif
	const char *fe = drv_raw(c, "fe");
	uint8_t *fmt, *acc, *text;
	size_t flen, alen, tlen;
	int fmtnull, accnull, tnull, ret = -1000, fired = 0, known = 1;
	long k = (long) drv_int(c, "fail", 0);
	int uselog = (int) drv_int(c, "log", 0);
	long l0, l1, bad0, bad1, line = -1, fds1;
	char *before, *after;
	char path[600];

	fmt = runs_parse(drv_raw(c, "fmt"), &flen, &fmtnull);
	acc = runs_parse(drv_raw(c, "acc"), &alen, &accnull);
	text = runs_parse(drv_raw(c, "text"), &tlen, &tnull);
	before = tree_text(&bad0);
	lastmsg[0] = 0;
	path[0] = 0;

	if (!fe) fe = "";
	if (!strcmp(fe, "parsenode") || !strcmp(fe, "ctxstdio") || !strcmp(fe, "ctxfile")) {
#ifdef PF_CXX
		parser_context ctx;
#else
		MPT_STRUCT(parser_context) ctx = init;
#endif
		struct pf_source src;
		FILE *f = 0;
		int fd = -1;
		if (!accnull && mpt_parse_accept(&ctx.name, (const char *) acc) < 0) known = 0;
		if (!strcmp(fe, "parsenode")) {
			src.data = text; src.len = tlen; src.pos = 0;
			ctx.src.getc = src_getc;
			ctx.src.arg = &src;
		} else {
			tmp_name(path, sizeof(path), "t");
			write_file(path, text, tlen);
			if (!strcmp(fe, "ctxstdio")) {
				f = fopen(path, "r");
				ctx.src.getc = (int (*)(void *)) mpt_getchar_stdio;
				ctx.src.arg = f;
			} else {
				fd = open(path, O_RDONLY);
				ctx.src.getc = mpt_getchar_file;
				ctx.src.arg = (void *) (intptr_t) fd;
			}
		}
		l0 = pf_live();
		pf_inject(k);
		ret = mpt_parse_node(root, &ctx, fmtnull ? 0 : (const char *) fmt);
		fired = k > 0 ? pf_fired() : 0;
		pf_inject_off();
		l1 = pf_live();
		line = (long) ctx.src.line;
		if (f) fclose(f);
		if (fd >= 0) close(fd);
	}
#ifndef PF_CXX
	else if (!strcmp(fe, "nodeparse")) {
		FILE *f;
		tmp_name(path, sizeof(path), "t");
		write_file(path, text, tlen);
		f = fopen(path, "r");
		l0 = pf_live();
		pf_inject(k);
		ret = mpt_node_parse(root, f, fmtnull ? 0 : (const char *) fmt, accnull ? 0 : (const char *) acc, uselog ? &keep_logger : 0);
		fired = k > 0 ? pf_fired() : 0;
		pf_inject_off();
		l1 = pf_live();
		line = line_of_msg();
		fclose(f);
	}
#else
	else if (!strcmp(fe, "cxx") || !strcmp(fe, "cxxreset")) {
		tmp_name(path, sizeof(path), "t");
		write_file(path, text, tlen);
		l0 = pf_live();
		{
			pf_parser p;
			pf_logger lg;
			mpt::logger *out = uselog ? &lg : 0;
			mpt::node *to = root;
			if (!accnull && mpt_parse_accept(&p.context().name, (const char *) acc) < 0) known = 0;
			if (!p.set_format(fmtnull ? 0 : (const char *) fmt)) ret = -999;
			else if (!p.open(path)) ret = -998;
			else {
				ret = p.read(*to, out);
				if (!strcmp(fe, "cxxreset")) {
					if (!p.reset()) ret = -997;
					else ret = p.read(*to, out);
				}
				line = (long) p.line();
			}
		}
		l1 = pf_live();
	}
#endif
	else {
		known = 0;
		l0 = l1 = 0;
	}
	if (path[0]) unlink(path);
	after = tree_text(&bad1);
	fds1 = count_fds();

	drv_begin(c);
	j_str("ret", !known ? "unknown" : ret < 0 ? "error" : "ok");
	j_sep(); fprintf(drv_out, "\"before\":%s", before);
	j_sep(); fprintf(drv_out, "\"tree\":%s", after);
	j_int("line", line);
	j_int("links", bad1);
	j_int("net", l1 - l0);
	j_int("fds", fds1 - fds0);
	j_int("badfree", pf_badfree());
	drv_dbg();
	j_int("code", ret);
	j_int("fired", fired);
	j_int("linksbefore", bad0);
	j_str("msg", lastmsg);
	drv_end();
	free(before); free(after);
	free(fmt); free(acc); free(text);
}

/* ---------- folder ---------- */
#ifndef PF_CXX
struct fev { int kind; uint8_t *path; size_t plen; int sep; int elems; uint8_t *val; size_t vlen; };
struct ffile { struct fev *ev; size_t n, cap; };
static struct ffile *ffiles;
static size_t nffiles, capffiles;

static int folder_save(void *ctx, const MPT_STRUCT(path) *p, const MPT_STRUCT(value) *val, int prev, int curr)
{
	struct ffile *f;
	struct fev *e;
#ifndef PF_CXX
	long keep = vf_fail_after;        /* the handler is the application: its allocations are not the library's */
	vf_fail_after = -1;
#endif
	(void) ctx; (void) prev;
	if (!curr && !p->len) {            /* start of the next file */
		if (nffiles == capffiles) ffiles = (struct ffile *) realloc(ffiles, (capffiles = capffiles ? capffiles * 2 : 8) * sizeof(*ffiles));
		memset(&ffiles[nffiles++], 0, sizeof(*ffiles));
	}
	else if (nffiles) {
		f = &ffiles[nffiles - 1];
		if (f->n == f->cap) f->ev = (struct fev *) realloc(f->ev, (f->cap = f->cap ? f->cap * 2 : 16) * sizeof(*f->ev));
		e = &f->ev[f->n++];
		memset(e, 0, sizeof(*e));
		e->kind = curr;
		e->sep = (unsigned char) p->sep;
		e->plen = p->len ? p->len - 1 : 0;          /* last byte is the assign character */
		e->elems = p->len ? 1 : 0;
		e->path = (uint8_t *) malloc(e->plen + 1);
		if (e->plen) memcpy(e->path, p->base + p->off, e->plen);
		if (val) {
			const struct iovec *vec = (const struct iovec *) val->_addr;
			e->vlen = vec->iov_len;
			e->val = (uint8_t *) malloc(e->vlen + 1);
			if (e->vlen) memcpy(e->val, vec->iov_base, e->vlen);
		}
	}
#ifndef PF_CXX
	vf_fail_after = keep;
#endif
	return 0;
}
static const char *evname(int curr)
{
	int k = curr & 0x3;
	if (k == MPT_ENUM(ParseSection)) return "sect";
	if (k == MPT_ENUM(ParseSectEnd)) return "end";
	if (k == MPT_ENUM(ParseOption)) return "opt";
	if (curr & MPT_ENUM(ParseData)) return "data";
	return "none";
}
static void do_folder(struct cmd *c)
{
	const char *files = drv_raw(c, "files");
	long k = (long) drv_int(c, "fail", 0);
	int hidden = (int) drv_int(c, "hidden", 0);
	int uselog = (int) drv_int(c, "log", 0);
	char dir[600], path[700];
	char *copy = strdup(files ? files : ""), *save = 0, *tok;
	char **made = 0;
	size_t nmade = 0, i, j;
	int ret, fired;
	long l0, l1, fds1;
	DIR *d;

	tmp_name(dir, sizeof(dir), "d");
	mkdir(dir, 0700);
	made = (char **) calloc(64, sizeof(*made));
	for (tok = strtok_r(copy, "/", &save); tok && nmade < 60; tok = strtok_r(0, "/", &save)) {
		size_t tlen; int tnull;
		uint8_t *text = runs_parse(tok, &tlen, &tnull);
		snprintf(path, sizeof(path), "%s/f%zu.conf", dir, nmade);
		write_file(path, text, tlen);
		made[nmade++] = strdup(path);
		free(text);
	}
	if (hidden) {
		snprintf(path, sizeof(path), "%s/.hidden.conf", dir);
		write_file(path, (const uint8_t *) "}\n}\n", 4);
		made[nmade++] = strdup(path);
	}
	nffiles = 0;
	lastmsg[0] = 0;
	d = opendir(dir);
	l0 = pf_live();
	pf_inject(k);
	ret = mpt_parse_folder(d, folder_save, 0, uselog ? &keep_logger : 0);
	fired = k > 0 ? pf_fired() : 0;
	pf_inject_off();
	l1 = pf_live();
	closedir(d);
	for (i = 0; i < nmade; i++) { unlink(made[i]); free(made[i]); }
	free(made);
	rmdir(dir);
	fds1 = count_fds();

	drv_begin(c);
	j_str("ret", ret < 0 ? "error" : "ok");
	j_arr_open("files");
	for (i = 0; i < nffiles; i++) {
		j_sep();
		fputc('[', drv_out);
		for (j = 0; j < ffiles[i].n; j++) {
			struct fev *e = &ffiles[i].ev[j];
			size_t q, start = 0;
			int first = 1;
			fprintf(drv_out, "%s{\"e\":\"%s\",\"p\":[", j ? "," : "", evname(e->kind));
			if (e->elems) {
				for (q = 0; q <= e->plen; q++) {
					if (q == e->plen || e->path[q] == e->sep) {
						if (!first) fputc(',', drv_out);
						first = 0;
						j_runs_body(e->path + start, q - start);
						start = q + 1;
					}
				}
			}
			fputs("],\"v\":", drv_out);
			j_runs_body(e->val, e->val ? e->vlen : 0);
			fputc('}', drv_out);
			free(e->path); free(e->val);
		}
		fputc(']', drv_out);
		free(ffiles[i].ev);
		/* j_sep bookkeeping: an array item was written */
	}
	j_arr_close();
	j_int("nfiles", (long long) nffiles);
	j_int("net", l1 - l0);
	j_int("fds", fds1 - fds0);
	j_int("badfree", pf_badfree());
	drv_dbg();
	j_int("code", ret);
	j_int("fired", fired);
	j_str("msg", lastmsg);
	drv_end();
	free(copy);
}
#endif

static void drv_step(struct cmd *c)
{
	const char *fe = drv_raw(c, "fe");
	if (!strcmp(c->action, "init")) do_init(c);
	else if (!strcmp(c->action, "clear")) do_clear(c);
#ifndef PF_CXX
	else if (!strcmp(c->action, "load") && fe && !strcmp(fe, "folder")) do_folder(c);
#endif
	else if (!strcmp(c->action, "load")) do_load(c);
	else {
		drv_begin(c);
		j_str("ret", "unknown-action");
		drv_dbg();
		drv_end();
	}
	(void) fe;
}

int main(int argc, char **argv)
{
	return drv_main(argc, argv);
}
