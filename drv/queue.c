/*
 * Driver for spec/Queue.tla (C13): one command per public queue call.
 * The storage is allocated with guard bytes on both sides.
 */
#include "drv.h"

#include "queue.h"

#define GUARD 16
#define GBYTE 0xA5

static MPT_STRUCT(queue) q;
static uint8_t *block;      /* guarded allocation (only while base is ours) */
static int ours;            /* base still points into block */

static void drv_reset(void)
{
	if (ours) free(block);
	else free(q.base);
	block = 0; ours = 0;
	memset(&q, 0, sizeof(q));
}

static int guards_ok(void)
{
	size_t i;
	if (!ours || !block) return 1;
	if (q.base != block + GUARD) return 1; /* library reallocated */
	for (i = 0; i < GUARD; i++) {
		if (block[i] != GBYTE) return 0;
		if (block[GUARD + q.max + i] != GBYTE) return 0;
	}
	return 1;
}

static void emit_state(void)
{
	/* logical content through the public read call */
	size_t n = q.len;
	uint8_t *tmp = (uint8_t *) calloc(n + 1, 1);
	int gr = n ? mpt_queue_get(&q, 0, n, tmp) : 0;
	if (gr < 0) {
		j_int("content_err", gr);
	}
	j_bytes("content", tmp, gr < 0 ? 0 : n);
	free(tmp);
}
static void emit_dbg(void)
{
	size_t i;
	uint8_t *raw;
	drv_dbg();
	j_int("max", (long long) q.max);
	j_int("off", (long long) q.off);
	j_int("len", (long long) q.len);
	j_int("guards", guards_ok());
	/* raw ring walk (diagnostic) */
	raw = (uint8_t *) calloc(q.len + 1, 1);
	if (q.base && q.max && q.len <= q.max) {
		for (i = 0; i < q.len; i++) raw[i] = ((uint8_t *) q.base)[(q.off + i) % q.max];
		j_bytes("raw", raw, q.len);
	}
	free(raw);
}

static void answer(struct cmd *c, const char *ret, const void *out, size_t outlen)
{
	drv_begin(c);
	j_str("ret", ret);
	j_bytes("out", out, outlen);
	emit_state();
	emit_dbg();
	drv_end();
}

static int match_first(const void *elem, void *arg)
{
	return *((const uint8_t *) elem) == *((uint8_t *) arg) ? 0 : 1;
}

/* position argument: "far=1" places it pos bytes below SIZE_MAX (wrap-around neighbourhood) */
static size_t pos_arg(struct cmd *c)
{
	size_t pos = drv_uint(c, "pos", 0);
	return drv_int(c, "far", 0) ? (size_t) 0 - pos : pos;
}
static void drv_step(struct cmd *c)
{
	const char *a = c->action;
	size_t dl = 0;
	uint8_t *data = 0;

	if (!strcmp(a, "init")) {
		size_t max = drv_uint(c, "max", 0), off = drv_uint(c, "off", 0);
		drv_reset();
		if (max) {
			block = (uint8_t *) malloc(max + 2 * GUARD);
			memset(block, GBYTE, max + 2 * GUARD);
			memset(block + GUARD, 0xEE, max);
			q.base = block + GUARD;
			ours = 1;
		}
		q.max = max; q.off = off; q.len = 0;
		answer(c, "ok", 0, 0);
		return;
	}
	/* the library may realloc/free base: hand it a plain allocation first */
	if (ours && (!strcmp(a, "resize") || !strcmp(a, "prepare"))) {
		uint8_t *plain = (uint8_t *) malloc(q.max ? q.max : 1);
		memcpy(plain, q.base, q.max);
		free(block); block = 0; ours = 0;
		q.base = plain;
	}
	if (!strcmp(a, "qpush") || !strcmp(a, "qunshift")) {
		int r;
		data = drv_bytes(c, "data", &dl);
		r = (a[1] == 'p') ? mpt_qpush(&q, dl, data) : mpt_qunshift(&q, dl, data);
		answer(c, r < 0 ? "refused" : "ok", 0, 0);
	}
	else if (!strcmp(a, "qpop") || !strcmp(a, "qshift")) {
		size_t n = drv_uint(c, "n", 0);
		int buf = (int) drv_int(c, "buf", 1);
		uint8_t *tmp = (uint8_t *) malloc(n + 1);
		uint8_t *keep = (uint8_t *) malloc(n + 1);
		void *r;
		r = (a[1] == 'p') ? mpt_qpop(&q, n, buf ? tmp : 0) : mpt_qshift(&q, n, buf ? tmp : 0);
		if (r) memcpy(keep, r, n);   /* the returned address holds the removed bytes */
		answer(c, r ? "ok" : "refused", keep, r ? n : 0);
		free(tmp); free(keep);
	}
	else if (!strcmp(a, "crop")) {
		int r = mpt_queue_crop(&q, pos_arg(c), drv_uint(c, "n", 0));
		answer(c, r < 0 ? "refused" : "ok", 0, 0);
	}
	else if (!strcmp(a, "set")) {
		int r;
		data = drv_bytes(c, "data", &dl);
		r = mpt_queue_set(&q, pos_arg(c), dl, drv_int(c, "zero", 0) ? 0 : data);
		answer(c, r < 0 ? "refused" : "ok", 0, 0);
	}
	else if (!strcmp(a, "get")) {
		size_t n = drv_uint(c, "n", 0);
		uint8_t *tmp = (uint8_t *) calloc(n + 1, 1);
		int r = mpt_queue_get(&q, pos_arg(c), n, tmp);
		answer(c, r < 0 ? "refused" : "ok", tmp, r < 0 ? 0 : n);
		free(tmp);
	}
	else if (!strcmp(a, "align")) {
		mpt_queue_align(&q, drv_uint(c, "pos", 0));
		answer(c, "ok", 0, 0);
	}
	else if (!strcmp(a, "resize")) {
		void *r = mpt_queue_resize(&q, drv_uint(c, "n", 0));
		answer(c, r ? "ok" : "refused", 0, 0);
	}
	else if (!strcmp(a, "prepare")) {
		size_t n = drv_uint(c, "n", 0);
		size_t r = mpt_queue_prepare(&q, n);
		answer(c, (r >= n && q.max - q.len >= n) ? "ok" : "refused", 0, 0);
	}
	else if (!strcmp(a, "string")) {
		char *s = mpt_queue_string(&q);
		if (!s) answer(c, "refused", 0, 0);
		else answer(c, "ok", s, q.len + 1);
	}
	else if (!strcmp(a, "memrev")) {
		size_t pre = drv_uint(c, "pre", 0);
		int r;
		data = drv_bytes(c, "data", &dl);
		r = mpt_memrev(data, pre, dl);
		answer(c, r < 0 ? "refused" : "ok", data, r < 0 ? 0 : dl);
	}
	else if (!strcmp(a, "find")) {
		size_t esz = drv_uint(c, "esz", 1);
		uint8_t b = (uint8_t) drv_uint(c, "b", 0);
		int e;
		uint8_t *r;
		errno = 0;
		r = (uint8_t *) mpt_queue_find(&q, esz, match_first, &b);
		e = errno;
		if (r) {
			/* storage address -> logical byte position */
			size_t sidx = (size_t) (r - (uint8_t *) q.base);
			long long lp = (long long) ((sidx + q.max - (q.off % q.max)) % q.max);
			drv_begin(c);
			j_str("ret", "ok");
			j_ints("out", &lp, 1);
			emit_state();
			emit_dbg();
			drv_end();
		}
		else if (e == ENOTSUP) answer(c, "unsupported", 0, 0);
		else answer(c, "none", 0, 0);
	}
	else {
		drv_begin(c);
		j_str("ret", "unknown-action");
		drv_dbg();
		drv_end();
	}
	free(data);
}

int main(int argc, char **argv)
{
	return drv_main(argc, argv);
}
