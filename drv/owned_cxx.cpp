/*
 * C++ half of the Owned driver (X15): mpt++ classes that own their storage
 * through new/delete (or malloc + placement new) behind reference<T>:
 *   metatype::generic holding a reference<metatype> as its value,
 *   metatype::value<reference<metatype> >, io::buffer::metatype,
 *   metatype::basic, io::stream::input;
 * and reference<metatype> assignment / destruction for every metatype kind.
 * operator new/delete and malloc/free of this object file and of the mpt++
 * objects are redirected to the allocation seam in the symbol table (objcopy),
 * see checks/x15_owned.py.
 */
#include <new>
#include <utility>
#include <stdint.h>
#include <stddef.h>

#include "core.h"
#include "types.h"
#include "meta.h"
#include "array.h"
#include "stream.h"
#include "io.h"

enum { CNone = 0, CLib, CProxy, CInst, COutLocal, COutRemote, CGeneric, CValMeta, CBufMeta, CBasic, CSInput, CLast };

typedef mpt::reference<mpt::metatype> mref;

class ValMeta : public mpt::metatype::value<mref>
{
public:
	ValMeta(const mref &r) : mpt::metatype::value<mref>(r) { }
	void *peek() const { return _val.instance(); }
};

static mref &at(void **s) { return *reinterpret_cast<mref *>(s); }

extern "C" int ocxx_assign(void **d, void **s) { at(d) = at(s); return 0; }
extern "C" int ocxx_drop(void **d) { at(d).~mref(); *d = 0; return 0; }

extern "C" void *ocxx_create(int cls)
{
	switch (cls) {
	case CGeneric: return static_cast<mpt::metatype *>(mpt::metatype::generic::create(mpt::TypeMetaRef, 0));
	case CBufMeta: return static_cast<mpt::metatype *>(mpt::io::buffer::metatype::create(0));
	case CBasic:   return static_cast<mpt::metatype *>(mpt::metatype::basic::create("x15 text"));
	case CSInput:  return static_cast<mpt::metatype *>(mpt::io::stream::input::create(0));
	default: return 0;
	}
}
extern "C" void *ocxx_wrap(int cls, void **src)
{
	switch (cls) {
	case CGeneric: return static_cast<mpt::metatype *>(mpt::metatype::generic::create(mpt::TypeMetaRef, src));
	case CValMeta: return static_cast<mpt::metatype *>(new ValMeta(at(src)));
	default: return 0;
	}
}
/* address of the reference a generic metatype stores as its value */
static void **generic_value(void *obj)
{
	mpt::metatype *mt = static_cast<mpt::metatype *>(obj);
	mpt::value val;
	int vt = mpt::type_properties<mpt::value>::id(true);
	if (vt <= 0 || mt->convert(vt, &val) < 0 || val.type() != mpt::TypeMetaRef) return 0;
	return static_cast<void **>(const_cast<void *>(val.data()));
}
extern "C" void *ocxx_member(int cls, void *obj)
{
	if (cls == CValMeta) return static_cast<ValMeta *>(static_cast<mpt::metatype *>(obj))->peek();
	if (cls == CGeneric) {
		void **v = generic_value(obj);
		return v ? *v : 0;
	}
	return 0;
}
extern "C" int ocxx_setmember(int cls, void *obj, void **src)
{
	void **v;
	if (cls != CGeneric || !(v = generic_value(obj))) return -2;
	at(v) = at(src);
	return 0;
}
