/*
 * Driver for spec/CowArray.tla (C04), C binding: one command per public
 * array/buffer/slice call on one of several array handles.  After every call
 * the content, length and content type of EVERY handle is read back.
 *
 * Source seam: mptcore/array/buffer_alloc.c is compiled into the driver (and
 * interposes the library's copy) so that the allocation granularity can be
 * set per behaviour ("init gran=<n>") and reference counts can be logged.
 * No judgement here: bytes are copied, pointers followed, return codes mapped
 * to ok/refused.
 */
#include "drv.h"

#include "types.h"
#include "array.h"

#include "array/buffer_alloc.c"

/* sizes at the limits are written symbolically: "max-k" = SIZE_MAX-k, "smax-k" = LONG_MAX-k, "smax+k" */
#include <limits.h>
static size_t drv_size(const struct cmd *c, const char *key, size_t def)
{
	const char *r = drv_raw(c, key);
	if (!r || !*r) return def;
	if (!strncmp(r, "max-", 4)) return SIZE_MAX - (size_t) strtoull(r + 4, 0, 0);
	if (!strncmp(r, "smax-", 5)) return (size_t) LONG_MAX - (size_t) strtoull(r + 5, 0, 0);
	if (!strncmp(r, "smax+", 5)) return (size_t) LONG_MAX + (size_t) strtoull(r + 5, 0, 0);
	return (size_t) strtoull(r, 0, 0);
}
static long drv_long(const struct cmd *c, const char *key, long def)
{
	const char *r = drv_raw(c, key);
	if (!r || !*r) return def;
	if (!strncmp(r, "smax-", 5)) return LONG_MAX - strtol(r + 5, 0, 0);
	return strtol(r, 0, 0);
}

#define MAXH 8

static MPT_STRUCT(array) arr[MAXH];
static int nh = 0;

/* snapshots of buffers made immutable by the driver */
static struct snap {
	MPT_STRUCT(buffer) *buf;
	uint8_t *bytes;
	size_t used;
} snaps[64];
static int nsnaps = 0;

static const MPT_STRUCT(type_traits) *traits_of(const char *t)
{
	if (!t || !strcmp(t, "raw") || !strcmp(t, "none")) return 0;
	if (!strcmp(t, "c")) return mpt_type_traits('c');
	if (!strcmp(t, "n")) return mpt_type_traits('n');
	return 0;
}
static const char *name_of(const MPT_STRUCT(buffer) *b)
{
	const MPT_STRUCT(type_traits) *t;
	if (!b) return "none";
	if (!(t = b->_content_traits)) return "raw";
	if (t == mpt_type_traits('c')) return "c";
	if (t == mpt_type_traits('n')) return "n";
	return "other";
}

static void drop_all(void)
{
	int i;
	/* buffers of the previous behaviour are abandoned, not released: a
	 * reference count damaged there must not fault in this behaviour */
	for (i = 0; i < MAXH; i++) arr[i]._buf = 0;
	for (i = 0; i < nsnaps; i++) free(snaps[i].bytes);
	nsnaps = 0;
}
static void drv_reset(void)
{
	drop_all();
	nh = 0;
	_mpt_buffer_alloc_psize = 0;
}

static int referenced(const MPT_STRUCT(buffer) *b)
{
	int i;
	for (i = 0; i < nh; i++) if (arr[i]._buf == b) return 1;
	return 0;
}
/* "ok" while every live immutable buffer still holds its bytes */
static const char *frozen_state(void)
{
	const char *ret = "ok";
	int i, k = 0;
	for (i = 0; i < nsnaps; i++) {
		struct snap *s = &snaps[i];
		if (!referenced(s->buf)
		    || !(s->buf->_vptr->get_flags(s->buf) & MPT_ENUM(BufferImmutable))) {
			free(s->bytes);
			continue;
		}
		if (s->buf->_used != s->used
		    || (s->used && memcmp(s->buf + 1, s->bytes, s->used))) {
			ret = "changed";
		}
		snaps[k++] = *s;
	}
	nsnaps = k;
	return ret;
}


/* "ok" while every buffer's reference count equals the number of handles holding it */
static const char *refs_state(void)
{
	int i, k;
	for (i = 0; i < nh; i++) {
		MPT_STRUCT(buffer) *b = arr[i]._buf;
		long n = 0;
		if (!b) continue;
		for (k = 0; k < nh; k++) if (arr[k]._buf == b) ++n;
		if ((long) MPT_baseaddr(bufferData, b, buf)->_ref._val != n) return "bad";
	}
	return "ok";
}

static void emit_all(const char *ret, const void *out, size_t outlen)
{
	int i;
	const char *fr = frozen_state();
	j_str("ret", ret);
	j_bytes("out", out, outlen);
	j_arr_open("vals");
	for (i = 0; i < nh; i++) {
		const MPT_STRUCT(buffer) *b = arr[i]._buf;
		size_t n = b ? (b->_used <= b->_size ? b->_used : b->_size) : 0;
		size_t k;
		j_sep();
		fputc('[', drv_out);
		for (k = 0; k < n; k++) fprintf(drv_out, k ? ",%u" : "%u", ((const uint8_t *) (b + 1))[k]);
		fputc(']', drv_out);
		drv_first = 0;
	}
	j_arr_close();
	j_arr_open("lens");
	for (i = 0; i < nh; i++) j_item_int(arr[i]._buf ? (long long) arr[i]._buf->_used : 0);
	j_arr_close();
	j_arr_open("typs");
	for (i = 0; i < nh; i++) j_item_str(name_of(arr[i]._buf));
	j_arr_close();
	j_str("frozen", fr);
	j_str("refok", refs_state());
}
static void emit_dbg(size_t size0, size_t used0, long long rc)
{
	int i;
	drv_dbg();
	j_int("size0", (long long) size0);
	j_int("used0", (long long) used0);
	j_int("rc", rc);
	j_arr_open("sizes");
	for (i = 0; i < nh; i++) j_item_int(arr[i]._buf ? (long long) arr[i]._buf->_size : 0);
	j_arr_close();
	j_arr_open("refs");
	for (i = 0; i < nh; i++) {
		MPT_STRUCT(buffer) *b = arr[i]._buf;
		long long r = 1;
		if (b) {
			MPT_STRUCT(bufferData) *bd = MPT_baseaddr(bufferData, b, buf);
			r = (long long) bd->_ref._val;
		}
		j_item_int(r);
	}
	j_arr_close();
	j_arr_open("flags");
	for (i = 0; i < nh; i++) j_item_int(arr[i]._buf ? (long long) arr[i]._buf->_vptr->get_flags(arr[i]._buf) : 0);
	j_arr_close();
	/* identity of the buffers: index of the first handle holding the same one */
	j_arr_open("alias");
	for (i = 0; i < nh; i++) {
		int k;
		for (k = 0; k < i; k++) if (arr[k]._buf && arr[k]._buf == arr[i]._buf) break;
		j_item_int(k + 1);
	}
	j_arr_close();
}
static void answer(struct cmd *c, const char *ret, const void *out, size_t outlen, size_t size0, size_t used0, long long rc)
{
	drv_begin(c);
	emit_all(ret, out, outlen);
	emit_dbg(size0, used0, rc);
	drv_end();
}

static void drv_step(struct cmd *c)
{
	const char *a = c->action;
	int huge_len = 0;
	size_t dl = 0, size0 = 0, used0 = 0;
	uint8_t *data = 0;
	int h = (int) drv_int(c, "h", 1) - 1;
	MPT_STRUCT(array) *ar;

	if (!strcmp(a, "init")) {
		int g = (int) drv_int(c, "gran", 0);
		drop_all();
		nh = (int) drv_int(c, "n", 3);
		if (nh > MAXH) nh = MAXH;
		_mpt_buffer_alloc_psize = g;   /* 0: library default on first use */
		answer(c, "ok", 0, 0, 0, 0, 0);
		return;
	}
	if (h < 0 || h >= nh) {
		drv_begin(c); j_str("ret", "bad-handle"); drv_dbg(); drv_end();
		return;
	}
	ar = &arr[h];
	if (ar->_buf) {
		size0 = ar->_buf->_size;
		used0 = ar->_buf->_used;
	}
	if (drv_has(c, "data")) data = drv_bytes(c, "data", &dl);
	if (drv_size(c, "hl", 0)) {          /* a length at the limits: no data exists for it */
		dl = drv_size(c, "hl", 0);
		huge_len = 1;
	}

	if (!strcmp(a, "new")) {
		int flags = (drv_int(c, "imm", 0) ? MPT_ENUM(BufferImmutable) : 0)
		          | (drv_int(c, "nc", 0) ? MPT_ENUM(BufferNoCopy) : 0);
		MPT_STRUCT(buffer) *b;
		if (ar->_buf) { answer(c, "skipped", 0, 0, size0, used0, 0); free(data); return; }
		b = _mpt_buffer_alloc(dl, flags);
		b->_content_traits = traits_of(drv_raw(c, "typ"));
		if (dl) memcpy(b + 1, data, dl);
		b->_used = dl;
		ar->_buf = b;
		if ((flags & MPT_ENUM(BufferImmutable)) && nsnaps < 64) {
			snaps[nsnaps].buf = b;
			snaps[nsnaps].used = dl;
			snaps[nsnaps].bytes = (uint8_t *) malloc(dl + 1);
			memcpy(snaps[nsnaps].bytes, data, dl);
			nsnaps++;
		}
		answer(c, "ok", 0, 0, size0, used0, 0);
	}
	else if (!strcmp(a, "append")) {
		void *p = mpt_array_append(ar, dl, (huge_len || drv_int(c, "zero", 0)) ? 0 : data);
		answer(c, p ? "ok" : "refused", 0, 0, size0, used0, 0);
	}
	else if (!strcmp(a, "insert")) {
		void *p = mpt_array_insert(ar, drv_size(c, "pos", 0), dl);
		if (p && dl && !huge_len) memcpy(p, data, dl);   /* the caller fills the new region */
		answer(c, p ? "ok" : "refused", 0, 0, size0, used0, 0);
	}
	else if (!strcmp(a, "settyped")) {
		void *p = mpt_array_set(ar, traits_of(drv_raw(c, "typ")), dl, (huge_len || drv_int(c, "zero", 0)) ? 0 : data, drv_long(c, "off", 0));
		answer(c, p ? "ok" : "refused", 0, 0, size0, used0, 0);
	}
	else if (!strcmp(a, "slice")) {
		void *p = mpt_array_slice(ar, drv_size(c, "off", 0), dl);
		if (p && dl && !huge_len && drv_int(c, "fill", 0)) memcpy(p, data, dl);
		answer(c, p ? "ok" : "refused", 0, 0, size0, used0, 0);
	}
	else if (!strcmp(a, "reserve")) {
		MPT_STRUCT(buffer) *b = mpt_array_reserve(ar, drv_size(c, "len", 0), traits_of(drv_raw(c, "typ")));
		answer(c, b ? "ok" : "refused", 0, 0, size0, used0, 0);
	}
	else if (!strcmp(a, "clone")) {
		int g = (int) drv_int(c, "from", 0) - 1;
		int r = mpt_array_clone(ar, (g >= 0 && g < nh) ? &arr[g] : 0);
		answer(c, r < 0 ? "refused" : "ok", 0, 0, size0, used0, r);
	}
	else if (!strcmp(a, "reduce")) {
		size_t r = mpt_array_reduce(ar);
		answer(c, "ok", 0, 0, size0, used0, (long long) r);
	}
	else if (!strcmp(a, "printf")) {
		int r;
		data[dl] = 0;  /* drv_bytes allocates one spare byte */
		r = mpt_printf(ar, "%s", (char *) data);
		answer(c, r < 0 ? "refused" : "ok", 0, 0, size0, used0, r);
	}
	else if (!strcmp(a, "string")) {
		char *s = mpt_array_string(ar);
		if (!s) answer(c, "refused", 0, 0, size0, used0, 0);
		else {
			size_t n = strlen(s);
			uint8_t *keep = (uint8_t *) malloc(n + 1);
			memcpy(keep, s, n);
			answer(c, "ok", keep, n, size0, used0, (long long) ((uint8_t *) s - (uint8_t *) (ar->_buf + 1)));
			free(keep);
		}
	}
	else if (!strcmp(a, "slicewrite")) {
		MPT_STRUCT(slice) sl = MPT_SLICE_INIT;
		size_t nblk = drv_size(c, "nblk", 0), esz = drv_size(c, "esz", 1);
		ssize_t r;
		/* a slice window lies inside the data (caller's duty) */
		if (drv_size(c, "off", 0) > used0 || drv_size(c, "len", 0) > used0 - drv_size(c, "off", 0)) {
			answer(c, "skipped", 0, 0, size0, used0, 0);
			free(data);
			return;
		}
		sl._a._buf = ar->_buf;   /* the handle is the slice's array */
		sl._off = drv_size(c, "off", 0);
		sl._len = drv_size(c, "len", 0);
		r = mpt_slice_write(&sl, nblk, drv_int(c, "zero", 0) ? 0 : data, esz);
		ar->_buf = sl._a._buf;
		if (r < 0) answer(c, "refused", 0, 0, size0, used0, r);
		else {
			/* what the slice reads afterwards */
			size_t n = sl._len;
			uint8_t *keep = (uint8_t *) calloc(n + 1, 1);
			if (ar->_buf && n) memcpy(keep, ((uint8_t *) (ar->_buf + 1)) + sl._off, n);
			answer(c, "ok", keep, n, size0, used0, r);
			free(keep);
		}
	}
	else if (!strcmp(a, "bufinsert") || !strcmp(a, "bufcut") || !strcmp(a, "bufset")) {
		MPT_STRUCT(buffer) *b = ar->_buf;
		int fl = b ? (int) b->_vptr->get_flags(b) : 0;
		/* buffer level calls are for exclusively owned buffers (caller's duty) */
		if (!b || (fl & MPT_ENUM(BufferShared)) || (a[3] != 'i' && (fl & MPT_ENUM(BufferImmutable)))) {
			answer(c, "skipped", 0, 0, size0, used0, 0);
		}
		else if (a[3] == 'i') {
			void *p = mpt_buffer_insert(b, drv_size(c, "pos", 0), dl);
			if (p && dl && !huge_len) memcpy(p, data, dl);
			answer(c, p ? "ok" : "refused", 0, 0, size0, used0, 0);
		}
		else if (a[3] == 'c') {
			ssize_t r = mpt_buffer_cut(b, drv_size(c, "off", 0), drv_size(c, "n", 0));
			answer(c, r < 0 ? "refused" : "ok", 0, 0, size0, used0, r);
		}
		else {
			long r = mpt_buffer_set(b, traits_of(drv_raw(c, "typ")), drv_size(c, "pos", 0), (huge_len || drv_int(c, "zero", 0)) ? 0 : data, dl);
			answer(c, r < 0 ? "refused" : "ok", 0, 0, size0, used0, r);
		}
	}
	else {
		drv_begin(c);
		j_str("ret", "unknown-action");
		drv_dbg();
		drv_end();
	}
	free(data);
}

int main(int argc, char **argv)
{
	return drv_main(argc, argv);
}
