/*
 * Driver for spec/MsgUse.tla (X17, extension of C17): the other consumers and
 * producers of fragmented messages.  One command per public call; the message
 * is a cursor (base/used/cont/clen) over exactly sized heap fragments, or the
 * all-zero cursor / an iovec list with no entry when the cut has no fragment.
 *
 * The driver judges nothing: it builds fragments, calls the library, copies
 * what the library handed out (iterator elements, paths, values, datagrams,
 * stream content) and maps return codes to classes.
 */
#include "drv.h"

#include <ctype.h>
#include <poll.h>
#include <fcntl.h>
#include <sys/uio.h>
#include <sys/socket.h>
#include <sys/ioctl.h>

#include "core.h"
#include "types.h"
#include "meta.h"
#include "array.h"
#include "message.h"
#include "convert.h"
#include "config.h"
#include "object.h"
#include "event.h"
#include "client.h"
#include "queue.h"
#include "output.h"
#include "stream.h"
#include "connection.h"
#include "history.h"

#include "msguse_common.h"

/* object.h declares this function under the name mpt_message_properties */
extern int mpt_message_property(MPT_STRUCT(message) *, int , MPT_TYPE(property_handler) , void *);

/* ------------------------------------------------------------------ */
/* harness objects                                                     */
/* ------------------------------------------------------------------ */

/* reply context: keeps the code of the answer */
static int reply_calls, reply_code;
static int rc_reply(MPT_INTERFACE(reply_context) *rc, const MPT_STRUCT(message) *m)
{
	MPT_STRUCT(message) tmp;
	MPT_STRUCT(msgtype) mt = MPT_MSGTYPE_INIT;
	(void) rc;
	++reply_calls;
	if (m) {
		tmp = *m;
		if (mpt_message_read(&tmp, sizeof(mt), &mt) >= sizeof(mt)) reply_code = mt.arg;
	}
	return 0;
}
static MPT_INTERFACE(reply_context_detached) *rc_defer(MPT_INTERFACE(reply_context) *rc)
{
	(void) rc;
	return 0;
}
static const MPT_INTERFACE_VPTR(reply_context) rc_vptr = { rc_reply, rc_defer };
static MPT_INTERFACE(reply_context) the_rc = { &rc_vptr };

static const char *code_class(int code)
{
	if (code >= 0) return "ok";
	if (code == MPT_ERROR(MissingData)) return "missing";
	if (code == MPT_ERROR(MissingBuffer)) return "toolong";
	if (code == MPT_ERROR(BadType)) return "badtype";
	if (code == MPT_ERROR(BadEncoding)) return "noassign";
	if (code == MPT_ERROR(BadValue)) return "badvalue";
	if (code == MPT_ERROR(BadArgument)) return "badarg";
	if (code == MPT_ERROR(BadOperation)) return "badop";
	return "refused";
}

/* dispatcher with a catch-all handler */
static int h_calls;
static uintptr_t h_id;
static int h_msg;
static int catch_all(void *arg, MPT_STRUCT(event) *ev)
{
	(void) arg;
	if (!ev) return 0;
	++h_calls;
	h_id = ev->id;
	h_msg = ev->msg ? 1 : 0;
	return 0;
}

/* client: keeps command id and arguments */
static uintptr_t cl_id;
static int cl_calls;
static struct items cl_args;
static int cl_process(MPT_INTERFACE(client) *cl, uintptr_t id, MPT_INTERFACE(iterator) *it)
{
	(void) cl;
	++cl_calls;
	cl_id = id;
	items_walk(&cl_args, it);
	return 0;
}
static const MPT_INTERFACE_VPTR(client) cl_vptr = { { { 0 }, 0, 0, 0 }, 0, cl_process };
static MPT_INTERFACE(client) the_client = { &cl_vptr };

/* assignment target of mpt_message_assign */
static uint8_t *as_path, *as_val;
static size_t as_plen, as_vlen;
static int as_calls, as_sep;
static int as_proc(void *ctx, const MPT_STRUCT(path) *p, const MPT_STRUCT(value) *val)
{
	(void) ctx;
	++as_calls;
	free(as_path); free(as_val);
	as_path = as_val = 0; as_plen = as_vlen = 0;
	if (p) {
		as_path = dup_bytes(p->base + p->off, p->len);
		as_plen = p->len;
		as_sep = p->sep;
	}
	if (val && val->_addr && val->_type == MPT_type_toVector('c')) {
		const struct iovec *vec = (const struct iovec *) val->_addr;
		as_val = dup_bytes(vec->iov_base, vec->iov_len);
		as_vlen = vec->iov_len;
	}
	return 0;
}

/* property handler of mpt_message_property */
static uint8_t *pr_name, *pr_val;
static size_t pr_nlen, pr_vlen;
static int pr_calls;
static int pr_proc(void *ctx, const MPT_STRUCT(property) *pr)
{
	(void) ctx;
	++pr_calls;
	free(pr_name); free(pr_val);
	pr_name = pr_val = 0; pr_nlen = pr_vlen = 0;
	if (pr->name) {
		pr_nlen = strlen(pr->name);
		pr_name = dup_bytes(pr->name, pr_nlen);
	}
	if (pr->val._type == 's' && pr->val._addr) {
		const char *s = *((const char * const *) pr->val._addr);
		if (s) {
			pr_vlen = strlen(s);
			pr_val = dup_bytes(s, pr_vlen);
		}
	}
	return 0;
}

/* printed history lines as rows of numbers (a token that is no integer: 1000000000) */
static void rows_out(const char *key, const char *text, size_t len)
{
	size_t i = 0;
	j_sep();
	fprintf(drv_out, "\"%s\":[", key);
	drv_first = 1;
	while (i < len) {
		size_t e = i;
		int firstv = 1;
		while (e < len && text[e] != '\n') e++;
		if (!drv_first) fputc(',', drv_out);
		drv_first = 0;
		fputc('[', drv_out);
		while (i < e) {
			char tok[64], *end;
			size_t t = 0;
			long long v;
			while (i < e && text[i] == ' ') i++;
			if (i >= e) break;
			while (i < e && text[i] != ' ' && t + 1 < sizeof(tok)) tok[t++] = text[i++];
			tok[t] = 0;
			v = strtoll(tok, &end, 10);
			if (*end || end == tok || v >= 536870912 || v < -536870912) v = 1000000000;
			fprintf(drv_out, firstv ? "%lld" : ",%lld", v);
			firstv = 0;
		}
		fputc(']', drv_out);
		i = e + 1;
	}
	fputc(']', drv_out);
	drv_first = 0;
}

/* output taking at most cap bytes per push: keeps what it took */
static uint8_t *ov_data;
static size_t ov_len, ov_cap, ov_pushes;
static ssize_t ov_push(MPT_INTERFACE(output) *out, size_t len, const void *src)
{
	size_t take = (ov_cap && len > ov_cap) ? ov_cap : len;
	(void) out;
	++ov_pushes;
	if (take) {
		ov_data = (uint8_t *) realloc(ov_data, ov_len + take);
		memcpy(ov_data + ov_len, src, take);
		ov_len += take;
	}
	return (ssize_t) take;
}
static int ov_sync(MPT_INTERFACE(output) *out, int t) { (void) out; (void) t; return 0; }
static int ov_await(MPT_INTERFACE(output) *out, int (*ctl)(void *, const MPT_STRUCT(message) *), void *u)
{
	(void) out; (void) ctl; (void) u;
	return 0;
}
static const MPT_INTERFACE_VPTR(output) ov_vptr = { ov_push, ov_sync, ov_await };
static MPT_INTERFACE(output) the_output = { &ov_vptr };

static void drv_reset(void)
{
	msg_reset();
	items_clear(&cl_args);
}

/* ------------------------------------------------------------------ */
/* streams for sappend                                                 */
/* ------------------------------------------------------------------ */
static struct items got_msgs;
static int srm_handler(void *ctx, const MPT_STRUCT(message) *mp)
{
	MPT_STRUCT(message) m;
	size_t len;
	uint8_t *b;
	(void) ctx;
	if (!mp) { items_add(&got_msgs, "", 0); return 0; }
	m = *mp;
	len = mpt_message_length(&m);
	b = (uint8_t *) malloc(len + 1);
	mpt_message_read(&m, len, b);
	items_add(&got_msgs, b, len);
	free(b);
	return 0;
}
static void qinit(MPT_STRUCT(queue) *q, size_t cap)
{
	if (cap) {
		q->base = malloc(cap);
		memset(q->base, 0xEE, cap);
	}
	q->max = cap; q->off = 0; q->len = 0;
}

static void do_sappend(struct cmd *c)
{
	static const MPT_STRUCT(stream) sinit = MPT_STREAM_INIT;
	MPT_STRUCT(stream) ws = sinit, rs = sinit;
	int wp[2] = { -1, -1 }, rp[2] = { -1, -1 };
	const char *kind = drv_raw(c, "kind");
	size_t pl, wire_len = 0, wire_cap = 0, i;
	uint8_t *pre = drv_bytes(c, "pre", &pl), *wire = 0;
	int cobs = kind && !strcmp(kind, "cobs"), rounds = 0, r2 = 0, fl;
	ssize_t r = 0, rp0 = 0;
	long long val;

	items_clear(&got_msgs);
	if (socketpair(AF_UNIX, SOCK_STREAM | SOCK_NONBLOCK, 0, wp) < 0
	    || socketpair(AF_UNIX, SOCK_STREAM | SOCK_NONBLOCK, 0, rp) < 0) {
		drv_begin(c); j_str("ret", "harness"); drv_dbg(); drv_end();
		return;
	}
	_mpt_stream_setfile(&ws._info, -1, wp[0]);
	mpt_stream_setmode(&ws, MPT_STREAMFLAG(WriteBuf));
	_mpt_stream_setfile(&rs._info, rp[1], -1);
	mpt_stream_setmode(&rs, MPT_STREAMFLAG(ReadBuf));
	if (cobs) { ws._wd._enc = mpt_encode_cobs; rs._rd._dec = mpt_decode_cobs; }
	qinit(&ws._wd.data, drv_uint(c, "wcap", 0));
	qinit(&rs._rd.data, 64);
	rs._rd._state.data.msg = -1;

	if (pl) rp0 = mpt_stream_push(&ws, pl, pre);
	r = mpt_stream_append(&ws, &msg);
	if (drv_int(c, "twice", 0)) r2 = (int) mpt_stream_append(&ws, &msg);
	mpt_stream_push(&ws, 0, 0);
	/* everything that is finished goes to the wire */
	do {
		ssize_t n;
		uint8_t tmp[4096];
		fl = mpt_stream_flush(&ws);
		while ((n = read(wp[1], tmp, sizeof(tmp))) > 0) {
			if (wire_len + n > wire_cap) wire = (uint8_t *) realloc(wire, wire_cap = (wire_len + n) * 2 + 64);
			memcpy(wire + wire_len, tmp, n);
			wire_len += n;
		}
	} while (fl >= 0 && ws._wd._state.done && ++rounds < 200);

	if (!cobs) {
		items_add(&got_msgs, wire ? wire : (uint8_t *) "", wire_len);
	} else {
		/* the library's own decoder tells what frames are on the wire */
		size_t sent = 0;
		int idle = 0;
		rounds = 0;
		while (idle < 3 && ++rounds < 100000) {
			int d;
			if (sent < wire_len) {
				ssize_t w = write(rp[0], wire + sent, wire_len - sent);
				if (w > 0) sent += w;
			}
			mpt_stream_poll(&rs, POLLIN, 0);
			while ((d = mpt_stream_dispatch(&rs, srm_handler, 0)) == MPT_ERROR(MissingBuffer)) {
				if (!mpt_queue_prepare(&rs._rd.data, 256)) break;
			}
			if (sent >= wire_len && d < 0) ++idle;
			else if (sent >= wire_len && !rs._rd.data.len) ++idle;
		}
	}
	val = (long long) r;
	drv_begin(c);
	j_str("ret", (r < 0 || rp0 < 0 || r2 < 0) ? "failed" : "ok");
	j_ints("val", &val, r < 0 ? 0 : 1);
	items_out("msgs", &got_msgs);
	content_out();
	drv_dbg();
	j_int("wire", (long long) wire_len);
	drv_end();
	for (i = 0; i < 2; i++) { if (wp[i] >= 0) close(wp[i]); if (rp[i] >= 0) close(rp[i]); }
	free(ws._wd.data.base); free(rs._rd.data.base);
	free(wire); free(pre);
	items_clear(&got_msgs);
}

/* ------------------------------------------------------------------ */
/* the calls of the base check on cursors / iovec lists without any     */
/* fragment (the iovec calls get exactly the fragments of the cut)      */
/* ------------------------------------------------------------------ */
static int in_class(int ch, void *par)
{
	const char *cls = (const char *) par;
	if (!strcmp(cls, "space")) return isspace(ch) ? 1 : 0;
	if (!strcmp(cls, "notspace")) return isspace(ch) ? 0 : 1;
	if (!strcmp(cls, "quote")) return (ch == '"' || ch == '\'') ? 1 : 0;
	if (!strcmp(cls, "zero")) return ch == 0;
	return 0;
}
static char *cstring(const struct cmd *c, const char *key)
{
	size_t l;
	uint8_t *b = drv_bytes(c, key, &l);
	char *s = (char *) malloc(l + 1);
	memcpy(s, b, l);
	s[l] = 0;
	free(b);
	return s;
}
static void answer_pos(struct cmd *c, ssize_t r)
{
	long long v = (long long) r;
	if (r >= 0) plain_answer(c, "ok", &v, 1, 0, 0);
	else if (r == -2) plain_answer(c, "none", 0, 0, 0, 0);
	else plain_answer(c, "error", 0, 0, 0, 0);
}
static int base_step(struct cmd *c)
{
	const char *a = c->action;
	if (!strcmp(a, "argv")) {
		ssize_t r = mpt_message_argv(&msg, (int) drv_int(c, "sep", 0));
		long long v = (long long) r;
		if (r >= 0) plain_answer(c, "ok", &v, 1, 0, 0);
		else plain_answer(c, "missing", 0, 0, 0, 0);
		return 1;
	}
	if (!strcmp(a, "arrmsg")) {
		MPT_STRUCT(array) arr = MPT_ARRAY_INIT;
		int r = mpt_array_message(&arr, &msg, (int) drv_int(c, "sep", 0));
		long long v = r;
		if (r < 0) plain_answer(c, "refused", 0, 0, 0, 0);
		else plain_answer(c, "ok", &v, 1, arr._buf ? (void *) (arr._buf + 1) : 0, arr._buf ? arr._buf->_used : 0);
		mpt_array_clone(&arr, 0);
		return 1;
	}
	if (!strcmp(a, "append")) {
		MPT_STRUCT(array) arr = MPT_ARRAY_INIT;
		size_t pl;
		uint8_t *pre = drv_bytes(c, "pre", &pl);
		int r;
		if (pl) mpt_array_append(&arr, pl, pre);
		r = mpt_message_append(&arr, &msg);
		plain_answer(c, r < 0 ? "refused" : "ok", 0, 0, arr._buf ? (void *) (arr._buf + 1) : 0, arr._buf ? arr._buf->_used : 0);
		mpt_array_clone(&arr, 0);
		free(pre);
		return 1;
	}
	if (a[0] != 'v') {
		return 0;
	}
	if (!strcmp(a, "vmemchr") || !strcmp(a, "vmemrchr")) {
		size_t n;
		struct iovec *v = frag_view(&n);
		int b = (int) drv_int(c, "b", 0);
		answer_pos(c, (a[4] == 'r') ? mpt_memrchr(v, n, b) : mpt_memchr(v, n, b));
		free(v);
		return 1;
	}
	if (!strcmp(a, "vmemfcn") || !strcmp(a, "vmemrfcn")) {
		size_t n;
		struct iovec *v = frag_view(&n);
		const char *cls = drv_raw(c, "cls");
		answer_pos(c, (a[4] == 'r') ? mpt_memrfcn(v, n, in_class, (void *) cls) : mpt_memfcn(v, n, in_class, (void *) cls));
		free(v);
		return 1;
	}
	if (!strcmp(a, "vmemstr") || !strcmp(a, "vmemrstr")) {
		size_t n, ml;
		struct iovec *v = frag_view(&n);
		uint8_t *raw = drv_bytes(c, "set", &ml);
		uint8_t *m = dup_bytes(raw, ml);
		answer_pos(c, (a[4] == 'r') ? mpt_memrstr(v, n, m, ml) : mpt_memstr(v, n, m, ml));
		free(v); free(raw); free(m);
		return 1;
	}
	if (!strcmp(a, "vmemtok")) {
		size_t n;
		struct iovec *v = frag_view(&n);
		char *tok = cstring(c, "tok"), *com = cstring(c, "com"), *esc = cstring(c, "esc");
		int hastok = (int) drv_int(c, "hastok", 0);
		answer_pos(c, mpt_memtok(v, n, hastok ? tok : 0, *com ? com : 0, *esc ? esc : 0));
		free(v); free(tok); free(com); free(esc);
		return 1;
	}
	if (!strcmp(a, "vmemcpy")) {
		/* copy from the fragments into fresh destination fragments (possibly none) */
		size_t n, nd, i, total = 0, pos = 0;
		struct iovec *v = frag_view(&n), *d;
		long long *dcut = drv_ints(c, "dcut", &nd);
		uint8_t *out;
		ssize_t r;
		long long rv;
		d = (struct iovec *) malloc(nd ? nd * sizeof(*d) : 1);
		for (i = 0; i < nd; i++) {
			d[i].iov_len = (size_t) dcut[i];
			d[i].iov_base = malloc(d[i].iov_len);
			memset(d[i].iov_base, FILL, d[i].iov_len);
			total += d[i].iov_len;
		}
		r = mpt_memcpy((ssize_t) drv_int(c, "n", 0), v, n, d, nd);
		out = (uint8_t *) malloc(total + 1);
		for (i = 0; i < nd; i++) {
			memcpy(out + pos, d[i].iov_base, d[i].iov_len);
			pos += d[i].iov_len;
		}
		rv = (long long) r;
		if (r >= 0) plain_answer(c, "ok", &rv, 1, out, total);
		else plain_answer(c, "refused", 0, 0, out, total);
		for (i = 0; i < nd; i++) free(d[i].iov_base);
		free(d); free(v); free(dcut); free(out);
		return 1;
	}
	return 0;
}

/* ------------------------------------------------------------------ */
static void drv_step(struct cmd *c)
{
	const char *a = c->action;

	if (msg_common_step(c)) {
		return;
	}
	if (base_step(c)) {
		return;
	}
	if (!strcmp(a, "iter")) {
		/* mpt_message_iterator: the text arguments as iterator elements */
		struct items it = ITEMS_INIT;
		MPT_INTERFACE(metatype) *mt = mpt_message_iterator(&msg, (int) drv_int(c, "sep", 0));
		MPT_INTERFACE(iterator) *iter = 0;
		if (mt) {
			MPT_metatype_convert(mt, MPT_ENUM(TypeIteratorPtr), &iter);
			items_walk(&it, iter);
		}
		drv_begin(c);
		j_str("ret", mt ? "ok" : "refused");
		items_out("items", &it);
		content_out();
		drv_dbg();
		drv_end();
		if (mt) mt->_vptr->unref(mt);
		items_clear(&it);
	}
	else if (!strcmp(a, "evcmd")) {
		/* mpt_event_command: header, then command and arguments */
		struct items it = ITEMS_INIT, cmd = ITEMS_INIT;
		MPT_STRUCT(event) ev = MPT_EVENT_INIT;
		MPT_INTERFACE(metatype) *mt;
		MPT_INTERFACE(iterator) *iter = 0;
		const char *txt = 0;
		reply_calls = 0; reply_code = 0;
		ev.msg = &msg;
		ev.reply = &the_rc;
		mt = mpt_event_command(&ev);
		if (mt) {
			MPT_metatype_convert(mt, 's', &txt);
			if (txt) items_add(&cmd, txt, strlen(txt));
			MPT_metatype_convert(mt, MPT_ENUM(TypeIteratorPtr), &iter);
			items_walk(&it, iter);
		}
		drv_begin(c);
		j_str("ret", mt ? "ok" : "none");
		items_out("cmd", &cmd);
		items_out("args", &it);
		content_out();
		drv_dbg();
		j_int("replies", reply_calls);
		j_int("code", reply_code);
		drv_end();
		if (mt) mt->_vptr->unref(mt);
		items_clear(&it); items_clear(&cmd);
	}
	else if (!strcmp(a, "hash") || !strcmp(a, "emit")) {
		/* mpt_dispatch_hash / mpt_dispatch_emit: what the handler is called for */
		MPT_STRUCT(dispatch) disp;
		MPT_STRUCT(event) ev = MPT_EVENT_INIT;
		struct items cand = ITEMS_INIT;
		long long idv;
		int r;
		memset(&disp, 0, sizeof(disp));
		disp._err.cmd = catch_all;
		h_calls = 0; h_id = 0;
		reply_calls = 0; reply_code = 0;
		ev.msg = &msg;
		ev.reply = &the_rc;
		r = (a[0] == 'h') ? mpt_dispatch_hash(&disp, &ev) : mpt_dispatch_emit(&disp, &ev);
		if (h_calls && a[0] == 'h') hash_candidates(&cand, h_id);
		idv = (long long) (h_id & 0xffff);
		drv_begin(c);
		j_str("ret", h_calls ? "called" : "failed");
		if (a[0] == 'h') items_out("cmds", &cand);
		else j_ints("id", &idv, h_calls ? 1 : 0);
		content_out();
		drv_dbg();
		j_int("r", r);
		j_int("replies", reply_calls);
		j_int("code", reply_code);
		drv_end();
		items_clear(&cand);
	}
	else if (!strcmp(a, "clientcmd")) {
		/* mpt_client_command: command id and arguments handed to the client */
		struct items cand = ITEMS_INIT;
		int r;
		cl_calls = 0; cl_id = 0;
		items_clear(&cl_args);
		r = mpt_client_command(&the_client, &msg, (int) drv_int(c, "sep", 0));
		if (cl_calls && cl_id) hash_candidates(&cand, cl_id);
		drv_begin(c);
		j_str("ret", cl_calls ? "called" : code_class(r < 0 ? r : -1000));
		items_out("cmds", &cand);
		items_out("args", &cl_args);
		content_out();
		drv_dbg();
		j_int("r", r);
		drv_end();
		items_clear(&cand);
	}
	else if (!strcmp(a, "cfgnext")) {
		/* mpt_config_message_next: next path of a query message (consumes) */
		MPT_STRUCT(path) p = MPT_PATH_INIT;
		int r = mpt_config_message_next(&p, (int) drv_int(c, "sep", 0), &msg);
		long long v = r;
		drv_begin(c);
		j_str("ret", code_class(r));
		j_ints("val", &v, r < 0 ? 0 : 1);
		j_bytes("path", p.base ? p.base + p.off : "", p.base ? p.len : 0);
		content_out();
		drv_dbg();
		drv_end();
		mpt_path_fini(&p);
	}
	else if (!strcmp(a, "assign")) {
		/* mpt_message_assign: path elements and value of an assignment message */
		int r;
		as_calls = 0;
		r = mpt_message_assign(&msg, (int) drv_int(c, "n", 0), as_proc, 0);
		drv_begin(c);
		j_str("ret", as_calls ? "called" : code_class(r < 0 ? r : -1000));
		j_bytes("path", as_path, as_calls ? as_plen : 0);
		j_bytes("value", as_val, as_calls ? as_vlen : 0);
		content_out();
		drv_dbg();
		j_int("r", r);
		drv_end();
	}
	else if (!strcmp(a, "property")) {
		/* mpt_message_property: name=value argument (consumes when accepted) */
		int r;
		pr_calls = 0;
		r = mpt_message_property(&msg, (int) drv_int(c, "sep", 0), pr_proc, 0);
		drv_begin(c);
		j_str("ret", pr_calls ? "called" : code_class(r < 0 ? r : -1000));
		j_bytes("name", pr_name, pr_calls ? pr_nlen : 0);
		j_bytes("value", pr_val, pr_calls ? pr_vlen : 0);
		content_out();
		drv_dbg();
		j_int("r", r);
		drv_end();
	}
	else if (!strcmp(a, "sappend")) {
		do_sappend(c);
	}
	else if (!strcmp(a, "dgreply")) {
		/* mpt_outdata_reply: id header and message gathered into one datagram */
		MPT_STRUCT(outdata) out = MPT_OUTDATA_INIT;
		int sp[2], r, ir;
		size_t idlen = drv_uint(c, "idlen", 0);
		uint8_t hdr[16], *dg = (uint8_t *) malloc(70000);
		ssize_t got = -1;
		long long v;
		memset(hdr, 0, sizeof(hdr));
		if (idlen > sizeof(hdr)) idlen = sizeof(hdr);
		ir = mpt_message_id2buf(drv_uint(c, "id", 0), hdr, idlen);
		if (socketpair(AF_UNIX, SOCK_DGRAM | SOCK_NONBLOCK, 0, sp) < 0) {
			drv_begin(c); j_str("ret", "harness"); drv_dbg(); drv_end();
			free(dg);
			return;
		}
		out.sock._id = sp[0];
		out._idlen = (uint8_t) idlen;
		r = mpt_outdata_reply(&out, idlen, hdr, &msg);
		if (r >= 0) got = recv(sp[1], dg, 70000, 0);
		v = r;
		drv_begin(c);
		j_str("ret", r < 0 ? code_class(r) : "ok");
		j_ints("val", &v, r < 0 ? 0 : 1);
		j_bytes("wire", dg, got > 0 ? (size_t) got : 0);
		content_out();
		drv_dbg();
		j_int("id2buf", ir);
		drv_end();
		close(sp[0]); close(sp[1]);
		mpt_array_clone(&out.buf, 0);
		free(dg);
	}
	else if (!strcmp(a, "outvals")) {
		/* mpt_output_values: n doubles (every ld-th of the array) handed to an output that takes
		 * at most cap bytes per push; the message bytes are the array */
		size_t n = drv_uint(c, "n", 0), ld = drv_uint(c, "ld", 1), have, fl;
		uint8_t *flat = flatten(&msg, &fl);
		double *arr;
		int r;
		have = n ? (n - 1) * ld + 1 : 0;
		arr = (double *) malloc(have * sizeof(*arr) + 1);     /* exact size */
		memset(arr, 0, have * sizeof(*arr));
		memcpy(arr, flat, fl < have * sizeof(*arr) ? fl : have * sizeof(*arr));
		free(ov_data); ov_data = 0; ov_len = 0; ov_pushes = 0;
		ov_cap = drv_uint(c, "cap", 0);
		r = mpt_output_values(&the_output, (int) n, arr, (int) ld);
		drv_begin(c);
		j_str("ret", r < 0 ? code_class(r) : "ok");
		j_bytes("out", ov_data, ov_len);
		content_out();
		drv_dbg();
		j_int("r", r);
		j_int("pushes", (long long) ov_pushes);
		drv_end();
		free(arr); free(flat);
	}
	else if (!strcmp(a, "deccmd")) {
		/* mpt_decode_command on the fragments (input queue content): header written in front of the
		 * text at curr, end of the command searched; the fragments are changed in place */
		MPT_STRUCT(decode_state) dec = MPT_DECODE_INIT;
		size_t n;
		struct iovec *v = frag_view(&n);
		long long st[4];
		int r;
		dec.curr = drv_uint(c, "curr", 0);
		r = mpt_decode_command(&dec, v, n);
		st[0] = (long long) dec.data.pos; st[1] = (long long) dec.data.len;
		st[2] = (long long) dec.data.msg; st[3] = (long long) dec.curr;
		drv_begin(c);
		j_str("ret", r < 0 ? code_class(r) : r ? "message" : "more");
		j_ints("state", st, r < 0 ? 0 : 4);
		content_out();
		drv_dbg();
		j_int("r", r);
		drv_end();
		free(v);
	}
	else if (!strcmp(a, "histpush")) {
		/* value-format message pushed into a history piece by piece (pieces = fragments of the cursor).
		 * push() answers how many bytes it took; what it did not take is offered again in front of the
		 * next piece ("missing data" = nothing taken); a zero length push ends the message. */
		MPT_STRUCT(history) hist = MPT_HISTORY_INIT;
		char *text = 0;
		size_t tlen = 0, n, i, taillen = 0, npush = 0;
		struct iovec *v = frag_view(&n);
		uint8_t *tail = 0;
		const char *ret = "ok";
		FILE *fd = open_memstream(&text, &tlen);
		hist.info.file = fd;
		for (i = 0; i <= n && !strcmp(ret, "ok"); i++) {
			size_t plen = taillen + (i < n ? v[i].iov_len : 0), off = 0;
			uint8_t *piece;
			if (!plen || (i == n && !taillen)) continue;
			piece = (uint8_t *) malloc(plen);          /* exact size */
			if (taillen) memcpy(piece, tail, taillen);
			if (i < n && v[i].iov_len) memcpy(piece + taillen, v[i].iov_base, v[i].iov_len);
			while (off < plen) {
				ssize_t r = mpt_history_push(&hist, plen - off, piece + off);
				++npush;
				if (r == MPT_ERROR(MissingData)) break;
				if (r < 0) { ret = code_class((int) r); break; }
				if (!r || (size_t) r > plen - off) { if (r) ret = "overrun"; break; }
				off += (size_t) r;
			}
			free(tail);
			taillen = plen - off;
			tail = dup_bytes(piece + off, taillen);
			free(piece);
			if (i == n) break;
		}
		if (hist.info.state & MPT_OUTFLAG(Active)) mpt_history_push(&hist, 0, 0);
		fclose(fd);
		hist.info.file = 0;
		drv_begin(c);
		rows_out("rows", text, tlen);
		content_out();
		drv_dbg();
		j_str("ret", ret);
		j_bytes("left", tail, taillen);
		j_bytes("text", text, tlen);
		j_int("pushes", (long long) npush);
		drv_end();
		mpt_history_fini(&hist);
		free(text); free(tail); free(v);
	}
	else {
		drv_begin(c);
		j_str("ret", "unknown-action");
		drv_dbg();
		drv_end();
	}
}

int main(int argc, char **argv)
{
	signal(SIGPIPE, SIG_IGN);
	return drv_main(argc, argv);
}
