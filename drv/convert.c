/*
 * Driver for spec/Convert.tla (C07): scalar conversions and numeric text.
 *
 *   conv api=value|data|iter src=<t> dst=<t> (bytes=hex:<le bytes> | num=<number>) [mode=both|store|query]
 *   text api=cint|number|string|cflt fn=<name> dst=<t> base=<n> chars=<byte list> [mode=...]
 *
 * <t> is one of the 13 scalar type letters  c b y n q i u x t l f d e.
 * <number> is  fin:<neg>:<exp2>:<limb>,<limb>,...  (16-bit limbs, least
 * significant first; "-" = zero) |  inf:<neg>  |  nan.
 *
 * Nothing is judged here.  Source and destination bytes are transliterated
 * to {k, neg, m (16-bit limbs), e}: value = (-1)^neg * m * 2^e, m odd or
 * zero; floating values are taken apart with frexp/ldexp only.  Every
 * conversion is executed with two different fill patterns of the destination
 * (st: some byte of the target was written; sb: both runs left the same
 * target bytes; ov: a byte behind the target was changed) and once without
 * destination (q).  Return codes are mapped to ok / refused.
 */
#include "drv.h"

#include <math.h>
#include <float.h>
#include <sys/uio.h>

#include "types.h"
#include "convert.h"

#define DSTBUF 64

struct num {
	int kind;        /* 0 fin, 1 inf, 2 nan */
	int neg;
	uint64_t m;
	long e;
};

static int tsize(int t)
{
	switch (t) {
		case 'c': case 'b': case 'y': return 1;
		case 'n': case 'q': return 2;
		case 'i': case 'u': case 'f': return 4;
		case 'x': case 't': case 'l': case 'd': return 8;
		case 'e': return 10;   /* x87 extended: 10 value bytes in a 16 byte slot */
		default: return 0;
	}
}
static int tslot(int t)
{
	return t == 'e' ? (int) sizeof(long double) : tsize(t);
}
static int tfloat(int t) { return t == 'f' || t == 'd' || t == 'e'; }
static int tsigned(int t) { return t == 'c' || t == 'b' || t == 'n' || t == 'i' || t == 'x' || t == 'l'; }

/* ---------- bytes <-> number (transliteration) ---------- */
static void num_canon(struct num *n)
{
	if (n->kind) { n->m = 0; n->e = 0; if (n->kind == 2) n->neg = 0; return; }
	if (!n->m) { n->e = 0; n->neg = 0; return; }
	while (!(n->m & 1)) { n->m >>= 1; n->e++; }
}
static void num_from_ldbl(long double v, struct num *n)
{
	int e;
	long double fr;
	n->m = 0; n->e = 0;
	n->neg = signbit(v) ? 1 : 0;
	if (isnan(v)) { n->kind = 2; return; }
	if (isinf(v)) { n->kind = 1; return; }
	n->kind = 0;
	if (v == 0) return;
	fr = frexpl(fabsl(v), &e);          /* 0.5 <= fr < 1 */
	n->m = (uint64_t) ldexpl(fr, 64);   /* exact: at most 64 significant bits */
	n->e = (long) e - 64;
}
static void num_decode(int t, const void *p, struct num *n)
{
	n->kind = 0; n->neg = 0; n->m = 0; n->e = 0;
	if (tfloat(t)) {
		if (t == 'f') { float f; memcpy(&f, p, sizeof(f)); num_from_ldbl(f, n); }
		else if (t == 'd') { double d; memcpy(&d, p, sizeof(d)); num_from_ldbl(d, n); }
		else { long double l = 0; memcpy(&l, p, 10); num_from_ldbl(l, n); }
	}
	else if (tsigned(t)) {
		int64_t v = 0;
		switch (tsize(t)) {
			case 1: { int8_t x; memcpy(&x, p, 1); v = x; break; }
			case 2: { int16_t x; memcpy(&x, p, 2); v = x; break; }
			case 4: { int32_t x; memcpy(&x, p, 4); v = x; break; }
			default: { int64_t x; memcpy(&x, p, 8); v = x; break; }
		}
		if (v < 0) { n->neg = 1; n->m = (uint64_t) 0 - (uint64_t) v; }
		else n->m = (uint64_t) v;
	}
	else {
		uint64_t v = 0;
		switch (tsize(t)) {
			case 1: { uint8_t x; memcpy(&x, p, 1); v = x; break; }
			case 2: { uint16_t x; memcpy(&x, p, 2); v = x; break; }
			case 4: { uint32_t x; memcpy(&x, p, 4); v = x; break; }
			default: { uint64_t x; memcpy(&x, p, 8); v = x; break; }
		}
		n->m = v;
	}
	num_canon(n);
}
/* number given by the script -> bytes of type t; 0 when it does not fit the encoding */
static int num_encode(int t, const struct num *n, void *p)
{
	memset(p, 0, 16);
	if (tfloat(t)) {
		long double v;
		if (n->kind == 2) v = NAN;
		else if (n->kind == 1) v = INFINITY;
		else v = ldexpl((long double) n->m, (int) n->e);
		if (n->neg) v = -v;
		if (t == 'f') { float f = (float) v; memcpy(p, &f, sizeof(f)); }
		else if (t == 'd') { double d = (double) v; memcpy(p, &d, sizeof(d)); }
		else memcpy(p, &v, 10);
		return 1;
	}
	if (n->kind || n->e < 0 || n->e > 63) return 0;
	{
		uint64_t mag = n->m << n->e;
		uint64_t raw = n->neg ? (uint64_t) 0 - mag : mag;
		if ((mag >> n->e) != n->m) return 0;
		memcpy(p, &raw, tsize(t));   /* little endian host */
	}
	return 1;
}
static int num_parse(const char *r, struct num *n)
{
	char *end;
	int shift = 0;
	n->kind = 0; n->neg = 0; n->m = 0; n->e = 0;
	if (!strncmp(r, "nan", 3)) { n->kind = 2; return 1; }
	if (!strncmp(r, "inf:", 4)) { n->kind = 1; n->neg = atoi(r + 4); return 1; }
	if (strncmp(r, "fin:", 4)) return 0;
	n->neg = (int) strtol(r + 4, &end, 10);
	if (*end != ':') return 0;
	n->e = strtol(end + 1, &end, 10);
	if (*end != ':') return 0;
	r = end + 1;
	if (!strcmp(r, "-")) return 1;
	while (*r) {
		unsigned long l = strtoul(r, &end, 10);
		if (end == r || shift >= 64) return 0;
		n->m |= ((uint64_t) l) << shift;
		shift += 16;
		r = (*end == ',') ? end + 1 : end;
	}
	return 1;
}
static void j_num(const char *key, const struct num *n)
{
	uint64_t m = n->m;
	int first = 1;
	j_sep();
	fprintf(drv_out, "\"%s\":{\"k\":\"%s\",\"neg\":%d,\"m\":[", key,
	        n->kind == 0 ? "fin" : (n->kind == 1 ? "inf" : "nan"), n->neg);
	while (m) {
		fprintf(drv_out, first ? "%u" : ",%u", (unsigned) (m & 0xffff));
		first = 0;
		m >>= 16;
	}
	fprintf(drv_out, "],\"e\":%ld}", n->e);
}

/* ---------- one iterator holding one value ---------- */
struct one_iter {
	MPT_INTERFACE(iterator) _it;
	MPT_STRUCT(value) val;
	int left;
};
static const MPT_STRUCT(value) *one_value(MPT_INTERFACE(iterator) *it)
{
	struct one_iter *o = (struct one_iter *) it;
	return o->left ? &o->val : 0;
}
static int one_advance(MPT_INTERFACE(iterator) *it)
{
	struct one_iter *o = (struct one_iter *) it;
	if (!o->left) return MPT_ERROR(MissingData);
	o->left = 0;
	return 0;
}
static int one_reset(MPT_INTERFACE(iterator) *it)
{
	((struct one_iter *) it)->left = 1;
	return 1;
}
static const MPT_INTERFACE_VPTR(iterator) one_ctl = { one_value, one_advance, one_reset };

/* ---------- the calls ---------- */
struct call {
	const char *api, *fn;
	int src, dst, base;
	uint8_t srcbytes[16];
	char *text;
};

static int do_call(const struct call *c, void *dest)
{
	if (!strcmp(c->api, "value")) {
		MPT_STRUCT(value) v = MPT_VALUE_INIT(c->src, c->srcbytes);
		return mpt_value_convert(&v, c->dst, dest);
	}
	if (!strcmp(c->api, "iter")) {
		struct one_iter it;
		it._it._vptr = &one_ctl;
		it.val._addr = c->srcbytes;
		it.val._type = c->src;
		it.left = 1;
		return mpt_iterator_consume(&it._it, c->dst, dest);
	}
	if (!strcmp(c->api, "data")) {
		const void *s = c->srcbytes;
		switch (c->src) {
			case 'c': case 'b': return mpt_data_convert_int8((const int8_t *) s, c->dst, dest);
			case 'y': return mpt_data_convert_uint8((const uint8_t *) s, c->dst, dest);
			case 'n': return mpt_data_convert_int16((const int16_t *) s, c->dst, dest);
			case 'q': return mpt_data_convert_uint16((const uint16_t *) s, c->dst, dest);
			case 'i': return mpt_data_convert_int32((const int32_t *) s, c->dst, dest);
			case 'u': return mpt_data_convert_uint32((const uint32_t *) s, c->dst, dest);
			case 'x': case 'l': return mpt_data_convert_int64((const int64_t *) s, c->dst, dest);
			case 't': return mpt_data_convert_uint64((const uint64_t *) s, c->dst, dest);
			case 'f': return mpt_data_convert_float32((const float *) s, c->dst, dest);
			case 'd': return mpt_data_convert_float64((const double *) s, c->dst, dest);
			case 'e': return mpt_data_convert_exflt((const long double *) s, c->dst, dest);
			default: return -1000;
		}
	}
	if (!strcmp(c->api, "number")) return mpt_convert_number(c->text, c->dst, dest);
	if (!strcmp(c->api, "string")) return mpt_convert_string(c->text, c->dst, dest);
	if (!strcmp(c->api, "cflt")) {
		if (c->dst == 'f') return mpt_cfloat((float *) dest, c->text, 0);
		if (c->dst == 'd') return mpt_cdouble((double *) dest, c->text, 0);
		return mpt_cldouble((long double *) dest, c->text, 0);
	}
	if (!strcmp(c->api, "cint")) {
		const char *f = c->fn ? c->fn : "";
		if (!strcmp(f, "int8"))   return mpt_cint8((int8_t *) dest, c->text, c->base, 0);
		if (!strcmp(f, "int16"))  return mpt_cint16((int16_t *) dest, c->text, c->base, 0);
		if (!strcmp(f, "int32"))  return mpt_cint32((int32_t *) dest, c->text, c->base, 0);
		if (!strcmp(f, "int64"))  return mpt_cint64((int64_t *) dest, c->text, c->base, 0);
		if (!strcmp(f, "char"))   return mpt_cchar((char *) dest, c->text, c->base, 0);
		if (!strcmp(f, "int"))    return mpt_cint((int *) dest, c->text, c->base, 0);
		if (!strcmp(f, "long"))   return mpt_clong((long *) dest, c->text, c->base, 0);
		if (!strcmp(f, "uint8"))  return mpt_cuint8((uint8_t *) dest, c->text, c->base, 0);
		if (!strcmp(f, "uint16")) return mpt_cuint16((uint16_t *) dest, c->text, c->base, 0);
		if (!strcmp(f, "uint32")) return mpt_cuint32((uint32_t *) dest, c->text, c->base, 0);
		if (!strcmp(f, "uint64")) return mpt_cuint64((uint64_t *) dest, c->text, c->base, 0);
		if (!strcmp(f, "uchar"))  return mpt_cuchar((unsigned char *) dest, c->text, c->base, 0);
		if (!strcmp(f, "uint"))   return mpt_cuint((unsigned int *) dest, c->text, c->base, 0);
		if (!strcmp(f, "ulong"))  return mpt_culong((unsigned long *) dest, c->text, c->base, 0);
		return -1000;
	}
	return -1000;
}

static void drv_reset(void)
{
}

static void drv_step(struct cmd *c)
{
	struct call k;
	struct num v, w;
	const char *mode = drv_raw(c, "mode");
	const char *s;
	int istext = !strcmp(c->action, "text");
	int want_store, want_query;
	int r1 = -999, r2 = -999, rq = -999;
	int st = 0, sb = 1, ov = 0, i, sz, slot;
	/* destination slots, aligned, with room behind the target */
	long double d1a[DSTBUF / sizeof(long double)], d2a[DSTBUF / sizeof(long double)];
	uint8_t *d1 = (uint8_t *) d1a, *d2 = (uint8_t *) d2a;

	memset(&k, 0, sizeof(k));
	memset(&v, 0, sizeof(v));
	memset(&w, 0, sizeof(w));
	if (strcmp(c->action, "conv") && !istext) {
		drv_begin(c); j_str("r", "unknown-action"); drv_dbg(); drv_end();
		return;
	}
	k.api = drv_raw(c, "api");
	k.fn = drv_raw(c, "fn");
	if (!k.api) k.api = "";
	s = drv_raw(c, "src"); k.src = s ? s[0] : 0;
	s = drv_raw(c, "dst"); k.dst = s ? s[0] : 0;
	k.base = (int) drv_int(c, "base", 0);
	want_store = !mode || !strcmp(mode, "both") || !strcmp(mode, "store");
	want_query = !mode || !strcmp(mode, "both") || !strcmp(mode, "query");
	sz = tsize(k.dst);
	slot = tslot(k.dst);

	if (istext) {
		size_t n = 0;
		uint8_t *b = drv_bytes(c, "chars", &n);
		k.text = (char *) malloc(n + 1);
		memcpy(k.text, b, n);
		k.text[n] = 0;
		free(b);
	}
	else {
		const char *raw = drv_raw(c, "num");
		if (raw) {
			struct num in;
			if (!num_parse(raw, &in) || !num_encode(k.src, &in, k.srcbytes)) {
				drv_begin(c); j_str("r", "bad-input"); drv_dbg(); drv_end();
				return;
			}
		}
		else {
			size_t n = 0;
			uint8_t *b = drv_bytes(c, "bytes", &n);
			if ((int) n != tsize(k.src)) {
				free(b);
				drv_begin(c); j_str("r", "bad-input"); drv_dbg(); drv_end();
				return;
			}
			memcpy(k.srcbytes, b, n);
			free(b);
		}
		num_decode(k.src, k.srcbytes, &v);
	}
	if (!sz || (!istext && !tsize(k.src))) {
		drv_begin(c); j_str("r", "bad-input"); drv_dbg(); drv_end();
		return;
	}
	memset(d1, 0xA5, DSTBUF);
	memset(d2, 0x5A, DSTBUF);
	if (want_store) {
		r1 = do_call(&k, d1);
		r2 = do_call(&k, d2);
	}
	if (want_query) {
		rq = do_call(&k, 0);
	}
	for (i = 0; i < sz; i++) {
		if (d1[i] != 0xA5 || d2[i] != 0x5A) st = 1;
		if (d1[i] != d2[i]) sb = 0;
	}
	for (i = slot; i < DSTBUF; i++) {
		if (d1[i] != 0xA5 || d2[i] != 0x5A) ov = 1;
	}
	num_decode(k.dst, d1, &w);

	drv_begin(c);
	if (want_store) j_str("r", (r1 < 0) ? "refused" : "ok");
	else j_str("r", "none");
	if (want_query) j_str("q", (rq < 0) ? "refused" : "ok");
	else j_str("q", "none");
	j_int("st", st);
	j_int("sb", sb && (r1 < 0) == (r2 < 0));
	j_int("ov", ov);
	if (istext) j_int("used", r1 < 0 ? 0 : r1);
	else j_num("v", &v);
	j_num("w", &w);
	drv_dbg();
	j_int("rc", r1);
	j_int("rc2", r2);
	j_int("qrc", rq);
	drv_end();
	free(k.text);
}

int main(int argc, char **argv)
{
	return drv_main(argc, argv);
}
