/*
 * Driver for spec/Params.tla (C11 extension X24): the stock handlers mpt_dispatch_param registers.
 *
 * Counted test metatypes cm[1..2] stand in front of a sub-tree view of the process configuration
 * ("m1", "m2"); metatype 0 is NULL (the handlers then work on the process configuration itself).
 * Every addref/unref the library performs on a counted metatype moves its counter; the driver
 * itself keeps no reference beyond the one it hands to mpt_dispatch_param (taken back when the
 * call registers nothing).  User registrations use one harness handler whose arg is the token.
 * A recording reply context logs every message the handlers send as an answer.
 */
#include "drv.h"

#include <sys/uio.h>

#include "core.h"
#include "meta.h"
#include "array.h"
#include "types.h"
#include "config.h"
#include "message.h"
#include "event.h"

#define MAXCALLS 32
#define MAXREPLY 8
#define NMT 3

static MPT_STRUCT(dispatch) disp;

/* ---- counted metatype ---- */
struct counted {
	MPT_INTERFACE(metatype) _mt;
	MPT_INTERFACE(metatype) *inner;
	long refs;
	int  failref;   /* n-th addref from now fails (0 = none) */
	int  conv;      /* convert calls seen */
};
static struct counted cm[NMT];

static int cmConv(MPT_INTERFACE(convertable) *val, MPT_TYPE(type) type, void *ptr)
{
	struct counted *c = (void *) val;
	c->conv++;
	if (!c->inner) return MPT_ERROR(BadType);
	return MPT_metatype_convert(c->inner, type, ptr);
}
static void cmUnref(MPT_INTERFACE(metatype) *mt)
{
	struct counted *c = (void *) mt;
	c->refs--;
}
static uintptr_t cmRef(MPT_INTERFACE(metatype) *mt)
{
	struct counted *c = (void *) mt;
	if (c->failref > 0 && !--c->failref) return 0;
	return (uintptr_t) ++c->refs;
}
static MPT_INTERFACE(metatype) *cmClone(const MPT_INTERFACE(metatype) *mt)
{
	(void) mt;
	return 0;
}
static const MPT_INTERFACE_VPTR(metatype) cmVptr = { { cmConv }, cmUnref, cmRef, cmClone };

static MPT_INTERFACE(config) *cfg_of(int m)
{
	MPT_INTERFACE(config) *cfg = 0;
	if (m <= 0 || m >= NMT || !cm[m].inner) return 0;
	if (MPT_metatype_convert(cm[m].inner, MPT_ENUM(TypeConfigPtr), &cfg) < 0) return 0;
	return cfg;
}

/* ---- harness handler for user registrations ---- */
static struct call { long tok; int fin; long id; int msg; } calls[MAXCALLS];
static int ncalls;
static int hr_r;

static int handler(void *arg, MPT_STRUCT(event) *ev)
{
	if (ncalls < MAXCALLS) {
		struct call *c = &calls[ncalls++];
		c->tok = (long) (intptr_t) arg;
		c->fin = ev ? 0 : 1;
		c->id  = ev ? (long) ev->id : 0;
		c->msg = (ev && ev->msg) ? 1 : 0;
	}
	if (!ev) return 0;
	return hr_r;
}

/* ---- recording reply context ---- */
static struct rep { uint8_t *data; size_t len; } reps[MAXREPLY];
static int nreps, nreps_all;
static int reply_ret;
static int rcReply(MPT_INTERFACE(reply_context) *rc, const MPT_STRUCT(message) *msg)
{
	(void) rc;
	nreps_all++;
	if (nreps < MAXREPLY) {
		struct rep *r = &reps[nreps++];
		size_t len = msg ? mpt_message_length(msg) : 0;
		r->data = (uint8_t *) malloc(len + 1);
		r->len = 0;
		if (msg) {
			MPT_STRUCT(message) tmp = *msg;
			r->len = mpt_message_read(&tmp, len, r->data);
		}
	}
	return reply_ret;
}
static MPT_INTERFACE(reply_context_detached) *rcDefer(MPT_INTERFACE(reply_context) *rc)
{
	(void) rc;
	return 0;
}
static const MPT_INTERFACE_VPTR(reply_context) rcVptr = { rcReply, rcDefer };
static MPT_INTERFACE(reply_context) rctx = { &rcVptr };

static void reps_free(void)
{
	int i;
	for (i = 0; i < nreps; i++) free(reps[i].data);
	nreps = nreps_all = 0;
}

/* ---- fragments ---- */
#define MAXFRAG 8
static struct iovec frag_vec[MAXFRAG];
static uint8_t *frag_mem[MAXFRAG + 1];
static int nfrag;
static void frag_free(void)
{
	int i;
	for (i = 0; i < nfrag; i++) free(frag_mem[i]);
	nfrag = 0;
}
static void frag_make(MPT_STRUCT(message) *msg, const uint8_t *all, size_t total, const long long *cuts, size_t ncut)
{
	size_t pos = 0, k;
	nfrag = 0;
	for (k = 0; k <= ncut && nfrag < MAXFRAG; k++) {
		size_t end = (k < ncut && nfrag < MAXFRAG - 1) ? (size_t) cuts[k] : total;
		size_t n;
		if (end > total) end = total;
		if (end < pos) end = pos;
		n = end - pos;
		if (!n && nfrag) continue;
		frag_mem[nfrag] = (uint8_t *) malloc(n ? n : 1);
		memcpy(frag_mem[nfrag], all + pos, n);
		if (nfrag) { frag_vec[nfrag - 1].iov_base = frag_mem[nfrag]; frag_vec[nfrag - 1].iov_len = n; }
		else { msg->base = frag_mem[0]; msg->used = n; }
		nfrag++;
		pos = end;
	}
	if (nfrag > 1) { msg->cont = frag_vec; msg->clen = (size_t) (nfrag - 1); }
}

/* top-level names assignments may have created in the process configuration: removed at reset */
#define MAXNAMES 4096
static char *names[MAXNAMES];
static int nnames;
static void name_note(const uint8_t *pay, size_t len)
{
	size_t n = 0;
	while (n < len && pay[n]) n++;
	if (!n || n == len || nnames >= MAXNAMES) return;
	names[nnames++] = strdup((const char *) pay);
}
static void names_clear(void)
{
	MPT_INTERFACE(metatype) *g = mpt_config_global(0);
	MPT_INTERFACE(config) *cfg = 0;
	int i;
	if (g && MPT_metatype_convert(g, MPT_ENUM(TypeConfigPtr), &cfg) >= 0 && cfg) {
		static const char *fixed[] = { "m1", "m2" };
		for (i = 0; i < 2; i++) {
			MPT_STRUCT(path) p = MPT_PATH_INIT;
			mpt_path_set(&p, fixed[i], -1);
			cfg->_vptr->remove(cfg, &p);
		}
		for (i = 0; i < nnames; i++) {
			MPT_STRUCT(path) p = MPT_PATH_INIT;
			p.base = names[i]; p.len = strlen(names[i]) + 1; p.sep = 0;
			cfg->_vptr->remove(cfg, &p);
		}
	}
	if (g) g->_vptr->unref(g);
	for (i = 0; i < nnames; i++) free(names[i]);
	nnames = 0;
}

static void drv_reset(void)
{
	int m;
	memset(&disp, 0, sizeof(disp));
	names_clear();
	ncalls = 0;
	reps_free();
	for (m = 1; m < NMT; m++) {
		MPT_STRUCT(path) p = MPT_PATH_INIT;
		char name[4] = { 'm', (char) ('0' + m), 0, 0 };
		cm[m]._mt._vptr = &cmVptr;
		cm[m].refs = 0;
		cm[m].failref = 0;
		cm[m].conv = 0;
		if (!cm[m].inner) {
			mpt_path_set(&p, name, -1);
			cm[m].inner = mpt_config_global(&p);
		}
	}
}

/* read-back of the path a set/cond command addressed (when a stock handler holds the id and the
 * payload has the announced number of elements): through mpt_config_get, not through the handlers */
static int mt_index(const void *arg);
static int after_present;
static const char *after_val;
static void after_read(int cmd, int depth, const uint8_t *pay, size_t len)
{
	const MPT_STRUCT(command) *reg;
	char *txt;
	size_t pos = 0;
	int k, m;
	after_present = 0; after_val = 0;
	if (cmd != MPT_MESGTYPE(ParamSet) && cmd != MPT_MESGTYPE(ParamCond)) return;
	if (!(reg = mpt_command_get(&disp._d, (uintptr_t) cmd)) || reg->cmd == (int (*)(void *, void *)) handler) return;
	if ((m = mt_index(reg->arg)) < 0 || depth < 1) return;
	txt = (char *) malloc(len + 1);
	for (k = 0; k < depth; k++) {
		size_t e = pos;
		while (e < len && pay[e]) e++;
		if (e == len) { free(txt); return; }
		memcpy(txt + pos, pay + pos, e - pos);
		txt[e] = (k + 1 < depth) ? '.' : 0;
		pos = e + 1;
	}
	if (mpt_config_get(cfg_of(m), txt, 's', &after_val) >= 0 && after_val) after_present = 1;
	else after_val = 0;
	free(txt);
}
static int by_call_tok(const void *a, const void *b)
{
	const struct call *x = a, *y = b;
	return (x->tok > y->tok) - (x->tok < y->tok);
}
static int by_id(const void *a, const void *b)
{
	const MPT_STRUCT(command) *x = a, *y = b;
	return (x->id > y->id) - (x->id < y->id);
}
static int mt_index(const void *arg)
{
	int m;
	if (!arg) return 0;
	for (m = 1; m < NMT; m++) if (arg == (void *) &cm[m]) return m;
	return -1;
}

/* common tail: harness calls, replies, registrations in id order, reference counts */
static void emit_rest(void)
{
	MPT_STRUCT(buffer) *buf = disp._d._buf;
	MPT_STRUCT(command) *cmd, *live;
	size_t n = 0, i, nl = 0;
	int k, m;

	j_arr_open("calls");
	for (k = 0; k < ncalls; k++) {
		j_item_obj_open();
		j_int("tok", calls[k].tok);
		j_int("fin", calls[k].fin);
		j_int("id", calls[k].id);
		j_int("msg", calls[k].msg);
		j_close();
	}
	j_arr_close();

	j_arr_open("replies");
	for (k = 0; k < nreps; k++) {
		const struct rep *r = &reps[k];
		j_item_obj_open();
		j_int("cmd", r->len ? r->data[0] : -1);
		j_str("code", r->len < 2 ? "none" : ((int8_t) r->data[1]) < 0 ? "err" : "ok");
		j_arr_open("vals");
		if (r->len >= 2 && r->data[0] == MPT_MESGTYPE(ParamGet)) {
			size_t s = 2, e;
			for (e = 2; e <= r->len; e++) {
				if (e == r->len || !r->data[e]) {
					size_t q;
					j_sep();
					fputc('[', drv_out);
					for (q = s; q < e; q++) fprintf(drv_out, q > s ? ",%u" : "%u", r->data[q]);
					fputc(']', drv_out);
					s = e + 1;
				}
			}
		}
		j_arr_close();
		j_close();
	}
	j_arr_close();
	j_int("nreplies", nreps_all);
	j_int("apresent", after_present);
	j_bytes("aval", after_val ? after_val : "", after_val ? strlen(after_val) : 0);

	if (buf) n = buf->_used / sizeof(*cmd);
	cmd = buf ? (MPT_STRUCT(command) *) (buf + 1) : 0;
	live = (MPT_STRUCT(command) *) calloc(n + 1, sizeof(*live));
	for (i = 0; i < n; i++) {
		if (cmd[i].cmd) live[nl++] = cmd[i];
	}
	qsort(live, nl, sizeof(*live), by_id);
	j_arr_open("table");
	for (i = 0; i < nl; i++) {
		int user = live[i].cmd == (int (*)(void *, void *)) handler;
		j_item_obj_open();
		j_int("id", (long) live[i].id);
		j_str("kind", user ? "user" : "stock");
		j_int("ref", user ? (long) (intptr_t) live[i].arg : mt_index(live[i].arg));
		j_close();
	}
	j_arr_close();
	free(live);

	j_arr_open("refs");
	for (m = 1; m < NMT; m++) j_item_int(cm[m].refs);
	j_arr_close();

	drv_dbg();
	j_int("slots", (long long) n);
	j_int("def", (long long) disp._def);
}
static void answer_str(struct cmd *c, const char *ret)
{
	drv_begin(c);
	j_str("ret", ret);
	emit_rest();
	drv_end();
}
static void answer_int(struct cmd *c, int r)
{
	drv_begin(c);
	j_int("ret", r < 0 ? -1 : r);
	emit_rest();
	drv_end();
}

static void drv_step(struct cmd *c)
{
	const char *a = c->action;

	ncalls = 0;
	reps_free();
	after_present = 0; after_val = 0;
	hr_r = (int) drv_int(c, "r", 0);
	reply_ret = (int) drv_int(c, "rret", 0);

	if (!strcmp(a, "init")) {
		drv_reset();
		mpt_dispatch_init(&disp);
		answer_str(c, "ok");
		return;
	}
	if (!strcmp(a, "install")) {
		int m = (int) drv_int(c, "m", 0), r;
		MPT_INTERFACE(metatype) *mt = (m > 0 && m < NMT) ? &cm[m]._mt : 0;
		if (mt) {
			cm[m].refs++;     /* the reference handed over */
			cm[m].failref = (int) drv_int(c, "failref", 0);
		}
		r = mpt_dispatch_param(&disp, mt);
		if (mt) {
			cm[m].failref = 0;
			if (r < 0) cm[m].refs--;   /* nothing registered: the caller keeps (and here drops) its reference */
		}
		answer_str(c, r < 0 ? "refused" : "ok");
	}
	else if (!strcmp(a, "set")) {
		int r = mpt_dispatch_set(&disp, (uintptr_t) drv_uint(c, "id", 0), handler, (void *) (intptr_t) drv_int(c, "tok", 0));
		answer_str(c, r < 0 ? "refused" : "ok");
	}
	else if (!strcmp(a, "clear")) {
		int r = mpt_dispatch_set(&disp, (uintptr_t) drv_uint(c, "id", 0), 0, 0);
		answer_str(c, r < 0 ? "refused" : "ok");
	}
	else if (!strcmp(a, "cmdset")) {
		int n = (int) drv_int(c, "new", 1);
		int r = mpt_command_set(&disp._d, (uintptr_t) drv_uint(c, "id", 0), n ? (int (*)(void *, void *)) handler : 0,
		                        n ? (void *) (intptr_t) drv_int(c, "tok", 0) : 0);
		answer_str(c, r < 0 ? "refused" : "ok");
	}
	else if (!strcmp(a, "fini")) {
		mpt_dispatch_fini(&disp);
		qsort(calls, (size_t) ncalls, sizeof(*calls), by_call_tok);
		answer_str(c, "ok");
	}
	else if (!strcmp(a, "emit")) {
		MPT_STRUCT(event) ev = MPT_EVENT_INIT;
		MPT_STRUCT(message) msg = MPT_MESSAGE_INIT;
		size_t len = 0, ncut = 0;
		uint8_t *pay = drv_bytes(c, "payload", &len);
		long long *cuts = drv_ints(c, "cuts", &ncut);
		int hdr = (int) drv_int(c, "hdr", 2);     /* header bytes present: 2, 1 or 0 */
		uint8_t *all = (uint8_t *) malloc(len + 2);
		size_t total = 0;
		int r;
		if (hdr > 0) all[total++] = (uint8_t) drv_uint(c, "cmd", 0);
		if (hdr > 1) all[total++] = (uint8_t) drv_uint(c, "sep", 0);
		memcpy(all + total, pay, len);
		total += len;
		frag_make(&msg, all, total, cuts, ncut);
		name_note(pay, len);
		ev.msg = &msg;
		if (drv_int(c, "reply", 0)) ev.reply = &rctx;
		r = mpt_dispatch_emit(&disp, &ev);
		if (hdr > 1) after_read((int) drv_uint(c, "cmd", 0), (int) drv_uint(c, "sep", 0), pay, len);
		answer_int(c, r);
		free(pay); free(all); free(cuts); frag_free();
	}
	else if (!strcmp(a, "emitid")) {
		/* event carrying an id and no message */
		MPT_STRUCT(event) ev = MPT_EVENT_INIT;
		int r;
		ev.id = (uintptr_t) drv_uint(c, "id", 0);
		if (drv_int(c, "reply", 0)) ev.reply = &rctx;
		r = mpt_dispatch_emit(&disp, &ev);
		answer_int(c, r);
	}
	else if (!strcmp(a, "probe")) {
		/* independent read of one path ('.' separated text) of the configuration behind metatype m */
		int m = (int) drv_int(c, "m", 0);
		size_t len = 0;
		uint8_t *p = drv_bytes(c, "path", &len);
		char *txt = (char *) malloc(len + 1);
		const char *val = 0;
		int r;
		memcpy(txt, p, len); txt[len] = 0;
		r = mpt_config_get(cfg_of(m), txt, 's', &val);
		drv_begin(c);
		j_int("present", (r < 0 || !val) ? 0 : 1);
		j_bytes("val", val ? val : "", (r < 0 || !val) ? 0 : strlen(val));
		drv_dbg();
		j_int("r", r);
		drv_end();
		free(p); free(txt);
	}
	else {
		drv_begin(c); j_str("ret", "unknown-action"); drv_dbg(); drv_end();
	}
}

int main(int argc, char **argv)
{
	return drv_main(argc, argv);
}
